/-
C05 — Bad input or a sudden disconnect hurts nobody else.

"Whatever bytes a connection sends, before or after CONNECT — truncated,
oversized or garbage packets included — and whenever and however it
disconnects, the broker process keeps running, at most that one connection is
closed, and every other client's connection stays open and keeps receiving
exactly the messages it should."

Property theorems only (helper lemmas: `Proofs/Framing.lean`, `Proofs/FramingIso.lean`,
`Proofs/BrokerIso.lean`).  Models: `Model/Framing.lean` (getMessageBuffer,
getConnectMessage, peekMessageSize, peekMessage over byte streams; `panicked` is
an explicit outcome), `Model/Codec.lean` (the decoders), `Model/Broker.lean` (one
event = one step).  The theorems quantify over *every* byte stream
(`List UInt8`, no length bound), every ring size, every broker state (with the
proved invariant where a session reference has to be fresh) and every
connection identifier.

(i)   the decoders the connection paths call never panic                 — §1
(ii)  framing ends in packet | needMore | closeThis, consumes only bytes of
      its own stream, allocates boundedly                                — §2
(iii) an event of connection A leaves every other connection's table entry,
      liveness and session object alone; what it emits to others is the
      fan-out of an accepted PUBLISH or of A's will and nothing else     — §3
(iv)  any number of events of A, its end included, never closes B; a byte
      stream on A is such a sequence of events, ending at most in `close A` — §4

What stays outside: a real panic, out-of-memory or goroutine death is a runtime
event; the model has it only as the explicit outcome of the steps it contains
(decoders, framing).  Logging, TLS, the websocket bridge are not modelled.  The
step granularity (one event = one atomic step) is the broker model's (C01).
-/
import Mqtt.Proofs.FramingIso
import Mqtt.Proofs.BrokerQos
import Mqtt.Properties.C04

namespace Mqtt.Properties.C05

open Mqtt.Model.Framing Mqtt.Model.Broker
open Mqtt.Iface.Broker hiding Bytes
open Mqtt.Model.Codec (decodeNew Decoded)
open Mqtt.Proofs.Framing Mqtt.Proofs.BrokerIso Mqtt.Proofs.BrokerLife
open Mqtt.Proofs.Broker (fwdOk)

/-! ### 0. the regenerated constants -/

/-- The limits the framing model takes from the source are the ones the bounds below are
stated for: at most four remaining-length bytes before CONNECT (`l > 4`), `cnt` from 2 to 5
after it; the default ring holds 256 KiB; `peekMessage` refuses a QoS 1/2 PUBLISH without packet
identifier; `handleConnection` and `processor` recover from a panic; an error of
`processIncoming` other than DISCONNECT does not end the processor. -/
theorem C05_facts :
    Generated.framingPreMaxHeader = 4 ∧ Generated.framingPostCntStart = 2 ∧ Generated.framingPostMaxCnt = 5 ∧
    Generated.defaultBufferSize = 262144 ∧ Generated.framingRejectsPublishIdZero = true ∧
    Generated.framingAcceptRecovers = true ∧
    Generated.framingProcessorRecovers = true ∧ Generated.framingNonFatalContinues = true := by decide

/-! ### 1. decoding is total -/

/-- `Type(t).New()` followed by `Decode(src)` — what `peekMessage` does with the bytes of a
packet and `getConnectMessage` with the first packet (t = 1) — never panics, for every type
number and every byte string, and a success reports at most the bytes it was given
(corollary of C04). -/
theorem C05_decode_total (t : Nat) (src : Bytes) :
    decodeNew t src ≠ .panic ∧ ∀ d, decodeNew t src = .ok d → d.n ≤ src.length :=
  ⟨Mqtt.Properties.C04.decode_total t src, fun d h => Mqtt.Properties.C04.decode_count_le t src d h⟩

/-! ### 2. framing is total, local and bounded -/

/-- **Before CONNECT**, for every byte stream: `getConnectMessage` ends in a decoded CONNECT,
a refusal (decode error, with or without CONNACK code), `needMore` (the stream ends inside the
first packet: read error or connect deadline) or a framing error — never in a panic.  It
consumes a prefix of that stream (`n ≤ length`, and the decoder sees exactly `stream.take n`),
and every slice it allocates has at most 1 + 4 + 268 435 455 bytes: what a four-byte remaining
length can announce. -/
theorem C05_framing_total_pre (stream : Bytes) :
    (getConnectMessage stream).outcome ≠ .panicked ∧
    FirstOutcome.consumed (getConnectMessage stream).outcome ≤ stream.length ∧
    (∀ c n, (getConnectMessage stream).outcome = .connect c n →
      2 ≤ n ∧ ∃ d h, decodeNew Generated.tCONNECT (stream.take n) = .ok d ∧ d.msg = .connect h c) ∧
    (∀ a ∈ (getConnectMessage stream).allocs, a ≤ 1 + 4 + 268435455) := by
  obtain ⟨h1, h2, h3, _, h5⟩ := getConnectMessage_spec stream
  exact ⟨h1, h2, h3, h5⟩

/-- **After CONNECT**, for every ring size and every byte stream: one round of the processor
loop (`peekMessageSize`, `peekMessage`) ends in a decoded packet, `needMore` or `closeThis` —
never in a panic (nor in the model's own loop bound).  A packet is decoded from exactly the
first `total` bytes of that stream, with `1 ≤ total ≤` ring size, it is not a QoS 1/2 PUBLISH
without packet identifier, and every (copying) read asks for at most the ring size. -/
theorem C05_framing_total_post (sz : Nat) (avail : Bytes) :
    (nextPacket sz avail).outcome ≠ .panicked ∧ (nextPacket sz avail).outcome ≠ .stuck ∧
    (∀ d total, (nextPacket sz avail).outcome = .packet d total →
      1 ≤ total ∧ total ≤ avail.length ∧ total ≤ sz ∧ (∃ t, decodeNew t (avail.take total) = .ok d) ∧
      publishIdMissing d.msg = false) ∧
    (∀ a ∈ (nextPacket sz avail).allocs, a ≤ sz) :=
  nextPacket_spec sz avail

/-- The outcomes, spelled out: packet | needMore | closeThis. -/
theorem C05_framing_outcomes (sz : Nat) (avail : Bytes) :
    (∃ d total, (nextPacket sz avail).outcome = .packet d total) ∨
    (nextPacket sz avail).outcome = .needMore ∨ (nextPacket sz avail).outcome = .closeThis := by
  obtain ⟨h1, h2, _, _⟩ := nextPacket_spec sz avail
  cases h : (nextPacket sz avail).outcome with
  | packet d total => exact .inl ⟨d, total, rfl⟩
  | needMore => exact .inr (.inl rfl)
  | closeThis => exact .inr (.inr rfl)
  | panicked => exact absurd h h1
  | stuck => exact absurd h h2

/-- non-vacuity: a PINGREQ is framed and decoded; one byte of it is `needMore`; a fifth length
byte, a packet larger than the ring, packet types 0 and 15, a PUBLISH with a topic running
past its remaining length and a QoS 1 PUBLISH with packet identifier 0 are `closeThis`; before CONNECT `10 ff ff ff ff 7f` is an error after
five bytes (no allocation beyond them), and `10 ff ff ff 7f` waits with 268 435 455 bytes
allocated. -/
example :
    (match (nextPacket 16384 [0xc0, 0x00, 0x30]).outcome with | .packet _ 2 => true | _ => false) = true ∧
    (nextPacket 16384 [0xc0]).outcome = .needMore ∧
    (nextPacket 16384 [0x30, 0x80, 0x80, 0x80, 0x80, 0x01]).outcome = .closeThis ∧
    (nextPacket 16384 [0x30, 0x80, 0x80, 0x01]).outcome = .closeThis ∧
    (nextPacket 16384 [0x00, 0x00]).outcome = .closeThis ∧
    (nextPacket 16384 [0xf0, 0x00]).outcome = .closeThis ∧
    (nextPacket 16384 [0x30, 0x03, 0x00, 0x09, 0x61, 0x62]).outcome = .closeThis ∧
    (nextPacket 16384 [0x32, 0x06, 0x00, 0x01, 0x77, 0x00, 0x00, 0xaa]).outcome = .closeThis ∧
    getConnectMessage [0x10, 0xff, 0xff, 0xff, 0xff, 0x7f] = ⟨.error, [1, 5]⟩ ∧
    getConnectMessage [0x10, 0xff, 0xff, 0xff, 0x7f] = ⟨.needMore, [1, 5, 268435455, 268435460]⟩ := by
  decide

/-! ### 3. isolation: one event of connection A -/

/-- **Table entry and liveness of every other connection are untouched** by an event of `A`
(first packet — accepted or refused —, any packet, the end of the connection), in every
broker state — with the one exception MQTT demands: an acceptable CONNECT that carries the
client identifier of a live connection disconnects that connection (MQTT-3.1.4-2;
`noTakeOver b e`: the event is not such a CONNECT, `takenOver b f a = []`). -/
theorem C05_other_connections_untouched (b : B) (A B' : Nat) (e : Ev) (he : onConn A e = true) (hne : B' ≠ A)
    (hto : noTakeOver b e) :
    (step b e).1.getConn B' = b.getConn B' ∧ (step b e).1.alive B' = b.alive B' :=
  ⟨step_getConn_other b A B' e he hne hto, step_alive_other b A B' e he hne hto⟩

/-- ... and a CONNECT that does take over ends exactly the live connections that carry its
client identifier: every other connection keeps its table entry (`takenOver`). -/
theorem C05_take_over_ends_only_same_client (b : B) (A B' : Nat) (f : First) (a : Bool) (hne : B' ≠ A)
    (hB : B' ∉ takenOver b f a) :
    (step b (.first A f a)).1.getConn B' = b.getConn B' :=
  step_conn_kept b (.first A f a) B' (fun h => h.elim (fun e => hne e.symm) hB)

/-- **Session objects of others are untouched**: every session object `r` that is not the one
serving `A` and not the one an accepted CONNECT of `A` resumes (same client identifier) is
exactly what it was — subscriptions, will, open QoS 2 exchanges. -/
theorem C05_other_sessions_untouched (b : B) (hi : Inv b) (A : Nat) (e : Ev) (he : onConn A e = true)
    (r : Nat) (s : Sess) (hs : b.getSess r = some s) (hsh : ¬ sharesSession b A r e) (hto : noTakeOver b e) :
    (step b e).1.getSess r = some s :=
  step_getSess_other hi A e he r s hs hsh hto

/-- **What an event of `A` emits**: packets to `A` itself, the close of `A`, and fan-out items
(`fwdOk`: a PUBLISH with RETAIN = 0 written to a connection, or an in-process callback).  In
particular no other connection is closed, and nothing but such a PUBLISH is written to one. -/
theorem C05_outputs (b : B) (A : Nat) (e : Ev) (he : onConn A e = true) (hto : noTakeOver b e) :
    (∀ o ∈ (step b e).2, isoOut A o = true) ∧
    ∀ B', B' ≠ A → Out.closed B' ∉ (step b e).2 ∧
      ∀ p, Out.send B' p ∈ (step b e).2 → ∃ w, p = .publish w ∧ w.retain = false := by
  refine ⟨step_iso b A e he hto, fun B' hne => ⟨fun hm => ?_, fun p hm => ?_⟩⟩
  · exact (isoOut_other hne (step_iso b A e he hto _ hm)).1 rfl
  · exact (isoOut_other hne (step_iso b A e he hto _ hm)).2 p rfl

/-- **Only messages reach others.**  An event of `A` that hands no application message to the
fan-out — a refused or accepted first packet, SUBSCRIBE, UNSUBSCRIBE, every acknowledgement,
PINGREQ, DISCONNECT, a QoS 2 PUBLISH (held until its PUBREL), packets a client has no business
sending, anything on a connection that is not live — emits to `A` alone. -/
theorem C05_quiet_events_reach_nobody (b : B) (A : Nat) (e : Ev) (he : onConn A e = true) (hq : quietEv e = true)
    (hto : noTakeOver b e) : ∀ o ∈ (step b e).2, ownOut A o = true :=
  step_quiet_own b A e he hq hto

/-- **…and the messages are exactly the prescribed fan-out.**  On a live connection a QoS 0
PUBLISH emits exactly the fan-out `onPublish` computes, a QoS 1 PUBLISH the PUBACK to `A`
followed by it, a PUBREL the fan-out of the released messages followed by the PUBCOMP to `A`;
`C01_fanout_char` / `C01_publish_*` say what that fan-out is (one copy per matching
subscription at min(QoS)), `C08` what the retain step does. -/
theorem C05_publish_is_fanout (b : B) (A : Nat) (cn : Conn) (s : Sess) (p : Pub)
    (hc : b.getConn A = some cn) (ha : cn.alive = true) (hs : b.getSess cn.sess = some s) :
    (p.qos = 0 → (step b (.packet A (.publish p))).2 = (onPublish b ⟨p, false⟩).2.2.1) ∧
    (p.qos = 1 → (step b (.packet A (.publish p))).2 =
      .send A (.puback p.pktid) :: (onPublish b ⟨p, false⟩).2.2.1) ∧
    (∀ id, (step b (.packet A (.pubrel id))).2 =
      (releaseAll (b.setSess { s with pub2in := (q2Acked (q2Ack s.pub2in id)).1 })
        (q2Acked (q2Ack s.pub2in id)).2).2 ++ [.send A (.pubcomp id)]) := by
  refine ⟨fun h => ?_, fun h => ?_, fun id => ?_⟩
  · show (packet b A (.publish p)).2 = _
    rw [Mqtt.Proofs.BrokerQos.packet_publish0 hc ha hs p h]
  · show (packet b A (.publish p)).2 = _
    rw [Mqtt.Proofs.BrokerQos.packet_publish1 hc ha hs p h]
  · show (packet b A (.pubrel id)).2 = _
    rw [Mqtt.Proofs.BrokerQos.packet_pubrel hc ha hs id]

/-- The end of `A` without DISCONNECT — peer close, keep-alive expiry, framing or decoding
error, all `stop()` — emits the close of `A` followed by exactly the fan-out of `A`'s will
(`C09_will_published_once` and C01 say what that is), or the close alone when there is no
will; afterwards `A` is not live and everybody else is as live as before. -/
theorem C05_end_is_will_fanout (b : B) (A : Nat) (cn : Conn) (s : Sess)
    (hc : b.getConn A = some cn) (ha : cn.alive = true) (hs : b.getSess cn.sess = some s) :
    (s.willFlag = false → (step b (.close A)).2 = [.closed A]) ∧
    (∀ w, s.willFlag = true → s.will = some w →
      (step b (.close A)).2 = .closed A :: (onPublish (stopBase b A s) w).2.2.1) ∧
    (step b (.close A)).1.alive A = false ∧
    ∀ B', B' ≠ A → (step b (.close A)).1.alive B' = b.alive B' :=
  ⟨fun hf => stop_out_nowill b A cn s hc ha hs hf, fun w hf hw => stop_out_will b A cn s w hc ha hs hf hw,
   stop_not_alive b A, fun B' hne => stop_alive_ne b A B' hne⟩

/-- non-vacuity on the example state (connection 1: persistent, will on "w", subscribed to
"a/b" and "w"; connection 2: subscribed to "a/b" and "w"; callback 1000 on "w"): garbage on a
new connection 3 closes 3 and nothing else; connection 1 dropping publishes its will to
connection 2 and the callback and closes only itself; a QoS 0 PUBLISH of 2 reaches 1. -/
example :
    (step Ex.base2 (.first 3 .garbage true)).2 = [.closed 3] ∧
    (step Ex.base2 (.close 1)).2 =
      [.closed 1, .send 2 (.publish { qos := 1, topic := Ex.tW, pktid := 2, payload := [1] }),
       .call 1000 { qos := 0, topic := Ex.tW, pktid := 2, payload := [1] }] ∧
    (step Ex.base2 (.close 1)).1.alive 2 = true ∧ (step Ex.base2 (.close 1)).1.alive 1 = false ∧
    (step Ex.base2 (.packet 2 (.publish { qos := 0, topic := Ex.tAB, payload := [5] }))).2 =
      [.send 1 (.publish { qos := 0, topic := Ex.tAB, payload := [5] }),
       .send 2 (.publish { qos := 0, topic := Ex.tAB, payload := [5] })] := by
  decide

/-! ### 4. lifting: any number of events of A, and byte streams -/

/-- **Any sequence of events of `A`** — refused and accepted first packets, packets, its end,
in any number and order — leaves every other connection's table entry and liveness as they
were, closes nobody else, and writes to others nothing but PUBLISH packets with RETAIN = 0. -/
theorem C05_events_never_close_others (b : B) (A : Nat) (evs : List Ev) (h : ∀ e ∈ evs, onConn A e = true)
    (hto : noTakeOverRun b evs) (B' : Nat) (hne : B' ≠ A) :
    (run b evs).1.getConn B' = b.getConn B' ∧ (run b evs).1.alive B' = b.alive B' ∧
    ∀ os ∈ (run b evs).2, Out.closed B' ∉ os ∧
      ∀ p, Out.send B' p ∈ os → ∃ w, p = .publish w ∧ w.retain = false := by
  obtain ⟨h1, h2⟩ := run_iso A evs b h hto
  refine ⟨h1 B' hne, by unfold B.alive; rw [h1 B' hne], fun os hos => ⟨fun hm => ?_, fun p hm => ?_⟩⟩
  · exact (isoOut_other hne (h2 os hos _ hm)).1 rfl
  · exact (isoOut_other hne (h2 os hos _ hm)).2 p rfl

/-- **A byte stream is such a sequence.**  Whatever bytes arrive on accepted connection `A`
(any ring size, any packet bound of the model), the framing model turns them into packets of
`A` followed by at most one end of `A`, last (`StreamShape`); the bytes it leaves are a
suffix of the stream.  The first packet of a new connection is one `first` event of `A`.
More fuel than bytes changes nothing (`postEvents_fuel`). -/
theorem C05_stream_is_events_of_A (sz A fuel : Nat) (avail : Bytes) :
    StreamShape A (postEvents sz A fuel avail).1 ∧
    (∀ e ∈ (postEvents sz A fuel avail).1, onConn A e = true) ∧
    (∃ k, (postEvents sz A fuel avail).2 = avail.drop k) ∧
    (avail.length < fuel → postEvents sz A (fuel + 1) avail = postEvents sz A fuel avail) ∧
    ∀ auth ends e rest, firstEvent A auth avail ends = some (e, rest) →
      onConn A e = true ∧ ∃ k, rest = avail.drop k := by
  refine ⟨(postEvents_shape sz A fuel avail).1, postEvents_onConn sz A fuel avail,
    (postEvents_shape sz A fuel avail).2, postEvents_fuel sz A fuel avail, ?_⟩
  intro auth ends e rest h
  obtain ⟨⟨f, a, rfl⟩, hk⟩ := firstEvent_shape A auth avail ends e rest h
  exact ⟨by simp [onConn], hk⟩

/-- **No malformed PUBLISH is passed on.**  Every PUBLISH the framing hands to the broker model
has QoS 0 or a non-zero packet identifier — so the hypothesis of `C01_fanout_char` /
`C01_fanout_ids` on identifiers holds for everything a byte stream can make the broker forward,
and no subscriber is written a QoS 1/2 PUBLISH without identifier because of what another
connection sent (finding E11, repaired). -/
theorem C05_forwarded_publish_has_id (sz A fuel : Nat) (avail : Bytes) (p : Pub)
    (h : Ev.packet A (.publish p) ∈ (postEvents sz A fuel avail).1) : p.qos = 0 ∨ p.pktid ≠ 0 :=
  postEvents_publish_ids sz A fuel avail p h

/-- **The property on the model.**  For every broker state, every connection `A`, every byte
stream sent as the first thing on `A` and every byte stream sent afterwards, cut anywhere
(`ends`: the peer closes or the connect deadline passes), followed or not by the end of `A`:
every other connection `B'` keeps its table entry and its liveness, is never closed, and is
written nothing but PUBLISH packets with RETAIN = 0 — unless the first packet is an acceptable
CONNECT carrying the client identifier of a live connection, which MQTT-3.1.4-2 requires to
disconnect that connection (`hto`; `C05_take_over_ends_only_same_client` says whom) — (which §3 identifies as the fan-out of
`A`'s accepted publishes and of its will). -/
theorem C05_bytes_hurt_nobody_else (b : B) (sz A fuel : Nat) (auth : Auth) (first later : Bytes) (ends closes : Bool)
    (B' : Nat) (hne : B' ≠ A)
    (hto : ∀ e rest, firstEvent A auth first ends = some (e, rest) → noTakeOver b e) :
    let evs : List Ev :=
      (match firstEvent A auth first ends with
        | some (e, rest) => e :: (postEvents sz A fuel (rest ++ later)).1
        | none => []) ++ (if closes then [Ev.close A] else [])
    (run b evs).1.getConn B' = b.getConn B' ∧ (run b evs).1.alive B' = b.alive B' ∧
    ∀ os ∈ (run b evs).2, Out.closed B' ∉ os ∧
      ∀ p, Out.send B' p ∈ os → ∃ w, p = .publish w ∧ w.retain = false := by
  intro evs
  have hrun : noTakeOverRun b evs := by
    simp only [evs]
    cases hf : firstEvent A auth first ends with
    | none =>
      simp only [List.nil_append]
      apply noTakeOverRun_of_notFirst
      intro e he c f a h0
      split at he
      · simp only [List.mem_singleton] at he; rw [he] at h0; cases h0
      · cases he
    | some er =>
      obtain ⟨e1, rest⟩ := er
      simp only [List.cons_append]
      refine ⟨hto e1 rest hf, ?_⟩
      apply noTakeOverRun_of_notFirst
      intro e he c f a h0
      rcases List.mem_append.mp he with he | he
      · obtain ⟨ps, hps | hps⟩ := (postEvents_shape sz A fuel (rest ++ later)).1
        · rw [hps] at he; obtain ⟨p, _, rfl⟩ := List.mem_map.mp he; cases h0
        · rw [hps] at he
          rcases List.mem_append.mp he with he | he
          · obtain ⟨p, _, rfl⟩ := List.mem_map.mp he; cases h0
          · simp only [List.mem_singleton] at he; rw [he] at h0; cases h0
      · split at he
        · simp only [List.mem_singleton] at he; rw [he] at h0; cases h0
        · cases he
  apply C05_events_never_close_others b A evs _ hrun B' hne
  intro e he
  simp only [evs, List.mem_append] at he
  rcases he with he | he
  · cases hf : firstEvent A auth first ends with
    | none => rw [hf] at he; cases he
    | some er =>
      obtain ⟨e1, rest⟩ := er
      rw [hf] at he
      simp only [List.mem_cons] at he
      rcases he with rfl | he
      · obtain ⟨⟨f, a, rfl⟩, _⟩ := firstEvent_shape A auth first ends _ rest hf
        simp [onConn]
      · exact postEvents_onConn sz A fuel _ e he
  · split at he
    · simp only [List.mem_singleton] at he; subst he; simp [onConn]
    · cases he

/-- a CONNECT of client "C" (clean, will [9] on "w" at QoS 1, keep-alive 60) -/
def exFirst : Bytes := [0x10, 0x13, 0, 4, 77, 81, 84, 84, 4, 0x0e, 0, 60, 0, 1, 67, 0, 1, 119, 0, 1, 9]
/-- PUBLISH QoS 0 "a/b" [5], then a packet of reserved type 15 -/
def exLater : Bytes := [0x30, 6, 0, 3, 97, 47, 98, 5, 0xf0, 0]

/-- non-vacuity: connection 3 sends `exFirst`, then `exLater`; the stream amounts to `first`,
one packet and the end of 3; on the example state connection 3 gets its CONNACK, its PUBLISH
reaches the subscribers 1 and 2, then 3 is closed; its will goes to connections 1 and 2 and
the callback, which are live as before. -/
example :
    (match firstEvent 3 (fun _ _ => true) exFirst false with
      | some (.first 3 (.connect req) true, []) => req.clientId == [67] && req.will.isSome
      | _ => false) = true ∧
    (match (postEvents 16384 3 20 exLater).1 with
      | [.packet 3 (.publish p), .close 3] => p.topic == Ex.tAB && p.qos == 0 && p.payload == [5]
      | _ => false) = true ∧
    (match firstEvent 3 (fun _ _ => true) exFirst false with
      | some (e, _) =>
        let r := run Ex.base2 (e :: (postEvents 16384 3 20 exLater).1)
        decide (r.2 = [[.send 3 (.connack false 0)],
               [.send 1 (.publish { qos := 0, topic := Ex.tAB, payload := [5] }),
                .send 2 (.publish { qos := 0, topic := Ex.tAB, payload := [5] })],
               [.closed 3, .send 1 (.publish { qos := 1, topic := Ex.tW, pktid := 2, payload := [9] }),
                .send 2 (.publish { qos := 1, topic := Ex.tW, pktid := 2, payload := [9] }),
                .call 1000 { qos := 0, topic := Ex.tW, pktid := 2, payload := [9] }]] ∧
        r.1.alive 1 = true ∧ r.1.alive 2 = true ∧ r.1.alive 3 = false)
      | none => false) = true := by
  decide

/-! The tie to the Go source (the theorems `C05_…_is_source…` over the regenerated translation
`Mqtt.Generated.Xlate`) is in `Properties/C05Source.lean`, which nothing imports. -/

end Mqtt.Properties.C05
