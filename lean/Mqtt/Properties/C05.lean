/-
C05 — placeholder while the correspondence is brought up (replaced below).
-/
import Mqtt.Model.Framing
import Mqtt.Properties.C04

namespace Mqtt.Properties.C05
open Mqtt.Model.Codec

theorem C05_decode_total (t : Nat) (src : Mqtt.Iface.Codec.Bytes) : decodeNew t src ≠ .panic :=
  Mqtt.Properties.C04.decode_total t src

end Mqtt.Properties.C05
