/-
C04 — tie to the Go source.

`binary.Uvarint` and `header.decode` are the regenerated translation of the Go functions.

Moved out of `Properties/C04.lean` unchanged (same namespace, same names): this is the only
module of C04 that is built from the regenerated translation `Mqtt.Generated.Xlate`
(through `Proofs/Xlate*.lean`).  `bin/check C04` builds, lists, audits and counts it together
with `Properties/C04.lean`.  NOTHING may import this module (BUILDING.md, "Source-tie modules"):
a rewrite of a translated Go function must not stop other properties from building.
-/
import Mqtt.Properties.C04
import Mqtt.Proofs.XlateVarint
import Mqtt.Proofs.XlateHeader

set_option linter.unusedSimpArgs false
set_option maxRecDepth 8192

namespace Mqtt.Properties.C04

open Mqtt.Model.Codec Mqtt.Iface.Codec Mqtt.Proofs.Codec
open Mqtt.Spec

/-! ## Tie to the Go source: the remaining-length decoder

`Mqtt.Generated.Xlate.Binary.Uvarint` is produced from
`$GOROOT/src/encoding/binary/varint.go` by `extract/cmd/xlate` on every check. -/

/-- the standard library's `binary.Uvarint` (as found in the toolchain that builds the library) is
the model's `uvarint` on every byte string: same value (the model reduces modulo 2^64), same count
(0: buffer too small, negative: overflow) -/
theorem C04_Uvarint_is_source (buf : List UInt8) :
    Mqtt.Generated.Xlate.Binary.Uvarint buf = (UInt64.ofNat (uvarint buf).1, (uvarint buf).2) ∧
    (Mqtt.Generated.Xlate.Binary.Uvarint buf).1.toNat = (uvarint buf).1 :=
  ⟨Mqtt.Proofs.XlateVarint.uvarint_is_source buf, Mqtt.Proofs.XlateVarint.uvarint_is_source_val buf⟩

example : Mqtt.Generated.Xlate.Binary.Uvarint [0xc1, 0x02, 0xff] = (321, 2) := by decide

/-- `header.decode(src)` is the model's `Hdr.decode` on every byte string (`decToRes`: the model's
error ⇒ an error return; the model's `(header, n)` ⇒ `n`, a nil error and a receiver with exactly the
model's remaining length, type/flags byte and decoding buffer; the model's `.panic` ⇒ a panic, and
neither occurs: `XlateHeader.header_decode_returns`).  `_partial`: `mtypeflags` holds at most one byte
(`Type`, `SetType` and `decode` are the only code that assigns it, always one byte); the alias flag
`tfInBuf` of the model has no counterpart in the translation. -/
theorem C04_header_decode_is_source_partial (h : Mqtt.Generated.Xlate.Message.header)
    (h1 : h.mtypeflags.length ≤ 1) (src : List UInt8) :
    Mqtt.Proofs.XlateHeader.decToRes h (Mqtt.Generated.Xlate.Message.header.decode h src)
      (Hdr.decode (Mqtt.Proofs.XlateCodec.hdrOf h) src) ∧
    Hdr.decode (Mqtt.Proofs.XlateCodec.hdrOf h) src ≠ .panic :=
  ⟨Mqtt.Proofs.XlateHeader.header_decode_is_source h h1 src,
   (Mqtt.Proofs.XlateHeader.header_decode_returns h h1 src).1⟩

end Mqtt.Properties.C04
