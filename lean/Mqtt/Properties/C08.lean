/-
C08 — Retained messages: one per topic, delivered to new subscriptions with
RETAIN = 1, forwarded to existing subscriptions with RETAIN = 0.

Property theorems only (helper lemmas: `Proofs/BrokerFanout*.lean`).  Model:
`Model/Broker.lean` (`retainStep`, `onPublish`, `subscribeLoop`, `sendRetained`,
`srvSub`) over the retained trie of `Model/Topics.lean` and its finished
theorems (`Properties/C06.lean`); specification: `Spec/Broker.lean`.
-/
import Mqtt.Proofs.BrokerFanoutHistory
import Mqtt.Proofs.BrokerRefineCor
import Mqtt.Proofs.BrokerRefineCorX

set_option linter.unusedSimpArgs false

namespace Mqtt.Properties.C08
open Mqtt.Iface.Broker Mqtt.Model.Broker Mqtt.Proofs.Broker
open Mqtt.Model.Topics (RMsg RNode)
open Mqtt.Proofs.Topics (RWF absR good)
open Mqtt.Spec.Match (split validName validFilter matchLevels)
open Mqtt.Spec.Broker (subCode)

def exConnect (c : Nat) (cid : Bytes) : Ev :=
  .first c (.connect { protoName := [77, 81, 84, 84], version := 4, clean := true, will := none, clientId := cid }) true

/-- example state: connection 1 holds "a/+" (QoS 1), connection 2 "#" (QoS 1),
in-process subscriber 1000 "a/#" (QoS 1) -/
def exState : B :=
  (run {} [exConnect 1 [97], exConnect 2 [98], .srvSub 1000 [97, 47, 35] 1,
           .packet 1 (.subscribe 1 [([97, 47, 43], 1)]),
           .packet 2 (.subscribe 1 [([35], 1)])]).1

/-! ### (f) forwards to existing subscriptions carry RETAIN = 0 -/

/-- Every output of `onPublish` (any state, any message object - no
hypothesis at all) is a PUBLISH with RETAIN = 0 written to a connection, or an
invocation of an in-process callback (`Server.Subscribe`) with RETAIN = 0. -/
theorem C08_forward_retain_zero (b : B) (m : Msg) :
    ∀ o ∈ (onPublish b m).2.2.1,
      (∃ d w, o = .send d (.publish w) ∧ d < cbBase ∧ w.retain = false) ∨
      (∃ cb w, o = .call cb w ∧ cbBase ≤ cb ∧ w.retain = false) := by
  intro o ho
  have := onPublish_out0 b m o ho
  unfold fwdOk0 at this
  split at this
  · rename_i d w
    simp only [Bool.and_eq_true, Bool.not_eq_true', decide_eq_true_eq] at this
    exact Or.inl ⟨d, w, rfl, this.2, this.1⟩
  · rename_i cb w
    simp only [Bool.and_eq_true, Bool.not_eq_true', decide_eq_true_eq] at this
    exact Or.inr ⟨cb, w, rfl, this.2, this.1⟩
  · cases this

/-- the same in the words of the property - "messages forwarded to already
existing subscriptions carry retain flag 0": whatever `onPublish` writes to a
connection or hands to an in-process callback has RETAIN = 0 -/
theorem C08_forward_retain_zero_all (b : B) (m : Msg) :
    ∀ o ∈ (onPublish b m).2.2.1,
      match o with
      | .send _ (.publish w) => w.retain = false
      | .call _ w => w.retain = false
      | _ => True := by
  intro o ho
  rcases C08_forward_retain_zero b m o ho with ⟨d, w, rfl, _, h⟩ | ⟨cb, w, rfl, _, h⟩
  · exact h
  · exact h

/-- the same for the live fan-out itself (`fanoutLive`: flag cleared before the
loop), with the message object's own flag intact afterwards; and for the bare
loop as far as connections go (the closure clears the flag for its own write) -/
theorem C08_fanout_retain_zero (b : B) (m : Msg) (subs : List (Nat × Nat)) :
    (∀ d w, Out.send d (.publish w) ∈ (fanoutLive b m subs).2.2 → w.retain = false) ∧
    (∀ cb w, Out.call cb w ∈ (fanoutLive b m subs).2.2 → w.retain = false) ∧
    (fanoutLive b m subs).2.1.p.retain = m.p.retain ∧
    (∀ d w, Out.send d (.publish w) ∈ (fanout b m subs).2.2 → w.retain = false) := by
  obtain ⟨h1, h2⟩ := fanoutLive_out0 subs b m
  refine ⟨?_, ?_, h2, ?_⟩
  · intro d w ho
    have := h1 _ ho
    simp only [fwdOk0, Bool.and_eq_true, Bool.not_eq_true'] at this
    exact this.1
  · intro cb w ho
    have := h1 _ ho
    simp only [fwdOk0, Bool.and_eq_true, Bool.not_eq_true'] at this
    exact this.1
  · intro d w ho
    have := fanout_out subs b m _ ho
    simp only [fwdOk, Bool.and_eq_true, Bool.not_eq_true'] at this
    exact this.1

/-- On the whole step function: whatever the event - a PUBLISH of any QoS, a
PUBREL releasing stored messages, the will at a connection end, the in-process
`Publish`, ... - no PUBLISH with RETAIN = 1 is written to any connection,
except by the retained delivery of a SUBSCRIBE packet; and no in-process
callback is invoked with RETAIN = 1, except by the retained delivery of its own
`Server.Subscribe`. -/
theorem C08_step_retain_zero (b : B) (e : Ev) :
    (isSubscribeEv e = false → ∀ d w, Out.send d (.publish w) ∈ (step b e).2 → w.retain = false) ∧
    (isSrvSubEv e = false → ∀ cb w, Out.call cb w ∈ (step b e).2 → w.retain = false) := by
  constructor
  · intro he d w ho
    have := step_out b e he _ ho
    simpa [noRetainSend] using this
  · intro he cb w ho
    have := step_noCall b e he _ ho
    simpa [noRetainCall] using this

/-- Finding E10, repaired - an in-process subscriber sees what a connection
sees: RETAIN = 0 on a live forward (here: of a retained QoS 1 PUBLISH on "a/b",
and of the same message published through `Server.Publish`), RETAIN = 1 on the
retained delivery at subscription time. -/
theorem C08_callback_retain :
    (∀ (b : B) (m : Msg) (cb : Nat) (w : Pub), Out.call cb w ∈ (onPublish b m).2.2.1 → w.retain = false) ∧
    (∀ (b : B), Inv b → ∀ (cb : Nat) (f : Bytes) (q : Nat) (w : Pub),
      Out.call cb w ∈ (srvSub b cb f q).2 → w.retain = true) ∧
    (step exState (.packet 2 (.publish { qos := 1, retain := true, topic := [97, 47, 98], pktid := 5, payload := [7] }))).2 =
      [.send 2 (.puback 5),
       .call 1000 { qos := 1, retain := false, topic := [97, 47, 98], pktid := 5, payload := [7] },
       .send 1 (.publish { qos := 1, retain := false, topic := [97, 47, 98], pktid := 5, payload := [7] }),
       .send 2 (.publish { qos := 1, retain := false, topic := [97, 47, 98], pktid := 5, payload := [7] })] ∧
    (let b1 := (step exState (.srvPub { qos := 1, retain := true, topic := [97, 47, 98], payload := [7] })).1
     (step exState (.srvPub { qos := 1, retain := true, topic := [97, 47, 98], payload := [7] })).2 =
       [.call 1000 { qos := 1, retain := false, topic := [97, 47, 98], pktid := 1, payload := [7] },
        .send 1 (.publish { qos := 1, retain := false, topic := [97, 47, 98], pktid := 1, payload := [7] }),
        .send 2 (.publish { qos := 1, retain := false, topic := [97, 47, 98], pktid := 1, payload := [7] })] ∧
     (step b1 (.srvSub 1001 [97, 47, 98] 1)).2 =
       [.call 1001 { qos := 1, retain := true, topic := [97, 47, 98], pktid := 1, payload := [7] }]) := by
  refine ⟨?_, ?_, by decide, by decide⟩
  · intro b m cb w ho
    exact C08_forward_retain_zero_all b m _ ho
  · intro b hinv cb f q w ho
    exact srvSub_retain b hinv cb f q w ho

/-! ### (g) the retain step: one message per topic, last non-empty one wins, empty clears -/

/-- The retain step of `onPublish` on a well-formed retained trie, for a topic
name without empty levels that does not begin with '$' (`good`; finding B3 and
the topics outside the property's quantifier are outside).  RETAIN = 0: nothing changes.  RETAIN = 1 with an empty payload:
exactly the entry under the topic's path disappears, every other entry stays.
RETAIN = 1 with a non-empty payload: the entry under the topic's path is
replaced by (or added as) one message with the PUBLISH's topic, QoS and payload
and RETAIN = 1; every other entry stays.  The subscription trie, connections
and sessions are never touched. -/
theorem C08_retain_step_partial (b : B) (m : Msg) (hwf : RWF b.topics.rroot)
    (hg : good m.p.topic = true) (hn : validName m.p.topic = true) :
    RWF (retainStep b m).1.topics.rroot ∧
    (m.p.retain = false → retainStep b m = (b, m)) ∧
    (m.p.retain = true → m.p.payload = [] →
      (absR (retainStep b m).1.topics.rroot).Perm
        ((absR b.topics.rroot).filter (fun e => !(e.1 == split m.p.topic)))) ∧
    (m.p.retain = true → m.p.payload ≠ [] →
      ∃ r : RMsg, r.topic = m.p.topic ∧ r.qos = m.p.qos ∧ r.payload = m.p.payload ∧ r.retain = true ∧
        (absR (retainStep b m).1.topics.rroot).Perm
          ((absR b.topics.rroot).filter (fun e => !(e.1 == split m.p.topic)) ++ [(split m.p.topic, r)])) ∧
    (retainStep b m).1.topics.sroot = b.topics.sroot ∧ (retainStep b m).1.conns = b.conns ∧
    (retainStep b m).1.sess = b.sess := by
  obtain ⟨e1, e2⟩ := Mqtt.Proofs.Topics.entryLevels_valid m.p.topic hg
    (Mqtt.Proofs.Topics.validName_validFilter _ hn)
  have ht : m.p.topic ≠ [] := by
    intro h0; rw [h0] at hn; exact absurd hn (by decide)
  obtain ⟨f1, f2, f3, _, _⟩ := retainStep_frame b m
  refine ⟨?_, retainStep_noretain b m, ?_, ?_, f1, f2, f3⟩
  · cases hr : m.p.retain with
    | false => rw [retainStep_noretain b m hr]; exact hwf
    | true =>
      by_cases hp : m.p.payload = []
      · rw [(retainStep_clear b m hr hp).1]
        exact Mqtt.Proofs.Topics.rremoveL_RWF _ _ _ hwf
      · obtain ⟨r, _, _, _, _, _, hroot⟩ := retainStep_store b m hr hp e2 ht
        rw [hroot]
        exact Mqtt.Proofs.Topics.rinsertL_RWF _ _ _ _ hwf
  · intro hr hp
    rw [(retainStep_clear b m hr hp).1, e1, e2]
    exact Mqtt.Proofs.Topics.rremoveL_absR _ _ hwf
  · intro hr hp
    obtain ⟨r, r1, r2, r3, r4, _, hroot⟩ := retainStep_store b m hr hp e2 ht
    refine ⟨r, r1, r2, r3, r4, ?_⟩
    rw [hroot, e1]
    exact Mqtt.Proofs.Topics.rinsertL_absR _ _ _ hwf

/-- "At most one retained message per topic": after a retained PUBLISH with a
non-empty payload the trie holds exactly one message under the topic's path. -/
theorem C08_one_per_topic_partial (b : B) (m : Msg) (hwf : RWF b.topics.rroot)
    (hg : good m.p.topic = true) (hn : validName m.p.topic = true)
    (hr : m.p.retain = true) (hp : m.p.payload ≠ []) :
    ∃ r : RMsg, r.topic = m.p.topic ∧ r.qos = m.p.qos ∧ r.payload = m.p.payload ∧
      ((absR (retainStep b m).1.topics.rroot).filter (fun e => e.1 == split m.p.topic)).Perm
        [(split m.p.topic, r)] := by
  obtain ⟨r, r1, r2, r3, _, hperm⟩ := (C08_retain_step_partial b m hwf hg hn).2.2.2.1 hr hp
  refine ⟨r, r1, r2, r3, ?_⟩
  have := hperm.filter (fun e => e.1 == split m.p.topic)
  refine this.trans ?_
  rw [List.filter_append, List.filter_filter]
  simp

/-- The retain step against the specification's retained store
(`Spec.Broker.retainStep`: drop the topic's message, append the new one unless
the payload is empty): if the trie holds exactly the messages `rets` - each
under the path of its topic, with topic, QoS and payload as listed and
RETAIN = 1 - then after the step it holds exactly the specification's next
list.  By induction over histories: the retained message of a topic is the
most recent retained PUBLISH with a non-empty payload since the last empty one. -/
theorem C08_retain_refines_partial (b : B) (m : Msg) (rets : List Mqtt.Spec.Broker.Ret)
    (h : RetInv b.topics.rroot rets) (hg : good m.p.topic = true) (hn : validName m.p.topic = true) :
    RetInv (retainStep b m).1.topics.rroot (Mqtt.Spec.Broker.retainStep { rets := rets } m.p).rets :=
  retainStep_refines b m rets h hg hn

/-- the full statement: all valid topic names -/
def C08_retain_refines_full : Prop :=
  ∀ (b : B) (m : Msg) (rets : List Mqtt.Spec.Broker.Ret), RetInv b.topics.rroot rets → validName m.p.topic = true →
    RetInv (retainStep b m).1.topics.rroot (Mqtt.Spec.Broker.retainStep { rets := rets } m.p).rets

/-- False of the code as it is (finding B3): a retained message on "a/" (two
levels, the second empty) is stored under the path of "a" and replaces the
message retained there. -/
theorem C08_retain_refines_full_counterexample : ¬ C08_retain_refines_full := by
  intro h
  let m0 : Msg := ⟨{ qos := 0, retain := true, topic := [97], payload := [1] }, false⟩
  let m1 : Msg := ⟨{ qos := 0, retain := true, topic := [97, 47], payload := [2] }, false⟩
  have h0 := retainStep_refines {} m0 [] RetInv_empty (by decide) (by decide)
  have h1 := (h (retainStep {} m0).1 m1 _ h0 (by decide)).perm.length_eq
  exact absurd h1 (by decide)

/-- non-vacuity: store on "a/b", replace it, store on "a", clear "a/b" -/
example :
    let pub (t : Bytes) (q : Nat) (pl : Bytes) : Ev := .packet 2 (.publish { qos := q, retain := true, topic := t, payload := pl })
    let b1 := (run exState [pub [97, 47, 98] 0 [1], pub [97, 47, 98] 0 [2], pub [97] 0 [3]]).1
    let b2 := (step b1 (pub [97, 47, 98] 0 [])).1
    (absR b1.topics.rroot).map retOf = [([[97]], ⟨[97], 0, [3]⟩), ([[97], [98]], ⟨[97, 47, 98], 0, [2]⟩)] ∧
    (absR b2.topics.rroot).map retOf = [([[97]], ⟨[97], 0, [3]⟩)] := by
  decide

/-! ### stored messages survive all other traffic -/

/-- "No matter what traffic happened since": an event that carries no
application message into the broker (CONNECT, SUBSCRIBE, UNSUBSCRIBE, acks,
pings, the in-process Subscribe/Unsubscribe) leaves the retained trie exactly
as it is; and the fan-out part of a publish does not touch it either - after
`onPublish` the store is what the retain step made of it. -/
theorem C08_retained_untouched (b : B) (hinv : Inv b) :
    (∀ e : Ev, carriesNoMessage e = true → (step b e).1.topics.rroot = b.topics.rroot) ∧
    (∀ m : Msg, (onPublish b m).1.topics = (retainStep b m).1.topics) :=
  ⟨fun e he => step_rroot b hinv e he, fun m => onPublish_topics b m⟩

/-- "... or retained updates": a PUBLISH on one topic (retained or not, empty or
not) leaves the messages stored for all other topics as they are. -/
theorem C08_other_topics_untouched_partial (b : B) (m : Msg) (hinv : Inv b)
    (hg : good m.p.topic = true) (hn : validName m.p.topic = true) :
    ((absR (onPublish b m).1.topics.rroot).filter (fun e => !(e.1 == split m.p.topic))).Perm
      ((absR b.topics.rroot).filter (fun e => !(e.1 == split m.p.topic))) := by
  rw [onPublish_topics]
  obtain ⟨_, h0, h1, h2, _⟩ := C08_retain_step_partial b m hinv.rwf hg hn
  cases hr : m.p.retain with
  | false => rw [h0 hr]
  | true =>
    by_cases hp : m.p.payload = []
    · have := (h1 hr hp).filter (fun e => !(e.1 == split m.p.topic))
      rw [List.filter_filter] at this
      simpa using this
    · obtain ⟨r, _, _, _, _, hperm⟩ := h2 hr hp
      have := hperm.filter (fun e => !(e.1 == split m.p.topic))
      rw [List.filter_append, List.filter_filter] at this
      simpa using this

/-! ### over histories: the most recent non-empty retained PUBLISH per topic -/

/-- The specification's retained store, started empty and fed the accepted
messages `ps` in order, holds for every topic `T` at most one message: that of
the most recent PUBLISH with RETAIN = 1 on `T` if its payload is non-empty,
nothing if that payload is empty (or there was no such PUBLISH). -/
theorem C08_spec_most_recent (T : Bytes) (ps : List Pub) :
    (specRets [] ps).filter (fun r => r.topic == T) =
      match (ps.filter (fun p => p.retain && p.topic == T)).getLast? with
      | some p => if p.payload.isEmpty then [] else [⟨T, p.qos, p.payload⟩]
      | none => [] :=
  specRets_char T ps

/-- Histories.  From the initial state, along ANY sequence of moves - events
that carry no application message (a first packet without client identifier or that is
no CONNECT - a CONNECT with a client identifier may end an existing connection of that
client, MQTT-3.1.4-2, and publish its will: histories with such events are covered by
`C08_refines_reference` -, SUBSCRIBE, UNSUBSCRIBE, acks, pings,
in-process Subscribe/Unsubscribe: `Act.ev`) interleaved with acceptances of
messages on good valid topic names (`Act.pub`: `onPublish`) - the invariant
holds and the retained trie holds exactly the specification's store for the
accepted messages: by `C08_spec_most_recent`, per topic the most recent
retained PUBLISH with a non-empty payload since the last empty one - topic, QoS
and payload as received, no matter what happened in between. -/
theorem C08_history_partial (acts : List Act) (hok : ∀ a ∈ acts, a.ok = true) :
    Inv (acts.foldl actStep {}) ∧
    RetInv (acts.foldl actStep {}).topics.rroot (specRets [] (pubsOf acts)) :=
  acts_refine acts {} [] Inv_init RetInv_empty hok

/-- non-vacuity: connect, retain "a" twice, subscribe, clear "a", retain "b", ping -/
example :
    let pub (t pl : Bytes) : Act := .pub ⟨{ qos := 1, retain := true, topic := t, pktid := 4, payload := pl }, false⟩
    let acts : List Act := [.ev (exConnect 1 []), pub [97] [1], pub [97] [2], .ev (.packet 1 (.subscribe 1 [([35], 1)])),
                            pub [97] [], pub [98] [3], .ev (.packet 1 .pingreq)]
    (∀ a ∈ acts, a.ok = true) ∧ specRets [] (pubsOf acts) = [⟨[98], 1, [3]⟩] ∧
    (absR (acts.foldl actStep {}).topics.rroot).map retOf = [([[98]], ⟨[98], 1, [3]⟩)] := by
  decide

/-! ### (h) a new subscription immediately receives exactly the matching retained messages -/

/-- The SUBSCRIBE step without any hypothesis on the filters: after the SUBACK
the connection is sent, per accepted filter in request order, the list
`Retained(filter)` returned (`retainedOf`), each stored message `r` as
`retainedPub r granted`: stored topic, payload, DUP and RETAIN flag, QoS
min(stored, granted), the stored identifier (none at QoS 0).  Nothing else is
written.  (`htop`: stored topics are non-empty - true of everything stored for a
valid topic name.) -/
theorem C08_subscribe_delivers_retained (b : B) (hinv : Inv b) (c id : Nat) (topics : List (Bytes × Nat))
    (hl : b.alive c = true) (htop : ∀ e ∈ absR b.topics.rroot, e.2.topic ≠ []) :
    (packet b c (.subscribe id topics)).2 =
      Out.send c (.suback id (topics.map (fun tq => modelCode tq.1 tq.2))) ::
      topics.flatMap (fun tq =>
        if accepts tq.1 tq.2 then
          (retainedOf b.topics tq.1).map (fun r =>
            Out.send c (.publish (retainedPub r (min tq.2 Mqtt.Generated.maxQosAllowed))))
        else []) :=
  packet_subscribe_out b hinv c id topics hl htop

/-- For requests whose filters have no empty level and do not begin with '$'
(finding B3 is outside): the output of the SUBSCRIBE step is the SUBACK with the
specification's codes, followed - per granted filter, in request order - by the
stored retained messages whose path matches the filter under section 4.7, in
some order within the filter (Go map iteration), each with RETAIN = 1, QoS
min(stored QoS, granted QoS), topic and payload as stored. -/
theorem C08_subscribe_delivers_retained_partial (b : B) (hinv : Inv b) (c id : Nat)
    (topics : List (Bytes × Nat)) (hl : b.alive c = true)
    (htop : ∀ e ∈ absR b.topics.rroot, e.2.topic ≠ []) (hg : ∀ tq ∈ topics, good tq.1 = true) :
    (packet b c (.subscribe id topics)).2 =
      Out.send c (.suback id (topics.map (fun tq => subCode tq.1 tq.2))) ::
      topics.flatMap (fun tq =>
        if subCode tq.1 tq.2 = 0x80 then []
        else (retainedOf b.topics tq.1).map (fun r => Out.send c (.publish (retainedPub r (subCode tq.1 tq.2))))) ∧
    ∀ tq ∈ topics, subCode tq.1 tq.2 ≠ 0x80 →
      (retainedOf b.topics tq.1).Perm
        (((absR b.topics.rroot).filter (fun e => matchLevels (split tq.1) e.1)).map (·.2)) ∧
      ∀ r ∈ retainedOf b.topics tq.1, (retainedPub r (subCode tq.1 tq.2)).retain = true := by
  constructor
  · rw [packet_subscribe_out b hinv c id topics hl htop]
    congr 1
    · congr 2
      apply List.map_congr_left
      intro tq htq
      exact modelCode_good tq.1 tq.2 (hg tq htq)
    · apply Mqtt.Proofs.Topics.flatMap_congr'
      intro tq htq
      obtain ⟨c1, c2⟩ := subCode_granted tq.1 tq.2
      rw [accepts_good tq.1 tq.2 (hg tq htq)]
      cases hcond : (validFilter tq.1 && decide (tq.2 ≤ 2)) with
      | false =>
        rw [hcond] at c1
        have : subCode tq.1 tq.2 = 0x80 := by simpa using c1
        simp [this]
      | true =>
        rw [hcond] at c1
        have : subCode tq.1 tq.2 ≠ 0x80 := by simpa using c1
        rw [if_neg this, c2 hcond]
        simp only [↓reduceIte]
  · intro tq htq hcode
    obtain ⟨c1, _⟩ := subCode_granted tq.1 tq.2
    have hcond : (validFilter tq.1 && decide (tq.2 ≤ 2)) = true := by
      rw [← c1]; simpa using hcode
    have hv : validFilter tq.1 = true := by simp only [Bool.and_eq_true] at hcond; exact hcond.1
    obtain ⟨l, h1, h2⟩ := retained_char_good b.topics tq.1 hinv.rwf (hg tq htq) hv
    have hro : retainedOf b.topics tq.1 = l := by simp [retainedOf, h1]
    rw [hro]
    refine ⟨h2, ?_⟩
    intro r hr
    have := h2.mem_iff.mp hr
    obtain ⟨e, he, rfl⟩ := List.mem_map.mp this
    exact hinv.rflag e (List.mem_filter.mp he).1

/-- Against the reference broker: if the retained trie holds exactly the
specification's retained messages (`RetInv`, maintained by
`C08_retain_refines_partial`), then for every granted good filter the messages
sent for it are - DUP bit and packet identifier apart, which the specification
leaves open - exactly `Spec.Broker.retainedFor`: the retained messages whose
topic matches, RETAIN = 1, QoS min(stored, granted), payload as stored. -/
theorem C08_subscribe_retained_spec_partial (b : B) (rets : List Mqtt.Spec.Broker.Ret)
    (h : RetInv b.topics.rroot rets) (t : Bytes) (q : Nat)
    (hg : good t = true) (hgr : subCode t q ≠ 0x80) :
    ((retainedOf b.topics t).map (fun r => normPub (retainedPub r (subCode t q)))).Perm
      (Mqtt.Spec.Broker.retainedFor { rets := rets } t (subCode t q)) := by
  obtain ⟨c1, _⟩ := subCode_granted t q
  have hcond : (validFilter t && decide (q ≤ 2)) = true := by
    rw [← c1]; simpa using hgr
  have hv : validFilter t = true := by simp only [Bool.and_eq_true] at hcond; exact hcond.1
  exact retained_spec b.topics rets h t _ hg hv

/-- the full statement of the matching clause: all valid filters -/
def C08_subscribe_delivers_retained_full : Prop :=
  ∀ (b : B) (t : Bytes), Inv b → validFilter t = true →
    (retainedOf b.topics t).Perm (((absR b.topics.rroot).filter (fun e => matchLevels (split t) e.1)).map (·.2))

/-- False of the code as it is (finding B3): the filter "/a" (first level
empty) is walked as "+/a" and returns the message retained for "x/a". -/
theorem C08_subscribe_delivers_retained_full_counterexample : ¬ C08_subscribe_delivers_retained_full := by
  intro h
  let b : B := (run {} [.srvPub { qos := 0, retain := true, topic := [120, 47, 97], payload := [1] }]).1
  have := (h b [47, 97] (Inv_run _ _ Inv_init) (by decide)).length_eq
  exact absurd this (by decide)

/-- non-vacuity: retained "a/b" (QoS 1) and "a" (QoS 0) are stored; connection
1 subscribes "a/+" at QoS 0, "a/#/x" (rejected), "#" at QoS 2 -/
def exRetState : B :=
  (run exState [.packet 2 (.publish { qos := 1, retain := true, topic := [97, 47, 98], pktid := 9, payload := [1] }),
                .packet 2 (.publish { qos := 0, retain := true, topic := [97], payload := [2] })]).1

example :
    Inv exRetState ∧ exRetState.alive 1 = true ∧
    (absR exRetState.topics.rroot).map retOf = [([[97]], ⟨[97], 0, [2]⟩), ([[97], [98]], ⟨[97, 47, 98], 1, [1]⟩)] ∧
    (packet exRetState 1 (.subscribe 3 [([97, 47, 43], 0), ([97, 47, 35, 47, 120], 1), ([35], 2)])).2 =
      [.send 1 (.suback 3 [0, 0x80, 2]),
       .send 1 (.publish { qos := 0, retain := true, topic := [97, 47, 98], pktid := 0, payload := [1] }),
       .send 1 (.publish { qos := 0, retain := true, topic := [97], pktid := 0, payload := [2] }),
       .send 1 (.publish { qos := 1, retain := true, topic := [97, 47, 98], pktid := 9, payload := [1] })] := by
  refine ⟨Inv_run _ _ (Inv_run _ _ Inv_init), by decide, by decide, by decide⟩

/-! ### (i) in-process subscribers get the retained set at subscribe time -/

/-- `Server.Subscribe(filter, qos, callback)`: a rejected request returns an
error and calls nothing; an accepted one calls the callback once per message
`Retained(filter)` returned, with the stored topic, payload, RETAIN flag and
QoS min(stored, granted) - and nothing else happens.  For a filter without
empty levels, not beginning with '$', these are exactly the stored messages whose path
matches the filter under section 4.7, all with RETAIN = 1. -/
theorem C08_srvSub_delivers_retained_partial (b : B) (hinv : Inv b) (cb : Nat) (f : Bytes) (q : Nat)
    (hg : good f = true) :
    (srvSub b cb f q).2 =
      (if subCode f q = 0x80 then [.apiErr]
       else (retainedOf b.topics f).map (fun r => Out.call cb (retainedCall r (subCode f q)))) ∧
    (subCode f q ≠ 0x80 →
      (retainedOf b.topics f).Perm
        (((absR b.topics.rroot).filter (fun e => matchLevels (split f) e.1)).map (·.2)) ∧
      ∀ r ∈ retainedOf b.topics f, (retainedCall r (subCode f q)).retain = true) := by
  obtain ⟨c1, c2⟩ := subCode_granted f q
  constructor
  · rw [(srvSub_char b cb f q).1, accepts_good f q hg]
    cases hcond : (validFilter f && decide (q ≤ 2)) with
    | false =>
      rw [hcond] at c1
      have : subCode f q = 0x80 := by simpa using c1
      simp [this]
    | true =>
      rw [hcond] at c1
      have : subCode f q ≠ 0x80 := by simpa using c1
      rw [if_neg this, c2 hcond]
      simp only [↓reduceIte]
  · intro hcode
    have hcond : (validFilter f && decide (q ≤ 2)) = true := by
      rw [← c1]; simpa using hcode
    have hv : validFilter f = true := by simp only [Bool.and_eq_true] at hcond; exact hcond.1
    obtain ⟨l, h1, h2⟩ := retained_char_good b.topics f hinv.rwf hg hv
    have hro : retainedOf b.topics f = l := by simp [retainedOf, h1]
    rw [hro]
    refine ⟨h2, ?_⟩
    intro r hr
    have := h2.mem_iff.mp hr
    obtain ⟨e, he, rfl⟩ := List.mem_map.mp this
    exact hinv.rflag e (List.mem_filter.mp he).1

/-- the callback's subscription itself is in the trie afterwards (and nothing else changed) -/
theorem C08_srvSub_effect (b : B) (hinv : Inv b) (cb : Nat) (f : Bytes) (q : Nat) :
    Inv (srvSub b cb f q).1 ∧
    (Mqtt.Proofs.Topics.abs (srvSub b cb f q).1.topics.sroot).Perm
      (if accepts f q then
        addEntry (Mqtt.Proofs.Topics.abs b.topics.sroot) (Mqtt.Proofs.Topics.entryLevels f).1 cb
          (min q Mqtt.Generated.maxQosAllowed)
       else Mqtt.Proofs.Topics.abs b.topics.sroot) ∧
    (srvSub b cb f q).1.topics.rroot = b.topics.rroot := by
  refine ⟨Inv_srvSub b cb f q hinv, ?_, ?_⟩
  · rw [(srvSub_char b cb f q).2]
    exact subscribe_abs b.topics f q cb hinv.wf
  · rw [(srvSub_char b cb f q).2]
    exact subscribe_rroot _ _ _ _ _

/-- non-vacuity: callback 1001 subscribes "a/#" at QoS 0 and is called with both retained messages -/
example :
    (srvSub exRetState 1001 [97, 47, 35] 0).2 =
      [.call 1001 { qos := 0, retain := true, topic := [97], pktid := 0, payload := [2] },
       .call 1001 { qos := 0, retain := true, topic := [97, 47, 98], pktid := 9, payload := [1] }] ∧
    (srvSub exRetState 1001 [97, 47, 35, 98] 0).2 = [.apiErr] := by
  decide

/-! ### the refinement theorem, specialised: retained messages after any history -/

open Mqtt.Proofs.BrokerRefine (okRun specRun) in
open Mqtt.Spec.Broker (Accepts pubOf wild) in
/-- **Refinement (Proofs/BrokerRefine.lean: `Broker_refines_spec`) for C08.**
After any history admitted by `okRun` (see C01_refines_reference for the side
condition) the retained trie holds exactly the reference broker's retained
messages (`RetInv`: the last non-empty retained PUBLISH per topic), and a
SUBSCRIBE with `good` filters on a live connection is answered - after the
SUBACK - with PUBLISH packets to that connection only, all with RETAIN = 1, which
are, DUP and identifier wildcarded and as a multiset, exactly the retained
messages the reference broker demands: for every granted filter, in request
order, the stored messages whose topic the filter matches, at the lower of
stored and granted QoS. -/
theorem C08_refines_reference (es : List Ev) (hok : okRun {} es = true) (c id : Nat)
    (hl : (run {} es).1.alive c = true) (ts : List (Bytes × Nat)) (hg : ∀ tq ∈ ts, good tq.1 = true) :
    RetInv (run {} es).1.topics.rroot (specRun {} es).1.rets ∧
    Accepts (Mqtt.Spec.Broker.step (specRun {} es).1 (.packet c (.subscribe id ts))).2
      (step (run {} es).1 (.packet c (.subscribe id ts))).2 ∧
    ∃ rest, (step (run {} es).1 (.packet c (.subscribe id ts))).2 =
        .send c (.suback id (ts.map (fun t => subCode t.1 t.2))) :: rest ∧
      ((rest.filterMap pubOf).map wild).Perm
        ((((ts.zip (ts.map (fun t => subCode t.1 t.2))).filter (fun p => p.2 != 0x80)).map
          (fun p => Mqtt.Spec.Broker.retainedFor (specRun {} es).1 p.1.1 p.2)).flatten) ∧
      ∀ y ∈ rest, ∃ w, y = .send c (.publish w) ∧ w.retain = true := by
  have hR := Mqtt.Proofs.BrokerRefine.reach es hok
  have hokev : Mqtt.Proofs.BrokerRefine.okEv (run {} es).1 (.packet c (.subscribe id ts)) = true := by
    show ts.all (fun tq => good tq.1) = true
    rw [List.all_eq_true]; exact hg
  exact ⟨hR.rets, (Mqtt.Proofs.BrokerRefine.reach_step es hok _ hokev).2.1,
    (Mqtt.Proofs.BrokerRefine.subscribe_refines hR c hl id ts hg).1⟩

open Mqtt.Proofs.BrokerRefine (EvX okRunX runX specRunX) in
open Mqtt.Spec.Broker (Accepts pubOf wild) in
/-- **C08_refines_reference after a history with failed handshakes** (Proofs/BrokerRefineFail.lean:
`BrokerX_refines_spec`).  The same statement for the retained messages and the answer to a SUBSCRIBE, after
a history that may also contain first packets whose answer could not be written (`EvX.failFirst`). -/
theorem C08_refines_reference_with_failed_handshakes (es : List EvX) (hok : okRunX {} es = true) (c id : Nat)
    (hl : (runX {} es).1.alive c = true) (ts : List (Bytes × Nat)) (hg : ∀ tq ∈ ts, good tq.1 = true) :
    RetInv (runX {} es).1.topics.rroot (specRunX {} es).1.rets ∧
    Accepts (Mqtt.Spec.Broker.step (specRunX {} es).1 (.packet c (.subscribe id ts))).2
      (step (runX {} es).1 (.packet c (.subscribe id ts))).2 ∧
    ∃ rest, (step (runX {} es).1 (.packet c (.subscribe id ts))).2 =
        .send c (.suback id (ts.map (fun t => subCode t.1 t.2))) :: rest ∧
      ((rest.filterMap pubOf).map wild).Perm
        ((((ts.zip (ts.map (fun t => subCode t.1 t.2))).filter (fun p => p.2 != 0x80)).map
          (fun p => Mqtt.Spec.Broker.retainedFor (specRunX {} es).1 p.1.1 p.2)).flatten) ∧
      ∀ y ∈ rest, ∃ w, y = .send c (.publish w) ∧ w.retain = true :=
  Mqtt.Proofs.BrokerRefine.retained_refinesX es hok c id hl ts hg

end Mqtt.Properties.C08
