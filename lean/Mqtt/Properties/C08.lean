/-
C08 — Retained messages: one per topic, delivered to new subscriptions with
RETAIN = 1, forwarded to existing subscriptions with RETAIN = 0.

Property theorems only (helper lemmas: `Proofs/BrokerFanout*.lean`).  Model:
`Model/Broker.lean` (`retainStep`, `onPublish`, `subscribeLoop`, `sendRetained`,
`srvSub`) over the retained trie of `Model/Topics.lean` and its finished
theorems (`Properties/C06.lean`); specification: `Spec/Broker.lean`.
-/
import Mqtt.Proofs.BrokerFanoutOut

set_option linter.unusedSimpArgs false

namespace Mqtt.Properties.C08
open Mqtt.Iface.Broker Mqtt.Model.Broker Mqtt.Proofs.Broker

def exConnect (c : Nat) (cid : Bytes) : Ev :=
  .first c (.connect { protoName := [77, 81, 84, 84], version := 4, clean := true, will := none, clientId := cid }) true

/-- example state: connection 1 holds "a/+" (QoS 1), connection 2 "#" (QoS 1),
in-process subscriber 1000 "a/#" (QoS 1) -/
def exState : B :=
  (run {} [exConnect 1 [97], exConnect 2 [98], .srvSub 1000 [97, 47, 35] 1,
           .packet 1 (.subscribe 1 [([97, 47, 43], 1)]),
           .packet 2 (.subscribe 1 [([35], 1)])]).1

/-! ### (f) forwards to existing subscriptions carry RETAIN = 0 -/

/-- Every output of `onPublish` (any state, any message object - no
hypothesis at all) is a PUBLISH with RETAIN = 0 written to a connection, or an
invocation of an in-process callback. -/
theorem C08_forward_retain_zero (b : B) (m : Msg) :
    ∀ o ∈ (onPublish b m).2.2.1,
      (∃ d w, o = .send d (.publish w) ∧ d < cbBase ∧ w.retain = false) ∨ (∃ cb w, o = .call cb w ∧ cbBase ≤ cb) := by
  intro o ho
  have := onPublish_out b m o ho
  unfold fwdOk at this
  split at this
  · rename_i d w
    simp only [Bool.and_eq_true, Bool.not_eq_true', decide_eq_true_eq] at this
    exact Or.inl ⟨d, w, rfl, this.2, this.1⟩
  · rename_i cb w
    exact Or.inr ⟨cb, w, rfl, by simpa using this⟩
  · cases this

/-- the same for the loop itself -/
theorem C08_fanout_retain_zero (b : B) (m : Msg) (subs : List (Nat × Nat)) :
    ∀ d w, Out.send d (.publish w) ∈ (fanout b m subs).2.2 → w.retain = false := by
  intro d w ho
  have := fanout_out subs b m _ ho
  simp only [fwdOk, Bool.and_eq_true, Bool.not_eq_true'] at this
  exact this.1

/-- On the whole step function: whatever the event - a PUBLISH of any QoS, a
PUBREL releasing stored messages, the will at a connection end, the in-process
`Publish`, ... - no PUBLISH with RETAIN = 1 is written to any connection,
except by the retained delivery of a SUBSCRIBE packet. -/
theorem C08_step_retain_zero (b : B) (e : Ev) (he : isSubscribeEv e = false) :
    ∀ d w, Out.send d (.publish w) ∈ (step b e).2 → w.retain = false := by
  intro d w ho
  have := step_out b e he _ ho
  simpa [noRetainSend] using this

/-- the full statement: in-process callbacks included -/
def C08_forward_retain_zero_full : Prop :=
  ∀ (b : B) (m : Msg), ∀ o ∈ (onPublish b m).2.2.1,
    match o with
    | .send _ (.publish w) => w.retain = false
    | .call _ w => w.retain = false
    | _ => True

/-- False of the code as it is (finding E10): an in-process callback is handed
the publisher's message object as it is, RETAIN = 1 included. -/
theorem C08_forward_retain_zero_callback_counterexample : ¬ C08_forward_retain_zero_full := by
  intro h
  have := h exState ⟨{ qos := 1, retain := true, topic := [97, 47, 98], pktid := 5, payload := [7] }, false⟩
    (.call 1000 { qos := 1, retain := true, topic := [97, 47, 98], pktid := 5, payload := [7] }) (by decide)
  exact absurd this (by decide)

/-- non-vacuity: the retained QoS 1 PUBLISH "a/b" from connection 2 is
acknowledged and forwarded with RETAIN = 0 to connections 1 and 2, RETAIN = 1
to callback 1000 -/
example :
    (step exState (.packet 2 (.publish { qos := 1, retain := true, topic := [97, 47, 98], pktid := 5, payload := [7] }))).2 =
      [.send 2 (.puback 5),
       .call 1000 { qos := 1, retain := true, topic := [97, 47, 98], pktid := 5, payload := [7] },
       .send 1 (.publish { qos := 1, retain := false, topic := [97, 47, 98], pktid := 5, payload := [7] }),
       .send 2 (.publish { qos := 1, retain := false, topic := [97, 47, 98], pktid := 5, payload := [7] })] := by
  decide

end Mqtt.Properties.C08
