/-
C03 — tie to the Go source.

The length arithmetic of package `message` (`msglen`, `Len`, `SetRemainingLength`), `binary.PutUvarint`,
the validators, `header.Type` and `header.encode` are the regenerated translation of the Go functions.

Moved out of `Properties/C03.lean` unchanged (same namespace, same names): this is the only
module of C03 that is built from the regenerated translation `Mqtt.Generated.Xlate`
(through `Proofs/Xlate*.lean`).  `bin/check C03` builds, lists, audits and counts it together
with `Properties/C03.lean`.  NOTHING may import this module (BUILDING.md, "Source-tie modules"):
a rewrite of a translated Go function must not stop other properties from building.
-/
import Mqtt.Properties.C03
import Mqtt.Proofs.XlateCodec
import Mqtt.Proofs.XlatePutUvarint
import Mqtt.Proofs.XlateValid
import Mqtt.Proofs.XlateHeader

set_option linter.unusedSimpArgs false
set_option maxRecDepth 8192

namespace Mqtt.Properties.C03

open Mqtt.Model.Codec Mqtt.Iface.Codec Mqtt.Proofs.Codec
open Mqtt.Spec

/-! ## Tie to the Go source: the length arithmetic and the validators are the regenerated translation

`Mqtt.Generated.Xlate.Message.*` and `Binary.PutUvarint` are produced from
`message/*.go` (and `$GOROOT/src/encoding/binary/varint.go`) by `extract/cmd/xlate`
on every check (NOTES-xlate.md).  `XlateCodec.hdrOf` / `msgOf…` map a translated
message structure to the model's `Msg` (`mtypeflags[0]`, the packet identifier
bytes, `remlen`, `dbuf`, `dirty`, the fields). -/

section Source
open Mqtt.Generated.Xlate Mqtt.Proofs.XlateCodec

/-- `header.msglen()` is the model's `hdrLen` of the stored remaining length (for every header:
a negative `remlen`, which neither `SetRemainingLength` nor `decode` lets in, gives 2 on both sides) -/
theorem C03_header_msglen_is_source (h : Message.header) :
    Message.header.msglen h = hdrLen (hdrOf h).remlen :=
  header_msglen_hdrOf h

/-- `header.SetRemainingLength`: refused exactly outside `0 … 268435455` (the model's `maxRemainingLength`) -/
theorem C03_SetRemainingLength_is_source (h : Message.header) (remlen : Int) :
    Message.header.SetRemainingLength h remlen =
      if remlen > 268435455 ∨ remlen < 0 then (h, Err.dyn)
      else ({ h with remlen := remlen, dirty := true }, Err.nil) :=
  header_SetRemainingLength_spec h remlen

/-- `Len()` of every message type is the model's `Msg.len`; the receiver afterwards is the message
with `lenHdr` (remaining length stored unless the message is clean or the length is out of range) -/
theorem C03_Len_is_source_connack (m : Message.ConnackMessage) :
    Message.ConnackMessage.Len m = ({ m with header := lenHdr m.header (msgOfConnack m).msglen }, (msgOfConnack m).len) :=
  ConnackMessage_Len_is_source m

theorem C03_Len_is_source_puback (m : Message.PubackMessage) :
    Message.PubackMessage.Len m = ({ m with header := lenHdr m.header (msgOfPuback m).msglen }, (msgOfPuback m).len) :=
  PubackMessage_Len_is_source m

theorem C03_Len_is_source_suback (m : Message.SubackMessage) :
    Message.SubackMessage.Len m = ({ m with header := lenHdr m.header (msgOfSuback m).msglen }, (msgOfSuback m).len) :=
  SubackMessage_Len_is_source m

theorem C03_Len_is_source_subscribe (m : Message.SubscribeMessage) :
    Message.SubscribeMessage.Len m =
      ({ m with header := lenHdr m.header (msgOfSubscribe m).msglen }, (msgOfSubscribe m).len) :=
  SubscribeMessage_Len_is_source m

theorem C03_Len_is_source_unsubscribe (m : Message.UnsubscribeMessage) :
    Message.UnsubscribeMessage.Len m =
      ({ m with header := lenHdr m.header (msgOfUnsubscribe m).msglen }, (msgOfUnsubscribe m).len) :=
  UnsubscribeMessage_Len_is_source m

theorem C03_Len_is_source_connect (m : Message.ConnectMessage) :
    Message.ConnectMessage.Len m = ({ m with header := lenHdr m.header (msgOfConnect m).msglen }, (msgOfConnect m).len) :=
  ConnectMessage_Len_is_source m

/-- PINGREQ, PINGRESP, DISCONNECT -/
theorem C03_Len_is_source_disconnect (m : Message.DisconnectMessage) :
    Message.DisconnectMessage.Len m = (msgOfDisconnect m).len :=
  DisconnectMessage_Len_is_source' m

/-- PUBLISH reads the QoS bits through `mtypeflags[0]`: with the type/flags byte present (always,
after `NewPublishMessage` or `Decode`) `Len()` is the model's; a `PublishMessage{}` literal that is
marked dirty panics there (`XlateCodec.PublishMessage_Len_panics`) — the model, which keeps the
byte itself, has no such object. -/
theorem C03_Len_is_source_publish_partial (m : Message.PublishMessage) (hf : 0 < m.header.mtypeflags.length) :
    Message.PublishMessage.Len m =
      Res.ok ({ m with header := lenHdr m.header (msgOfPublish m).msglen }, (msgOfPublish m).len) :=
  PublishMessage_Len_is_source m hf

/-- the per-type `msglen()` (remaining length from the fields) is the model's `Msg.msglen` -/
theorem C03_msglen_is_source (c : Message.ConnackMessage) (a : Message.PubackMessage) (s : Message.SubackMessage)
    (su : Message.SubscribeMessage) (u : Message.UnsubscribeMessage) (cn : Message.ConnectMessage) :
    Message.ConnackMessage.msglen c = (msgOfConnack c).msglen ∧
    Message.PubackMessage.msglen a = (msgOfPuback a).msglen ∧
    Message.SubackMessage.msglen s = (msgOfSuback s).msglen ∧
    Message.SubscribeMessage.msglen su = (msgOfSubscribe su).msglen ∧
    Message.UnsubscribeMessage.msglen u = (msgOfUnsubscribe u).msglen ∧
    Message.ConnectMessage.msglen cn = (msgOfConnect cn).msglen :=
  ⟨ConnackMessage_msglen_is_source c, PubackMessage_msglen_is_source a, SubackMessage_msglen_is_source s,
   SubscribeMessage_msglen_is_source su, UnsubscribeMessage_msglen_is_source u, ConnectMessage_msglen_is_source cn⟩

theorem C03_msglen_is_source_publish_partial (m : Message.PublishMessage) (hf : 0 < m.header.mtypeflags.length) :
    Message.PublishMessage.msglen m = Res.ok (msgOfPublish m).msglen :=
  PublishMessage_msglen_is_source m hf

/-- the remaining-length encoder: the standard library's `binary.PutUvarint` (as found in the
toolchain that builds the library) writes the model's `putUvarint` bytes into the front of the
buffer and returns their number; a buffer that is too short is the run-time panic the model's
`Hdr.encode` has.  `fuel` bounds the loop of the translation: 10 iterations always suffice. -/
theorem C03_PutUvarint_is_source (buf : List UInt8) (x : UInt64) (fuel : Nat) (hf : 10 ≤ fuel) :
    Binary.PutUvarint fuel buf x =
      if buf.length < (putUvarint x.toNat).length then .panic
      else .ok (putUvarint x.toNat ++ buf.drop (putUvarint x.toNat).length, (putUvarint x.toNat).length) :=
  Mqtt.Proofs.XlatePutUvarint.putUvarint_cases buf x fuel hf

/-- validators of package `message` -/
theorem C03_validators_are_source (q v t c : UInt8) (topic : List UInt8) :
    Message.ValidQos q = validQos q.toNat ∧
    Message.ValidTopic topic = validTopic topic ∧
    Message.ValidVersion v = (versionName v.toNat).isSome ∧
    Go.mapGet Message.SupportedVersions v = versionName v.toNat ∧
    Message.Type_.Valid t = validType t.toNat ∧
    (Message.Type_.DefaultFlags t).toNat = defaultFlagsOf t.toNat ∧
    Message.ConnackCode.Valid c = decide (c.toNat ≤ Mqtt.Generated.connackMaxCode) :=
  ⟨Mqtt.Proofs.XlateValid.ValidQos_is_source q, Mqtt.Proofs.XlateValid.ValidTopic_is_source topic,
   Mqtt.Proofs.XlateValid.ValidVersion_is_source v, Mqtt.Proofs.XlateValid.SupportedVersions_is_source v,
   Mqtt.Proofs.XlateValid.Type_Valid_is_source t, Mqtt.Proofs.XlateValid.Type_DefaultFlags_is_source t,
   Mqtt.Proofs.XlateValid.ConnackCode_Valid_is_source c⟩

/-- `ValidConnackError`: exactly the five refusal codes (as `error` values) -/
theorem C03_ValidConnackError_is_source (e : Err) :
    Message.ValidConnackError e = true ↔ ∃ n, 1 ≤ n ∧ n ≤ 5 ∧ e = .val "message.ConnackCode" n :=
  Mqtt.Proofs.XlateValid.ValidConnackError_char e

/-- `header.Type()`: with the type/flags byte present it changes nothing and returns the model's
`Hdr.type`; otherwise it allocates a zero byte and marks the header dirty (`XlateHeader.header_Type_alloc`) -/
theorem C03_header_Type_is_source (h : Message.header) (h1 : h.mtypeflags.length = 1) :
    Message.header.Type_ h = .ok (h, UInt8.ofNat (hdrOf h).type) ∧ (UInt8.ofNat (hdrOf h).type).toNat = (hdrOf h).type :=
  ⟨Mqtt.Proofs.XlateHeader.header_Type_spec h h1, Mqtt.Proofs.XlateHeader.header_Type_toNat h⟩

/-- `header.encode(dst)` — type/flags byte and remaining length — is the model's `Hdr.encode`
(`encToRes`: an error return leaves `dst` alone; success writes the model's bytes to the front of `dst`
and returns their number; the model's `.panic` case is empty).  `_partial`: the type/flags byte exists
(`h1`) and the stored remaining length is not negative (`h0`; the model has a natural number — a
negative one makes the Go code return an error: `XlateHeader.header_encode_negative`). -/
theorem C03_header_encode_is_source_partial (h : Message.header) (h1 : h.mtypeflags.length = 1) (h0 : 0 ≤ h.remlen)
    (dst : List UInt8) (fuel : Nat) (hf : 10 ≤ fuel) :
    Message.header.encode fuel h dst
      = Mqtt.Proofs.XlateHeader.encToRes h dst (Hdr.encode (hdrOf h) h.remlen.toNat dst.length) :=
  Mqtt.Proofs.XlateHeader.header_encode_is_source h h1 h0 dst fuel hf

/-- non-vacuity: a dirty SUBSCRIBE with two filters has length 2 + 2 + (2+3+1) + (2+1+1);
PutUvarint 321 = c1 02 -/
example :
    (Message.SubscribeMessage.Len ⟨⟨0, [0x82], [], [], true⟩, [[97, 47, 98], [35]], [1, 0]⟩).2 = 14 ∧
    Binary.PutUvarint 10 [0, 0, 0, 0] 321 = .ok ([0xc1, 0x02, 0, 0], 2) := by decide

end Source

end Mqtt.Properties.C03
