/-
C11 — Nothing happens before a valid CONNECT.

Property theorems only (helper lemmas: `Proofs/BrokerLife.lean`).  Model:
`Model/Broker.lean` (`first` = handleConnection/getSession/start, `packet`,
`stop`).  Specification: `Spec.Broker.refusals`, written from MQTT 3.1.1 §3.1/§3.2
and independent of the regenerated constants.  All theorems quantify over every
broker state `b`, every connection id and every first packet.
-/
import Mqtt.Proofs.BrokerLife
import Mqtt.Proofs.BrokerRefineCor
import Mqtt.Proofs.BrokerRefineFail
import Mqtt.Proofs.BrokerRefineCorX

namespace Mqtt.Properties.C11
open Mqtt.Iface.Broker Mqtt.Model.Broker Mqtt.Proofs.BrokerLife

/-! ### 0. the regenerated constants are the protocol's -/

/-- `message.SupportedVersions` as re-read from the source accepts exactly the
name/level pairs ("MQIsdp", 3) and ("MQTT", 4) of the specification. -/
theorem C11_facts_versions (req : Connect) :
    (match Generated.supportedVersions.lookup req.version with
      | none => false
      | some name => name == req.protoName) = Spec.Broker.knownVersion req.protoName req.version :=
  facts_versions req

/-- The flag and identifier checks of the decoder are the specification's
conditions for "malformed" and "identifier rejected". -/
theorem C11_checks_are_spec (req : Connect) :
    flagsBad req = (req.reserved || (match req.will with
      | some w => decide (w.qos > 2)
      | none => decide (req.willQosNoWill != 0) || req.willRetainNoWill)) ∧
    idBad req = ((req.clientId.isEmpty && !req.clean) ||
      !(req.clientId.all Spec.Broker.printable && req.clientId.length ≤ 32)) :=
  ⟨(spec_flags req).symm, (spec_id req).symm⟩

/-! ### 1. a first packet that is not accepted has no effect -/

/-- Whenever `first` does not emit CONNACK code 0, the broker state is exactly
what it was, and the output is the close of `c`, preceded by at most one CONNACK
to `c` with code 1, 2 or 4: nothing is sent to anybody else. -/
theorem C11_refused_no_effect (b : B) (c : Nat) (f : First) (authOk : Bool)
    (h : ∀ sp, Out.send c (.connack sp 0) ∉ (first b c f authOk).2) :
    (first b c f authOk).1 = b ∧
    ((first b c f authOk).2 = [.closed c] ∨
     ∃ k, (k = 1 ∨ k = 2 ∨ k = 4) ∧ (first b c f authOk).2 = [.send c (.connack false k), .closed c]) := by
  have hacc : accepts f authOk = false := by
    cases ha : accepts f authOk with
    | false => rfl
    | true =>
      obtain ⟨sp, hsp⟩ := (accepts_iff_emits b c f authOk).mp ha
      exact absurd hsp (h sp)
  rcases first_refused b c f authOk hacc with h1 | ⟨k, hk, h1⟩
  · rw [h1]; exact ⟨rfl, .inl rfl⟩
  · rw [h1]; exact ⟨rfl, .inr ⟨k, hk, rfl⟩⟩

/-- non-vacuity: connections 1 (persistent, with will) and 2 are live and
subscribed, a message is retained; a CONNECT with an empty identifier and
CleanSession=0 on connection 3 is refused with code 2. -/
example :
    (∀ sp, Out.send 3 (.connack sp 0) ∉ (first Ex.base 3 (.connect (Ex.conn [] false)) true).2) ∧
    (first Ex.base 3 (.connect (Ex.conn [] false)) true).2 = [.send 3 (.connack false 2), .closed 3] ∧
    Ex.base.alive 1 = true ∧ Ex.base.alive 2 = true ∧ Ex.base.store = [(Ex.idB, 2), (Ex.idA, 1)] := by decide

/-- A packet or a connection end on a connection that is not live (never
accepted, or already ended) is a no-op. -/
theorem C11_dead_noop (b : B) (c : Nat) (h : b.alive c = false) :
    (∀ p, packet b c p = (b, [])) ∧ stop b c = (b, []) :=
  ⟨fun p => packet_dead b c p h, stop_dead b c h⟩

/-- Any sequence of events on a connection `c` that is not live and contains no
accepted CONNECT for `c` — refused first packets, arbitrary later packets, the
end of the connection, in any number and order — leaves the whole broker state
(subscriptions, retained messages, sessions, store, other connections, packet
id counter) unchanged, and everything emitted is a refusal addressed to `c`. -/
theorem C11_unaccepted_no_effect (b : B) (c : Nat) (evs : List Ev) (hd : b.alive c = false)
    (h : ∀ e ∈ evs, unacceptedOn c e = true) :
    (run b evs).1 = b ∧
    ∀ os ∈ (run b evs).2, ∀ o ∈ os, o = .closed c ∨ ∃ k, k ≠ 0 ∧ o = .send c (.connack false k) :=
  run_unaccepted b c evs hd h

/-- `unacceptedOn` is what it is meant to be: an event of connection `c` which,
if it is a first packet, does not get CONNACK 0 (in any state). -/
theorem C11_unacceptedOn_iff (b : B) (c : Nat) (e : Ev) :
    unacceptedOn c e = true ↔
      (∃ p, e = .packet c p) ∨ e = .close c ∨
      ∃ f a, e = .first c f a ∧ ∀ sp, Out.send c (.connack sp 0) ∉ (first b c f a).2 := by
  cases e with
  | first c' f a =>
    simp only [unacceptedOn, Bool.and_eq_true, beq_iff_eq, Bool.not_eq_true']
    constructor
    · rintro ⟨rfl, ha⟩
      refine .inr (.inr ⟨f, a, rfl, fun sp hsp => ?_⟩)
      have := (accepts_iff_emits b c' f a).mpr ⟨sp, hsp⟩
      rw [ha] at this; exact absurd this (by simp)
    · rintro (⟨p, hp⟩ | hp | ⟨f', a', hp, hn⟩)
      · cases hp
      · cases hp
      · cases hp
        refine ⟨rfl, ?_⟩
        cases ha : accepts f a with
        | false => rfl
        | true =>
          obtain ⟨sp, hsp⟩ := (accepts_iff_emits b c f a).mp ha
          exact absurd hsp (hn sp)
  | packet c' p =>
    simp only [unacceptedOn, beq_iff_eq]
    constructor
    · rintro rfl; exact .inl ⟨p, rfl⟩
    · rintro (⟨p', hp⟩ | hp | ⟨f', a', hp, _⟩)
      · cases hp; rfl
      · cases hp
      · cases hp
  | close c' =>
    simp only [unacceptedOn, beq_iff_eq]
    constructor
    · rintro rfl; exact .inr (.inl rfl)
    · rintro (⟨p', hp⟩ | hp | ⟨f', a', hp, _⟩)
      · cases hp
      · cases hp; rfl
      · cases hp
  | srvPub p =>
    simp only [unacceptedOn, Bool.false_eq_true, false_iff]
    rintro (⟨p', hp⟩ | hp | ⟨f', a', hp, _⟩) <;> cases hp
  | srvSub cb f q =>
    simp only [unacceptedOn, Bool.false_eq_true, false_iff]
    rintro (⟨p', hp⟩ | hp | ⟨f', a', hp, _⟩) <;> cases hp
  | srvUnsub cb f =>
    simp only [unacceptedOn, Bool.false_eq_true, false_iff]
    rintro (⟨p', hp⟩ | hp | ⟨f', a', hp, _⟩) <;> cases hp

/-- non-vacuity: on the state above, connection 3 sends a PUBLISH as first
packet, then a SUBSCRIBE, a retained PUBLISH and a DISCONNECT, and drops: the
only output is the close after the first packet; subscriptions, retained store
and sessions are those of before. -/
example :
    let evs : List Ev := [.first 3 (.other 3) true, .packet 3 (.subscribe 1 [(Ex.tAB, 2)]),
      .packet 3 (.publish { qos := 0, retain := true, topic := Ex.tAB, payload := [9] }),
      .packet 3 .disconnect, .close 3, .first 3 (.connect (Ex.conn Ex.idA false)) false]
    Ex.base.alive 3 = false ∧ (∀ e ∈ evs, unacceptedOn 3 e = true) ∧
    (run Ex.base evs).2 = [[.closed 3], [], [], [], [], [.send 3 (.connack false 4), .closed 3]] ∧
    (run Ex.base evs).1.topics = Ex.base.topics ∧ (run Ex.base evs).1.store = Ex.base.store := by
  refine ⟨by decide, by decide, by decide, rfl, rfl⟩

/-! ### 2. the answer as a function of the CONNECT -/

/-- The table.  A CONNECT for which the specification has no reason to refuse
(`refusals = []`) is answered with exactly one packet, CONNACK code 0, and the
connection is live afterwards.  Otherwise the state is unchanged, the
connection is closed, and the answer before the close is either nothing — then
"malformed" (`none`) is among the specification's reasons — or one CONNACK whose
non-zero code is among the specification's reasons (1: protocol level, 2:
identifier, 4: credentials). -/
theorem C11_table (b : B) (c : Nat) (req : Connect) (authOk : Bool) :
    (Spec.Broker.refusals req authOk = [] →
      ∃ sp, (first b c (.connect req) authOk).2 = [.send c (.connack sp 0)] ∧
        (first b c (.connect req) authOk).1.alive c = true) ∧
    (Spec.Broker.refusals req authOk ≠ [] →
      (first b c (.connect req) authOk).1 = b ∧
      (((first b c (.connect req) authOk).2 = [.closed c] ∧ none ∈ Spec.Broker.refusals req authOk) ∨
       ∃ k, k ≠ 0 ∧ some k ∈ Spec.Broker.refusals req authOk ∧
         (first b c (.connect req) authOk).2 = [.send c (.connack false k), .closed c])) := by
  constructor
  · intro h
    have ha := (refusals_nil_iff req authOk).mp h
    rw [first_accepted b c req authOk ha]
    exact ⟨_, rfl, accepted_alive b c req⟩
  · intro h
    have ha : accepts (.connect req) authOk = false := by
      cases hacc : accepts (.connect req) authOk with
      | false => rfl
      | true => exact absurd ((refusals_nil_iff req authOk).mpr hacc) h
    rcases first_table b c req authOk ha with ⟨h1, hn⟩ | ⟨k, hk, hm, h1⟩
    · rw [h1]; exact ⟨rfl, .inl ⟨rfl, hn⟩⟩
    · rw [h1]; exact ⟨rfl, .inr ⟨k, hk, hm, rfl⟩⟩

/-- Acceptance is decided by the CONNECT and the authenticator alone — not by
the broker state — and is visible as CONNACK code 0. -/
theorem C11_accept_iff (b : B) (c : Nat) (req : Connect) (authOk : Bool) :
    (∃ sp, Out.send c (.connack sp 0) ∈ (first b c (.connect req) authOk).2) ↔
      Spec.Broker.refusals req authOk = [] := by
  rw [← accepts_iff_emits, refusals_nil_iff]

/-- non-vacuity: one CONNECT per row of the table, on the state above. -/
example :
    Spec.Broker.refusals (Ex.conn Ex.idA false) true = [] ∧
    (first Ex.base 3 (.connect (Ex.conn Ex.idA false)) true).2 = [.send 3 (.connack true 0)] ∧
    Spec.Broker.refusals { Ex.conn Ex.idA true with version := 5 } true = [some 1] ∧
    (first Ex.base 3 (.connect { Ex.conn Ex.idA true with version := 5 }) true).2 =
      [.send 3 (.connack false 1), .closed 3] ∧
    Spec.Broker.refusals (Ex.conn [1] true) true = [some 2] ∧
    (first Ex.base 3 (.connect (Ex.conn [1] true)) true).2 = [.send 3 (.connack false 2), .closed 3] ∧
    Spec.Broker.refusals (Ex.conn Ex.idA true) false = [some 4] ∧
    (first Ex.base 3 (.connect (Ex.conn Ex.idA true)) false).2 = [.send 3 (.connack false 4), .closed 3] ∧
    Spec.Broker.refusals { Ex.conn Ex.idA true with reserved := true } true = [none] ∧
    (first Ex.base 3 (.connect { Ex.conn Ex.idA true with reserved := true }) true).2 = [.closed 3] := by
  simp only [Spec.Broker.refusals, Spec.Broker.knownVersion, facts_mqtt, facts_mqisdp]
  decide

/-! ### 3. precedence of the checks, as the code applies them -/

/-- An unknown protocol name/level pair is answered with code 1, whatever else
is wrong with the CONNECT. -/
theorem C11_precedence_level (b : B) (c : Nat) (req : Connect) (authOk : Bool)
    (h : Spec.Broker.knownVersion req.protoName req.version = false) :
    first b c (.connect req) authOk = (b, [.send c (.connack false 1), .closed c]) := by
  rw [first_connect, facts_versions, h]; rfl

/-- Known level, malformed flags: closed without CONNACK, whatever the
identifier and the credentials. -/
theorem C11_precedence_flags (b : B) (c : Nat) (req : Connect) (authOk : Bool)
    (h1 : Spec.Broker.knownVersion req.protoName req.version = true) (h2 : flagsBad req = true) :
    first b c (.connect req) authOk = (b, [.closed c]) := by
  rw [first_connect, facts_versions, h1, h2]; rfl

/-- Known level, well-formed flags, unacceptable identifier: code 2, whatever the credentials. -/
theorem C11_precedence_id (b : B) (c : Nat) (req : Connect) (authOk : Bool)
    (h1 : Spec.Broker.knownVersion req.protoName req.version = true) (h2 : flagsBad req = false)
    (h3 : idBad req = true) :
    first b c (.connect req) authOk = (b, [.send c (.connack false 2), .closed c]) := by
  rw [first_connect, facts_versions, h1, h2, h3]; rfl

/-- Everything acceptable except the credentials: code 4. -/
theorem C11_precedence_auth (b : B) (c : Nat) (req : Connect)
    (h1 : Spec.Broker.knownVersion req.protoName req.version = true) (h2 : flagsBad req = false)
    (h3 : idBad req = false) :
    first b c (.connect req) false = (b, [.send c (.connack false 4), .closed c]) := by
  rw [first_connect, facts_versions, h1, h2, h3]; rfl

/-- non-vacuity: a CONNECT with every defect at once gets code 1; with a known
level, the malformed flags win over the bad identifier and the credentials. -/
example :
    let bad : Connect := { Ex.conn [1] false with version := 9, reserved := true }
    let bad2 : Connect := { Ex.conn [1] false with reserved := true }
    (first Ex.base 3 (.connect bad) false).2 = [.send 3 (.connack false 1), .closed 3] ∧
    flagsBad bad = true ∧ idBad bad = true ∧
    (first Ex.base 3 (.connect bad2) false).2 = [.closed 3] := by decide

/-! ### 4. how many CONNACKs -/

/-- A CONNECT that passes the decoder's flag checks (everything but a
malformed one) is answered with exactly one CONNACK; a malformed CONNECT, any
other packet and undecodable bytes get none. -/
theorem C11_one_connack (b : B) (c : Nat) (f : First) (authOk : Bool) :
    ((first b c f authOk).2.filter (fun o => match o with | .send _ (.connack _ _) => true | _ => false)).length =
      match f with
      | .connect req => if Spec.Broker.knownVersion req.protoName req.version && flagsBad req then 0 else 1
      | _ => 0 := by
  cases f with
  | garbage => rfl
  | other t => rfl
  | connect req =>
    show _ = if Spec.Broker.knownVersion req.protoName req.version && flagsBad req then 0 else 1
    rw [first_connect, ← facts_versions]
    cases levelOk req <;> cases flagsBad req <;> cases idBad req <;> cases authOk <;> rfl

/-- Any first packet other than a CONNECT: closed, nothing sent, state unchanged. -/
theorem C11_not_connect (b : B) (c : Nat) (authOk : Bool) :
    (∀ t, first b c (.other t) authOk = (b, [.closed c])) ∧ first b c .garbage authOk = (b, [.closed c]) :=
  ⟨fun _ => rfl, rfl⟩

/-! ### the refinement theorem, specialised: refusals after any history -/

open Mqtt.Proofs.BrokerRefine (okRun specRun okEv) in
open Mqtt.Spec.Broker (Accepts) in
/-- **Refinement (Proofs/BrokerRefine.lean: `Broker_refines_spec`) for C11.**
After any history admitted by `okRun` (see C01_refines_reference for the side
condition), a first packet that is not an acceptable CONNECT, on a connection
number not in use, changes nothing on either side and is answered as the
reference broker allows (`Accepts` of its `refused c codes`): by a close without
CONNACK where `none` is among the reasons (always for a packet that is not a
CONNECT, for reserved-flag and will-flag violations), or by a CONNACK with
SessionPresent = 0 and one of the listed return codes (1 protocol level, 2
client identifier, 4 authentication) followed by the close. -/
theorem C11_refines_reference (es : List Ev) (hok : okRun {} es = true) (c : Nat) (f : First) (a : Bool)
    (he : okEv (run {} es).1 (.first c f a) = true) (hacc : accepts f a = false) :
    Accepts (Mqtt.Spec.Broker.step (specRun {} es).1 (.first c f a)).2 (step (run {} es).1 (.first c f a)).2 ∧
    (step (run {} es).1 (.first c f a)).1 = (run {} es).1 ∧
    (Mqtt.Spec.Broker.step (specRun {} es).1 (.first c f a)).1 = (specRun {} es).1 ∧
    ∃ codes, (Mqtt.Spec.Broker.step (specRun {} es).1 (.first c f a)).2 = [.refused c codes] ∧
      codes = Mqtt.Proofs.BrokerRefine.reasons f a ∧
      (((step (run {} es).1 (.first c f a)).2 = [.closed c] ∧ none ∈ codes) ∨
       ∃ k, k ≠ 0 ∧ some k ∈ codes ∧
         (step (run {} es).1 (.first c f a)).2 = [.send c (.connack false k), .closed c]) := by
  obtain ⟨_, r2, r3⟩ := Mqtt.Proofs.BrokerRefine.reach_step es hok _ he
  obtain ⟨h1, h2, codes, h3, h4, h5⟩ :=
    Mqtt.Proofs.BrokerRefine.refusal_refines (b := (run {} es).1) c f a hacc (specRun {} es).1
  rw [r3]
  exact ⟨by rw [← r3]; exact r2, h1, h2, codes, h3, h4, h5⟩

/-! ### a first packet whose answer cannot be written -/

/-- **Nothing happens before a valid CONNECT, even when the refusal cannot be delivered.**  A first packet
that is not an acceptable CONNECT, on a connection to which nothing can be written any more
(`handleConnection` with a failing `writeMessage`; model `connectFail`): the state is untouched - no
connection of another client is taken over, no session is created, updated or deleted, nothing is
subscribed or published - and the only effect is the close of that connection. -/
theorem C11_unanswerable_refusal_changes_nothing (b : B) (c : Nat) (f : First) (a : Bool)
    (h : accepts f a = false) : connectFail b c f a = (b, [.closed c]) := by
  rw [Mqtt.Proofs.BrokerRefine.connectFail_eq, takeOver_refused b f a h,
    Mqtt.Proofs.BrokerRefine.firstFail_refused b c f a h]
  rfl

/-- The same on the side of the reference broker: `Spec.Broker.connectFail` of a refused first packet
leaves the reference state as it is. -/
theorem C11_unanswerable_refusal_spec (s : Mqtt.Spec.Broker.S) (c : Nat) (f : First) (a : Bool)
    (h : accepts f a = false) : (Mqtt.Spec.Broker.connectFail s c f a).1 = s := by
  have hr := Mqtt.Proofs.BrokerRefine.spec_firstFail_refused s c f a h
  rw [Mqtt.Proofs.BrokerRefine.spec_connectFail_eq]
  have ht : Mqtt.Spec.Broker.takeOver s f a = (s, []) := by
    cases f with
    | garbage => rfl
    | other t => rfl
    | connect req =>
      have hne : (Mqtt.Spec.Broker.refusals req a).isEmpty = false := by
        cases hl : Mqtt.Spec.Broker.refusals req a with
        | nil => exact absurd ((refusals_nil_iff req a).mp hl) (by rw [h]; simp)
        | cons _ _ => rfl
      simp [Mqtt.Spec.Broker.takeOver, hne]
  rw [ht, hr]

open Mqtt.Proofs.BrokerRefine (EvX okRunX runX specRunX okEv) in
open Mqtt.Spec.Broker (Accepts) in
/-- **C11_refines_reference after a history with failed handshakes** (Proofs/BrokerRefineFail.lean:
`BrokerX_refines_spec`).  The same statement for a first packet that is not an acceptable CONNECT, after a
history that may also contain first packets whose answer could not be written (`EvX.failFirst`). -/
theorem C11_refines_reference_with_failed_handshakes (es : List EvX) (hok : okRunX {} es = true)
    (c : Nat) (f : First) (a : Bool)
    (he : okEv (runX {} es).1 (.first c f a) = true) (hacc : accepts f a = false) :
    Accepts (Mqtt.Spec.Broker.step (specRunX {} es).1 (.first c f a)).2 (step (runX {} es).1 (.first c f a)).2 ∧
    (step (runX {} es).1 (.first c f a)).1 = (runX {} es).1 ∧
    (Mqtt.Spec.Broker.step (specRunX {} es).1 (.first c f a)).1 = (specRunX {} es).1 ∧
    ∃ codes, (Mqtt.Spec.Broker.step (specRunX {} es).1 (.first c f a)).2 = [.refused c codes] ∧
      codes = Mqtt.Proofs.BrokerRefine.reasons f a ∧
      (((step (runX {} es).1 (.first c f a)).2 = [.closed c] ∧ none ∈ codes) ∨
       ∃ k, k ≠ 0 ∧ some k ∈ codes ∧
         (step (runX {} es).1 (.first c f a)).2 = [.send c (.connack false k), .closed c]) :=
  Mqtt.Proofs.BrokerRefine.refusal_acceptedX es hok c f a he hacc

end Mqtt.Properties.C11
