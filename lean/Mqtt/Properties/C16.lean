/-
C16 — every connection is torn down completely in bounded time, in any state.

Property theorems only (helper lemmas: `Proofs/Lifecycle*.lean`).  They are about the small-step
model of ONE connection's life-cycle (`Model/Lifecycle.lean`: receiver, processor, sender, any
number of `stop()` callers and of external writers, the rest of the broker and the peer as
environment events) and hold for EVERY initial buffer state, traffic still to come, schedule of
thread steps and interleaved environment events (peer closes, half-closes, stops/resumes reading, keep-alive
expiry, the connection a delivery is addressed to blocks/unblocks, `Server.Close`).
`WF c` fixes the code as it is: repaired ring (the contract of C15 — DERIVED from the ring program, not assumed:
`C16_ring_contract_is_C15`, `C16_ring_steps_use_ringA`, `C16_out_ring_one_producer`, at the end of this file; exact since the
repair of finding F9 up to the window between a producer's last `isDone` test and its cursor store, named there), `stop()` in the order of
service.go, a receiver that closes the socket when its read has failed (repair b77088f, finding F7)
and a `ReadFrom` that waits only while the incoming ring is completely full and reads into the free
space (repair 8f682d1, finding F3) — regenerated: `C16_source_shape` —, a ring that holds a packet header.

* `C16_invariant`            the invariants and "no writer panicked" hold in every reachable state
* `C16_stop_once`            (a) at most one `stop()` call is past the CAS; its effects are
                             unsubscribe, will-if-flag, delete-if-clean — each at most once, in that
                             order, only after all three goroutines have exited, complete at the end
* `C16_teardown_bounded`     (b) an explicit natural number `rank` strictly decreases with every step
                             of every thread (and no environment event raises it): no schedule takes
                             more than `rank` thread steps; fair round-robin reaches, within `rank`
                             rounds, a state in which nothing can run
* `C16_no_deadlock`          (c) the full statement: in a reachable state where the connection has
                             ended, the teardown is not complete, and the processor is not inside a
                             delivery into ANOTHER connection that is still open, has stopped reading
                             and is full (`HeldUp` = `HeldByThird`: the property's exemption), and the end
                             is not a HALF-close of a self-held connection (`peerShut ∧ HeldBySelf`: the
                             half-closed form of F8), some thread can step
* `C16_receiver_reads_while_room`
                             a receiver inside its loop that cannot step is inside a socket read on an
                             open socket with nothing on the wire (waiting for the peer: keep-alive
                             deadline armed, the peer's close noticed) — or the incoming ring is
                             completely full and open; it is never parked while the ring has room
* `C16_chunked_packet_completes`, `C16_chunked_packet_arrives`
                             the F3 repair at model level: when nothing can run and the processor waits
                             for the rest of a packet that fits the ring, every byte the peer has sent is
                             in the ring and a socket read is pending; and a packet whose bytes are
                             under way (wire + ring) does arrive: round-robin does not end with the
                             processor still waiting for it
* `C16_self_held_not_ended`  a connection whose processor is parked behind its OWN non-reading client
                             (`HeldBySelf`, an exemption before b77088f) is, when nothing can run, a
                             connection that has not ended: every end the receiver sees closes the socket
                             — or one the peer has half-closed while the receiver, parked for room in the
                             completely full incoming ring, does not read (`C16_halfclose_unnoticed`)
* `C16_teardown_completes`   from any reachable state in which the connection has ended, fair
                             round-robin ends in the complete teardown — or in the state the property
                             exempts (`HeldByThird`), or in the unread half-close just named; nothing else
* `C16_read_failure_completes` in particular once the receiver's read has failed (keep-alive deadline
                             fired, peer closed or reset, protocol garbage ending the processor —
                             anything that puts the receiver past its loop)
* `C16_old_readfrom_wedges`  closed counterexample (F3): with the `ReadFrom` before 8f682d1 (waits for a
                             whole read block of free space) a packet longer than `cap - rblock` that
                             arrives in pieces parks receiver and processor, the peer's close is never
                             noticed; the repaired `ReadFrom` tears the same state down, will included
* `C16_old_receiver_wedges`  closed counterexample (F7): with the receiver before b77088f (returns without
                             closing the socket) a keep-alive expiry on a self-held connection ends in
                             a state where nothing can run and nothing is torn down; the repaired
                             receiver tears the same state down, will included
* `C16_exemption_needed`     while the connection a delivery is addressed to stays open, not reading,
                             full, no schedule of the connection's own threads completes the teardown
* `C16_stop_completes`       (e) once `stop()` has passed its CAS and no delivery to another connection
                             is blocked, fair round-robin ALWAYS ends in the complete teardown
                             (stop closes socket and rings)
* `C16_server_close`         `Server.Close` on a connection — first loop (all outgoing rings closed),
                             then `stop()` — returns with the teardown complete, within `rank` steps
* `C16_no_foreign_panic`, `C16_late_delivery_fails_fast`
                             (d) `stop()` never clears the ring pointers, no writer dereferences nil;
                             a delivery to a connection whose outgoing ring is closed fails at once
* `C16_halfclose_torn_down`, `C16_halfclose_needs_receiver_close`, `C16_halfclose_unnoticed`
                             the half-closed socket (`peerShut`: reads return end-of-stream, writes still
                             block): a half-close the receiver reads is torn down completely; closed
                             counterexample: not so with the receiver before b77088f (the sender stays in its
                             write); closed reachable state: a half-close the receiver does not read (incoming
                             ring full) is not noticed until the peer goes away
* closed counterexamples     the model wedges with the ring before 584775d (`C16_old_ring_wedges`,
                             D2/F2), a writer panics with the stop() before e79396e
                             (`C16_old_stop_panics`, F1), stop() wedges when `wgStopped.Wait` precedes
                             the Close calls (`C16_wait_before_close_wedges`), and the sequential
                             `Server.Close` before 08d14fb hangs behind a later connection
                             (`C16_sequential_close_hangs`)

What stays open is not a deadlock of an ENDED connection but an end that is not noticed: a receiver
parked because the incoming ring is completely full (behind a processor parked in the connection's
own outgoing ring) has no read pending and no deadline armed — finding F8, `C19_silence_counterexample`;
with a peer that has half-closed, `Ended` is true of that state and the theorems name it (`C16_halfclose_unnoticed`).

"Bounded time" is "bounded number of own steps"; that an enabled goroutine is eventually run
(weak fairness of the Go scheduler) is the hypothesis that turns these into "the teardown finishes".
-/
import Mqtt.Proofs.LifecycleChunk
import Mqtt.Proofs.LifecycleFacts
import Mqtt.Proofs.RingFacts
import Mqtt.Proofs.LifecycleRing

set_option linter.unusedSimpArgs false
set_option linter.unusedVariables false

namespace Mqtt.Properties.C16
open Mqtt.Model.Lifecycle Mqtt.Proofs.Lifecycle

/-- the source still has the shape the model is written against: order of `stop()`, deferred
recovers, Done-then-stop, `Server.Close` closing all outgoing rings first, the receiver closing the
socket after a failed `ReadFrom` (3 = `conn.Close()`, 4 = return), the lock structure of the ring
(C15's contract is about that buffer.go) -/
theorem C16_source_shape :
    (Mqtt.Generated.lifeStopSeq = stopProgram.map StopOp.code ∧
      stopTrace probeCfg 20 probeStopSh (.run 0) = Mqtt.Generated.lifeStopSeq) ∧
    (Mqtt.Generated.lifeStopCasReturns = true ∧ Mqtt.Generated.lifeStopWillGuarded = true ∧
      Mqtt.Generated.lifeStopCleanGuarded = true) ∧
    Mqtt.Generated.lifeRecoverFirst = [true, true, true, true] ∧
    (Mqtt.Generated.lifeProcDefer = procDeferModel ∧ Mqtt.Generated.lifeRecvDefer = recvDeferModel ∧
      Mqtt.Generated.lifeSendDefer = sendDeferModel) ∧
    (procLoopVisit probeCfg 5 { inR := { buf := 4 }, stream := [⟨2, 4, .normal []⟩] } .size = Mqtt.Generated.lifeProcLoop) ∧
    (writerVisit probeCfg 6 {} ⟨.check, 3⟩ = Mqtt.Generated.lifeWriteMessage) ∧
    Mqtt.Generated.lifeServerClose = [1, 2] ∧
    (Mqtt.Generated.lifeRecvOnError = [3, 4] ∧
      recvExitVisit probeCfg 8 { timeout := true } .read = Mqtt.Generated.lifeRecvOnError ∧
      recvExitSock probeCfg 8 { timeout := true } .read = .closed) ∧
    Mqtt.Generated.bufferLocks = Mqtt.Model.Ring.lockFacts :=
  ⟨facts_stop_order, ⟨facts_stop_guards.1, facts_stop_guards.2.1, facts_stop_guards.2.2.1⟩, facts_recover,
   facts_defers, facts_loops.1, facts_write_message.1, facts_server_close,
   ⟨facts_receiver.1, facts_receiver.2.2.1, facts_receiver.2.2.2.1⟩, Mqtt.Proofs.Ring.ring_lock_facts⟩

/-- a reachable state: any schedule (thread steps and environment events) from an initial state -/
def reach (c : Cfg) (s0 : St) (sched : List Label) : St := run c s0 sched

/-- the invariants hold in every reachable state -/
theorem C16_invariant (c : Cfg) (hw : WF c) (s0 : St) (h0 : Init c s0) (sched : List Label) :
    Inv c (reach c s0 sched) ∧ NoPanic (reach c s0 sched) :=
  ⟨inv_run c hw s0 sched (inv_init c s0 h0),
   noPanic_run c hw s0 sched (inv_init c s0 h0) (fun w hm => by rw [h0.ws w hm]; simp)⟩

/-- **(a) `stop` happens once.**  At most one caller is between the CAS and its return (the CAS);
the effects so far are `effAt n` for some `n` — unsubscribe, then the will if the flag is set, then
the session removal if the session is clean, each at most once; any effect comes after all three
goroutines have exited; when everything is over the effects are complete. -/
theorem C16_stop_once (c : Cfg) (hw : WF c) (s0 : St) (h0 : Init c s0) (sched : List Label) :
    let s := reach c s0 sched
    (∀ t1 t2 k1 k2, kOf s t1 = some k1 → kOf s t2 = some k2 →
        1 ≤ stage k1 → stage k1 < 100 → 1 ≤ stage k2 → stage k2 < 100 → t1 = t2) ∧
    (∃ n, s.sh.effects = effAt s.sh n) ∧
    (s.sh.effects ≠ [] → s.sh.wg = 0 ∧ s.recv = .exited ∧ s.send = .exited ∧ PPc.past s.proc = true) ∧
    (Final s = true → s.sh.closed = true ∧ TornDown s = true ∧ s.sh.effects = expectedEffects s.sh) := by
  intro s
  have hi : Inv c s := (C16_invariant c hw s0 h0 sched).1
  refine ⟨?_, ?_, ?_, ?_⟩
  · intro t1 t2 k1 k2 h1 h2 a1 b1 a2 b2
    have e1 := (hi.k.ks t1 k1 h1).prog a1 b1
    have e2 := (hi.k.ks t2 k2 h2).prog a2 b2
    rw [e1] at e2; cases e2; rfl
  · cases hc : s.sh.closed with
    | false => exact ⟨0, by rw [(hi.k.opn hc).2]; simp [effAt]⟩
    | true =>
      obtain ⟨t, kk, hwin, hkk⟩ := hi.k.cls hc
      exact ⟨stage kk, ((hi.k.ks t kk hkk).won hwin).2.2.2.2.2.2⟩
  · intro hne
    have hc : s.sh.closed = true := by
      cases hc : s.sh.closed with
      | true => rfl
      | false => exact absurd (hi.k.opn hc).2 hne
    obtain ⟨t, kk, hwin, hkk⟩ := hi.k.cls hc
    obtain ⟨_, _, _, _, _, w6, w7⟩ := (hi.k.ks t kk hkk).won hwin
    have h6 : 6 ≤ stage kk := by
      rcases Nat.lt_or_ge (stage kk) 6 with hlt | hge
      · exfalso; apply hne; rw [w7]
        have h7 : ¬ 7 ≤ stage kk := by omega
        have h8 : ¬ 8 ≤ stage kk := by omega
        have h9 : ¬ 9 ≤ stage kk := by omega
        simp [effAt, h7, h8, h9]
      · exact hge
    have hwg0 := w6 h6
    have hcnt := hi.a.wg
    rw [hwg0] at hcnt
    simp only [cnt] at hcnt
    refine ⟨hwg0, ?_, ?_, ?_⟩
    · by_cases h : s.recv = .exited
      · exact h
      · exfalso; simp [h] at hcnt <;> omega
    · by_cases h : s.send = .exited
      · exact h
      · exfalso; simp [h] at hcnt <;> omega
    · cases h : PPc.past s.proc with
      | true => rfl
      | false => exfalso; simp [h] at hcnt <;> omega
  · intro hf
    have hp : s.proc = .stop .finished := by
      simp only [Final, Bool.and_eq_true, beq_iff_eq] at hf
      exact hf.1.1.2
    have hc : s.sh.closed = true := (hi.k.ks .proc .finished (by simp [kOf, hp])).fin rfl
    exact ⟨hc, final_torn c s hi hf hc⟩

/-- **(b) the teardown is bounded.**  Every step of every thread lowers `rank`, no environment
event raises it; hence no schedule takes more than `rank s` thread steps, and fair round-robin
(one turn for every thread per round) reaches within `rank s` rounds a state in which no thread
can step — a reachable state, by a schedule of thread steps. -/
theorem C16_teardown_bounded (c : Cfg) (hw : WF c) (s0 : St) (h0 : Init c s0) (sched : List Label) :
    let s := reach c s0 sched
    (∀ t k s', tstep c s t k = some s' → rank c s' < rank c s) ∧
    (∀ e s', estep c s e = some s' → rank c s' ≤ rank c s) ∧
    (∀ sched', takenTh c s sched' ≤ rank c s) ∧
    quiescent c (drain c (rank c s) s) = true ∧
    (∃ sched', drain c (rank c s) s = run c s sched' ∧ ∀ l, l ∈ sched' → ∃ t k, l = .th t k) := by
  intro s
  have hi : Inv c s := (C16_invariant c hw s0 h0 sched).1
  refine ⟨fun t k s' h => rank_step c hw s s' t k hi.a.swin h, fun e s' h => rank_env c hw s s' e h, ?_, ?_, ?_⟩
  · intro sched'; have := takenTh_le_rank c hw s sched' hi; omega
  · exact drain_quiescent c hw _ s hi (Nat.le_refl _)
  · exact drain_is_run c _ s

/-- **(c) no deadlock among the connection's threads** (the full statement, with the property's
exemption).  In a reachable state in which the connection has ended and the teardown is not
complete, some thread can step — unless the processor is inside a delivery into ANOTHER connection
that is still open, has stopped reading and is full (`HeldByThird`: the property's exemption — the
connection's own non-reading client is no excuse, `C16_self_held_not_ended`) — or the end is the peer's
HALF-close and the connection is self-held (`sock = peerShut ∧ HeldBySelf`: the peer has shut down its sending
direction and does not read, the socket is still writable, the processor is parked in the own outgoing ring;
when nothing can run the receiver is then waiting for room in the completely full incoming ring and never reads
the end-of-stream: the half-closed form of the open finding F8, `C16_self_held_not_ended`,
`C16_halfclose_unnoticed`).  (Before 8f682d1 a
second exception was needed: receiver and processor waiting for each other, `C16_old_readfrom_wedges`.) -/
theorem C16_no_deadlock (c : Cfg) (hw : WF c) (s0 : St) (h0 : Init c s0) (sched : List Label) :
    let s := reach c s0 sched
    Ended s = true → Final s = false → HeldByThird s = false →
    (s.sh.sock == .peerShut && HeldBySelf s) = false →
    ∃ t, en c s t = true := by
  intro s he hf hh hhc
  have hi : Inv c s := (C16_invariant c hw s0 h0 sched).1
  apply Classical.byContradiction
  intro hne
  have hq : ∀ t, en c s t = false := by
    intro t
    cases h : en c s t with
    | false => rfl
    | true => exact absurd ⟨t, h⟩ hne
  rcases quiescent_cases_fixed c hw s hi hq with h | h | h | h
  · rw [hf] at h; cases h
  · rw [hh] at h; cases h
  · rw [he] at h; cases h
  · simp [h.1, h.2.1] at hhc

/-- the exemption is exactly `HeldByThird` -/
theorem C16_exemption_is_third_party (s : St) : HeldUp s = HeldByThird s := rfl

/-- **a self-held connection has not ended** (repair b77088f) — in any way the broker has noticed.  In a
reachable state in which no thread can step and the processor is inside a write to the connection's own
outgoing ring while its own client is connected (the socket is writable: open or half-closed) and not
reading: no read deadline has fired, the receiver is inside its loop, nobody has called `stop()`, and the
socket is open — the connection has not ended — or the peer has HALF-closed it (`peerShut`) and the receiver
is waiting for room in the completely full incoming ring: it issues no read and never sees the end-of-stream
(the half-closed form of finding F8; `C16_halfclose_unnoticed`).  (Before the repair such a state could follow
a keep-alive expiry or a receiver error and was exempted as "held up by self": `C16_old_receiver_wedges`.) -/
theorem C16_self_held_not_ended (c : Cfg) (hw : WF c) (s0 : St) (h0 : Init c s0) (sched : List Label) :
    let s := reach c s0 sched
    quiescent c s = true → HeldBySelf s = true →
    (Ended s = false ∨ (s.sh.sock = .peerShut ∧ s.recv = .space ∧ s.sh.inR.done = false ∧ c.cap ≤ s.sh.inR.buf)) ∧
    s.sh.timeout = false ∧ RPc.pastLoop s.recv = false ∧ s.sh.closed = false := by
  intro s hq hs
  have hi : Inv c s := (C16_invariant c hw s0 h0 sched).1
  exact self_held_not_ended c hw s hi ((quiescent_iff c s).mp hq) hs

/-- **the receiver is never parked while the incoming ring has room** (repair 8f682d1).  In every
reachable state: a receiver that is inside its loop and cannot step is

* inside a socket read on an open socket, no deadline fired, nothing on the wire — it waits for the
  peer, legitimately: the read deadline is armed (`kaExpire` is enabled) and the peer's close is
  noticed (`peerClose` is enabled, and makes the read fail) —, or
* waiting for space while the incoming ring is open and completely full (`cap ≤ inR.buf`; `= cap` when
  the initial contents fitted the ring — `Init` does not say so).

Before the repair the second case was "less than a read block free". -/
theorem C16_receiver_reads_while_room (c : Cfg) (hw : WF c) (s0 : St) (h0 : Init c s0) (sched : List Label) :
    let s := reach c s0 sched
    en c s .recv = false → RPc.pastLoop s.recv = false →
    (s.recv = .read ∧ s.sh.sock = .open ∧ s.sh.timeout = false ∧ s.sh.wire = 0 ∧
      (estep c s .kaExpire).isSome = true ∧ (estep c s .peerClose).isSome = true) ∨
    (s.recv = .space ∧ s.sh.inR.done = false ∧ c.cap ≤ s.sh.inR.buf ∧
      (s0.sh.inR.buf ≤ c.cap → s.sh.inR.buf = c.cap)) := by
  intro s hen hpl
  have hi0 : Inv c s0 := inv_init c s0 h0
  have hi : Inv c s := (C16_invariant c hw s0 h0 sched).1
  rcases recv_blocked c hw s hi.a hen with ⟨hr, hd, hb⟩ | ⟨hr, hso, hto, hwi⟩ | hr
  · right
    refine ⟨hr, hd, hb, ?_⟩
    intro hfit
    have := inFit_run c hw s0 sched hi0 hfit
    exact Nat.le_antisymm this hb
  · left
    refine ⟨hr, hso, hto, hwi, ?_, ?_⟩ <;> simp [estep, hr, hso]
  · rw [hr] at hpl; cases hpl

/-- **a packet in pieces does not wedge the connection** (the F3 repair at model level, part 1).  In a
reachable state in which nothing can run and the processor waits for the rest of a packet that fits
the ring (`p.total ≤ cap`, fewer bytes buffered, ring open): the receiver is inside a socket read on
an open socket with nothing left on the wire — every byte the peer has sent so far is in the ring —
so the keep-alive deadline is armed and the peer's close is noticed (both environment events are
enabled), and either makes the read fail; `C16_read_failure_completes` does the rest. -/
theorem C16_chunked_packet_completes (c : Cfg) (hw : WF c) (s0 : St) (h0 : Init c s0) (sched : List Label) :
    let s := reach c s0 sched
    quiescent c s = true → s.proc = .msg →
    ∀ p tl, s.sh.stream = p :: tl → p.total ≤ c.cap → s.sh.inR.buf < p.total → s.sh.inR.done = false →
    s.recv = .read ∧ s.sh.sock = .open ∧ s.sh.timeout = false ∧ s.sh.wire = 0 ∧
    (estep c s .kaExpire).isSome = true ∧ (estep c s .peerClose).isSome = true := by
  intro s hq hpc p tl hst hcap hbuf hnd
  have hi : Inv c s := (C16_invariant c hw s0 h0 sched).1
  rcases recv_blocked c hw s hi.a ((quiescent_iff c s).mp hq .recv) with ⟨_, _, hb⟩ | ⟨hr, hso, hto, hwi⟩ | hr
  · exfalso; omega
  · refine ⟨hr, hso, hto, hwi, ?_, ?_⟩ <;> simp [estep, hr, hso]
  · exfalso
    have := hi.a.rdone (by simp [hr, RPc.closedRing])
    rw [this] at hnd; cases hnd

/-- **a packet in pieces arrives** (part 2, liveness).  From a reachable state in which the processor
waits for the rest of the head packet `p`, `p` fits the ring, and the bytes still on the wire, those in
the ring and those the receiver has just read add up to `p` at least: fair round-robin ends — within
`rank` rounds — in a state in which the processor is NOT still waiting for that packet: it has got it
(it is past `peekMessage`, or has consumed the packet: the stream is shorter) or has left its loop
because the connection ended on the way (ring closed).  However small the pieces, whatever the ring
holds.  Before 8f682d1 this failed for `cap - rblock < p.total` (`C16_old_readfrom_wedges`). -/
theorem C16_chunked_packet_arrives (c : Cfg) (hw : WF c) (s0 : St) (h0 : Init c s0) (sched : List Label) :
    let s := reach c s0 sched
    s.proc = .msg → ∀ p tl, s.sh.stream = p :: tl → p.total ≤ c.cap →
    p.total ≤ s.sh.wire + s.sh.inR.buf + RPc.pend s.recv →
    let q := drain c (rank c s) s
    quiescent c q = true ∧ (q.sh.stream = s.sh.stream → q.proc ≠ .msg ∧ PPc.passed q.proc = true) := by
  intro s hpc p tl hst hcap hsum q
  have hi : Inv c s := (C16_invariant c hw s0 h0 sched).1
  have hq := drain_quiescent c hw _ s hi (Nat.le_refl _)
  have hiq : Inv c q := inv_drain c hw _ s hi
  obtain ⟨sched', hrun, hth⟩ := drain_is_run c (rank c s) s
  have ha0 : Arr (p :: tl) p.total s := ⟨by rw [hst]; exact Nat.le_refl _, fun _ => Or.inl ⟨hpc, Or.inr hsum⟩⟩
  have ha : Arr (p :: tl) p.total q := by
    show Arr (p :: tl) p.total (drain c (rank c s) s)
    rw [hrun]; exact arr_run c hw (p :: tl) (by simp) p.total s sched' hth hi ha0
  refine ⟨hq, ?_⟩
  intro hsame
  have hqs : q.sh.stream = p :: tl := by rw [hsame, hst]
  rcases ha.2 hqs with ⟨hm, hb⟩ | hp
  · -- still waiting: impossible in a state in which nothing can run
    exfalso
    have hqq := (quiescent_iff c q).mp hq
    rcases proc_blocked c hw q (hqq .proc) with ⟨h, _⟩ | ⟨_, p', tl', hst', hbuf, _, hnd⟩ | ⟨_, h, _⟩ | ⟨_, _, h, _⟩ |
        ⟨_, _, h | h, _⟩ | ⟨h, _⟩ | h | h
    all_goals first | (rw [hm] at h; cases h) | skip
    rw [hqs] at hst'; cases hst'
    rcases hb with hb | hb
    · rw [hb] at hnd; cases hnd
    · rcases recv_blocked c hw q hiq.a (hqq .recv) with ⟨_, _, hf⟩ | ⟨hr, _, _, hwi⟩ | hr
      · omega
      · rw [hr, hwi] at hb; simp [RPc.pend] at hb; omega
      · have := hiq.a.rdone (by simp [hr, RPc.closedRing])
        rw [this] at hnd; cases hnd
  · refine ⟨?_, hp⟩
    intro hm; rw [hm] at hp; cases hp

/-- a 14-byte packet of which the peer sends 9 bytes in pieces of at most 3, then closes; will flag set -/
def chunkInit : St := { sh := { stream := [⟨2, 14, .normal []⟩], wire := 9, willFlag := true } }

def chunkSched : List Label :=
  [.th .recv 0, .th .recv 3, .th .recv 0, .th .recv 0, .th .recv 3, .th .recv 0, .th .recv 0, .th .recv 3,
   .th .recv 0, .th .proc 0, .env .peerClose]

/-- **with the `ReadFrom` before 8f682d1 the model wedges** (F3: the full statement of (c) was false
of that code).  Old `ReadFrom` (`blockWait := true`: a whole read block of free space before every
socket read): a reachable state — three socket reads of 3 bytes each, the processor has seen the
header, the peer closes; every step of the schedule is taken — in which the connection has ended,
nothing is held up, the teardown has not even begun, and no thread can step: the receiver waits
for 8 free bytes beside the 9 buffered ones, the processor for the other 5 bytes of the 14-byte
packet, nobody reads the socket, the close is never noticed (`ChunkWedge`; it needs a head packet
with `cap - rblock < total ≤ cap`, here 8 < 14 ≤ 16).  The repaired `ReadFrom` takes the same steps to
the same state, but there the receiver can step (one byte is free): it issues the read, sees the
close, and round-robin ends in the complete teardown with the will published. -/
theorem C16_old_readfrom_wedges :
    WF c0 ∧ Init c0 chunkInit ∧
    (let c : Cfg := { c0 with blockWait := true }
     let s := reach c chunkInit chunkSched
     taken c chunkInit chunkSched = chunkSched.length ∧
     s.recv = .space ∧ s.proc = .msg ∧ s.sh.inR.buf = 9 ∧ s.sh.wire = 0 ∧ s.sh.sock = .peerClosed ∧
     quiescent c s = true ∧ Ended s = true ∧ Final s = false ∧ HeldUp s = false ∧ s.sh.closed = false ∧
     ChunkWedge c s = true ∧ s.sh.effects = [] ∧ goroutinesLeft s = 3 ∧ drain c 40 s = s) ∧
    (let s := reach c0 chunkInit chunkSched
     let q := drain c0 40 s
     taken c0 chunkInit chunkSched = chunkSched.length ∧
     s.recv = .space ∧ s.proc = .msg ∧ s.sh.inR.buf = 9 ∧ s.sh.wire = 0 ∧ s.sh.sock = .peerClosed ∧
     en c0 s .recv = true ∧
     quiescent c0 q = true ∧ Final q = true ∧ TornDown q = true ∧ q.sh.effects = [.unsub, .will] ∧
     goroutinesLeft q = 0) := by
  refine ⟨c0_wf, ?_, by decide, by decide⟩
  refine ⟨rfl, rfl, rfl, rfl, rfl, rfl, rfl, rfl, rfl, ?_, ?_, rfl, rfl, rfl⟩
  · intro k hk; cases hk
  · intro w hw; cases hw

/-- **the teardown completes** (the full property, with its exemption).  From any reachable state
in which the connection has ended, fair round-robin reaches within `rank` rounds a state in which
nothing can run, and that state is the complete teardown (all goroutines exited, `stop()` returned,
its effects complete) — or the processor is inside a delivery into ANOTHER connection that is still
open, has stopped reading and is full — or the end was the peer's HALF-close (`peerShut`), the peer does not
read, the processor is parked in the connection's own outgoing ring and the receiver waits for room in the
completely full incoming ring: no read is issued, the end-of-stream is never seen (the half-closed form of
finding F8; `C16_halfclose_unnoticed`; whenever the receiver's read does fail the teardown completes:
`C16_read_failure_completes`, `C16_halfclose_torn_down`).  Nothing else: a connection whose own client has
stopped reading is otherwise no exception (b77088f), a packet arriving in pieces is none (8f682d1). -/
theorem C16_teardown_completes (c : Cfg) (hw : WF c) (s0 : St) (h0 : Init c s0) (sched : List Label) :
    let s := reach c s0 sched
    Ended s = true →
    let q := drain c (rank c s) s
    quiescent c q = true ∧
    ((Final q = true ∧ TornDown q = true ∧ q.sh.effects = expectedEffects q.sh ∧ goroutinesLeft q = 0) ∨
     HeldByThird q = true ∨
     (HeldBySelf q = true ∧ q.sh.sock = .peerShut ∧ q.recv = .space ∧ c.cap ≤ q.sh.inR.buf)) := by
  intro s he q
  have hi : Inv c s := (C16_invariant c hw s0 h0 sched).1
  have hq := drain_quiescent c hw _ s hi (Nat.le_refl _)
  have hiq : Inv c q := inv_drain c hw _ s hi
  obtain ⟨sched', hrun, hth⟩ := drain_is_run c (rank c s) s
  have heq : Ended q = true := by
    show Ended (drain c (rank c s) s) = true
    rw [hrun]; exact (persist_run c hw s sched' hth).1 he
  refine ⟨hq, ?_⟩
  rcases quiescent_cases_fixed c hw q hiq ((quiescent_iff c q).mp hq) with h | h | h | h
  · left
    have hp : q.proc = .stop .finished := by
      simp only [Final, Bool.and_eq_true, beq_iff_eq] at h
      exact h.1.1.2
    have hc : q.sh.closed = true := (hiq.k.ks .proc .finished (by simp [kOf, hp])).fin rfl
    have ht := final_torn c q hiq h hc
    refine ⟨h, ht.1, ht.2, ?_⟩
    simp only [Final, Bool.and_eq_true, beq_iff_eq] at h
    simp [goroutinesLeft, h.1.1.1.1, h.1.1.1.2, hp]
  · right; left; exact h
  · rw [heq] at h; cases h
  · right; right; exact ⟨h.1, h.2.1, h.2.2.1, h.2.2.2.2.1⟩

/-- **a failed read always leads to the teardown.**  From any reachable state in which the
receiver's read has failed — the keep-alive deadline has fired on it, or the receiver is already
past its loop (peer closed or reset, ring closed under it) — fair round-robin reaches within `rank`
rounds the complete teardown, for EVERY buffer condition: idle, own outgoing ring full with a third
party's or with the connection's OWN processor parked in it behind a client that does not read,
incoming ring full, a packet half arrived.  The only state in which it can stop short is the
processor inside a delivery into another connection that is open, not reading and full.
(`C16_teardown_completes` with one of the ways a connection ends.) -/
theorem C16_read_failure_completes (c : Cfg) (hw : WF c) (s0 : St) (h0 : Init c s0) (sched : List Label) :
    let s := reach c s0 sched
    (s.sh.timeout = true ∨ RPc.pastLoop s.recv = true) →
    let q := drain c (rank c s) s
    quiescent c q = true ∧
    ((Final q = true ∧ TornDown q = true ∧ q.sh.effects = expectedEffects q.sh ∧ goroutinesLeft q = 0) ∨
     HeldByThird q = true) := by
  intro s hf
  have hi : Inv c s := (C16_invariant c hw s0 h0 sched).1
  have he : Ended s = true := by
    rcases hf with h | h <;> simp [Ended, h]
  have hrf : ReadFails s := by
    rcases hf with h | h
    · rcases hi.r.tmo h with hr | hr
      · exact Or.inl ⟨hr, Or.inr h⟩
      · exact Or.inr hr
    · exact Or.inr h
  obtain ⟨hq, hcases⟩ := C16_teardown_completes c hw s0 h0 sched he
  refine ⟨hq, ?_⟩
  rcases hcases with h | h | h
  · exact Or.inl h
  · exact Or.inr h
  · -- the receiver's read has failed: it is not waiting for ring space
    exfalso
    obtain ⟨sched', hrun, hth⟩ := drain_is_run c (rank c s) s
    have := readFails_not_space _ (readFails_run c hw s sched' hth hrf)
    rw [← hrun] at this
    exact this h.2.2.1

/-- **the exemption is needed**: while the connection the processor delivers to stays open, not
reading and full, no schedule of this connection's own threads gets the processor out of the
delivery, so none completes the teardown (`wgStopped.Wait` waits for the processor). -/
theorem C16_exemption_needed (c : Cfg) (hw : WF c) (s : St) (sched : List Label)
    (hth : ∀ l, l ∈ sched → ∃ t k, l = .th t k) (hh : HeldByThird s = true) :
    HeldByThird (run c s sched) = true ∧ Final (run c s sched) = false :=
  held_persist_run c hw s sched hth hh

/-- **(e) once `stop()` is under way it completes.**  In a reachable state in which a `stop()` call
has passed its CAS and the connection the processor may be delivering to is not blocked, fair
round-robin reaches within `rank` rounds the complete teardown: every goroutine exited, every
`stop()` call returned, effects complete, exactly once.  No exemption but the third party's:
`stop()` closes the socket and both rings itself. -/
theorem C16_stop_completes (c : Cfg) (hw : WF c) (s0 : St) (h0 : Init c s0) (sched : List Label) :
    let s := reach c s0 sched
    s.sh.closed = true → s.sh.extBlocked = false →
    let q := drain c (rank c s) s
    Final q = true ∧ TornDown q = true ∧ q.sh.effects = expectedEffects q.sh ∧ goroutinesLeft q = 0 := by
  intro s hc hx q
  have hi : Inv c s := (C16_invariant c hw s0 h0 sched).1
  have hq := drain_quiescent c hw _ s hi (Nat.le_refl _)
  have hiq : Inv c q := inv_drain c hw _ s hi
  obtain ⟨sched', hrun, hth⟩ := drain_is_run c (rank c s) s
  obtain ⟨_, p2, p3⟩ := persist_run c hw s sched' hth
  have hcq : q.sh.closed = true := by show (drain c (rank c s) s).sh.closed = true; rw [hrun]; exact p2 hc
  have hxq : q.sh.extBlocked = false := by show (drain c (rank c s) s).sh.extBlocked = false; rw [hrun, p3]; exact hx
  obtain ⟨hf, ht⟩ := quiescent_closed c hw q hiq ((quiescent_iff c q).mp hq) hcq hxq
  refine ⟨hf, ht, (final_torn c q hiq hf hcq).2, ?_⟩
  simp only [Final, Bool.and_eq_true, beq_iff_eq] at hf
  simp [goroutinesLeft, hf.1.1.1.1, hf.1.1.1.2, hf.1.1.2]

/-- what `Server.Close` does to one connection: its first loop has closed every outgoing ring
(this connection's: `preClose`; the others': no delivery of this connection stays blocked), then
`stop()` is called and executes its CAS -/
def serverCloseSched (i : Nat) : List Label :=
  [.env .preClose, .env (.extBlock false), .env (.serverClose i), .th (.k i) 0]

/-- **`Server.Close` returns.**  For a connection in any reachable state whose `i`-th stopper has not
been used: after the first loop of `Server.Close` and the call of `stop()`, fair round-robin reaches
within `rank` rounds the complete teardown, and that `stop()` call has returned.  `Server.Close`
stops its connections one after the other; each of these terminates, so the loop does.  (What makes
`extBlocked = false` true for every connection is that the first loop closes ALL outgoing rings
before the first `stop()` — regenerated fact `lifeServerClose = [1, 2]`; without it:
`C16_sequential_close_hangs`.) -/
theorem C16_server_close (c : Cfg) (hw : WF c) (s0 : St) (h0 : Init c s0) (sched : List Label) (i : Nat) :
    let s := reach c s0 sched
    s.ks[i]? = some .idle →
    let s1 := run c s (serverCloseSched i)
    let q := drain c (rank c s1) s1
    Final q = true ∧ TornDown q = true ∧ q.ks[i]? = some .finished ∧ goroutinesLeft q = 0 := by
  intro s hidle s1 q
  have hlt : i < s.ks.length := (List.getElem?_eq_some_iff.mp hidle).1
  -- the four steps, symbolically
  have hs1 : s1.sh.closed = true ∧ s1.sh.extBlocked = false ∧ s1.ks[i]? ≠ some .idle := by
    show (run c s (serverCloseSched i)).sh.closed = true ∧ (run c s (serverCloseSched i)).sh.extBlocked = false ∧
      (run c s (serverCloseSched i)).ks[i]? ≠ some .idle
    simp only [serverCloseSched, run, step, estep, close_returns c hw.d2, Option.map_some, hidle,
      tstep, List.getElem?_set_self hlt, kstep, hw.prog]
    by_cases hc : s.sh.closed = true
    · simp [stopProgram, execStop, hc, List.getElem?_set_self hlt, run]
    · simp [stopProgram, execStop, hc, List.getElem?_set_self hlt, run]
  have hr1 : s1 = reach c s0 (sched ++ serverCloseSched i) := by
    show run c (run c s0 sched) (serverCloseSched i) = run c s0 (sched ++ serverCloseSched i)
    rw [run_append]
  have hmain := C16_stop_completes c hw s0 h0 (sched ++ serverCloseSched i)
  simp only [← hr1] at hmain
  obtain ⟨hf, ht, _, hg⟩ := hmain hs1.1 hs1.2.1
  refine ⟨hf, ht, ?_, hg⟩
  -- the stopper was started and every stop() call has returned
  obtain ⟨sched', hrun, hth⟩ := drain_is_run c (rank c s1) s1
  have hni : q.ks[i]? ≠ some .idle := by
    intro hq
    have : (run c s1 sched').ks[i]? = some .idle := by rw [← hrun]; exact hq
    exact hs1.2.2 (started_persist_run c hw s1 sched' hth i this)
  have hlen : i < q.ks.length := by
    have h1 : ∀ (s : St) (sch : List Label), (run c s sch).ks.length = s.ks.length := by
      intro s sch
      induction sch generalizing s with
      | nil => rfl
      | cons l ls ih =>
        simp only [run]
        cases h : step c s l with
        | none => exact ih s
        | some s' => rw [ih s', (ks_length_step c s s' l h).1]
    show i < (drain c (rank c s1) s1).ks.length
    rw [hrun, h1, show s1 = run c s (serverCloseSched i) from rfl, h1]; exact hlt
  have hk : ∃ k, q.ks[i]? = some k := ⟨q.ks[i], List.getElem?_eq_some_iff.mpr ⟨hlen, rfl⟩⟩
  obtain ⟨k, hk⟩ := hk
  simp only [Final, Bool.and_eq_true] at hf
  have := (List.all_eq_true.mp hf.1.2) k (List.mem_iff_getElem?.mpr ⟨i, hk⟩)
  cases k with
  | idle => exact absurd hk hni
  | finished => exact hk
  | run j => simp [KPc.isFinal] at this

/-- **(d) no foreign panic.**  In every reachable state the ring pointers are not cleared (`stop()`
has no such statement any more: fix e79396e) and no external writer — a goroutine of ANOTHER
connection — has dereferenced nil. -/
theorem C16_no_foreign_panic (c : Cfg) (hw : WF c) (s0 : St) (h0 : Init c s0) (sched : List Label) :
    let s := reach c s0 sched
    s.sh.ringsNil = false ∧ ∀ w, w ∈ s.ws → w.pc ≠ .panicked := by
  intro s
  obtain ⟨hi, hn⟩ := C16_invariant c hw s0 h0 sched
  exact ⟨hi.k.nil, hn⟩

/-- **(d) a late delivery fails fast.**  (At ring level — `C16_ring_contract_is_C15`, `producer` (2): once `done` is set, every
`WriteWait`/`WriteCommit`/`Write` that has not yet passed its last `isDone` test returns end-of-stream, whether it starts later,
is parked, or is in progress; the exception is a call between that test and its cursor store, `C15_commit_window`.)
Once the outgoing ring is closed (by `stop()`, by the
sender's deferred Close, by `Server.Close`), a writer past the lock is enabled and its step returns
end-of-stream without committing anything and releases `wmu`; a writer at the nil test is enabled; a
writer at the lock is enabled unless `wmu` is held — and then its holder is enabled.  Nobody blocks
in a torn-down connection. -/
theorem C16_late_delivery_fails_fast (c : Cfg) (hw : WF c) (s0 : St) (h0 : Init c s0) (sched : List Label) :
    let s := reach c s0 sched
    s.sh.outR.done = true → ∀ i w, s.ws[i]? = some w →
      (w.pc = .check → en c s (.w i) = true) ∧
      ((w.pc = .wait ∨ w.pc = .commit) →
        ∃ sh', wstep c s.sh (.w i) w = some (sh', { w with pc := .finished }) ∧ sh'.outR = s.sh.outR ∧ sh'.wmu = none) ∧
      (w.pc = .lock → en c s (.w i) = true ∨ ∃ t, s.sh.wmu = some t ∧ en c s t = true) := by
  intro s hd i w hwi
  exact late_delivery c hw s (C16_invariant c hw s0 h0 sched).1 hd i w hwi

/-! ## The ring contract: derived from Core D (`Properties/C15.lean`), cited here

The rings of the model are `RingA` = (bytes buffered, `done`) with one atomic step per ring call, a waiting call being a
step that is not enabled.  The three theorems below are what justifies that: they are ABOUT THE RING PROGRAM
(`Model/Ring.lean`, the program-counter-level model of buffer.go that C14/C15 verify and tie to the code) and are proved by
citing the call-level theorems of `Properties/C15.lean` — `#print axioms` and the import graph show the dependency. -/

section RingContract
open Mqtt.Proofs.LifecycleRing

/-- **The life-cycle model's ring contract is C15's.**  For every ring size `2^k`, stream, well-typed thread programs (ONE
producer — `C16_out_ring_one_producer` —, one consumer, any number of closers), and schedule: in the reachable state `s`
of the ring program, with `absRing s = (pseq - cseq, done)` and `ringCfg` = the life-cycle configuration of that capacity,

* `step`      every step of the ring program is `RingA.commitP` (+n, by the producer only, `buf + n ≤ cap` before it),
              `RingA.commitC` (-n, by the consumer only, `n ≤ buf` before it), `RingA.close`, or invisible — (b) EFFECT;
* `producer`  a complete `WriteWait(l)` / `WriteCommit(l)` / `Write(l)` under any interleaving (`pstep .ownWait/.ownCommit`,
              `wstep .wait/.commit`): its outcome is the answer of `RingA.waitSpace` / `RingA.commitP` at its linearisation
              point — `full` iff `cap < l`; end-of-stream only with `done` set; `ok` only if ONE own step (the last `isDone`
              test) IS `RingA.waitSpace … l = ok`: ring open and `buf + l ≤ cap` in the same state; for the committing calls a
              later own step adds exactly `l`, with `buf + l ≤ cap` before it — (a) ENABLEDNESS, (b); once `done` is set a call not
              yet past that test does not succeed — (d); and when nothing can run the call is unfinished iff the producer is parked
              in it and `RingA.waitSpace … l = none` — (c) BLOCKING = NOT ENABLED;
* `consumer`  the same for `ReadWait(n)` / `ReadPeek(n)` (`pstep .size/.msg`, `sstep .peek`; no effect; `ok` with the bytes
              buffered from then on — also on a closed ring —, end-of-stream only if ONE own step IS `RingA.waitData … = eof`:
              `done` set and too few bytes in the same state) and `ReadCommit(n)` (`pstep .commit`, `sstep .commit`: IS `RingA.commitC`, never waits);
* `close`     `Close()` (`rstep/sstep .close`, `execStop .inClose/.outClose`, `estep .preClose`) returns `ok`, its first
              statement IS `RingA.close`, it never waits, and once `done` is set no call stays unfinished when nothing can
              run: every parked call has returned — (d) CLOSE;
* `readfrom`  one iteration of `ReadFrom` is the receiver's `.space` (one byte free when `waitForWriteSpace(1)` has
              returned), `.read` (at most `cap - buf` bytes), `.commit n` (`buf + n ≤ cap`: never waits; its cursor store is
              `RingA.commitP`), its exit is `.close` (returns only through its deferred `Close`, ring closed), and it is
              parked only while `RingA.waitSpace … 1 = none` (ring open and completely full);
* `quiescent` thread by thread, a state in which nothing can run.

`done` VERSUS THE CURSORS (finding F9, repaired in buffer.go; NOTES-f9.md).  `RingA.waitSpace/commitP/waitData` test `done` and the
cursors in ONE step; the ring tested them at two statements of a wait loop, so that a producer woken by `Close` could still
commit and a consumer could answer end-of-stream with the bytes there (`C15_old_ring_late_commit`, `C15_old_ring_eof_with_data`:
the ring before the repair).  With the repaired ring the contract is EXACT where the model needs it: a consumer's
end-of-stream IS `RingA.waitData … = eof` and a producer's successful `waitForWriteSpace` IS `RingA.waitSpace … = ok` on
`absRing` of ONE state of the call (`consumer` (A), `producer` (1)); and `Close` makes every producer call that has not yet
passed its last `isDone` test — not started, parked, woken, anywhere in `waitForWriteSpace` — fail (`producer` (2)): that is the
ring-level content of `C16_late_delivery_fails_fast` for calls already in progress.  What is left, and not in the model: a
committing call stores the cursor a few statements after that last test (for `Write` the byte copy lies in between); `Close` in
that window lets the commit land in a closed ring (`C15_commit_window`).  Nobody reads those bytes from an outgoing ring (the
sender leaves at its next `isDone`); on an incoming ring the closers are the producer itself — after its last commit — and
`stop()`, i.e. the teardown the commit then races.  No conclusion of the teardown theorems mentions ring contents. -/
theorem C16_ring_contract_is_C15 (cfg : Mqtt.Model.Ring.Cfg) (adv gate : Nat)
    (progP progC : List Mqtt.Iface.Ring.Call) (progsK : List (List Mqtt.Iface.Ring.Call))
    (hgate : gate ≤ adv) (hok : Mqtt.Proofs.Ring.ProgsOK progP progC progsK) (sched0 : List Mqtt.Iface.Ring.Tid) :
    RingContract cfg (Mqtt.Properties.C15.reach cfg adv gate progP progC progsK sched0) :=
  ring_contract cfg adv gate progP progC progsK hgate hok sched0

/-- **Each life-cycle ring step is enabled exactly when its `RingA` function answers**, for every well-formed configuration;
and the `RingA` functions of a well-formed configuration of capacity `2^k` ARE those of `ringCfg` (they look at `cap` and
the OLD-ring switch only) — so `C16_ring_contract_is_C15` is about the functions the model's steps call. -/
theorem C16_ring_steps_use_ringA (c : Cfg) (hw : WF c) (sh : Sh) (k : Nat) :
    ((rstep c sh k .space = none ↔ sh.inR.waitSpace c 1 = none) ∧
     (∀ n, rstep c sh k (.commit n) = none ↔ sh.inR.commitP c n = none) ∧
     (rstep c sh k .close ≠ none) ∧
     (sstep c sh .peek = none ↔ sh.outR.waitData c 1 = none) ∧
     (∀ m, sstep c sh (.commit m) ≠ none) ∧ (sstep c sh .close ≠ none) ∧
     (pstep c sh .size = none ↔ sh.inR.waitData c (hdrNeed sh.stream) = none) ∧
     (∀ p tl, sh.stream = p :: tl → (pstep c sh .msg = none ↔ sh.inR.waitData c p.total = none)) ∧
     (∀ l rest, pstep c sh (.ownWait l rest) = none ↔ sh.outR.waitSpace c l = none) ∧
     (∀ l rest, pstep c sh (.ownCommit l rest) = none ↔ sh.outR.commitP c l = none) ∧
     (pstep c sh .commit ≠ none) ∧
     (∀ me l, sh.ringsNil = false → (wstep c sh me ⟨.wait, l⟩ = none ↔ sh.outR.waitSpace c l = none)) ∧
     (∀ me l, sh.ringsNil = false → (wstep c sh me ⟨.commit, l⟩ = none ↔ sh.outR.commitP c l = none)) ∧
     (∀ me, execStop c sh me .inClose ≠ none ∧ execStop c sh me .outClose ≠ none)) ∧
    (∀ (rcfg : Mqtt.Model.Ring.Cfg), c.cap = rcfg.size → ∀ (r : RingA) (n : Nat),
      r.waitSpace c n = r.waitSpace (Mqtt.Proofs.Ring.ringCfg rcfg) n ∧ r.commitP c n = r.commitP (Mqtt.Proofs.Ring.ringCfg rcfg) n ∧
      r.waitData c n = r.waitData (Mqtt.Proofs.Ring.ringCfg rcfg) n ∧ r.commitC c n = r.commitC (Mqtt.Proofs.Ring.ringCfg rcfg) n ∧
      r.close c = r.close (Mqtt.Proofs.Ring.ringCfg rcfg)) :=
  ⟨ring_steps_enabled c hw sh k, fun rcfg hcap r n => ringA_cfg_irrel c _ hcap hw.d2 r n⟩

/-- **The outgoing ring sees one producer at a time** (the hypothesis under which the ring program's single producer thread
stands for all goroutines that deliver to a connection).  In every reachable state of the life-cycle model at most one
thread is inside a producer call of the outgoing ring: if the processor is (`.ownWait`, `.ownCommit`) no external writer is,
and two external writers that are (`.wait`, `.commit`) are the same one — `wmu`.  Their ring calls therefore form one
sequential program.  For the code itself (wrap branch and scratch buffer included) the same mutual exclusion is
`C17_wrap_critical_section` / `C17_wrap_one_producer` (`Properties/C17.lean`; not imported here: C16 does not depend on
C17's other obligations). -/
theorem C16_out_ring_one_producer (c : Cfg) (hw : WF c) (s0 : St) (h0 : Init c s0) (sched : List Label) :
    let s := reach c s0 sched
    (PPc.holdsWmu s.proc = true → ∀ (i : Nat) (w : WTh), s.ws[i]? = some w → WPc.holdsWmu w.pc = false) ∧
    (∀ (i j : Nat) (wi wj : WTh), s.ws[i]? = some wi → s.ws[j]? = some wj →
      WPc.holdsWmu wi.pc = true → WPc.holdsWmu wj.pc = true → i = j) := by
  intro s
  exact out_ring_one_producer s (C16_invariant c hw s0 h0 sched).1.w

end RingContract

/-! ## Closed counterexamples: what the repaired defects did -/

/-- own outgoing ring full: a third party's processor is parked in it under `wmu`, the sender is
blocked in the socket write (the peer has stopped reading); will and clean session set -/
def outFull : St :=
  { sh := { outR := { buf := 16 }, peerReads := false, wmu := some (.w 0), willFlag := true, clean := true },
    recv := .read, send := .write 8, proc := .size, ws := [⟨.wait, 4⟩] }

/-- an initial state from which the condition of `outFull` is reached (up to two writers that have
finished): the subject stops reading, a writer commits 12 bytes, the sender takes 8 of them into a
socket write that blocks, a second writer fills the ring, the third parks under `wmu` -/
def outFullInit : St :=
  { sh := { willFlag := true, clean := true }, ws := [⟨.check, 4⟩, ⟨.check, 12⟩, ⟨.check, 4⟩] }

/-- **with the ring before 584775d the model wedges** (D2 = F2): the peer closes while a producer
is parked in the full outgoing ring; the producer woken by the sender's deferred `Close` returns
end-of-stream with the producer mutex locked (and the processor, woken in `ReadWait`, with the
consumer mutex), so the `Close` calls of `stop()` never return: nothing can run, the teardown is
not complete, nothing is held up. -/
theorem C16_old_ring_wedges :
    let c : Cfg := { c0 with d2 := true }
    let s := drain c 40 ((estep c outFull .peerClose).getD outFull)
    quiescent c s = true ∧ Final s = false ∧ Ended s = true ∧ HeldUp s = false ∧
    s.sh.effects = [] ∧ (s.sh.outR.pHeld = true ∨ s.sh.inR.cHeld = true) := by decide

/-- **with the `stop()` before e79396e a foreign goroutine panics** (F1): `stop()` ends with
clearing `in`/`out`; a writer that passed the nil test before dereferences nil afterwards. -/
theorem C16_old_stop_panics :
    let c : Cfg := { c0 with stopProg := stopProgram ++ [.clearRings] }
    let s0 : St := { sh := { sock := .peerClosed }, recv := .read, ws := [⟨.check, 4⟩] }
    let s := run c s0 ([.th (.w 0) 0, .th (.w 0) 0, .th .recv 0, .th .recv 0, .th .recv 0, .th .recv 0, .th .proc 0, .th .proc 0,
                        .th .proc 0, .th .proc 0, .th .proc 0, .th .proc 0, .th .proc 0, .th .send 0, .th .send 0,
                        .th .send 0] ++ List.replicate 6 (.th .proc 0) ++ [.th (.w 0) 0])
    s.sh.ringsNil = true ∧ s.ws = [⟨.panicked, 4⟩] := by decide

/-- **`wgStopped.Wait` before the `Close` calls wedges** (mutation of `stop()`): nobody closes the
rings, the sender waits for data, the receiver for the socket, `Wait` for both. -/
theorem C16_wait_before_close_wedges :
    let c : Cfg := { c0 with stopProg := [.cas, .closeDone, .wgWait, .connClose, .inClose, .outClose, .unsub, .will, .sessDel] }
    let s0 : St := { ks := [.idle] }
    let s := drain c 40 ((estep c s0 (.serverClose 0)).getD s0)
    quiescent c s = true ∧ Final s = false ∧ s.ks = [.run 2] ∧ s.sh.effects = [] := by decide

/-- **the sequential `Server.Close` before 08d14fb hangs**: `stop()` is called on a connection whose
processor is parked in the outgoing ring of a connection further down the list (not yet stopped,
its client not reading): `stop()` waits at `wgStopped.Wait` for the processor, for ever. -/
theorem C16_sequential_close_hangs :
    let s0 : St := { sh := { extBlocked := true, inR := { buf := 4 }, stream := [⟨2, 4, .normal [.foreign]⟩] },
                     proc := .acts [.foreign], ks := [.idle] }
    let s := drain c0 40 ((estep c0 s0 (.serverClose 0)).getD s0)
    quiescent c0 s = true ∧ Final s = false ∧ s.ks = [.run 5] ∧ HeldByThird s = true := by decide

/-- the connection's own client has stopped reading and the connection answers its own traffic
(acks, PINGRESP, its own subscription): two packets of 4 bytes, each answered with 12 bytes on the
own outgoing ring of 16 -/
def selfInit : St :=
  { sh := { stream := [⟨2, 4, .normal [.own 12]⟩, ⟨2, 4, .normal [.own 12]⟩], wire := 8, willFlag := true, clean := true } }

/-- the client stops reading; the receiver takes the 8 bytes and issues its next read; the processor
answers the first packet and parks in `WriteWait` for the answer to the second (own outgoing ring:
12 of 16 bytes used); the sender's write of the first 8 bytes blocks; then the client stays silent
until the read deadline fires -/
def selfSched : List Label :=
  [.env (.peerReads false), .th .recv 0, .th .recv 8, .th .recv 0, .th .recv 0] ++
  List.replicate 11 (.th .proc 0) ++ [.th .send 0, .env .kaExpire]

/-- **with the receiver before b77088f the model wedges** (F7): keep-alive expiry on a connection
whose processor is parked in its own outgoing ring behind its own non-reading client.  The
receiver sees the time-out, closes the incoming ring and returns; nobody closes the socket, so the
sender stays in its write, the outgoing ring stays open, the processor stays parked and never
reaches its deferred `stop()`: a reachable state in which the connection has ended, nothing can
run, nothing is torn down (no unsubscribe, no will), and the exemption does not apply.  The
repaired receiver tears the same state down completely, will included. -/
theorem C16_old_receiver_wedges :
    Init c0 selfInit ∧
    (let c : Cfg := { c0 with recvCloses := false }
     let s := reach c selfInit selfSched
     let q := drain c 40 s
     taken c selfInit selfSched = selfSched.length ∧
     s.proc = .ownWait 12 [] ∧ s.recv = .read ∧ s.send = .write 8 ∧ s.sh.timeout = true ∧
     quiescent c q = true ∧ Ended q = true ∧ Final q = false ∧ HeldUp q = false ∧
     HeldBySelf q = true ∧ q.recv = .exited ∧ q.sh.sock = .open ∧ q.sh.closed = false ∧ q.sh.effects = [] ∧
     goroutinesLeft q = 2) ∧
    (let s := reach c0 selfInit selfSched
     let q := drain c0 40 s
     s.proc = .ownWait 12 [] ∧ s.recv = .read ∧ s.sh.timeout = true ∧
     Final q = true ∧ TornDown q = true ∧ q.sh.effects = [.unsub, .will, .sessDel] ∧ goroutinesLeft q = 0) := by
  refine ⟨?_, by decide, by decide⟩
  refine ⟨rfl, rfl, rfl, rfl, rfl, rfl, rfl, rfl, rfl, ?_, ?_, rfl, rfl, rfl⟩
  · intro k hk; cases hk
  · intro w hw; cases hw

/-! ## Non-vacuity -/

/-- out-full + abrupt close, step by step: the peer closes; the sender's write fails, its deferred
`Close` releases the parked writer, which returns end-of-stream; receiver and processor see the
closed socket / ring and exit (the receiver closing the socket on its way out); the processor runs
`stop()` through all nine statements. -/
def outFullSched : List Label :=
  [.env .peerClose,
   .th .send 0, .th .send 0, .th (.w 0) 0, .th .send 0,
   .th .recv 0, .th .recv 0, .th .recv 0, .th .recv 0,
   .th .proc 0, .th .proc 0] ++ List.replicate 10 (.th .proc 0)

example :
    let s := run c0 outFull outFullSched
    taken c0 outFull outFullSched = outFullSched.length ∧ Final s = true ∧ TornDown s = true ∧
    s.sh.effects = [.unsub, .will, .sessDel] ∧ s.sh.wg = 0 ∧ goroutinesLeft s = 0 ∧ s.sh.ringsNil = false := by decide

/-- the same by fair round-robin; before the close nothing can run and the connection has not ended -/
example : quiescent c0 outFull = true ∧ Ended outFull = false := by decide
example :
    let s := drain c0 40 ((estep c0 outFull .peerClose).getD outFull)
    Final s = true ∧ TornDown s = true ∧ s.ws = [⟨.finished, 4⟩] := by decide

/-- the condition of `outFull` is reachable (from `outFullInit`, which is initial) -/
example :
    Init c0 outFullInit ∧
    (let s := run c0 outFullInit
       ([.env (.peerReads false), .th .recv 0] ++ List.replicate 4 (.th (.w 1) 0) ++ [.th .send 0] ++
        List.replicate 4 (.th (.w 2) 0) ++ List.replicate 3 (.th (.w 0) 0))
     s.sh.outR.buf = 16 ∧ s.send = .write 8 ∧ s.recv = .read ∧ s.proc = .size ∧ s.sh.wmu = some (.w 0) ∧
     s.ws = [⟨.wait, 4⟩, ⟨.finished, 12⟩, ⟨.finished, 4⟩] ∧ quiescent c0 s = true) := by
  refine ⟨⟨rfl, rfl, rfl, rfl, rfl, rfl, rfl, rfl, rfl, ?_, ?_, rfl, rfl, rfl⟩, by decide⟩
  · intro k hk; cases hk
  · intro w hw; simp [outFullInit] at hw; rcases hw with rfl | rfl | rfl <;> rfl

/-- DISCONNECT: the will flag is cleared, the effects are unsubscribe and session removal only -/
example :
    let s0 : St := { sh := { stream := [⟨2, 2, .disconnect⟩], wire := 2, willFlag := true, clean := true } }
    let s := drain c0 40 s0
    Final s = true ∧ TornDown s = true ∧ s.sh.effects = [.unsub, .sessDel] := by decide

/-- held up by a third party, then released: the teardown completes, the will is published -/
example :
    let s0 : St := { sh := { extBlocked := true, sock := .peerClosed, inR := { buf := 4 },
                             stream := [⟨2, 4, .normal [.foreign]⟩], willFlag := true },
                     proc := .acts [.foreign] }
    let s1 := drain c0 40 s0
    let s2 := drain c0 40 ((estep c0 s1 (.extBlock false)).getD s1)
    quiescent c0 s1 = true ∧ HeldUp s1 = true ∧ Final s1 = false ∧
    Final s2 = true ∧ TornDown s2 = true ∧ s2.sh.effects = [.unsub, .will] := by decide

/-- keep-alive expiry is a read error -/
example :
    let s0 : St := { recv := .read, sh := { willFlag := true } }
    let s := drain c0 40 ((estep c0 s0 .kaExpire).getD s0)
    Final s = true ∧ s.sh.effects = [.unsub, .will] := by decide

/-- a packet in pieces that does arrive (`C16_chunked_packet_arrives`, `C16_chunked_packet_completes`): the
state of `C16_old_readfrom_wedges` with the other 5 bytes of the 14-byte packet still on the wire instead
of the peer's close — 9 bytes in the ring, the processor waiting for the packet; round-robin completes
the packet, the processor consumes it, and the connection is idle: nothing can run, nothing has ended,
the receiver is inside a socket read -/
example :
    let s0 : St := { sh := { stream := [⟨2, 14, .normal []⟩], wire := 14 } }
    let s := run c0 s0 chunkSched.dropLast
    s.proc = .msg ∧ s.sh.inR.buf = 9 ∧ s.sh.wire = 5 ∧ s.recv = .space ∧
    (let q := drain c0 (rank c0 s) s
     quiescent c0 q = true ∧ q.sh.stream = [] ∧ q.proc = .size ∧ q.recv = .read ∧ q.sh.inR.buf = 0 ∧
     Ended q = false) := by decide

/-- self-held and ended cannot both be true when nothing can run: the self-held state of
`C16_old_receiver_wedges` BEFORE the deadline fires is quiescent and has not ended -/
example :
    let s := run c0 selfInit (selfSched.dropLast)
    quiescent c0 s = true ∧ HeldBySelf s = true ∧ Ended s = false := by decide

/-! ## The half-closed socket (`Sock.peerShut`)

The peer shuts down its sending direction only (TCP FIN / `CloseWrite`) and neither reads nor closes.  The
broker's socket READ returns end-of-stream; its socket WRITES behave as on an open socket: they block while
the peer does not read.  What turns this into a closed socket — and so makes the sender's blocked write fail,
the sender close the outgoing ring and the processor parked in it come back — is the receiver's `conn.Close()`
on its read failure (b77088f, `Cfg.recvCloses`).  All theorems above quantify over every environment event,
`peerShut` included (`reach` is `run` over any list of labels); the two below spell the case out. -/

/-- **a half-close that the receiver reads is torn down completely.**  Instance of `C16_teardown_completes`
for a run containing `.env .peerShut`: in a reachable state in which the socket is half-closed (an `.env
.peerShut` of the run was taken and neither side has closed since) and the receiver is inside a socket read —
whatever else: own outgoing ring full, the peer not reading, the sender blocked in its write, the connection's
OWN processor parked in that ring — fair round-robin reaches within `rank` rounds the complete teardown; the
only state in which it can stop short is the property's exemption (`HeldByThird`).  The half-closed
alternative of `C16_teardown_completes` does not arise: the read returns end-of-stream, the receiver leaves its
loop and closes the socket. -/
theorem C16_halfclose_torn_down (c : Cfg) (hw : WF c) (s0 : St) (h0 : Init c s0) (sched : List Label) :
    let s := reach c s0 sched
    s.sh.sock = .peerShut → s.recv = .read →
    let q := drain c (rank c s) s
    quiescent c q = true ∧
    ((Final q = true ∧ TornDown q = true ∧ q.sh.effects = expectedEffects q.sh ∧ goroutinesLeft q = 0) ∨
     HeldByThird q = true) := by
  intro s hso hr
  have he : Ended s = true := by simp [Ended, hso]
  have hrf : ReadFails s := Or.inl ⟨hr, Or.inl (by rw [hso]; decide)⟩
  obtain ⟨hq, hcases⟩ := C16_teardown_completes c hw s0 h0 sched he
  refine ⟨hq, ?_⟩
  rcases hcases with h | h | h
  · exact Or.inl h
  · exact Or.inr h
  · exfalso
    obtain ⟨sched', hrun, hth⟩ := drain_is_run c (rank c s) s
    have := readFails_not_space _ (readFails_run c hw s sched' hth hrf)
    rw [← hrun] at this
    exact this h.2.2.1

/-- the self-held connection of `C16_old_receiver_wedges` (processor parked in `WriteWait` on the own outgoing
ring, sender blocked in its write, the client not reading, the receiver inside a socket read), and then the
client HALF-closes instead of staying silent -/
def halfCloseSched : List Label := selfSched.dropLast ++ [.env .peerShut]

/-- non-vacuity of `C16_halfclose_torn_down` (the "selfout" situation): every step of the schedule is taken;
before the half-close nothing can run and the connection has not ended; after it the socket is half-closed, the
peer is not reading, the processor is parked in its own outgoing ring, the sender is blocked, the receiver is
inside a socket read — and round-robin (40 rounds, and `rank` rounds) tears the connection down completely: the
receiver reads end-of-stream and closes the socket, will included -/
example :
    Init c0 selfInit ∧
    (let s1 := reach c0 selfInit selfSched.dropLast
     let s := reach c0 selfInit halfCloseSched
     let q := drain c0 40 s
     taken c0 selfInit halfCloseSched = halfCloseSched.length ∧
     quiescent c0 s1 = true ∧ Ended s1 = false ∧
     s.sh.sock = .peerShut ∧ s.sh.peerReads = false ∧ s.recv = .read ∧ s.proc = .ownWait 12 [] ∧ s.send = .write 8 ∧
     HeldBySelf s = true ∧ Ended s = true ∧
     quiescent c0 q = true ∧ Final q = true ∧ TornDown q = true ∧ q.sh.sock = .closed ∧
     q.sh.effects = [.unsub, .will, .sessDel] ∧ goroutinesLeft q = 0 ∧ drain c0 (rank c0 s) s = q) := by
  refine ⟨?_, by decide⟩
  refine ⟨rfl, rfl, rfl, rfl, rfl, rfl, rfl, rfl, rfl, ?_, ?_, rfl, rfl, rfl⟩
  · intro k hk; cases hk
  · intro w hw; cases hw

/-- **the half-close is torn down only because the receiver closes the socket** (closed counterexample, the
half-closed form of F7).  Same configuration, initial state and schedule as the example above, but with the
receiver before b77088f (`recvCloses := false`: it returns without `conn.Close()`): the receiver reads
end-of-stream, closes the incoming ring and returns; the socket stays half-closed — still writable —, so the
sender stays blocked in its write towards a peer that does not read, the outgoing ring stays open, the processor
stays parked in it and never reaches its deferred `stop()`: a reachable state in which the connection has ended,
nothing can run and nothing is torn down (no unsubscribe, no will; two goroutines left), and the property's
exemption does not apply.  The receiver as it is tears the same state down completely. -/
theorem C16_halfclose_needs_receiver_close :
    Init c0 selfInit ∧
    (let c : Cfg := { c0 with recvCloses := false }
     let s := reach c selfInit halfCloseSched
     let q := drain c 40 s
     taken c selfInit halfCloseSched = halfCloseSched.length ∧
     s.proc = .ownWait 12 [] ∧ s.recv = .read ∧ s.send = .write 8 ∧ s.sh.sock = .peerShut ∧ s.sh.peerReads = false ∧
     quiescent c q = true ∧ Ended q = true ∧ Final q = false ∧ TornDown q = false ∧ HeldUp q = false ∧
     HeldBySelf q = true ∧ q.recv = .exited ∧ q.send = .write 8 ∧ q.proc = .ownWait 12 [] ∧
     q.sh.sock = .peerShut ∧ q.sh.inR.done = true ∧ q.sh.outR.done = false ∧ q.sh.closed = false ∧
     q.sh.effects = [] ∧ goroutinesLeft q = 2 ∧ drain c 40 q = q) ∧
    (let s := reach c0 selfInit halfCloseSched
     let q := drain c0 40 s
     s.proc = .ownWait 12 [] ∧ s.recv = .read ∧ s.send = .write 8 ∧ s.sh.sock = .peerShut ∧
     Final q = true ∧ TornDown q = true ∧ q.sh.sock = .closed ∧
     q.sh.effects = [.unsub, .will, .sessDel] ∧ goroutinesLeft q = 0) := by
  refine ⟨?_, by decide, by decide⟩
  refine ⟨rfl, rfl, rfl, rfl, rfl, rfl, rfl, rfl, rfl, ?_, ?_, rfl, rfl, rfl⟩
  · intro k hk; cases hk
  · intro w hw; cases hw

/-- the client answers its own traffic (4-byte packets answered with 12 bytes), stops reading and keeps
sending: 5 packets, 20 bytes on the wire — one packet that the processor consumes plus a whole incoming ring -/
def fullInit : St :=
  { sh := { stream := List.replicate 5 ⟨2, 4, .normal [.own 12]⟩, wire := 20, willFlag := true } }

/-- the receiver takes 8 bytes, the processor answers the first packet and parks in `WriteWait` for the answer
to the second (own outgoing ring: 12 of 16), the receiver fills the incoming ring (16 of 16) and waits for room,
the sender's write blocks; then the client half-closes -/
def fullSched : List Label :=
  [.env (.peerReads false), .th .recv 0, .th .recv 8, .th .recv 0] ++ List.replicate 11 (.th .proc 0) ++
  [.th .recv 0, .th .recv 8, .th .recv 0, .th .recv 0, .th .recv 8, .th .recv 0, .th .send 0, .env .peerShut]

/-- **a half-close that the receiver does not read is not noticed** (the half-closed form of the open finding
F8; why `C16_no_deadlock` and `C16_teardown_completes` name the state).  A reachable state of the code as it is —
every step of the schedule is taken — in which the peer has half-closed and does not read, the receiver waits
because the incoming ring is completely full (no socket read is issued, the end-of-stream is never seen, the
socket is never closed), the sender is blocked in a write that the half-closed socket still accepts, the
processor is parked in the connection's own outgoing ring: the connection has ended, nothing can run, nothing is
torn down.  When the peer then goes away completely (`peerClose`: the blocked write fails) round-robin completes
the teardown, will included. -/
theorem C16_halfclose_unnoticed :
    WF c0 ∧ Init c0 fullInit ∧
    (let s := reach c0 fullInit fullSched
     taken c0 fullInit fullSched = fullSched.length ∧
     s.sh.sock = .peerShut ∧ s.sh.peerReads = false ∧ s.recv = .space ∧ s.sh.inR.buf = c0.cap ∧
     s.proc = .ownWait 12 [] ∧ s.send = .write 8 ∧
     quiescent c0 s = true ∧ Ended s = true ∧ Final s = false ∧ HeldUp s = false ∧ HeldBySelf s = true ∧
     s.sh.closed = false ∧ s.sh.effects = [] ∧ goroutinesLeft s = 3 ∧ drain c0 40 s = s ∧
     (let q := drain c0 40 ((estep c0 s .peerClose).getD s)
      Final q = true ∧ TornDown q = true ∧ q.sh.effects = [.unsub, .will] ∧ goroutinesLeft q = 0)) := by
  refine ⟨c0_wf, ?_, by decide⟩
  refine ⟨rfl, rfl, rfl, rfl, rfl, rfl, rfl, rfl, rfl, ?_, ?_, rfl, rfl, rfl⟩
  · intro k hk; cases hk
  · intro w hw; cases hw

end Mqtt.Properties.C16
