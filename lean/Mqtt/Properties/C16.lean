/-
C16 — every connection is torn down completely in bounded time, in any state.
(first milestone: facts ties and closed examples; the theorems follow)
-/
import Mqtt.Proofs.LifecycleFacts
import Mqtt.Proofs.RingFacts

namespace Mqtt.Properties.C16
open Mqtt.Model.Lifecycle Mqtt.Proofs.Lifecycle

/-- the source still has the shape the model is written against -/
theorem C16_source_shape :
    (Mqtt.Generated.lifeStopSeq = stopProgram.map StopOp.code ∧
      stopTrace probeCfg 20 probeStopSh (.run 0) = Mqtt.Generated.lifeStopSeq) ∧
    Mqtt.Generated.lifeRecoverFirst = [true, true, true, true] ∧
    (Mqtt.Generated.lifeProcDefer = procDeferModel ∧ Mqtt.Generated.lifeRecvDefer = recvDeferModel ∧
      Mqtt.Generated.lifeSendDefer = sendDeferModel) ∧
    Mqtt.Generated.lifeServerClose = [1, 2] ∧
    Mqtt.Generated.bufferLocks = Mqtt.Model.Ring.lockFacts :=
  ⟨facts_stop_order, facts_recover, facts_defers, facts_server_close, Mqtt.Proofs.Ring.ring_lock_facts⟩

end Mqtt.Properties.C16
