/-
C05 — tie to the Go source.

`service.peekMessageSize` is the regenerated translation of the Go function.

Moved out of `Properties/C05.lean` unchanged (same namespace, same names): this is the only
module of C05 that is built from the regenerated translation `Mqtt.Generated.Xlate`
(through `Proofs/Xlate*.lean`).  `bin/check C05` builds, lists, audits and counts it together
with `Properties/C05.lean`.  NOTHING may import this module (BUILDING.md, "Source-tie modules"):
a rewrite of a translated Go function must not stop other properties from building.
-/
import Mqtt.Properties.C05
import Mqtt.Proofs.XlateFraming

namespace Mqtt.Properties.C05

open Mqtt.Model.Framing Mqtt.Model.Broker
open Mqtt.Iface.Broker hiding Bytes
open Mqtt.Model.Codec (decodeNew Decoded)
open Mqtt.Proofs.Framing Mqtt.Proofs.BrokerIso Mqtt.Proofs.BrokerLife
open Mqtt.Proofs.Broker (fwdOk)

/-! ## Tie to the Go source: `peekMessageSize`

`Mqtt.Generated.Xlate.Service.service.peekMessageSize` is produced from
`service/sendrecv.go` by `extract/cmd/xlate` on every check.  The ring `svc.in`
is not translated: `ReadWait` is an argument of the translation (`none` = the call
blocks); `XlateFraming.rwOracle sz avail` is the `ReadWait` the framing model
stands for (a ring of `sz` bytes holding `avail`). -/

/-- With that `ReadWait`, the translated `peekMessageSize` returns what the model's returns, for
every ring size, every stream and every iteration budget ≥ 5 (`sizeToRes`: the packet type and total
length with a nil error; blocked; `(0, 0, err)` with `ErrBufferFull` when the ring is smaller than
the header or the `fmt.Errorf` for a fifth length byte).  The model's `allocs` have no counterpart. -/
theorem C05_peekMessageSize_is_source (sz : Nat) (avail : Bytes) (svc : Mqtt.Generated.Xlate.Service.service)
    (fuel : Nat) (hfuel : Mqtt.Generated.framingPostMaxCnt ≤ fuel) :
    Mqtt.Generated.Xlate.Service.service.peekMessageSize fuel false (Mqtt.Proofs.XlateFraming.rwOracle sz avail) svc
      = Mqtt.Proofs.XlateFraming.sizeToRes sz (peekMessageSize sz avail) :=
  Mqtt.Proofs.XlateFraming.peekMessageSize_is_source sz avail svc fuel hfuel

/-- the one case the model does not have: no ring yet (`svc.in == nil`) -/
theorem C05_peekMessageSize_no_ring (rw : Int → Option (List UInt8 × Mqtt.Generated.Xlate.Err))
    (svc : Mqtt.Generated.Xlate.Service.service) (fuel : Nat) :
    Mqtt.Generated.Xlate.Service.service.peekMessageSize fuel true rw svc = .ok (0, 0, .var "ErrBufferNotReady") :=
  Mqtt.Proofs.XlateFraming.peekMessageSize_nil rw svc fuel

end Mqtt.Properties.C05
