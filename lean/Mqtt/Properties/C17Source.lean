/-
C17 — tie to the Go source.

The copy the ring model performs in `Write` (`Model/WriteWrap.ringPut`) is the regenerated translation
of `service.ringCopy`.

Moved out of `Properties/C17.lean` unchanged (same namespace, same names): this is the only
module of C17 that is built from the regenerated translation `Mqtt.Generated.Xlate`
(through `Proofs/WriteWrapRingSource.lean`, `Proofs/XlateRingCopy.lean`).  `bin/check C17` builds,
lists, audits and counts it together with `Properties/C17.lean`.  NOTHING may import this module
(BUILDING.md, "Source-tie modules"): a rewrite of a translated Go function must not stop other
properties from building.  (`C17_wrap_shape_is_source`, the tie to the regenerated FACTS, stays in
`Properties/C17.lean`.)
-/
import Mqtt.Properties.C17
import Mqtt.Proofs.WriteWrapRingSource

namespace Mqtt.Properties.C17

section wrap
open Mqtt.Model.WriteWrap Mqtt.Proofs.WriteWrap

/-! ### Tie to the Go source -/

/-- The copy the model performs in `Write` IS the translated `service.ringCopy`
(`Generated/Xlate.lean`, regenerated from buffer.go on every check) applied to the ring, the bytes
and `pos & mask` — for every loop budget ≥ 3; and the cell index `pos % 2^k` is the code's
`pos & (size − 1)` (`C14_idx_is_source` ties that to the translated Go expression). -/
theorem C17_wrap_ringCopy_is_source (k fuel : Nat) (hf : 3 ≤ fuel) (ring src : List UInt8) (pos : Nat)
    (hlen : ring.length = 2 ^ k) (hS : src.length ≤ 2 ^ k) :
    Mqtt.Generated.Xlate.Service.ringCopy fuel ring src ((pos % 2 ^ k : Nat) : Int) =
      .ok (ringPut ring src (pos % 2 ^ k), src.length) ∧
    pos % 2 ^ k = pos &&& (2 ^ k - 1) :=
  ⟨ringPut_is_source fuel hf (2 ^ k) (Nat.two_pow_pos k) ring src pos hlen hS,
   (Nat.and_two_pow_sub_one_eq_mod pos k).symm⟩

end wrap

end Mqtt.Properties.C17
