/-
C06 — The topic store implements MQTT filter matching over any subscribe history.

Property theorems only.  Model: `Model/Topics.lean` (tries of maps +
`nextTopicLevel`, as repaired by the three `fix:` commits).  Specification:
`Spec/Match.lean` (§4.7) and `Spec/TopicStore.lean`.
-/
import Mqtt.Proofs.TopicsAbs

namespace Mqtt.Properties.C06
open Mqtt.Model.Topics Mqtt.Proofs.Topics

/-- Re-subscribing the same subscriber at a node replaces its QoS, keeps one
entry for it and leaves every other subscriber's entry as it was. -/
theorem C06_resubscribe_replaces (subs : List (Nat × Nat)) (sub qos : Nat)
    (hu : (subs.map (·.1)).Nodup) :
    (subsInsert subs sub qos).lookup sub = some qos ∧
    ((subsInsert subs sub qos).map (·.1)).Nodup ∧
    ∀ s, s ≠ sub → (subsInsert subs sub qos).lookup s = subs.lookup s :=
  subsInsert_spec subs sub qos hu

/-! ### 1. what `smatch` returns, for every trie and every name -/

/-- For every trie whose Go maps have unique keys (`WF`) and every list of name
levels, the walk of `smatch` succeeds and returns - up to the order of map
iteration - exactly the entries `(path, subscriber, g)` of the trie (`abs`)
whose path is matched by the name (`walk`), each with QoS `min q g`. -/
theorem C06_smatch_char (n : SNode) (ns : List Level) (q : Nat) (hwf : WF n) :
    ∃ r, n.smatchL ns true q = some r ∧
      r.Perm ((abs n).filterMap (fun e => if walk e.1 ns then some (e.2.1, min q e.2.2) else none)) :=
  smatch_char n ns q hwf

/-- non-vacuity: a well-formed trie holding `a/+` (sub 1, QoS 2), `a/#` (sub 2, QoS 0),
`b` (sub 3, QoS 1); the name `a/b` at QoS 1 reaches subscribers 1 and 2. -/
example :
    let a : Level := [97]; let b : Level := [98]
    let t : SNode := .mk [] [(a, .mk [] [(SWC, .mk [(1, 2)] []), (MWC, .mk [(2, 0)] [])]), (b, .mk [(3, 1)] [])]
    WF t ∧ t.smatchL [a, b] true 1 = some [(1, 1), (2, 0)] ∧
      (abs t).filterMap (fun e => if walk e.1 [a, b] then some (e.2.1, min 1 e.2.2) else none) = [(1, 1), (2, 0)] := by
  refine ⟨?_, by decide, by decide⟩
  simp [WF_mk, SWC, MWC, cSWC, cMWC]

/-! ### 2. the walk is the section 4.7 relation -/

/-- The relation between stored paths and name levels that the trie walk
computes is MQTT 3.1.1 section 4.7 matching on level lists, for all level
lists (in particular for valid filters). -/
theorem C06_walk_eq_spec (fs ns : List Level) : walk fs ns = Mqtt.Spec.Match.matchLevels fs ns :=
  walk_eq_matchLevels fs ns

/-- the form with the validity hypothesis of the design document -/
theorem C06_walk_eq_spec_valid (fs ns : List Level) (_ : Mqtt.Spec.Match.validFilterLevels fs = true) :
    walk fs ns = Mqtt.Spec.Match.matchLevels fs ns :=
  walk_eq_matchLevels fs ns

example : walk [[97], SWC, MWC] [[97], [], [98], [99]] = true ∧
    Mqtt.Spec.Match.validFilterLevels [[97], SWC, MWC] = true := by decide

end Mqtt.Properties.C06
