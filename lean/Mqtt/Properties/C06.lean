/-
C06 — The topic store implements MQTT filter matching over any subscribe history.

Property theorems only.  Model: `Model/Topics.lean` (tries of maps +
`nextTopicLevel`, as repaired by the three `fix:` commits).  Specification:
`Spec/Match.lean` (§4.7) and `Spec/TopicStore.lean`.
-/
import Mqtt.Proofs.Topics

namespace Mqtt.Properties.C06
open Mqtt.Model.Topics Mqtt.Proofs.Topics

/-- Re-subscribing the same subscriber at a node replaces its QoS, keeps one
entry for it and leaves every other subscriber's entry as it was. -/
theorem C06_resubscribe_replaces (subs : List (Nat × Nat)) (sub qos : Nat)
    (hu : (subs.map (·.1)).Nodup) :
    (subsInsert subs sub qos).lookup sub = some qos ∧
    ((subsInsert subs sub qos).map (·.1)).Nodup ∧
    ∀ s, s ≠ sub → (subsInsert subs sub qos).lookup s = subs.lookup s :=
  subsInsert_spec subs sub qos hu

end Mqtt.Properties.C06
