/-
C06 — The topic store implements MQTT filter matching over any subscribe history.

Property theorems only.  Model: `Model/Topics.lean` (tries of maps +
`nextTopicLevel`, as repaired by the five `fix:` commits B1, B2, B5, B4, B6).
Specification: `Spec/Match.lean` (§4.7) and `Spec/TopicStore.lean`.

Hypotheses.  `noEmptyLevel s`: no empty level (finding B3, the one deviation
left).  `good s`: `noEmptyLevel s` and `s` does not begin with '$' - topics
beginning with '$' are outside the property's quantifier (§4.7.2); the five
entry points of `MemTopics` turn them away (`C06_dollar_topics_rejected`).  A
'$' anywhere else is an ordinary character ("a/$b" is good).  `admitted s`
(histories): `noEmptyLevel s` or `s` is the empty topic - which is not a topic
(MQTT-4.7.3-1) and which the entry points turn away as well since finding B6 was
repaired (`C06_empty_topic_rejected`), so it no longer has to be kept out of
the histories.
-/
import Mqtt.Proofs.TopicsRetainedHistory

namespace Mqtt.Properties.C06
open Mqtt.Model.Topics Mqtt.Proofs.Topics Mqtt.Iface.Topics
open Mqtt.Spec.Match (split validFilter validName topicMatches dollar)

/-- Re-subscribing the same subscriber at a node replaces its QoS, keeps one
entry for it and leaves every other subscriber's entry as it was. -/
theorem C06_resubscribe_replaces (subs : List (Nat × Nat)) (sub qos : Nat)
    (hu : (subs.map (·.1)).Nodup) :
    (subsInsert subs sub qos).lookup sub = some qos ∧
    ((subsInsert subs sub qos).map (·.1)).Nodup ∧
    ∀ s, s ≠ sub → (subsInsert subs sub qos).lookup s = subs.lookup s :=
  subsInsert_spec subs sub qos hu

/-! ### 1. what `smatch` returns, for every trie and every name -/

/-- For every trie whose Go maps have unique keys (`WF`) and every list of name
levels, the walk of `smatch` succeeds and returns - up to the order of map
iteration - exactly the entries `(path, subscriber, g)` of the trie (`abs`)
whose path is matched by the name (`walk`), each with QoS `min q g`. -/
theorem C06_smatch_char (n : SNode) (ns : List Level) (q : Nat) (hwf : WF n) :
    ∃ r, n.smatchL ns true q = some r ∧
      r.Perm ((abs n).filterMap (fun e => if walk e.1 ns then some (e.2.1, min q e.2.2) else none)) :=
  smatch_char n ns q hwf

/-- non-vacuity: a well-formed trie holding `a/+` (sub 1, QoS 2), `a/#` (sub 2, QoS 0),
`b` (sub 3, QoS 1); the name `a/b` at QoS 1 reaches subscribers 1 and 2. -/
example :
    let a : Level := [97]; let b : Level := [98]
    let t : SNode := .mk [] [(a, .mk [] [(SWC, .mk [(1, 2)] []), (MWC, .mk [(2, 0)] [])]), (b, .mk [(3, 1)] [])]
    WF t ∧ t.smatchL [a, b] true 1 = some [(1, 1), (2, 0)] ∧
      (abs t).filterMap (fun e => if walk e.1 [a, b] then some (e.2.1, min 1 e.2.2) else none) = [(1, 1), (2, 0)] := by
  refine ⟨?_, by decide, by decide⟩
  simp [WF_mk, SWC, MWC, cSWC, cMWC]

/-! ### 2. the walk is the section 4.7 relation -/

/-- The relation between stored paths and name levels that the trie walk
computes is MQTT 3.1.1 section 4.7 matching on level lists, for all level
lists (in particular for valid filters). -/
theorem C06_walk_eq_spec (fs ns : List Level) : walk fs ns = Mqtt.Spec.Match.matchLevels fs ns :=
  walk_eq_matchLevels fs ns

/-- the form with the validity hypothesis of the design document -/
theorem C06_walk_eq_spec_valid (fs ns : List Level) (_ : Mqtt.Spec.Match.validFilterLevels fs = true) :
    walk fs ns = Mqtt.Spec.Match.matchLevels fs ns :=
  walk_eq_matchLevels fs ns

example : walk [[97], SWC, MWC] [[97], [], [98], [99]] = true ∧
    Mqtt.Spec.Match.validFilterLevels [[97], SWC, MWC] = true := by decide

/-! ### 3. the store: insert, remove, histories -/

/-- `sinsert` on a well-formed trie: the result is well-formed; after a
successful walk the entry of (path, subscriber) is replaced or added and every
other entry is untouched; after a failed walk (`ok = false`, invalid filter) no
entry changes (the nodes left behind hold nothing). -/
theorem C06_sinsert_refines (n : SNode) (ls : List Level) (s q : Nat) (hwf : WF n) :
    (∀ ok, WF (n.sinsertL ls ok s q)) ∧
    (abs (n.sinsertL ls true s q)).Perm
      ((abs n).filter (fun e => !(e.1 == ls && e.2.1 == s)) ++ [(ls, s, q)]) ∧
    (abs (n.sinsertL ls false s q)).Perm (abs n) := by
  refine ⟨fun ok => sinsertL_WF ls ok s q n hwf, ?_, sinsertL_abs_false ls s q n hwf⟩
  have := sinsertL_abs ls s q n hwf
  simpa [hit, subHit, Bool.and_comm, eq_comm] using this

/-- `sremove` on a well-formed trie: well-formed result; exactly the entry of
(path, subscriber) disappears (all entries of the path for the "remove all"
mode `none`), every other entry stays; the call reports success exactly when
there was such an entry; after a failed walk nothing changes at all. -/
theorem C06_sremove_refines (n : SNode) (ls : List Level) (s : Nat) (hwf : WF n) :
    (∀ ok sub, WF (n.sremoveL ls ok sub).1) ∧
    (abs (n.sremoveL ls true (some s)).1).Perm ((abs n).filter (fun e => !(e.1 == ls && e.2.1 == s))) ∧
    (n.sremoveL ls true (some s)).2 = (abs n).any (fun e => e.1 == ls && e.2.1 == s) ∧
    (abs (n.sremoveL ls true none).1).Perm ((abs n).filter (fun e => !(e.1 == ls))) ∧
    (∀ sub, n.sremoveL ls false sub = (n, false)) := by
  refine ⟨fun ok sub => sremoveL_WF ls ok sub n hwf, ?_, ?_, ?_, ?_⟩
  · simpa [hit, subHit] using sremoveL_abs ls (some s) n hwf
  · rw [sremoveL_snd ls s n hwf]; rfl
  · simpa [hit, subHit] using sremoveL_abs ls none n hwf
  · intro sub
    exact Prod.ext (sremoveL_abs_false ls sub n hwf) (sremoveL_false_snd ls sub n)

/-- Pruning invariant: "no childless, subscriber-less node below the root" is
kept by every successful insert and by every remove. -/
theorem C06_pruned_preserved (n : SNode) (ls : List Level) (hwf : WF n) (hp : Pruned n) :
    (∀ s q, Pruned (n.sinsertL ls true s q)) ∧ (∀ ok sub, Pruned (n.sremoveL ls ok sub).1) :=
  ⟨fun s q => sinsertL_Pruned ls s q n hp, fun ok sub => sremoveL_Pruned ls ok sub n hwf hp⟩

/-- Store refinement over histories.  `mrun` folds the driver's `modelStep`
(the function the differential runs tie to topics/memtopics.go), `srun` folds
the specification's `step`.  If no topic argument in the history has an empty
level - the empty topic itself is allowed (`admitted`) - the trie is
well-formed and holds exactly the abstract store's subscriptions.  (Operations
on topics beginning with '$' and on the empty topic may occur in the history:
the store turns them away, the specification ignores or rejects them.) -/
theorem C06_store_refines (ops : List Op) (hg : ∀ op ∈ ops, admitted (opTopic op) = true) :
    WF (mrun ops).sroot ∧
    (abs (mrun ops).sroot).Perm ((srun ops).subs.map (fun e => (split e.filter, e.sub, e.qos))) :=
  ⟨(run_inv_any ops hg).wf, (run_inv_any ops hg).perm⟩

/-- The full statement of the subscribers part of C06 (all histories, all valid names). -/
def C06_subscribers_full : Prop :=
  ∀ (ops : List Op) (t : List UInt8) (q : Nat), validName t = true → q ≤ 2 →
    ∃ r, (mrun ops).subscribers t q = some r ∧
      r.Perm (((srun ops).subs.filter (fun e => topicMatches e.filter t)).map (fun e => (e.sub, min q e.qos)))

/-- It is false of the code as it is (finding B3): filter "/a" receives "x/a". -/
theorem C06_subscribers_full_counterexample : ¬ C06_subscribers_full := by
  intro h
  obtain ⟨r, hr, hp⟩ := h [.sub [47, 97] 1 7] [120, 47, 97] 1 (by decide) (by decide)
  have h1 : (mrun [.sub [47, 97] 1 7]).subscribers [120, 47, 97] 1 = some [(7, 1)] := by decide
  have h2 : ((srun [.sub [47, 97] 1 7]).subs.filter (fun e => topicMatches e.filter [120, 47, 97])).map
      (fun e => (e.sub, min 1 e.qos)) = [] := by decide
  rw [h1] at hr
  rw [h2] at hp
  cases hr
  exact absurd hp.length_eq (by decide)

/-- The part that holds: for every history of admitted topics (no empty level,
or the empty topic) and every
valid name without empty levels that does not begin with '$' (`good`),
`Subscribers` reports exactly the still-subscribed (subscriber, filter) pairs
whose filter matches the name under section 4.7, each with QoS min(publish QoS,
subscription QoS). -/
theorem C06_subscribers_partial (ops : List Op) (t : List UInt8) (q : Nat)
    (hg : ∀ op ∈ ops, admitted (opTopic op) = true) (hgt : good t = true)
    (hn : validName t = true) (hq : q ≤ 2) :
    ∃ r, (mrun ops).subscribers t q = some r ∧
      r.Perm (((srun ops).subs.filter (fun e => topicMatches e.filter t)).map (fun e => (e.sub, min q e.qos))) :=
  subscribers_refines (mrun ops) (srun ops).subs t q (run_inv_any ops hg) hgt hn hq

/-- the right-hand side is the specification's own answer -/
theorem C06_spec_answer (s : Mqtt.Spec.TopicStore.S) (t : List UInt8) (q : Nat)
    (hgt : good t = true) (hn : validName t = true) (hq : q ≤ 2) :
    ∃ l, Mqtt.Spec.TopicStore.step s (.subs t q) = (s, .subs l) ∧
      l = (s.subs.filter (fun e => topicMatches e.filter t)).map (fun e => (e.sub, min q e.qos)) := by
  have hd := good_not_dollar t hgt
  have hq' : ¬ q > 2 := by omega
  refine ⟨_, ?_, rfl⟩
  simp [Mqtt.Spec.TopicStore.step, hd, hq', hn]

/-- An invalid filter is rejected without side effects (on the entries) -
whether or not it begins with '$', and also when it is the empty filter. -/
theorem C06_invalid_filter_rejected (mt : MemTopics) (f : List UInt8) (q s : Nat)
    (hwf : WF mt.sroot) (hg : admitted f = true) (hv : validFilter f = false) :
    (mt.subscribe 2 f q s).2 = none ∧ (abs (mt.subscribe 2 f q s).1.sroot).Perm (abs mt.sroot) := by
  cases hd : checkTopic f with
  | true => rw [subscribe_of_sys _ _ _ _ _ hd]; exact ⟨rfl, List.Perm.refl _⟩
  | false =>
    have hg : noEmptyLevel f = true := by
      rcases admitted_cases f hg with h | h
      · exact h
      · exact absurd h ((checkTopic_false_iff f).mp hd).1
    have hl := (levels_spec f hg).2 hv
    rw [subscribe_of_not_sys _ _ _ _ _ hd]
    unfold SNode.sinsert
    cases validQos q with
    | false => exact ⟨rfl, List.Perm.refl _⟩
    | true =>
      simp only [Bool.not_true, Bool.false_eq_true, ↓reduceIte, hl]
      exact ⟨trivial, sinsertL_abs_false _ _ _ _ hwf⟩

/-- Topics beginning with '$' (outside the property's quantifier) are turned
away by every entry point of the store, and the store is left exactly as it
was - the behaviour the code had before finding B4 was repaired, now decided
at the entry points instead of inside `nextTopicLevel`. -/
theorem C06_dollar_topics_rejected (mt : MemTopics) (t : List UInt8) (hd : dollar t = true) :
    (∀ mq q s, mt.subscribe mq t q s = (mt, none)) ∧ (∀ sub, mt.unsubscribe t sub = (mt, false)) ∧
    (∀ q, mt.subscribers t q = none) ∧ (∀ m : RMsg, m.topic = t → mt.retain m = (mt, false)) ∧
    mt.retained t = none :=
  sys_rejected mt t hd

example : dollar [36, 83, 89, 83] = true ∧ dollar [97, 47, 36, 98] = false := by decide

/-- Finding B6, repaired: the empty topic - neither a topic name nor a topic
filter (MQTT-4.7.3-1: at least one character) - is turned away by every entry
point of the store and the store is left exactly as it was.  (Before the repair
`Subscribe` put the subscriber on the root node of the trie and granted its
QoS.)  Consequently no entry point reaches the root node of either trie: the
levels an entry point walks are never "no level, successfully". -/
theorem C06_empty_topic_rejected (mt : MemTopics) :
    ((∀ mq q s, mt.subscribe mq [] q s = (mt, none)) ∧ (∀ sub, mt.unsubscribe [] sub = (mt, false)) ∧
     (∀ q, mt.subscribers [] q = none) ∧ (∀ m : RMsg, m.topic = [] → mt.retain m = (mt, false)) ∧
     mt.retained [] = none) ∧
    ∀ t, entryLevels t ≠ ([], true) :=
  ⟨empty_rejected mt, entryLevels_ne_root⟩

/-- the specification agrees: the empty filter is invalid (`err`, state unchanged) -/
example (s : Mqtt.Spec.TopicStore.S) (q sub : Nat) :
    validFilter [] = false ∧ validName [] = false ∧
    ((Mqtt.Spec.TopicStore.step s (.sub [] q sub)).1.subs = s.subs) := by
  refine ⟨by decide, by decide, ?_⟩
  simp only [Mqtt.Spec.TopicStore.step]
  split
  · rfl
  · split
    · rfl
    · rfl

/-- `admitted` is exactly: no empty level, or the empty topic. -/
theorem C06_admitted_iff (s : List UInt8) : admitted s = true ↔ noEmptyLevel s = true ∨ s = [] := by
  simp [admitted]

/-- What the calls report, after any history of admitted topics: for a `good`
filter `Subscribe` grants the requested QoS exactly when the filter is valid
(and QoS <= 2), `Unsubscribe` succeeds exactly when the abstract store holds
that (subscriber, filter) pair - the outcomes the specification's `step`
prescribes (`granted q` / `ok` / `err`). -/
theorem C06_outcomes_partial (ops : List Op) (f : List UInt8) (q s : Nat)
    (hg : ∀ op ∈ ops, admitted (opTopic op) = true) (hgf : good f = true) :
    ((mrun ops).subscribe 2 f q s).2 = (if q ≤ 2 ∧ validFilter f = true then some q else none) ∧
    ((mrun ops).unsubscribe f (some s)).2 = (srun ops).subs.any (fun e => e.sub == s && e.filter == f) :=
  ⟨subscribe_outcome (mrun ops) f q s hgf,
    unsubscribe_outcome (mrun ops) (srun ops).subs f s (run_inv_any ops hg) hgf⟩

/-- non-vacuity: a history with re-subscription, removal, an invalid filter, a
'$'-led level below the first ("a/$b"), a filter beginning with '$'
("$SYS/#", turned away) and the empty filter (subscribed, unsubscribed,
"unsubscribe all": turned away) -/
example :
    let ops : List Op := [.sub [97, 47, 43] 1 1, .sub [97, 47, 35] 2 2, .sub [97, 47, 43] 0 1,
                          .sub [97, 35] 1 3, .sub [97, 47, 98, 43] 1 5, .sub [98] 1 4, .unsub [98] 4,
                          .sub [97, 47, 36, 98] 2 6, .sub [36, 83, 89, 83, 47, 35] 1 7,
                          .sub [] 1 8, .unsub [] 1, .unsubAll []]
    (∀ op ∈ ops, admitted (opTopic op) = true) ∧ good [97, 47, 98] = true ∧ validName [97, 47, 98] = true ∧
      (mrun ops).subscribers [97, 47, 98] 1 = some [(1, 0), (2, 1)] ∧
      good [97, 47, 36, 98] = true ∧ validName [97, 47, 36, 98] = true ∧
      (mrun ops).subscribers [97, 47, 36, 98] 1 = some [(1, 0), (2, 1), (6, 1)] ∧
      (srun ops).subs.length = 3 := by decide

/-! ### 4. the byte state machine against `split` -/

/-- For byte strings without empty levels, iterating `nextTopicLevel` yields
the specification's levels and succeeds exactly on the valid filters ('$' is an
ordinary byte, wherever it stands). -/
theorem C06_levels_spec (s : List UInt8) (hg : noEmptyLevel s = true) :
    (validFilter s = true ↔ levels s = (split s, true)) ∧
    (validFilter s = false ↔ (levels s).2 = false) := by
  obtain ⟨h1, h2⟩ := levels_spec s hg
  refine ⟨⟨h1, fun h => ?_⟩, ⟨h2, fun h => ?_⟩⟩
  · cases hv : validFilter s with
    | true => rfl
    | false => have := h2 hv; rw [h] at this; exact absurd this (by simp)
  · cases hv : validFilter s with
    | false => rfl
    | true => have := h1 hv; rw [this] at h; exact absurd h (by simp)

example : noEmptyLevel [97, 47, 43, 47, 35] = true ∧ validFilter [97, 47, 43, 47, 35] = true ∧
    noEmptyLevel [97, 43] = true ∧ validFilter [97, 43] = false := by decide

/-- `good` is exactly: no empty level, and the first byte is not '$'. -/
theorem C06_good_iff (s : List UInt8) : good s = true ↔ noEmptyLevel s = true ∧ dollar s = false :=
  good_iff s

/-- The full statement (without the restriction) - `levels` is `split` on valid filters. -/
def C06_levels_full : Prop := ∀ s : List UInt8, validFilter s = true → levels s = (split s, true)

/-- B3: a non-final empty level becomes `+` ("/a"), a final empty level is dropped ("a/"). -/
theorem C06_levels_counterexample_empty_level :
    validFilter [47, 97] = true ∧ levels [47, 97] = ([SWC, [97]], true) ∧ split [47, 97] = [[], [97]] ∧
    validFilter [97, 47] = true ∧ levels [97, 47] = ([[97]], true) ∧ split [97, 47] = [[97], []] := by decide

/-- B4, repaired: a '$'-led level below the first ("a/$b", valid per 4.7.2) is
an ordinary level - the walk yields the specification's levels; "a/$b" is good;
a subscription to it is granted and a PUBLISH on it reaches that subscriber
and nobody else ("a/+" matches it, "a/b" does not); it can hold a retained
message; and a level that starts with a wildcard still may not continue with
'$' ("+$x", "a/#$"). -/
theorem C06_dollar_level_literal :
    validFilter [97, 47, 36, 98] = true ∧ good [97, 47, 36, 98] = true ∧
    levels [97, 47, 36, 98] = (split [97, 47, 36, 98], true) ∧
    (MemTopics.new.subscribe 2 [97, 47, 36, 98] 1 7).2 = some 1 ∧
    (mrun [.sub [97, 47, 36, 98] 1 7, .sub [97, 47, 43] 2 8, .sub [97, 47, 98] 2 9]).subscribers [97, 47, 36, 98] 2 =
      some [(7, 1), (8, 2)] ∧
    (mrun [.sub [97, 47, 36, 98] 1 7]).subscribers [97, 47, 98] 2 = some [] ∧
    ((mrun [.retain [97, 47, 36, 98] 1 [5]]).retained [97, 47, 35]).map (·.map toRet) =
      some [⟨[97, 47, 36, 98], 1, [5]⟩] ∧
    (levels [43, 36, 120]).2 = false ∧ (levels [97, 47, 35, 36]).2 = false := by decide

theorem C06_levels_full_counterexample : ¬ C06_levels_full := by
  intro h
  have := h [47, 97] (by decide)
  exact absurd this (by decide)

/-! ### 5. the retained trie -/

/-- For every retained trie with unique map keys and every list of filter
levels, `rmatch` succeeds and returns - up to map order - exactly the stored
messages whose path is selected by the filter walk `rwalk`. -/
theorem C06_rmatch_char (n : RNode) (fs : List Level) (hwf : RWF n) :
    ∃ r, n.rmatchL fs true = some r ∧
      r.Perm ((absR n).filterMap (fun e => if rwalk fs e.1 then some e.2 else none)) :=
  rmatch_char n fs hwf

/-- For valid filters that walk is section 4.7 matching.  (For an invalid list
with `#` before the end it is not: `rmatch` stops at the first `#`.) -/
theorem C06_rwalk_eq_spec (fs p : List Level) (hv : Mqtt.Spec.Match.validFilterLevels fs = true) :
    rwalk fs p = Mqtt.Spec.Match.matchLevels fs p :=
  rwalk_eq_matchLevels fs hv p

theorem C06_rwalk_invalid_counterexample :
    rwalk [MWC, [97]] [[98]] = true ∧ Mqtt.Spec.Match.matchLevels [MWC, [97]] [[98]] = false := by decide

example :
    let a : Level := [97]; let b : Level := [98]
    let m1 : RMsg := { topic := [97], qos := 1, payload := [1] }
    let m2 : RMsg := { topic := [97, 47, 98], qos := 0, payload := [2] }
    let t : RNode := .mk none [(a, .mk (some m1) [(b, .mk (some m2) [])])]
    RWF t ∧ t.rmatchL [a, MWC] true = some [m1, m2] ∧ t.rmatchL [a, SWC] true = some [m2] := by
  refine ⟨?_, by decide, by decide⟩
  simp [RWF_mk]

/-- `rinsert` / `rremove` on a well-formed retained trie: well-formed result;
storing under a path replaces that path's message and leaves all others;
clearing a path deletes exactly that path's message - in particular the
message of a parent survives the pruning of its child; failed walks change no
entry. -/
theorem C06_retained_trie_refines (n : RNode) (ls : List Level) (m : RMsg) (hwf : RWF n) :
    (∀ ok, RWF (n.rinsertL ls ok m)) ∧ (∀ ok, RWF (n.rremoveL ls ok).1) ∧
    (absR (n.rinsertL ls true m)).Perm ((absR n).filter (fun e => !(e.1 == ls)) ++ [(ls, m)]) ∧
    (absR (n.rinsertL ls false m)).Perm (absR n) ∧
    (absR (n.rremoveL ls true).1).Perm ((absR n).filter (fun e => !(e.1 == ls))) ∧
    n.rremoveL ls false = (n, false) :=
  ⟨fun ok => rinsertL_RWF ls ok m n hwf, fun ok => rremoveL_RWF ls ok n hwf, rinsertL_absR ls m n hwf,
    rinsertL_absR_false ls m n hwf, rremoveL_absR ls n hwf, rremoveL_false ls n hwf⟩

/-- Pruning invariant of the retained trie: every node below the root has a
child or holds a message; kept by successful inserts and by all removes. -/
theorem C06_retained_pruned_preserved (n : RNode) (ls : List Level) (hwf : RWF n) (hp : RPruned n) :
    (∀ m, RPruned (n.rinsertL ls true m)) ∧ (∀ ok, RPruned (n.rremoveL ls ok).1) :=
  ⟨fun m => rinsertL_RPruned ls m n hp, fun ok => rremoveL_RPruned ls ok n hwf hp⟩

/-- Over histories of admitted operations (`okOp`: no empty level or the empty
topic, retained topics are valid names or empty; topics beginning with '$' may
occur) the retained trie
holds exactly the abstract store's retained messages (the last non-empty
message per topic). -/
theorem C06_retained_store_refines (ops : List Op) (hg : ∀ op ∈ ops, okOp op = true) :
    RWF (mrun ops).rroot ∧
    (absR (mrun ops).rroot).Perm ((srun ops).rets.map (fun r => (split r.topic, toRMsg r))) :=
  ⟨(run_rinv_any ops hg).wf, (run_rinv_any ops hg).perm⟩

/-- The full statement of the retained part of C06. -/
def C06_retained_full : Prop :=
  ∀ (ops : List Op) (f : List UInt8), validFilter f = true →
    ∃ r, (mrun ops).retained f = some r ∧
      (r.map toRet).Perm ((srun ops).rets.filter (fun r => topicMatches f r.topic))

/-- False of the code as it is (finding B3): filter "/a" returns the message retained for "x/a". -/
theorem C06_retained_full_counterexample : ¬ C06_retained_full := by
  intro h
  obtain ⟨r, hr, hp⟩ := h [.retain [120, 47, 97] 0 [1]] [47, 97] (by decide)
  have h1 : (mrun [.retain [120, 47, 97] 0 [1]]).retained [47, 97] =
      some [{ topic := [120, 47, 97], qos := 0, payload := [1] }] := by decide
  have h2 : (srun [.retain [120, 47, 97] 0 [1]]).rets.filter (fun r => topicMatches [47, 97] r.topic) = [] := by
    decide
  rw [h1] at hr
  rw [h2] at hp
  cases hr
  exact absurd hp.length_eq (by decide)

/-- The part that holds: after any history of admitted operations (`okOp`: no
empty level or the empty topic, retained topics are valid names or empty) and
for every valid filter
without empty levels that does not begin with '$' (`good`), `Retained` returns
exactly the last non-empty message of every topic matching the filter under
section 4.7. -/
theorem C06_retained_partial (ops : List Op) (f : List UInt8)
    (hg : ∀ op ∈ ops, okOp op = true) (hgf : good f = true) (hv : validFilter f = true) :
    ∃ r, (mrun ops).retained f = some r ∧
      (r.map toRet).Perm ((srun ops).rets.filter (fun r => topicMatches f r.topic)) :=
  retained_refines (mrun ops) (srun ops).rets f (run_rinv_any ops hg) hgf hv

/-- non-vacuity: replace, clear a child (the parent's message survives), a
retained PUBLISH on "$S" and one on the empty topic (turned away), query with
`#` and `+` -/
example :
    let ops : List Op := [.retain [97] 1 [1], .retain [97, 47, 98] 0 [2], .retain [97, 47, 98] 0 [3],
                          .retain [97, 47, 99] 1 [4], .retain [97, 47, 99] 0 [], .retain [36, 83] 1 [9],
                          .retain [] 1 [7], .retained []]
    (∀ op ∈ ops, okOp op = true) ∧ good [97, 47, 35] = true ∧ validFilter [97, 47, 35] = true ∧
      ((mrun ops).retained [97, 47, 35]).map (·.map toRet) = some [⟨[97], 1, [1]⟩, ⟨[97, 47, 98], 0, [3]⟩] ∧
      ((mrun ops).retained [97, 47, 43]).map (·.map toRet) = some [⟨[97, 47, 98], 0, [3]⟩] := by decide

/-! The tie to the Go source (the theorems `C06_…_is_source…` over the regenerated translation
`Mqtt.Generated.Xlate`) is in `Properties/C06Source.lean`, which nothing imports. -/

end Mqtt.Properties.C06
