/-
C01 — A publish reaches exactly the clients whose current subscriptions match it.

Property theorems only (helper lemmas: `Proofs/BrokerFanout*.lean`).  Model:
`Model/Broker.lean` (`onPublish`, `fanout`, `deliverConn`) over the topic store
`Model/Topics.lean` and its finished theorems (`Properties/C06.lean`);
specification: `Spec/Match.lean` (section 4.7).
-/
import Mqtt.Proofs.BrokerFanoutHistory
import Mqtt.Proofs.BrokerRefineCor
import Mqtt.Proofs.BrokerRefineCorX

set_option linter.unusedSimpArgs false

namespace Mqtt.Properties.C01
open Mqtt.Iface.Broker Mqtt.Model.Broker Mqtt.Proofs.Broker
open Mqtt.Proofs.Topics (good abs WF)
open Mqtt.Spec.Match (split validName matchLevels topicMatches)

/-- example state: clients "a" (connection 1) and "b" (connection 2), an
in-process subscriber 1000 on "a/#" (QoS 1); connection 1 holds "a/+" (QoS 0)
and "a/b" (QoS 2), connection 2 holds "#" (QoS 1). -/
def exConnect (c : Nat) (cid : Bytes) : Ev :=
  .first c (.connect { protoName := [77, 81, 84, 84], version := 4, clean := true, will := none, clientId := cid }) true

def exState : B :=
  (run {} [exConnect 1 [97], exConnect 2 [98], .srvSub 1000 [97, 47, 35] 1,
           .packet 1 (.subscribe 1 [([97, 47, 43], 0), ([97, 47, 98], 2)]),
           .packet 2 (.subscribe 1 [([35], 1)])]).1

/-! ### (d) the fan-out loop over a subscriber list -/

/-- The live fan-out of `onPublish` / `Server.Publish` over the subscriber list
`subs` (`fanoutLive`: RETAIN of the message object cleared before the loop,
restored after it), for a message object `m` that carries a packet identifier
or needs none (true of every decoded inbound PUBLISH) and a non-empty topic,
when every connection in the list is alive: it emits, in list order, exactly
one output per entry `(s, eqos)` - to a connection (`s < cbBase`) the PUBLISH
with the message's topic, payload, DUP bit, QoS `eqos`, the publisher's packet
identifier (none at QoS 0) and RETAIN = 0; to an in-process callback the
message object with QoS `eqos` and RETAIN = 0 as well.  The broker state is
unchanged (in particular the identifier counter); of the message object only
the QoS field and `dirty` are different afterwards: RETAIN is as received. -/
theorem C01_fanout_char (b : B) (m : Msg) (subs : List (Nat × Nat))
    (ht : m.p.topic ≠ []) (hid : m.p.pktid ≠ 0 ∨ ∀ sq ∈ subs, sq.2 = 0)
    (hal : ∀ sq ∈ subs, sq.1 < cbBase → b.alive sq.1 = true) :
    (fanoutLive b m subs).2.2 = subs.map (fun sq =>
      if sq.1 < cbBase then
        Out.send sq.1 (.publish { dup := m.p.dup, qos := sq.2, retain := false, topic := m.p.topic,
                                  pktid := if sq.2 = 0 then 0 else m.p.pktid, payload := m.p.payload })
      else Out.call sq.1 { m.p with qos := sq.2, retain := false }) ∧
    (fanoutLive b m subs).1 = b ∧
    (fanoutLive b m subs).2.1.p = { m.p with qos := subs.foldl (fun _ sq => sq.2) m.p.qos } := by
  obtain ⟨h1, h2, h3⟩ := fanoutLive_char subs b m ht hid hal
  exact ⟨h3, h1, h2⟩

/-- The loop itself (`fanout`), whatever object it is run over: a connection is
sent RETAIN = 0 in any case (the `svc.onpub` closure clears the flag for its
own write), an in-process callback is called with the object as it is - which
is why `fanoutLive` clears the flag first. -/
theorem C01_fanout_loop (b : B) (m : Msg) (subs : List (Nat × Nat))
    (ht : m.p.topic ≠ []) (hid : m.p.pktid ≠ 0 ∨ ∀ sq ∈ subs, sq.2 = 0)
    (hal : ∀ sq ∈ subs, sq.1 < cbBase → b.alive sq.1 = true) :
    (fanout b m subs).2.2 = subs.map (fun sq =>
      if sq.1 < cbBase then
        Out.send sq.1 (.publish { dup := m.p.dup, qos := sq.2, retain := false, topic := m.p.topic,
                                  pktid := if sq.2 = 0 then 0 else m.p.pktid, payload := m.p.payload })
      else Out.call sq.1 { m.p with qos := sq.2 }) ∧
    (fanout b m subs).1 = b ∧
    (fanout b m subs).2.1.p = { m.p with qos := subs.foldl (fun _ sq => sq.2) m.p.qos } := by
  obtain ⟨h1, h2, h3⟩ := fanout_char subs b m ht hid hal
  exact ⟨h3, h1, h2⟩

/-- the hypothesis on identifiers, for effective QoS values that never exceed the message's -/
theorem C01_fanout_ids (p : Pub) (subs : List (Nat × Nat)) (hp : p.pktid ≠ 0 ∨ p.qos = 0)
    (hle : ∀ sq ∈ subs, sq.2 ≤ p.qos) : p.pktid ≠ 0 ∨ ∀ sq ∈ subs, sq.2 = 0 := by
  rcases hp with h | h
  · exact Or.inl h
  · exact Or.inr (fun sq hsq => by have := hle sq hsq; omega)

/-- non-vacuity: a QoS 2 retained message through a list that downgrades to 0,
goes back to 2, then to 1 (the object becomes dirty on the way) -/
example :
    let m : Msg := ⟨{ qos := 2, retain := true, topic := [97, 47, 98], pktid := 5, payload := [1, 2] }, false⟩
    let subs := [(1, 0), (1, 2), (2, 1), (1000, 1)]
    (∀ sq ∈ subs, sq.1 < cbBase → exState.alive sq.1 = true) ∧
    (fanoutLive exState m subs).2.2 =
      [.send 1 (.publish { qos := 0, retain := false, topic := [97, 47, 98], pktid := 0, payload := [1, 2] }),
       .send 1 (.publish { qos := 2, retain := false, topic := [97, 47, 98], pktid := 5, payload := [1, 2] }),
       .send 2 (.publish { qos := 1, retain := false, topic := [97, 47, 98], pktid := 5, payload := [1, 2] }),
       .call 1000 { qos := 1, retain := false, topic := [97, 47, 98], pktid := 5, payload := [1, 2] }] ∧
    (fanoutLive exState m subs).2.1 =
      ⟨{ qos := 1, retain := true, topic := [97, 47, 98], pktid := 5, payload := [1, 2] }, true⟩ := by
  decide

/-! ### (e) a publish reaches exactly the matching subscriptions -/

/- `delivery p s g` (Proofs/BrokerFanoutGen.lean) is what subscriber `s`, holding a
matching subscription granted at QoS `g`, is handed for the accepted PUBLISH
`p`: same topic, same payload, QoS `min(p.qos, g)`; a connection (`s < cbBase`)
gets `.send s (.publish ..)` with RETAIN = 0 and the publisher's identifier
(none at QoS 0), an in-process callback `.call s ..` with the message as
received except that RETAIN = 0.  `target o` is the subscriber an output is
addressed to. -/

/-- For every state satisfying the invariant whose subscribed connections are
alive, and every decoded PUBLISH `p` (QoS <= 2, identifier present unless QoS 0)
on a valid topic name without empty levels, not beginning with '$' (finding B3 is
outside): `onPublish` succeeds and its outputs are - up to the order in which
Go iterates its maps - exactly one `delivery` per entry (path, subscriber,
granted QoS) of the subscription trie whose path matches the name under MQTT
3.1.1 section 4.7 (`Spec.Match.matchLevels`): at least once and at most once
per matching subscription, nothing to anybody else. -/
theorem C01_publish_reaches_matching_partial (b : B) (p : Pub) (hinv : Inv b)
    (hg : good p.topic = true) (hn : validName p.topic = true) (hq : p.qos ≤ 2)
    (hid : p.pktid ≠ 0 ∨ p.qos = 0)
    (hal : ∀ e ∈ abs b.topics.sroot, e.2.1 < cbBase → b.alive e.2.1 = true) :
    (onPublish b ⟨p, false⟩).2.2.2 = true ∧
    (onPublish b ⟨p, false⟩).2.2.1.Perm
      (((abs b.topics.sroot).filter (fun e => matchLevels e.1 (split p.topic))).map
        (fun e => delivery p e.2.1 e.2.2)) := by
  obtain ⟨h1, _, h3⟩ := onPublish_char b p hinv hg hn hq hid hal
  exact ⟨h1, h3⟩

/-- The same without assuming that the subscribed connections are alive (after
overlapping client identifiers, finding E4, the trie can keep entries of dead
connections): a dead connection gets nothing; everybody else - connections and
in-process callbacks - gets exactly the deliveries above. -/
theorem C01_publish_reaches_reachable_partial (b : B) (p : Pub) (hinv : Inv b)
    (hg : good p.topic = true) (hn : validName p.topic = true) (hq : p.qos ≤ 2)
    (hid : p.pktid ≠ 0 ∨ p.qos = 0) :
    (onPublish b ⟨p, false⟩).2.2.2 = true ∧
    (onPublish b ⟨p, false⟩).2.2.1.Perm
      (((abs b.topics.sroot).filter (fun e => matchLevels e.1 (split p.topic) && reachable b e.2.1)).map
        (fun e => delivery p e.2.1 e.2.2)) :=
  onPublish_char_gen b p hinv hg hn hq hid

/-- In terms of the subscriptions held (`HeldInv`: the trie holds exactly the
entries of the specification's `held` list, as `C07_held_refines_partial`
maintains over SUBSCRIBE/UNSUBSCRIBE steps): the outputs are one `delivery` per
held subscription whose filter matches the topic name. -/
theorem C01_publish_held_partial (b : B) (p : Pub) (held : List Mqtt.Spec.Broker.Held) (hinv : Inv b)
    (hh : HeldInv b.topics.sroot held)
    (hg : good p.topic = true) (hn : validName p.topic = true) (hq : p.qos ≤ 2)
    (hid : p.pktid ≠ 0 ∨ p.qos = 0)
    (hal : ∀ h ∈ held, h.owner < cbBase → b.alive h.owner = true) :
    (onPublish b ⟨p, false⟩).2.2.1.Perm
      ((held.filter (fun h => topicMatches h.filter p.topic)).map (fun h => delivery p h.owner h.qos)) := by
  have hal' : ∀ e ∈ abs b.topics.sroot, e.2.1 < cbBase → b.alive e.2.1 = true := by
    intro e he hlt
    have := hh.perm.mem_iff.mp he
    obtain ⟨h, hm, rfl⟩ := List.mem_map.mp this
    exact hal h hm hlt
  refine (C01_publish_reaches_matching_partial b p hinv hg hn hq hid hal').2.trans ?_
  refine ((hh.perm.filter _).map _).trans ?_
  rw [List.filter_map, List.map_map]
  exact List.Perm.refl _

/-- No other client receives it: every output of the step is addressed to the
owner of a held subscription whose filter matches the topic name. -/
theorem C01_nobody_else_partial (b : B) (p : Pub) (held : List Mqtt.Spec.Broker.Held) (hinv : Inv b)
    (hh : HeldInv b.topics.sroot held)
    (hg : good p.topic = true) (hn : validName p.topic = true) (hq : p.qos ≤ 2)
    (hid : p.pktid ≠ 0 ∨ p.qos = 0)
    (hal : ∀ h ∈ held, h.owner < cbBase → b.alive h.owner = true) :
    ∀ o ∈ (onPublish b ⟨p, false⟩).2.2.1,
      ∃ h ∈ held, topicMatches h.filter p.topic = true ∧ target o = some h.owner := by
  intro o ho
  have := (C01_publish_held_partial b p held hinv hh hg hn hq hid hal).mem_iff.mp ho
  obtain ⟨h, hm, rfl⟩ := List.mem_map.mp this
  obtain ⟨hm1, hm2⟩ := List.mem_filter.mp hm
  exact ⟨h, hm1, hm2, target_delivery p h.owner h.qos⟩

/-! ### after any history of subscribe / unsubscribe / publish steps -/

/-- Histories.  Start from any state satisfying the invariant whose trie holds
the subscriptions `held` (for instance the initial state and `[]`), and run ANY
sequence of events that neither begin nor end a connection, with good filters
in every SUBSCRIBE / UNSUBSCRIBE / in-process Subscribe / Unsubscribe
(`heldOk`).  `heldRun` is the specification's bookkeeping over that sequence
(`Spec.Broker.step1`'s `held` component: granted filters added in request
order, listed filters removed).  Then a decoded PUBLISH on a good valid name is
handed to exactly the reachable owners of the subscriptions held at that
moment whose filter matches, once per subscription, at QoS min(publish QoS,
granted QoS), same topic, identical payload - and to nobody else. -/
theorem C01_after_history_partial (b : B) (held : List Mqtt.Spec.Broker.Held) (es : List Ev)
    (hinv : Inv b) (hh : HeldInv b.topics.sroot held) (hok : ∀ e ∈ es, heldOk e = true)
    (p : Pub) (hg : good p.topic = true) (hn : validName p.topic = true) (hq : p.qos ≤ 2)
    (hid : p.pktid ≠ 0 ∨ p.qos = 0) :
    (onPublish (run b es).1 ⟨p, false⟩).2.2.1.Perm
      (((heldRun b held es).filter (fun h => topicMatches h.filter p.topic && reachable (run b es).1 h.owner)).map
        (fun h => delivery p h.owner h.qos)) := by
  obtain ⟨hinv', hh'⟩ := held_run es b held hinv hh hok
  refine (C01_publish_reaches_reachable_partial _ p hinv' hg hn hq hid).2.trans ?_
  refine ((hh'.perm.filter _).map _).trans ?_
  rw [List.filter_map, List.map_map]
  exact List.Perm.refl _

/-- non-vacuity: from the initial state - two connections (registered first),
then subscriptions, an unsubscription, a rejected filter, an in-process
subscriber, traffic -/
example :
    let b0 := (run {} [exConnect 1 [97], exConnect 2 [98]]).1
    let es : List Ev := [.packet 1 (.subscribe 1 [([97, 47, 43], 1), ([97, 47, 35, 47, 120], 1)]),
                         .packet 2 (.subscribe 1 [([35], 2)]), .srvSub 1000 [97, 47, 98] 0,
                         .packet 2 (.publish { qos := 0, topic := [120], payload := [] }),
                         .packet 1 (.subscribe 2 [([97, 47, 98], 2)]),
                         .packet 1 (.unsubscribe 3 [[97, 47, 43]]), .packet 1 .pingreq]
    (∀ e ∈ es, heldOk e = true) ∧
    heldRun b0 [] es = [⟨2, [35], 2⟩, ⟨1000, [97, 47, 98], 0⟩, ⟨1, [97, 47, 98], 2⟩] ∧
    (onPublish (run b0 es).1 ⟨{ qos := 1, topic := [97, 47, 98], pktid := 8, payload := [5] }, false⟩).2.2.1 =
      [.call 1000 { qos := 0, topic := [97, 47, 98], pktid := 8, payload := [5] },
       .send 1 (.publish { qos := 1, topic := [97, 47, 98], pktid := 8, payload := [5] }),
       .send 2 (.publish { qos := 1, topic := [97, 47, 98], pktid := 8, payload := [5] })] := by
  decide

/-! ### ... until the end of the connection -/

/-- The end of a connection (`stop`: peer close, keep-alive expiry, protocol
error, DISCONNECT).  The entries of `c` under the paths of its session's topics
leave the trie (other subscribers' entries stay); and whatever the trie still
holds, from then on no PUBLISH is forwarded to `c`: in the state after `stop`,
`onPublish` addresses no output to it. -/
theorem C01_connection_end_partial (b : B) (hinv : Inv b) (c : Nat) (hc : c < cbBase) :
    (∀ cn s, b.getConn c = some cn → cn.alive = true → b.getSess cn.sess = some s →
      (abs (stop b c).1.topics.sroot).Perm (entriesAfterUnsub c (s.topics.map (·.1)) (abs b.topics.sroot)) ∧
      ((abs (stop b c).1.topics.sroot).filter (fun e => e.2.1 != c)).Perm
        ((abs b.topics.sroot).filter (fun e => e.2.1 != c))) ∧
    (∀ p : Pub, good p.topic = true → validName p.topic = true → p.qos ≤ 2 → (p.pktid ≠ 0 ∨ p.qos = 0) →
      ∀ o ∈ (onPublish (stop b c).1 ⟨p, false⟩).2.2.1, target o ≠ some c) := by
  constructor
  · intro cn s h1 h2 h3
    have hp := stop_sroot b hinv c cn s h1 h2 h3
    refine ⟨hp, ?_⟩
    have := hp.filter (fun e => e.2.1 != c)
    rw [entriesAfterUnsub_others] at this
    exact this
  · intro p hg hn hq hid o ho htc
    obtain ⟨_, hperm⟩ := onPublish_char_gen _ p (Inv_stop b c hinv) hg hn hq hid
    have hin := hperm.mem_iff.mp ho
    obtain ⟨e, he, heq⟩ := List.mem_map.mp hin
    obtain ⟨_, he2⟩ := List.mem_filter.mp he
    simp only [Bool.and_eq_true] at he2
    have h1 : target (fwd { p with retain := false } (e.2.1, min p.qos e.2.2)) = some e.2.1 := by
      rw [← delivery_eq, target_delivery]
    rw [heq, htc] at h1
    have hce : e.2.1 = c := (Option.some.inj h1).symm
    have hr := he2.2
    rw [hce] at hr
    have hnc : ¬ cbBase ≤ c := by omega
    simp [reachable, stop_dead, hnc] at hr

/-- non-vacuity: connection 1 of `exState` closes; a PUBLISH on "a/b" then
reaches callback 1000 and connection 2 only, and the trie has lost the entries
of connection 1 -/
example :
    let b1 := (step exState (.close 1)).1
    abs b1.topics.sroot = [([[97], [35]], 1000, 1), ([[35]], 2, 1)] ∧
    (onPublish b1 ⟨{ qos := 1, topic := [97, 47, 98], pktid := 5, payload := [1] }, false⟩).2.2.1 =
      [.call 1000 { qos := 1, topic := [97, 47, 98], pktid := 5, payload := [1] },
       .send 2 (.publish { qos := 1, topic := [97, 47, 98], pktid := 5, payload := [1] })] := by
  decide

/-- the full statement: all valid topic names -/
def C01_publish_held_full : Prop :=
  ∀ (b : B) (p : Pub) (held : List Mqtt.Spec.Broker.Held), Inv b → HeldInv b.topics.sroot held →
    validName p.topic = true → p.qos ≤ 2 → (p.pktid ≠ 0 ∨ p.qos = 0) →
    (∀ h ∈ held, h.owner < cbBase → b.alive h.owner = true) →
    (onPublish b ⟨p, false⟩).2.2.1.Perm
      ((held.filter (fun h => topicMatches h.filter p.topic)).map (fun h => delivery p h.owner h.qos))

/-- False of the code as it is (finding B3): a PUBLISH on "a/" (two levels,
the second empty) is delivered to the subscription "a". -/
theorem C01_publish_held_full_counterexample : ¬ C01_publish_held_full := by
  intro h
  let b : B := (run {} [exConnect 1 [97], .packet 1 (.subscribe 1 [([97], 1)])]).1
  have ha : abs b.topics.sroot = [([[97]], 1, 1)] := by decide
  have hh : HeldInv b.topics.sroot [⟨1, [97], 1⟩] :=
    ⟨by rw [ha]; exact List.Perm.refl _, by decide⟩
  have := h b { qos := 0, topic := [97, 47], payload := [1] } [⟨1, [97], 1⟩] (Inv_run _ _ Inv_init) hh
    (by decide) (by decide) (by decide) (by decide)
  exact absurd this.length_eq (by decide)

/-- non-vacuity on `exState`: a QoS 2 PUBLISH "a/b" reaches callback 1000 via
"a/#" at QoS 1, connection 1 twice (via "a/+" at QoS 0 and via "a/b" at QoS 2),
connection 2 via "#" at QoS 1; a PUBLISH on "c" reaches connection 2 only. -/
example :
    Inv exState ∧ (∀ e ∈ abs exState.topics.sroot, e.2.1 < cbBase → exState.alive e.2.1 = true) ∧
    abs exState.topics.sroot =
      [([[97], [35]], 1000, 1), ([[97], [43]], 1, 0), ([[97], [98]], 1, 2), ([[35]], 2, 1)] ∧
    (onPublish exState ⟨{ qos := 2, topic := [97, 47, 98], pktid := 5, payload := [1, 2] }, false⟩).2.2.1 =
      [.call 1000 { qos := 1, topic := [97, 47, 98], pktid := 5, payload := [1, 2] },
       .send 1 (.publish { qos := 0, topic := [97, 47, 98], pktid := 0, payload := [1, 2] }),
       .send 1 (.publish { qos := 2, topic := [97, 47, 98], pktid := 5, payload := [1, 2] }),
       .send 2 (.publish { qos := 1, topic := [97, 47, 98], pktid := 5, payload := [1, 2] })] ∧
    (onPublish exState ⟨{ qos := 0, topic := [99], payload := [] }, false⟩).2.2.1 =
      [.send 2 (.publish { qos := 0, topic := [99], payload := [] })] := by
  refine ⟨Inv_run _ _ Inv_init, ?_, by decide, by decide, by decide⟩
  have ha : abs exState.topics.sroot =
      [([[97], [35]], 1000, 1), ([[97], [43]], 1, 0), ([[97], [98]], 1, 2), ([[35]], 2, 1)] := by decide
  rw [ha]
  decide

/-- B4, repaired - on `exState`: "a/$b" is a good valid name (a '$' below the
first level is an ordinary character); a QoS 1 PUBLISH on it reaches callback
1000 via "a/#", connection 1 via "a/+" (not via "a/b") and connection 2 via
"#"; a connection that subscribes to "a/$b" itself is granted and receives it
too.  A PUBLISH on "$SYS" (outside the property's quantifier) is turned away by
the store and reaches nobody. -/
example :
    good [97, 47, 36, 98] = true ∧ validName [97, 47, 36, 98] = true ∧
    (onPublish exState ⟨{ qos := 1, topic := [97, 47, 36, 98], pktid := 5, payload := [7] }, false⟩).2.2.1 =
      [.call 1000 { qos := 1, topic := [97, 47, 36, 98], pktid := 5, payload := [7] },
       .send 1 (.publish { qos := 0, topic := [97, 47, 36, 98], pktid := 0, payload := [7] }),
       .send 2 (.publish { qos := 1, topic := [97, 47, 36, 98], pktid := 5, payload := [7] })] ∧
    (let b1 := (packet exState 2 (.subscribe 2 [([97, 47, 36, 98], 1)])).1
     (packet exState 2 (.subscribe 2 [([97, 47, 36, 98], 1)])).2 = [.send 2 (.suback 2 [1])] ∧
     (onPublish b1 ⟨{ qos := 0, topic := [97, 47, 36, 98], payload := [7] }, false⟩).2.2.1.length = 4) ∧
    (onPublish exState ⟨{ qos := 0, topic := [36, 83, 89, 83], payload := [7] }, false⟩).2.2.1 = [] := by
  decide

/-! ### the refinement theorem, specialised: who gets a PUBLISH, after any history -/

open Mqtt.Proofs.BrokerRefine (okRun specRun pubOk mkCopy) in
open Mqtt.Spec.Broker (Accepts modelGroup pubOf wild) in
/-- **Refinement (Proofs/BrokerRefine.lean: `Broker_refines_spec`) for C01.**
After *any* history admitted by `okRun` (decidable side condition `okEv` per
event: topic arguments `good` - no empty level, finding B3, no leading '$' -,
PUBLISH fields in range, connection numbers fresh and below `cbBase`, no second
live connection with a supplied client identifier; CONNECT of resumed sessions
and connection ends included), a PUBLISH with QoS 0 or 1 on a live connection
is accepted by the reference broker (`Accepts`: membership in the set of
outcomes `Spec.Broker.step` describes); explicitly, for every addressee `g`
(connection or in-process callback) the PUBLISH items the fan-out hands to `g`
are - DUP and packet identifier wildcarded, as a multiset - exactly one copy per
subscription the reference broker holds for `g` whose filter matches the topic
(section 4.7), at the lower of the two QoS and with RETAIN = 0; and `g` gets
nothing at all if it holds no matching subscription. -/
theorem C01_refines_reference (es : List Ev) (hok : okRun {} es = true) (c : Nat) (p : Pub)
    (hl : (run {} es).1.alive c = true) (hp : pubOk p = true) (hq : p.qos ≤ 1) :
    Accepts (Mqtt.Spec.Broker.step (specRun {} es).1 (.packet c (.publish p))).2
      (step (run {} es).1 (.packet c (.publish p))).2 ∧
    (step (run {} es).1 (.packet c (.publish p))).2 =
      (if p.qos = 1 then [.send c (.puback p.pktid)] else []) ++ (onPublish (run {} es).1 ⟨p, false⟩).2.2.1 ∧
    ∀ g,
      (((modelGroup g (onPublish (run {} es).1 ⟨p, false⟩).2.2.1).filterMap pubOf).map wild).Perm
        (((specRun {} es).1.held.filter (fun x => topicMatches x.filter p.topic && x.owner == g)).map
          (fun x => mkCopy p.topic p.payload (min p.qos x.qos))) ∧
      ((∀ x ∈ (specRun {} es).1.held, x.owner = g → topicMatches x.filter p.topic = false) →
        modelGroup g (onPublish (run {} es).1 ⟨p, false⟩).2.2.1 = []) := by
  have hR := Mqtt.Proofs.BrokerRefine.reach es hok
  obtain ⟨hg, hn, hq2, hid⟩ := Mqtt.Proofs.BrokerRefine.pubOk_iff p hp
  have hmok : (⟨p, false⟩ : Msg).p.pktid ≠ 0 ∨ (⟨p, false⟩ : Msg).dirty = true ∨ (⟨p, false⟩ : Msg).p.qos = 0 := by
    rcases hid with h0 | h0
    · exact .inr (.inr h0)
    · exact .inl h0
  refine ⟨(Mqtt.Proofs.BrokerRefine.reach_step es hok (.packet c (.publish p)) hp).2.1, ?_, ?_⟩
  · obtain ⟨cn, σ, hc, ha, hs⟩ := hR.inv.live _ c hl
    have : p.qos = 0 ∨ p.qos = 1 := by omega
    rcases this with h0 | h1
    · have := Mqtt.Proofs.BrokerQos.packet_publish0 hc ha hs p h0
      show (packet _ c (.publish p)).2 = _
      rw [this]; simp [h0]
    · have := Mqtt.Proofs.BrokerQos.packet_publish1 hc ha hs p h1
      show (packet _ c (.publish p)).2 = _
      rw [this]; simp [h1]
  · intro g
    exact ⟨(Mqtt.Proofs.BrokerRefine.publish_copies hR ⟨p, false⟩ hg hn hq2 hmok g).1,
      Mqtt.Proofs.BrokerRefine.publish_nobody_else hR ⟨p, false⟩ hg hn hq2 hmok g⟩

open Mqtt.Proofs.BrokerRefine (EvX okRunX runX specRunX pubOk mkCopy) in
open Mqtt.Spec.Broker (Accepts modelGroup pubOf wild) in
/-- **C01_refines_reference after a history with failed handshakes** (Proofs/BrokerRefineFail.lean:
`BrokerX_refines_spec`).  The same statement for a PUBLISH with QoS 0 or 1 on a live connection, after a
history that may also contain first packets whose answer could not be written (`EvX.failFirst`). -/
theorem C01_refines_reference_with_failed_handshakes (es : List EvX) (hok : okRunX {} es = true) (c : Nat) (p : Pub)
    (hl : (runX {} es).1.alive c = true) (hp : pubOk p = true) (hq : p.qos ≤ 1) :
    Accepts (Mqtt.Spec.Broker.step (specRunX {} es).1 (.packet c (.publish p))).2
      (step (runX {} es).1 (.packet c (.publish p))).2 ∧
    (step (runX {} es).1 (.packet c (.publish p))).2 =
      (if p.qos = 1 then [.send c (.puback p.pktid)] else []) ++ (onPublish (runX {} es).1 ⟨p, false⟩).2.2.1 ∧
    ∀ g,
      (((modelGroup g (onPublish (runX {} es).1 ⟨p, false⟩).2.2.1).filterMap pubOf).map wild).Perm
        (((specRunX {} es).1.held.filter (fun x => topicMatches x.filter p.topic && x.owner == g)).map
          (fun x => mkCopy p.topic p.payload (min p.qos x.qos))) ∧
      ((∀ x ∈ (specRunX {} es).1.held, x.owner = g → topicMatches x.filter p.topic = false) →
        modelGroup g (onPublish (runX {} es).1 ⟨p, false⟩).2.2.1 = []) :=
  Mqtt.Proofs.BrokerRefine.publish01_refinesX es hok c p hl hp hq

end Mqtt.Properties.C01
