/-
C01 — A publish reaches exactly the clients whose current subscriptions match it.

Property theorems only (helper lemmas: `Proofs/BrokerFanout*.lean`).  Model:
`Model/Broker.lean` (`onPublish`, `fanout`, `deliverConn`) over the topic store
`Model/Topics.lean` and its finished theorems (`Properties/C06.lean`);
specification: `Spec/Match.lean` (section 4.7).
-/
import Mqtt.Proofs.BrokerFanoutOut

set_option linter.unusedSimpArgs false

namespace Mqtt.Properties.C01
open Mqtt.Iface.Broker Mqtt.Model.Broker Mqtt.Proofs.Broker

/-- example state: clients "a" (connection 1) and "b" (connection 2), an
in-process subscriber 1000 on "a/#" (QoS 1); connection 1 holds "a/+" (QoS 0)
and "a/b" (QoS 2), connection 2 holds "#" (QoS 1). -/
def exConnect (c : Nat) (cid : Bytes) : Ev :=
  .first c (.connect { protoName := [77, 81, 84, 84], version := 4, clean := true, will := none, clientId := cid }) true

def exState : B :=
  (run {} [exConnect 1 [97], exConnect 2 [98], .srvSub 1000 [97, 47, 35] 1,
           .packet 1 (.subscribe 1 [([97, 47, 43], 0), ([97, 47, 98], 2)]),
           .packet 2 (.subscribe 1 [([35], 1)])]).1

/-! ### (d) the fan-out loop over a subscriber list -/

/-- The loop of `onPublish` over the subscriber list `subs`, for a message
object `m` that carries a packet identifier or needs none (true of every
decoded inbound PUBLISH) and a non-empty topic, when every connection in the
list is alive: it emits, in list order, exactly one output per entry
`(s, eqos)` - to a connection (`s < cbBase`) the PUBLISH with the message's
topic, payload, DUP bit, QoS `eqos`, the publisher's packet identifier (none at
QoS 0) and RETAIN = 0; to an in-process callback the message object with QoS
`eqos` (RETAIN as received, finding E10).  The broker state is unchanged
(in particular the identifier counter); of the message object only the QoS
field and `dirty` are different afterwards: RETAIN, cleared for every
connection, is restored after each delivery. -/
theorem C01_fanout_char (b : B) (m : Msg) (subs : List (Nat × Nat))
    (ht : m.p.topic ≠ []) (hid : m.p.pktid ≠ 0 ∨ ∀ sq ∈ subs, sq.2 = 0)
    (hal : ∀ sq ∈ subs, sq.1 < cbBase → b.alive sq.1 = true) :
    (fanout b m subs).2.2 = subs.map (fun sq =>
      if sq.1 < cbBase then
        Out.send sq.1 (.publish { dup := m.p.dup, qos := sq.2, retain := false, topic := m.p.topic,
                                  pktid := if sq.2 = 0 then 0 else m.p.pktid, payload := m.p.payload })
      else Out.call sq.1 { m.p with qos := sq.2 }) ∧
    (fanout b m subs).1 = b ∧
    (fanout b m subs).2.1.p = { m.p with qos := subs.foldl (fun _ sq => sq.2) m.p.qos } := by
  obtain ⟨h1, h2, h3⟩ := fanout_char subs b m ht hid hal
  exact ⟨h3, h1, h2⟩

/-- the hypothesis on identifiers, for effective QoS values that never exceed the message's -/
theorem C01_fanout_ids (p : Pub) (subs : List (Nat × Nat)) (hp : p.pktid ≠ 0 ∨ p.qos = 0)
    (hle : ∀ sq ∈ subs, sq.2 ≤ p.qos) : p.pktid ≠ 0 ∨ ∀ sq ∈ subs, sq.2 = 0 := by
  rcases hp with h | h
  · exact Or.inl h
  · exact Or.inr (fun sq hsq => by have := hle sq hsq; omega)

/-- non-vacuity: a QoS 2 retained message through a list that downgrades to 0,
goes back to 2, then to 1 (the object becomes dirty on the way) -/
example :
    let m : Msg := ⟨{ qos := 2, retain := true, topic := [97, 47, 98], pktid := 5, payload := [1, 2] }, false⟩
    let subs := [(1, 0), (1, 2), (2, 1), (1000, 1)]
    (∀ sq ∈ subs, sq.1 < cbBase → exState.alive sq.1 = true) ∧
    (fanout exState m subs).2.2 =
      [.send 1 (.publish { qos := 0, retain := false, topic := [97, 47, 98], pktid := 0, payload := [1, 2] }),
       .send 1 (.publish { qos := 2, retain := false, topic := [97, 47, 98], pktid := 5, payload := [1, 2] }),
       .send 2 (.publish { qos := 1, retain := false, topic := [97, 47, 98], pktid := 5, payload := [1, 2] }),
       .call 1000 { qos := 1, retain := true, topic := [97, 47, 98], pktid := 5, payload := [1, 2] }] ∧
    (fanout exState m subs).2.1 =
      ⟨{ qos := 1, retain := true, topic := [97, 47, 98], pktid := 5, payload := [1, 2] }, true⟩ := by
  decide

end Mqtt.Properties.C01
