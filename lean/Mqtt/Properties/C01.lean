/-
C01 — A publish reaches exactly the clients whose current subscriptions match it.
(theorems under construction; see DESIGN.md section 8)
-/
import Mqtt.Model.Broker
import Mqtt.Spec.Broker

namespace Mqtt.Properties.C01
end Mqtt.Properties.C01
