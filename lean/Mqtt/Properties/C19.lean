/-
C19 — Keep-alive: silent clients are dropped as failed, active clients never are.

The clock, timers and scheduler latency are outside any model (trusted); what is
proved is the deadline arithmetic over the regenerated expression and constants,
and the behaviour of the receiver loop as a timed state machine.
-/
import Mqtt.Model.KeepAlive
import Mqtt.Model.Broker

namespace Mqtt.Properties.C19
open Mqtt.Model.KeepAlive Mqtt.Generated

/-- The read deadline lies strictly above the negotiated keep-alive and at most
at one and a half times it — for every keep-alive value. -/
theorem C19_deadline_window (k : Nat) (hk : 0 < k) :
    k * second < deadline k ∧ 2 * deadline k ≤ 3 * (k * second) := by
  unfold deadline second keepAliveDivisor
  constructor <;> omega

/-- A CONNECT keep-alive of 0 does not disable the deadline: the effective
value is positive for every CONNECT. -/
theorem C19_effective_pos (k : Nat) : 0 < effective k := by
  unfold effective minKeepAlive; split <;> omega

/-- "the client sends something at intervals shorter than K": every arrival
comes less than `k` seconds after the previous one (`last`: the previous
arrival, initially the time the connection was accepted). -/
def ActiveWithin (k : Nat) : (last : Nat) → List (Nat × Nat) → Prop
  | _, [] => True
  | last, (t, _) :: rest => last ≤ t ∧ t < last + k * second ∧ ActiveWithin k t rest

/-- An active client is never dropped: if every arrival comes less than K after
the previous one, no read times out — whatever the delays between reads. -/
theorem C19_active_never_dropped (k : Nat) (hk : 0 < k) (armed last : Nat)
    (arrivals : List (Nat × Nat)) (hla : last ≤ armed) (hact : ActiveWithin k last arrivals) :
    firstExpiry (deadline k) armed arrivals false = none := by
  induction arrivals generalizing armed last with
  | nil => simp [firstExpiry]
  | cons p rest ih =>
    obtain ⟨t, dl⟩ := p
    obtain ⟨h1, h2, h3⟩ := hact
    have hw := (C19_deadline_window k hk).1
    unfold firstExpiry
    have : ¬ t > armed + deadline k := by omega
    simp only [this, ↓reduceIte]
    exact ih (max t armed + dl) t (by omega) h3

/-- A client that falls silent is dropped: the pending read times out, at the
latest one and a half keep-alive periods after it was armed. -/
theorem C19_silent_dropped (k armed : Nat) (hk : 0 < k) :
    ∃ t, firstExpiry (deadline k) armed [] true = some t ∧ armed + k * second < t ∧
      2 * t ≤ 2 * armed + 3 * (k * second) := by
  refine ⟨armed + deadline k, by simp [firstExpiry], ?_, ?_⟩
  · have := (C19_deadline_window k hk).1; omega
  · have := (C19_deadline_window k hk).2; omega

/-- Every PINGREQ on a live connection is answered by exactly one PINGRESP. -/
theorem C19_pingreq_pingresp (b : Mqtt.Model.Broker.B) (c : Nat) (cn : Mqtt.Model.Broker.Conn)
    (s : Mqtt.Model.Broker.Sess)
    (hc : b.getConn c = some cn) (ha : cn.alive = true) (hs : b.getSess cn.sess = some s) :
    Mqtt.Model.Broker.packet b c .pingreq = (b, [.send c .pingresp]) := by
  have hal : b.alive c = true := by simp [Mqtt.Model.Broker.B.alive, hc, ha]
  simp [Mqtt.Model.Broker.packet, hc, ha, hs, Mqtt.Model.Broker.send, hal]

/-- The facts the timed model rests on are what the source says now. -/
theorem C19_source_shape : keepAliveRearmedPerRead = true ∧ keepAliveZeroMeansMin = true ∧
    0 < keepAliveDivisor ∧ 0 < minKeepAlive := by decide

example : deadline 1 = 1200000000 ∧ effective 0 = 30 := by decide
example : firstExpiry (deadline 1) 0 [(500000000, 0), (1000000000, 3), (1500000000, 0)] true = some 2700000000 := by decide

end Mqtt.Properties.C19
