/-
C19 — Keep-alive: silent clients are dropped as failed, active clients never are.

The clock, timers and scheduler latency are outside any model (trusted); what is
proved is the deadline arithmetic over the regenerated expression and constants,
the behaviour of the receiver loop as a timed state machine, and — on the
connection life-cycle model of C16 (`Model/Lifecycle.lean`) — that a read that
has timed out always ends in the complete teardown with the will published,
whatever the connection's buffers look like (`C19_timeout_tears_down`; repair
b77088f, finding F7: before it a connection whose processor was parked in its
own outgoing ring behind a client that had stopped reading survived the time-out,
`C16_old_receiver_wedges`).

What is left open (finding F8): the deadline is armed per socket read, and the
receiver issues a read whenever the incoming ring is not completely full (since
8f682d1; before: only when a whole read block was free — finding F3, repaired).  A
client that stops reading AND keeps sending until its writes block fills both
rings completely; the receiver then waits because the incoming ring is full, no
read is pending, no deadline is armed: `C19_silence_counterexample` (the full
statement "silence ends the connection" is false of the code),
`C19_timeout_tears_down` is the partial one (hypothesis: the deadline fired, i.e.
a read was pending — which it is whenever the incoming ring has room:
`C16_receiver_reads_while_room`).
-/
import Mqtt.Model.KeepAlive
import Mqtt.Model.Broker
import Mqtt.Properties.C16

namespace Mqtt.Properties.C19
open Mqtt.Model.KeepAlive Mqtt.Generated

/-- The read deadline lies strictly above the negotiated keep-alive and at most
at one and a half times it — for every keep-alive value. -/
theorem C19_deadline_window (k : Nat) (hk : 0 < k) :
    k * second < deadline k ∧ 2 * deadline k ≤ 3 * (k * second) := by
  unfold deadline second keepAliveDivisor
  constructor <;> omega

/-- A CONNECT keep-alive of 0 does not disable the deadline: the effective
value is positive for every CONNECT. -/
theorem C19_effective_pos (k : Nat) : 0 < effective k := by
  unfold effective minKeepAlive; split <;> omega

/-- "the client sends something at intervals shorter than K": every arrival
comes less than `k` seconds after the previous one (`last`: the previous
arrival, initially the time the connection was accepted). -/
def ActiveWithin (k : Nat) : (last : Nat) → List (Nat × Nat) → Prop
  | _, [] => True
  | last, (t, _) :: rest => last ≤ t ∧ t < last + k * second ∧ ActiveWithin k t rest

/-- An active client is never dropped: if every arrival comes less than K after
the previous one, no read times out — whatever the delays between reads. -/
theorem C19_active_never_dropped (k : Nat) (hk : 0 < k) (armed last : Nat)
    (arrivals : List (Nat × Nat)) (hla : last ≤ armed) (hact : ActiveWithin k last arrivals) :
    firstExpiry (deadline k) armed arrivals false = none := by
  induction arrivals generalizing armed last with
  | nil => simp [firstExpiry]
  | cons p rest ih =>
    obtain ⟨t, dl⟩ := p
    obtain ⟨h1, h2, h3⟩ := hact
    have hw := (C19_deadline_window k hk).1
    unfold firstExpiry
    have : ¬ t > armed + deadline k := by omega
    simp only [this, ↓reduceIte]
    exact ih (max t armed + dl) t (by omega) h3

/-- A client that falls silent is dropped: the pending read times out, at the
latest one and a half keep-alive periods after it was armed. -/
theorem C19_silent_dropped (k armed : Nat) (hk : 0 < k) :
    ∃ t, firstExpiry (deadline k) armed [] true = some t ∧ armed + k * second < t ∧
      2 * t ≤ 2 * armed + 3 * (k * second) := by
  refine ⟨armed + deadline k, by simp [firstExpiry], ?_, ?_⟩
  · have := (C19_deadline_window k hk).1; omega
  · have := (C19_deadline_window k hk).2; omega

/-- Every PINGREQ on a live connection is answered by exactly one PINGRESP. -/
theorem C19_pingreq_pingresp (b : Mqtt.Model.Broker.B) (c : Nat) (cn : Mqtt.Model.Broker.Conn)
    (s : Mqtt.Model.Broker.Sess)
    (hc : b.getConn c = some cn) (ha : cn.alive = true) (hs : b.getSess cn.sess = some s) :
    Mqtt.Model.Broker.packet b c .pingreq = (b, [.send c .pingresp]) := by
  have hal : b.alive c = true := by simp [Mqtt.Model.Broker.B.alive, hc, ha]
  simp [Mqtt.Model.Broker.packet, hc, ha, hs, Mqtt.Model.Broker.send, hal]

/-- The facts the timed model rests on are what the source says now. -/
theorem C19_source_shape : keepAliveRearmedPerRead = true ∧ keepAliveZeroMeansMin = true ∧
    0 < keepAliveDivisor ∧ 0 < minKeepAlive := by decide

example : deadline 1 = 1200000000 ∧ effective 0 = 30 := by decide
example : firstExpiry (deadline 1) 0 [(500000000, 0), (1000000000, 3), (1500000000, 0)] true = some 2700000000 := by decide

/-! ## The time-out on the connection life-cycle model -/

section Lifecycle
open Mqtt.Model.Lifecycle Mqtt.Proofs.Lifecycle Mqtt.Properties.C16

/-- The keep-alive event of the life-cycle model: the read deadline fires exactly on a pending
socket read of an open connection (it is armed per read: `keepAliveRearmedPerRead`), and all it
does is make that read fail. -/
theorem C19_expiry_is_a_read_error (c : Cfg) (s : St) :
    ((estep c s .kaExpire).isSome = true ↔ (s.recv = .read ∧ s.sh.sock = .open)) ∧
    (∀ s', estep c s .kaExpire = some s' →
      s'.sh.timeout = true ∧ s'.recv = .read ∧ rstep c s'.sh 1 s'.recv = some (s'.sh, .close)) := by
  constructor
  · simp only [estep]
    by_cases h : s.recv = .read ∧ s.sh.sock = .open <;> simp [h]
  · intro s' h
    simp only [estep] at h
    by_cases h1 : s.recv = .read ∧ s.sh.sock = .open
    · rw [if_pos h1] at h; injection h with h; subst h
      simp [h1.1, rstep]
    · rw [if_neg h1] at h; cases h

/-- **A read time-out always leads to the complete teardown, with the will published.**  For every
reachable state of a connection (any buffer contents, any traffic still to come, any interleaving
so far — in particular: own outgoing ring full, the sender blocked in its socket write, the
connection's OWN processor parked in that ring behind a client that has stopped reading) in which
the read deadline has fired, and no delivery of this connection is blocked in ANOTHER connection's
ring, fair round-robin reaches within `rank` rounds a state in which nothing can run and

* every goroutine of the connection has exited and every `stop()` call has returned,
* the socket is closed,
* the effects of `stop()` are complete, exactly once and in order: unsubscribe, the will iff the
  will flag is still set, session removal iff the session is clean —
* so the will IS published if the flag was set and the client had not sent a DISCONNECT that the
  processor has still to consume: the end is treated as abnormal.

Fairness: "round-robin" stands for "an enabled goroutine is eventually run"; no schedule takes more
than `rank` steps (`C16_teardown_bounded`).  By `C16_read_failure_completes` (hence
`C16_teardown_completes`, `C16_self_held_not_ended`, `C16_no_deadlock`) and `C16_stop_once`. -/
theorem C19_timeout_tears_down (c : Cfg) (hw : WF c) (s0 : St) (h0 : Init c s0) (sched : List Label) :
    let s := reach c s0 sched
    s.sh.timeout = true → s.sh.extBlocked = false →
    let q := drain c (rank c s) s
    quiescent c q = true ∧ Final q = true ∧ TornDown q = true ∧ goroutinesLeft q = 0 ∧
    q.sh.sock = .closed ∧ q.sh.effects = expectedEffects q.sh ∧
    (s.sh.willFlag = true → (∀ p, p ∈ s.sh.stream → p.kind ≠ .disconnect) → Eff.will ∈ q.sh.effects) := by
  intro s hto hx q
  have hi : Inv c s := (C16_invariant c hw s0 h0 sched).1
  have hiq : Inv c q := inv_drain c hw _ s hi
  obtain ⟨sched', hrun, hth⟩ := drain_is_run c (rank c s) s
  obtain ⟨hq, hcases⟩ := C16_read_failure_completes c hw s0 h0 sched (Or.inl hto)
  have hxq : q.sh.extBlocked = false := by
    show (drain c (rank c s) s).sh.extBlocked = false
    rw [hrun, (persist_run c hw s sched' hth).2.2]; exact hx
  rcases hcases with ⟨hf, ht, he, hg⟩ | h
  · refine ⟨hq, hf, ht, hg, ?_, he, ?_⟩
    · have hr : q.recv = .exited := by
        simp only [Final, Bool.and_eq_true, beq_iff_eq] at hf
        exact hf.1.1.1.1
      exact hiq.r.rsock (by simp [hr, RPc.sockClosed])
    · intro hwf hnd
      have hwq : q.sh.willFlag = true := by
        show (drain c (rank c s) s).sh.willFlag = true
        rw [hrun, (noDisc_run c s sched' hth hnd).2]; exact hwf
      have hin : Eff.will ∈ expectedEffects q.sh := by simp [expectedEffects, hwq]
      rw [he]; exact hin
  · exfalso
    have h1 : q.sh.extBlocked = true := by
      simp only [HeldByThird, Bool.and_eq_true] at h; exact h.1
    rw [hxq] at h1; cases h1

/-- the client answers its own traffic (4-byte packets answered with 12 bytes), stops reading and
keeps sending: 5 packets, 20 bytes on the wire — one packet that the processor consumes plus a whole
incoming ring (16 bytes) -/
def floodInit : St :=
  { sh := { stream := List.replicate 5 ⟨2, 4, .normal [.own 12]⟩, wire := 20, willFlag := true } }

/-- the receiver takes 8 bytes, the processor answers the first packet and parks in `WriteWait` for
the answer to the second (own outgoing ring: 12 of 16), the receiver takes another 8 bytes (incoming
ring: 12 of 16) and the last 4 — all the free space there is — and then waits because the incoming
ring is full (16 of 16); the sender's write blocks -/
def floodSched : List Label :=
  [.env (.peerReads false), .th .recv 0, .th .recv 8, .th .recv 0] ++ List.replicate 11 (.th .proc 0) ++
  [.th .recv 0, .th .recv 8, .th .recv 0, .th .recv 0, .th .recv 8, .th .recv 0, .th .send 0]

/-- **The full statement is false of the code** (finding F8, open): a reachable state of the
repaired model — initial state `floodInit`, schedule `floodSched`, every step of which is taken — in
which the client has sent everything it will ever send, and however long it stays silent nothing
happens: the receiver waits because the incoming ring is completely full (16 of 16 bytes: the
packet the processor is working on and three more), so no socket read is pending and the read
deadline is not armed (`kaExpire` is not enabled); the processor is parked in the connection's own
outgoing ring; the sender is blocked in its write.  The connection has not ended, is never torn
down, its will is never published. -/
theorem C19_silence_counterexample :
    WF c0 ∧ Init c0 floodInit ∧
    (let s := reach c0 floodInit floodSched
     taken c0 floodInit floodSched = floodSched.length ∧ s.sh.wire = 0 ∧
     s.recv = .space ∧ s.sh.inR.buf = c0.cap ∧ s.proc = .ownWait 12 [] ∧ s.send = .write 8 ∧ HeldBySelf s = true ∧
     quiescent c0 s = true ∧ estep c0 s .kaExpire = none ∧ Ended s = false ∧ s.sh.effects = [] ∧
     ∀ sched, (∀ l, l ∈ sched → (∃ t k, l = .th t k) ∨ l = .env .kaExpire) → run c0 s sched = s) := by
  refine ⟨c0_wf, ?_, by decide, by decide, by decide, by decide, by decide, by decide, by decide, by decide, by decide,
    by decide, by decide, ?_⟩
  · refine ⟨rfl, rfl, rfl, rfl, rfl, rfl, rfl, rfl, rfl, ?_, ?_, rfl, rfl, rfl⟩
    · intro k hk; cases hk
    · intro w hw; cases hw
  · intro sched hs
    exact silent_stuck c0 _ (by decide) (by decide) sched hs

/-- non-vacuity of `C19_timeout_tears_down`: the self-held connection of `C16_old_receiver_wedges`
(own outgoing ring full, processor parked behind its own client) with the deadline fired: round-robin
tears it down and publishes the will -/
example :
    let s := reach c0 selfInit selfSched
    s.sh.timeout = true ∧ s.sh.extBlocked = false ∧ s.proc = .ownWait 12 [] ∧ s.sh.willFlag = true ∧
    (let q := drain c0 (rank c0 s) s
     Final q = true ∧ q.sh.sock = .closed ∧ Eff.will ∈ q.sh.effects) := by decide

end Lifecycle

end Mqtt.Properties.C19
