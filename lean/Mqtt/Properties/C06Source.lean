/-
C06 — tie to the Go source.

`topics.nextTopicLevel`, `topics.checkTopic` and `message.ValidQos` are the regenerated translation of the
Go functions.

Moved out of `Properties/C06.lean` unchanged (same namespace, same names): this is the only
module of C06 that is built from the regenerated translation `Mqtt.Generated.Xlate`
(through `Proofs/Xlate*.lean`).  `bin/check C06` builds, lists, audits and counts it together
with `Properties/C06.lean`.  NOTHING may import this module (BUILDING.md, "Source-tie modules"):
a rewrite of a translated Go function must not stop other properties from building.
-/
import Mqtt.Properties.C06
import Mqtt.Proofs.XlateTopics
import Mqtt.Proofs.XlateValid

namespace Mqtt.Properties.C06

open Mqtt.Model.Topics Mqtt.Proofs.Topics Mqtt.Iface.Topics
open Mqtt.Spec.Match (split validFilter validName topicMatches dollar)

/-! ### tie to the Go source: the level splitter is the regenerated translation

`Mqtt.Generated.Xlate.Topics.nextTopicLevel` is produced from
`topics/memtopics.go` by `extract/cmd/xlate` on every check (NOTES-xlate.md). -/

/-- On every byte string the translation of the Go function `nextTopicLevel`
returns what the model's level splitter returns (`ntlToSource`: an error made
by `fmt.Errorf`, or level and remainder with a nil error); in particular the Go
function never panics on a slice bound.  Every theorem above that goes through
`levels` is therefore about the function in the source tree. -/
theorem C06_nextTopicLevel_is_source (bs : List UInt8) :
    Mqtt.Generated.Xlate.Topics.nextTopicLevel bs
      = Mqtt.Proofs.XlateTopics.ntlToSource (nextTopicLevel bs) :=
  Mqtt.Proofs.XlateTopics.nextTopicLevel_is_source bs

/-- non-vacuity: "a/b" splits into "a" and "b"; "/x" yields the level "+"
(the recorded empty-level quirk B3); "a#" is an error -/
example :
    Mqtt.Generated.Xlate.Topics.nextTopicLevel [97, 47, 98] = .ok ([97], [98], .nil) ∧
    Mqtt.Generated.Xlate.Topics.nextTopicLevel [47, 120] = .ok ([43], [120], .nil) ∧
    Mqtt.Generated.Xlate.Topics.nextTopicLevel [97, 35] = .ok ([], [], .dyn) := by decide

/-- `checkTopic`, the test in front of the five entry points of `MemTopics`, is the model's
(an error made by `fmt.Errorf` exactly for the empty topic and for topics beginning with '$';
never an index panic) -/
theorem C06_checkTopic_is_source (t : List UInt8) :
    Mqtt.Generated.Xlate.Topics.checkTopic t
      = .ok (if checkTopic t then Mqtt.Generated.Xlate.Err.dyn else Mqtt.Generated.Xlate.Err.nil) :=
  Mqtt.Proofs.XlateValid.checkTopic_is_source t

/-- `message.ValidQos`, which `Subscribe` and `Subscribers` call first, is the model's `validQos` -/
theorem C06_ValidQos_is_source (q : UInt8) : Mqtt.Generated.Xlate.Message.ValidQos q = validQos q.toNat :=
  Mqtt.Proofs.XlateValid.ValidQos_is_topics q

end Mqtt.Properties.C06
