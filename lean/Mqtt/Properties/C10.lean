/-
C10 — Clean and persistent sessions.

Property theorems only (helper lemmas: `Proofs/BrokerLife*.lean`).  Model:
`Model/Broker.lean` — `first` (getSession / Session.Init / Update / start) and
`stop`.  `Inv` is the representation invariant of the session bookkeeping
(`Proofs/BrokerLifeInv.lean`): true initially, kept by every event, hence true
of every state `(run {} evs).1`.
-/
import Mqtt.Proofs.BrokerLifeTrie
import Mqtt.Proofs.BrokerRefineCor
import Mqtt.Proofs.BrokerRefineFail

namespace Mqtt.Properties.C10
open Mqtt.Iface.Broker Mqtt.Model.Broker Mqtt.Proofs.BrokerLife

/-- The invariant used below holds in every reachable state. -/
theorem C10_inv_reachable (evs : List Ev) : Inv (run {} evs).1 := inv_reachable evs

/-! ### 1. SessionPresent -/

/-- In an accepting `first`, the SessionPresent bit of the CONNACK is 1 exactly
when the CONNECT has CleanSession=0 and a non-empty client identifier, and the
store maps that identifier to a session object whose stored CleanSession is 0
(state kept from an earlier CleanSession=0 connection). -/
theorem C10_session_present (b : B) (c : Nat) (req : Connect) (authOk sp : Bool)
    (h : Out.send c (.connack sp 0) ∈ (first b c (.connect req) authOk).2) :
    sp = true ↔
      req.clean = false ∧ req.clientId ≠ [] ∧
      ∃ r s, b.storeGet req.clientId = some r ∧ b.getSess r = some s ∧ s.clean = false := by
  have ha := (accepts_iff_emits b c (.connect req) authOk).mpr ⟨sp, h⟩
  rw [first_accepted b c req authOk ha] at h
  simp only [List.mem_singleton, Out.send.injEq, Packet.connack.injEq, and_true, true_and] at h
  rw [h, accepted_sp, resumed_isSome_iff]

/-- non-vacuity: "A" is filed from a CleanSession=0 connection, "B" from a
CleanSession=1 connection, "C" is unknown: only A with CleanSession=0 gets
SessionPresent=1. -/
example :
    let b := (run Ex.base2 [.close 1]).1
    (first b 3 (.connect (Ex.conn Ex.idA false)) true).2 = [.send 3 (.connack true 0)] ∧
    (first b 3 (.connect (Ex.conn Ex.idA true)) true).2 = [.send 3 (.connack false 0)] ∧
    (first b 3 (.connect (Ex.conn Ex.idB false)) true).2 = [.send 3 (.connack false 0)] ∧
    (first b 3 (.connect (Ex.conn [67] false)) true).2 = [.send 3 (.connack false 0)] := by decide

/-! ### 2. CleanSession=1 starts from nothing -/

/-- An accepted CONNECT with CleanSession=1 (or with an empty identifier, which
forces it) is answered with SessionPresent=0 and served by a new session object
(reference `b.nextRef`, which resolved to nothing before) with no subscriptions
and no inbound QoS 2 state; the subscription tries are exactly those of before —
nothing is subscribed for `c`. -/
theorem C10_clean_starts_empty (b : B) (c : Nat) (req : Connect) (authOk : Bool)
    (h : ∃ sp, Out.send c (.connack sp 0) ∈ (first b c (.connect req) authOk).2)
    (hcl : req.clean = true ∨ req.clientId = []) :
    (first b c (.connect req) authOk).2 = [.send c (.connack false 0)] ∧
    (first b c (.connect req) authOk).1.topics = b.topics ∧
    (∃ cn s, (first b c (.connect req) authOk).1.getConn c = some cn ∧ cn.alive = true ∧
      (first b c (.connect req) authOk).1.getSess cn.sess = some s ∧
      s.ref = b.nextRef ∧ s.clean = true ∧ s.topics = [] ∧ s.pub2in = []) ∧
    (Inv b → b.getSess b.nextRef = none) := by
  have ha := (accepts_iff_emits b c (.connect req) authOk).mpr h
  have hec : effClean req = true := by
    unfold effClean
    rcases hcl with h1 | h1
    · simp [h1]
    · simp [h1]
  have hres := resumed_none_of_clean b c req hec
  obtain ⟨h1, h2, h3⟩ := accepted_fresh b c req hres
  rw [first_accepted b c req authOk ha]
  refine ⟨by rw [h2], by rw [h1]; rfl, ?_, fun hi => hi.fresh _ (Nat.le_refl _)⟩
  refine ⟨_, _, accepted_getConn b c req, rfl, accepted_getSess b c req, ?_⟩
  rw [h3]
  exact ⟨rfl, hec, rfl, rfl⟩

/-- non-vacuity: "A" has a filed session with two subscriptions; a CONNECT of
"A" with CleanSession=1 gets a new object without any. -/
example :
    let b := (run Ex.base2 [.close 1]).1
    let b' := (first b 3 (.connect (Ex.conn Ex.idA true)) true).1
    (b.getSess 1).map (·.topics) = some [(Ex.tW, 2), (Ex.tAB, 1)] ∧ b.storeGet Ex.idA = some 1 ∧
    b'.storeGet Ex.idA = some 3 ∧ (b'.getSess 3).map (fun s => (s.topics, s.clean)) = some ([], true) ∧
    b'.topics.subscribers Ex.tAB 1 = some [(2, 0)] := by decide

/-! ### 3. nothing of a clean session survives its end -/

/-- When a connection with a clean session ends (`stop`: any cause; a
DISCONNECT packet ends in `stop` too), the store no longer maps its client
identifier, and no store entry refers to its session object any more: no later
CONNECT can reach it. -/
theorem C10_clean_discarded (b : B) (hi : Inv b) (c : Nat) (cn : Conn) (s : Sess)
    (hc : b.getConn c = some cn) (ha : cn.alive = true) (hs : b.getSess cn.sess = some s)
    (hcl : s.clean = true) :
    (stop b c).1.storeGet s.cid = none ∧ ∀ p ∈ (stop b c).1.store, p.2 ≠ s.ref :=
  stop_clean_discarded hi c cn s hc ha hs hcl

/-- the same without the invariant, for a session whose will flag comes with a will message -/
theorem C10_clean_discarded_any_state (b : B) (c : Nat) (cn : Conn) (s : Sess)
    (hc : b.getConn c = some cn) (ha : cn.alive = true) (hs : b.getSess cn.sess = some s)
    (hcl : s.clean = true) (hw : s.willFlag = true → s.will.isSome = true) :
    (stop b c).1.storeGet s.cid = none := by
  have hst := stop_store b c cn s hc ha hs hw
  simp only [hcl, ↓reduceIte] at hst
  unfold B.storeGet; rw [hst]; exact lookup_filter_self _ _

/-- DISCONNECT on a clean session discards it as well. -/
theorem C10_clean_discarded_disconnect (b : B) (hi : Inv b) (c : Nat) (cn : Conn) (s : Sess)
    (hc : b.getConn c = some cn) (ha : cn.alive = true) (hs : b.getSess cn.sess = some s)
    (hcl : s.clean = true) :
    (packet b c .disconnect).1.storeGet s.cid = none := by
  rw [packet_disconnect_eq b c cn s hc ha hs]
  have hr : s.ref = cn.sess := getSess_ref hs
  have hi' : Inv (b.setSess { s with willFlag := false }) :=
    inv_setSess (s := s) (s' := { s with willFlag := false }) hi hs hr rfl (fun hf => by cases hf)
  have hs' : (b.setSess { s with willFlag := false }).getSess cn.sess = some { s with willFlag := false } := by
    rw [← hr]; exact getSess_setSess b { s with willFlag := false }
  exact (stop_clean_discarded hi' c cn _ (by exact hc) ha hs' hcl).1

/-- A persistent session (CleanSession=0) stays filed when its connection ends,
with its subscriptions and inbound QoS 2 state. -/
theorem C10_persistent_kept (b : B) (hi : Inv b) (c : Nat) (cn : Conn) (s : Sess)
    (hc : b.getConn c = some cn) (ha : cn.alive = true) (hs : b.getSess cn.sess = some s)
    (hcl : s.clean = false) :
    (stop b c).1.store = b.store ∧
    ∃ s', (stop b c).1.getSess s.ref = some s' ∧ s'.cid = s.cid ∧ s'.clean = false ∧
      s'.topics = s.topics ∧ s'.pub2in = s.pub2in := by
  refine ⟨stop_persistent_kept hi c cn s hc ha hs hcl, ?_⟩
  obtain ⟨s', h1, h2, h3, h4, h5, _⟩ := stop_sess b c cn s hc ha hs
  exact ⟨s', h1, h2, h3.trans hcl, h4, h5⟩

/-- non-vacuity: connection 2 (client "B", clean) drops: "B" is gone from the
store; connection 1 (client "A", persistent) drops: "A" stays with its topics. -/
example :
    Ex.base2.storeGet Ex.idB = some 2 ∧ (stop Ex.base2 2).1.storeGet Ex.idB = none ∧
    (stop Ex.base2 1).1.storeGet Ex.idA = some 1 ∧
    ((stop Ex.base2 1).1.getSess 1).map (·.topics) = some [(Ex.tW, 2), (Ex.tAB, 1)] := by decide

/-! ### 4. a resumed session is subscribed again at once -/

/-- After an accepted CONNECT answered with SessionPresent=1 the session object
`s` that the store held for the identifier serves the new connection — same
subscription list (filters and QoS), same inbound QoS 2 state — and the topic
store of the resulting state is `resubscribe` of that list for `c`: each
`(filter, qos)` of the kept session has been passed to the tries' `Subscribe`
for the new connection before `first` returns, hence before any later event. -/
theorem C10_resume_resubscribes (b : B) (c : Nat) (req : Connect) (authOk : Bool)
    (h : Out.send c (.connack true 0) ∈ (first b c (.connect req) authOk).2) :
    ∃ s, b.storeGet req.clientId = some s.ref ∧ b.getSess s.ref = some s ∧
      (first b c (.connect req) authOk).1.topics = resubscribe b.topics c s.topics ∧
      ∃ cn s', (first b c (.connect req) authOk).1.getConn c = some cn ∧ cn.alive = true ∧ cn.sess = s.ref ∧
        (first b c (.connect req) authOk).1.getSess s.ref = some s' ∧
        s'.topics = s.topics ∧ s'.pub2in = s.pub2in ∧ s'.cid = s.cid := by
  have ha := (accepts_iff_emits b c (.connect req) authOk).mpr ⟨true, h⟩
  rw [first_accepted b c req authOk ha] at h ⊢
  simp only [List.mem_singleton, Out.send.injEq, Packet.connack.injEq, and_true, true_and] at h
  cases hres : resumed b c req with
  | none => rw [accepted_sp, hres] at h; cases h
  | some s =>
    obtain ⟨_, hst, hs, _⟩ := resumed_some hres
    have hid : effCid c req = req.clientId := by
      have := (resumed_isSome_iff b c req).mp (by rw [hres]; rfl)
      unfold effCid
      cases hc : req.clientId with
      | nil => exact absurd hc this.2.1
      | cons _ _ => rfl
    obtain ⟨h1, _, h3⟩ := accepted_resumed b c req s hres
    have hg := accepted_getSess b c req
    rw [h3] at hg
    have hgc := accepted_getConn b c req
    rw [h3] at hgc
    exact ⟨s, hid ▸ hst, hs, by rw [h1], { id := c, sess := s.ref, alive := true }, updSess s req, hgc, rfl, rfl,
      hg, rfl, rfl, rfl⟩

/-- `resubscribe` is the list of tree-subscribe calls, in order. -/
theorem C10_resubscribe_unfold (ts : Mqtt.Model.Topics.MemTopics) (c : Nat) (t : Bytes) (q : Nat)
    (rest : List (Bytes × Nat)) :
    resubscribe ts c [] = ts ∧
    resubscribe ts c ((t, q) :: rest) = resubscribe (ts.subscribe Generated.maxQosAllowed t q c).1 c rest :=
  ⟨rfl, rfl⟩

/-- non-vacuity: "A" returns as connection 3 with CleanSession=0: SessionPresent=1,
and without any SUBSCRIBE a publish to a/b at QoS 1 reaches 3 (granted QoS 1, as
before) besides 2, and "w" reaches 3 at QoS 2. -/
example :
    let b := (run Ex.base2 [.close 1]).1
    let b' := (first b 3 (.connect (Ex.conn Ex.idA false)) true).1
    (first b 3 (.connect (Ex.conn Ex.idA false)) true).2 = [.send 3 (.connack true 0)] ∧
    b.topics.subscribers Ex.tAB 1 = some [(2, 0)] ∧
    b'.topics.subscribers Ex.tAB 1 = some [(2, 0), (3, 1)] ∧
    b'.topics.subscribers Ex.tW 2 = some [(2, 1), (1000, 0), (3, 2)] := by decide

/-! ### 5. sessions are keyed by client identifier only -/

/-- An accepting `first` whose identifier in force is X (`effCid`: the CONNECT's
identifier, or the generated one for an empty identifier) changes neither the
store entry of any other identifier Y nor the session object filed under Y — its
subscriptions, queue, will and flags are untouched. -/
theorem C10_keyed_by_id (b : B) (hi : Inv b) (c : Nat) (req : Connect) (authOk : Bool) (y : Bytes)
    (h : ∃ sp, Out.send c (.connack sp 0) ∈ (first b c (.connect req) authOk).2)
    (hy : y ≠ effCid c req) :
    (first b c (.connect req) authOk).1.storeGet y = b.storeGet y ∧
    ∀ r, b.storeGet y = some r → (first b c (.connect req) authOk).1.getSess r = b.getSess r := by
  have ha := (accepts_iff_emits b c (.connect req) authOk).mpr h
  rw [first_accepted b c req authOk ha]
  exact accepted_other_id hi c req y hy

/-- the identifier in force is the CONNECT's own whenever that is not empty -/
theorem C10_effCid (c : Nat) (req : Connect) (h : req.clientId ≠ []) : effCid c req = req.clientId := by
  unfold effCid
  cases hc : req.clientId with
  | nil => exact absurd hc h
  | cons _ _ => rfl

/-- non-vacuity: "A" reconnects (resuming): the session object filed under "B"
is the same as before, subscriptions included. -/
example :
    let b := (run Ex.base2 [.close 1]).1
    let b' := (first b 3 (.connect (Ex.conn Ex.idA false)) true).1
    b'.storeGet Ex.idB = some 2 ∧
    (b'.getSess 2).map (·.topics) = some [(Ex.tW, 1), (Ex.tAB, 0)] ∧
    (b.getSess 2).map (·.topics) = some [(Ex.tW, 1), (Ex.tAB, 0)] := by decide

/-! ### 6. the resumed subscriptions, seen in the subscription trie (with the C06 theorems) -/

/-- In every reachable state the subscription trie is well-formed (unique map
keys, `Proofs.Topics.WF`) — the hypothesis of the C06 trie theorems. -/
theorem C10_trie_wf_reachable (evs : List Ev) : Mqtt.Proofs.Topics.WF (run {} evs).1.topics.sroot :=
  trieWF_reachable evs

/-- After an accepted CONNECT answered with SessionPresent=1, every entry
`(filter, qos)` of the kept session's topic list that the store accepts (QoS ≤ 2,
the filter does not begin with '$' and `nextTopicLevel` parses it:
`entryLevels f = levels f` unless `checkTopic f` (empty, or beginning with '$'), and `([], false)` then -
`C10_entryLevels`), and whose level path is not shared with
another entry of the list, is held in the trie for the new connection `c` at its
granted QoS (`abs`: the entries of the trie).  Consequently (C06_smatch_char)
the subscriber lookup for every name whose levels the filter path matches
returns `c` with QoS min(publish QoS, granted QoS) — without any SUBSCRIBE on
the new connection. -/
theorem C10_resume_trie (b : B) (hwf : Mqtt.Proofs.Topics.WF b.topics.sroot) (c : Nat) (req : Connect)
    (authOk : Bool) (h : Out.send c (.connack true 0) ∈ (first b c (.connect req) authOk).2) :
    ∃ s, b.storeGet req.clientId = some s.ref ∧ b.getSess s.ref = some s ∧
      Mqtt.Proofs.Topics.WF (first b c (.connect req) authOk).1.topics.sroot ∧
      (s.topics.Pairwise (fun p p' => (Mqtt.Proofs.Topics.entryLevels p.1).1 ≠ (Mqtt.Proofs.Topics.entryLevels p'.1).1) →
        ∀ p ∈ s.topics, Mqtt.Model.Topics.validQos p.2 = true → (Mqtt.Proofs.Topics.entryLevels p.1).2 = true →
          ((Mqtt.Proofs.Topics.entryLevels p.1).1, c, grant Generated.maxQosAllowed p.2) ∈
            Mqtt.Proofs.Topics.abs (first b c (.connect req) authOk).1.topics.sroot ∧
          ∀ (ns : List Mqtt.Model.Topics.Level) (q : Nat),
            Mqtt.Proofs.Topics.walk (Mqtt.Proofs.Topics.entryLevels p.1).1 ns = true →
            ∃ r, (first b c (.connect req) authOk).1.topics.sroot.smatchL ns true q = some r ∧
              (c, min q (grant Generated.maxQosAllowed p.2)) ∈ r) := by
  obtain ⟨s, h1, h2, h3, _⟩ := C10_resume_resubscribes b c req authOk h
  have hwf' : Mqtt.Proofs.Topics.WF (first b c (.connect req) authOk).1.topics.sroot := by
    rw [h3]; exact resubscribe_WF c s.topics b.topics hwf
  refine ⟨s, h1, h2, hwf', ?_⟩
  intro hpw p hp hq hl
  have hm : ((Mqtt.Proofs.Topics.entryLevels p.1).1, c, grant Generated.maxQosAllowed p.2) ∈
      Mqtt.Proofs.Topics.abs (first b c (.connect req) authOk).1.topics.sroot := by
    rw [h3]; exact resubscribe_holds c s.topics b.topics hwf hpw p hp ⟨hq, hl⟩
  refine ⟨hm, ?_⟩
  intro ns q hwalk
  obtain ⟨r, hr, hperm⟩ := Mqtt.Proofs.Topics.smatch_char _ ns q hwf'
  refine ⟨r, hr, hperm.mem_iff.mpr ?_⟩
  rw [List.mem_filterMap]
  exact ⟨_, hm, by simp [hwalk]⟩

/-- `entryLevels`: what the entry points of the topic store walk of a filter -/
theorem C10_entryLevels (f : Bytes) :
    (Mqtt.Model.Topics.checkTopic f = false → Mqtt.Proofs.Topics.entryLevels f = Mqtt.Model.Topics.levels f) ∧
    (Mqtt.Model.Topics.checkTopic f = true → Mqtt.Proofs.Topics.entryLevels f = ([], false)) :=
  ⟨Mqtt.Proofs.Topics.entryLevels_of_not_sys f, Mqtt.Proofs.Topics.entryLevels_of_sys f⟩

/-- the granted QoS is the requested one for QoS ≤ 2 (`Generated.maxQosAllowed` = 2) -/
theorem C10_grant (q : Nat) (h : Mqtt.Model.Topics.validQos q = true) : grant Generated.maxQosAllowed q = q := by
  unfold grant Generated.maxQosAllowed
  simp only [Mqtt.Model.Topics.validQos, Bool.or_eq_true, beq_iff_eq] at h
  split
  · omega
  · rfl

/-- the regenerated constants the session code uses are the specification's -/
theorem C10_facts : Generated.maxQosAllowed = Spec.Broker.maxQos ∧ Model.Broker.cbBase = Spec.Broker.cbBase :=
  ⟨rfl, rfl⟩

/-- non-vacuity: the kept session of "A" holds ("w", 2) and ("a/b", 1): both
subscribable, different paths; after the resume both entries are in the trie
for connection 3. -/
example :
    let b := (run Ex.base2 [.close 1]).1
    let b' := (first b 3 (.connect (Ex.conn Ex.idA false)) true).1
    (b.getSess 1).map (·.topics) = some [(Ex.tW, 2), (Ex.tAB, 1)] ∧
    Mqtt.Proofs.Topics.entryLevels Ex.tW = ([[119]], true) ∧
    Mqtt.Proofs.Topics.entryLevels Ex.tAB = ([[97], [98]], true) ∧
    Mqtt.Proofs.Topics.abs b.topics.sroot = [([[97], [98]], 2, 0), ([[119]], 2, 1), ([[119]], 1000, 0)] ∧
    Mqtt.Proofs.Topics.abs b'.topics.sroot =
      [([[97], [98]], 2, 0), ([[97], [98]], 3, 1), ([[119]], 2, 1), ([[119]], 1000, 0), ([[119]], 3, 2)] := by
  decide

/-! ### the refinement theorem, specialised: sessions after any history -/

open Mqtt.Proofs.BrokerRefine (okRun specRun okEv specPrior liveSess) in
open Mqtt.Spec.Broker (Accepts addHeld) in
/-- **Refinement (Proofs/BrokerRefine.lean: `Broker_refines_spec`) for C10.**
After any history admitted by `okRun` (see C01_refines_reference for the side
condition), an accepted CONNECT admitted by `okEv` (connection number not in
use, will topic a `good` topic name - a live connection with the same client
identifier is *admitted*) first takes over: if the client identifier belongs to
a live connection `c0` (there is at most one: `R.cidUniq` is an invariant), that
connection is ended on both sides - `stop` / `endConn`, not gracefully - and the
outputs of that end come first; otherwise nothing happens (MQTT-3.1.4-2).  Then
exactly one packet: CONNACK code 0 with SessionPresent = 1 precisely when
CleanSession = 0 and the reference broker stores a session for the client
identifier *after the take-over* (`specPrior`: it does so exactly for the
identifiers whose last connection ended with CleanSession = 0 - after a take-over:
iff the connection taken over had CleanSession = 0).  Afterwards the subscription
trie holds exactly what the reference broker holds: the subscriptions of
everybody else - none of the connection taken over -, and for the new connection
the stored subscriptions of the resumed session at their granted QoS (`HeldInv`). -/
theorem C10_refines_reference (es : List Ev) (hok : okRun {} es = true) (c : Nat) (req : Connect) (a : Bool)
    (he : okEv (run {} es).1 (.first c (.connect req) a) = true) (hacc : accepts (.connect req) a = true) :
    Accepts (Mqtt.Spec.Broker.step (specRun {} es).1 (.first c (.connect req) a)).2
      (step (run {} es).1 (.first c (.connect req) a)).2 ∧
    (step (run {} es).1 (.first c (.connect req) a)).2 = (takeOver (run {} es).1 (.connect req) a).2 ++
      [.send c (.connack (specPrior (Mqtt.Spec.Broker.takeOver (specRun {} es).1 (.connect req) a).1 c req).isSome 0)] ∧
    Mqtt.Proofs.Broker.HeldInv (step (run {} es).1 (.first c (.connect req) a)).1.topics.sroot
      (((specPrior (Mqtt.Spec.Broker.takeOver (specRun {} es).1 (.connect req) a).1 c req).getD ([], [])).1.foldl
        (fun h p => addHeld h c p.1 p.2) (Mqtt.Spec.Broker.takeOver (specRun {} es).1 (.connect req) a).1.held) ∧
    ((takeOver (run {} es).1 (.connect req) a = ((run {} es).1, []) ∧
      Mqtt.Spec.Broker.takeOver (specRun {} es).1 (.connect req) a = ((specRun {} es).1, [])) ∨
     ∃ c0 σ k, liveSess (run {} es).1 c0 = some σ ∧ σ.cid = req.clientId ∧
       Mqtt.Spec.Broker.getConn (specRun {} es).1 c0 = some k ∧ k.clean = σ.clean ∧
       takeOver (run {} es).1 (.connect req) a = stop (run {} es).1 c0 ∧
       Mqtt.Spec.Broker.takeOver (specRun {} es).1 (.connect req) a =
         Mqtt.Spec.Broker.endConn (specRun {} es).1 c0 false ∧
       (specPrior (Mqtt.Spec.Broker.takeOver (specRun {} es).1 (.connect req) a).1 c req).isSome =
         (!req.clean && !k.clean)) := by
  have hR := Mqtt.Proofs.BrokerRefine.reach es hok
  obtain ⟨_, c1, _, c3⟩ := Mqtt.Proofs.BrokerRefine.connect_refines hR c req a he hacc
  refine ⟨(Mqtt.Proofs.BrokerRefine.reach_step es hok _ he).2.1, c1, c3, ?_⟩
  have hdead : (run {} es).1.alive c = false := by
    simp only [okEv, Bool.and_eq_true, decide_eq_true_eq, Bool.not_eq_true'] at he
    exact he.1.2
  obtain ⟨_, _, _, hto⟩ := Mqtt.Proofs.BrokerRefine.takeOver_refines hR c req a hacc hdead
  rcases hto with h0 | ⟨c0, σ, fs, fo, hσ, hcid, hne, t1, t2, _⟩
  · exact .inl h0
  · obtain ⟨k, hk, hkc, hp⟩ := Mqtt.Proofs.BrokerRefine.takeOver_prior hR c req hne
      (Mqtt.Proofs.BrokerRefine.realCid_of_accepts hacc hne) c0 σ hσ hcid
    exact .inr ⟨c0, σ, k, hσ, hcid, hk, hkc, t1, t2, by rw [t2]; exact hp⟩

/-! ### 7. a handshake whose CONNACK cannot be written -/

open Mqtt.Proofs.BrokerRefine (EvX okRunX runX specRunX R AcceptsAll) in
/-- **Refinement with failed handshakes (Proofs/BrokerRefineFail.lean: `BrokerX_refines_spec`).**
A history may contain, besides the events of `Ev`, first packets whose answer cannot be
written to the connection (`EvX.failFirst`: the peer has gone; model `connectFail`, reference
broker `Spec.Broker.connectFail`).  Along every such history admitted by `okRunX`, started in
the initial states, the output of every event is accepted by the reference broker's output for
it and the states stay related (`R`) - in particular (`R.stored`) the model resumes exactly the
sessions the reference broker stores, with the same subscriptions and open QoS 2 exchanges:
a failed handshake loses nothing of a persistent session. -/
theorem C10_failed_handshake_refines (es : List EvX) (hok : okRunX {} es = true) :
    R (runX {} es).1 (specRunX {} es).1 ∧ AcceptsAll (specRunX {} es).2 (runX {} es).2 :=
  Mqtt.Proofs.BrokerRefine.BrokerX_refines_spec es hok

/-- Reference broker: an acceptable CONNECT with CleanSession=0 of a client that has a stored
session and no live connection, whose CONNACK cannot be written, leaves the stored session of
that client exactly as it was, and every other stored session, every held subscription, the
retained messages and the connections as well. -/
theorem C10_failed_handshake_keeps_session (s : Mqtt.Spec.Broker.S) (c : Nat) (req : Connect) (a : Bool)
    (st : List (Bytes × Nat) × List (Nat × Bool × Pub))
    (href : Mqtt.Spec.Broker.refusals req a = []) (hne : req.clientId ≠ []) (hcl : req.clean = false)
    (hst : s.stored.lookup req.clientId = some st)
    (hlive : s.conns.find? (fun x => x.cid == req.clientId) = none) :
    (Mqtt.Spec.Broker.connectFail s c (.connect req) a).1.stored.lookup req.clientId = some st ∧
    (∀ x, x ≠ req.clientId →
      (Mqtt.Spec.Broker.connectFail s c (.connect req) a).1.stored.lookup x = s.stored.lookup x) ∧
    (Mqtt.Spec.Broker.connectFail s c (.connect req) a).1.held = s.held ∧
    (Mqtt.Spec.Broker.connectFail s c (.connect req) a).1.rets = s.rets ∧
    (Mqtt.Spec.Broker.connectFail s c (.connect req) a).1.conns = s.conns := by
  have hemp : req.clientId.isEmpty = false := by
    cases h : req.clientId with
    | nil => exact absurd h hne
    | cons _ _ => rfl
  have hto : Mqtt.Spec.Broker.takeOver s (.connect req) a = (s, []) := by
    unfold Mqtt.Spec.Broker.takeOver
    simp only [href, List.isEmpty_nil, Bool.not_true, hemp, Bool.or_self, Bool.false_eq_true, ↓reduceIte, hlive]
  have hXs : Mqtt.Proofs.BrokerRefine.specCid c req = req.clientId := by
    unfold Mqtt.Proofs.BrokerRefine.specCid; simp [hemp]
  have hcls : Mqtt.Proofs.BrokerRefine.specClean req = false := by
    unfold Mqtt.Proofs.BrokerRefine.specClean; simp [hcl, hemp]
  rw [Mqtt.Proofs.BrokerRefine.spec_connectFail_eq, hto,
    Mqtt.Proofs.BrokerRefine.spec_firstFail_accepted s c req a href]
  refine ⟨?_, ?_, rfl, rfl, rfl⟩
  · have := Mqtt.Proofs.BrokerRefine.failStored_lookup_keep s c req hcls
    rw [hXs, hst] at this
    exact this
  · intro x hx
    exact Mqtt.Proofs.BrokerRefine.failStored_lookup_ne s c req x (by rw [hXs]; exact hx)

open Mqtt.Proofs.BrokerRefine (resumable) in
/-- Model: an accepted CONNECT with CleanSession=0 of a client that has no live connection
(the take-over does nothing) and a resumable session object `σ` in the store, whose CONNACK
cannot be written: the store still holds a resumable session object for the client - the same
object (`ref`), with the same subscription list and the same inbound QoS 2 queue -, and the
subscription tries and the connection table are untouched. -/
theorem C10_failed_handshake_model_keeps_session (b : B) (_hi : Inv b) (c : Nat) (req : Connect) (a : Bool)
    (σ : Sess) (hacc : accepts (.connect req) a = true) (hcl : req.clean = false) (hne : req.clientId ≠ [])
    (hfree : sameClient b req.clientId = []) (hres : resumable b req.clientId = some σ) :
    (∃ σ', resumable (connectFail b c (.connect req) a).1 req.clientId = some σ' ∧
      σ'.topics = σ.topics ∧ σ'.pub2in = σ.pub2in ∧ σ'.ref = σ.ref) ∧
    (connectFail b c (.connect req) a).1.topics = b.topics ∧
    (connectFail b c (.connect req) a).1.conns = b.conns := by
  have hemp : req.clientId.isEmpty = false := by
    cases h : req.clientId with
    | nil => exact absurd h hne
    | cons _ _ => rfl
  have hto : takeOver b (.connect req) a = (b, []) := by
    rw [takeOver_accepted b req a hacc, hfree]
    simp only [hemp, Bool.false_eq_true, ↓reduceIte, Mqtt.Proofs.Connect.stopAll_nil]
  have hX : effCid c req = req.clientId := by unfold effCid; simp [hemp]
  have hec : effClean req = false := by unfold effClean; simp [hemp, hcl]
  have hresd : resumed b c req = some σ := by
    have : resumed b c req = resumable b req.clientId := by
      unfold resumed resumable; simp [hec, hX]
    rw [this]; exact hres
  obtain ⟨_, hst, hσ, _⟩ := resumed_some hresd
  rw [hX] at hst
  have hfail : Mqtt.Proofs.BrokerRefine.failed b c req = b.setSess (updSess σ req) := by
    unfold Mqtt.Proofs.BrokerRefine.failed; rw [hresd]
  rw [Mqtt.Proofs.BrokerRefine.connectFail_eq, hto,
    Mqtt.Proofs.BrokerRefine.firstFail_accepted b c req a hacc, hfail]
  refine ⟨⟨updSess σ req, ?_, rfl, rfl, rfl⟩, rfl, rfl⟩
  unfold resumable
  show ((b.storeGet req.clientId).bind (b.setSess (updSess σ req)).getSess).filter _ = _
  rw [hst]
  simp only [Option.bind_some]
  have hr : (updSess σ req).ref = σ.ref := rfl
  rw [← hr, getSess_setSess b (updSess σ req)]
  have : (updSess σ req).clean = false := hec
  simp [Option.filter, this]

/-- non-vacuity: "A" (persistent, subscribed to "w" at QoS 2 and "a/b" at QoS 1) has lost its
connection; a CONNECT of "A" with CleanSession=0 on connection 3 cannot be answered (only the
close is seen, no connection exists, the tries are as before); the next CONNECT of "A" with
CleanSession=0, on connection 4, is answered SessionPresent=1 and holds the subscriptions again. -/
example :
    let b := (run Ex.base2 [.close 1]).1
    let b1 := (connectFail b 3 (.connect (Ex.conn Ex.idA false)) true).1
    let b2 := (connect b1 4 (.connect (Ex.conn Ex.idA false)) true).1
    (connectFail b 3 (.connect (Ex.conn Ex.idA false)) true).2 = [.closed 3] ∧
    b1.alive 3 = false ∧ b1.storeGet Ex.idA = some 1 ∧
    (b1.getSess 1).map (·.topics) = some [(Ex.tW, 2), (Ex.tAB, 1)] ∧
    b1.topics.subscribers Ex.tAB 1 = some [(2, 0)] ∧
    (connect b1 4 (.connect (Ex.conn Ex.idA false)) true).2 = [.send 4 (.connack true 0)] ∧
    b2.topics.subscribers Ex.tAB 1 = some [(2, 0), (4, 1)] := by decide

end Mqtt.Properties.C10
