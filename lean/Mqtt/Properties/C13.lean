/-
C13 — An ack queue is a FIFO of in-flight requests, released only on the final ack.

Property theorems only (helper lemmas: `Proofs/AckQueue.lean`).  The model
(`Model/AckQueue.lean`) is the code-shaped ring + index map of
`sessions/ackqueue.go`; the specification (`Spec/Fifo.lean`) is a plain list.
All theorems quantify over *every* operation history `ops : List Op`
(no bound on length, identifiers or in-flight count).
-/
import Mqtt.Proofs.AckQueue

set_option linter.unusedSimpArgs false

namespace Mqtt.Properties.C13

open Mqtt.Generated Mqtt.Model.AckQueue Mqtt.Proofs.AckQueue Mqtt.Iface.AckQ
open Mqtt.Spec

/-! The specification (`Spec/Fifo.lean`: `Fifo.step`, `Fifo.run`) is written from
the protocol and does not mention the regenerated tables. -/

abbrev SOut := Fifo.SOut

def outAbs : Out → SOut
  | .ok b => .ok b
  | .released l => .released (l.map toEntry)

/-! ## 1. Refinement: every operation of the code-shaped queue is the FIFO operation -/

/-- Representation invariant of the whole object (ring part and ping FIFO). -/
def FullInv (q : Q) : Prop := Inv q ∧ PingsOk q

theorem fullInv_init : FullInv init :=
  ⟨inv_init, by unfold PingsOk init; rw [newAckqueue_default]; intro a ha; cases ha⟩

/-- One step: invariant preserved, output equal, abstraction commutes. -/
theorem C13_step_refines (q : Q) (hq : FullInv q) (op : Op) :
    FullInv (step q op).1 ∧
    abs (step q op).1 = (Fifo.step (abs q) op).1 ∧
    outAbs (step q op).2 = (Fifo.step (abs q) op).2 := by
  obtain ⟨h, hp⟩ := hq
  cases op with
  | wait m tag =>
    cases m with
    | publish qos id enc =>
      simp only [step, Q.wait, Fifo.step]
      by_cases hq : (qos == 0) = true
      · simp [hq, h, hp, FullInv, outAbs]
      · simp only [hq, Bool.false_eq_true, ↓reduceIte]
        have hpi : PingsOk (q.insert tPUBLISH id enc tag) := by
          unfold PingsOk; rw [insert_pings]; exact hp
        cases enc with
        | none => have := insert_none_refines h tPUBLISH id tag; simp only [tPUBLISH, tSUBSCRIBE, tUNSUBSCRIBE] at this hpi; simp [this, hpi, FullInv, Fifo.regOpt, outAbs, tPUBLISH, tSUBSCRIBE, tUNSUBSCRIBE, Fifo.PUBLISH, Fifo.SUBSCRIBE, Fifo.UNSUBSCRIBE]
        | some b => have := insert_refines h tPUBLISH id b tag; simp only [tPUBLISH, tSUBSCRIBE, tUNSUBSCRIBE] at this hpi; simp [this, hpi, FullInv, Fifo.regOpt, outAbs, tPUBLISH, tSUBSCRIBE, tUNSUBSCRIBE, Fifo.PUBLISH, Fifo.SUBSCRIBE, Fifo.UNSUBSCRIBE]
    | subscribe id enc =>
      simp only [step, Q.wait, Fifo.step]
      have hpi : PingsOk (q.insert tSUBSCRIBE id enc tag) := by
        unfold PingsOk; rw [insert_pings]; exact hp
      cases enc with
      | none => have := insert_none_refines h tSUBSCRIBE id tag; simp only [tPUBLISH, tSUBSCRIBE, tUNSUBSCRIBE] at this hpi; simp [this, hpi, FullInv, Fifo.regOpt, outAbs, tPUBLISH, tSUBSCRIBE, tUNSUBSCRIBE, Fifo.PUBLISH, Fifo.SUBSCRIBE, Fifo.UNSUBSCRIBE]
      | some b => have := insert_refines h tSUBSCRIBE id b tag; simp only [tPUBLISH, tSUBSCRIBE, tUNSUBSCRIBE] at this hpi; simp [this, hpi, FullInv, Fifo.regOpt, outAbs, tPUBLISH, tSUBSCRIBE, tUNSUBSCRIBE, Fifo.PUBLISH, Fifo.SUBSCRIBE, Fifo.UNSUBSCRIBE]
    | unsubscribe id enc =>
      simp only [step, Q.wait, Fifo.step]
      have hpi : PingsOk (q.insert tUNSUBSCRIBE id enc tag) := by
        unfold PingsOk; rw [insert_pings]; exact hp
      cases enc with
      | none => have := insert_none_refines h tUNSUBSCRIBE id tag; simp only [tPUBLISH, tSUBSCRIBE, tUNSUBSCRIBE] at this hpi; simp [this, hpi, FullInv, Fifo.regOpt, outAbs, tPUBLISH, tSUBSCRIBE, tUNSUBSCRIBE, Fifo.PUBLISH, Fifo.SUBSCRIBE, Fifo.UNSUBSCRIBE]
      | some b => have := insert_refines h tUNSUBSCRIBE id b tag; simp only [tPUBLISH, tSUBSCRIBE, tUNSUBSCRIBE] at this hpi; simp [this, hpi, FullInv, Fifo.regOpt, outAbs, tPUBLISH, tSUBSCRIBE, tUNSUBSCRIBE, Fifo.PUBLISH, Fifo.SUBSCRIBE, Fifo.UNSUBSCRIBE]
    | pingreq enc =>
      simp only [step, Q.wait, Fifo.step, outAbs, and_true]
      refine ⟨⟨⟨h.pow, h.mask, h.len, h.cnt, h.head, h.tail, h.sound, h.compl⟩, ?_⟩, ?_⟩
      · intro a ha
        rcases List.mem_append.mp ha with ha | ha
        · exact hp a ha
        · simp only [List.mem_singleton] at ha; rw [ha]
      · simp [abs, window, slot, Q.get, toEntry, tPINGREQ, Fifo.PINGREQ]
    | other => simp [step, Q.wait, Fifo.step, h, hp, FullInv, outAbs]
  | ack t id bytes =>
    simp only [step, Q.ack, Fifo.step, facts_idack]
    have hpt' : (t == ackPingType) = (t == Fifo.PINGRESP) := rfl
    rw [hpt']
    by_cases ht : Fifo.isIdAck t = true
    · simp only [ht, ↓reduceIte]
      cases hget : emapGet q.emap id with
      | none => simp [h, hp, FullInv, ackId_unknown h t id bytes hget, outAbs]
      | some i =>
        have := ackId_refines h t id i bytes hget
        simp only at this
        refine ⟨⟨this.1, hp⟩, this.2, rfl⟩
    · simp only [ht, Bool.false_eq_true, ↓reduceIte]
      by_cases hpt : (t == Fifo.PINGRESP) = true
      · simp only [hpt, ↓reduceIte, outAbs, and_true]
        refine ⟨⟨⟨h.pow, h.mask, h.len, h.cnt, h.head, h.tail, h.sound, h.compl⟩, ?_⟩, ?_⟩
        · exact markPing_mtype bytes q.pings hp
        · have := markPing_refines bytes q.pings
          simp only [abs, window, slot, Q.get, this]
      · simp [hpt, h, hp, FullInv, outAbs]
  | acked =>
    obtain ⟨a, b, c, d⟩ := acked_refines h hp
    simp only [step, Fifo.step, outAbs, Fifo.collectPings, Fifo.collect]
    exact ⟨⟨a, b⟩, c, by rw [d]⟩

/-- **C13, refinement form.**  For every history of register / acknowledge /
collect operations, of any length, over any identifiers, the code-shaped queue
(ring buffer, growth, index wrap-around, index map) produces exactly the
outputs of the FIFO list and ends in a state whose abstraction is the FIFO
list's state. -/
theorem C13_refines (q : Q) (hq : FullInv q) (ops : List Op) :
    FullInv (run q ops).1 ∧
    abs (run q ops).1 = (Fifo.run (abs q) ops).1 ∧
    (run q ops).2.map outAbs = (Fifo.run (abs q) ops).2 := by
  induction ops generalizing q with
  | nil => exact ⟨hq, rfl, rfl⟩
  | cons op ops ih =>
    obtain ⟨h1, h2, h3⟩ := C13_step_refines q hq op
    obtain ⟨i1, i2, i3⟩ := ih (step q op).1 h1
    simp only [run, Fifo.run]
    rw [← h2]
    exact ⟨i1, i2, by simp [h3, i3]⟩

/-- … in particular from the queue a session creates. -/
theorem C13_refines_init (ops : List Op) :
    abs (run init ops).1 = (Fifo.run Fifo.empty ops).1 ∧
    (run init ops).2.map outAbs = (Fifo.run Fifo.empty ops).2 := by
  have := C13_refines init fullInv_init ops
  rw [abs_init] at this
  exact this.2

/-! ## 2. What the FIFO semantics gives (stated on the specification run, which by
`C13_refines` is the behaviour of the code-shaped queue) -/

/-- everything about a request that is fixed when it is registered -/
def key (e : Fifo.Entry) : Nat × Nat × List UInt8 × Nat := (e.mtype, e.id, e.req, e.tag)

/-- the request a `Wait` call tries to put in flight, if any -/
def reqOf : WaitMsg → Nat → Option Fifo.Entry
  | .publish qos id (some b), tag => if qos == 0 then none else some ⟨Fifo.PUBLISH, 0, id, b, [], tag⟩
  | .subscribe id (some b), tag => some ⟨Fifo.SUBSCRIBE, 0, id, b, [], tag⟩
  | .unsubscribe id (some b), tag => some ⟨Fifo.UNSUBSCRIBE, 0, id, b, [], tag⟩
  | _, _ => none

/-- requests newly put in flight by one operation -/
def stepAccepted (s : Fifo.S) : Op → List Fifo.Entry
  | .wait m tag =>
    match reqOf m tag with
    | some e => if s.q.any (fun x => x.id == e.id) then [] else [e]
    | none => []
  | _ => []

/-- identified requests handed back by one operation -/
def stepReleased (s : Fifo.S) : Op → List Fifo.Entry
  | .acked => s.q.takeWhile (fun e => terminal e.state)
  | _ => []

def accepted (s : Fifo.S) : List Op → List Fifo.Entry
  | [] => []
  | op :: ops => stepAccepted s op ++ accepted (Fifo.step s op).1 ops

def released (s : Fifo.S) : List Op → List Fifo.Entry
  | [] => []
  | op :: ops => stepReleased s op ++ released (Fifo.step s op).1 ops

theorem specRun_cons (s : Fifo.S) (op : Op) (ops : List Op) :
    (Fifo.run s (op :: ops)).1 = (Fifo.run (Fifo.step s op).1 ops).1 := rfl

theorem specAcked_q (s : Fifo.S) :
    (Fifo.step s .acked).1.q = s.q.dropWhile (fun e => terminal e.state) := by
  simp only [Fifo.step, Fifo.collect, Fifo.collectPings]

theorem mem_takeWhile {α} (p : α → Bool) (l : List α) (a : α) (h : a ∈ l.takeWhile p) : p a = true := by
  induction l with
  | nil => simp at h
  | cons b l ih =>
    rw [List.takeWhile_cons] at h
    split at h
    · rcases List.mem_cons.mp h with rfl | h'
      · assumption
      · exact ih h'
    · simp at h

theorem step_conservation (s : Fifo.S) (op : Op) :
    (stepReleased s op ++ (Fifo.step s op).1.q).map key = (s.q ++ stepAccepted s op).map key := by
  cases op with
  | wait m tag =>
    cases m with
    | publish qos id enc =>
      cases enc with
      | none => simp only [stepReleased, stepAccepted, reqOf, Fifo.step]; split <;> simp [Fifo.regOpt]
      | some b =>
        simp only [stepReleased, stepAccepted, reqOf, Fifo.step]
        by_cases hq : (qos == 0) = true
        · simp [hq]
        · simp only [hq, Bool.false_eq_true, ↓reduceIte, Fifo.regOpt, Fifo.register]
          split <;> simp
    | subscribe id enc =>
      cases enc with
      | none => simp [stepReleased, stepAccepted, reqOf, Fifo.step, Fifo.regOpt]
      | some b =>
        simp only [stepReleased, stepAccepted, reqOf, Fifo.step, Fifo.regOpt, Fifo.register]
        split <;> simp
    | unsubscribe id enc =>
      cases enc with
      | none => simp [stepReleased, stepAccepted, reqOf, Fifo.step, Fifo.regOpt]
      | some b =>
        simp only [stepReleased, stepAccepted, reqOf, Fifo.step, Fifo.regOpt, Fifo.register]
        split <;> simp
    | pingreq enc => simp [stepReleased, stepAccepted, reqOf, Fifo.step]
    | other => simp [stepReleased, stepAccepted, reqOf, Fifo.step]
  | ack t id bytes =>
    simp only [stepReleased, stepAccepted, Fifo.step, List.nil_append, List.append_nil]
    split
    · simp only [Fifo.ackId, List.map_map]
      apply List.map_congr_left
      intro e _
      simp only [Function.comp_apply, key]
      split <;> rfl
    · split <;> rfl
  | acked =>
    rw [specAcked_q]
    simp only [stepReleased, stepAccepted, List.append_nil, List.takeWhile_append_dropWhile]

/-- **C13, exactly-once FIFO hand-back.**  Over any history, the sequence of
requests accepted into the queue equals the sequence of requests handed back so
far followed by the requests still in flight — compared on packet type,
identifier, the *bytes* of the request and its completion callback.  Hence
every accepted request is handed back at most once, requests are handed back
in the order they were registered, none is lost, none is invented, and the
request bytes are identical to what was registered. -/
theorem C13_exactly_once_fifo (s : Fifo.S) (ops : List Op) :
    (released s ops ++ (Fifo.run s ops).1.q).map key = (s.q ++ accepted s ops).map key := by
  induction ops generalizing s with
  | nil => simp [released, accepted, Fifo.run]
  | cons op ops ih =>
    rw [specRun_cons]
    simp only [released, accepted]
    have h1 := step_conservation s op
    have h2 := ih (Fifo.step s op).1
    simp only [List.map_append] at *
    rw [List.append_assoc, h2, ← List.append_assoc, h1, List.append_assoc]

/-- Only requests whose last acknowledgement is terminal are handed back … -/
theorem C13_released_terminal (s : Fifo.S) (op : Op) :
    ∀ e ∈ stepReleased s op, terminal e.state = true := by
  cases op <;> simp only [stepReleased, List.not_mem_nil, false_implies, implies_true]
  intro e he
  exact mem_takeWhile (fun e => terminal e.state) s.q e he

/-- … and all of them: after a collect the oldest request left is not terminal. -/
theorem C13_release_eager (s : Fifo.S) :
    ∀ e, (Fifo.step s .acked).1.q.head? = some e → terminal e.state = false := by
  intro e he
  rw [specAcked_q] at he
  have := List.head?_dropWhile_not (fun e => terminal e.state) s.q
  rw [he] at this
  simpa using this

/-! ### the identifier-less ping requests are a FIFO as well -/

/-- a ping request has its PINGRESP -/
def answered (e : Fifo.Entry) : Bool := e.state == Fifo.PINGRESP

/-- ping requests put in flight by one operation (every `Wait(PINGREQ)` is accepted) -/
def stepPingAccepted : Op → List Fifo.Entry
  | .wait (.pingreq enc) tag => [⟨Fifo.PINGREQ, 0, 0, enc, [], tag⟩]
  | _ => []

/-- ping requests handed back by one operation -/
def stepPingReleased (s : Fifo.S) : Op → List Fifo.Entry
  | .acked => s.pings.takeWhile answered
  | _ => []

def pingAccepted : List Op → List Fifo.Entry
  | [] => []
  | op :: ops => stepPingAccepted op ++ pingAccepted ops

def pingReleased (s : Fifo.S) : List Op → List Fifo.Entry
  | [] => []
  | op :: ops => stepPingReleased s op ++ pingReleased (Fifo.step s op).1 ops

theorem answerPing_key (bytes : List UInt8) (l : List Fifo.Entry) :
    (Fifo.answerPing bytes l).map key = l.map key := by
  induction l with
  | nil => rfl
  | cons e l ih =>
    simp only [Fifo.answerPing]
    split
    · simp only [List.map_cons, ih]
    · rfl

theorem regOpt_pings (s : Fifo.S) (mtype id : Nat) (enc : Option (List UInt8)) (tag : Nat) :
    (Fifo.regOpt s mtype id enc tag).pings = s.pings := by
  cases enc with
  | none => rfl
  | some b => simp only [Fifo.regOpt, Fifo.register]; split <;> rfl

theorem step_ping_conservation (s : Fifo.S) (op : Op) :
    (stepPingReleased s op ++ (Fifo.step s op).1.pings).map key = (s.pings ++ stepPingAccepted op).map key := by
  cases op with
  | wait m tag =>
    cases m with
    | publish qos id enc =>
      simp only [stepPingReleased, stepPingAccepted, Fifo.step, List.nil_append, List.append_nil]
      split
      · rfl
      · rw [regOpt_pings]
    | subscribe id enc =>
      simp only [stepPingReleased, stepPingAccepted, Fifo.step, List.nil_append, List.append_nil, regOpt_pings]
    | unsubscribe id enc =>
      simp only [stepPingReleased, stepPingAccepted, Fifo.step, List.nil_append, List.append_nil, regOpt_pings]
    | pingreq enc => simp only [stepPingReleased, stepPingAccepted, Fifo.step, List.nil_append]
    | other => simp only [stepPingReleased, stepPingAccepted, Fifo.step, List.nil_append, List.append_nil]
  | ack t id bytes =>
    simp only [stepPingReleased, stepPingAccepted, Fifo.step, List.nil_append, List.append_nil]
    split
    · rfl
    · split
      · exact answerPing_key bytes s.pings
      · rfl
  | acked =>
    simp only [stepPingReleased, stepPingAccepted, Fifo.step, Fifo.collectPings, Fifo.collect, List.append_nil]
    exact congrArg (List.map key) (List.takeWhile_append_dropWhile (p := answered) (l := s.pings))

/-- **C13, exactly-once FIFO hand-back of ping requests.**  Ping requests carry
no identifier, so any number of them may be in flight.  Over any history the
ping requests registered equal the ping requests handed back so far followed by
those still in flight (compared on packet type, bytes and completion
callback): each is handed back at most once, in the order registered, none is
lost or overwritten by a later one, none is invented. -/
theorem C13_pings_exactly_once_fifo (s : Fifo.S) (ops : List Op) :
    (pingReleased s ops ++ (Fifo.run s ops).1.pings).map key = (s.pings ++ pingAccepted ops).map key := by
  induction ops generalizing s with
  | nil => simp [pingReleased, pingAccepted, Fifo.run]
  | cons op ops ih =>
    rw [specRun_cons]
    simp only [pingReleased, pingAccepted]
    have h1 := step_ping_conservation s op
    have h2 := ih (Fifo.step s op).1
    simp only [List.map_append] at *
    rw [List.append_assoc, h2, ← List.append_assoc, h1, List.append_assoc]

/-- Only ping requests that have their PINGRESP are handed back, and all of them
that the order permits: after a collect the oldest ping request left has none. -/
theorem C13_pings_released_answered (s : Fifo.S) (op : Op) :
    (∀ e ∈ stepPingReleased s op, answered e = true) ∧
    ∀ e, (Fifo.step s .acked).1.pings.head? = some e → answered e = false := by
  constructor
  · cases op <;> simp only [stepPingReleased, List.not_mem_nil, false_implies, implies_true]
    intro e he
    exact mem_takeWhile answered s.pings e he
  · intro e he
    simp only [Fifo.step, Fifo.collectPings, Fifo.collect] at he
    have := List.head?_dropWhile_not answered s.pings
    rw [show (List.dropWhile (fun e => e.state == Fifo.PINGRESP) s.pings) = List.dropWhile answered s.pings from rfl] at he
    rw [he] at this
    simpa using this

/-- A PINGRESP is taken by the oldest ping request that has none yet, and by no
other; the answered requests therefore always form a prefix of the FIFO.  With
no unanswered ping request in flight the PINGRESP changes nothing. -/
theorem C13_pingresp_effect (s : Fifo.S) (bytes : List UInt8) (pre post : List Fifo.Entry) (e : Fifo.Entry)
    (hpre : ∀ x ∈ pre, answered x = true) :
    (s.pings = pre ++ e :: post → answered e = false →
      (Fifo.step s (.ack Fifo.PINGRESP 0 bytes)).1.pings =
        pre ++ { e with state := Fifo.PINGRESP, ack := bytes } :: post) ∧
    (s.pings = pre → (Fifo.step s (.ack Fifo.PINGRESP 0 bytes)).1 = s) := by
  have hstep : (Fifo.step s (.ack Fifo.PINGRESP 0 bytes)).1 = { s with pings := Fifo.answerPing bytes s.pings } := by
    simp [Fifo.step, Fifo.isIdAck, Fifo.PINGRESP, Fifo.PUBACK, Fifo.PUBREC, Fifo.PUBREL, Fifo.PUBCOMP,
      Fifo.SUBACK, Fifo.UNSUBACK]
  have hskip : ∀ (pre rest : List Fifo.Entry), (∀ x ∈ pre, answered x = true) →
      Fifo.answerPing bytes (pre ++ rest) = pre ++ Fifo.answerPing bytes rest := by
    intro pre rest h
    induction pre with
    | nil => rfl
    | cons a pre ih =>
      have ha : (a.state == Fifo.PINGRESP) = true := h a (by simp)
      simp only [List.cons_append, Fifo.answerPing, ha, ↓reduceIte]
      rw [ih (fun x hx => h x (by simp [hx]))]
  constructor
  · intro hs he
    have he' : (e.state == Fifo.PINGRESP) = false := he
    rw [hstep, hs, hskip pre _ hpre]
    simp only [Fifo.answerPing, he', Bool.false_eq_true, ↓reduceIte]
  · intro hs
    rw [hstep]
    have := hskip pre [] hpre
    simp only [List.append_nil, Fifo.answerPing] at this
    rw [hs, this, ← hs]

/-- An acknowledgement changes exactly the in-flight request bearing its
identifier: that request takes the acknowledgement's type and a byte-identical
copy of it; every other request is untouched. -/
theorem C13_ack_effect (s : Fifo.S) (t id : Nat) (bytes : List UInt8)
    (ht : Fifo.isIdAck t = true) :
    (Fifo.step s (.ack t id bytes)).1.pings = s.pings ∧
    (Fifo.step s (.ack t id bytes)).1.q.length = s.q.length ∧
    ∀ (i : Nat) (e : Fifo.Entry), s.q[i]? = some e →
      (Fifo.step s (.ack t id bytes)).1.q[i]? =
        some (if e.id = id then { e with state := t, ack := bytes } else e) := by
  simp only [Fifo.step, ht, ↓reduceIte, Fifo.ackId, List.length_map, List.getElem?_map, true_and]
  intro i e he
  rw [he]; simp

/-- Acknowledgements for identifiers that are not in flight change nothing —
stated on the code-shaped queue itself: the whole state is unchanged. -/
theorem C13_unknown_ack_noop (q : Q) (hq : FullInv q) (t id : Nat) (bytes : List UInt8)
    (ht : Fifo.isIdAck t = true)
    (hid : ∀ e ∈ (abs q).q, e.id ≠ id) :
    (step q (.ack t id bytes)).1 = q := by
  have hany := any_id_iff hq.1 id
  have : ((abs q).q.any fun x => x.id == id) = false := by
    simp only [List.any_eq_false, beq_iff_eq]; exact fun e he => hid e he
  rw [this] at hany
  have hget : emapGet q.emap id = none := by
    cases h : emapGet q.emap id with
    | none => rfl
    | some i => rw [h] at hany; cases hany
  have ht' : t ∈ ackIdTypes := by rw [← facts_idack] at ht; simpa using ht
  simp [step, Q.ack, ht', hget]

/-- The tables the code switches on (regenerated from `Ack`'s and `Acked`'s
`switch` statements on every run) are the protocol's: identifier-carrying
acknowledgements, and the exchange-ending ones — in particular PUBREC, which
only ends the first half of a QoS 2 exchange, never releases a request. -/
theorem C13_tables_are_protocol :
    (∀ t, ackedReleaseStates.contains t = Fifo.terminal t) ∧
    (∀ t, ackIdTypes.contains t = Fifo.isIdAck t) ∧
    Fifo.terminal Fifo.PUBREC = false ∧ Fifo.terminal 0 = false :=
  ⟨facts_terminal, facts_idack, by decide, by decide⟩

/-! ## 3. Non-vacuity: the hypotheses are met by non-trivial reachable states -/

/-- 20 QoS 1 publishes in flight (the ring has grown from 16 to 32 slots), the
first two acknowledged out of order, then collected. -/
def demoOps : List Op :=
  (List.range 20).map (fun i => Op.wait (.publish 1 (i + 1) (some [0x32, i.toUInt8])) i) ++
  [.ack 4 2 [0x40, 2, 0, 2], .acked, .ack 4 1 [0x40, 2, 0, 1], .acked]

example : (run init demoOps).1.size = 32 ∧ (run init demoOps).1.count = 18 ∧
    (run init demoOps).2.drop 20 =
      [.ok true, .released [], .ok true,
       .released [⟨3, 4, 1, [0x32, 0], [0x40, 2, 0, 1], 0⟩,
                  ⟨3, 4, 2, [0x32, 1], [0x40, 2, 0, 2], 1⟩]] := by
  decide +kernel

example : FullInv (run init demoOps).1 := (C13_refines init fullInv_init demoOps).1

/-- three ping requests in flight, a QoS 1 publish between them; two PINGRESPs, a collect, a third
PINGRESP and a fourth with nothing outstanding, a collect -/
def demoPings : List Op :=
  [.wait (.pingreq [0xc0, 0]) 1, .wait (.pingreq [0xc0, 0]) 2, .wait (.publish 1 5 (some [0x32])) 9,
   .wait (.pingreq [0xc0, 0]) 3, .ack 13 0 [0xd0, 0], .ack 4 5 [0x40, 2, 0, 5], .ack 13 0 [0xd0, 0], .acked,
   .ack 13 0 [0xd0, 0], .ack 13 0 [0xd0, 0], .acked, .acked]

example : (run init demoPings).2.drop 7 =
      [.released [⟨12, 13, 0, [0xc0, 0], [0xd0, 0], 1⟩, ⟨12, 13, 0, [0xc0, 0], [0xd0, 0], 2⟩,
                  ⟨3, 4, 5, [0x32], [0x40, 2, 0, 5], 9⟩],
       .ok true, .ok true,
       .released [⟨12, 13, 0, [0xc0, 0], [0xd0, 0], 3⟩],
       .released []] ∧
    (run init demoPings).1.pings = [] := by
  decide +kernel

/-! The tie to the Go source (the theorems `C13_…_is_source…` over the regenerated translation
`Mqtt.Generated.Xlate`) is in `Properties/C13Source.lean`, which nothing imports. -/

end Mqtt.Properties.C13
