/-
C02 — property theorems (under construction; see DESIGN.md section 8).
-/
import Mqtt.Model.Broker
import Mqtt.Spec.Broker

namespace Mqtt.Properties.C02
end Mqtt.Properties.C02
