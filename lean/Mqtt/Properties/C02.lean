/-
C02 — Acting as receiver, every QoS 1 PUBLISH gets exactly one PUBACK, every
QoS 2 PUBLISH a PUBREC, every PUBREL a PUBCOMP; QoS 1 is handed on once per
PUBLISH received, QoS 2 exactly once per exchange, at PUBREL time, with the
content of the first PUBLISH.

Property theorems only (helper lemmas: `Proofs/BrokerQos*.lean`), stated on the
code-shaped broker model `Model/Broker.lean` for *all* broker states satisfying
the representation invariant `BInv` (proved to hold initially and to be preserved
by every `step`), all connection identifiers, packets and histories.
-/
import Mqtt.Proofs.BrokerQosFifo
import Mqtt.Proofs.BrokerQosHistory
import Mqtt.Proofs.BrokerQosPersist
import Mqtt.Proofs.BrokerQosSpec
import Mqtt.Properties.C13
import Mqtt.Proofs.BrokerRefineCor
import Mqtt.Proofs.BrokerRefineCorX

namespace Mqtt.Properties.C02

open Mqtt.Iface.Broker Mqtt.Model.Broker Mqtt.Proofs.BrokerQos
open Mqtt.Generated (tPUBREL)

/-! ## 0. Concrete states for the non-vacuity examples

Connection 1 ("a", CleanSession=0) subscribes `t` at QoS 2 and `u` at QoS 0,
an in-process callback 1000 subscribes `t` at QoS 1, connection 2 ("b",
CleanSession=1) is the publisher. -/

def connectPkt (cid : Bytes) (clean : Bool) : First :=
  .connect { protoName := [77, 81, 84, 84], version := 4, clean := clean, will := none, clientId := cid }

def demoEvs : List Ev :=
  [.first 1 (connectPkt [97] false) true,
   .first 2 (connectPkt [98] true) true,
   .packet 1 (.subscribe 1 [([116], 2), ([117], 0)]),
   .srvSub 1000 [116] 1]

def demo : B := (run {} demoEvs).1

/-! ## (a) what a hand-over is -/

/-- **(a)** Every output of `onPublish`, of its live fan-out `fanoutLive`, of the
bare subscriber loop `fanout` and of `releaseAll` is a PUBLISH written to a connection or a callback invocation —
never an acknowledgement, never a `closed` — and none of them touches the
connection table, the session objects, the session store, the session
reference counter or the subscription tree (only the retained tree and the
packet-identifier counter may change). -/
theorem onPublish_outputs (b : B) (m : Msg) (subs : List (Nat × Nat)) (l : List QEntry) :
    (Frame b (onPublish b m).1 ∧ ∀ o ∈ (onPublish b m).2.2.1, HandOver o) ∧
    (Frame b (fanoutLive b m subs).1 ∧ (fanoutLive b m subs).1.topics = b.topics ∧
      ∀ o ∈ (fanoutLive b m subs).2.2, HandOver o) ∧
    (Frame b (fanout b m subs).1 ∧ (fanout b m subs).1.topics = b.topics ∧
      ∀ o ∈ (fanout b m subs).2.2, HandOver o) ∧
    (Frame b (releaseAll b l).1 ∧ ∀ o ∈ (releaseAll b l).2, HandOver o) :=
  ⟨⟨(onPublish_frame b m).1, fun o ho => handOver_of ((onPublish_frame b m).2 o ho)⟩,
   ⟨(fanoutLive_frame b m subs).1, (fanoutLive_frame b m subs).2.1,
    fun o ho => handOver_of ((fanoutLive_frame b m subs).2.2 o ho)⟩,
   ⟨(fanout_frame b m subs).1, (fanout_frame b m subs).2.1,
    fun o ho => handOver_of ((fanout_frame b m subs).2.2 o ho)⟩,
   ⟨(releaseAll_frame b l).1, fun o ho => handOver_of ((releaseAll_frame b l).2 o ho)⟩⟩

/-- on the demo state a retained QoS 1 publish of `t` reaches connection 1 and
the in-process callback, both with RETAIN cleared; the message object has its
flag back afterwards -/
example : (onPublish demo ⟨{ qos := 1, retain := true, topic := [116], pktid := 7, payload := [1] }, false⟩).2.2.1 =
    [.send 1 (.publish { qos := 1, topic := [116], pktid := 7, payload := [1] }),
     .call 1000 { qos := 1, retain := false, topic := [116], pktid := 7, payload := [1] }] ∧
    (onPublish demo ⟨{ qos := 1, retain := true, topic := [116], pktid := 7, payload := [1] }, false⟩).2.1.p.retain = true := by
  decide

/-! ## The representation invariant

`BInv b` (`Proofs/BrokerQosInv.lean`): session references are pairwise distinct
and below the counter new sessions draw from; the session reference of every
connection in the table resolves to a session object; every session's inbound
QoS 2 queue has pairwise distinct identifiers, entry states "waiting" (0) or
"PUBREL seen" only, and an oldest entry that is still waiting. -/

/-- The invariant holds in the initial broker and is preserved by every event —
hence in every reachable state. -/
theorem C02_inv :
    BInv ({} : B) ∧ (∀ b ev, BInv b → BInv (step b ev).1) ∧ (∀ b evs, BInv b → BInv (run b evs).1) :=
  ⟨inv_init, fun _ ev h => step_inv h ev, fun _ evs h => run_inv h evs⟩

example : BInv demo := run_inv inv_init demoEvs

/-- under the invariant a live connection has a session object -/
theorem C02_live_session (b : B) (hI : BInv b) (c : Nat) (hl : b.alive c = true) :
    ∃ s, sessOf b c = some s := by
  obtain ⟨cn, s, hc, _, hs, _⟩ := hI.live hl
  exact ⟨s, sessOf_eq hc hs⟩

/-! ## (b) QoS 1 and QoS 0 PUBLISH -/

/-- **(b)** On a live connection a QoS 1 PUBLISH is answered by `PUBACK` with its
identifier as the *first* output, this is the only acknowledgement among the
outputs, and the remaining outputs and the new state are exactly those of one
`onPublish` of the received message — one hand-over per PUBLISH received (a
repeated PUBLISH, DUP or not, is handed on again: QoS 1 is at-least-once).  A
QoS 0 PUBLISH produces exactly the outputs of `onPublish`, no acknowledgement. -/
theorem C02_qos1 (b : B) (hI : BInv b) (c : Nat) (hl : b.alive c = true) (p : Pub) :
    (p.qos = 1 →
      packet b c (.publish p) =
        ((onPublish b ⟨p, false⟩).1, .send c (.puback p.pktid) :: (onPublish b ⟨p, false⟩).2.2.1) ∧
      (packet b c (.publish p)).2.filter isAck = [.send c (.puback p.pktid)]) ∧
    (p.qos = 0 →
      packet b c (.publish p) = ((onPublish b ⟨p, false⟩).1, (onPublish b ⟨p, false⟩).2.2.1) ∧
      (packet b c (.publish p)).2.filter isAck = []) := by
  obtain ⟨cn, s, hc, ha, hs, _⟩ := hI.live hl
  have hf := filter_isAck_handOvers (onPublish_frame b ⟨p, false⟩).2
  constructor
  · intro hq
    rw [packet_publish1 hc ha hs p hq]
    refine ⟨rfl, ?_⟩
    simp only [List.filter_cons, isAck, ↓reduceIte, hf]
  · intro hq
    rw [packet_publish0 hc ha hs p hq]
    exact ⟨rfl, hf⟩

/-- connection 2 publishes `t` at QoS 1 with identifier 7: PUBACK 7 first, then
the two hand-overs (connection 1 at QoS 1, callback 1000) -/
example : (packet demo 2 (.publish { qos := 1, topic := [116], pktid := 7, payload := [1] })).2 =
    [.send 2 (.puback 7),
     .send 1 (.publish { qos := 1, topic := [116], pktid := 7, payload := [1] }),
     .call 1000 { qos := 1, topic := [116], pktid := 7, payload := [1] }] ∧
    demo.alive 2 = true := by
  decide

/-! ## (c) QoS 2 PUBLISH -/

/-- **(c)** On a live connection a QoS 2 PUBLISH is answered by exactly
`[PUBREC id]` — nothing is handed on at PUBLISH time — and the only change of
state is that the session's inbound queue becomes `q2Wait pub2in p`: unchanged
if an exchange with this identifier is already open (the stored content stays
that of the *first* PUBLISH), otherwise the new exchange is appended at the back
in state "waiting" with the content of this PUBLISH. -/
theorem C02_qos2_publish (b : B) (hI : BInv b) (c : Nat) (hl : b.alive c = true) (p : Pub) (hq : p.qos = 2) :
    ∃ s, sessOf b c = some s ∧
      packet b c (.publish p) =
        (b.setSess { s with pub2in := q2Wait s.pub2in p }, [.send c (.pubrec p.pktid)]) ∧
      sessOf (packet b c (.publish p)).1 c = some { s with pub2in := q2Wait s.pub2in p } ∧
      ((s.pub2in.any fun e => e.id == p.pktid) = true → q2Wait s.pub2in p = s.pub2in) ∧
      ((s.pub2in.any fun e => e.id == p.pktid) = false → q2Wait s.pub2in p = s.pub2in ++ [⟨p.pktid, 0, p⟩]) := by
  obtain ⟨cn, s, hc, ha, hs, _⟩ := hI.live hl
  refine ⟨s, sessOf_eq hc hs, packet_publish2 hc ha hs p hq, ?_, q2Wait_open _ p, q2Wait_new _ p⟩
  rw [packet_publish2 hc ha hs p hq]
  exact sessOf_after hc hs _ (Frame.refl _)

/-- PUBLISH id 5, a DUP repetition with another payload, PUBLISH id 6: two
PUBRECs for 5, one for 6, nothing handed on, and the queue holds the first
content of 5 followed by 6 -/
example :
    let evs : List Ev :=
      [.packet 2 (.publish { qos := 2, topic := [116], pktid := 5, payload := [1] }),
       .packet 2 (.publish { dup := true, qos := 2, topic := [116], pktid := 5, payload := [2] }),
       .packet 2 (.publish { qos := 2, topic := [116], pktid := 6, payload := [3] })]
    (run demo evs).2 = [[.send 2 (.pubrec 5)], [.send 2 (.pubrec 5)], [.send 2 (.pubrec 6)]] ∧
    (sessOf (run demo evs).1 2).map (·.pub2in) =
      some [⟨5, 0, { qos := 2, topic := [116], pktid := 5, payload := [1] }⟩,
            ⟨6, 0, { qos := 2, topic := [116], pktid := 6, payload := [3] }⟩] := by
  decide

/-! ## (d) PUBREL and PUBREC -/

/-- `releaseAll` hands the released entries on one by one, oldest first: for each
entry exactly the outputs of `onPublish` of its stored content (on the state the
previous hand-overs left). -/
theorem C02_releaseAll (b : B) (e : QEntry) (l : List QEntry) :
    releaseAll b [] = (b, []) ∧
    releaseAll b (e :: l) =
      ((releaseAll (onPublish b ⟨e.msg, false⟩).1 l).1,
       (onPublish b ⟨e.msg, false⟩).2.2.1 ++ (releaseAll (onPublish b ⟨e.msg, false⟩).1 l).2) :=
  ⟨rfl, rfl⟩

/-- **(d)** On a live connection a PUBREL marks the open exchange with its
identifier, takes the longest PUBREL-marked prefix `rel` off the session's
inbound queue, hands the entries of `rel` on (`releaseAll`), and then writes
exactly one `PUBCOMP id`, which is the *last* output and the only
acknowledgement among the outputs.  `rel` followed by what stays queued is the
marked queue, and everything in `rel` is PUBREL-marked.  An identifier without
an open exchange releases nothing, leaves the queue as it is, and still gets
its PUBCOMP. -/
theorem C02_pubrel (b : B) (hI : BInv b) (c : Nat) (hl : b.alive c = true) (id : Nat) :
    ∃ s, sessOf b c = some s ∧
      let rest := (q2Acked (q2Ack s.pub2in id)).1
      let rel := (q2Acked (q2Ack s.pub2in id)).2
      let b1 := b.setSess { s with pub2in := rest }
      packet b c (.pubrel id) = ((releaseAll b1 rel).1, (releaseAll b1 rel).2 ++ [.send c (.pubcomp id)]) ∧
      (packet b c (.pubrel id)).2.getLast? = some (.send c (.pubcomp id)) ∧
      (packet b c (.pubrel id)).2.filter isAck = [.send c (.pubcomp id)] ∧
      sessOf (packet b c (.pubrel id)).1 c = some { s with pub2in := rest } ∧
      rel ++ rest = q2Ack s.pub2in id ∧ (∀ e ∈ rel, e.state = tPUBREL) ∧
      ((∀ e ∈ s.pub2in, e.id ≠ id) →
        rel = [] ∧ rest = s.pub2in ∧ (packet b c (.pubrel id)).2 = [.send c (.pubcomp id)]) := by
  obtain ⟨cn, s, hc, ha, hs, _⟩ := hI.live hl
  have hq : QInv s.pub2in := by
    have := hI.queues cn.sess
    simpa [pub2inOf, hs] using this
  refine ⟨s, sessOf_eq hc hs, ?_⟩
  simp only
  have hp := packet_pubrel hc ha hs id
  have hf := releaseAll_frame (b.setSess { s with pub2in := (q2Acked (q2Ack s.pub2in id)).1 })
    (q2Acked (q2Ack s.pub2in id)).2
  refine ⟨hp, ?_, ?_, ?_, q2Acked_append _, ?_, ?_⟩
  · rw [hp]; simp
  · rw [hp]
    simp only [List.filter_append, filter_isAck_handOvers hf.2, List.nil_append, List.filter_cons,
      List.filter_nil, isAck, ↓reduceIte]
  · rw [hp]; exact sessOf_after hc hs _ hf.1
  · exact q2Acked_rel_marked _
  · intro hno
    rw [hp, q2Ack_unknown _ _ hno, q2Acked_headOpen hq]
    exact ⟨rfl, rfl, rfl⟩

/-- a PUBREC is answered by exactly `[PUBREL id]`; nothing else changes -/
theorem C02_pubrec (b : B) (hI : BInv b) (c : Nat) (hl : b.alive c = true) (id : Nat) :
    packet b c (.pubrec id) = (b, [.send c (.pubrel id)]) := by
  obtain ⟨cn, s, hc, ha, hs, _⟩ := hI.live hl
  exact packet_pubrec hc ha hs id

/-- exchanges 5 and 6 open (contents [1] and [3]); PUBREL 6 first: PUBCOMP 6 only,
nothing handed on (5 is older and still open); PUBREL 9 (never opened): PUBCOMP 9
only; PUBREL 5: both handed on in opening order with their first contents, then
PUBCOMP 5; a repeated PUBREL 5: PUBCOMP 5 only; PUBREC 3: PUBREL 3 -/
example :
    let evs : List Ev :=
      [.packet 2 (.publish { qos := 2, topic := [116], pktid := 5, payload := [1] }),
       .packet 2 (.publish { dup := true, qos := 2, topic := [116], pktid := 5, payload := [2] }),
       .packet 2 (.publish { qos := 2, topic := [116], pktid := 6, payload := [3] }),
       .packet 2 (.pubrel 6), .packet 2 (.pubrel 9), .packet 2 (.pubrel 5), .packet 2 (.pubrel 5),
       .packet 2 (.pubrec 3)]
    (run demo evs).2.drop 3 =
      [[.send 2 (.pubcomp 6)], [.send 2 (.pubcomp 9)],
       [.send 1 (.publish { qos := 2, topic := [116], pktid := 5, payload := [1] }),
        .call 1000 { qos := 1, topic := [116], pktid := 5, payload := [1] },
        .send 1 (.publish { qos := 2, topic := [116], pktid := 6, payload := [3] }),
        .call 1000 { qos := 1, topic := [116], pktid := 6, payload := [3] },
        .send 2 (.pubcomp 5)],
       [.send 2 (.pubcomp 5)], [.send 2 (.pubrel 3)]] ∧
    (sessOf (run demo evs).1 2).map (·.pub2in) = some [] := by
  decide

/-! ## (f) the inbound QoS 2 list is the ack queue of Core C

The broker model keeps `Pub2in` as a list with `q2Wait`/`q2Ack`/`q2Acked`.
Under the projection `proj enc ackb` (request bytes `enc msg`, PUBREL bytes
`ackb id`, no completion callback) these are `Fifo.register`, `Fifo.ackId` with
a PUBREL and `Fifo.collect` of the FIFO specification — and `C13_refines` says
the ring-based `Ackqueue` of `sessions/ackqueue.go` refines that specification.
`States q` (entry states are 0 or PUBREL) is part of `BInv`. -/

open Mqtt.Spec in
/-- **(f), simulation.**  Each list operation is the FIFO specification's
operation on the projected queue, and so is every history of them
(`Fifo.run` on the interface operations `toOp`), outputs included. -/
theorem C02_pub2in_is_fifo (enc : Pub → List UInt8) (ackb : Nat → List UInt8) (q : List QEntry)
    (hq : States q) :
    (∀ pg p, Fifo.register ⟨q.map (proj enc ackb), pg⟩ ⟨Fifo.PUBLISH, 0, p.pktid, enc p, [], 0⟩ =
        ⟨(q2Wait q p).map (proj enc ackb), pg⟩) ∧
    (∀ pg id, Fifo.ackId ⟨q.map (proj enc ackb), pg⟩ Fifo.PUBREL id (ackb id) =
        ⟨(q2Ack q id).map (proj enc ackb), pg⟩) ∧
    (∀ pg, Fifo.collect ⟨q.map (proj enc ackb), pg⟩ =
        (⟨(q2Acked q).1.map (proj enc ackb), pg⟩, (q2Acked q).2.map (proj enc ackb))) ∧
    (∀ ops : List QOp,
      (Fifo.run ⟨q.map (proj enc ackb), []⟩ (ops.map (toOp enc ackb))).1 =
        ⟨(qrun q ops).1.map (proj enc ackb), []⟩ ∧
      (Fifo.run ⟨q.map (proj enc ackb), []⟩ (ops.map (toOp enc ackb))).2 =
        (List.zip (qrun q ops).2 ops).map (fun x => qout enc ackb x.1 x.2) ∧
      States (qrun q ops).1) :=
  ⟨fun pg p => sim_register enc ackb q pg p, fun pg id => sim_ackId enc ackb q pg id,
   fun pg => sim_collect enc ackb q hq pg, fun ops => sim_run enc ackb q hq ops⟩

/-- what the broker does to the queue per packet is one `Wait`, resp. one `Ack`
followed by `Acked`; and in every state satisfying the invariant the queues
meet the side condition of the simulation -/
theorem C02_pub2in_ops (b : B) (hI : BInv b) (r : Nat) (q : List QEntry) (p : Pub) (id : Nat) :
    States (pub2inOf b r) ∧
    (p.qos = 2 → newQ (.publish p) q = (qstep q (.wait p)).1) ∧
    newQ (.pubrel id) q = (qstep (qstep q (.ack id)).1 .acked).1 ∧
    (q2Acked (q2Ack q id)).2 = (qstep (qstep q (.ack id)).1 .acked).2 :=
  ⟨(hI.queues r).states, fun h => by simp [newQ, qstep, h], rfl, rfl⟩

open Mqtt.Model.AckQueue Mqtt.Proofs.AckQueue in
/-- **(f), composed with C13.**  Starting from the queue a session creates, after
any history of `Wait`(QoS 2 PUBLISH) / `Ack`(PUBREL) / `Acked` calls the
abstraction of the ring-based ack queue *is* the projection of the list the
broker model keeps, and every `Acked` hands back the projection of the entries
the list releases. -/
theorem C02_pub2in_is_ackqueue (enc : Pub → List UInt8) (ackb : Nat → List UInt8) (ops : List QOp) :
    abs (Mqtt.Model.AckQueue.run init (ops.map (toOp enc ackb))).1 =
      ⟨(qrun [] ops).1.map (proj enc ackb), []⟩ ∧
    (Mqtt.Model.AckQueue.run init (ops.map (toOp enc ackb))).2.map C13.outAbs =
      (List.zip (qrun [] ops).2 ops).map (fun x => qout enc ackb x.1 x.2) := by
  obtain ⟨h1, h2⟩ := C13.C13_refines_init (ops.map (toOp enc ackb))
  obtain ⟨s1, s2, _⟩ := sim_run enc ackb [] (by intro e he; cases he) ops
  exact ⟨h1.trans s1, h2.trans s2⟩

/-- the ring-based queue and the list side by side on a history with a repeated
PUBLISH and out-of-order PUBRELs -/
example :
    let enc : Pub → List UInt8 := fun p => p.topic ++ p.payload
    let ackb : Nat → List UInt8 := fun id => [0x62, 2, 0, id.toUInt8]
    let p5 : Pub := { qos := 2, topic := [116], pktid := 5, payload := [1] }
    let p5' : Pub := { dup := true, qos := 2, topic := [116], pktid := 5, payload := [2] }
    let p6 : Pub := { qos := 2, topic := [116], pktid := 6, payload := [3] }
    let ops : List QOp := [.wait p5, .wait p5', .wait p6, .ack 6, .acked, .ack 5, .acked]
    (qrun [] ops).2 = [[], [], [], [], [], [], [⟨5, 6, p5⟩, ⟨6, 6, p6⟩]] ∧
    (Mqtt.Model.AckQueue.run Mqtt.Model.AckQueue.init (ops.map (toOp enc ackb))).2.map C13.outAbs =
      [.ok true, .ok true, .ok true, .ok true, .released [], .ok true,
       .released [⟨3, 6, 5, [116, 1], [0x62, 2, 0, 5], 0⟩, ⟨3, 6, 6, [116, 3], [0x62, 2, 0, 6], 0⟩]] := by
  decide +kernel

/-! ## (e) exactly once over histories

Indexed by the session object `r` whose inbound queue holds the open
exchanges: `bound b c r` says that connection `c` is live and bound to `r`.
(A connection is bound to one session object for its whole life; a persistent
session object outlives its connections, and with overlapping client
identifiers — E4 — two live connections can share one.)

* `stepOpened b r ev` — the exchange `ev` opens on `r`: a QoS 2 PUBLISH on a
  connection bound to `r` whose identifier has no open exchange;
* `stepHanded b r ev` — the contents `ev` takes off the queue of `r` and hands
  on: the prefix released by a PUBREL on a connection bound to `r`
  (`C02_handed_is_output`: these are exactly the hand-overs among the outputs of
  that step, and by `C02_qos2_publish` a PUBLISH step hands on nothing);
* `opened`, `handed` — accumulated along a history. -/

/-- **Isolation.**  Only a packet on a live connection bound to session object
`r` can change the inbound QoS 2 queue of `r`: a QoS 2 PUBLISH (`q2Wait`) or a
PUBREL (mark, drop the released prefix).  Every other event — any packet on a
connection bound to another session, first packets (a resumed session keeps
its queue, a new session object gets a fresh reference), connection ends,
wills, the in-process API — leaves it exactly as it is. -/
theorem C02_queue_frame (b : B) (hI : BInv b) (ev : Ev) (r : Nat) :
    pub2inOf (step b ev).1 r =
      match ev with
      | .packet c p => if bound b c r then newQ p (pub2inOf b r) else pub2inOf b r
      | _ => pub2inOf b r :=
  step_pub2in hI ev r

/-- **(e) Exactly once, in order, first content.**  Over any history of events
on any connections, for every session object: the contents handed over by
PUBREL steps so far, followed by the contents of the exchanges still open, are
the contents already queued at the start followed by the first PUBLISH of every
exchange opened since, in opening order.  Hence every exchange is handed over
at most once, none is lost or invented, the hand-over happens in a PUBREL step
(never at PUBLISH time), in opening order, and what is handed over is the
content of the exchange's first PUBLISH — whatever else arrives in between on
this or any other connection. -/
theorem C02_exactly_once (b : B) (hI : BInv b) (evs : List Ev) (r : Nat) :
    handed b r evs ++ (pub2inOf (run b evs).1 r).map (·.msg) =
      (pub2inOf b r).map (·.msg) ++ opened b r evs :=
  run_conservation hI evs r

/-- … from the initial broker: handed over ++ still open = opened. -/
theorem C02_exactly_once_init (evs : List Ev) (r : Nat) :
    handed {} r evs ++ (pub2inOf (run {} evs).1 r).map (·.msg) = opened {} r evs := by
  have := run_conservation inv_init evs r
  simpa [pub2inOf, B.getSess] using this

/-- The contents `stepHanded` counts for a PUBREL step are exactly what that
step hands on: its outputs are `releaseAll` of the released entries (for each
its `onPublish` outputs, `C02_releaseAll`) followed by the PUBCOMP. -/
theorem C02_handed_is_output (b : B) (hI : BInv b) (c r id : Nat) (hb : bound b c r = true) :
    ∃ s, sessOf b c = some s ∧ s.ref = r ∧ pub2inOf b r = s.pub2in ∧
      let rel := (q2Acked (q2Ack s.pub2in id)).2
      let b1 := b.setSess { s with pub2in := (q2Acked (q2Ack s.pub2in id)).1 }
      (step b (.packet c (.pubrel id))).2 = (releaseAll b1 rel).2 ++ [.send c (.pubcomp id)] ∧
      rel.map (·.msg) = stepHanded b r (.packet c (.pubrel id)) := by
  obtain ⟨_, cn, s, hc, ha, hs, _, hr, hq⟩ := bound_sess hI hb
  refine ⟨s, sessOf_eq hc hs, hr, hq, ?_, ?_⟩
  · simp only [step]; rw [packet_pubrel hc ha hs id]
  · simp [stepHanded, hb, hq]

/-- **(e) Eager release.**  (1) In every reachable state the oldest open exchange
of every session has not had its PUBREL (so nothing that could be handed over
is ever left waiting).  (2) If every older open exchange is PUBREL-marked, the
PUBREL of exchange `e` hands `e` over in that very step.  (3) If after a PUBREL
an exchange with its identifier is still open, it is marked and the oldest open
exchange is another one that is still waiting for its PUBREL (FIFO head
blocking — the documented deferral). -/
theorem C02_release_eager (b : B) (hI : BInv b) (r : Nat) :
    (∀ evs e, (pub2inOf (run b evs).1 r).head? = some e → e.state = 0) ∧
    (∀ c pre e post, bound b c r = true → pub2inOf b r = pre ++ e :: post →
      (∀ x ∈ pre, x.state = tPUBREL) →
      stepHanded b r (.packet c (.pubrel e.id)) =
        pre.map (·.msg) ++ e.msg ::
          ((q2Ack post e.id).takeWhile fun x => x.state == tPUBREL).map (·.msg)) ∧
    (∀ c id, bound b c r = true →
      ∀ x ∈ pub2inOf (step b (.packet c (.pubrel id))).1 r, x.id = id →
        x.state = tPUBREL ∧
        ∃ h, (pub2inOf (step b (.packet c (.pubrel id))).1 r).head? = some h ∧ h.state = 0 ∧ h.id ≠ id) := by
  refine ⟨?_, ?_, ?_⟩
  · intro evs e he
    have hq := (run_inv hI evs).queues r
    rcases hq.states e (List.mem_of_mem_head? he) with h | h
    · exact h
    · exact absurd h (hq.head e he)
  · intro c pre e post hb hq hpre
    simp only [stepHanded, hb, ↓reduceIte, hq]
    rw [q2Acked_release pre post e e.id hpre rfl]
    simp
  · intro c id hb
    rw [step_pub2in hI _ r]
    simp only [hb, ↓reduceIte, newQ]
    exact pubrel_blocked (hI.queues r) id

/-- Connection 2 (session object 2) opens 5 and 6 while connection 1 opens its
own exchange 5 (session object 1), a DUP of 5 with another payload arrives, the
in-process API publishes, connection 1 subscribes more; PUBREL 6 then PUBREL 5
on connection 2.  Session 2: opened = handed = [first 5, 6]; session 1:
exchange 5 still open. -/
example :
    let p5 : Pub := { qos := 2, topic := [116], pktid := 5, payload := [1] }
    let p6 : Pub := { qos := 2, topic := [116], pktid := 6, payload := [3] }
    let o5 : Pub := { qos := 2, topic := [117], pktid := 5, payload := [9] }
    let evs : List Ev :=
      [.packet 2 (.publish p5), .packet 1 (.publish o5),
       .packet 2 (.publish { p5 with dup := true, payload := [2] }),
       .srvPub { qos := 0, topic := [116], payload := [7] },
       .packet 2 (.publish p6), .packet 1 (.subscribe 2 [([118], 1)]),
       .packet 2 (.pubrel 6), .packet 1 (.pingreq), .packet 2 (.pubrel 5)]
    bound demo 2 2 = true ∧ bound demo 1 1 = true ∧
    opened demo 2 evs = [p5, p6] ∧ handed demo 2 evs = [p5, p6] ∧ pub2inOf (run demo evs).1 2 = [] ∧
    opened demo 1 evs = [o5] ∧ handed demo 1 evs = [] ∧ pub2inOf (run demo evs).1 1 = [⟨5, 0, o5⟩] := by
  decide

/-! ## (g) persistence of open exchanges -/

/-- **(g), end of connection.**  When a live connection bound to a session object
kept with CleanSession=0 ends — socket closed / keep-alive expiry (`close`) or a
DISCONNECT packet — the session store is unchanged and the session object is
still there with its client identifier, CleanSession=0 and the same inbound
QoS 2 queue.  (Whatever the will does in between: `onPublish` cannot touch
sessions, (a).) -/
theorem C02_persist_stop (b : B) (hI : BInv b) (c r : Nat) (hb : bound b c r = true) (s : Sess)
    (hs : b.getSess r = some s) (hcl : s.clean = false) (ev : Ev)
    (hev : ev = .close c ∨ ev = .packet c .disconnect) :
    (step b ev).1.store = b.store ∧
    ∃ s', (step b ev).1.getSess r = some s' ∧ s'.clean = false ∧ s'.cid = s.cid ∧ s'.pub2in = s.pub2in := by
  obtain ⟨_, cn, s0, hc, ha, hs0, hr, _, _⟩ := bound_sess hI hb
  subst hr
  rw [hs] at hs0; cases hs0
  rcases hev with rfl | rfl
  · obtain ⟨h1, s', h2, h3, h4, h5, _⟩ := stop_persist hc ha hs hcl
    exact ⟨h1, s', h2, h3, h4, h5⟩
  · obtain ⟨h1, s', h2, h3, h4, h5, _⟩ := disconnect_persist hc ha hs hcl
    exact ⟨h1, s', h2, h3, h4, h5⟩

/-- **(g), resumption.**  An accepted CONNECT with CleanSession=0 whose client
identifier the store maps to a session object kept with CleanSession=0 is
answered `CONNACK(SP=1, 0)`, and the new connection is live and bound to that
same session object, whose inbound QoS 2 queue — the open exchanges — is
unchanged: the PUBRELs of the new connection complete them (`C02_pubrel`). -/
theorem C02_resume (b : B) (c : Nat) (req : Connect) (r : Nat) (s : Sess)
    (hd : connectDecode req = .inr true) (hne : req.clientId.isEmpty = false) (hcl : req.clean = false)
    (hst : b.storeGet req.clientId = some r) (hs : b.getSess r = some s) (hsc : s.clean = false) :
    (first b c (.connect req) true).2 = [.send c (.connack true 0)] ∧
    bound (first b c (.connect req) true).1 c r = true ∧
    pub2inOf (first b c (.connect req) true).1 r = s.pub2in ∧
    ∃ s', sessOf (first b c (.connect req) true).1 c = some s' ∧ s'.ref = r ∧ s'.pub2in = s.pub2in :=
  first_resume c req r s hd hne hcl hst hs hsc

/-- **(g), both together.**  Exchanges open on a CleanSession=0 session when its
connection ends are open on the connection that next resumes the session. -/
theorem C02_persist (b : B) (hI : BInv b) (c r : Nat) (hb : bound b c r = true) (s : Sess)
    (hs : b.getSess r = some s) (hcl : s.clean = false) (ev : Ev)
    (hev : ev = .close c ∨ ev = .packet c .disconnect)
    (c' : Nat) (req : Connect) (hd : connectDecode req = .inr true)
    (hne : req.clientId.isEmpty = false) (hrc : req.clean = false)
    (hst : b.storeGet req.clientId = some r) :
    let b1 := (step b ev).1
    (first b1 c' (.connect req) true).2 = [.send c' (.connack true 0)] ∧
    bound (first b1 c' (.connect req) true).1 c' r = true ∧
    pub2inOf (first b1 c' (.connect req) true).1 r = pub2inOf b r := by
  obtain ⟨h1, s', h2, h3, _, h5⟩ := C02_persist_stop b hI c r hb s hs hcl ev hev
  have hst' : (step b ev).1.storeGet req.clientId = some r := by
    unfold B.storeGet at hst ⊢; rw [h1]; exact hst
  obtain ⟨g1, g2, g3, _⟩ := first_resume c' req r s' hd hne hrc hst' h2 h3
  refine ⟨g1, g2, ?_⟩
  rw [g3, h5]; simp [pub2inOf, hs]

/-- **(g), clean start.**  An accepted CONNECT with CleanSession=1 is answered
`CONNACK(SP=0, 0)` and the new connection is bound to a new session object (the
next fresh reference) whose inbound QoS 2 queue is empty; by `C02_queue_frame`
no existing queue is changed. -/
theorem C02_clean_start (b : B) (c : Nat) (req : Connect)
    (hd : connectDecode req = .inr true) (hcl : req.clean = true) :
    (first b c (.connect req) true).2 = [.send c (.connack false 0)] ∧
    bound (first b c (.connect req) true).1 c b.nextRef = true ∧
    ∃ s', sessOf (first b c (.connect req) true).1 c = some s' ∧ s'.ref = b.nextRef ∧ s'.pub2in = [] := by
  apply first_fresh c req hd
  have : (cidOf c req).2 = true := by
    unfold cidOf; split <;> simp [hcl]
  rw [this]; rfl

/-- Connection 1 ("a", CleanSession=0, session object 1) has exchange 5 open when
its socket closes; connection 3 resumes "a": SP=1, exchange 5 still open with
its content; PUBREL 5 on connection 3 hands it on (to the callback, and to
connection 3 itself, for which the session's subscription to `t` was
re-established) and is answered PUBCOMP 5.  Connection 4 then connects as "a" with CleanSession=1:
connection 3 is disconnected (MQTT-3.1.4-2), SP=0, new session object 3 with an empty queue. -/
example :
    let p5 : Pub := { qos := 2, topic := [116], pktid := 5, payload := [1] }
    let evs : List Ev :=
      [.packet 1 (.publish p5), .close 1, .first 3 (connectPkt [97] false) true]
    let b3 := (run demo evs).1
    (run demo evs).2 = [[.send 1 (.pubrec 5)], [.closed 1], [.send 3 (.connack true 0)]] ∧
    bound b3 3 1 = true ∧ pub2inOf b3 1 = [⟨5, 0, p5⟩] ∧
    (step b3 (.packet 3 (.pubrel 5))).2 =
      [.call 1000 { p5 with qos := 1 }, .send 3 (.publish p5), .send 3 (.pubcomp 5)] ∧
    (step b3 (.first 4 (connectPkt [97] true) true)).2 = [.closed 3, .send 4 (.connack false 0)] ∧
    bound (step b3 (.first 4 (connectPkt [97] true) true)).1 4 3 = true ∧
    pub2inOf (step b3 (.first 4 (connectPkt [97] true) true)).1 3 = [] := by
  decide

/-! ## The reference broker agrees

`Spec/Broker.lean` (written from MQTT 3.1.1, not from the code) keeps the open
exchanges of a connection as `open2 : List (id, PUBREL seen, first PUBLISH)`.
`toOpen2` reads the model's queue that way. -/

open Mqtt.Spec.Broker in
/-- Step simulation on the QoS 2 part: if the reference broker's `open2` of
connection `c` is the model's queue, then on a QoS 2 PUBLISH both answer exactly
`[PUBREC id]`, on a PUBREL the model hands on `releaseAll` of the released entries
and the reference broker accepts exactly their contents in the same order, both
followed by `PUBCOMP id` — and afterwards `open2` is again the model's queue. -/
theorem C02_reference_open2 (b : B) (hI : BInv b) (c : Nat) (hl : b.alive c = true) (s : Sess)
    (hs : sessOf b c = some s) (ss : S) (scn : Spec.Broker.Conn) (hc : getConn ss c = some scn)
    (ho : scn.open2 = toOpen2 s.pub2in) :
    (∀ p : Pub, p.qos = 2 →
      (packet b c (.publish p)).2 = [.send c (.pubrec p.pktid)] ∧
      (step1 ss (.packet c (.publish p))).2 = [.send c (.pubrec p.pktid)] ∧
      ∃ s' scn', sessOf (packet b c (.publish p)).1 c = some s' ∧
        getConn (step1 ss (.packet c (.publish p))).1 c = some scn' ∧ scn'.open2 = toOpen2 s'.pub2in) ∧
    (∀ id : Nat,
      let rel := (q2Acked (q2Ack s.pub2in id)).2
      let rest := (q2Acked (q2Ack s.pub2in id)).1
      (packet b c (.pubrel id)).2 =
        (releaseAll (b.setSess { s with pub2in := rest }) rel).2 ++ [.send c (.pubcomp id)] ∧
      (step1 ss (.packet c (.pubrel id))).2 =
        (specReleaseAll (setConn ss { scn with open2 := toOpen2 rest }) (rel.map (·.msg))).2 ++
          [.send c (.pubcomp id)] ∧
      ∃ s' scn', sessOf (packet b c (.pubrel id)).1 c = some s' ∧
        getConn (step1 ss (.packet c (.pubrel id))).1 c = some scn' ∧ scn'.open2 = toOpen2 s'.pub2in) := by
  constructor
  · intro p hq
    obtain ⟨s0, h0, h1, h2, _⟩ := C02_qos2_publish b hI c hl p hq
    rw [hs] at h0; cases h0
    obtain ⟨g1, scn', g2, g3⟩ := spec_publish2 ss c scn s.pub2in p hc ho hq
    exact ⟨by rw [h1], g1, _, scn', h2, g2, g3⟩
  · intro id
    obtain ⟨s0, h0, h1, _, _, h4, _⟩ := C02_pubrel b hI c hl id
    rw [hs] at h0; cases h0
    obtain ⟨g1, scn', g2, g3⟩ := spec_pubrel ss c scn s.pub2in id hc ho
    exact ⟨by rw [h1], g1, _, scn', h4, g2, g3⟩

/-- the hypotheses are met along a run of both machines: after the demo events,
two QoS 2 PUBLISHes and an out-of-order PUBREL on connection 2, the reference
broker's `open2` is the model's queue (5 waiting, 6 marked) -/
example :
    let evs : List Ev := demoEvs ++
      [.packet 2 (.publish { qos := 2, topic := [116], pktid := 5, payload := [1] }),
       .packet 2 (.publish { qos := 2, topic := [116], pktid := 6, payload := [3] }),
       .packet 2 (.pubrel 6)]
    let b := (run {} evs).1
    let ss := evs.foldl (fun s e => (Mqtt.Spec.Broker.step s e).1) {}
    b.alive 2 = true ∧
    (Mqtt.Spec.Broker.getConn ss 2).map (·.open2) = (sessOf b 2).map (fun s => toOpen2 s.pub2in) ∧
    (sessOf b 2).map (fun s => toOpen2 s.pub2in) =
      some [(5, false, { qos := 2, topic := [116], pktid := 5, payload := [1] }),
            (6, true, { qos := 2, topic := [116], pktid := 6, payload := [3] })] := by
  decide +kernel

/-! ### the refinement theorem, specialised: the inbound QoS 2 exchange after any history -/

open Mqtt.Proofs.BrokerRefine (okRun specRun pubOk liveSess Fan) in
open Mqtt.Spec.Broker (Accepts) in
/-- **Refinement (Proofs/BrokerRefine.lean: `Broker_refines_spec`) for C02
(receiver side).**  After any history admitted by `okRun` (see
C01_refines_reference for the side condition; reconnects of CleanSession=0
clients included) and for a live connection `c`: the open inbound QoS 2
exchanges the reference broker keeps for `c` are the image of the model's queue
(`toOpen2`: identifier, PUBREL seen, first PUBLISH - in order of opening); a
PUBLISH with QoS 2 is answered by PUBREC and nothing else on both sides; PUBLISH
(QoS 1, 2) and PUBREL are accepted by the reference broker (`Accepts`), and for
PUBREL explicitly: the model's outputs are hand-overs followed by PUBCOMP, the
reference broker's are its `accept`s of the released exchanges - every exchange
whose PUBREL has arrived and that is not behind a still-open earlier one, in
order of opening - followed by PUBCOMP, and the hand-overs are a fan-out of
those (`Fan`: every subscriber gets exactly the copies demanded for it). -/
theorem C02_refines_reference (es : List Ev) (hok : okRun {} es = true) (c : Nat)
    (hl : (run {} es).1.alive c = true) :
    (∀ p : Pub, pubOk p = true →
      Accepts (Mqtt.Spec.Broker.step (specRun {} es).1 (.packet c (.publish p))).2
        (step (run {} es).1 (.packet c (.publish p))).2) ∧
    (∀ id, Accepts (Mqtt.Spec.Broker.step (specRun {} es).1 (.packet c (.pubrel id))).2
      (step (run {} es).1 (.packet c (.pubrel id))).2) ∧
    ∃ σ k, liveSess (run {} es).1 c = some σ ∧ Mqtt.Spec.Broker.getConn (specRun {} es).1 c = some k ∧
      k.open2 = toOpen2 σ.pub2in ∧
      (∀ p : Pub, p.qos = 2 → (step (run {} es).1 (.packet c (.publish p))).2 = [.send c (.pubrec p.pktid)] ∧
        (Mqtt.Spec.Broker.step (specRun {} es).1 (.packet c (.publish p))).2 = [.send c (.pubrec p.pktid)]) ∧
      (∀ id, ∃ outs,
        (step (run {} es).1 (.packet c (.pubrel id))).2 = outs ++ [.send c (.pubcomp id)] ∧
        (Mqtt.Spec.Broker.step (specRun {} es).1 (.packet c (.pubrel id))).2 =
          (specReleaseAll (Mqtt.Spec.Broker.setConn (specRun {} es).1
              { k with open2 := toOpen2 (q2Acked (q2Ack σ.pub2in id)).1 })
            ((q2Acked (q2Ack σ.pub2in id)).2.map (·.msg))).2 ++ [.send c (.pubcomp id)] ∧
        Fan (specReleaseAll (Mqtt.Spec.Broker.setConn (specRun {} es).1
              { k with open2 := toOpen2 (q2Acked (q2Ack σ.pub2in id)).1 })
            ((q2Acked (q2Ack σ.pub2in id)).2.map (·.msg))).2 outs) := by
  have hR := Mqtt.Proofs.BrokerRefine.reach es hok
  refine ⟨fun p hp => (Mqtt.Proofs.BrokerRefine.reach_step es hok (.packet c (.publish p)) hp).2.1,
    fun id => (Mqtt.Proofs.BrokerRefine.reach_step es hok (.packet c (.pubrel id)) rfl).2.1, ?_⟩
  obtain ⟨σ, k, h1, h2, h3, h4, h5⟩ := Mqtt.Proofs.BrokerRefine.qos2_refines hR c hl
  refine ⟨σ, k, h1, h2, h3, ?_, ?_⟩
  · intro p hq
    rw [Mqtt.Proofs.BrokerRefine.spec_step_eq _ _]
    exact h4 p hq
  · intro id
    obtain ⟨outs, a1, a2, a3⟩ := h5 id
    exact ⟨outs, a1, by rw [Mqtt.Proofs.BrokerRefine.spec_step_eq _ _]; exact a2, a3⟩

open Mqtt.Proofs.BrokerRefine (EvX okRunX runX specRunX pubOk liveSess Fan) in
open Mqtt.Spec.Broker (Accepts) in
/-- **C02_refines_reference after a history with failed handshakes** (Proofs/BrokerRefineFail.lean:
`BrokerX_refines_spec`).  The same statement for the inbound QoS 2 exchange on a live connection, after a
history that may also contain first packets whose answer could not be written (`EvX.failFirst`). -/
theorem C02_refines_reference_with_failed_handshakes (es : List EvX) (hok : okRunX {} es = true) (c : Nat)
    (hl : (runX {} es).1.alive c = true) :
    (∀ p : Pub, pubOk p = true →
      Accepts (Mqtt.Spec.Broker.step (specRunX {} es).1 (.packet c (.publish p))).2
        (step (runX {} es).1 (.packet c (.publish p))).2) ∧
    (∀ id, Accepts (Mqtt.Spec.Broker.step (specRunX {} es).1 (.packet c (.pubrel id))).2
      (step (runX {} es).1 (.packet c (.pubrel id))).2) ∧
    ∃ σ k, liveSess (runX {} es).1 c = some σ ∧ Mqtt.Spec.Broker.getConn (specRunX {} es).1 c = some k ∧
      k.open2 = toOpen2 σ.pub2in ∧
      (∀ p : Pub, p.qos = 2 → (step (runX {} es).1 (.packet c (.publish p))).2 = [.send c (.pubrec p.pktid)] ∧
        (Mqtt.Spec.Broker.step (specRunX {} es).1 (.packet c (.publish p))).2 = [.send c (.pubrec p.pktid)]) ∧
      (∀ id, ∃ outs,
        (step (runX {} es).1 (.packet c (.pubrel id))).2 = outs ++ [.send c (.pubcomp id)] ∧
        (Mqtt.Spec.Broker.step (specRunX {} es).1 (.packet c (.pubrel id))).2 =
          (specReleaseAll (Mqtt.Spec.Broker.setConn (specRunX {} es).1
              { k with open2 := toOpen2 (q2Acked (q2Ack σ.pub2in id)).1 })
            ((q2Acked (q2Ack σ.pub2in id)).2.map (·.msg))).2 ++ [.send c (.pubcomp id)] ∧
        Fan (specReleaseAll (Mqtt.Spec.Broker.setConn (specRunX {} es).1
              { k with open2 := toOpen2 (q2Acked (q2Ack σ.pub2in id)).1 })
            ((q2Acked (q2Ack σ.pub2in id)).2.map (·.msg))).2 outs) :=
  Mqtt.Proofs.BrokerRefine.qos2_acceptedX es hok c hl

end Mqtt.Properties.C02
