/-
C02 — Acting as receiver, every QoS 1 PUBLISH gets exactly one PUBACK, every
QoS 2 PUBLISH a PUBREC, every PUBREL a PUBCOMP; QoS 1 is handed on once per
PUBLISH received, QoS 2 exactly once per exchange, at PUBREL time, with the
content of the first PUBLISH.

Property theorems only (helper lemmas: `Proofs/BrokerQos*.lean`), stated on the
code-shaped broker model `Model/Broker.lean` for *all* broker states satisfying
the representation invariant `Inv` (proved to hold initially and to be preserved
by every `step`), all connection identifiers, packets and histories.
-/
import Mqtt.Proofs.BrokerQos

namespace Mqtt.Properties.C02

open Mqtt.Iface.Broker Mqtt.Model.Broker Mqtt.Proofs.BrokerQos

/-! ## 0. Concrete states for the non-vacuity examples

Connection 1 ("a", CleanSession=0) subscribes `t` at QoS 2 and `u` at QoS 0,
an in-process callback 1000 subscribes `t` at QoS 1, connection 2 ("b",
CleanSession=1) is the publisher. -/

def connectPkt (cid : Bytes) (clean : Bool) : First :=
  .connect { protoName := [77, 81, 84, 84], version := 4, clean := clean, will := none, clientId := cid }

def demoEvs : List Ev :=
  [.first 1 (connectPkt [97] false) true,
   .first 2 (connectPkt [98] true) true,
   .packet 1 (.subscribe 1 [([116], 2), ([117], 0)]),
   .srvSub 1000 [116] 1]

def demo : B := (run {} demoEvs).1

/-! ## (a) what a hand-over is -/

/-- **(a)** Every output of `onPublish`, of the subscriber loop `fanout` and of
`releaseAll` is a PUBLISH written to a connection or a callback invocation —
never an acknowledgement, never a `closed` — and none of them touches the
connection table, the session objects, the session store, the session
reference counter or the subscription tree (only the retained tree and the
packet-identifier counter may change). -/
theorem onPublish_outputs (b : B) (m : Msg) (subs : List (Nat × Nat)) (l : List QEntry) :
    (Frame b (onPublish b m).1 ∧ ∀ o ∈ (onPublish b m).2.2.1, HandOver o) ∧
    (Frame b (fanout b m subs).1 ∧ (fanout b m subs).1.topics = b.topics ∧
      ∀ o ∈ (fanout b m subs).2.2, HandOver o) ∧
    (Frame b (releaseAll b l).1 ∧ ∀ o ∈ (releaseAll b l).2, HandOver o) :=
  ⟨⟨(onPublish_frame b m).1, fun o ho => handOver_of ((onPublish_frame b m).2 o ho)⟩,
   ⟨(fanout_frame b m subs).1, (fanout_frame b m subs).2.1,
    fun o ho => handOver_of ((fanout_frame b m subs).2.2 o ho)⟩,
   ⟨(releaseAll_frame b l).1, fun o ho => handOver_of ((releaseAll_frame b l).2 o ho)⟩⟩

/-- on the demo state a retained QoS 1 publish of `t` reaches connection 1
(RETAIN cleared) and the callback (object as is, E10) -/
example : (onPublish demo ⟨{ qos := 1, retain := true, topic := [116], pktid := 7, payload := [1] }, false⟩).2.2.1 =
    [.send 1 (.publish { qos := 1, topic := [116], pktid := 7, payload := [1] }),
     .call 1000 { qos := 1, retain := true, topic := [116], pktid := 7, payload := [1] }] := by
  decide

end Mqtt.Properties.C02
