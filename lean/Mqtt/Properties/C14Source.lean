/-
C14 — tie to the Go source.

`powerOfTwo64`, `roundUpPowerOfTwo64`, the index mask and `ringCopy` of `service/buffer.go` are the
regenerated translation of the Go functions.

Moved out of `Properties/C14.lean` unchanged (same namespace, same names): this is the only
module of C14 that is built from the regenerated translation `Mqtt.Generated.Xlate`
(through `Proofs/Xlate*.lean`).  `bin/check C14` builds, lists, audits and counts it together
with `Properties/C14.lean`.  NOTHING may import this module (BUILDING.md, "Source-tie modules"):
a rewrite of a translated Go function must not stop other properties from building.
-/
import Mqtt.Properties.C14
import Mqtt.Proofs.XlatePow2
import Mqtt.Proofs.XlateRingCopy

set_option linter.unusedSimpArgs false
set_option linter.unusedVariables false

namespace Mqtt.Properties.C14

open Mqtt.Model.Ring Mqtt.Model.RingAbs Mqtt.Iface.Ring Mqtt.Spec.Ring Mqtt.Proofs.Ring

/-! ## Tie to the Go source: the sizing helpers, the index mask and `ringCopy`

`Mqtt.Generated.Xlate.Service.powerOfTwo64`, `roundUpPowerOfTwo64`, `ringCopy` are
produced from `service/buffer.go` by `extract/cmd/xlate` on every check.  The
ring operations themselves (condition variables, atomics) are outside the
translator's subset: the ring model stays tied by the scheduled correspondence
runs; what is tied here is the arithmetic its guard `size = 2^k`,
`idx pos = pos & (size-1)` rests on. -/

section Source
open Mqtt.Generated.Xlate

/-- the model's ring size passes the code's `powerOfTwo64` test, and for 0 < n < 2^63 that test
holds exactly for the powers of two -/
theorem C14_powerOfTwo64_is_source (cfg : Cfg) (hk : cfg.k < 63) (n : Int) (hn : 0 < n ∧ n < 2 ^ 63) :
    Service.powerOfTwo64 (cfg.size : Int) = true ∧
    (Service.powerOfTwo64 n = true ↔ ∃ k : Nat, n = 2 ^ k) :=
  ⟨Mqtt.Proofs.XlatePow2.ring_size_is_power_of_two cfg hk,
   by rw [Mqtt.Proofs.XlatePow2.service_powerOfTwo64_eq]; exact Mqtt.Proofs.XlatePow2.powerOfTwo64_iff n hn⟩

/-- `roundUpPowerOfTwo64` yields the least power of two ≥ n.  `_partial`: for 0 < n ≤ 2^62; beyond
that the Go function overflows `int64` (2^62 < n gives -2^63, which `newBuffer` then replaces by
2·8192) — signed wrap-around is not represented in the translation
(`XlatePow2.roundUp_differs_high`). -/
theorem C14_roundUpPowerOfTwo64_partial (n : Int) (h : 0 < n ∧ n ≤ 2 ^ 62) :
    ∃ k : Nat, Service.roundUpPowerOfTwo64 n = 2 ^ k ∧ n ≤ 2 ^ k ∧ 2 ^ k < 2 * n := by
  rw [Mqtt.Proofs.XlatePow2.service_roundUpPowerOfTwo64_eq]
  exact Mqtt.Proofs.XlatePow2.roundUpPowerOfTwo64_least n h

/-- `pos & bf.mask` with `mask = size - 1` is the model's `idx`, i.e. `pos mod size` -/
theorem C14_idx_is_source (cfg : Cfg) (hk : cfg.k < 63) (pos : Nat) (hp : pos < 2 ^ 63) :
    Go.andInt 64 (pos : Int) ((cfg.size : Int) - 1) = ((cfg.idx pos : Nat) : Int) ∧
    cfg.idx pos = pos % cfg.size :=
  Mqtt.Proofs.XlatePow2.ring_idx_is_mask cfg hk pos hp

/-- `ringCopy(bf.buf, p, ppos & bf.mask)` (the copy inside `Write`) does what the model's
byte-by-byte copy does: byte j of p goes to cell `idx (ppos + j)`, every other cell is left alone,
and the count is `len(p)` — for every iteration budget ≥ 3 of the translation's loop -/
theorem C14_ringCopy_is_source (cfg : Cfg) (fuel : Nat) (hf : 3 ≤ fuel) (dst src : List UInt8) (ppos : Nat)
    (hlen : dst.length = cfg.size) (hS : src.length ≤ cfg.size) :
    ∃ dst', Service.ringCopy fuel dst src ((cfg.idx ppos : Nat) : Int) = Res.ok (dst', src.length) ∧
      dst'.length = cfg.size ∧
      (∀ j : Nat, j < src.length → dst'[cfg.idx (ppos + j)]? = src[j]?) ∧
      (∀ p : Nat, (∀ j : Nat, j < src.length → p ≠ cfg.idx (ppos + j)) → dst'[p]? = dst[p]?) :=
  Mqtt.Proofs.XlateRingCopy.ringCopy_ring cfg fuel hf dst src ppos hlen hS

example : Service.roundUpPowerOfTwo64 5000 = 8192 ∧ Service.powerOfTwo64 8192 = true ∧
    Service.ringCopy 3 [0, 0, 0, 0] [7, 8, 9] 2 = .ok ([9, 0, 7, 8], 3) := by decide

end Source

end Mqtt.Properties.C14
