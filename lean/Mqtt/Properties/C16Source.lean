/-
C16 — tie to the Go source: `Server.disconnectClient`, `Server.Close` and `Server.mu`.

`Server.Close` is what ends a teardown that is held by a third connection whose client does not read
(`C16_server_close`: it closes every outgoing ring before the first `stop()`).  Since the take-over
repair (MQTT-3.1.4-2, repository commit 2856f90) there is a second caller that waits for a teardown:
`handleConnection` in `disconnectClient`, for as long as that third client likes.  `Server.Close` starts by
taking `Server.mu` for its copy of `svcs` - so `disconnectClient` must not hold `Server.mu` while it waits.

This is the only module of C16 that is built from the sections `takeover-disconnect` and `takeover-close`
of the regenerated facts (`extract/facts_takeover.go`).  NOTHING may import this module (BUILDING.md,
"Source-tie modules").
-/
import Mqtt.Properties.C16
import Mqtt.Proofs.Takeover
import Mqtt.Generated.Facts

namespace Mqtt.Properties.C16
open Mqtt.Model.Takeover

/-- **`Server.Close` can always take `Server.mu`.**  The source's `disconnectClient` is, statement by
statement, `disconnectProgram`: lock `svr.mu`, scan `svcs` (drop the finished entries, collect the client's),
UNLOCK - an explicit statement before any `stop()` -, then for every collected connection `stop()` and
`<-stopped`; the source's `Server.Close` is `closeProgram` (`mu` around the copy of `svcs` only, then
`out.Close()` on every connection, then `stop()` on every connection).  In that program no statement that
may wait for another goroutine runs under `Server.mu`, and at every position at which `disconnectClient`
may be waiting, `Server.Close` gets `Server.mu` and reaches its loops - whatever holds the teardown that
`disconnectClient` waits for.  With `defer svr.mu.Unlock()` instead (`deferred_unlock_blocks_close`) it
does not: `Server.Close` then returns only when the third client lets it. -/
theorem C16_disconnectClient_waits_without_mu :
    Mqtt.Generated.takeoverDisconnectSeq = disconnectProgram.map DcOp.code ∧
    Mqtt.Generated.takeoverCloseSeq = closeProgram.map ClOp.code ∧
    waitsWithoutMu disconnectProgram = true ∧
    (∀ i op, disconnectProgram[i]? = some op → op.mayWait = true →
      closeReachesLoops disconnectProgram i closeProgram = true) ∧
    (closeProgram.idxOf .unlock < closeProgram.idxOf .closeOuts ∧
      closeProgram.idxOf .closeOuts < closeProgram.idxOf .stops ∧ closeProgram.contains .deferUnlock = false) :=
  ⟨by decide, by decide, Mqtt.Proofs.Takeover.disconnect_waits_without_mu,
   Mqtt.Proofs.Takeover.close_gets_mu_while_disconnect_waits, Mqtt.Proofs.Takeover.close_shape⟩

end Mqtt.Properties.C16
