/-
C07 — SUBSCRIBE and UNSUBSCRIBE are always acknowledged and take effect at the
acknowledgement.

Property theorems only (helper lemmas: `Proofs/BrokerFanout*.lean`).  Model:
`Model/Broker.lean` (`packet`, `subscribeLoop`, `sendRetained`) over the topic
store `Model/Topics.lean`; specification: `Spec/Broker.lean` (`subCode`).  All
theorems quantify over every state satisfying the representation invariant
`Inv` (which `step` preserves from the initial state: `C07_inv_step`).

"Path of a filter": `(entryLevels f).1`, the levels the store's entry points
walk - `levels f` (the iteration of `nextTopicLevel`) unless `f` is empty or
begins with '$', in which case `checkTopic` turns it away before any level is
read and `entryLevels f = ([], false)` (`Proofs.Topics.entryLevels_of_not_sys/_of_sys`).
`good f`: no empty level (finding B3) and not beginning with '$' (outside the
property's quantifier).
-/
import Mqtt.Proofs.BrokerFanoutGen
import Mqtt.Proofs.BrokerRefineCor
import Mqtt.Proofs.BrokerRefineCorX
import Mqtt.Proofs.BrokerAckOrder

set_option linter.unusedSimpArgs false

namespace Mqtt.Properties.C07
open Mqtt.Iface.Broker Mqtt.Model.Broker Mqtt.Proofs.Broker
open Mqtt.Model.Topics (MemTopics levels)
open Mqtt.Proofs.Topics (good abs WF entryLevels)
open Mqtt.Spec.Match (split validFilter validName matchLevels dollar)

/-- the return code for one requested (filter, QoS byte), read off the topic
store's own answer: the granted QoS `min(requested, server maximum)` if
`MemTopics.subscribe` accepts the pair, 0x80 if it rejects it -/
def grantCode (mt : MemTopics) (c : Nat) (tq : Bytes × Nat) : Nat :=
  match (mt.subscribe Mqtt.Generated.maxQosAllowed tq.1 tq.2 c).2 with
  | some _ => min tq.2 Mqtt.Generated.maxQosAllowed
  | none => 0x80

/-! ### the representation invariant -/

/-- `Inv` (both tries well-formed - unique Go-map keys, one entry per subscriber
and node -; every stored retained message has RETAIN set; every live
connection's session reference resolves) holds of the initial state and is
preserved by every event. -/
theorem C07_inv_step : Inv {} ∧ ∀ (b : B) (e : Ev), Inv b → Inv (step b e).1 :=
  ⟨Inv_init, Inv_step⟩

/-- hence of every reachable state -/
theorem C07_inv_run (es : List Ev) : Inv (run {} es).1 := Inv_run es {} Inv_init

/-! ### (a) one SUBACK, first, same identifier, one code per filter in request order -/

/-- A SUBSCRIBE on a live connection: the first output is the SUBACK to that
connection with the request's identifier and exactly one return code per
requested filter, in request order - `min(requested, maximum)` where the store
accepts the filter, 0x80 where it rejects it (whatever state `mt` the store is
in: acceptance depends on the request only).  Everything after the SUBACK is a
PUBLISH to the same connection (retained delivery), so there is no second
SUBACK and the request is never dropped. -/
theorem C07_suback_shape (b : B) (hinv : Inv b) (c id : Nat) (topics : List (Bytes × Nat))
    (hl : b.alive c = true) :
    ∃ codes rest, (packet b c (.subscribe id topics)).2 = .send c (.suback id codes) :: rest ∧
      codes.length = topics.length ∧
      (∀ mt : MemTopics, codes = topics.map (grantCode mt c)) ∧
      (∀ o ∈ rest, isPublishTo c o = true) ∧
      (∀ o ∈ rest, ∀ d i cs, o ≠ .send d (.suback i cs)) := by
  obtain ⟨cn, s, hc, ha, hs⟩ := hinv.live b c hl
  rw [packet_subscribe b c cn s id topics hc ha hs]
  have hcodes := subscribeLoop_codes c topics b s [] []
  have hconns := (subscribeLoop_conns c topics b s [] []).1
  generalize subscribeLoop b c s topics [] [] = r at *
  obtain ⟨b1, s1, codes, rms⟩ := r
  simp only [List.nil_append] at hcodes hconns ⊢
  have hal : (b1.setSess s1).alive c = true := by
    rw [alive_congr b (b1.setSess s1) (by simp [hconns]) c]; exact hl
  have hshape := (sendRetained_shape c rms (b1.setSess s1)).2.2.2
  refine ⟨codes, (sendRetained (b1.setSess s1) c rms).2, ?_, ?_, ?_, hshape, ?_⟩
  · simp [send, hal]
  · rw [hcodes]; simp
  · intro mt
    rw [hcodes]
    apply List.map_congr_left
    intro tq _
    simp only [grantCode, modelCode, subscribe_snd]
    cases accepts tq.1 tq.2 <;> simp
  · intro o ho d i cs he
    have := hshape o ho
    rw [he] at this
    simp [isPublishTo] at this

/-- non-vacuity: a broker with one client ("a", connection 1) and a retained
message on "a/b"; SUBSCRIBE id 7 for "a/+" (QoS 1), "a/#/x" (invalid), "a/b"
with QoS byte 3 (invalid), "a/b" (QoS 0): SUBACK [1, 0x80, 0x80, 0] first, then
the retained message once per granted filter. -/
def exConnect (c : Nat) (cid : Bytes) : Ev :=
  .first c (.connect { protoName := [77, 81, 84, 84], version := 4, clean := true, will := none, clientId := cid }) true

def exState : B :=
  (run {} [exConnect 1 [97], exConnect 2 [98],
           .srvPub { qos := 1, retain := true, topic := [97, 47, 98], payload := [1, 2] }]).1

/-- the example state satisfies the hypotheses of the theorems -/
example : Inv exState := C07_inv_run _

example :
    exState.alive 1 = true ∧
    (packet exState 1 (.subscribe 7 [([97, 47, 43], 1), ([97, 47, 35, 47, 120], 1), ([97, 47, 98], 3), ([97, 47, 98], 0)])).2 =
      [.send 1 (.suback 7 [1, 0x80, 0x80, 0]),
       .send 1 (.publish { qos := 1, retain := true, topic := [97, 47, 98], pktid := 1, payload := [1, 2] }),
       .send 1 (.publish { qos := 0, retain := true, topic := [97, 47, 98], pktid := 0, payload := [1, 2] })] := by
  decide

/-- For filters without empty levels (finding B3 is outside) that do not begin
with '$' (outside the property's quantifier), the codes are the
specification's: `min(q, 2)` for a valid filter with QoS byte <= 2, else 0x80. -/
theorem C07_codes_spec_partial (mt : MemTopics) (c : Nat) (topics : List (Bytes × Nat))
    (hg : ∀ tq ∈ topics, good tq.1 = true) :
    topics.map (grantCode mt c) = topics.map (fun tq => Mqtt.Spec.Broker.subCode tq.1 tq.2) := by
  apply List.map_congr_left
  intro tq htq
  rw [← modelCode_good tq.1 tq.2 (hg tq htq)]
  simp only [grantCode, modelCode, subscribe_snd]
  cases accepts tq.1 tq.2 <;> simp

/-- B4, repaired: "a/$b" and "+/$b" are valid filters without empty levels;
the broker grants them like the specification does, a wildcard level still may
not continue with '$' ("+$b": 0x80 on both sides), and a filter beginning with
'$' is refused by the code (the specification's `subCode` is not asked about
those: they are outside the property's quantifier). -/
theorem C07_codes_dollar_level :
    good [97, 47, 36, 98] = true ∧ good [43, 47, 36, 98] = true ∧
    [([97, 47, 36, 98], 1), ([43, 47, 36, 98], 2), ([43, 36, 98], 1)].map (grantCode MemTopics.new 1) = [1, 2, 0x80] ∧
    [([97, 47, 36, 98], 1), ([43, 47, 36, 98], 2), ([43, 36, 98], 1)].map
      (fun tq => Mqtt.Spec.Broker.subCode tq.1 tq.2) = [1, 2, 0x80] ∧
    grantCode MemTopics.new 1 ([36, 83, 89, 83], 1) = 0x80 := by decide

/-- the full statement: all filters that do not begin with '$' -/
def C07_codes_spec_full : Prop :=
  ∀ (mt : MemTopics) (c : Nat) (topics : List (Bytes × Nat)), (∀ tq ∈ topics, dollar tq.1 = false) →
    topics.map (grantCode mt c) = topics.map (fun tq => Mqtt.Spec.Broker.subCode tq.1 tq.2)

/-- The full statement holds since finding B6 was repaired.  Its last
counterexample was the empty filter - not a filter at all by MQTT-4.7.3-1 -,
which the store used to accept (`sinsert` with `len(topic) == 0` registered the
subscriber at the root) and which `checkTopic` now turns away: 0x80 on both
sides.  No hypothesis about empty levels is needed: finding B3 changes which
levels are stored and matched, not which filters are accepted
(`Proofs.Topics.levels_ok`: the walk ends without an error exactly when every
level is valid, for every byte string). -/
theorem C07_codes_spec_full_holds : C07_codes_spec_full := by
  intro mt c topics hd
  apply List.map_congr_left
  intro tq htq
  rw [← modelCode_not_dollar tq.1 tq.2 (hd tq htq)]
  simp only [grantCode, modelCode, subscribe_snd]
  cases accepts tq.1 tq.2 <;> simp

/-- the former witnesses, now answered as the specification demands: the empty
filter gets 0x80 on both sides; filters with empty levels ("/a", "a/", "a//b",
"/") are valid and granted on both sides, "#/" (a level after '#') is refused on
both sides -/
theorem C07_codes_empty_filter :
    grantCode MemTopics.new 1 ([], 1) = 0x80 ∧ Mqtt.Spec.Broker.subCode [] 1 = 0x80 ∧
    [([47, 97], 1), ([97, 47], 2), ([97, 47, 47, 98], 0), ([47], 1), ([35, 47], 1)].map (grantCode MemTopics.new 1) =
      [1, 2, 0, 1, 0x80] ∧
    [([47, 97], 1), ([97, 47], 2), ([97, 47, 47, 98], 0), ([47], 1), ([35, 47], 1)].map
      (fun tq => Mqtt.Spec.Broker.subCode tq.1 tq.2) = [1, 2, 0, 1, 0x80] := by decide

/-- the regenerated server maximum is the protocol's -/
theorem C07_facts_maxQos : Mqtt.Generated.maxQosAllowed = Mqtt.Spec.Broker.maxQos := facts_maxQos

/-- "From that acknowledgement on": the model performs the effects of a SUBSCRIBE /
UNSUBSCRIBE and emits the SUBACK / UNSUBACK in one atomic step, so every later
event sees the new subscriptions.  That describes the code because
`processSubscribe` / `processUnsubscribe` write the acknowledgement after the last
change to the subscription store and the session (regenerated statement order,
extract/facts_broker.go section `brokerack`): an acknowledgement written first
would let a PUBLISH of another connection, processed between the acknowledgement
and the effects, still be forwarded (resp. not yet be forwarded) - the seeded
change `C07-unsuback-before-removal`; the harness event `unsubrace` looks for the
same window dynamically. -/
theorem C07_ack_follows_effects :
    Mqtt.Generated.subscribeAckAfterEffects = true ∧ Mqtt.Generated.unsubscribeAckAfterEffects = true :=
  facts_ack_after_effects

/-! ### (b) UNSUBSCRIBE -/

/-- An UNSUBSCRIBE on a live connection is answered by exactly one packet: the
UNSUBACK with the request's identifier. -/
theorem C07_unsuback (b : B) (hinv : Inv b) (c id : Nat) (topics : List Bytes) (hl : b.alive c = true) :
    (packet b c (.unsubscribe id topics)).2 = [.send c (.unsuback id)] := by
  obtain ⟨cn, s, hc, ha, hs⟩ := hinv.live b c hl
  rw [packet_unsubscribe b c cn s id topics hc ha hs]
  simp [send, hl]

example : exState.alive 2 = true ∧
    (packet exState 2 (.unsubscribe 9 [[97, 47, 43], [120]])).2 = [.send 2 (.unsuback 9)] := by decide

/-! ### (c) every listed filter takes effect -/

/-- The SUBSCRIBE step on the subscription trie.  `entriesAfterSub c topics es`
is the loop "for each requested (filter, QoS) in order: if the store accepts
it, replace-or-add the entry (path of the filter, `c`, granted QoS)" over the
entry list `es`.  The trie after the step holds exactly these entries; the
entries of every other subscriber are the same as before; the invariant holds
again.  (Paths are the level lists the code's own walk produces: no hypothesis
on the filters.) -/
theorem C07_subscribe_effect (b : B) (hinv : Inv b) (c id : Nat) (topics : List (Bytes × Nat))
    (hl : b.alive c = true) :
    Inv (packet b c (.subscribe id topics)).1 ∧
    (abs (packet b c (.subscribe id topics)).1.topics.sroot).Perm (entriesAfterSub c topics (abs b.topics.sroot)) ∧
    ((abs (packet b c (.subscribe id topics)).1.topics.sroot).filter (fun e => e.2.1 != c)).Perm
      ((abs b.topics.sroot).filter (fun e => e.2.1 != c)) := by
  have hp := packet_subscribe_sroot b hinv c id topics hl
  refine ⟨Inv_packet b c _ hinv, hp, ?_⟩
  have := hp.filter (fun e => e.2.1 != c)
  rw [entriesAfterSub_others] at this
  exact this

/-- Every granted filter is subscribed when the SUBACK goes out: if the request
at position `pre.length` is accepted, and no later accepted request of the same
packet names the same filter (which would replace the QoS), the trie holds the
entry (path of the filter, `c`, that request's return code). -/
theorem C07_granted_is_held (b : B) (hinv : Inv b) (c id : Nat) (pre post : List (Bytes × Nat))
    (t : Bytes) (q : Nat) (hl : b.alive c = true) (ha : accepts t q = true)
    (hpost : ∀ tq ∈ post, accepts tq.1 tq.2 = true → (entryLevels tq.1).1 ≠ (entryLevels t).1) :
    ((entryLevels t).1, c, grantCode b.topics c (t, q)) ∈
      abs (packet b c (.subscribe id (pre ++ (t, q) :: post))).1.topics.sroot := by
  have hp := packet_subscribe_sroot b hinv c id (pre ++ (t, q) :: post) hl
  rw [hp.mem_iff]
  have hcode : grantCode b.topics c (t, q) = min q Mqtt.Generated.maxQosAllowed := by
    simp [grantCode, subscribe_snd, ha]
  rw [hcode]
  exact entriesAfterSub_mem c pre post t q _ ha hpost

/-- The UNSUBSCRIBE step on the subscription trie: exactly the entries of
`c` under the paths of the listed filters disappear (`entriesAfterUnsub`); in
particular no listed filter is subscribed for `c` afterwards, and the entries
of every other subscriber are the same as before. -/
theorem C07_unsubscribe_effect (b : B) (hinv : Inv b) (c id : Nat) (topics : List Bytes)
    (hl : b.alive c = true) :
    Inv (packet b c (.unsubscribe id topics)).1 ∧
    (abs (packet b c (.unsubscribe id topics)).1.topics.sroot).Perm
      (entriesAfterUnsub c topics (abs b.topics.sroot)) ∧
    (∀ t ∈ topics, (entryLevels t).2 = true → ∀ q,
      ((entryLevels t).1, c, q) ∉ abs (packet b c (.unsubscribe id topics)).1.topics.sroot) ∧
    ((abs (packet b c (.unsubscribe id topics)).1.topics.sroot).filter (fun e => e.2.1 != c)).Perm
      ((abs b.topics.sroot).filter (fun e => e.2.1 != c)) := by
  have hp := packet_unsubscribe_sroot b hinv c id topics hl
  refine ⟨Inv_packet b c _ hinv, hp, ?_, ?_⟩
  · intro t ht hlv q hmem
    exact entriesAfterUnsub_absent c topics t ht hlv _ q (hp.mem_iff.mp hmem)
  · have := hp.filter (fun e => e.2.1 != c)
    rw [entriesAfterUnsub_others] at this
    exact this

/-- "A subscription applies to every message the broker accepts after sending
the SUBACK": in the state right after the SUBSCRIBE step, every decoded PUBLISH
(QoS <= 2, identifier unless QoS 0) on a good valid topic name that the granted
filter's path matches is forwarded to the connection - same topic, same
payload, QoS min(publish QoS, return code of that filter), RETAIN 0. -/
theorem C07_effective_after_suback_partial (b : B) (hinv : Inv b) (c id : Nat) (pre post : List (Bytes × Nat))
    (t : Bytes) (q : Nat) (hl : b.alive c = true) (ha : accepts t q = true)
    (hpost : ∀ tq ∈ post, accepts tq.1 tq.2 = true → (entryLevels tq.1).1 ≠ (entryLevels t).1)
    (p : Pub) (hg : good p.topic = true) (hn : validName p.topic = true) (hq : p.qos ≤ 2)
    (hid : p.pktid ≠ 0 ∨ p.qos = 0) (hm : matchLevels (entryLevels t).1 (split p.topic) = true) :
    delivery p c (grantCode b.topics c (t, q)) ∈
      (onPublish (packet b c (.subscribe id (pre ++ (t, q) :: post))).1 ⟨p, false⟩).2.2.1 := by
  have hmem := C07_granted_is_held b hinv c id pre post t q hl ha hpost
  have hinv' := Inv_packet b c (.subscribe id (pre ++ (t, q) :: post)) hinv
  have hal' : (packet b c (.subscribe id (pre ++ (t, q) :: post))).1.alive c = true := by
    rw [alive_congr b _ (packet_subscribe_conns b hinv c id _ hl)]; exact hl
  obtain ⟨_, hperm⟩ := onPublish_char_gen _ p hinv' hg hn hq hid
  rw [hperm.mem_iff]
  refine List.mem_map.mpr ⟨_, List.mem_filter.mpr ⟨hmem, ?_⟩, rfl⟩
  simp [hm, reachable, hal']

/-- "... and to none it accepts after sending the UNSUBACK": in the state right
after the UNSUBSCRIBE step, whatever a PUBLISH makes the broker hand to `c`
stems from a subscription of `c` under a path other than those of the listed
filters, and is exactly the `delivery` for that subscription. -/
theorem C07_none_after_unsuback_partial (b : B) (hinv : Inv b) (c id : Nat) (topics : List Bytes)
    (hl : b.alive c = true)
    (p : Pub) (hg : good p.topic = true) (hn : validName p.topic = true) (hq : p.qos ≤ 2)
    (hid : p.pktid ≠ 0 ∨ p.qos = 0) :
    ∀ o ∈ (onPublish (packet b c (.unsubscribe id topics)).1 ⟨p, false⟩).2.2.1, target o = some c →
      ∃ e ∈ abs (packet b c (.unsubscribe id topics)).1.topics.sroot,
        e.2.1 = c ∧ matchLevels e.1 (split p.topic) = true ∧
        (∀ t ∈ topics, (entryLevels t).2 = true → e.1 ≠ (entryLevels t).1) ∧
        o = delivery p c e.2.2 := by
  intro o ho htc
  obtain ⟨hinv', _, habs, _⟩ := C07_unsubscribe_effect b hinv c id topics hl
  obtain ⟨_, hperm⟩ := onPublish_char_gen _ p hinv' hg hn hq hid
  have hin := hperm.mem_iff.mp ho
  obtain ⟨e, he, heq⟩ := List.mem_map.mp hin
  obtain ⟨he1, he2⟩ := List.mem_filter.mp he
  simp only [Bool.and_eq_true] at he2
  have hce : e.2.1 = c := by
    have h1 : target (fwd { p with retain := false } (e.2.1, min p.qos e.2.2)) = some e.2.1 := by
      rw [← delivery_eq, target_delivery]
    rw [heq, htc] at h1
    exact (Option.some.inj h1).symm
  refine ⟨e, he1, hce, he2.1, ?_, ?_⟩
  · intro t ht hlv hpath
    apply habs t ht hlv e.2.2
    have : ((entryLevels t).1, c, e.2.2) = e := by rw [← hpath, ← hce]
    rw [this]
    exact he1
  · rw [← heq, hce]; rfl

/-- non-vacuity: connection 2 subscribes "a/+" (QoS 1): a QoS 1 PUBLISH on "a/b"
reaches it; after UNSUBSCRIBE of "a/+" the same PUBLISH reaches nobody -/
example :
    let p : Pub := { qos := 1, topic := [97, 47, 98], pktid := 3, payload := [9] }
    let b1 := (packet exState 2 (.subscribe 1 [([97, 47, 43], 1)])).1
    let b2 := (packet b1 2 (.unsubscribe 2 [[97, 47, 43]])).1
    (onPublish exState ⟨p, false⟩).2.2.1 = [] ∧
    (onPublish b1 ⟨p, false⟩).2.2.1 = [.send 2 (.publish { qos := 1, topic := [97, 47, 98], pktid := 3, payload := [9] })] ∧
    (onPublish b2 ⟨p, false⟩).2.2.1 = [] := by decide

/-- Against the reference broker, for requests whose filters have no empty
level and do not begin with '$': if the trie holds exactly the specification's held
subscriptions (`HeldInv`: entry (split filter, owner, QoS) per held
subscription), it does so again after a SUBSCRIBE or UNSUBSCRIBE step of both
(`Spec.Broker.step1`, any specification state with these held subscriptions
that knows the connection). -/
theorem C07_held_refines_partial (b : B) (hinv : Inv b) (c id : Nat) (hl : b.alive c = true)
    (s : Mqtt.Spec.Broker.S) (hs : (Mqtt.Spec.Broker.getConn s c).isSome = true)
    (hh : HeldInv b.topics.sroot s.held) :
    (∀ topics : List (Bytes × Nat), (∀ tq ∈ topics, good tq.1 = true) →
      HeldInv (packet b c (.subscribe id topics)).1.topics.sroot
        (Mqtt.Spec.Broker.step1 s (.packet c (.subscribe id topics))).1.held) ∧
    (∀ topics : List Bytes, (∀ t ∈ topics, good t = true) →
      HeldInv (packet b c (.unsubscribe id topics)).1.topics.sroot
        (Mqtt.Spec.Broker.step1 s (.packet c (.unsubscribe id topics))).1.held) := by
  cases hcn : Mqtt.Spec.Broker.getConn s c with
  | none => rw [hcn] at hs; exact absurd hs (by simp)
  | some cn =>
    constructor
    · intro topics hg
      have hp := packet_subscribe_sroot b hinv c id topics hl
      obtain ⟨e1, e2⟩ := entriesAfterSub_held c topics hg s.held hh.valid
      simp only [Mqtt.Spec.Broker.step1, hcn, specSubHeld_eq]
      exact ⟨(hp.trans (entriesAfterSub_perm c topics _ _ hh.perm)).trans (by rw [e1]), e2⟩
    · intro topics hg
      have hp := packet_unsubscribe_sroot b hinv c id topics hl
      have e1 := entriesAfterUnsub_held c topics hg s.held hh.valid
      simp only [Mqtt.Spec.Broker.step1, hcn]
      exact ⟨(hp.trans (entriesAfterUnsub_perm c topics _ _ hh.perm)).trans (by rw [e1]),
        fun h hm => hh.valid h (List.mem_filter.mp hm).1⟩

/-- The same for the in-process API (`Server.Subscribe` / `Server.Unsubscribe`
of a callback), and a publish of any kind leaves the subscription trie as it
is - so `HeldInv` is maintained along every history of these events. -/
theorem C07_held_refines_srv_partial (b : B) (hinv : Inv b) (cb : Nat) (f : Bytes) (hg : good f = true)
    (s : Mqtt.Spec.Broker.S) (hh : HeldInv b.topics.sroot s.held) :
    (∀ q, HeldInv (step b (.srvSub cb f q)).1.topics.sroot (Mqtt.Spec.Broker.step1 s (.srvSub cb f q)).1.held) ∧
    HeldInv (step b (.srvUnsub cb f)).1.topics.sroot (Mqtt.Spec.Broker.step1 s (.srvUnsub cb f)).1.held ∧
    (∀ m : Msg, (onPublish b m).1.topics.sroot = b.topics.sroot) := by
  refine ⟨?_, ?_, ?_⟩
  · intro q
    have := srvSub_held b hinv cb f q hg s.held hh
    simp only [step, Mqtt.Spec.Broker.step1]
    split
    · rename_i hc; simp only [hc, ↓reduceIte] at this; exact this
    · rename_i hc; simp only [hc, ↓reduceIte] at this; exact this
  · exact srvUnsub_held b hinv cb f hg s.held hh
  · intro m
    rw [onPublish_topics]
    exact (retainStep_frame b m).1

/-- the full statement of the SUBSCRIBE half: all filters -/
def C07_held_refines_full : Prop :=
  ∀ (b : B) (c id : Nat) (s : Mqtt.Spec.Broker.S) (topics : List (Bytes × Nat)),
    Inv b → b.alive c = true → (Mqtt.Spec.Broker.getConn s c).isSome = true → HeldInv b.topics.sroot s.held →
    HeldInv (packet b c (.subscribe id topics)).1.topics.sroot
      (Mqtt.Spec.Broker.step1 s (.packet c (.subscribe id topics))).1.held

/-- False of the code as it is (finding B3): the filter "/a" (first level
empty) is stored under the path of "+/a". -/
theorem C07_held_refines_full_counterexample : ¬ C07_held_refines_full := by
  intro h
  have h0 : HeldInv exState.topics.sroot [] := by
    have : abs exState.topics.sroot = [] := by decide
    exact ⟨by rw [this]; exact List.Perm.refl _, by simp⟩
  have := (h exState 1 1 { conns := [⟨1, [97], true, none, []⟩] } [([47, 97], 1)] (C07_inv_run _) (by decide)
    (by decide) h0).perm
  have e1 : abs (packet exState 1 (.subscribe 1 [([47, 97], 1)])).1.topics.sroot = [([[43], [97]], 1, 1)] := by
    decide
  have e2 : (Mqtt.Spec.Broker.step1 { conns := [⟨1, [97], true, none, []⟩] }
      (.packet 1 (.subscribe 1 [([47, 97], 1)]))).1.held = [⟨1, [47, 97], 1⟩] := by decide
  rw [e1, e2] at this
  exact absurd (List.perm_singleton.mp this) (by decide)

/-- non-vacuity: connection 1 subscribes "a/+" (1), "a/b" (2), "a/+" again (0):
the later grant replaces the earlier; then unsubscribes "a/b"; the in-process
subscriber's entry is untouched throughout. -/
example :
    let b0 := (step exState (.srvSub 1000 [97, 47, 35] 1)).1
    let b1 := (packet b0 1 (.subscribe 1 [([97, 47, 43], 1), ([97, 47, 98], 2), ([97, 47, 43], 0)])).1
    let b2 := (packet b1 1 (.unsubscribe 2 [[97, 47, 98], [120]])).1
    b0.alive 1 = true ∧ b1.alive 1 = true ∧
    abs b1.topics.sroot = [([[97], [35]], 1000, 1), ([[97], [43]], 1, 0), ([[97], [98]], 1, 2)] ∧
    abs b2.topics.sroot = [([[97], [35]], 1000, 1), ([[97], [43]], 1, 0)] := by
  decide

/-! ### the refinement theorem, specialised: SUBSCRIBE / UNSUBSCRIBE after any history -/

open Mqtt.Proofs.BrokerRefine (okRun specRun) in
open Mqtt.Spec.Broker (Accepts) in
/-- **Refinement (Proofs/BrokerRefine.lean: `Broker_refines_spec`) for C07.**
After any history admitted by `okRun` (side condition `okEv`: filters `good`,
...; see C01_refines_reference), a SUBSCRIBE / UNSUBSCRIBE with `good` filters on a live
connection is accepted by the reference broker; explicitly: the SUBACK is the
first output and carries the reference broker's return codes (`subCode`: the
granted QoS, 0x80 for an invalid filter or QoS byte), the UNSUBACK is the only
output; and the request is effective when it is acknowledged - afterwards the
subscription trie holds exactly the subscriptions the reference broker holds
(`HeldInv` with the `held` list of `Spec.Broker.step`), so that by
C01_refines_reference every later PUBLISH is forwarded according to them. -/
theorem C07_refines_reference (es : List Ev) (hok : okRun {} es = true) (c id : Nat)
    (hl : (run {} es).1.alive c = true) :
    (∀ ts : List (Bytes × Nat), (∀ tq ∈ ts, good tq.1 = true) →
      Accepts (Mqtt.Spec.Broker.step (specRun {} es).1 (.packet c (.subscribe id ts))).2
        (step (run {} es).1 (.packet c (.subscribe id ts))).2 ∧
      (∃ rest, (step (run {} es).1 (.packet c (.subscribe id ts))).2 =
        .send c (.suback id (ts.map (fun t => Mqtt.Spec.Broker.subCode t.1 t.2))) :: rest) ∧
      HeldInv (step (run {} es).1 (.packet c (.subscribe id ts))).1.topics.sroot
        (Mqtt.Spec.Broker.step (specRun {} es).1 (.packet c (.subscribe id ts))).1.held) ∧
    (∀ ts : List Bytes, (∀ t ∈ ts, good t = true) →
      Accepts (Mqtt.Spec.Broker.step (specRun {} es).1 (.packet c (.unsubscribe id ts))).2
        (step (run {} es).1 (.packet c (.unsubscribe id ts))).2 ∧
      (step (run {} es).1 (.packet c (.unsubscribe id ts))).2 = [.send c (.unsuback id)] ∧
      HeldInv (step (run {} es).1 (.packet c (.unsubscribe id ts))).1.topics.sroot
        (Mqtt.Spec.Broker.step (specRun {} es).1 (.packet c (.unsubscribe id ts))).1.held) := by
  have hR := Mqtt.Proofs.BrokerRefine.reach es hok
  constructor
  · intro ts hg
    have hokev : Mqtt.Proofs.BrokerRefine.okEv (run {} es).1 (.packet c (.subscribe id ts)) = true := by
      show ts.all (fun tq => good tq.1) = true
      rw [List.all_eq_true]; exact hg
    obtain ⟨r1, r2, r3⟩ := Mqtt.Proofs.BrokerRefine.reach_step es hok _ hokev
    obtain ⟨⟨rest, h1, _, _⟩, _, _⟩ := Mqtt.Proofs.BrokerRefine.subscribe_refines hR c hl id ts hg
    exact ⟨r2, ⟨rest, h1⟩, r1.held⟩
  · intro ts hg
    have hokev : Mqtt.Proofs.BrokerRefine.okEv (run {} es).1 (.packet c (.unsubscribe id ts)) = true := by
      show ts.all (fun t => good t) = true
      rw [List.all_eq_true]; exact hg
    obtain ⟨r1, r2, r3⟩ := Mqtt.Proofs.BrokerRefine.reach_step es hok _ hokev
    exact ⟨r2, (Mqtt.Proofs.BrokerRefine.unsubscribe_refines hR c hl id ts hg).1, r1.held⟩

open Mqtt.Proofs.BrokerRefine (EvX okRunX runX specRunX) in
open Mqtt.Spec.Broker (Accepts) in
/-- **C07_refines_reference after a history with failed handshakes** (Proofs/BrokerRefineFail.lean:
`BrokerX_refines_spec`).  The same statement for SUBSCRIBE / UNSUBSCRIBE on a live connection, after a
history that may also contain first packets whose answer could not be written (`EvX.failFirst`). -/
theorem C07_refines_reference_with_failed_handshakes (es : List EvX) (hok : okRunX {} es = true) (c id : Nat)
    (hl : (runX {} es).1.alive c = true) :
    (∀ ts : List (Bytes × Nat), (∀ tq ∈ ts, good tq.1 = true) →
      Accepts (Mqtt.Spec.Broker.step (specRunX {} es).1 (.packet c (.subscribe id ts))).2
        (step (runX {} es).1 (.packet c (.subscribe id ts))).2 ∧
      (∃ rest, (step (runX {} es).1 (.packet c (.subscribe id ts))).2 =
        .send c (.suback id (ts.map (fun t => Mqtt.Spec.Broker.subCode t.1 t.2))) :: rest) ∧
      HeldInv (step (runX {} es).1 (.packet c (.subscribe id ts))).1.topics.sroot
        (Mqtt.Spec.Broker.step (specRunX {} es).1 (.packet c (.subscribe id ts))).1.held) ∧
    (∀ ts : List Bytes, (∀ t ∈ ts, good t = true) →
      Accepts (Mqtt.Spec.Broker.step (specRunX {} es).1 (.packet c (.unsubscribe id ts))).2
        (step (runX {} es).1 (.packet c (.unsubscribe id ts))).2 ∧
      (step (runX {} es).1 (.packet c (.unsubscribe id ts))).2 = [.send c (.unsuback id)] ∧
      HeldInv (step (runX {} es).1 (.packet c (.unsubscribe id ts))).1.topics.sroot
        (Mqtt.Spec.Broker.step (specRunX {} es).1 (.packet c (.unsubscribe id ts))).1.held) :=
  Mqtt.Proofs.BrokerRefine.subunsub_refinesX es hok c id hl

end Mqtt.Properties.C07
