/-
C07 — SUBSCRIBE and UNSUBSCRIBE are always acknowledged and take effect at the
acknowledgement.

Property theorems only (helper lemmas: `Proofs/BrokerFanout*.lean`).  Model:
`Model/Broker.lean` (`packet`, `subscribeLoop`, `sendRetained`) over the topic
store `Model/Topics.lean`; specification: `Spec/Broker.lean` (`subCode`).  All
theorems quantify over every state satisfying the representation invariant
`Inv` (which `step` preserves from the initial state: `C07_inv_step`).
-/
import Mqtt.Proofs.BrokerFanout

set_option linter.unusedSimpArgs false

namespace Mqtt.Properties.C07
open Mqtt.Iface.Broker Mqtt.Model.Broker Mqtt.Proofs.Broker
open Mqtt.Model.Topics (MemTopics)
open Mqtt.Proofs.Topics (good)

/-- the return code for one requested (filter, QoS byte), read off the topic
store's own answer: the granted QoS `min(requested, server maximum)` if
`MemTopics.subscribe` accepts the pair, 0x80 if it rejects it -/
def grantCode (mt : MemTopics) (c : Nat) (tq : Bytes × Nat) : Nat :=
  match (mt.subscribe Mqtt.Generated.maxQosAllowed tq.1 tq.2 c).2 with
  | some _ => min tq.2 Mqtt.Generated.maxQosAllowed
  | none => 0x80

/-! ### (a) one SUBACK, first, same identifier, one code per filter in request order -/

/-- A SUBSCRIBE on a live connection: the first output is the SUBACK to that
connection with the request's identifier and exactly one return code per
requested filter, in request order - `min(requested, maximum)` where the store
accepts the filter, 0x80 where it rejects it (whatever state `mt` the store is
in: acceptance depends on the request only).  Everything after the SUBACK is a
PUBLISH to the same connection (retained delivery), so there is no second
SUBACK and the request is never dropped. -/
theorem C07_suback_shape (b : B) (hinv : Inv b) (c id : Nat) (topics : List (Bytes × Nat))
    (hl : b.alive c = true) :
    ∃ codes rest, (packet b c (.subscribe id topics)).2 = .send c (.suback id codes) :: rest ∧
      codes.length = topics.length ∧
      (∀ mt : MemTopics, codes = topics.map (grantCode mt c)) ∧
      (∀ o ∈ rest, isPublishTo c o = true) ∧
      (∀ o ∈ rest, ∀ d i cs, o ≠ .send d (.suback i cs)) := by
  obtain ⟨cn, s, hc, ha, hs⟩ := hinv.live b c hl
  rw [packet_subscribe b c cn s id topics hc ha hs]
  have hcodes := subscribeLoop_codes c topics b s [] []
  have hconns := (subscribeLoop_conns c topics b s [] []).1
  generalize subscribeLoop b c s topics [] [] = r at *
  obtain ⟨b1, s1, codes, rms⟩ := r
  simp only [List.nil_append] at hcodes hconns ⊢
  have hal : (b1.setSess s1).alive c = true := by
    rw [alive_congr b (b1.setSess s1) (by simp [hconns]) c]; exact hl
  have hshape := (sendRetained_shape c rms (b1.setSess s1)).2.2.2
  refine ⟨codes, (sendRetained (b1.setSess s1) c rms).2, ?_, ?_, ?_, hshape, ?_⟩
  · simp [send, hal]
  · rw [hcodes]; simp
  · intro mt
    rw [hcodes]
    apply List.map_congr_left
    intro tq _
    simp only [grantCode, modelCode, subscribe_snd]
    cases accepts tq.1 tq.2 <;> simp
  · intro o ho d i cs he
    have := hshape o ho
    rw [he] at this
    simp [isPublishTo] at this

/-- non-vacuity: a broker with one client ("a", connection 1) and a retained
message on "a/b"; SUBSCRIBE id 7 for "a/+" (QoS 1), "a/#/x" (invalid), "a/b"
with QoS byte 3 (invalid), "a/b" (QoS 0): SUBACK [1, 0x80, 0x80, 0] first, then
the retained message once per granted filter. -/
def exConnect (c : Nat) (cid : Bytes) : Ev :=
  .first c (.connect { protoName := [77, 81, 84, 84], version := 4, clean := true, will := none, clientId := cid }) true

def exState : B :=
  (run {} [exConnect 1 [97], exConnect 2 [98],
           .srvPub { qos := 1, retain := true, topic := [97, 47, 98], payload := [1, 2] }]).1

example :
    exState.alive 1 = true ∧
    (packet exState 1 (.subscribe 7 [([97, 47, 43], 1), ([97, 47, 35, 47, 120], 1), ([97, 47, 98], 3), ([97, 47, 98], 0)])).2 =
      [.send 1 (.suback 7 [1, 0x80, 0x80, 0]),
       .send 1 (.publish { qos := 1, retain := true, topic := [97, 47, 98], pktid := 1, payload := [1, 2] }),
       .send 1 (.publish { qos := 0, retain := true, topic := [97, 47, 98], pktid := 0, payload := [1, 2] })] := by
  decide

/-- For filters without empty and without '$'-led levels (findings B3, B4 are
outside), the codes are the specification's: `min(q, 2)` for a valid filter
with QoS byte <= 2, else 0x80. -/
theorem C07_codes_spec_partial (mt : MemTopics) (c : Nat) (topics : List (Bytes × Nat))
    (hg : ∀ tq ∈ topics, good tq.1 = true) :
    topics.map (grantCode mt c) = topics.map (fun tq => Mqtt.Spec.Broker.subCode tq.1 tq.2) := by
  apply List.map_congr_left
  intro tq htq
  rw [← modelCode_good tq.1 tq.2 (hg tq htq)]
  simp only [grantCode, modelCode, subscribe_snd]
  cases accepts tq.1 tq.2 <;> simp

/-- the full statement (all filters) -/
def C07_codes_spec_full : Prop :=
  ∀ (mt : MemTopics) (c : Nat) (topics : List (Bytes × Nat)),
    topics.map (grantCode mt c) = topics.map (fun tq => Mqtt.Spec.Broker.subCode tq.1 tq.2)

/-- false of the code as it is (finding B4): "a/$b" is a valid filter, the broker answers 0x80 -/
theorem C07_codes_spec_full_counterexample : ¬ C07_codes_spec_full := by
  intro h
  have := h MemTopics.new 1 [([97, 47, 36, 98], 1)]
  exact absurd this (by decide)

/-- the regenerated server maximum is the protocol's -/
theorem C07_facts_maxQos : Mqtt.Generated.maxQosAllowed = Mqtt.Spec.Broker.maxQos := facts_maxQos

/-! ### (b) UNSUBSCRIBE -/

/-- An UNSUBSCRIBE on a live connection is answered by exactly one packet: the
UNSUBACK with the request's identifier. -/
theorem C07_unsuback (b : B) (hinv : Inv b) (c id : Nat) (topics : List Bytes) (hl : b.alive c = true) :
    (packet b c (.unsubscribe id topics)).2 = [.send c (.unsuback id)] := by
  obtain ⟨cn, s, hc, ha, hs⟩ := hinv.live b c hl
  rw [packet_unsubscribe b c cn s id topics hc ha hs]
  simp [send, hl]

example : exState.alive 2 = true ∧
    (packet exState 2 (.unsubscribe 9 [[97, 47, 43], [120]])).2 = [.send 2 (.unsuback 9)] := by decide

end Mqtt.Properties.C07
