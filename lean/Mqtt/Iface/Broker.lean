/-
Vocabulary of the broker core: decoded packets, events on connections and the
in-process API, observable outputs.  No behaviour.
-/
namespace Mqtt.Iface.Broker

abbrev Bytes := List UInt8

/-- the fields of a PUBLISH packet -/
structure Pub where
  dup     : Bool := false
  qos     : Nat
  retain  : Bool := false
  topic   : Bytes
  pktid   : Nat := 0
  payload : Bytes
deriving DecidableEq, Repr, Inhabited

structure Will where
  topic   : Bytes
  payload : Bytes
  qos     : Nat
  retain  : Bool
deriving DecidableEq, Repr

/-- what the broker needs of a first packet.  A CONNECT is given by its fields
plus the protocol name/level pair as sent; other first packets by their kind. -/
structure Connect where
  protoName : Bytes
  version   : Nat
  reserved  : Bool := false          -- connect flags bit 0
  clean     : Bool
  will      : Option Will
  willQosNoWill : Nat := 0           -- will QoS bits when the will flag is clear (must be 0)
  willRetainNoWill : Bool := false   -- will retain bit when the will flag is clear (must be 0)
  clientId  : Bytes
  user      : Option Bytes := none
  pass      : Option Bytes := none
  keepAlive : Nat := 30
deriving DecidableEq, Repr

inductive First where
  | connect (c : Connect)
  | other (ptype : Nat)               -- a well-formed packet of another type
  | garbage                           -- bytes that do not frame/decode as any packet
deriving Repr

inductive Packet where
  | connack (sp : Bool) (code : Nat)
  | publish (p : Pub)
  | puback (id : Nat) | pubrec (id : Nat) | pubrel (id : Nat) | pubcomp (id : Nat)
  | subscribe (id : Nat) (topics : List (Bytes × Nat))
  | suback (id : Nat) (codes : List Nat)
  | unsubscribe (id : Nat) (topics : List Bytes)
  | unsuback (id : Nat)
  | pingreq | pingresp | disconnect
  | connectAgain                      -- a CONNECT on an already accepted connection
deriving DecidableEq, Repr

inductive Ev where
  | first (c : Nat) (f : First) (authOk : Bool)   -- first packet on a new connection
  | packet (c : Nat) (p : Packet)
  | close (c : Nat)                               -- peer closes the socket / keep-alive expiry
  | srvPub (p : Pub)
  | srvSub (cb : Nat) (filter : Bytes) (qos : Nat)
  | srvUnsub (cb : Nat) (filter : Bytes)
deriving Repr

/-- one observable effect -/
inductive Out where
  | send (c : Nat) (p : Packet)        -- packet written to connection c
  | closed (c : Nat)                   -- connection c closed by the broker
  | call (cb : Nat) (p : Pub)          -- in-process callback invoked
  | apiErr                             -- the in-process call returned an error
deriving DecidableEq, Repr

end Mqtt.Iface.Broker
