/-
Interface vocabulary of the codec core: the operations of the line protocol and
the setter calls of the public `message` API.  Shared by the code-shaped model
and the specification; contains no behaviour.
-/
namespace Mqtt.Iface.Codec

abbrev Bytes := List UInt8

/-- One call of a setter of the public API.  Numeric arguments are what the
harness passes (`byte(v)` / `uint16(v)` of a decimal token). -/
inductive Setter where
  | id (v : Nat)                      -- SetPacketID
  | dup (b : Bool)                    -- PublishMessage.SetDup
  | retain (b : Bool)                 -- PublishMessage.SetRetain
  | qos (v : Nat)                     -- PublishMessage.SetQoS
  | topic (bs : Bytes)                -- PublishMessage.SetTopic
  | payload (bs : Bytes)              -- PublishMessage.SetPayload
  | addSub (t : Bytes) (q : Nat)      -- SubscribeMessage.AddTopic
  | addUnsub (t : Bytes)              -- UnsubscribeMessage.AddTopic
  | remove (t : Bytes)                -- (Un)SubscribeMessage.RemoveTopic
  | code (c : Nat)                    -- SubackMessage.AddReturnCode
  | sessionPresent (b : Bool)         -- ConnackMessage.SetSessionPresent
  | returnCode (c : Nat)              -- ConnackMessage.SetReturnCode
  | version (v : Nat)                 -- ConnectMessage.SetVersion
  | clean (b : Bool)                  -- SetCleanSession
  | willFlag (b : Bool)               -- SetWillFlag
  | willQos (q : Nat)                 -- SetWillQos
  | willRetain (b : Bool)             -- SetWillRetain
  | userFlag (b : Bool)               -- SetUsernameFlag
  | passFlag (b : Bool)               -- SetPasswordFlag
  | keepAlive (v : Nat)               -- SetKeepAlive
  | clientId (bs : Bytes)             -- SetClientID
  | willTopic (bs : Bytes)            -- SetWillTopic
  | willMessage (bs : Bytes)          -- SetWillMessage
  | username (bs : Bytes)             -- SetUsername
  | password (bs : Bytes)             -- SetPassword
deriving Repr, DecidableEq

inductive Op where
  /-- `Type(t).New()` then `Decode(bs)` on a slice with `cap == len` -/
  | dec (t : Nat) (bs : Bytes)
  /-- fresh message of type `t` (or one decoded from `src`), setters, then `Len`, `Encode`, `Decode` again;
  `ctr`: value of the process-wide identifier counter before `Encode` -/
  | build (t : Nat) (src : Option Bytes) (ctr : Option Nat) (setters : List Setter)
  /-- `count` packets needing an automatic identifier, counter starting at `start` -/
  | idseq (start count : Nat)
deriving Repr

end Mqtt.Iface.Codec
