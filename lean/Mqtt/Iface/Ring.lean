/-
Interface vocabulary of the byte ring (`service/buffer.go`): threads, the API
calls a thread program is made of, and error classes.  Shared by the
code-shaped model and the specification; contains no behaviour.
-/
namespace Mqtt.Iface.Ring

/-- The threads of one ring: one producer, one consumer, any number of closers. -/
inductive Tid where
  | p
  | c
  | k (i : Nat)
deriving DecidableEq, Repr, Inhabited

/-- error classes (error text is never compared) -/
inductive Err where
  | ok
  | eof      -- io.EOF
  | full     -- bufio.ErrBufferFull
  | insuf    -- ErrBufferInsufficientData
  | nouse    -- harness-level: `wfill`/`use` without a slice/view, a frame used as a call
deriving DecidableEq, Repr, Inhabited

/-- One API call of a thread program.  `wfill` (the producer writes the stream
into the slice `WriteWait` handed out) and `use` (the consumer reads the bytes of
the view `ReadPeek`/`ReadWait` handed out) are the caller's own accesses to ring
memory between two calls.  `wcommit n` commits `min n (bytes filled)`, `commit n` commits
`min n (bytes used)`: a caller commits only what it has written resp. looked at.

`rfrom tot ms` is a whole `ReadFrom(r)`: `tot` = bytes read so far (0 in a thread program),
`ms` = the script of the reader `r`: its k-th `Read(p)` returns `min ms[k] (len p)` bytes and
no error, after the script `(0, io.EOF)`.  `ReadFrom` is the only ring method that calls other
ring methods while it has live locals of its own; while it is inside such a call the model keeps
these locals in the `cur` field of the thread as a FRAME: `rfrom tot ms` while inside
`waitForWriteSpace(1)`, `rfcommit tot ms` while inside `WriteCommit(n)` (`tot` already includes
`n`, `ms` is the rest of the script), `rfret n e` while the deferred `Close` runs (`(n, e)` = the
values `ReadFrom` returns).  As calls of a thread program the two frame-only constructors are
no ring calls (they return `nouse` at once). -/
inductive Call where
  | write (n : Nat)
  | wwait (n : Nat)
  | wfill
  | wcommit (n : Nat)
  | rfrom (tot : Nat) (ms : List Nat)
  | rfcommit (tot : Nat) (ms : List Nat)
  | rfret (n : Nat) (e : Err)
  | read (n : Nat)
  | peek (n : Nat)
  | rwait (n : Nat)
  | use
  | commit (n : Nat)
  | close
  | len
deriving DecidableEq, Repr, Inhabited

def Call.isProducer : Call → Bool
  | .write _ | .wwait _ | .wfill | .wcommit _ | .rfrom _ _ | .rfcommit _ _ | .rfret _ _ => true
  | _ => false

def Call.isConsumer : Call → Bool
  | .read _ | .peek _ | .rwait _ | .use | .commit _ => true
  | _ => false

/-- which calls a thread of each role may make -/
def Tid.allowed (t : Tid) (c : Call) : Bool :=
  match t with
  | .p => c.isProducer || c == .close || c == .len
  | .c => c.isConsumer || c == .close || c == .len
  | .k _ => c == .close || c == .len

end Mqtt.Iface.Ring
