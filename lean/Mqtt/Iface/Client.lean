/-
Vocabulary of the client role (`service.Client` against a peer): API calls,
packets from the peer, observable outputs.  No behaviour.
-/
import Mqtt.Iface.Broker

namespace Mqtt.Iface.Client
open Mqtt.Iface.Broker

/-- what the peer does after receiving the client's CONNECT -/
inductive Answer where
  | connack (sp : Bool) (code : Nat)     -- a well-formed CONNACK (code 0..5)
  | badConnack                            -- a CONNACK-typed packet that does not decode (bad flags / code > 5)
  | other                                 -- a well-formed packet of another type
  | close                                 -- closes without answering
deriving DecidableEq, Repr

inductive Api where
  | publish (p : Pub) (tag : Nat)                                    -- tag 0: no completion callback
  /-- `cb` is the identity of this request's message callback (the `&onPublish` pointer the call allocates: fresh per request) -/
  | subscribe (id : Nat) (topics : List (Bytes × Nat)) (tag cb : Nat)
  | unsubscribe (id : Nat) (topics : List Bytes) (tag : Nat)
  | ping (tag : Nat)
deriving Repr

inductive Ev where
  | connect (a : Answer)
  | api (call : Api)
  | peer (p : Packet)
  /-- the acknowledgement `ack` reaches the client after the request of `call` was written but
  before the call has registered it in its ack queue -/
  | apiEarlyAck (call : Api) (ack : Packet)
deriving Repr

inductive Out where
  | connected                              -- Connect returned nil
  | refused (code : Nat)                   -- Connect returned the CONNACK code as error
  | connectErr                             -- Connect returned another error
  | wrote (p : Packet)                     -- packet written to the peer
  | complete (tag : Nat) (err : Bool)      -- completion callback `tag` invoked
  | deliver (cb : Nat) (p : Pub)           -- message callback `cb` invoked
  | apiErr
deriving DecidableEq, Repr

end Mqtt.Iface.Client
