/-
Interface vocabulary of an acknowledgement queue: the operations a history is
made of.  Shared by the code-shaped model and the specification; contains no
behaviour.
-/
namespace Mqtt.Iface.AckQ

/-- What `Wait` is handed: the dynamic type of the message and what is read
from it.  `enc = none`: the request cannot be serialised. -/
inductive WaitMsg where
  | publish (qos : Nat) (pktid : Nat) (enc : Option (List UInt8))
  | subscribe (pktid : Nat) (enc : Option (List UInt8))
  | unsubscribe (pktid : Nat) (enc : Option (List UInt8))
  | pingreq (enc : List UInt8)
  | other
deriving Repr

inductive Op where
  | wait (m : WaitMsg) (tag : Nat)
  | ack (mtype pktid : Nat) (bytes : List UInt8)
  | acked
deriving Repr

end Mqtt.Iface.AckQ
