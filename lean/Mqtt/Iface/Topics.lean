/- Operation vocabulary of the topic store (no behaviour). -/
namespace Mqtt.Iface.Topics

inductive Op where
  | sub (filter : List UInt8) (qos sub : Nat)
  | unsub (filter : List UInt8) (sub : Nat)
  | unsubAll (filter : List UInt8)
  | subs (name : List UInt8) (qos : Nat)
  | retain (name : List UInt8) (qos : Nat) (payload : List UInt8)
  | retained (filter : List UInt8)
deriving Repr

end Mqtt.Iface.Topics
