/- Driver glue for the keep-alive scenarios (`ka …` lines).

The "deaf" scenario kinds (a subject that has stopped READING) are computed on the connection
life-cycle model (`Model/Lifecycle.lean`, the model of C16): the buffer condition the harness
builds is reached by fair round-robin from an initial state, then the client is silent — the read
deadline fires if a socket read is pending — and the outcome is what round-robin reaches. -/
import Mqtt.Model.KeepAlive
import Mqtt.Model.Lifecycle
import Mqtt.Driver.Util

namespace Mqtt.Driver.KeepAlive
open Mqtt.Model.KeepAlive

structure Scn where
  id : Nat
  k : Nat
  intervalMs : Nat
  count : Nat
  kind : String := "ping"

structure St where
  scns : List Scn := []

namespace Deaf
open Mqtt.Model.Lifecycle

/-- the harness's broker for the deaf kinds: 16 KiB rings, 8 KiB read / write blocks -/
def cfg : Cfg := { cap := 16384, rblock := 8192, wblock := 8192 }

/-- PUBLISH "echo/<id>" with 4000 payload bytes = 4011 bytes; `own`: the subject is subscribed to it itself -/
def echoPkt : Pkt := ⟨3, 4011, .normal [.own 4011]⟩

def fuel : Nat := 4000

/-- the subject connection as the harness sets it up (will set, clean session, client not reading):
* `deafecho`:  the subject sends ring/packet + 1 = 5 echo packets
* `deafflood`: it keeps sending until its writes block (16 packets offered; the incoming ring takes the 5th to
  the 8th and the first 340 bytes of the 9th and is then completely full, the rest never leaves the client)
* `deafsub`:   it sends nothing; a third party's processor delivers 4011-byte packets to it -/
def initial (kind : String) : Option Mqtt.Model.Lifecycle.St :=
  let sh : Sh := { peerReads := false, willFlag := true, clean := true }
  match kind with
  | "deafecho" => some ({ sh := { sh with stream := List.replicate 5 echoPkt, wire := 5 * 4011 } } : Mqtt.Model.Lifecycle.St)
  | "deafflood" => some ({ sh := { sh with stream := List.replicate 16 echoPkt, wire := 16 * 4011 } } : Mqtt.Model.Lifecycle.St)
  | "deafsub" => some ({ sh := sh, ws := List.replicate 6 ⟨.check, 4011⟩ } : Mqtt.Model.Lifecycle.St)
  | _ => none

/-- the client is silent: round-robin to quiescence, the read deadline fires if a read is pending,
round-robin again -/
def outcome (kind : String) : Option String :=
  (initial kind).map fun s0 =>
    let s1 := drain cfg fuel s0
    let s2 := match estep cfg s1 .kaExpire with
      | some s => drain cfg fuel s
      | none => s1
    if TornDown s2 && Final s2 then
      s!"active=ok final=expired will={if s2.sh.effects.contains .will then 1 else 0} window=ok"
    else s!"active=ok final=alive will={if s2.sh.effects.contains .will then 1 else 0} window=never-closed"

end Deaf

/-- model: the active phase survives iff the interval is below the deadline; the
silent phase always ends in expiry, which is an abnormal end (will published). -/
def modelOutcome (s : Scn) : String :=
  let d := deadline (effective s.k)
  -- the deaf kinds: life-cycle model
  match Deaf.outcome s.kind with
  | some o => o
  | none =>
  -- "silentsub": the subject only subscribes and then sends nothing (a third party publishes to it
  -- every intervalMs): packets the broker SENDS do not count as activity
  if s.kind == "silentsub" then "active=ok final=expired will=1 window=ok"
  else if s.intervalMs * 1000000 < d then "active=ok final=expired will=1 window=ok"
  else "active=expired will=1 window=ok"

/-- specification (property text): intervals shorter than K never expire; silence
well over 1.5 K does; in between nothing is demanded. -/
def specOutcome (s : Scn) : String :=
  if s.k == 0 then "*"
  -- a client that has stopped reading is, once it sends nothing any more, a silent client like any other
  else if s.kind == "deafsub" || s.kind == "deafecho" || s.kind == "deafflood" then "active=ok final=expired will=1"
  else if s.kind == "silentsub" then "active=ok final=expired will=1"
  else if s.intervalMs < s.k * 1000 then "active=ok final=expired will=1"
  else if 2 * s.intervalMs > 3 * s.k * 1000 + 600 then "active=expired will=1"
  else "*"

def handle (st : St) (ws : List String) : St × String × String :=
  match ws with
  | ["reset"] => ({}, "reset", "reset")
  | ["start", id, k, iv, cnt, kind] =>
    match id.toNat?, k.toNat?, iv.toNat?, cnt.toNat? with
    | some id, some k, some iv, some cnt => ({ st with scns := ⟨id, k, iv, cnt, kind⟩ :: st.scns }, "started", "started")
    | _, _, _, _ => (st, "bad-op", "bad-op")
  | ["wait", id] =>
    match id.toNat?.bind (fun i => st.scns.find? (fun s => s.id == i)) with
    | some s => (st, modelOutcome s, specOutcome s)
    | none => (st, "bad-op", "bad-op")
  | _ => (st, "bad-op", "bad-op")

end Mqtt.Driver.KeepAlive
