/- Driver glue for the keep-alive scenarios (`ka …` lines). -/
import Mqtt.Model.KeepAlive
import Mqtt.Driver.Util

namespace Mqtt.Driver.KeepAlive
open Mqtt.Model.KeepAlive

structure Scn where
  id : Nat
  k : Nat
  intervalMs : Nat
  count : Nat
  kind : String := "ping"

structure St where
  scns : List Scn := []

/-- model: the active phase survives iff the interval is below the deadline; the
silent phase always ends in expiry, which is an abnormal end (will published). -/
def modelOutcome (s : Scn) : String :=
  let d := deadline (effective s.k)
  -- "silentsub": the subject only subscribes and then sends nothing (a third party publishes to it
  -- every intervalMs): packets the broker SENDS do not count as activity
  if s.kind == "silentsub" then "active=ok final=expired will=1 window=ok"
  else if s.intervalMs * 1000000 < d then "active=ok final=expired will=1 window=ok"
  else "active=expired will=1 window=ok"

/-- specification (property text): intervals shorter than K never expire; silence
well over 1.5 K does; in between nothing is demanded. -/
def specOutcome (s : Scn) : String :=
  if s.k == 0 then "*"
  else if s.kind == "silentsub" then "active=ok final=expired will=1"
  else if s.intervalMs < s.k * 1000 then "active=ok final=expired will=1"
  else if 2 * s.intervalMs > 3 * s.k * 1000 + 600 then "active=expired will=1"
  else "*"

def handle (st : St) (ws : List String) : St × String × String :=
  match ws with
  | ["reset"] => ({}, "reset", "reset")
  | ["start", id, k, iv, cnt, kind] =>
    match id.toNat?, k.toNat?, iv.toNat?, cnt.toNat? with
    | some id, some k, some iv, some cnt => ({ st with scns := ⟨id, k, iv, cnt, kind⟩ :: st.scns }, "started", "started")
    | _, _, _, _ => (st, "bad-op", "bad-op")
  | ["wait", id] =>
    match id.toNat?.bind (fun i => st.scns.find? (fun s => s.id == i)) with
    | some s => (st, modelOutcome s, specOutcome s)
    | none => (st, "bad-op", "bad-op")
  | _ => (st, "bad-op", "bad-op")

end Mqtt.Driver.KeepAlive
