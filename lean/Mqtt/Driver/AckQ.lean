/- Driver glue for Core C: parses `ackq …` lines, runs model and specification. -/
import Mqtt.Model.AckQueue
import Mqtt.Spec.Fifo
import Mqtt.Driver.Util

namespace Mqtt.Driver.AckQ
open Mqtt.Driver Mqtt.Model.AckQueue Mqtt.Generated Mqtt.Iface.AckQ

def parseEnc (s : String) : Option (Option (List UInt8)) :=
  if s == "!" then some none else (unhex s).map some

def parseOp : List String → Option Op
  | ["wait", "pub", qos, id, enc, tag] => do
      let e ← parseEnc enc
      pure (.wait (.publish (← qos.toNat?) (← id.toNat?) e) (← tag.toNat?))
  | ["wait", "sub", id, enc, tag] => do
      pure (.wait (.subscribe (← id.toNat?) (← parseEnc enc)) (← tag.toNat?))
  | ["wait", "unsub", id, enc, tag] => do
      pure (.wait (.unsubscribe (← id.toNat?) (← parseEnc enc)) (← tag.toNat?))
  | ["wait", "ping", enc, tag] => do
      pure (.wait (.pingreq (← unhex enc)) (← tag.toNat?))
  | ["wait", "other", tag] => do pure (.wait .other (← tag.toNat?))
  | ["ack", t, id, bytes] => do pure (.ack (← t.toNat?) (← id.toNat?) (← unhex bytes))
  | ["acked"] => some .acked
  | _ => none

def showEntry (mtype state id : Nat) (req ack : List UInt8) (tag : Nat) : String :=
  s!"{mtype},{state},{id},{hexOf req},{hexOf ack},{tag}"

def showOut : Out → String
  | .ok b => s!"ok {boolStr b}"
  | .released l =>
    "rel [" ++ ";".intercalate (l.map (fun a => showEntry a.mtype a.state a.pktid a.msgbuf a.ackbuf a.tag)) ++ "]"

def showSOut : Mqtt.Spec.Fifo.SOut → String
  | .ok b => s!"ok {boolStr b}"
  | .released l =>
    "rel [" ++ ";".intercalate (l.map (fun e => showEntry e.mtype e.state e.id e.req e.ack e.tag)) ++ "]"

structure St where
  q : Q
  s : Mqtt.Spec.Fifo.S

def St.init : St := ⟨Mqtt.Model.AckQueue.init, Mqtt.Spec.Fifo.empty⟩

/-- one line → (state, model output, spec output) -/
def handle (st : St) (ws : List String) : St × String × String :=
  match ws with
  | ["reset"] => (St.init, "reset", "reset")
  | _ =>
    match parseOp ws with
    | none => (st, "bad-op", "bad-op")
    | some op =>
      let (q, o) := step st.q op
      let (s, so) := Mqtt.Spec.Fifo.step st.s op
      (⟨q, s⟩, showOut o ++ s!" n={q.count} cap={q.size}", showSOut so)

end Mqtt.Driver.AckQ
