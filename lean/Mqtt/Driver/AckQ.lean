/- Driver glue for Core C: parses `ackq …` lines, runs model and specification. -/
import Mqtt.Model.AckQueue
import Mqtt.Spec.Fifo
import Mqtt.Driver.Util

namespace Mqtt.Driver.AckQ
open Mqtt.Driver Mqtt.Model.AckQueue Mqtt.Generated

def parseEnc (s : String) : Option (Option (List UInt8)) :=
  if s == "!" then some none else (unhex s).map some

def parseOp : List String → Option Op
  | ["wait", "pub", qos, id, enc, tag] => do
      let e ← parseEnc enc
      pure (.wait (.publish (← qos.toNat?) (← id.toNat?) e) (← tag.toNat?))
  | ["wait", "sub", id, enc, tag] => do
      pure (.wait (.subscribe (← id.toNat?) (← parseEnc enc)) (← tag.toNat?))
  | ["wait", "unsub", id, enc, tag] => do
      pure (.wait (.unsubscribe (← id.toNat?) (← parseEnc enc)) (← tag.toNat?))
  | ["wait", "ping", enc, tag] => do
      pure (.wait (.pingreq (← unhex enc)) (← tag.toNat?))
  | ["wait", "other", tag] => do pure (.wait .other (← tag.toNat?))
  | ["ack", t, id, bytes] => do pure (.ack (← t.toNat?) (← id.toNat?) (← unhex bytes))
  | ["acked"] => some .acked
  | _ => none

def showEntry (mtype state id : Nat) (req ack : List UInt8) (tag : Nat) : String :=
  s!"{mtype},{state},{id},{hexOf req},{hexOf ack},{tag}"

def showOut : Out → String
  | .ok b => s!"ok {boolStr b}"
  | .released l =>
    "rel [" ++ ";".intercalate (l.map (fun a => showEntry a.mtype a.state a.pktid a.msgbuf a.ackbuf a.tag)) ++ "]"

/-! The specification stream: `Spec.Fifo` driven by the same operations.  This
mirrors `Properties/C13.specStep` (kept here, Mathlib-free and executable, so the
driver can be linked); `Properties/C13` proves the two streams equal. -/
open Mqtt.Spec in
def specStep (s : Fifo.S) (op : Op) : Fifo.S × String :=
  let term := fun t => ackedReleaseStates.contains t
  let reg (s : Fifo.S) (mt id : Nat) (enc : Option (List UInt8)) (tag : Nat) : Fifo.S :=
    match enc with
    | some b => Fifo.register s ⟨mt, 0, id, b, [], tag⟩
    | none => s
  match op with
  | .wait (.publish qos id enc) tag =>
      if qos == 0 then (s, "ok false") else (reg s tPUBLISH id enc tag, "ok true")
  | .wait (.subscribe id enc) tag => (reg s tSUBSCRIBE id enc tag, "ok true")
  | .wait (.unsubscribe id enc) tag => (reg s tUNSUBSCRIBE id enc tag, "ok true")
  | .wait (.pingreq enc) tag => ({ s with ping := some ⟨tPINGREQ, 0, 0, enc, [], tag⟩ }, "ok true")
  | .wait .other _ => (s, "ok false")
  | .ack t id bytes =>
      if ackIdTypes.contains t then (Fifo.ackId s t id bytes, "ok true")
      else if t == ackPingType then
        ({ s with ping := s.ping.map (fun e => { e with state := tPINGRESP, ack := bytes }) }, "ok true")
      else (s, "ok false")
  | .acked =>
      let pingDone := match s.ping with
        | some e => e.state == tPINGRESP
        | none => false
      let s1 : Fifo.S := if pingDone then { s with ping := none } else s
      let pl := if pingDone then s.ping.toList else []
      let (s2, l) := Fifo.collect term s1
      (s2, "rel [" ++ ";".intercalate ((pl ++ l).map
        (fun e => showEntry e.mtype e.state e.id e.req e.ack e.tag)) ++ "]")

structure St where
  q : Q
  s : Mqtt.Spec.Fifo.S

def St.init : St := ⟨Mqtt.Model.AckQueue.init, Mqtt.Spec.Fifo.empty⟩

/-- one line → (state, model output, spec output) -/
def handle (st : St) (ws : List String) : St × String × String :=
  match ws with
  | ["reset"] => (St.init, "reset", "reset")
  | _ =>
    match parseOp ws with
    | none => (st, "bad-op", "bad-op")
    | some op =>
      let (q, o) := step st.q op
      let (s, so) := specStep st.s op
      (⟨q, s⟩, showOut o ++ s!" n={q.count} cap={q.size}", so)

end Mqtt.Driver.AckQ
