/- Line-protocol helpers shared by the per-core drivers (core-only). -/
namespace Mqtt.Driver

def hexDigit (n : Nat) : Char :=
  if n < 10 then Char.ofNat (48 + n) else Char.ofNat (87 + n)

def hexOf (bs : List UInt8) : String :=
  if bs.isEmpty then "-" else
  String.ofList (bs.flatMap (fun b => [hexDigit (b.toNat / 16), hexDigit (b.toNat % 16)]))

def hexVal (c : Char) : Option Nat :=
  if '0' ≤ c ∧ c ≤ '9' then some (c.toNat - 48)
  else if 'a' ≤ c ∧ c ≤ 'f' then some (c.toNat - 87)
  else if 'A' ≤ c ∧ c ≤ 'F' then some (c.toNat - 55)
  else none

def unhexAux : List Char → List UInt8 → Option (List UInt8)
  | [], acc => some acc.reverse
  | [_], _ => none
  | a :: b :: rest, acc =>
    match hexVal a, hexVal b with
    | some x, some y => unhexAux rest (UInt8.ofNat (x * 16 + y) :: acc)
    | _, _ => none

/-- "-" is the empty byte string -/
def unhex (s : String) : Option (List UInt8) :=
  if s == "-" then some [] else unhexAux s.toList []

def words (line : String) : List String :=
  (line.splitOn " ").filter (fun w => w != "")

def boolStr (b : Bool) : String := if b then "true" else "false"

end Mqtt.Driver
