/- Driver glue for Core B: `topics …` lines. -/
import Mqtt.Model.Topics
import Mqtt.Spec.TopicStore
import Mqtt.Driver.Util

namespace Mqtt.Driver.Topics
open Mqtt.Driver Mqtt.Iface.Topics

def parseOp : List String → Option Op
  | ["sub", f, q, s] => do pure (.sub (← unhex f) (← q.toNat?) (← s.toNat?))
  | ["unsub", f, s] => do pure (.unsub (← unhex f) (← s.toNat?))
  | ["unsuball", f] => do pure (.unsubAll (← unhex f))
  | ["subs", t, q] => do pure (.subs (← unhex t) (← q.toNat?))
  | ["retain", t, q, p] => do pure (.retain (← unhex t) (← q.toNat?) (← unhex p))
  | ["retained", f] => do pure (.retained (← unhex f))
  | _ => none

/-- insertion sort on strings: canonical order for unordered results -/
def sortStrings (l : List String) : List String :=
  l.foldl (fun acc x =>
    let (a, b) := acc.span (fun y => y < x || y == x)
    a ++ [x] ++ b) []

def showSubs (l : List (Nat × Nat)) : String :=
  "subs [" ++ ",".intercalate (sortStrings (l.map (fun p => s!"{p.1}:{p.2}"))) ++ "]"

def showRets (l : List (List UInt8 × Nat × List UInt8)) : String :=
  "rets [" ++ ",".intercalate (sortStrings (l.map (fun r => s!"{hexOf r.1}:{r.2.1}:{hexOf r.2.2}"))) ++ "]"

open Mqtt.Model.Topics in
def modelStep (mt : MemTopics) : Op → MemTopics × String
  | .sub f q s =>
      match mt.subscribe 2 f q s with
      | (mt', some g) => (mt', s!"granted {g}")
      | (mt', none) => (mt', "err")
  | .unsub f s => let (mt', ok) := mt.unsubscribe f (some s); (mt', if ok then "ok" else "err")
  | .unsubAll f => let (mt', ok) := mt.unsubscribe f none; (mt', if ok then "ok" else "err")
  | .subs t q =>
      match mt.subscribers t q with
      | some l => (mt, showSubs l)
      | none => (mt, "err")
  | .retain t q p => let (mt', ok) := mt.retain { topic := t, qos := q, payload := p }; (mt', if ok then "ok" else "err")
  | .retained f =>
      match mt.retained f with
      | some l => (mt, showRets (l.map (fun m => (m.topic, m.qos, m.payload))))
      | none => (mt, "err")

open Mqtt.Spec.TopicStore in
def showSpec : Out → String
  | .granted g => s!"granted {g}"
  | .ok => "ok"
  | .err => "err"
  | .any => "*"
  | .subs l => showSubs l
  | .rets l => showRets (l.map (fun r => (r.topic, r.qos, r.payload)))

structure St where
  m : Mqtt.Model.Topics.MemTopics
  s : Mqtt.Spec.TopicStore.S

def St.init : St := ⟨Mqtt.Model.Topics.MemTopics.new, Mqtt.Spec.TopicStore.empty⟩

def handle (st : St) (ws : List String) : St × String × String :=
  match ws with
  | ["reset"] => (St.init, "reset", "reset")
  | _ =>
    match parseOp ws with
    | none => (st, "bad-op", "bad-op")
    | some op =>
      let (m, mo) := modelStep st.m op
      let (s, so) := Mqtt.Spec.TopicStore.step st.s op
      (⟨m, s⟩, mo, showSpec so)

end Mqtt.Driver.Topics
