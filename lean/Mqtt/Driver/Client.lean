/- Driver glue for the client role: `client …` lines. -/
import Mqtt.Model.Client
import Mqtt.Spec.Client
import Mqtt.Driver.Broker

namespace Mqtt.Driver.Client
open Mqtt.Driver Mqtt.Iface.Client
open Mqtt.Iface.Broker (Pub Packet Bytes)

def parsePeer : List String → Option Packet
  | ["suback", id, codes] => do
      let cs ← if codes == "-" then some [] else (codes.splitOn ",").mapM String.toNat?
      pure (.suback (← id.toNat?) cs)
  | ws => Broker.parsePacket ws

def parseApi : List String → Option Api
  | ["pub", d, q, r, t, id, p, tag] => do pure (.publish (← Broker.parsePub [d, q, r, t, id, p]) (← tag.toNat?))
  | ["sub", id, ts, tag, cb] => do pure (.subscribe (← id.toNat?) (← Broker.parseTopicQos ts) (← tag.toNat?) (← cb.toNat?))
  | ["unsub", id, ts, tag] => do pure (.unsubscribe (← id.toNat?) (← (ts.splitOn ",").mapM unhex) (← tag.toNat?))
  | ["ping", tag] => tag.toNat?.map .ping
  | _ => none

def splitAt (ws : List String) (sep : String) : List String × List String :=
  (ws.takeWhile (· != sep), (ws.dropWhile (· != sep)).drop 1)

def parseEv : List String → Option Ev
  | ["connect", "connack", sp, code] => do pure (.connect (.connack (← Broker.parseBool sp) (← code.toNat?)))
  -- the same answer sent in two TCP segments
  | ["connect", "connacks", sp, code] => do pure (.connect (.connack (← Broker.parseBool sp) (← code.toNat?)))
  | ["connect", "bad"] => some (.connect .badConnack)
  | ["connect", "other"] => some (.connect .other)
  | ["connect", "close"] => some (.connect .close)
  | "api" :: rest => (parseApi rest).map .api
  | "peer" :: rest => (parsePeer rest).map .peer
  | "early" :: rest =>
    let (a, b) := splitAt rest "|"
    do pure (.apiEarlyAck (← parseApi a) (← parsePeer b))
  | _ => none

def showPkt : Packet → String
  | .subscribe id ts => s!"SUBSCRIBE {id} " ++ ",".intercalate (ts.map (fun t => s!"{hexOf t.1}:{t.2}"))
  | .unsubscribe id ts => s!"UNSUBSCRIBE {id} " ++ ",".intercalate (ts.map hexOf)
  | p => Broker.showPacket p

/-- replace the identifier word of a packet text by `+` (any non-zero identifier) -/
def autoId (p : Packet) : String :=
  match p with
  | .publish pb => s!"PUB {Broker.b01 pb.dup} {pb.qos} {Broker.b01 pb.retain} {hexOf pb.topic} + {hexOf pb.payload}"
  | .subscribe _ ts => "SUBSCRIBE + " ++ ",".intercalate (ts.map (fun t => s!"{hexOf t.1}:{t.2}"))
  | .unsubscribe _ ts => "UNSUBSCRIBE + " ++ ",".intercalate (ts.map hexOf)
  | p => showPkt p

def showOut : Out → String
  | .connected => "CONNECTED"
  | .refused k => s!"REFUSED {k}"
  | .connectErr => "CONNECTERR"
  | .wrote p => "W " ++ showPkt p
  | .complete tag err => s!"DONE {tag} {Broker.b01 err}"
  | .deliver cb p => s!"CB {cb} " ++ Broker.showPub (if p.qos == 0 then { p with pktid := 0 } else p) false
  | .apiErr => "apierr"

def isCb (s : String) : Bool := s.startsWith "CB "

/-- callbacks of one dispatch are invoked in map order: sort runs of CB items -/
def sortCbRuns (items : List String) : List String :=
  let rec go (rest run acc : List String) : List String :=
    match rest with
    | [] => acc ++ Topics.sortStrings run
    | x :: xs => if isCb x then go xs (run ++ [x]) acc else go xs [] (acc ++ Topics.sortStrings run ++ [x])
  go items [] []

/-- canonical order of one event's outputs (what the peer received and what the
callbacks logged are two streams whose interleaving is not observable):
connect result / api error, packets written (in order), completions (in order),
message callbacks (sorted). -/
def line (items : List String) : String :=
  let isW (s : String) := s.startsWith "W "
  let isDone (s : String) := s.startsWith "DONE "
  let other := items.filter (fun s => !isW s && !isDone s && !isCb s)
  let all := other ++ items.filter isW ++ items.filter isDone ++ Topics.sortStrings (items.filter isCb)
  if all.isEmpty then "-" else ";".intercalate all

/-! ### identifiers the library assigns

The reference client does not say *which* identifier the library gives a request that comes
without one - only that it is non-zero, fits 16 bits and differs from the identifiers in flight
(`Spec.Client.idAllowed`).  In the specification stream such a request is known by a *name*
outside the 16-bit range (`Spec.Client.autoName`), printed as `+` (any non-zero identifier)
followed by `!` and the identifiers it must differ from.  An acknowledgement on an op line names
its request as `#<tag>`; every stream resolves that to what *it* wrote the request with (the
scripted peer acknowledges the identifier it received). -/

def specId (excl : String) (id : Nat) : String := if id ≥ 65536 then "+" ++ excl else toString id

open Mqtt.Spec.Client in
/-- packet text of the specification stream: named identifiers are printed as `+` -/
def showPktS (excl : String) : Packet → String
  | .publish pb =>
    if pb.qos == 0 then showPkt (.publish pb) else
    s!"PUB {Broker.b01 pb.dup} {pb.qos} {Broker.b01 pb.retain} {hexOf pb.topic} {specId excl pb.pktid} {hexOf pb.payload}"
  | .subscribe id ts => s!"SUBSCRIBE {specId excl id} " ++ ",".intercalate (ts.map (fun t => s!"{hexOf t.1}:{t.2}"))
  | .unsubscribe id ts => s!"UNSUBSCRIBE {specId excl id} " ++ ",".intercalate (ts.map hexOf)
  | .puback id => s!"PUBACK {specId "" id}"
  | .pubrec id => s!"PUBREC {specId "" id}"
  | .pubrel id => s!"PUBREL {specId "" id}"
  | .pubcomp id => s!"PUBCOMP {specId "" id}"
  | p => showPkt p

open Mqtt.Spec.Client in
def showSpec (excl : String) : SOut → String
  | .out (.wrote p) => "W " ++ showPktS excl p
  | .out o => showOut o
  | .wroteAutoId p => "W " ++ autoId p
  | .deliverTo cb t p => s!"CB {cb} PUB * * * {hexOf t} * {hexOf p}"
  | .completeAny tag => s!"DONE {tag} *"

structure St where
  m : Mqtt.Model.Client.C := {}
  s : Mqtt.Spec.Client.S := {}
  cbs : List Nat := []       -- message callback ids used by the Subscribe calls of this episode
  mIds : List (Nat × Nat) := []   -- completion tag ↦ identifier the model wrote the request with
  sIds : List (Nat × Nat) := []   -- completion tag ↦ identifier / name the reference client knows it by
  autos : Nat := 0                -- requests named so far

/-- the callback id of a Subscribe call -/
def subCb : Api → Option Nat
  | .subscribe _ _ _ cb => some cb
  | _ => none

/-- identifier field and completion tag of a call whose request carries an identifier -/
def reqOf : Api → Option (Nat × Nat)
  | .publish p tag => if p.qos == 0 then none else some (p.pktid, tag)
  | .subscribe id _ tag _ => some (id, tag)
  | .unsubscribe id _ tag => some (id, tag)
  | .ping _ => none

def withId (id : Nat) : Api → Api
  | .publish p tag => .publish { p with pktid := id } tag
  | .subscribe _ ts tag cb => .subscribe id ts tag cb
  | .unsubscribe _ ts tag => .unsubscribe id ts tag
  | a => a

def writtenId : Out → Option Nat
  | .wrote (.publish p) => if p.qos == 0 then none else some p.pktid
  | .wrote (.subscribe id _) => some id
  | .wrote (.unsubscribe id _) => some id
  | _ => none

/-- replace the words `#<tag>` by the identifier recorded for the tag (0 if none) -/
def resolve (ids : List (Nat × Nat)) (ws : List String) : List String :=
  ws.map (fun w => if w.startsWith "#" then
    toString (((w.drop 1).toNat?.bind (fun t => ids.lookup t)).getD 0) else w)

/-- the words of an event line: (kind, call words, acknowledgement words) -/
def splitEv : List String → String × List String × List String
  | "api" :: rest => ("api", rest, [])
  | "early" :: rest => let (a, b) := splitAt rest "|"; ("early", a, b)
  | "peer" :: rest => ("peer", [], rest)
  | _ => ("", [], [])

def mkEv (kind : String) (call : Option Api) (ack : List String) : Option Ev :=
  match kind, call with
  | "api", some c => some (.api c)
  | "early", some c => (parsePeer ack).map (.apiEarlyAck c)
  | "peer", _ => (parsePeer ack).map .peer
  | _, _ => none

/-- A callback id stands for the *request* (`service.subscribe` allocates one `&onPublish` pointer
per call): a Subscribe under an id that an earlier Subscribe of the episode used is refused
(`bad-op`, as in the harness), so that "same callback" here is pointer identity there. -/
def handle (st : St) (ws : List String) : St × String × String :=
  match ws with
  | ["reset"] => ({}, "reset", "reset")
  | ["setctr", n] =>
    -- other users of the process-wide counter advanced it; the reference client has no counter
    match n.toNat? with
    | some v => ({ st with m := { st.m with ctr := v } }, "setctr", "setctr")
    | none => (st, "bad-op", "bad-op")
  | "connect" :: _ =>
    match parseEv ws with
    | none => (st, "bad-op", "bad-op")
    | some ev =>
      let (m, mo) := Mqtt.Model.Client.step st.m ev
      let (s, so) := Mqtt.Spec.Client.step st.s ev
      ({ st with m := m, s := s }, line (mo.map showOut), line (so.map (showSpec "")))
  | _ =>
    let (kind, callWs, ackWs) := splitEv ws
    let call := parseApi callWs
    if kind == "" || (kind != "peer" && call.isNone) then (st, "bad-op", "bad-op") else
    let cb := call.bind subCb
    if (cb.map st.cbs.contains).getD false then (st, "bad-op", "bad-op") else
    let cbs := match cb with | some x => x :: st.cbs | none => st.cbs
    let req := call.bind reqOf
    -- model stream: the request is known by the identifier the model writes it with
    let mIds := match call, req with
      | some c, some (_, tag) =>
        if st.m.connected then
          match (Mqtt.Model.Client.apiWrite st.m c).2.1.findSome? writtenId with
          | some id => (tag, id) :: st.mIds
          | none => st.mIds
        else st.mIds
      | _, _ => st.mIds
    -- specification stream: a request without identifier gets a name
    let named := match req with | some (id, _) => id == 0 && st.s.connected | none => false
    let name := Mqtt.Spec.Client.autoName st.autos
    let callS := if named then call.map (withId name) else call
    let sIds := match req with
      | some (id, tag) => if st.s.connected then (tag, if named then name else id) :: st.sIds else st.sIds
      | none => st.sIds
    let excl := "!" ++ ",".intercalate ((Mqtt.Spec.Client.inFlight st.s).filter (· < 65536) |>.map toString)
    match mkEv kind call (resolve mIds ackWs), mkEv kind callS (resolve sIds ackWs) with
    | some evM, some evS =>
      let (m, mo) := Mqtt.Model.Client.step st.m evM
      let (s, so) := Mqtt.Spec.Client.step st.s evS
      (⟨m, s, cbs, mIds, sIds, if named then st.autos + 1 else st.autos⟩,
       line (mo.map showOut), line (so.map (showSpec excl)))
    | _, _ => (st, "bad-op", "bad-op")

end Mqtt.Driver.Client
