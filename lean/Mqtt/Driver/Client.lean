/- Driver glue for the client role: `client …` lines. -/
import Mqtt.Model.Client
import Mqtt.Spec.Client
import Mqtt.Driver.Broker

namespace Mqtt.Driver.Client
open Mqtt.Driver Mqtt.Iface.Client
open Mqtt.Iface.Broker (Pub Packet Bytes)

def parsePeer : List String → Option Packet
  | ["suback", id, codes] => do
      let cs ← if codes == "-" then some [] else (codes.splitOn ",").mapM String.toNat?
      pure (.suback (← id.toNat?) cs)
  | ws => Broker.parsePacket ws

def parseApi : List String → Option Api
  | ["pub", d, q, r, t, id, p, tag] => do pure (.publish (← Broker.parsePub [d, q, r, t, id, p]) (← tag.toNat?))
  | ["sub", id, ts, tag, cb] => do pure (.subscribe (← id.toNat?) (← Broker.parseTopicQos ts) (← tag.toNat?) (← cb.toNat?))
  | ["unsub", id, ts, tag] => do pure (.unsubscribe (← id.toNat?) (← (ts.splitOn ",").mapM unhex) (← tag.toNat?))
  | ["ping", tag] => tag.toNat?.map .ping
  | _ => none

def splitAt (ws : List String) (sep : String) : List String × List String :=
  (ws.takeWhile (· != sep), (ws.dropWhile (· != sep)).drop 1)

def parseEv : List String → Option Ev
  | ["connect", "connack", sp, code] => do pure (.connect (.connack (← Broker.parseBool sp) (← code.toNat?)))
  | ["connect", "bad"] => some (.connect .badConnack)
  | ["connect", "other"] => some (.connect .other)
  | ["connect", "close"] => some (.connect .close)
  | "api" :: rest => (parseApi rest).map .api
  | "peer" :: rest => (parsePeer rest).map .peer
  | "early" :: rest =>
    let (a, b) := splitAt rest "|"
    do pure (.apiEarlyAck (← parseApi a) (← parsePeer b))
  | _ => none

def showPkt : Packet → String
  | .subscribe id ts => s!"SUBSCRIBE {id} " ++ ",".intercalate (ts.map (fun t => s!"{hexOf t.1}:{t.2}"))
  | .unsubscribe id ts => s!"UNSUBSCRIBE {id} " ++ ",".intercalate (ts.map hexOf)
  | p => Broker.showPacket p

/-- replace the identifier word of a packet text by `+` (any non-zero identifier) -/
def autoId (p : Packet) : String :=
  match p with
  | .publish pb => s!"PUB {Broker.b01 pb.dup} {pb.qos} {Broker.b01 pb.retain} {hexOf pb.topic} + {hexOf pb.payload}"
  | .subscribe _ ts => "SUBSCRIBE + " ++ ",".intercalate (ts.map (fun t => s!"{hexOf t.1}:{t.2}"))
  | .unsubscribe _ ts => "UNSUBSCRIBE + " ++ ",".intercalate (ts.map hexOf)
  | p => showPkt p

def showOut : Out → String
  | .connected => "CONNECTED"
  | .refused k => s!"REFUSED {k}"
  | .connectErr => "CONNECTERR"
  | .wrote p => "W " ++ showPkt p
  | .complete tag err => s!"DONE {tag} {Broker.b01 err}"
  | .deliver cb p => s!"CB {cb} " ++ Broker.showPub (if p.qos == 0 then { p with pktid := 0 } else p) false
  | .apiErr => "apierr"

def isCb (s : String) : Bool := s.startsWith "CB "

/-- callbacks of one dispatch are invoked in map order: sort runs of CB items -/
def sortCbRuns (items : List String) : List String :=
  let rec go (rest run acc : List String) : List String :=
    match rest with
    | [] => acc ++ Topics.sortStrings run
    | x :: xs => if isCb x then go xs (run ++ [x]) acc else go xs [] (acc ++ Topics.sortStrings run ++ [x])
  go items [] []

/-- canonical order of one event's outputs (what the peer received and what the
callbacks logged are two streams whose interleaving is not observable):
connect result / api error, packets written (in order), completions (in order),
message callbacks (sorted). -/
def line (items : List String) : String :=
  let isW (s : String) := s.startsWith "W "
  let isDone (s : String) := s.startsWith "DONE "
  let other := items.filter (fun s => !isW s && !isDone s && !isCb s)
  let all := other ++ items.filter isW ++ items.filter isDone ++ Topics.sortStrings (items.filter isCb)
  if all.isEmpty then "-" else ";".intercalate all

open Mqtt.Spec.Client in
def showSpec : SOut → String
  | .out o => showOut o
  | .wroteAutoId p => "W " ++ autoId p
  | .deliverTo cb t p => s!"CB {cb} PUB * * * {hexOf t} * {hexOf p}"
  | .completeAny tag => s!"DONE {tag} *"

structure St where
  m : Mqtt.Model.Client.C := {}
  s : Mqtt.Spec.Client.S := {}
  cbs : List Nat := []       -- message callback ids used by the Subscribe calls of this episode

/-- the callback id of a Subscribe call -/
def subCb : Ev → Option Nat
  | .api (.subscribe _ _ _ cb) => some cb
  | .apiEarlyAck (.subscribe _ _ _ cb) _ => some cb
  | _ => none

/-- A callback id stands for the *request* (`service.subscribe` allocates one `&onPublish` pointer
per call): a Subscribe under an id that an earlier Subscribe of the episode used is refused
(`bad-op`, as in the harness), so that "same callback" here is pointer identity there. -/
def handle (st : St) (ws : List String) : St × String × String :=
  match ws with
  | ["reset"] => ({}, "reset", "reset")
  | _ =>
    match parseEv ws with
    | none => (st, "bad-op", "bad-op")
    | some ev =>
      match subCb ev with
      | some cb =>
        if st.cbs.contains cb then (st, "bad-op", "bad-op") else
        let (m, mo) := Mqtt.Model.Client.step st.m ev
        let (s, so) := Mqtt.Spec.Client.step st.s ev
        (⟨m, s, cb :: st.cbs⟩, line (mo.map showOut), line (so.map showSpec))
      | none =>
        let (m, mo) := Mqtt.Model.Client.step st.m ev
        let (s, so) := Mqtt.Spec.Client.step st.s ev
        (⟨m, s, st.cbs⟩, line (mo.map showOut), line (so.map showSpec))

end Mqtt.Driver.Client
