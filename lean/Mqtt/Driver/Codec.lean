/- Driver glue for Core A: parses `codec …` lines, runs model and specification. -/
import Mqtt.Model.Codec
import Mqtt.Spec.Wire
import Mqtt.Spec.MessageApi
import Mqtt.Driver.Util

namespace Mqtt.Driver.Codec
open Mqtt.Driver Mqtt.Iface.Codec

abbrev Bytes := List UInt8

/-! ## byte string syntax (`hexx`), printing -/

def unhexPart (s : String) : Option Bytes :=
  match s.splitOn "*" with
  | [h] => unhexAux h.toList []
  | [n, b] => do
    let k ← n.toNat?
    match ← unhexAux b.toList [] with
    | [x] => some (List.replicate k x)
    | _ => none
  | _ => none

/-- parts joined by '.', a part is plain hex or `<n>*<bb>`; "-" is empty -/
def unhexx (s : String) : Option Bytes :=
  if s == "-" then some [] else
  (s.splitOn ".").foldlM (fun acc p => do let b ← unhexPart p; pure (acc ++ b)) []

def hexDigits8 (v : Nat) : String :=
  String.ofList ((List.range 8).reverse.map fun i => hexDigit (v / 16 ^ i % 16))

def fnv1a (bs : Bytes) : UInt32 :=
  bs.foldl (fun h c => (h ^^^ c.toUInt32) * 16777619) 2166136261

/-- hex when short, `#len:fnv1a` when long -/
def hx (bs : Bytes) : String :=
  if bs.length ≤ 48 then hexOf bs else s!"#{bs.length}:{hexDigits8 (fnv1a bs).toNat}"

def b01 (b : Bool) : String := if b then "1" else "0"

def showView (v : Nat × Nat) : String := if v.2 = 0 then "-" else s!"{v.1}+{v.2}"

/-! ## model side -/
section Model
open Mqtt.Model.Codec

def fieldsOfMsg : Msg → String
  | .connect _ c =>
    s!"ver={c.version.toNat} cf={c.connectFlags.toNat / 2 * 2} ka={c.keepAlive} cid={hx c.clientID} " ++
    s!"wt={hx (if c.willFlag then c.willTopic else [])} wm={hx (if c.willFlag then c.willMessage else [])} " ++
    s!"un={hx (if c.usernameFlag then c.username else [])} pw={hx (if c.passwordFlag then c.password else [])}"
  | .connack _ sp rc => s!"sp={b01 sp} rc={rc.toNat}"
  | .publish h topic payload =>
    s!"dup={b01 (pubDup h)} qos={pubQoS h} ret={b01 (pubRetain h)} topic={hx topic} " ++
    s!"id={if pubQoS h = 0 then 0 else h.packetID} payload={hx payload}"
  | .ack h => s!"id={h.packetID}"
  | .subscribe h ts qs =>
    s!"id={h.packetID} topics=[" ++
    ",".intercalate ((ts.zip qs).map fun p => s!"{hx p.1}:{p.2.toNat}") ++ "]"
  | .suback h codes => s!"id={h.packetID} codes={hx codes}"
  | .unsubscribe h ts => s!"id={h.packetID} topics=[" ++ ",".intercalate (ts.map hx) ++ "]"
  | .bare _ => "-"

/-- `full`: print the re-encoded bytes in full hex -/
def decLineModel (t : Nat) (src : Bytes) (ctr : UInt64) (full : Bool) : String × UInt64 :=
  match decodeNew t src with
  | .err => (s!"err n={decodeNewErrN t src}", ctr)
  | .panic => ("panic", ctr)
  | .ok d =>
    let l := d.msg.len
    let (re, ctr') :=
      match encode d.msg ctr l with
      | .ok e => ((if full then hexOf e.out else hx e.out), e.ctr)
      | .err => ("err", ctr)
      | .panic => ("panic", ctr)
    if re == "panic" then ("panic", ctr') else
    (s!"ok n={d.n} len={l} {fieldsOfMsg d.msg} v=[{",".intercalate (d.views.map showView)}] re={re}", ctr')

def bitsStr (bs : List Bool) : String := if bs.isEmpty then "-" else String.ofList (bs.map fun b => if b then '1' else '0')

def buildLineModel (t : Nat) (src : Option Bytes) (ctrOpt : Option Nat) (setters : List Setter) (ctr0 : UInt64) :
    String × UInt64 :=
  let start : Outcome Msg :=
    match src with
    | none => (match Msg.new t with | some m => .ok m | none => .panic)
    | some bs => (decodeNew t bs).bind fun d => .ok d.msg
  match start with
  | .err => ("from-err", ctr0)
  | .panic => ("panic", ctr0)
  | .ok m0 =>
    let r := applySetters m0 setters
    let m := r.1
    let ctr := match ctrOpt with | some c => UInt64.ofNat c | none => ctr0
    let l := m.len
    let idBefore := m.hdr.packetID
    match encode m ctr l with
    | .panic => ("panic", ctr)
    | .err => (s!"s={bitsStr r.2} len={l} enc=err", ctr)
    | .ok e =>
      let auto := idBefore = 0 && e.msg.hdr.packetID ≠ 0
      let (dl, ctr') := decLineModel t e.out e.ctr auto
      (s!"s={bitsStr r.2} len={l} enc=ok n={e.out.length} bytes={if auto then hexOf e.out else hx e.out} " ++
       s!"f[{fieldsOfMsg e.msg}] d[{dl}]", ctr')

def topicA : Bytes := [0x61]

/-- the message `idseq` encodes at step `i` (as the harness builds it) -/
def idseqMsg (i : Nat) : Msg × Nat :=
  let build (t : Nat) (ss : List Setter) : Msg × Nat :=
    match Msg.new t with
    | some m => ((applySetters m ss).1, t)
    | none => (.bare (Hdr.new 0), t)
  match i % 3 with
  | 0 => build 8 [.addSub topicA 0]
  | 1 => build 3 [.topic topicA, .payload [0x78], .qos 1]
  | _ => build 10 [.addUnsub topicA]

structure IdAcc where
  ctr : UInt64
  zero : Nat := 0
  bad : Nat := 0
  first : Nat := 0
  last : Nat := 0
  sum : UInt32 := 0

def idseqStep (a : IdAcc) (i : Nat) : IdAcc :=
  let (m, t) := idseqMsg i
  let l := m.len
  let (id, good, ctr) :=
    match encode m a.ctr l with
    | .ok e =>
      let id := e.msg.hdr.packetID
      let good :=
        e.out.length = l &&
        (match decodeNew t e.out with
         | .ok d => d.n = e.out.length && d.msg.hdr.packetID = id
         | _ => false)
      (id, good, e.ctr)
    | _ => (m.hdr.packetID, false, a.ctr)
  { ctr := ctr, zero := a.zero + (if id = 0 then 1 else 0), bad := a.bad + (if good then 0 else 1),
    first := if i = 0 then id else a.first, last := id, sum := a.sum * 31 + UInt32.ofNat id }

def idseqModel (start count : Nat) : String × UInt64 :=
  let a := (List.range count).foldl idseqStep { ctr := UInt64.ofNat start }
  (s!"ids n={count} zero={a.zero} bad={a.bad} first={a.first} last={a.last} sum={a.sum.toNat} ctr={a.ctr.toNat}", a.ctr)

end Model

/-! ## specification side -/
section Spec
open Mqtt.Spec.Wire Mqtt.Spec.MessageApi

def fieldsOfPacket (p : Packet) (autoId : Bool) : String :=
  let ids (id : UInt16) : String := if autoId then "?" else toString id.toNat
  match p with
  | .connect c =>
    s!"ver={c.level.toNat} cf={c.flags} ka={c.keepAlive.toNat} cid={hx c.clientId} " ++
    s!"wt={hx (match c.will with | some w => w.topic | none => [])} " ++
    s!"wm={hx (match c.will with | some w => w.message | none => [])} " ++
    s!"un={hx (c.username.getD [])} pw={hx (c.password.getD [])}"
  | .connack sp rc => s!"sp={b01 sp} rc={rc.toNat}"
  | .publish dup qos ret topic id payload =>
    s!"dup={b01 dup} qos={qos.toNat} ret={b01 ret} topic={hx topic} id={if qos = 0 then "0" else ids id} payload={hx payload}"
  | .puback id | .pubrec id | .pubrel id | .pubcomp id | .unsuback id => s!"id={id.toNat}"
  | .subscribe id fs =>
    s!"id={ids id} topics=[" ++ ",".intercalate (fs.map fun f => s!"{hx f.1}:{f.2.toNat}") ++ "]"
  | .suback id codes => s!"id={id.toNat} codes={hx codes}"
  | .unsubscribe id fs => s!"id={ids id} topics=[" ++ ",".intercalate (fs.map hx) ++ "]"
  | .pingreq | .pingresp | .disconnect => "-"

/-- full hex of `enc` with the two identifier bytes at `pos` replaced by `????` -/
def hexAuto (enc : Bytes) (pos : Nat) : String :=
  hexOf (enc.take pos) ++ "????" ++ (if enc.length > pos + 2 then hexOf (enc.drop (pos + 2)) else "")

/-- offset of the packet identifier in the encoding -/
def idPos (p : Packet) : Nat :=
  1 + (varint p.body.length).length +
  (match p with
   | .publish _ _ _ topic _ _ => 2 + topic.length
   | _ => 0)

def decLineSpec (t : Nat) (src : Bytes) : String :=
  match decode t src with
  | none => "err"
  | some (p, n) => s!"ok n={n} len={n} {fieldsOfPacket p false} re={hx (src.take n)}"

def buildLineSpec (t : Nat) (src : Option Bytes) (setters : List Setter) : String :=
  let start : Option Draft :=
    match src with
    | none => some (Draft.new t)
    | some bs => (decode t bs).map fun r => Draft.ofPacket r.1
  match start with
  | none => "from-any"
  | some d0 =>
    let (d, bits) := applyAll d0 setters
    let auto := d.needsAutoId
    let d' := if auto then { d with id := 1 } else d
    match d'.toPacket with
    | none => s!"s={bitsStr bits} nwf"
    | some p =>
      if !wf p then s!"s={bitsStr bits} nwf" else
      let enc := encode p
      let n := enc.length
      let bytes := if auto then hexAuto enc (idPos p) else hx enc
      let fs := fieldsOfPacket p auto
      s!"s={bitsStr bits} len={n} enc=ok n={n} bytes={bytes} f[{fs}] d[ok n={n} len={n} {fs} re={bytes}]"

end Spec

/-! ## line protocol -/

def parseBool (s : String) : Bool := s == "1"

def splitEq (tok : String) : Option (String × String) :=
  match tok.splitOn "=" with
  | k :: v :: rest => some (k, "=".intercalate (v :: rest))
  | _ => none

def parseSetter (t : Nat) (key val : String) : Option Setter :=
  match key with
  | "id" => val.toNat?.map .id
  | "dup" => some (.dup (parseBool val))
  | "ret" => some (.retain (parseBool val))
  | "qos" => val.toNat?.map .qos
  | "topic" => (unhexx val).map .topic
  | "payload" => (unhexx val).map .payload
  | "add" =>
    if t = 8 then
      match val.splitOn ":" with
      | [h, q] => do pure (.addSub (← unhexx h) (← q.toNat?))
      | _ => none
    else (unhexx val).map .addUnsub
  | "rm" => (unhexx val).map .remove
  | "code" => val.toNat?.map .code
  | "sp" => some (.sessionPresent (parseBool val))
  | "rc" => val.toNat?.map .returnCode
  | "ver" => val.toNat?.map .version
  | "clean" => some (.clean (parseBool val))
  | "will" => some (.willFlag (parseBool val))
  | "wq" => val.toNat?.map .willQos
  | "wr" => some (.willRetain (parseBool val))
  | "uf" => some (.userFlag (parseBool val))
  | "pf" => some (.passFlag (parseBool val))
  | "ka" => val.toNat?.map .keepAlive
  | "cid" => (unhexx val).map .clientId
  | "wt" => (unhexx val).map .willTopic
  | "wm" => (unhexx val).map .willMessage
  | "un" => (unhexx val).map .username
  | "pw" => (unhexx val).map .password
  | _ => none

/-- the tokens after `build <t>`: optional leading `from=`, `ctr=` anywhere (last wins), setters -/
def parseBuild (t : Nat) (toks : List String) : Option Op := do
  let kvs ← toks.mapM splitEq
  let (src, kvs) ←
    match kvs with
    | ("from", v) :: rest => do pure (some (← unhexx v), rest)
    | _ => pure (none, kvs)
  let ctr := (kvs.filter (·.1 == "ctr")).getLast?.bind (·.2.toNat?)
  let setters ← (kvs.filter (·.1 != "ctr")).mapM fun kv => parseSetter t kv.1 kv.2
  pure (.build t src ctr setters)

def parseOp : List String → Option Op
  | ["dec", t, h] => do pure (.dec (← t.toNat?) (← unhexx h))
  | "build" :: t :: toks => do parseBuild (← t.toNat?) toks
  | ["idseq", s, n] => do pure (.idseq (← s.toNat?) (← n.toNat?))
  | _ => none

structure St where
  ctr : UInt64 := 0

def St.init : St := {}

def validT (t : Nat) : Bool := 1 ≤ t && t ≤ 14

/-- `biglen <remlen>`: a QoS 0 PUBLISH with that remaining length (topic "a"), too large to travel as hex:
the model's `hdrLen` / `putUvarint`, the specification's `Wire.varint` -/
def bigLenLine (hdr : Nat → Nat) (vi : Nat → Bytes) (rl : Nat) : String :=
  let l := hdr rl + rl
  s!"len={l} enc=ok n={1 + (vi rl).length + rl} head={hexOf (0x30 :: vi rl)} rt=1 exact=ok"

/-- one line → (state, model output, spec output) -/
def handle (st : St) (ws : List String) : St × String × String :=
  match ws with
  | ["reset"] => (St.init, "reset", "reset")
  | ["biglen", r] =>
    match r.toNat? with
    | some rl =>
      if rl < 3 || rl > 8388608 then (st, "bad-op", "bad-op") else
      (st, bigLenLine Mqtt.Model.Codec.hdrLen Mqtt.Model.Codec.putUvarint rl,
           bigLenLine (fun n => 1 + (Mqtt.Spec.Wire.varint n).length) Mqtt.Spec.Wire.varint rl)
    | none => (st, "bad-op", "bad-op")
  | _ =>
    match parseOp ws with
    | none => (st, "bad-op", "bad-op")
    | some (.dec t bs) =>
      if !validT t then (st, "bad-op", "bad-op") else
      let (m, ctr) := decLineModel t bs st.ctr false
      ({ ctr := ctr }, m, decLineSpec t bs)
    | some (.build t src ctr setters) =>
      if !validT t then (st, "bad-op", "bad-op") else
      let (m, ctr) := buildLineModel t src ctr setters st.ctr
      ({ ctr := ctr }, m, buildLineSpec t src setters)
    | some (.idseq start count) =>
      let (m, ctr) := idseqModel start count
      ({ ctr := ctr }, m, s!"ids n={count} zero=0 bad=0")

end Mqtt.Driver.Codec
