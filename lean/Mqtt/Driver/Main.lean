/-
Line-protocol driver: one operation per line on stdin, one canonical line per
operation on stdout.  The first word of a line selects the core.
`mqttdrv model` prints the code-shaped model's stream, `mqttdrv spec` the
specification's.
-/
import Mqtt.Driver.AckQ
import Mqtt.Driver.Codec

namespace Mqtt.Driver

structure DState where
  ackq : AckQ.St := AckQ.St.init
  codec : Codec.St := Codec.St.init

def dispatch (st : DState) (line : String) : DState × String × String :=
  match words line with
  | "ackq" :: rest =>
    let (a, m, s) := AckQ.handle st.ackq rest
    ({ st with ackq := a }, m, s)
  | "codec" :: rest => let (a, m, s) := Codec.handle st.codec rest; ({ st with codec := a }, m, s)
  | [] => (st, "", "")
  | _ => (st, "bad-core", "bad-core")

partial def loop (h : IO.FS.Stream) (out : IO.FS.Stream) (spec : Bool) (st : DState) : IO Unit := do
  let line ← h.getLine
  if line.isEmpty then return ()
  let line := String.ofList (line.toList.filter (fun c => c != (Char.ofNat 10) && c != (Char.ofNat 13)))
  let (st', m, s) := dispatch st line
  out.putStrLn (if spec then s else m)
  loop h out spec st'

def main (args : List String) : IO UInt32 := do
  let spec := args.head? == some "spec"
  let stdin ← IO.getStdin
  let stdout ← IO.getStdout
  loop stdin stdout spec {}
  stdout.flush
  return 0

end Mqtt.Driver
