/-
Line-protocol driver: one operation per line on stdin, one canonical line per
operation on stdout.  The first word of a line selects the core.
`mqttdrv model` prints the code-shaped model's stream, `mqttdrv spec` the
specification's.
-/
import Mqtt.Driver.AckQ
import Mqtt.Driver.Topics
import Mqtt.Driver.Broker
import Mqtt.Driver.KeepAlive
import Mqtt.Driver.Client
import Mqtt.Driver.Conc
import Mqtt.Driver.Ring
import Mqtt.Driver.Codec
import Mqtt.Driver.Life

namespace Mqtt.Driver

structure DState where
  ackq : AckQ.St := AckQ.St.init
  topics : Topics.St := Topics.St.init
  broker : Broker.St := {}
  ka : KeepAlive.St := {}
  client : Client.St := {}
  ring : Ring.DSt := Ring.DSt.init
  codec : Codec.St := Codec.St.init

def dispatch (st : DState) (line : String) : DState × String × String :=
  match words line with
  | "ackq" :: rest =>
    let (a, m, s) := AckQ.handle st.ackq rest
    ({ st with ackq := a }, m, s)
  | "topics" :: rest =>
    let (a, m, s) := Topics.handle st.topics rest
    ({ st with topics := a }, m, s)
  | "broker" :: rest =>
    let (a, m, s) := Broker.handle st.broker rest
    ({ st with broker := a }, m, s)
  | "ka" :: rest =>
    let (a, m, s) := KeepAlive.handle st.ka rest
    ({ st with ka := a }, m, s)
  | "client" :: rest =>
    let (a, m, s) := Client.handle st.client rest
    ({ st with client := a }, m, s)
  | "conc" :: rest => let o := Conc.handle rest; (st, o, o)
  | "ring" :: rest => let (r, m, s) := Ring.handle st.ring rest; ({ st with ring := r }, m, s)
  | "codec" :: rest => let (a, m, s) := Codec.handle st.codec rest; ({ st with codec := a }, m, s)
  | "life" :: rest => let (m, s) := Life.handle rest; (st, m, s)
  | [] => (st, "", "")
  | _ => (st, "bad-core", "bad-core")

partial def loop (h : IO.FS.Stream) (out : IO.FS.Stream) (spec : Bool) (st : DState) : IO Unit := do
  let line ← h.getLine
  if line.isEmpty then return ()
  let line := String.ofList (line.toList.filter (fun c => c != (Char.ofNat 10) && c != (Char.ofNat 13)))
  let (st', m, s) := dispatch st line
  out.putStrLn (if spec then s else m)
  loop h out spec st'

def main (args : List String) : IO UInt32 := do
  let spec := args.head? == some "spec"
  let stdin ← IO.getStdin
  let stdout ← IO.getStdout
  loop stdin stdout spec {}
  stdout.flush
  return 0

end Mqtt.Driver
