/- Driver glue for the concurrent-delivery runs (`conc …` lines): the expected
outcome is the same for every interleaving — all packets well-formed, each
publisher's messages in order, nothing lost. -/
import Mqtt.Driver.Util

namespace Mqtt.Driver.Conc

def handle (ws : List String) : String :=
  match ws with
  | ["reset"] => "reset"
  | ["run", npub, nmsg, _size, _qos, _buf] =>
    match npub.toNat?, nmsg.toNat? with
    | some a, some b => s!"wellformed=1 ordered=1 count={a * b}"
    | _, _ => "bad-op"
  -- the subscriber stops reading until the publishers stall, then resumes: same expectation
  | ["lap", npub, nmsg, _size, _qos, _buf] =>
    match npub.toNat?, nmsg.toNat? with
    | some a, some b => s!"wellformed=1 ordered=1 count={a * b}"
    | _, _ => "bad-op"
  -- `npub` goroutines call Server.Publish at the same time, each on its own topic; one in-process
  -- callback per topic and one network subscriber on all of them: every message arrives twice
  | ["srv", npub, nmsg, _buf] =>
    match npub.toNat?, nmsg.toNat? with
    | some a, some b => s!"wellformed=1 ordered=1 count={2 * a * b}"
    | _, _ => "bad-op"
  -- one client keeps re-publishing a retained message while `nsub` clients subscribe / unsubscribe
  -- `rounds` times each: every received payload intact, RETAIN set on the first PUBLISH behind each SUBACK
  | ["ret", nsub, rounds, _size, _buf] =>
    match nsub.toNat?, rounds.toNat? with
    | some a, some b => s!"wellformed=1 ordered=1 count={a * b}"
    | _, _ => "bad-op"
  | _ => "bad-op"

end Mqtt.Driver.Conc
