/-
Driver glue for the connection life-cycle scenarios (`life run <cond> <cause> [<order>]`).
The model stream is computed from `Model/Lifecycle.lean`: the scenario's buffer condition is a
state of the model, the cause an environment event (or bytes on the wire), and the outcome is what
a fair round-robin schedule reaches.  Where the run stops in the state the property exempts
(`HeldByThird`) the driver prints the token the harness prints and lets the environment end the
connection that holds the subject up — as the harness does.  `HeldBySelf` is no exemption (since
b77088f): the model reaches it only where the cause of the end cannot be noticed at all (`selffull
keepalive`, `selffull halfclose`: the receiver waits because the incoming ring is completely full, no read
is pending, the deadline is not armed and the peer's end-of-stream is not read — finding F8); the driver
prints `held-up-by-self` there and makes the client go away (`peerClose`, also enabled on a half-closed
socket), as the harness does.

The conditions are states the repaired code (`ReadFrom` after 8f682d1) is in once the harness has let
the rings fill up: a receiver waits for space only with the incoming ring completely full (16 384
bytes: 16 flood packets and the first 256 bytes of the 17th), otherwise it is inside a socket read.
-/
import Mqtt.Model.Lifecycle
import Mqtt.Model.Takeover
import Mqtt.Model.Broker
import Mqtt.Spec.Lifecycle
import Mqtt.Spec.Broker
import Mqtt.Driver.Util

namespace Mqtt.Driver.Life
open Mqtt.Model.Lifecycle

/-- the harness's broker: 16 KiB rings, 8 KiB read / write blocks -/
def cfg : Cfg := { cap := 16384, rblock := 8192, wblock := 8192 }

/-- PUBLISH with a 1000-byte payload as the harness floods it -/
def floodPkt (a : Act) : Pkt := ⟨3, 1008, .normal [a]⟩

/-- the bytes that end the connection, for the causes that are bytes -/
def endPkts : String → List Pkt × Nat
  | "disconnect" => ([⟨2, 2, .disconnect⟩], 2)
  | "protoerr" => ([⟨2, 2, .bad⟩], 2)
  | "oversize" => ([⟨5, 268435460, .normal []⟩], 5)
  | "badfull" => ([⟨4, 16384, .bad⟩], 16384)   -- an illegal packet of exactly the ring size (`cfg.cap`)
  | _ => ([], 0)

def baseSh : Sh := { willFlag := true, clean := true }

/-- the flood in the conditions with a full incoming ring: 20 packets, of which the ring holds 16 384
bytes (the packet the processor is working on included); the rest is still on the wire -/
def floodN : Nat := 20
def floodWire : Nat := floodN * 1008 - 16384

/-- the buffer condition as a state of the model (subject connection; one idle stopper for the
final Server.Close) -/
def condState (cond order : String) : Option St :=
  let third := order != "t"       -- the third party is still there (open, not reading)
  match cond with
  | "idle" => some { sh := baseSh, ks := [.idle] }
  | "outfull" =>
    some { sh := { baseSh with outR := { buf := 16128 }, peerReads := false, wmu := some (.w 0) },
           send := .write 8192, ks := [.idle], ws := [⟨.wait, 1008⟩] }
  | "infull" =>
    some { sh := { baseSh with inR := { buf := 16384 }, stream := List.replicate floodN (floodPkt .foreign),
                               wire := floodWire, extBlocked := third },
           recv := .space, proc := .acts [.foreign], ks := [.idle] }
  | "selffull" =>
    some { sh := { baseSh with inR := { buf := 16384 }, stream := List.replicate floodN (floodPkt (.own 1008)),
                               wire := floodWire, outR := { buf := 16128 }, peerReads := false,
                               wmu := some .proc },
           recv := .space, proc := .ownWait 1008 [], send := .write 8192, ks := [.idle] }
  | "selfout" =>
    -- 16 packets answered into the own outgoing ring, the processor parked with the answer to the 17th;
    -- the incoming ring holds that packet only: the receiver is inside a socket read
    some { sh := { baseSh with inR := { buf := 1008 }, stream := [floodPkt (.own 1008)],
                               outR := { buf := 16128 }, peerReads := false, wmu := some .proc },
           recv := .read, proc := .ownWait 1008 [], send := .write 8192, ks := [.idle] }
  | "cross" =>
    some { sh := { baseSh with inR := { buf := 16384 }, stream := List.replicate floodN (floodPkt .foreign),
                               wire := floodWire, extBlocked := third, outR := { buf := 16128 },
                               peerReads := false, wmu := some (.w 0) },
           recv := .space, proc := .acts [.foreign], send := .write 8192, ks := [.idle], ws := [⟨.wait, 1008⟩] }
  | "chunked" =>
    -- the first 15 000 bytes of a 16 000-byte PUBLISH, in pieces, and then nothing: all of them are in
    -- the ring, the processor waits for the rest, the receiver is inside a socket read (F3 regression:
    -- before 8f682d1 the receiver stopped reading at 9000 bytes, waiting for a read block of free space)
    some { sh := { baseSh with inR := { buf := 15000 }, stream := [⟨3, 16000, .normal []⟩], wire := 0 },
           recv := .read, proc := .msg, ks := [.idle] }
  | "chunknear" =>
    -- a PUBLISH of exactly the ring size, all but its last byte: one byte of the ring is free, the
    -- receiver is inside a socket read
    some { sh := { baseSh with inR := { buf := 16383 }, stream := [⟨3, 16384, .normal []⟩], wire := 0 },
           recv := .read, proc := .msg, ks := [.idle] }
  | "chunkwhole" =>
    -- the whole 16 000-byte PUBLISH in pieces of varying sizes (nobody is subscribed): it is processed,
    -- the connection is idle afterwards
    some { sh := { baseSh with stream := [⟨3, 16000, .normal []⟩], wire := 16000 }, ks := [.idle] }
  | _ => none

def fuel : Nat := 4000

def apply (s : St) (e : Env) : St := (estep cfg s e).getD s

/-- `Server.Close`: the first loop closes every outgoing ring (this connection's: `preClose`; the
others': no delivery of this connection's processor stays blocked), then `stop()` -/
def serverClose (s : St) : St := apply (apply (apply s .preClose) (.extBlock false)) (.serverClose 0)

structure Phase where
  st : St
  tokens : List String := []

/-- run to quiescence; while the teardown is not complete let the environment do what the
scenario's environment does: fire the read deadline (keep-alive scenarios), end a third party
that holds the subject up, make the subject's own client go away when it holds itself up -/
def settle (cause : String) : Nat → Phase → Phase
  | 0, p => p
  | n + 1, p =>
    let s := drain cfg fuel p.st
    if TornDown s then { p with st := s }
    else if cause == "keepalive" && (estep cfg s .kaExpire).isSome then
      settle cause n { p with st := apply s .kaExpire }
    else if HeldByThird s then
      settle cause n { st := apply s (.extBlock false), tokens := p.tokens ++ ["held-up-by-third"] }
    else if HeldBySelf s then
      settle cause n { st := apply s .peerClose, tokens := p.tokens ++ ["held-up-by-self"] }
    else { p with st := s }

def b01 (b : Bool) : String := if b then "1" else "0"

def outcome (cond cause order : String) : String :=
  match condState cond order with
  | none => "bad-op"
  | some s0 =>
    if !(Mqtt.Spec.Lifecycle.causes.contains cause) then "bad-op" else
    let (pk, bytes) := endPkts cause
    let s0 := { s0 with sh := { s0.sh with stream := s0.sh.stream ++ pk, wire := s0.sh.wire + bytes } }
    -- the condition as the harness leaves it: everybody parked where it can get no further
    let s1 := drain cfg fuel s0
    let s2 := match cause with
      | "close" => apply s1 .peerClose
      -- the peer shuts down its sending direction only and neither reads nor closes (`Sock.peerShut`): the
      -- broker's read returns end-of-stream, its writes still block.  What makes a blocked socket write fail
      -- is the receiver closing the socket when its read fails (`lifeRecvCalls`, `Cfg.recvCloses`;
      -- `C16_halfclose_torn_down`, `C16_halfclose_needs_receiver_close`); a receiver that is parked for ring
      -- space does not read (`selffull`): `settle` finds `HeldBySelf` and lets the peer go away completely
      | "halfclose" => apply s1 .peerShut
      | "srvclose" => serverClose s1
      | _ => s1
    let p := settle cause 6 { st := s2 }
    let torn := TornDown p.st
    let will := p.st.sh.effects.contains .will
    -- everything ends: Server.Close
    let s3 := drain cfg fuel (serverClose p.st)
    let srv := s3.ks[0]? == some .finished
    let obs := cause != "srvclose"
    String.intercalate " " (p.tokens ++
      [s!"torn={b01 torn}", if obs then s!"will={b01 will}" else "will=-",
       if obs then "witness-alive=1" else "witness-alive=-",
       s!"srvclose={b01 srv}", s!"goroutines-left={goroutinesLeft s3}"])

/-! ## Held take-over (`life takeover <variant>`)

Three models meet here, each for what it knows.  `Model/Takeover.lean`: `disconnectClient` as a program over
connections that are live, ENDING (teardown begun, not finished) or stopped - whether the new handshake goes on
while the old teardown is pending (`early`), and that it is finished when `disconnectClient` returns (`torn`).
`Model/Lifecycle.lean`: the connection whose processor is parked with its DISCONNECT queued (`disc`), and
`Server.Close`.  `Model/Broker.lean`: what the connections are sent - the will, SessionPresent, the kept
subscription - on the scenario's events, with the old connection's end as the atomic `stop` that the two other
models justify.  The specification line takes the same broker-level tokens from the reference broker. -/

open Mqtt.Iface.Broker in
def bytes (s : String) : Mqtt.Iface.Broker.Bytes := s.toUTF8.toList

open Mqtt.Iface.Broker in
def conn (cid : String) (clean : Bool) (will : Option (String × String)) : First :=
  .connect { protoName := bytes "MQTT", version := 4, clean := clean, clientId := bytes cid,
             will := will.map fun (t, p) => { topic := bytes t, payload := bytes p, qos := 0, retain := false } }

open Mqtt.Iface.Broker in
/-- the scenario's events; connection numbers as the harness's: 1 witness, 2 slow subscriber, 4 = A, 5 = B, 6 = C -/
def takeoverEvents (variant : String) : List Ev :=
  let common : List Ev :=
    [.first 1 (conn "witness" true none) true, .packet 1 (.subscribe 1 [(bytes "will/#", 0)]),
     .first 2 (conn "slow" true none) true, .packet 2 (.subscribe 1 [(bytes "w", 0)])]
  if variant == "disc" then
    common ++ [.first 4 (conn "X" true (some ("will/x", "gone"))) true,
               .packet 4 (.publish { qos := 0, topic := bytes "w", payload := bytes "from-A" }),
               .packet 4 .disconnect,
               .first 5 (conn "X" false none) true]
  else
    common ++ [.first 4 (conn "X" true (some ("w", "gone"))) true,
               .close 4,
               .first 5 (conn "X" false none) true,
               .packet 5 (.subscribe 1 [(bytes "keep", 0)]),
               .packet 5 .disconnect,
               .first 6 (conn "X" false none) true,
               .packet 1 (.publish { qos := 0, topic := bytes "keep", payload := bytes "kept" })]

structure BrokerTokens where
  will : Bool
  sp2 : Option Bool
  sp3 : Option Bool
  sub3 : Bool

def spStr : Option Bool → String
  | some b => b01 b
  | none => "-"

open Mqtt.Iface.Broker in
def modelTokens (variant : String) : BrokerTokens :=
  let outs := (Mqtt.Model.Broker.run {} (takeoverEvents variant)).2.flatten
  let gotPub (c : Nat) (t p : String) : Bool := outs.any fun o =>
    match o with
    | .send c' (.publish q) => c' == c && q.topic == bytes t && q.payload == bytes p
    | _ => false
  let sp (c : Nat) : Option Bool := outs.findSome? fun o =>
    match o with
    | .send c' (.connack b 0) => if c' == c then some b else none
    | _ => none
  { will := if variant == "disc" then gotPub 1 "will/x" "gone" else gotPub 2 "w" "gone",
    sp2 := sp 5, sp3 := sp 6, sub3 := gotPub 6 "keep" "kept" }

open Mqtt.Iface.Broker in
def specTokens (variant : String) : BrokerTokens :=
  let outs := ((takeoverEvents variant).foldl (fun (acc : Mqtt.Spec.Broker.S × List Mqtt.Spec.Broker.SOut) e =>
    let r := Mqtt.Spec.Broker.step acc.1 e; (r.1, acc.2 ++ r.2)) ({}, [])).2
  let gotPub (c : Nat) (t p : String) : Bool := outs.any fun o =>
    match o with
    | .deliver c' copies => c' == c && copies.any fun q => q.topic == bytes t && q.payload == bytes p
    | _ => false
  let sp (c : Nat) : Option Bool := outs.findSome? fun o =>
    match o with
    | .send c' (.connack b 0) => if c' == c then some b else none
    | _ => none
  { will := if variant == "disc" then gotPub 1 "will/x" "gone" else gotPub 2 "w" "gone",
    sp2 := sp 5, sp3 := sp 6, sub3 := gotPub 6 "keep" "kept" }

def brokerPart (variant : String) (t : BrokerTokens) : List String :=
  if variant == "srvclose" then []
  else if variant == "disc" then [s!"will={b01 t.will}", s!"sp2={spStr t.sp2}"]
  else [s!"will={b01 t.will}", s!"sp2={spStr t.sp2}", s!"sp3={spStr t.sp3}", s!"sub3={b01 t.sub3}"]

open Mqtt.Model.Takeover in
/-- A's connection when B's CONNECT arrives: teardown begun by its own goroutine and parked in the will publish
(`resume`, `srvclose`), or live with its processor parked and the DISCONNECT queued (`disc`) -/
def oldConn (variant : String) : Svc := ⟨4, 0, if variant == "disc" then .live else .ending⟩

/-- `disc`: A in the life-cycle model - a 11-byte PUBLISH being delivered to a connection that does not read, the
DISCONNECT behind it in the incoming ring -/
def discState : St :=
  { sh := { baseSh with extBlocked := true, inR := { buf := 13 }, stream := [⟨2, 11, .normal [.foreign]⟩, ⟨2, 2, .disconnect⟩] },
    proc := .acts [.foreign], ks := [.idle] }

open Mqtt.Model.Takeover in
def takeoverOutcome (variant : String) : String :=
  let a := oldConn variant
  -- is A's teardown unfinished while the hold-up lasts; does the handshake go on regardless
  let (held, lcWill, lcTorn) :=
    if variant == "disc" then
      let s1 := drain cfg fuel (apply discState (.serverClose 0))
      let s2 := drain cfg fuel (apply s1 (.extBlock false))
      (!Final s1, s2.sh.effects.contains .will, Final s2 && TornDown s2)
    else (a.st != .stopped, true, true)
  -- the handshake is past `disconnectClient` although A is not waited for
  let waited := collected disconnectProgram a.cid a && disconnectProgram.contains .wait
  let early := held && !waited
  let res := after disconnectProgram a.cid [a]
  let torn := lcTorn && (match res with | some r => r.all (fun s => s.st == .stopped) | none => false)
  let t := modelTokens variant
  let t := { t with will := t.will && lcWill }
  -- everything ends: Server.Close (while `disconnectClient` waits: it must get Server.mu)
  let s3 := drain cfg fuel (serverClose { sh := baseSh, ks := [.idle] })
  let srv := s3.ks[0]? == some .finished &&
    (variant != "srvclose" || closeReachesLoops disconnectProgram (disconnectProgram.idxOf .wait) closeProgram)
  String.intercalate " " ([s!"held={b01 held}", s!"early={b01 early}"] ++
    (if variant == "srvclose" then [] else [s!"torn={b01 torn}"]) ++ brokerPart variant t ++
    [s!"srvclose={b01 srv}", s!"goroutines-left={goroutinesLeft s3}"])

def takeoverExpected (variant : String) : String :=
  String.intercalate " " (Mqtt.Spec.Lifecycle.takeoverFixed ++
    (if variant == "srvclose" then [] else ["torn=1"]) ++ brokerPart variant (specTokens variant) ++
    Mqtt.Spec.Lifecycle.takeoverEnd)

def handle (ws : List String) : String × String :=
  match ws with
  | ["reset"] => ("reset", "reset")
  | ["run", cond, cause] =>
    if Mqtt.Spec.Lifecycle.conds.contains cond && Mqtt.Spec.Lifecycle.causes.contains cause
    then (outcome cond cause "s", Mqtt.Spec.Lifecycle.expected cause) else ("bad-op", "bad-op")
  | ["run", cond, cause, order] =>
    if Mqtt.Spec.Lifecycle.conds.contains cond && Mqtt.Spec.Lifecycle.causes.contains cause
    then (outcome cond cause order, Mqtt.Spec.Lifecycle.expected cause) else ("bad-op", "bad-op")
  | ["takeover", variant] =>
    if Mqtt.Spec.Lifecycle.takeoverVariants.contains variant
    then (takeoverOutcome variant, takeoverExpected variant) else ("bad-op", "bad-op")
  | _ => ("bad-op", "bad-op")

end Mqtt.Driver.Life
