/-
Driver glue for Core D (byte ring): parses `ring …` lines, runs the concurrent
model under the schedule given by the lines and prints the observable state.

  ring reset <k> <adv> <gate>      fresh ring of size 2^k, cursors pre-advanced to <adv>, gate <gate>
  ring thread <P|C|K<i>> <call>…   declare a thread program; calls: write:n wwait:n wfill wcommit:n
                                   rfrom:m1,m2,… (ReadFrom; the reader's k-th Read returns min mk (len p)
                                   bytes, after the script (0, EOF); "rfrom:-" = empty script)
                                   read:n peek:n rwait:n use commit:n close len
  ring step <T>                    release thread T for one step (mark to mark); then every woken
                                   waiter whose mutex is free re-acquires it (the real scheduler
                                   cannot hold a goroutine inside Cond.Wait)
  ring call <P|C> <call>           un-hooked sequential call on an idle thread (soak)
  ring finish                      fair round-robin to quiescence, then Close and later calls (C15)
  ring pipe <total> <chunk> [f]    free-running ReadFrom/WriteTo pipe, the writer failing after f writes if f > 0
                                   (impl side only; constant here)

The granularity of `step` is the real scheduler's: byte copies run to the next mark.
-/
import Mqtt.Model.Ring
import Mqtt.Spec.Ring
import Mqtt.Driver.Util

namespace Mqtt.Driver.Ring
open Mqtt.Driver Mqtt.Model.Ring Mqtt.Iface.Ring

/-- position-dependent test stream (same function in harness/cmd/corr/ring.go and lib/vcheck/props_ring.py) -/
def testSrc (i : Nat) : UInt8 := UInt8.ofNat ((i * i + i / 3 + 7) % 256)

/-- chunk hash: Σ (j+1)·b_j mod 2^32 -/
def chunkHash (bs : List UInt8) : Nat :=
  (bs.foldl (fun (acc : Nat × Nat) b => (acc.1 + 1, (acc.2 + (acc.1 + 1) * b.toNat) % 4294967296)) (0, 0)).2

structure DSt where
  cfg : Cfg := { k := 14, src := testSrc }
  s : St := init { k := 14, src := testSrc } 0 0
  hasP : Bool := false
  hasC : Bool := false
  progP : Bool := false     -- P's program was declared by a `thread` line (not only used by `call` lines)
  progC : Bool := false
  dead : Bool := false
  pDoomed : Bool := false   -- specification-side bookkeeping (Spec.Ring.doomed): the producer was parked or between two
                            -- calls in a state with `done` set — its current and later ring calls must not succeed

def DSt.init : DSt := {}

def parseTid (w : String) : Option Tid :=
  if w == "P" then some .p
  else if w == "C" then some .c
  else match w.toList with
    | 'K' :: rest => (String.ofList rest).toNat?.map Tid.k
    | _ => none

def parseCall (w : String) : Option Call :=
  match w.splitOn ":" with
  | ["write", n] => n.toNat?.map .write
  | ["wwait", n] => n.toNat?.map .wwait
  | ["wfill"] => some .wfill
  | ["wcommit", n] => n.toNat?.map .wcommit
  | ["rfrom", ms] => if ms == "-" then some (.rfrom 0 []) else ((ms.splitOn ",").mapM String.toNat?).map (.rfrom 0)
  | ["read", n] => n.toNat?.map .read
  | ["peek", n] => n.toNat?.map .peek
  | ["rwait", n] => n.toNat?.map .rwait
  | ["use"] => some .use
  | ["commit", n] => n.toNat?.map .commit
  | ["close"] => some .close
  | ["len"] => some .len
  | _ => none

def callName : Call → String
  | .write _ => "write" | .wwait _ => "wwait" | .wfill => "wfill" | .wcommit _ => "wcommit"
  | .rfrom _ _ => "rfrom" | .rfcommit _ _ => "rfrom" | .rfret _ _ => "rfrom"
  | .read _ => "read" | .peek _ => "peek" | .rwait _ => "rwait" | .use => "use" | .commit _ => "commit"
  | .close => "close" | .len => "len"

def errName : Err → String
  | .ok => "ok" | .eof => "eof" | .full => "full" | .insuf => "insuf" | .nouse => "nouse"

def allowed (t : Tid) (c : Call) : Bool := t.allowed c

def declared (d : DSt) : Tid → Bool
  | .p => d.hasP
  | .c => d.hasC
  | .k i => i < d.s.K.length

def tids (d : DSt) : List Tid :=
  [Tid.p, Tid.c] ++ (List.range d.s.K.length).map Tid.k

def visible (pc : Pc) : Bool := pc == .idle || pc.yid.isSome || pc.parkedAt.isSome

/-- the call a thread is in, or about to start -/
def curCall (th : Th) : Option Call :=
  match th.cur with
  | some c => some c
  | none => th.prog.head?

/-- the byte-copy loop of `Write` / of filling a reserved slice, bytes `j … n-1` -/
def copyLoop (cfg : Cfg) (buf : Array UInt8) (start j n : Nat) : Array UInt8 :=
  (List.range' j (n - j)).foldl (fun b i => wr b (cfg.idx (start + i)) (cfg.src (start + i))) buf

/-- Driver-only shortcut: between two marks no other thread runs, so the per-byte
steps of a producer copy are performed in one go (same result as iterating
`step`; avoids copying the ring array once per byte). -/
def accel (cfg : Cfg) (s : St) (t : Tid) : St :=
  match s.getTh t with
  | some th =>
    match th.pc with
    | .w41c n ppos j =>
      if j < n then
        ({ s with sh := { s.sh with buf := copyLoop cfg s.sh.buf ppos j n } }).setTh t (th.goto (.w41c n ppos n))
      else s
    | .f0 start len j =>
      if j < len then
        ({ s with sh := { s.sh with buf := copyLoop cfg s.sh.buf start j len } }).setTh t (th.goto (.f0 start len len))
      else s
    | .g111c tot ms start n j =>
      if j < n then
        ({ s with sh := { s.sh with buf := copyLoop cfg s.sh.buf start j n } }).setTh t (th.goto (.g111c tot ms start n n))
      else s
    | _ => s
  | none => s

/-- thread `t` runs from its mark to the next mark (or return, or into `Wait`) -/
def runVisible (cfg : Cfg) (s : St) (t : Tid) : Nat → Option St
  | 0 => some s
  | fuel + 1 =>
    match step cfg (accel cfg s t) t with
    | none => none
    | some s' =>
      match s'.getTh t with
      | none => some s'
      | some th => if visible th.pc then some s' else
          match runVisible cfg s' t fuel with
          | none => some s'
          | some s'' => some s''

/-- woken waiters whose mutex is free re-acquire it -/
def eagerResume (cfg : Cfg) (s : St) : St :=
  let f := fun (s : St) (t : Tid) =>
    match s.getTh t with
    | some th => if th.pc.parkedAt.isSome then (step cfg s t).getD s else s
    | none => s
  f (f s .p) .c

inductive Status where
  | ok | blocked | fin | nothread
deriving DecidableEq

def Status.str : Status → String
  | .ok => "ok" | .blocked => "blocked" | .fin => "nocall" | .nothread => "nothread"

def bigStep (d : DSt) (t : Tid) : DSt × Status :=
  if !declared d t then (d, .nothread) else
  match d.s.getTh t with
  | none => (d, .nothread)
  | some th =>
    if th.pc == .idle && th.prog.isEmpty then (d, .fin) else
    match runVisible d.cfg d.s t (4 * d.cfg.size + 64) with
    | none => (d, .blocked)
    | some s' => ({ d with s := eagerResume d.cfg s' }, .ok)

def posStr (d : DSt) (t : Tid) : String :=
  if !declared d t then "-" else
  match d.s.getTh t with
  | none => "-"
  | some th =>
    match th.pc.parkedAt with
    | some id => s!"w{id}"
    | none =>
      match th.pc.yid with
      | some id => s!"{id}"
      | none => if th.pc == .idle then (if th.prog.isEmpty then "f" else "i") else "?"

def b01 (b : Bool) : String := if b then "1" else "0"

def stateStr (d : DSt) : String :=
  let sh := d.s.sh
  s!"p={sh.pseq} c={sh.cseq} g={sh.gate} d={b01 sh.done} L={b01 sh.pL.isSome}{b01 sh.cL.isSome} pos=" ++
    ",".intercalate ((tids d).map (posStr d))

def resStr (name : String) (r : Res) : String :=
  s!" ret={name}:{r.n}:{errName r.err}:{r.off}:{r.data.length}:{chunkHash r.data}:{b01 r.wrapped}"

def stepLine (d : DSt) (t : Tid) : DSt × String :=
  let name := match d.s.getTh t with
    | some th => (curCall th).map callName |>.getD "?"
    | none => "?"
  let (d', st) := bigStep d t
  let r := match st, d'.s.getTh t with
    | .ok, some th => match th.res with
      | some r => resStr name r
      | none => ""
    | _, _ => ""
  (d', st.str ++ " " ++ stateStr d' ++ r)

/-- `need:have` of an unfinished thread: what its call waits for and what the other side committed -/
def needHave (d : DSt) (th : Th) : Nat × Nat :=
  let sh := d.s.sh
  let data := sh.pseq - sh.cseq
  let space := d.cfg.size - data
  match th.cur with
  | some (.read _) => (1, data)
  | some (.peek _) => (1, data)
  | some (.rwait n) => (n, data)
  | some (.write n) => (n, space)
  | some (.wwait n) => (n, space)
  | some (.wcommit n) => (min n th.filled, space)
  | some (.rfrom _ _) => (1, space)
  | some (.rfcommit _ _) => (th.filled, space)
  | _ => (0, 0)

def unfinished (th : Th) : Bool := !(th.pc == .idle && th.prog.isEmpty)

/-- round-robin, one step per thread per pass, until a pass makes no progress -/
def roundRobin (d : DSt) : Nat → DSt
  | 0 => d
  | fuel + 1 =>
    let (d', progress) := (tids d).foldl (fun (acc : DSt × Bool) t =>
      let (d2, st) := bigStep acc.1 t
      if st == .ok then (d2, true) else acc) (d, false)
    if progress then roundRobin d' fuel else d'

def report (d : DSt) (withNeed : Bool) : String :=
  let items := (tids d).filterMap (fun t =>
    if !declared d t then none else
    match d.s.getTh t with
    | none => none
    | some th =>
      if unfinished th then
        let name := match t with | .p => "P" | .c => "C" | .k i => s!"K{i}"
        if withNeed then
          let (n, h) := needHave d th
          some s!"{name}:{posStr d t}:{n}:{h}"
        else some s!"{name}:{posStr d t}"
      else none)
  "[" ++ ";".intercalate items ++ "]"

def addCloser (d : DSt) : DSt :=
  { d with s := { d.s with K := d.s.K ++ [{ prog := [.close] }] } }

def lastErr (d : DSt) (t : Tid) : String :=
  match d.s.getTh t with
  | some th => match th.res with
    | some r => errName r.err
    | none => "-"
  | none => "-"

def finishLine (d : DSt) : DSt × String :=
  let fuel := 1000000
  let d := roundRobin d fuel
  let q := report d true ++ "@d" ++ b01 d.s.sh.done
  -- Close from a fresh thread
  let d := roundRobin (addCloser d) fuel
  -- later calls on the closed ring
  let pIdle := !d.hasP || !unfinished d.s.P
  let cIdle := !d.hasC || !unfinished d.s.C
  let d := if pIdle then { d with hasP := true, s := { d.s with P := { d.s.P with prog := [.write 1], res := none } } } else d
  let d := if cIdle then { d with hasC := true, s := { d.s with C := { d.s.C with prog := [.read 1], res := none } } } else d
  let d := roundRobin (addCloser d) fuel
  let lw := if pIdle then lastErr d .p else "-"
  let lr := if cIdle then lastErr d .c else "-"
  (d, s!"fin q={q} end={report d false} lw={lw} lr={lr} " ++ stateStr d)

/-- un-hooked sequential call: push the call and run the thread until it returns -/
def callLine (d : DSt) (t : Tid) (c : Call) : DSt × String :=
  match d.s.getTh t with
  | none => (d, "nothread")
  | some th =>
    if th.pc != .idle then (d, "busy") else
    let d := match t with
      | .p => { d with hasP := true }
      | .c => { d with hasC := true }
      | _ => d
    let d := { d with s := d.s.setTh t { th with prog := c :: th.prog } }
    let rec go (d : DSt) : Nat → DSt × Bool
      | 0 => (d, false)
      | fuel + 1 =>
        let (d', st) := bigStep d t
        if st != .ok then (d', false) else
        match d'.s.getTh t with
        | some th' => if th'.pc == .idle then (d', true) else go d' fuel
        | none => (d', false)
    let (d', returned) := go d 100000
    if returned then
      let r := match d'.s.getTh t with
        | some th' => match th'.res with
          | some r => resStr (callName c) r
          | none => ""
        | none => ""
      (d', "ok " ++ stateStr d' ++ r)
    else
      let name := match t with | .p => "P" | .c => "C" | .k i => s!"K{i}"
      let (n, h) := match d'.s.getTh t with
        | some th' => needHave d' th'
        | none => (0, 0)
      ({ d' with dead := true }, s!"hang {name}:{n}:{h}@d{b01 d'.s.sh.done}")

/-- what the stepping thread's call waits for, if it is a consumer wait (`Spec.Ring.eofOk`) -/
def waitNeed (th : Th) : Option Nat :=
  match curCall th with
  | some (.read _) => some 1
  | some (.peek _) => some 1
  | some (.rwait n) => some n
  | _ => none

/-- the specification's line for a step / call of thread `t`, from the state BEFORE it: the ring size, what a consumer
wait of that thread waits for, and whether a producer call of that thread is doomed -/
def specLine (d : DSt) (t : Tid) : String :=
  let need := match d.s.getTh t with
    | some th => match waitNeed th with
      | some n => toString n
      | none => "-"
    | none => "-"
  let dm := match t with
    | .p => b01 d.pDoomed
    | _ => "0"
  s!"inv {d.cfg.size} need={need} doomed={dm}"

/-- bookkeeping after a line: has the producer been seen parked or between two calls on a closed ring -/
def markDoomed (d : DSt) : DSt :=
  let blockedOrLater := d.hasP && (d.s.P.pc.parkedAt.isSome || d.s.P.pc == .idle)
  let dm := Mqtt.Spec.Ring.doomed d.pDoomed d.s.sh.done blockedOrLater
  { d with pDoomed := dm }

/-- one line → (state, model output, spec output) -/
def handle (d : DSt) (ws : List String) : DSt × String × String :=
  match ws with
  | ["reset", k, adv, gate] =>
    match k.toNat?, adv.toNat?, gate.toNat? with
    | some k, some adv, some gate =>
      let cfg : Cfg := { k := k, src := testSrc }
      ({ cfg := cfg, s := init cfg adv gate }, "reset", "reset")
    | _, _, _ => (d, "bad-op", "bad-op")
  | _ =>
    if d.dead then (d, "dead", "dead") else
    match ws with
    | "thread" :: t :: calls =>
      match parseTid t, calls.mapM parseCall with
      | some t, some cs =>
        if !(cs.all (allowed t)) then (d, "bad-op", "bad-op") else
        match t with
        | .p => if d.progP then (d, "dup", "dup") else
            ({ d with hasP := true, progP := true, s := { d.s with P := { d.s.P with prog := cs, res := none } } }, "thread", "thread")
        | .c => if d.progC then (d, "dup", "dup") else
            ({ d with hasC := true, progC := true, s := { d.s with C := { d.s.C with prog := cs, res := none } } }, "thread", "thread")
        | .k i =>
          if i != d.s.K.length then (d, "dup", "dup") else
          ({ d with s := { d.s with K := d.s.K ++ [{ prog := cs }] } }, "thread", "thread")
      | _, _ => (d, "bad-op", "bad-op")
    | ["step", t] =>
      match parseTid t with
      | some t => let (d', l) := stepLine d t; (markDoomed d', l, specLine d t)
      | none => (d, "bad-op", "bad-op")
    | ["call", t, c] =>
      match parseTid t, parseCall c with
      | some t, some c =>
        if !(allowed t c) || (match t with | .k _ => true | _ => false) then (d, "bad-op", "bad-op") else
        let s0 := match d.s.getTh t with
          | some th => if th.pc == .idle then d.s.setTh t { th with prog := c :: th.prog } else d.s
          | none => d.s
        let d0 := { d with s := s0 }
        let (d', l) := callLine d t c; (markDoomed d', l, specLine d0 t)
      | _, _ => (d, "bad-op", "bad-op")
    | ["finish"] => let (d', l) := finishLine d; ({ d' with dead := true }, l, s!"fin ok {d.cfg.size}")
    | ["pipe", total, _chunk] =>
      match total.toNat? with
      | some n => (d, s!"pipe rf={n}:eof wt=eof pre=true", "pipe ok")
      | none => (d, "bad-op", "bad-op")
    | ["pipe", total, _chunk, fail] =>
      match total.toNat?, fail.toNat? with
      | some n, some f =>
        if f == 0 then (d, s!"pipe rf={n}:eof wt=eof pre=true", "pipe ok") else (d, "pipe done pre=true", "pipe ok")
      | _, _ => (d, "bad-op", "bad-op")
    | _ => (d, "bad-op", "bad-op")

end Mqtt.Driver.Ring
