/- Driver glue for Core E: `broker …` event lines → model outputs / specification outputs. -/
import Mqtt.Model.Broker
import Mqtt.Spec.Broker
import Mqtt.Driver.Util
import Mqtt.Driver.Topics
import Mqtt.Model.Framing

namespace Mqtt.Driver.Broker
open Mqtt.Driver Mqtt.Iface.Broker

def parseBool (s : String) : Option Bool := if s == "1" then some true else if s == "0" then some false else none

/-- "~" = absent, otherwise hex ("-" = empty) -/
def parseOptBytes (s : String) : Option (Option Bytes) := if s == "~" then some none else (unhex s).map some

def parseWill (s : String) : Option (Option Will) :=
  if s == "~" then some none else
  match s.splitOn ":" with
  | [t, p, q, r] => do pure (some ⟨← unhex t, ← unhex p, ← q.toNat?, ← parseBool r⟩)
  | _ => none

def parsePub : List String → Option Pub
  | [d, q, r, t, id, p] => do
      let d' ← parseBool d
      let q' ← q.toNat?
      let r' ← parseBool r
      let t' ← unhex t
      let id' ← id.toNat?
      let p' ← unhex p
      pure ⟨d', q', r', t', id', p'⟩
  | _ => none

def parseTopicQos (s : String) : Option (List (Bytes × Nat)) :=
  (s.splitOn ",").mapM (fun e => match e.splitOn ":" with
    | [t, q] => do pure (← unhex t, ← q.toNat?)
    | _ => none)

def parsePacket : List String → Option Packet
  | "publish" :: rest => (parsePub rest).map .publish
  | ["puback", id] => id.toNat?.map .puback
  | ["pubrec", id] => id.toNat?.map .pubrec
  | ["pubrel", id] => id.toNat?.map .pubrel
  | ["pubcomp", id] => id.toNat?.map .pubcomp
  | ["subscribe", id, ts] => do pure (.subscribe (← id.toNat?) (← parseTopicQos ts))
  | ["unsubscribe", id, ts] => do pure (.unsubscribe (← id.toNat?) (← (ts.splitOn ",").mapM unhex))
  | ["pingreq"] => some .pingreq
  | ["pingresp"] => some .pingresp
  | ["disconnect"] => some .disconnect
  | ["connect"] => some .connectAgain
  | ["suback", id] => id.toNat?.map (fun i => .suback i [])
  | ["unsuback", id] => id.toNat?.map .unsuback
  | _ => none

def parseEv : List String → Option Ev
  | ["first", c, "connect", pn, ver, rsv, clean, will, wq, wr, cid, user, pass, ka, auth] => do
      let pn' ← unhex pn
      let ver' ← ver.toNat?
      let rsv' ← parseBool rsv
      let clean' ← parseBool clean
      let will' ← parseWill will
      let wq' ← wq.toNat?
      let wr' ← parseBool wr
      let cid' ← unhex cid
      let user' ← parseOptBytes user
      let pass' ← parseOptBytes pass
      let ka' ← ka.toNat?
      let req : Connect := ⟨pn', ver', rsv', clean', will', wq', wr', cid', user', pass', ka'⟩
      pure (.first (← c.toNat?) (.connect req) (← parseBool auth))
  | ["first", c, "other", t, auth] => do pure (.first (← c.toNat?) (.other (← t.toNat?)) (← parseBool auth))
  | ["first", c, "garbage", auth] => do pure (.first (← c.toNat?) .garbage (← parseBool auth))
  | "pkt" :: c :: rest => do pure (.packet (← c.toNat?) (← parsePacket rest))
  | ["close", c] => c.toNat?.map .close
  | "srvpub" :: rest => (parsePub rest).map .srvPub
  | ["srvsub", cb, f, q] => do pure (.srvSub (← cb.toNat?) (← unhex f) (← q.toNat?))
  | ["srvunsub", cb, f] => do pure (.srvUnsub (← cb.toNat?) (← unhex f))
  | _ => none

def b01 (b : Bool) : String := if b then "1" else "0"

def showPub (p : Pub) (wild : Bool) : String :=
  let d := if wild then "*" else b01 p.dup
  let id := if wild then "*" else toString p.pktid
  s!"PUB {d} {p.qos} {b01 p.retain} {hexOf p.topic} {id} {hexOf p.payload}"

def showPacket : Packet → String
  | .connack sp code => s!"CONNACK {b01 sp} {code}"
  | .publish p => showPub p false
  | .puback id => s!"PUBACK {id}"
  | .pubrec id => s!"PUBREC {id}"
  | .pubrel id => s!"PUBREL {id}"
  | .pubcomp id => s!"PUBCOMP {id}"
  | .suback id codes => s!"SUBACK {id} " ++ ",".intercalate (codes.map toString)
  | .unsuback id => s!"UNSUBACK {id}"
  | .pingresp => "PINGRESP"
  | .pingreq => "PINGREQ"
  | .disconnect => "DISCONNECT"
  | .subscribe id _ => s!"SUBSCRIBE {id}"
  | .unsubscribe id _ => s!"UNSUBSCRIBE {id}"
  | .connectAgain => "CONNECT"

def isPubItem (s : String) : Bool := s.startsWith "PUB "

/-- sort every maximal run of consecutive PUBLISH items (fan-out order is a map order) -/
def sortRuns (items : List String) : List String :=
  let rec go (rest : List String) (run : List String) (acc : List String) : List String :=
    match rest with
    | [] => acc ++ Topics.sortStrings run
    | x :: xs => if isPubItem x then go xs (run ++ [x]) acc else go xs [] (acc ++ Topics.sortStrings run ++ [x])
  go items [] []

def insertNat (x : Nat) : List Nat → List Nat
  | [] => [x]
  | y :: ys => if x ≤ y then x :: y :: ys else y :: insertNat x ys
def sortNats (l : List Nat) : List Nat := l.foldr insertNat []

def groupLine (items : List (Nat × String)) (extra : List String) : String :=
  let ids := sortNats ((items.map (·.1)).eraseDups)
  let groups := ids.map (fun i =>
    let its := sortRuns ((items.filter (fun p => p.1 == i)).map (·.2))
    (if i < Mqtt.Model.Broker.cbBase then s!"c{i}" else s!"cb{i}") ++ "[" ++ ";".intercalate its ++ "]")
  let all := groups ++ extra
  if all.isEmpty then "-" else " ".intercalate all

/-- the items of a model output list, per addressee, and whether the in-process call failed -/
def modelItems (outs : List Out) : List (Nat × String) × Bool :=
  (outs.filterMap (fun o => match o with
    | .send c p => some (c, showPacket p)
    | .closed c => some (c, "CLOSED")
    | .call cb p => some (cb, showPub { p with pktid := 0 } false)   -- the identifier a callback sees depends on fan-out order
    | .apiErr => none),
   outs.any (fun o => o == .apiErr))

def showModelItems (items : List (Nat × String)) (apierr : Bool) : String :=
  groupLine items (if apierr then ["apierr"] else [])

def showModel (outs : List Out) : String :=
  let r := modelItems outs
  showModelItems r.1 r.2

open Mqtt.Spec.Broker in
def specUnspecified (outs : List SOut) : Bool :=
  outs.any (fun o => match o with | .unspecified => true | _ => false)

open Mqtt.Spec.Broker in
def specItems (outs : List SOut) : List (Nat × String) × Bool :=
  let pubs (l : List Pub) := ",".intercalate (Topics.sortStrings (l.map (fun p => showPub p true)))
  (outs.filterMap (fun o => match o with
    | .send c p => some (c, showPacket p)
    | .sendOrClose c p => some (c, showPacket p ++ "|CLOSED")
    | .deliver o l => some (o, "DELIVER{" ++ pubs l ++ "}")
    | .retained o l => if l.isEmpty then none else some (o, "RETAINED{" ++ pubs l ++ "}")
    | .closed c => some (c, "CLOSED")
    | .refused c codes => some (c, "REFUSED{" ++ ",".intercalate (codes.map (fun x => match x with | some n => toString n | none => "-")) ++ "}")
    | .apiErr => none
    | .unspecified => none),
   outs.any (fun o => match o with | .apiErr => true | _ => false))

/-- no run-sorting on the specification side: DELIVER / RETAINED items are sets already -/
def showSpecItems (items : List (Nat × String)) (apierr : Bool) : String :=
  let ids := sortNats ((items.map (·.1)).eraseDups)
  let groups := ids.map (fun i =>
    (if i < Mqtt.Spec.Broker.cbBase then s!"c{i}" else s!"cb{i}") ++ "[" ++ ";".intercalate ((items.filter (fun p => p.1 == i)).map (·.2)) ++ "]")
  let all := groups ++ (if apierr then ["apierr"] else [])
  if all.isEmpty then "-" else " ".intercalate all

def showSpec (outs : List Mqtt.Spec.Broker.SOut) : String :=
  if specUnspecified outs then "*" else
  let r := specItems outs
  showSpecItems r.1 r.2

/-! ### republishing callbacks (`srvsubrepub <cb> <filter> <qos> <target>`)

The harness's callback `cb` hands every message it gets on to `Server.Publish` (same payload,
QoS 0, RETAIN 0, topic `target`) from INSIDE the callback, i.e. in the middle of the fan-out that
called it.  Both streams mirror that: right behind every delivery to such a callback the outputs
of the nested `srvPub` follow (recursively, bounded by `repubFuel`; the generators keep the
relation cycle-free: a target never matches a republishing callback's filter).  A QoS 0,
RETAIN 0 publish changes no state (no identifier is drawn, nothing retained), so performing it on
the state after the step is the same as performing it in the middle. -/

def repubFuel : Nat := 4

def repubPub (target payload : Bytes) : Pub := { qos := 0, topic := target, payload := payload }

def closeM (rp : List (Nat × Bytes)) : Nat → Mqtt.Model.Broker.B → List Out → Mqtt.Model.Broker.B × List Out
  | 0, b, outs => (b, outs)
  | fuel + 1, b, outs =>
    outs.foldl (fun (acc : Mqtt.Model.Broker.B × List Out) o =>
      match o with
      | .call cb p =>
        match rp.lookup cb with
        | some target =>
          -- (the callback ignores what the nested Publish returns)
          let r := Mqtt.Model.Broker.srvPub acc.1 (repubPub target p.payload)
          let r2 := closeM rp fuel r.1 (r.2.filter (fun x => x != .apiErr))
          (r2.1, acc.2 ++ [o] ++ r2.2)
        | none => (acc.1, acc.2 ++ [o])
      | _ => (acc.1, acc.2 ++ [o])) (b, [])

/-- one event of the code-shaped model, republishing callbacks included -/
def stepM (rp : List (Nat × Bytes)) (b : Mqtt.Model.Broker.B) (e : Ev) : Mqtt.Model.Broker.B × List Out :=
  match e with
  | .first c f a =>
    -- a CONNECT that takes a connection over is two phases: the old connection's teardown (its
    -- will may reach republishing callbacks, whose nested publishes run before the new
    -- connection exists), then the handshake of the new one
    let r0 := Mqtt.Model.Broker.takeOver b f a
    let r0 := if rp.isEmpty then r0 else closeM rp repubFuel r0.1 r0.2
    let r1 := Mqtt.Model.Broker.first r0.1 c f a
    (r1.1, r0.2 ++ r1.2)
  | _ =>
    let r := Mqtt.Model.Broker.step b e
    if rp.isEmpty then r else closeM rp repubFuel r.1 r.2

open Mqtt.Spec.Broker in
def closeS (rp : List (Nat × Bytes)) : Nat → S → List SOut → S × List SOut
  | 0, s, outs => (s, outs)
  | fuel + 1, s, outs =>
    outs.foldl (fun (acc : S × List SOut) o =>
      let nested (payloads : List Bytes) (target : Bytes) : S × List SOut :=
        payloads.foldl (fun (a : S × List SOut) pl =>
          let r := accept a.1 (repubPub target pl)
          let r2 := closeS rp fuel r.1 r.2
          (r2.1, a.2 ++ r2.2)) (acc.1, [])
      -- Messages on topics beginning with '$' are outside the properties' quantifier: the reference
      -- broker forwards and retains them like any other, this broker turns them away at the topic
      -- store, and the oracle does not compare such copies (props_broker.py `_drop_sys`).  A
      -- republishing callback of this broker therefore never sees one; nothing is republished for
      -- them here either.
      let sys (p : Pub) : Bool := p.topic.head? == some 36
      match o with
      | .deliver ow l =>
        match rp.lookup ow with
        | some target =>
          if l.any sys then (acc.1, acc.2 ++ [o]) else
          -- a callback holding several matching subscriptions is called once or several times: then
          -- the number of nested publishes is not fixed by the properties
          if l.length != 1 then (acc.1, acc.2 ++ [o, .unspecified]) else
          let r := nested (l.map (·.payload)) target
          (r.1, acc.2 ++ [o] ++ r.2)
        | none => (acc.1, acc.2 ++ [o])
      | .retained ow l =>
        match rp.lookup ow with
        | some target =>
          let r := nested ((l.filter (fun p => !sys p)).map (·.payload)) target
          (r.1, acc.2 ++ [o] ++ r.2)
        | none => (acc.1, acc.2 ++ [o])
      | _ => (acc.1, acc.2 ++ [o])) (s, [])

/-- one event of the reference broker, republishing callbacks included -/
def stepS (rp : List (Nat × Bytes)) (s : Mqtt.Spec.Broker.S) (e : Ev) : Mqtt.Spec.Broker.S × List Mqtt.Spec.Broker.SOut :=
  match e with
  | .first c f a =>
    let r0 := Mqtt.Spec.Broker.takeOver s f a
    let r0 := if rp.isEmpty || specUnspecified r0.2 then r0 else closeS rp repubFuel r0.1 r0.2
    let r1 := Mqtt.Spec.Broker.first r0.1 c f a
    (r1.1, r0.2 ++ r1.2)
  | _ =>
    let r := Mqtt.Spec.Broker.step s e
    if rp.isEmpty || specUnspecified r.2 then r else closeS rp repubFuel r.1 r.2

structure St where
  m : Mqtt.Model.Broker.B := {}
  s : Mqtt.Spec.Broker.S := {}
  /-- bytes of an incomplete packet per connection (`raw` events); a connection with such bytes is *mid-packet* -/
  pend : List (Nat × Bytes) := []
  /-- items addressed to a mid-packet connection are withheld until it is at a packet boundary
  again (the harness cannot put a PINGREQ barrier on it before): model stream / specification stream -/
  heldM : List (Nat × String) := []
  heldS : List (Nat × String) := []
  /-- republishing in-process callbacks (`srvsubrepub`): callback ↦ the topic it republishes to -/
  repub : List (Nat × Bytes) := []
  /-- client identifiers whose only stored state is the empty state filed by a CleanSession=0 CONNECT
  that could not be answered (`failfirst`): whether such a CONNECT counts as "an earlier
  CleanSession=0 connection" is left open by the property, so the SessionPresent bit of the next
  accepted CONNECT of that client is not compared in the specification stream (`CONNACK 1|0 0`) -/
  tent : List Bytes := []
  /-- `srvclose` has been seen: the server is gone, every further event until `reset` is void -/
  srvClosed : Bool := false

def St.pendOf (st : St) (c : Nat) : Bytes := (st.pend.lookup c).getD []
def St.setPend (st : St) (c : Nat) (bs : Bytes) : St :=
  { st with pend := (if bs.isEmpty then [] else [(c, bs)]) ++ st.pend.filter (fun p => p.1 != c) }
def St.mid (st : St) (c : Nat) : Bool := !(st.pendOf c).isEmpty

/-- On the line on which connection `own` is closed, what else it was sent on that line is not
observed (the broker closes the socket before its sender goroutine has flushed), except the
CONNACK that answers the first packet (written to the socket directly). -/
def ownFilter (own : Option Nat) (keepConnack : Bool) (items : List (Nat × String)) : List (Nat × String) :=
  match own with
  | none => items
  | some c =>
    if !items.contains (c, "CLOSED") then items else
    let mine := items.filter (fun p => p.1 == c)
    let lead := match mine.head? with
      | some p => if keepConnack && p.2.startsWith "CONNACK" then [p] else []
      | none => []
    items.filter (fun p => p.1 != c) ++ lead ++ [(c, "CLOSED")]

/-- assemble one output line: withheld items first, `ownFilter`, then withhold again what is
addressed to connections that are mid-packet.  `boundary`: the event's own connection completed a
packet on this line — it was observed at that packet boundary, before the bytes of the next,
incomplete packet were written. -/
def emitItems (st : St) (held : List (Nat × String)) (own : Option Nat) (keepConnack boundary : Bool)
    (items : List (Nat × String)) : List (Nat × String) × List (Nat × String) :=
  let all := ownFilter own keepConnack (held ++ items)
  let mid (c : Nat) : Bool := st.mid c && !(boundary && own == some c)
  (all.filter (fun p => !mid p.1), all.filter (fun p => mid p.1))

/-- `st` already carries the new model / specification states and pending bytes -/
def emit (st : St) (own : Option Nat) (keepConnack : Bool) (mo : List Out) (so : List Mqtt.Spec.Broker.SOut)
    (boundary : Bool := false) : St × String × String :=
  -- a connection the broker has torn down (its own end, or a CONNECT with its client identifier,
  -- MQTT-3.1.4-2) is not mid-packet any more: what was withheld for it is shown with its CLOSED
  let st : St := { st with pend := st.pend.filter (fun p => st.m.alive p.1) }
  let mi := modelItems mo
  let (mshow, mheld) := emitItems st st.heldM own keepConnack boundary mi.1
  let si := specItems so
  let (sshow, sheld) := emitItems st st.heldS own keepConnack boundary si.1
  let sline := if specUnspecified so then "*" else showSpecItems sshow si.2
  ({ st with heldM := mheld, heldS := if specUnspecified so then [] else sheld }, showModelItems mshow mi.2, sline)

/-- `firstp <c> connect … ; <packet…>`: the CONNECT and a further packet written in one go, before
the CONNACK is read (MQTT 3.1.1 §3.1.4 allows it): two events, one output line -/
def splitSemi (ws : List String) : List String × List String :=
  (ws.takeWhile (· != ";"), (ws.dropWhile (· != ";")).drop 1)

/-- the specification line of an accepted CONNECT of a client in `St.tent` leaves SessionPresent open -/
def tentLine (st : St) (ev : Ev) (line : String) : String :=
  match ev with
  | .first c (.connect req) _ =>
    if st.tent.contains req.clientId
    then line.replace s!"c{c}[CONNACK 1 0" s!"c{c}[CONNACK 1|0 0"
    else line
  | _ => line

/-- an accepted CONNECT establishes the client's state for good -/
def tentAfter (st : St) (ev : Ev) : St :=
  match ev with
  | .first c (.connect req) _ =>
    if st.m.alive c then { st with tent := st.tent.filter (· != req.clientId) } else st
  | _ => st

/-! ### byte-level events (`rawfirst`, `raw`): framing and decoding by `Model/Framing` + `Model/Codec` -/

def ringSize : Nat := Mqtt.Generated.defaultBufferSize

/-- the harness's authenticator refuses the user name "deny" -/
def rawAuth : Mqtt.Model.Framing.Auth := fun user _ => user != some [100, 101, 110, 121]

def stepsModel (rp : List (Nat × Bytes)) (b : Mqtt.Model.Broker.B) (evs : List Ev) : Mqtt.Model.Broker.B × List Out :=
  evs.foldl (fun acc e => let r := stepM rp acc.1 e; (r.1, acc.2 ++ r.2)) (b, [])

open Mqtt.Spec.Broker in
/-- The reference broker on the events of a byte stream.  Events of a connection the
specification no longer knows (bytes behind a DISCONNECT) are skipped; for packets a
client has no business sending (acknowledgements of server-to-client requests, a second
CONNECT) the properties fix nothing about that connection itself — item `?` — but nobody
else may be affected. -/
def stepsSpec (rp : List (Nat × Bytes)) (s : S) (evs : List Ev) : S × List SOut × List Nat :=
  evs.foldl (fun (acc : S × List SOut × List Nat) e =>
    match e with
    | .packet c p =>
      if (getConn acc.1 c).isNone then acc else
      match p with
      | .pingresp | .suback _ _ | .unsuback _ | .connack _ _ | .connectAgain => (acc.1, acc.2.1, acc.2.2 ++ [c])
      | _ => let r := stepS rp acc.1 e; (r.1, acc.2.1 ++ r.2, acc.2.2)
    | _ => let r := stepS rp acc.1 e; (r.1, acc.2.1 ++ r.2, acc.2.2)) (s, [], [])

/-- run events on both sides and emit the line; `free`: connections whose own group the specification leaves open -/
def runRaw (st : St) (c : Nat) (keepConnack : Bool) (evs : List Ev) (pendAfter : Bytes) : St × String × String :=
  let (m, mo) := stepsModel st.repub st.m evs
  let (s, so, free) := stepsSpec st.repub st.s evs
  let st1 : St := { st with m := m, s := s }
  let st2 := st1.setPend c (if m.alive c then pendAfter else [])
  let (st3, ml, sl) := emit st2 (some c) keepConnack mo so (!evs.isEmpty)
  -- a `?` item makes the whole group of that connection free (lib/vcheck/props_broker.py)
  let sl := if free.isEmpty || sl == "*" then sl else
    sl ++ " " ++ " ".intercalate (free.eraseDups.map (fun i => s!"c{i}[?]"))
  (st3, ml, if sl.startsWith "- " then (sl.drop 2).toString else sl)

/-- `race <a> <hex|close> <p> <hex>`: connection `a` sends its bytes (or its socket is closed) while
connection `p` sends packets, nothing in between.  The model takes `a`'s events first; the line is
the same for every interleaving as long as `a` ends up closed (what `a` received is then not
compared) — the generators use it only that way: a close, or bytes that are fatal at a packet
boundary; on a mid-packet connection the event is a no-op on both sides. -/
def handleRace (st : St) (a : Nat) (xa : Option Bytes) (p : Nat) (bp : Bytes) : St × String × String :=
  if !st.m.alive a || !st.m.alive p || a == p || st.mid p || st.mid a then (st, "-", "-") else
  let (evsA, restA) := match xa with
    | none => ([Ev.close a], [])
    | some bs => let avail := st.pendOf a ++ bs; Mqtt.Model.Framing.postEvents ringSize a (avail.length + 1) avail
  let (evsP, restP) := Mqtt.Model.Framing.postEvents ringSize p (bp.length + 1) bp
  let evs := evsA ++ evsP
  let (m, mo) := stepsModel st.repub st.m evs
  let (s, so, free) := stepsSpec st.repub st.s evs
  let st1 : St := { st with m := m, s := s }
  let st2 := (st1.setPend a (if m.alive a then restA else [])).setPend p (if m.alive p then restP else [])
  let (st3, ml, sl) := emit st2 (some a) false mo so (!evsA.isEmpty)
  let sl := if free.isEmpty || sl == "*" then sl else
    sl ++ " " ++ " ".intercalate (free.eraseDups.map (fun i => s!"c{i}[?]"))
  (st3, ml, if sl.startsWith "- " then (sl.drop 2).toString else sl)

def handleRaw (st : St) (c : Nat) (bs : Bytes) : St × String × String :=
  if !st.m.alive c then (st, "-", "-") else
  let avail := st.pendOf c ++ bs
  let (evs, rest) := Mqtt.Model.Framing.postEvents ringSize c (avail.length + 1) avail
  runRaw st c false evs rest

/-- `rawclose <c> <hex>`: whole packets and the close of the socket right behind them - the packets
take effect in order, then the connection ends (unless one of them ended it already) -/
def handleRawClose (st : St) (c : Nat) (bs : Bytes) : St × String × String :=
  if !st.m.alive c || st.mid c then (st, "-", "-") else
  let (evs, _) := Mqtt.Model.Framing.postEvents ringSize c (bs.length + 1) bs
  let alive := (stepsModel st.repub st.m evs).1.alive c
  runRaw st c false (evs ++ (if alive then [Ev.close c] else [])) []

def handleRawFirst (st : St) (c : Nat) (bs : Bytes) (closes : Bool) : St × String × String :=
  -- an incomplete first packet ends with the peer's close or with the connect deadline: refused either way
  match Mqtt.Model.Framing.firstEvent c rawAuth bs true with
  | none => (st, "bad-op", "bad-op")
  | some (e1, rest) =>
    let accepted := (Mqtt.Model.Broker.step st.m e1).1.alive c
    let (evs, rest') := if accepted then Mqtt.Model.Framing.postEvents ringSize c (rest.length + 1) rest else ([], [])
    let evs := [e1] ++ evs ++ (if accepted && closes then [Ev.close c] else [])
    runRaw st c true evs (if closes then [] else rest')

/-- `unsubrace <a> <p> <pktid> <f1,…,fn> <topic> <payload>`: connection `a` sends one UNSUBSCRIBE for
all the filters; as soon as its client has received the UNSUBACK connection `p` publishes (QoS 0)
on `topic`.  Two events in sequence, one output line.  (On the unchanged code the UNSUBACK is
written after the last filter is gone, so the order is the only one possible; on connections that
are closed or mid-packet the event is a no-op on both sides.) -/
def handleUnsubRace (st : St) (a p id : Nat) (fs : List Bytes) (topic payload : Bytes) : St × String × String :=
  if !st.m.alive a || !st.m.alive p || a == p || st.mid p || st.mid a then (st, "-", "-") else
  let e1 := Ev.packet a (.unsubscribe id fs)
  let e2 := Ev.packet p (.publish { qos := 0, topic := topic, payload := payload })
  let (m1, mo1) := stepM st.repub st.m e1
  let (m2, mo2) := stepM st.repub m1 e2
  let (s1, so1) := stepS st.repub st.s e1
  let (s2, so2) := stepS st.repub s1 e2
  emit { st with m := m2, s := s2 } none false (mo1 ++ mo2) (so1 ++ so2)

/-- `hsrace <a> connect <fields> ; <b> <hex>`: two overlapping handshakes.  The harness holds
connection `a` inside `Authenticate` (user name "slow…") while connection `b` sends its first packet
(bytes, as in `rawfirst`, never closing by itself) and is observed to the end; then `a` is released.
On the code as it is the two handshakes share nothing: `b`'s first packet (and what follows it in
the same bytes), then `a`'s CONNECT - two events in this order, one output line. -/
def handleHsRace (st : St) (ea : Ev) (b : Nat) (bs : Bytes) : St × String × String :=
  match Mqtt.Model.Framing.firstEvent b rawAuth bs true with
  | none => (st, "bad-op", "bad-op")
  | some (eb, rest) =>
    let accepted := (Mqtt.Model.Broker.step st.m eb).1.alive b
    let (evs, rest') := if accepted then Mqtt.Model.Framing.postEvents ringSize b (rest.length + 1) rest else ([], [])
    runRaw st b true ([eb] ++ evs ++ [ea]) rest'

def handle1 (st : St) (ws : List String) : St × String × String :=
  match ws with
  | ["reset"] => ({}, "reset", "reset")
  | ["srvclose"] =>
    if st.srvClosed then (st, "-", "-") else
    -- `Server.Close`: `stop()` for every live connection in the order of registration = the
    -- non-graceful end of each (`Model.Broker.srvClose = stopAll b (liveIds b)`, `.close c` one by one;
    -- republishing callbacks run in between as for any end).  Every connection is closed on this line,
    -- so what else it was sent on it is not observed (the rule of `ownFilter`); callbacks see everything.
    let ids := Mqtt.Model.Broker.liveIds st.m
    let r := ids.foldl (fun (acc : Mqtt.Model.Broker.B × Mqtt.Spec.Broker.S × List Out × List Mqtt.Spec.Broker.SOut) c =>
      let (m, mo) := stepM st.repub acc.1 (.close c)
      let (s, so) := stepS st.repub acc.2.1 (.close c)
      (m, s, acc.2.2.1 ++ mo, acc.2.2.2 ++ so)) (st.m, st.s, [], [])
    let mo := r.2.2.1.filter (fun o => match o with | .send _ _ => false | _ => true)
    let so := r.2.2.2.filter (fun o => match o with
      | .send _ _ | .sendOrClose _ _ => false
      | .deliver ow _ | .retained ow _ => decide (Mqtt.Spec.Broker.cbBase ≤ ow)
      | _ => true)
    let st1 : St := { st with m := r.1, s := r.2.1, pend := [], heldM := [], heldS := [], srvClosed := true }
    emit st1 none false mo so
  | "hsrace" :: a :: rest =>
    let (af, bf) := splitSemi rest
    match parseEv ("first" :: a :: af), bf with
    | some ea, [b, hex] =>
      match b.toNat?, unhex hex with
      | some b, some bs => handleHsRace st ea b bs
      | _, _ => (st, "bad-op", "bad-op")
    | _, _ => (st, "bad-op", "bad-op")
  | ["unsubrace", a, p, id, fs, topic, payload] =>
    match a.toNat?, p.toNat?, id.toNat?, (fs.splitOn ",").mapM unhex, unhex topic, unhex payload with
    | some a, some p, some id, some fs, some t, some pl => handleUnsubRace st a p id fs t pl
    | _, _, _, _, _, _ => (st, "bad-op", "bad-op")
  | ["srvsubrepub", cb, f, q, target] =>
    match cb.toNat?, unhex f, q.toNat?, unhex target with
    | some cb, some f, some q, some target =>
      -- registered before the subscription is made: retained messages handed over by the
      -- subscription itself are republished too
      let rp := (cb, target) :: st.repub.filter (fun x => x.1 != cb)
      let ev := Ev.srvSub cb f q
      let (m, mo) := stepM rp st.m ev
      let (s, so) := stepS rp st.s ev
      emit { st with m := m, s := s, repub := rp } none false mo so
    | _, _, _, _ => (st, "bad-op", "bad-op")
  | ["raw", c, hex] =>
    match c.toNat?, unhex hex with
    | some c, some bs => handleRaw st c bs
    | _, _ => (st, "bad-op", "bad-op")
  | ["rawclose", c, hex] =>
    match c.toNat?, unhex hex with
    | some c, some bs => handleRawClose st c bs
    | _, _ => (st, "bad-op", "bad-op")
  | ["rawclose", c, hex, "eof"] =>
    -- the same bytes handed to the broker's read together with the end of the stream (n > 0, io.EOF):
    -- every packet still takes effect before the end does
    match c.toNat?, unhex hex with
    | some c, some bs => handleRawClose st c bs
    | _, _ => (st, "bad-op", "bad-op")
  | ["race", a, xa, p, hp] =>
    match a.toNat?, (if xa == "close" then some none else (unhex xa).map some), p.toNat?, unhex hp with
    | some a, some xa, some p, some bp => handleRace st a xa p bp
    | _, _, _, _ => (st, "bad-op", "bad-op")
  | ["rawfirst", c, hex, k] =>
    match c.toNat?, unhex hex, parseBool k with
    | some c, some bs, some k => handleRawFirst st c bs k
    | _, _, _ => (st, "bad-op", "bad-op")
  | "failfirst" :: rest =>
    -- a first packet on a connection the broker cannot write to (`handleConnection` with a failing
    -- `writeMessage`): take-over as for any CONNECT, then `firstFail` on both sides
    match parseEv ("first" :: rest) with
    | some (.first c f a) =>
      let r0 := Mqtt.Model.Broker.takeOver st.m f a
      let r0 := if st.repub.isEmpty then r0 else closeM st.repub repubFuel r0.1 r0.2
      let r1 := Mqtt.Model.Broker.firstFail r0.1 c f a
      let s0 := Mqtt.Spec.Broker.takeOver st.s f a
      let s0 := if st.repub.isEmpty || specUnspecified s0.2 then s0 else closeS st.repub repubFuel s0.1 s0.2
      let s1 := Mqtt.Spec.Broker.firstFail s0.1 c f a
      let tent := match f with
        | .connect req =>
          if !(Mqtt.Spec.Broker.refusals req a).isEmpty || req.clientId.isEmpty then st.tent
          else if req.clean then st.tent.filter (· != req.clientId)
          else if (s0.1.stored.lookup req.clientId).isNone then req.clientId :: st.tent
          else st.tent
        | _ => st.tent
      emit { st with m := r1.1, s := s1.1, tent := tent } none false (r0.2 ++ r1.2) (s0.2 ++ s1.2)
    | _ => (st, "bad-op", "bad-op")
  | "firstp" :: c :: rest =>
    let (a, b) := splitSemi rest
    match parseEv ("first" :: c :: a), parseEv ("pkt" :: c :: b) with
    | some e1, some e2 =>
      let (m1, mo1) := stepM st.repub st.m e1
      let (m2, mo2) := stepM st.repub m1 e2
      let (s1, so1) := stepS st.repub st.s e1
      let (s2, so2) := stepS st.repub s1 e2
      let (st', ml, sl) := emit { st with m := m2, s := s2 } none false (mo1 ++ mo2) (so1 ++ so2)
      (tentAfter { st' with m := m1 } e1 |> fun t => { t with m := m2 }, ml, tentLine st e1 sl)
    | _, _ => (st, "bad-op", "bad-op")
  | _ =>
    match parseEv ws with
    | none => (st, "bad-op", "bad-op")
    | some ev =>
      -- packets are written as bytes: on a connection that is mid-packet they would become part of
      -- the pending packet, which `raw` expresses; refused on both sides
      let midConn : Option Nat := match ev with
        | .packet c _ => if st.mid c then some c else none
        | _ => none
      if midConn.isSome then (st, "bad-op", "bad-op") else
      let (m, mo) := stepM st.repub st.m ev
      let (s, so) := stepS st.repub st.s ev
      let st1 : St := { st with m := m, s := s }
      match ev with
      | .close c => emit (st1.setPend c []) (some c) false mo so
      | _ =>
        let (st', ml, sl) := emit st1 none false mo so
        (tentAfter st' ev, ml, tentLine st ev sl)

def handle (st : St) (ws : List String) : St × String × String :=
  if st.srvClosed && ws != ["reset"] then (st, "-", "-") else handle1 st ws

end Mqtt.Driver.Broker
