/- Driver glue for Core E: `broker …` event lines → model outputs / specification outputs. -/
import Mqtt.Model.Broker
import Mqtt.Spec.Broker
import Mqtt.Driver.Util
import Mqtt.Driver.Topics

namespace Mqtt.Driver.Broker
open Mqtt.Driver Mqtt.Iface.Broker

def parseBool (s : String) : Option Bool := if s == "1" then some true else if s == "0" then some false else none

/-- "~" = absent, otherwise hex ("-" = empty) -/
def parseOptBytes (s : String) : Option (Option Bytes) := if s == "~" then some none else (unhex s).map some

def parseWill (s : String) : Option (Option Will) :=
  if s == "~" then some none else
  match s.splitOn ":" with
  | [t, p, q, r] => do pure (some ⟨← unhex t, ← unhex p, ← q.toNat?, ← parseBool r⟩)
  | _ => none

def parsePub : List String → Option Pub
  | [d, q, r, t, id, p] => do
      let d' ← parseBool d
      let q' ← q.toNat?
      let r' ← parseBool r
      let t' ← unhex t
      let id' ← id.toNat?
      let p' ← unhex p
      pure ⟨d', q', r', t', id', p'⟩
  | _ => none

def parseTopicQos (s : String) : Option (List (Bytes × Nat)) :=
  (s.splitOn ",").mapM (fun e => match e.splitOn ":" with
    | [t, q] => do pure (← unhex t, ← q.toNat?)
    | _ => none)

def parsePacket : List String → Option Packet
  | "publish" :: rest => (parsePub rest).map .publish
  | ["puback", id] => id.toNat?.map .puback
  | ["pubrec", id] => id.toNat?.map .pubrec
  | ["pubrel", id] => id.toNat?.map .pubrel
  | ["pubcomp", id] => id.toNat?.map .pubcomp
  | ["subscribe", id, ts] => do pure (.subscribe (← id.toNat?) (← parseTopicQos ts))
  | ["unsubscribe", id, ts] => do pure (.unsubscribe (← id.toNat?) (← (ts.splitOn ",").mapM unhex))
  | ["pingreq"] => some .pingreq
  | ["pingresp"] => some .pingresp
  | ["disconnect"] => some .disconnect
  | ["connect"] => some .connectAgain
  | ["suback", id] => id.toNat?.map (fun i => .suback i [])
  | ["unsuback", id] => id.toNat?.map .unsuback
  | _ => none

def parseEv : List String → Option Ev
  | ["first", c, "connect", pn, ver, rsv, clean, will, wq, wr, cid, user, pass, ka, auth] => do
      let pn' ← unhex pn
      let ver' ← ver.toNat?
      let rsv' ← parseBool rsv
      let clean' ← parseBool clean
      let will' ← parseWill will
      let wq' ← wq.toNat?
      let wr' ← parseBool wr
      let cid' ← unhex cid
      let user' ← parseOptBytes user
      let pass' ← parseOptBytes pass
      let ka' ← ka.toNat?
      let req : Connect := ⟨pn', ver', rsv', clean', will', wq', wr', cid', user', pass', ka'⟩
      pure (.first (← c.toNat?) (.connect req) (← parseBool auth))
  | ["first", c, "other", t, auth] => do pure (.first (← c.toNat?) (.other (← t.toNat?)) (← parseBool auth))
  | ["first", c, "garbage", auth] => do pure (.first (← c.toNat?) .garbage (← parseBool auth))
  | "pkt" :: c :: rest => do pure (.packet (← c.toNat?) (← parsePacket rest))
  | ["close", c] => c.toNat?.map .close
  | "srvpub" :: rest => (parsePub rest).map .srvPub
  | ["srvsub", cb, f, q] => do pure (.srvSub (← cb.toNat?) (← unhex f) (← q.toNat?))
  | ["srvunsub", cb, f] => do pure (.srvUnsub (← cb.toNat?) (← unhex f))
  | _ => none

def b01 (b : Bool) : String := if b then "1" else "0"

def showPub (p : Pub) (wild : Bool) : String :=
  let d := if wild then "*" else b01 p.dup
  let id := if wild then "*" else toString p.pktid
  s!"PUB {d} {p.qos} {b01 p.retain} {hexOf p.topic} {id} {hexOf p.payload}"

def showPacket : Packet → String
  | .connack sp code => s!"CONNACK {b01 sp} {code}"
  | .publish p => showPub p false
  | .puback id => s!"PUBACK {id}"
  | .pubrec id => s!"PUBREC {id}"
  | .pubrel id => s!"PUBREL {id}"
  | .pubcomp id => s!"PUBCOMP {id}"
  | .suback id codes => s!"SUBACK {id} " ++ ",".intercalate (codes.map toString)
  | .unsuback id => s!"UNSUBACK {id}"
  | .pingresp => "PINGRESP"
  | .pingreq => "PINGREQ"
  | .disconnect => "DISCONNECT"
  | .subscribe id _ => s!"SUBSCRIBE {id}"
  | .unsubscribe id _ => s!"UNSUBSCRIBE {id}"
  | .connectAgain => "CONNECT"

def isPubItem (s : String) : Bool := s.startsWith "PUB "

/-- sort every maximal run of consecutive PUBLISH items (fan-out order is a map order) -/
def sortRuns (items : List String) : List String :=
  let rec go (rest : List String) (run : List String) (acc : List String) : List String :=
    match rest with
    | [] => acc ++ Topics.sortStrings run
    | x :: xs => if isPubItem x then go xs (run ++ [x]) acc else go xs [] (acc ++ Topics.sortStrings run ++ [x])
  go items [] []

def insertNat (x : Nat) : List Nat → List Nat
  | [] => [x]
  | y :: ys => if x ≤ y then x :: y :: ys else y :: insertNat x ys
def sortNats (l : List Nat) : List Nat := l.foldr insertNat []

def groupLine (items : List (Nat × String)) (extra : List String) : String :=
  let ids := sortNats ((items.map (·.1)).eraseDups)
  let groups := ids.map (fun i =>
    let its := sortRuns ((items.filter (fun p => p.1 == i)).map (·.2))
    (if i < Mqtt.Model.Broker.cbBase then s!"c{i}" else s!"cb{i}") ++ "[" ++ ";".intercalate its ++ "]")
  let all := groups ++ extra
  if all.isEmpty then "-" else " ".intercalate all

def showModel (outs : List Out) : String :=
  let items := outs.filterMap (fun o => match o with
    | .send c p => some (c, showPacket p)
    | .closed c => some (c, "CLOSED")
    | .call cb p => some (cb, showPub { p with pktid := 0 } false)   -- the identifier a callback sees depends on fan-out order
    | .apiErr => none)
  groupLine items (if outs.any (fun o => o == .apiErr) then ["apierr"] else [])

open Mqtt.Spec.Broker in
def showSpec (outs : List SOut) : String :=
  if outs.any (fun o => match o with | .unspecified => true | _ => false) then "*" else
  let pubs (l : List Pub) := ",".intercalate (Topics.sortStrings (l.map (fun p => showPub p true)))
  let items := outs.filterMap (fun o => match o with
    | .send c p => some (c, showPacket p)
    | .sendOrClose c p => some (c, showPacket p ++ "|CLOSED")
    | .deliver o l => some (o, "DELIVER{" ++ pubs l ++ "}")
    | .retained o l => if l.isEmpty then none else some (o, "RETAINED{" ++ pubs l ++ "}")
    | .closed c => some (c, "CLOSED")
    | .refused c codes => some (c, "REFUSED{" ++ ",".intercalate (codes.map (fun x => match x with | some n => toString n | none => "-")) ++ "}")
    | .apiErr => none
    | .unspecified => none)
  -- no run-sorting on the specification side: DELIVER / RETAINED items are sets already
  let ids := sortNats ((items.map (·.1)).eraseDups)
  let groups := ids.map (fun i =>
    (if i < cbBase then s!"c{i}" else s!"cb{i}") ++ "[" ++ ";".intercalate ((items.filter (fun p => p.1 == i)).map (·.2)) ++ "]")
  let all := groups ++ (if outs.any (fun o => match o with | .apiErr => true | _ => false) then ["apierr"] else [])
  if all.isEmpty then "-" else " ".intercalate all

structure St where
  m : Mqtt.Model.Broker.B := {}
  s : Mqtt.Spec.Broker.S := {}

/-- `firstp <c> connect … ; <packet…>`: the CONNECT and a further packet written in one go, before
the CONNACK is read (MQTT 3.1.1 §3.1.4 allows it): two events, one output line -/
def splitSemi (ws : List String) : List String × List String :=
  (ws.takeWhile (· != ";"), (ws.dropWhile (· != ";")).drop 1)

def handle (st : St) (ws : List String) : St × String × String :=
  match ws with
  | ["reset"] => ({}, "reset", "reset")
  | "firstp" :: c :: rest =>
    let (a, b) := splitSemi rest
    match parseEv ("first" :: c :: a), parseEv ("pkt" :: c :: b) with
    | some e1, some e2 =>
      let (m1, mo1) := Mqtt.Model.Broker.step st.m e1
      let (m2, mo2) := Mqtt.Model.Broker.step m1 e2
      let (s1, so1) := Mqtt.Spec.Broker.step st.s e1
      let (s2, so2) := Mqtt.Spec.Broker.step s1 e2
      (⟨m2, s2⟩, showModel (mo1 ++ mo2), showSpec (so1 ++ so2))
    | _, _ => (st, "bad-op", "bad-op")
  | _ =>
    match parseEv ws with
    | none => (st, "bad-op", "bad-op")
    | some ev =>
      let (m, mo) := Mqtt.Model.Broker.step st.m ev
      let (s, so) := Mqtt.Spec.Broker.step st.s ev
      (⟨m, s⟩, showModel mo, showSpec so)

end Mqtt.Driver.Broker
