import Mqtt.Driver.Main
def main (args : List String) : IO UInt32 := Mqtt.Driver.main args
