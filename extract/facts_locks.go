package main

// Core G (property C18): the ACCESS TABLE of the library's lock-guarded state.
//
// A purely lexical, package-local analysis with go/ast (no go/types):
//
//   * every selector `base.field` whose base can be typed (receiver, parameter,
//     field of a known struct, element of a slice/map field, result of a
//     function of the repository, local variable assigned from such) as one of
//     the tracked structs becomes a row: function, struct, field, read/write,
//     atomic?, the mutexes lexically held at that point (Lock/RLock/Unlock/
//     RUnlock as statements, `defer x.Unlock()` = held to the end), and the
//     mutexes guaranteed by EVERY call site of the function inside its package
//     (meet over the call graph, greatest fixpoint; exported functions, method
//     values and `go` statements guarantee nothing);
//   * package-level variables that are written (or accessed atomically)
//     outside `func init` get rows as well; a package-level mutex
//     (`var mu sync.RWMutex`, locked as `mu.Lock()`) is recorded as held under
//     the name "pkg.mu" and counts as belonging to ("same") the package-level
//     variables of its package, never to a struct field;
//   * references of pointer/slice/map type copied out of a guarded struct
//     (returned, appended to caller-visible storage) are listed as escapes.
//
// Anything the walker does not recognise is fatal.  What it cannot see is
// listed in NOTES-locks.md (aliasing, reflection, closures are analysed where
// they are written and with no lock held, interface dispatch, writes through
// pointers handed to other functions).

import (
	"fmt"
	"go/ast"
	"go/parser"
	"go/token"
	"os"
	"path/filepath"
	"sort"
	"strings"
)

func init() { extraSections = append(extraSections, section{"locks", factsLocks}) }

// ---- expectations: which structs are tracked -------------------------------------

type trackSpec struct {
	pkg, name string
	fields    []string // nil = every field that is not a mutex
}

var lockTracked = []trackSpec{
	{"topics", "MemTopics", nil},
	{"topics", "snode", nil},
	{"topics", "rnode", nil},
	{"sessions", "Ackqueue", nil},
	{"sessions", "Session", nil},
	{"sessions", "MemProvider", nil},
	{"service", "Server", []string{"svcs"}},
	{"service", "service", []string{"conn", "in", "out", "intmp", "outtmp"}},
	{"service", "stat", nil},
}

// packages analysed; in `message` only package-level variables are of interest
var lockPkgs = []string{"message", "topics", "sessions", "auth", "service"}

// ---- package model ----------------------------------------------------------------

type lkStruct struct {
	pkg, name string
	fields    map[string]string // field -> normalised type
	order     []string
	embedded  bool
	ptr       map[string]bool // field declared with a pointer type
}

type lkFunc struct {
	pkg      *lkPkg
	key      string // "Recv.name" or "name"
	decl     *ast.FuncDecl
	recvName string // receiver identifier
	recvType string // "pkg.T"
	exported bool
	results  []string
	file     *ast.File
}

type lkPkg struct {
	name    string
	files   []*ast.File
	structs map[string]*lkStruct
	funcs   map[string][]*lkFunc // build-tag twins share a key
	vars    map[string]string    // package-level variables -> type ("?" if not declared)
	imports map[*ast.File]map[string]string
}

var lkPkgs = map[string]*lkPkg{}

func lkLoad(repo string) {
	for _, name := range lockPkgs {
		dir := filepath.Join(repo, name)
		ents, err := os.ReadDir(dir)
		if err != nil {
			die("%v", err)
		}
		p := &lkPkg{name: name, structs: map[string]*lkStruct{}, funcs: map[string][]*lkFunc{}, vars: map[string]string{},
			imports: map[*ast.File]map[string]string{}}
		for _, e := range ents {
			n := e.Name()
			if !strings.HasSuffix(n, ".go") || strings.HasSuffix(n, "_test.go") {
				continue
			}
			f, err := parser.ParseFile(fset, filepath.Join(dir, n), nil, parser.SkipObjectResolution)
			if err != nil {
				die("%v", err)
			}
			if f.Name.Name != name {
				die("%s/%s: package %s, expected %s", name, n, f.Name.Name, name)
			}
			p.files = append(p.files, f)
		}
		lkPkgs[name] = p
	}
	for _, p := range lkPkgs {
		for _, f := range p.files {
			imp := map[string]string{}
			for _, is := range f.Imports {
				path := strings.Trim(is.Path.Value, "\"")
				local := path[strings.LastIndex(path, "/")+1:]
				if path == "github.com/mdzio/go-logging" {
					local = "logging"
				}
				if is.Name != nil {
					local = is.Name.Name
				}
				imp[local] = path[strings.LastIndex(path, "/")+1:]
				if path == "github.com/mdzio/go-logging" {
					imp[local] = "logging"
				}
			}
			p.imports[f] = imp
		}
	}
	// types and variables first, functions second (results need the type names)
	for _, p := range lkPkgs {
		for _, f := range p.files {
			for _, d := range f.Decls {
				gd, ok := d.(*ast.GenDecl)
				if !ok {
					continue
				}
				for _, s := range gd.Specs {
					switch s := s.(type) {
					case *ast.TypeSpec:
						st, ok := s.Type.(*ast.StructType)
						if !ok {
							continue
						}
						ls := &lkStruct{pkg: p.name, name: s.Name.Name, fields: map[string]string{}, ptr: map[string]bool{}}
						for _, fl := range st.Fields.List {
							t := lkTypeName(p, f, fl.Type)
							if len(fl.Names) == 0 {
								// embedded field: named after its type; promoted fields are not resolved, and a
								// tracked struct must not have one (checked in lkInitTracked)
								n := t[strings.LastIndex(t, ".")+1:]
								ls.fields[n] = t
								ls.order = append(ls.order, n)
								ls.embedded = true
							}
							_, isPtr := fl.Type.(*ast.StarExpr)
							for _, n := range fl.Names {
								ls.fields[n.Name] = t
								ls.ptr[n.Name] = isPtr
								ls.order = append(ls.order, n.Name)
							}
						}
						p.structs[s.Name.Name] = ls
					case *ast.ValueSpec:
						if gd.Tok != token.VAR {
							continue
						}
						for _, n := range s.Names {
							t := "?"
							if s.Type != nil {
								t = lkTypeName(p, f, s.Type)
							}
							p.vars[n.Name] = t
						}
					}
				}
			}
		}
	}
	for _, p := range lkPkgs {
		for _, f := range p.files {
			for _, d := range f.Decls {
				fd, ok := d.(*ast.FuncDecl)
				if !ok {
					continue
				}
				lf := &lkFunc{pkg: p, decl: fd, file: f, key: fd.Name.Name, exported: ast.IsExported(fd.Name.Name)}
				if fd.Recv != nil {
					if len(fd.Recv.List) != 1 {
						die("%s: odd receiver list", fd.Name.Name)
					}
					r := fd.Recv.List[0]
					lf.recvType = lkTypeName(p, f, r.Type)
					if len(r.Names) == 1 {
						lf.recvName = r.Names[0].Name
					}
					short := lf.recvType[strings.LastIndex(lf.recvType, ".")+1:]
					lf.key = short + "." + fd.Name.Name
				}
				if fd.Type.Results != nil {
					for _, r := range fd.Type.Results.List {
						t := lkTypeName(p, f, r.Type)
						n := len(r.Names)
						if n == 0 {
							n = 1
						}
						for i := 0; i < n; i++ {
							lf.results = append(lf.results, t)
						}
					}
				}
				p.funcs[lf.key] = append(p.funcs[lf.key], lf)
			}
		}
	}
}

var lkBuiltinTypes = map[string]bool{"bool": true, "byte": true, "int": true, "int8": true, "int16": true, "int32": true, "int64": true,
	"uint": true, "uint8": true, "uint16": true, "uint32": true, "uint64": true, "uintptr": true, "string": true, "error": true,
	"float32": true, "float64": true, "rune": true, "any": true}

// lkTypeName normalises a type expression: pointers are dropped, named types
// are "pkg.T", slices "[]T", maps "map[]V".
func lkTypeName(p *lkPkg, f *ast.File, e ast.Expr) string {
	switch e := e.(type) {
	case *ast.Ident:
		if lkBuiltinTypes[e.Name] {
			return e.Name
		}
		return p.name + "." + e.Name
	case *ast.StarExpr:
		return lkTypeName(p, f, e.X)
	case *ast.ParenExpr:
		return lkTypeName(p, f, e.X)
	case *ast.SelectorExpr:
		if id, ok := e.X.(*ast.Ident); ok {
			pk := id.Name
			if f != nil {
				if m, ok := p.imports[f][id.Name]; ok {
					pk = m
				}
			}
			return pk + "." + e.Sel.Name
		}
		return "?"
	case *ast.ArrayType:
		return "[]" + lkTypeName(p, f, e.Elt)
	case *ast.MapType:
		return "map[]" + lkTypeName(p, f, e.Value)
	case *ast.FuncType:
		return "func"
	case *ast.InterfaceType:
		return "interface"
	case *ast.ChanType:
		return "chan"
	case *ast.Ellipsis:
		return "[]" + lkTypeName(p, f, e.Elt)
	case *ast.StructType:
		return "struct"
	}
	return "?"
}

func lkStructOf(t string) *lkStruct {
	i := strings.Index(t, ".")
	if i < 0 || strings.HasPrefix(t, "[]") || strings.HasPrefix(t, "map[]") {
		return nil
	}
	p := lkPkgs[t[:i]]
	if p == nil {
		return nil
	}
	return p.structs[t[i+1:]]
}

func lkIsMutex(t string) bool { return t == "sync.Mutex" || t == "sync.RWMutex" }

// tracked fields of a struct type ("pkg.T"), nil if the struct is not tracked
var lkTrackedFields = map[string]map[string]bool{}
var lkTrackedNames = map[string]bool{} // every tracked field name (for the unknown-base check)

func lkInitTracked() {
	for _, ts := range lockTracked {
		p := lkPkgs[ts.pkg]
		st := p.structs[ts.name]
		if st == nil {
			die("tracked struct %s.%s not found", ts.pkg, ts.name)
		}
		if st.embedded {
			die("tracked struct %s.%s has an embedded field (promoted fields are not resolved by the lock extractor)", ts.pkg, ts.name)
		}
		m := map[string]bool{}
		if ts.fields == nil {
			for _, f := range st.order {
				if !lkIsMutex(st.fields[f]) {
					m[f] = true
				}
			}
		} else {
			for _, f := range ts.fields {
				if _, ok := st.fields[f]; !ok {
					die("tracked field %s.%s.%s not found", ts.pkg, ts.name, f)
				}
				m[f] = true
			}
		}
		for f := range m {
			lkTrackedNames[f] = true
		}
		for _, f := range st.order {
			if lkIsMutex(st.fields[f]) {
				lkTrackedNames[f] = true
			}
		}
		lkTrackedFields[ts.pkg+"."+ts.name] = m
	}
}

// ---- results ----------------------------------------------------------------------

type lkHeld struct {
	name string // "Ackqueue.mu"
	excl bool
	same bool // the mutex belongs to the object that is accessed
}

type lkRow struct {
	pkg, fn, obj, field, via string
	write, atomic, init      bool
	held                     []lkHeld
	fnKey                    string // for the inherited context / dead flag
	baseIsRecv               bool
}

type lkEscape struct{ pkg, fn, obj, field, how string }

// a lock context guaranteed at function entry: mutex name -> (exclusive?, belongs to the receiver?)
type lkCtxEntry struct{ excl, recv bool }
type lkCtx map[string]lkCtxEntry // nil = no call site seen yet (top)

type lkCall struct {
	caller   string // function key of the caller ("" = outside any analysable context)
	callee   string
	held     map[string]lkCtxEntry // lexical locks at the site, recv = mutex base equals the call's receiver expression
	recvSame bool                  // the call's receiver expression is the caller's receiver identifier
	noCtx    bool                  // go statement, closure body, unknown: nothing is guaranteed
}

type lkState struct {
	rows     []lkRow
	escapes  []lkEscape
	calls    []lkCall
	escaping map[string]bool // functions referenced other than by a direct call
}

// ---- scopes -------------------------------------------------------------------------

type lkScope struct {
	vars   map[string]string
	parent *lkScope
}

func (s *lkScope) lookup(n string) (string, bool) {
	for c := s; c != nil; c = c.parent {
		if t, ok := c.vars[n]; ok {
			return t, true
		}
	}
	return "", false
}

// ---- the walker -----------------------------------------------------------------------

type lkHeldLock struct {
	name string // "Ackqueue.mu"
	base string // exprString of the object the mutex belongs to
	excl bool
}

type lkWalker struct {
	st     *lkState
	p      *lkPkg
	file   *ast.File
	fn     *lkFunc
	fnName string // reported name (closures: "f$1")
	fnKey  string // call-graph key ("" for closures)
	scope  *lkScope
	held   map[string]lkHeldLock // key = base + "." + field
	hasGo  bool
	seenGo bool
	isInit bool
	strict bool // unknown-typed base with a tracked field name is fatal
	nclos  *int
}

func (w *lkWalker) pos(n ast.Node) string { return fset.Position(n.Pos()).String() }

func (w *lkWalker) push() { w.scope = &lkScope{vars: map[string]string{}, parent: w.scope} }
func (w *lkWalker) pop()  { w.scope = w.scope.parent }

func (w *lkWalker) define(name, typ string) {
	if name == "_" {
		return
	}
	w.scope.vars[name] = typ
}

func (w *lkWalker) lookupFunc(p *lkPkg, key string) *lkFunc {
	if fs := p.funcs[key]; len(fs) > 0 {
		return fs[0]
	}
	return nil
}

// typeOf computes the normalised type of an expression, "?" if unknown.
func (w *lkWalker) typeOf(e ast.Expr) string {
	switch e := e.(type) {
	case *ast.Ident:
		if t, ok := w.scope.lookup(e.Name); ok {
			return t
		}
		if t, ok := w.p.vars[e.Name]; ok {
			return t
		}
		return "?"
	case *ast.ParenExpr:
		return w.typeOf(e.X)
	case *ast.StarExpr:
		return w.typeOf(e.X)
	case *ast.UnaryExpr:
		if e.Op == token.AND {
			return w.typeOf(e.X)
		}
		return "?"
	case *ast.SelectorExpr:
		if id, ok := e.X.(*ast.Ident); ok {
			if _, local := w.scope.lookup(id.Name); !local {
				if pk, ok := w.p.imports[w.file][id.Name]; ok {
					if q := lkPkgs[pk]; q != nil {
						if t, ok := q.vars[e.Sel.Name]; ok {
							return t
						}
					}
					return "?"
				}
			}
		}
		if st := lkStructOf(w.typeOf(e.X)); st != nil {
			if t, ok := st.fields[e.Sel.Name]; ok {
				return t
			}
		}
		return "?"
	case *ast.IndexExpr:
		t := w.typeOf(e.X)
		if strings.HasPrefix(t, "[]") {
			return t[2:]
		}
		if strings.HasPrefix(t, "map[]") {
			return t[5:]
		}
		return "?"
	case *ast.SliceExpr:
		return w.typeOf(e.X)
	case *ast.CompositeLit:
		if e.Type == nil {
			return "?"
		}
		return lkTypeName(w.p, w.file, e.Type)
	case *ast.TypeAssertExpr:
		if e.Type == nil {
			return "?"
		}
		return lkTypeName(w.p, w.file, e.Type)
	case *ast.CallExpr:
		rs := w.callResults(e)
		if len(rs) > 0 {
			return rs[0]
		}
		return "?"
	}
	return "?"
}

func (w *lkWalker) callResults(c *ast.CallExpr) []string {
	switch f := c.Fun.(type) {
	case *ast.Ident:
		if _, local := w.scope.lookup(f.Name); local {
			return nil
		}
		switch f.Name {
		case "make", "new":
			if len(c.Args) > 0 {
				return []string{lkTypeName(w.p, w.file, c.Args[0])}
			}
		case "append":
			if len(c.Args) > 0 {
				return []string{w.typeOf(c.Args[0])}
			}
		}
		if lf := w.lookupFunc(w.p, f.Name); lf != nil {
			return lf.results
		}
		if _, ok := w.p.structs[f.Name]; ok && len(c.Args) == 1 {
			return []string{w.p.name + "." + f.Name} // conversion
		}
		if lkBuiltinTypes[f.Name] {
			return []string{f.Name}
		}
	case *ast.SelectorExpr:
		if id, ok := f.X.(*ast.Ident); ok {
			if _, local := w.scope.lookup(id.Name); !local {
				if pk, ok := w.p.imports[w.file][id.Name]; ok {
					if q := lkPkgs[pk]; q != nil {
						if lf := w.lookupFunc(q, f.Sel.Name); lf != nil {
							return lf.results
						}
					}
					return nil
				}
			}
		}
		t := w.typeOf(f.X)
		if st := lkStructOf(t); st != nil {
			if lf := w.lookupFunc(lkPkgs[st.pkg], st.name+"."+f.Sel.Name); lf != nil {
				return lf.results
			}
		}
	case *ast.ArrayType, *ast.MapType, *ast.StarExpr, *ast.ParenExpr, *ast.InterfaceType, *ast.FuncType:
		return []string{lkTypeName(w.p, w.file, c.Fun)}
	}
	return nil
}

// trackedSel reports whether `e` is base.field with base typed as a tracked struct and field tracked.
func (w *lkWalker) trackedSel(e *ast.SelectorExpr) (st *lkStruct, ok bool) {
	if id, isId := e.X.(*ast.Ident); isId {
		if _, local := w.scope.lookup(id.Name); !local {
			if _, isPkg := w.p.imports[w.file][id.Name]; isPkg {
				return nil, false
			}
		}
	}
	t := w.typeOf(e.X)
	st = lkStructOf(t)
	if st == nil {
		if t == "?" && w.strict && lkTrackedNames[e.Sel.Name] {
			die("%s: cannot type the base of %s (field name %q is the name of a tracked field or mutex)", w.pos(e), exprString(e), e.Sel.Name)
		}
		return nil, false
	}
	tf := lkTrackedFields[st.pkg+"."+st.name]
	if tf == nil || !tf[e.Sel.Name] {
		return st, false
	}
	return st, true
}

func (w *lkWalker) heldList(base string) []lkHeld {
	var hs []lkHeld
	for _, h := range w.held {
		hs = append(hs, lkHeld{name: h.name, excl: h.excl, same: h.base == base})
	}
	sort.Slice(hs, func(i, j int) bool { return hs[i].name < hs[j].name })
	return hs
}

func (w *lkWalker) emit(e *ast.SelectorExpr, st *lkStruct, write, atomic bool, via string) {
	base := exprString(e.X)
	w.st.rows = append(w.st.rows, lkRow{pkg: w.p.name, fn: w.fnName, obj: st.name, field: e.Sel.Name, via: via,
		write: write, atomic: atomic, init: w.isInit || (w.hasGo && !w.seenGo), held: w.heldList(base), fnKey: w.fnKey,
		baseIsRecv: w.fn != nil && w.fnKey != "" && w.fn.recvName != "" && base == w.fn.recvName})
}

func (w *lkWalker) emitVar(name string, write, atomic bool) {
	w.st.rows = append(w.st.rows, lkRow{pkg: w.p.name, fn: w.fnName, obj: "", field: name, write: write, atomic: atomic,
		init: w.isInit, held: w.heldList("\x00"), fnKey: w.fnKey})
}

func (w *lkWalker) isPkgVar(id *ast.Ident) bool {
	if _, local := w.scope.lookup(id.Name); local {
		return false
	}
	_, ok := w.p.vars[id.Name]
	return ok
}

// lockOp recognises  base.mu.Lock() / RLock() / Unlock() / RUnlock()  and the same calls on a
// package-level mutex variable.
func (w *lkWalker) lockOp(c *ast.CallExpr) (key string, hl lkHeldLock, op string, ok bool) {
	sel, isSel := c.Fun.(*ast.SelectorExpr)
	if !isSel || len(c.Args) != 0 {
		return
	}
	switch sel.Sel.Name {
	case "Lock", "RLock", "Unlock", "RUnlock":
	default:
		return
	}
	mu, isSel := sel.X.(*ast.SelectorExpr)
	if !isSel {
		// a package-level mutex (`providersMu.Lock()`): it can only guard package-level variables of
		// its own package, so its "object" is the package (base "\x00", the base emitVar asks for)
		if id, isId := sel.X.(*ast.Ident); isId && w.isPkgVar(id) && lkIsMutex(w.p.vars[id.Name]) {
			return "\x00." + id.Name, lkHeldLock{name: w.p.name + "." + id.Name, base: "\x00", excl: sel.Sel.Name == "Lock"}, sel.Sel.Name, true
		}
		return
	}
	if !lkIsMutex(w.typeOf(mu)) {
		return
	}
	st := lkStructOf(w.typeOf(mu.X))
	if st == nil {
		die("%s: mutex %s is not a field of a known struct", w.pos(c), exprString(mu))
	}
	base := exprString(mu.X)
	return base + "." + mu.Sel.Name, lkHeldLock{name: st.name + "." + mu.Sel.Name, base: base, excl: sel.Sel.Name == "Lock"}, sel.Sel.Name, true
}

func (w *lkWalker) doLockOp(c *ast.CallExpr, key string, hl lkHeldLock, op string) {
	switch op {
	case "Lock", "RLock":
		if _, dup := w.held[key]; dup {
			die("%s: %s acquired while lexically held", w.pos(c), key)
		}
		w.held[key] = hl
	case "Unlock", "RUnlock":
		h, ok := w.held[key]
		if !ok {
			die("%s: %s released but not lexically held", w.pos(c), key)
		}
		if h.excl != (op == "Unlock") {
			die("%s: %s released in the wrong mode", w.pos(c), key)
		}
		delete(w.held, key)
	}
}

func (w *lkWalker) copyHeld() map[string]lkHeldLock {
	m := map[string]lkHeldLock{}
	for k, v := range w.held {
		m[k] = v
	}
	return m
}

func (w *lkWalker) sameHeld(a map[string]lkHeldLock) bool {
	if len(a) != len(w.held) {
		return false
	}
	for k, v := range a {
		if w.held[k] != v {
			return false
		}
	}
	return true
}

// block walks a nested statement list; the set of held locks must be the same at both ends.
func (w *lkWalker) block(list []ast.Stmt, at ast.Node) {
	before := w.copyHeld()
	w.push()
	for _, s := range list {
		w.stmt(s)
	}
	w.pop()
	if !w.sameHeld(before) {
		die("%s: the set of held mutexes changes across a nested block (not a shape the extractor understands)", w.pos(at))
	}
}

func (w *lkWalker) stmt(s ast.Stmt) {
	switch s := s.(type) {
	case nil, *ast.EmptyStmt, *ast.BranchStmt:
	case *ast.ExprStmt:
		if c, ok := s.X.(*ast.CallExpr); ok {
			if key, hl, op, ok := w.lockOp(c); ok {
				w.doLockOp(c, key, hl, op)
				return
			}
		}
		w.expr(s.X)
	case *ast.DeferStmt:
		if key, hl, op, ok := w.lockOp(s.Call); ok {
			if op != "Unlock" && op != "RUnlock" {
				die("%s: deferred %s", w.pos(s), op)
			}
			h, held := w.held[key]
			if !held || h.excl != hl.excl && false {
				die("%s: deferred release of %s which is not lexically held", w.pos(s), key)
			}
			if h.excl != (op == "Unlock") {
				die("%s: deferred release of %s in the wrong mode", w.pos(s), key)
			}
			return // held until the function returns
		}
		w.expr(s.Call)
	case *ast.GoStmt:
		w.seenGo = true
		w.call(s.Call, true)
	case *ast.AssignStmt:
		for _, r := range s.Rhs {
			w.expr(r)
		}
		if s.Tok == token.DEFINE {
			types := make([]string, len(s.Lhs))
			for i := range types {
				types[i] = "?"
			}
			if len(s.Rhs) == len(s.Lhs) {
				for i, r := range s.Rhs {
					types[i] = w.typeOf(r)
				}
			} else if len(s.Rhs) == 1 {
				switch r := s.Rhs[0].(type) {
				case *ast.CallExpr:
					rs := w.callResults(r)
					for i := range types {
						if i < len(rs) {
							types[i] = rs[i]
						}
					}
				default:
					types[0] = w.typeOf(r)
				}
			}
			for i, l := range s.Lhs {
				id, ok := l.(*ast.Ident)
				if !ok {
					die("%s: := with a non-identifier on the left", w.pos(s))
				}
				w.define(id.Name, types[i])
			}
			return
		}
		for _, l := range s.Lhs {
			w.lhs(l)
		}
	case *ast.IncDecStmt:
		w.lhs(s.X)
	case *ast.ReturnStmt:
		for _, r := range s.Results {
			w.escapeCheck(r, "return")
			w.expr(r)
		}
	case *ast.BlockStmt:
		w.block(s.List, s)
	case *ast.IfStmt:
		w.push()
		w.stmt(s.Init)
		w.expr(s.Cond)
		w.block(s.Body.List, s.Body)
		if s.Else != nil {
			switch e := s.Else.(type) {
			case *ast.BlockStmt:
				w.block(e.List, e)
			default:
				w.stmt(e)
			}
		}
		w.pop()
	case *ast.ForStmt:
		w.push()
		w.stmt(s.Init)
		if s.Cond != nil {
			w.expr(s.Cond)
		}
		w.stmt(s.Post)
		w.block(s.Body.List, s.Body)
		w.pop()
	case *ast.RangeStmt:
		w.expr(s.X)
		w.push()
		t := w.typeOf(s.X)
		kt, vt := "?", "?"
		if strings.HasPrefix(t, "[]") {
			kt, vt = "int", t[2:]
		} else if strings.HasPrefix(t, "map[]") {
			vt = t[5:]
		}
		if s.Tok == token.DEFINE {
			if id, ok := s.Key.(*ast.Ident); ok {
				w.define(id.Name, kt)
			}
			if id, ok := s.Value.(*ast.Ident); ok {
				w.define(id.Name, vt)
			}
		} else {
			if s.Key != nil {
				w.lhs(s.Key)
			}
			if s.Value != nil {
				w.lhs(s.Value)
			}
		}
		w.block(s.Body.List, s.Body)
		w.pop()
	case *ast.SwitchStmt:
		w.push()
		w.stmt(s.Init)
		if s.Tag != nil {
			w.expr(s.Tag)
		}
		for _, c := range s.Body.List {
			cc := c.(*ast.CaseClause)
			for _, e := range cc.List {
				w.expr(e)
			}
			w.block(cc.Body, cc)
		}
		w.pop()
	case *ast.TypeSwitchStmt:
		w.push()
		w.stmt(s.Init)
		bind := ""
		var subject ast.Expr
		switch a := s.Assign.(type) {
		case *ast.AssignStmt:
			bind = a.Lhs[0].(*ast.Ident).Name
			subject = a.Rhs[0].(*ast.TypeAssertExpr).X
		case *ast.ExprStmt:
			subject = a.X.(*ast.TypeAssertExpr).X
		}
		w.expr(subject)
		for _, c := range s.Body.List {
			cc := c.(*ast.CaseClause)
			w.push()
			if bind != "" {
				t := "?"
				if len(cc.List) == 1 {
					if id, ok := cc.List[0].(*ast.Ident); !ok || id.Name != "nil" {
						t = lkTypeName(w.p, w.file, cc.List[0])
					}
				}
				w.define(bind, t)
			}
			w.block(cc.Body, cc)
			w.pop()
		}
		w.pop()
	case *ast.SelectStmt:
		for _, c := range s.Body.List {
			cc := c.(*ast.CommClause)
			w.push()
			w.stmt(cc.Comm)
			w.block(cc.Body, cc)
			w.pop()
		}
	case *ast.LabeledStmt:
		w.stmt(s.Stmt)
	case *ast.SendStmt:
		w.expr(s.Chan)
		w.expr(s.Value)
	case *ast.DeclStmt:
		gd := s.Decl.(*ast.GenDecl)
		if gd.Tok != token.VAR && gd.Tok != token.CONST && gd.Tok != token.TYPE {
			die("%s: unexpected declaration", w.pos(s))
		}
		for _, sp := range gd.Specs {
			vs, ok := sp.(*ast.ValueSpec)
			if !ok {
				continue
			}
			for _, v := range vs.Values {
				w.expr(v)
			}
			for i, n := range vs.Names {
				t := "?"
				if vs.Type != nil {
					t = lkTypeName(w.p, w.file, vs.Type)
				} else if i < len(vs.Values) && len(vs.Values) == len(vs.Names) {
					t = w.typeOf(vs.Values[i])
				}
				w.define(n.Name, t)
			}
		}
	default:
		die("%s: statement %T not recognised by the lock extractor", w.pos(s), s)
	}
}

// lhs handles an assignment target.
func (w *lkWalker) lhs(e ast.Expr) {
	switch e := e.(type) {
	case *ast.Ident:
		if w.isPkgVar(e) {
			w.emitVar(e.Name, true, false)
		}
	case *ast.ParenExpr:
		w.lhs(e.X)
	case *ast.SelectorExpr:
		if st, ok := w.trackedSel(e); ok {
			w.emit(e, st, true, false, "")
			w.expr(e.X)
			return
		}
		// a field of a value stored in a tracked container: x.ring[i].State = …
		w.lhsContainer(e.X)
	case *ast.IndexExpr:
		w.expr(e.Index)
		w.lhsContainer(e.X)
	case *ast.StarExpr:
		w.expr(e.X)
	default:
		die("%s: assignment target %T not recognised", w.pos(e), e)
	}
}

// lhsContainer: writing an element (or a field of an element) of `e` writes the container `e`.
func (w *lkWalker) lhsContainer(e ast.Expr) {
	switch e := e.(type) {
	case *ast.Ident:
		if w.isPkgVar(e) {
			w.emitVar(e.Name, true, false)
		}
	case *ast.ParenExpr:
		w.lhsContainer(e.X)
	case *ast.SelectorExpr:
		if st, ok := w.trackedSel(e); ok {
			w.emit(e, st, true, false, "")
			w.expr(e.X)
			return
		}
		w.lhsContainer(e.X)
	case *ast.IndexExpr:
		w.expr(e.Index)
		w.lhsContainer(e.X)
	case *ast.SliceExpr:
		for _, x := range []ast.Expr{e.Low, e.High, e.Max} {
			if x != nil {
				w.expr(x)
			}
		}
		w.lhsContainer(e.X)
	case *ast.StarExpr:
		w.expr(e.X)
	case *ast.CallExpr:
		w.expr(e)
	default:
		die("%s: container expression %T not recognised", w.pos(e), e)
	}
}

// escapeCheck lists references copied out of a guarded struct.
func (w *lkWalker) escapeCheck(e ast.Expr, how string) {
	sel, ok := e.(*ast.SelectorExpr)
	if !ok {
		return
	}
	st, ok := w.trackedSel(sel)
	if !ok {
		return
	}
	t := st.fields[sel.Sel.Name]
	// a copy of a pointer, slice, map, interface or function value shares the storage behind it
	if st.ptr[sel.Sel.Name] || strings.HasPrefix(t, "[]") || strings.HasPrefix(t, "map[]") || t == "interface" || t == "func" || t == "?" {
		w.st.escapes = append(w.st.escapes, lkEscape{w.p.name, w.fnName, st.name, sel.Sel.Name, how})
	}
}

var lkAtomicWrite = map[string]bool{"AddInt32": true, "AddInt64": true, "AddUint32": true, "AddUint64": true, "AddUintptr": true,
	"StoreInt32": true, "StoreInt64": true, "StoreUint32": true, "StoreUint64": true, "StoreUintptr": true, "StorePointer": true,
	"SwapInt32": true, "SwapInt64": true, "SwapUint32": true, "SwapUint64": true, "SwapUintptr": true, "SwapPointer": true,
	"CompareAndSwapInt32": true, "CompareAndSwapInt64": true, "CompareAndSwapUint32": true, "CompareAndSwapUint64": true,
	"CompareAndSwapUintptr": true, "CompareAndSwapPointer": true}
var lkAtomicRead = map[string]bool{"LoadInt32": true, "LoadInt64": true, "LoadUint32": true, "LoadUint64": true, "LoadUintptr": true, "LoadPointer": true}

func (w *lkWalker) isPkgIdent(e ast.Expr, pkg string) bool {
	id, ok := e.(*ast.Ident)
	if !ok {
		return false
	}
	if _, local := w.scope.lookup(id.Name); local {
		return false
	}
	return w.p.imports[w.file][id.Name] == pkg
}

func (w *lkWalker) call(c *ast.CallExpr, isGo bool) {
	// sync/atomic on a tracked location
	if sel, ok := c.Fun.(*ast.SelectorExpr); ok && w.isPkgIdent(sel.X, "atomic") {
		wr, rd := lkAtomicWrite[sel.Sel.Name], lkAtomicRead[sel.Sel.Name]
		if !wr && !rd {
			die("%s: atomic.%s not recognised", w.pos(c), sel.Sel.Name)
		}
		if len(c.Args) == 0 {
			die("%s: atomic call without arguments", w.pos(c))
		}
		u, ok := c.Args[0].(*ast.UnaryExpr)
		if !ok || u.Op != token.AND {
			die("%s: first argument of atomic.%s is not &x", w.pos(c), sel.Sel.Name)
		}
		switch t := u.X.(type) {
		case *ast.Ident:
			if w.isPkgVar(t) {
				w.emitVar(t.Name, wr, true)
			}
		case *ast.SelectorExpr:
			if st, ok := w.trackedSel(t); ok {
				w.emit(t, st, wr, true, "")
			}
			w.expr(t.X)
		default:
			die("%s: atomic operand %T not recognised", w.pos(c), u.X)
		}
		for _, a := range c.Args[1:] {
			w.expr(a)
		}
		return
	}
	// builtins that write their first argument
	if id, ok := c.Fun.(*ast.Ident); ok {
		if _, local := w.scope.lookup(id.Name); !local {
			switch id.Name {
			case "delete":
				w.lhsContainer(c.Args[0])
				w.expr(c.Args[1])
				return
			case "copy":
				w.lhsContainer(c.Args[0])
				w.expr(c.Args[1])
				return
			case "append":
				for i, a := range c.Args {
					if i > 0 {
						w.escapeCheck(a, "append")
					}
					w.expr(a)
				}
				return
			case "make", "new":
				for _, a := range c.Args[1:] {
					w.expr(a)
				}
				return
			case "len", "cap", "panic", "print", "println", "close", "recover", "min", "max":
				for _, a := range c.Args {
					w.expr(a)
				}
				return
			}
		}
	}
	// the callee
	switch f := c.Fun.(type) {
	case *ast.Ident:
		if _, local := w.scope.lookup(f.Name); local {
			break // a function value held in a local variable
		}
		if lf := w.lookupFunc(w.p, f.Name); lf != nil {
			w.recordCall(f.Name, "", isGo)
		}
	case *ast.SelectorExpr:
		handled := false
		if id, ok := f.X.(*ast.Ident); ok {
			if _, local := w.scope.lookup(id.Name); !local {
				if _, isPkg := w.p.imports[w.file][id.Name]; isPkg {
					handled = true // a function of another package: exported, guarantees nothing anyway
				}
			}
		}
		if !handled {
			t := w.typeOf(f.X)
			if st := lkStructOf(t); st != nil {
				if _, isField := st.fields[f.Sel.Name]; isField {
					// calling a function-typed field
					w.expr(f)
				} else {
					if st.pkg == w.p.name && w.lookupFunc(w.p, st.name+"."+f.Sel.Name) != nil {
						w.recordCall(st.name+"."+f.Sel.Name, exprString(f.X), isGo)
					}
					// the receiver expression is read; a tracked field used as receiver gets a `via`
					if rs, ok := f.X.(*ast.SelectorExpr); ok {
						if rst, ok := w.trackedSel(rs); ok {
							w.emit(rs, rst, false, false, f.Sel.Name)
							w.expr(rs.X)
						} else {
							w.expr(f.X)
						}
					} else {
						w.expr(f.X)
					}
				}
			} else {
				// unknown receiver type: a same-named unexported method of this package may be the callee
				if !ast.IsExported(f.Sel.Name) {
					for key := range w.p.funcs {
						if strings.HasSuffix(key, "."+f.Sel.Name) {
							w.st.calls = append(w.st.calls, lkCall{caller: w.fnKey, callee: w.p.name + ":" + key, noCtx: true})
						}
					}
				}
				if rs, ok := f.X.(*ast.SelectorExpr); ok {
					if rst, ok := w.trackedSel(rs); ok {
						w.emit(rs, rst, false, false, f.Sel.Name)
						w.expr(rs.X)
					} else {
						w.expr(f.X)
					}
				} else {
					w.expr(f.X)
				}
			}
		}
	case *ast.FuncLit:
		w.closure(f)
	case *ast.ParenExpr, *ast.ArrayType, *ast.MapType, *ast.StarExpr, *ast.InterfaceType, *ast.FuncType, *ast.IndexExpr, *ast.CallExpr, *ast.TypeAssertExpr:
		if _, isType := c.Fun.(*ast.ArrayType); !isType {
			if _, isType := c.Fun.(*ast.MapType); !isType {
				if _, isType := c.Fun.(*ast.InterfaceType); !isType {
					if _, isType := c.Fun.(*ast.FuncType); !isType {
						w.expr(c.Fun)
					}
				}
			}
		}
	default:
		die("%s: call of %T not recognised", w.pos(c), c.Fun)
	}
	for _, a := range c.Args {
		if u, ok := a.(*ast.UnaryExpr); ok && u.Op == token.AND {
			if s, ok := u.X.(*ast.SelectorExpr); ok {
				if _, tracked := w.trackedSel(s); tracked {
					die("%s: address of tracked field %s passed to a function", w.pos(a), exprString(s))
				}
			}
		}
		w.expr(a)
	}
}

func (w *lkWalker) recordCall(calleeKey, recvExpr string, isGo bool) {
	c := lkCall{caller: w.fnKey, callee: w.p.name + ":" + calleeKey, held: map[string]lkCtxEntry{}}
	if isGo || w.fnKey == "" {
		c.noCtx = true
	}
	for _, h := range w.held {
		e := lkCtxEntry{excl: h.excl, recv: recvExpr != "" && h.base == recvExpr}
		if old, ok := c.held[h.name]; ok {
			e.excl = e.excl || old.excl
			e.recv = e.recv || old.recv
		}
		c.held[h.name] = e
	}
	c.recvSame = w.fn != nil && w.fn.recvName != "" && recvExpr == w.fn.recvName
	w.st.calls = append(w.st.calls, c)
}

func (w *lkWalker) closure(f *ast.FuncLit) {
	*w.nclos++
	cw := &lkWalker{st: w.st, p: w.p, file: w.file, fn: w.fn, fnName: fmt.Sprintf("%s$%d", strings.SplitN(w.fnName, "$", 2)[0], *w.nclos),
		fnKey: "", scope: &lkScope{vars: map[string]string{}, parent: w.scope}, held: map[string]lkHeldLock{}, strict: w.strict, nclos: w.nclos}
	cw.params(f.Type)
	ast.Inspect(f.Body, func(n ast.Node) bool {
		if _, ok := n.(*ast.GoStmt); ok {
			cw.hasGo = true
		}
		return true
	})
	for _, s := range f.Body.List {
		cw.stmt(s)
	}
	if len(cw.held) != 0 {
		die("%s: closure returns with a mutex lexically held", w.pos(f))
	}
}

func (w *lkWalker) params(t *ast.FuncType) {
	for _, fl := range []*ast.FieldList{t.Params, t.Results} {
		if fl == nil {
			continue
		}
		for _, p := range fl.List {
			pt := lkTypeName(w.p, w.file, p.Type)
			for _, n := range p.Names {
				w.define(n.Name, pt)
			}
		}
	}
}

func (w *lkWalker) expr(e ast.Expr) {
	switch e := e.(type) {
	case nil:
	case *ast.BasicLit:
	case *ast.Ident:
		if w.isPkgVar(e) {
			w.emitVar(e.Name, false, false)
		} else if _, local := w.scope.lookup(e.Name); !local {
			if lf := w.lookupFunc(w.p, e.Name); lf != nil {
				w.st.escaping[w.p.name+":"+e.Name] = true // function value
			}
		}
	case *ast.ParenExpr:
		w.expr(e.X)
	case *ast.SelectorExpr:
		if st, ok := w.trackedSel(e); ok {
			w.emit(e, st, false, false, "")
			w.expr(e.X)
			return
		}
		if id, ok := e.X.(*ast.Ident); ok {
			if _, local := w.scope.lookup(id.Name); !local {
				if _, isPkg := w.p.imports[w.file][id.Name]; isPkg {
					return
				}
			}
		}
		// a method value lets the method escape the call graph
		if st := lkStructOf(w.typeOf(e.X)); st != nil {
			if _, isField := st.fields[e.Sel.Name]; !isField {
				w.st.escaping[st.pkg+":"+st.name+"."+e.Sel.Name] = true
			}
		}
		w.expr(e.X)
	case *ast.CallExpr:
		w.call(e, false)
	case *ast.UnaryExpr:
		if e.Op == token.AND {
			if s, ok := e.X.(*ast.SelectorExpr); ok {
				if _, tracked := w.trackedSel(s); tracked {
					die("%s: address of tracked field %s taken", w.pos(e), exprString(s))
				}
			}
			if id, ok := e.X.(*ast.Ident); ok && w.isPkgVar(id) {
				// &pkgVar outside sync/atomic: treat as a write (the pointer may be written through)
				w.emitVar(id.Name, true, false)
				return
			}
		}
		w.expr(e.X)
	case *ast.BinaryExpr:
		w.expr(e.X)
		w.expr(e.Y)
	case *ast.IndexExpr:
		w.expr(e.X)
		w.expr(e.Index)
	case *ast.SliceExpr:
		w.expr(e.X)
		w.expr(e.Low)
		w.expr(e.High)
		w.expr(e.Max)
	case *ast.StarExpr:
		w.expr(e.X)
	case *ast.TypeAssertExpr:
		w.expr(e.X)
	case *ast.KeyValueExpr:
		w.expr(e.Value)
	case *ast.CompositeLit:
		for _, el := range e.Elts {
			if kv, ok := el.(*ast.KeyValueExpr); ok {
				if _, isId := kv.Key.(*ast.Ident); !isId {
					w.expr(kv.Key)
				}
				w.expr(kv.Value)
			} else {
				w.expr(el)
			}
		}
	case *ast.FuncLit:
		w.closure(e)
	case *ast.ArrayType, *ast.MapType, *ast.InterfaceType, *ast.FuncType, *ast.ChanType, *ast.StructType:
	default:
		die("%s: expression %T not recognised by the lock extractor", w.pos(e), e)
	}
}

// ---- driver -------------------------------------------------------------------------------

func lkAnalyse() *lkState {
	st := &lkState{escaping: map[string]bool{}}
	names := append([]string{}, lockPkgs...)
	for _, pn := range names {
		p := lkPkgs[pn]
		var keys []string
		for k := range p.funcs {
			keys = append(keys, k)
		}
		sort.Strings(keys)
		for _, k := range keys {
			for _, lf := range p.funcs[k] {
				if lf.decl.Body == nil {
					continue
				}
				n := 0
				w := &lkWalker{st: st, p: p, file: lf.file, fn: lf, fnName: k, fnKey: pn + ":" + k,
					scope: &lkScope{vars: map[string]string{}}, held: map[string]lkHeldLock{}, strict: pn != "message", nclos: &n,
					isInit: lf.decl.Recv == nil && lf.decl.Name.Name == "init"}
				if lf.recvName != "" {
					w.define(lf.recvName, lf.recvType)
				}
				w.params(lf.decl.Type)
				ast.Inspect(lf.decl.Body, func(nd ast.Node) bool {
					switch nd.(type) {
					case *ast.GoStmt:
						w.hasGo = true
					case *ast.FuncLit:
						return false
					}
					return true
				})
				for _, s := range lf.decl.Body.List {
					w.stmt(s)
				}
				// deferred releases are the only mutexes that may still be held here
			}
		}
	}
	return st
}

// lkContexts computes, for every unexported function, the lock context guaranteed by all its call sites.
func lkContexts(st *lkState) (ctx map[string]lkCtx, reachable map[string]bool) {
	ctx = map[string]lkCtx{}
	open := map[string]bool{} // functions whose context is the empty one whatever the call sites say
	for pn, p := range lkPkgs {
		for k, fs := range p.funcs {
			key := pn + ":" + k
			for _, lf := range fs {
				if lf.exported || lf.decl.Name.Name == "init" || lf.decl.Name.Name == "main" {
					open[key] = true
				}
			}
			if st.escaping[key] {
				open[key] = true
			}
		}
	}
	has := map[string]bool{}
	for _, c := range st.calls {
		has[c.callee] = true
	}
	get := func(k string) lkCtx {
		if open[k] {
			return lkCtx{}
		}
		return ctx[k] // nil = top
	}
	meet := func(a, b lkCtx) lkCtx {
		if a == nil {
			return b
		}
		if b == nil {
			return a
		}
		r := lkCtx{}
		for n, x := range a {
			if y, ok := b[n]; ok {
				r[n] = lkCtxEntry{excl: x.excl && y.excl, recv: x.recv && y.recv}
			}
		}
		return r
	}
	eq := func(a, b lkCtx) bool {
		if (a == nil) != (b == nil) || len(a) != len(b) {
			return false
		}
		for n, x := range a {
			if y, ok := b[n]; !ok || x != y {
				return false
			}
		}
		return true
	}
	for iter := 0; ; iter++ {
		if iter > 1000 {
			die("lock contexts do not converge")
		}
		next := map[string]lkCtx{}
		for _, c := range st.calls {
			if open[c.callee] {
				continue
			}
			var site lkCtx
			if c.noCtx || c.caller == "" {
				site = lkCtx{}
			} else {
				cc := get(c.caller)
				if cc == nil {
					continue // caller itself not (yet) known to be reachable
				}
				site = lkCtx{}
				for n, e := range cc {
					site[n] = lkCtxEntry{excl: e.excl, recv: e.recv && c.recvSame}
				}
				for n, e := range c.held {
					if old, ok := site[n]; ok {
						e.excl = e.excl || old.excl
						e.recv = e.recv || old.recv
					}
					site[n] = e
				}
			}
			if cur, seen := next[c.callee]; seen {
				next[c.callee] = meet(cur, site)
			} else {
				next[c.callee] = site
			}
		}
		same := len(next) == len(ctx)
		if same {
			for k, v := range next {
				if !eq(ctx[k], v) {
					same = false
					break
				}
			}
		}
		ctx = next
		if same {
			break
		}
	}
	reachable = map[string]bool{}
	for k := range open {
		reachable[k] = true
	}
	for k, v := range ctx {
		if v != nil {
			reachable[k] = true
		}
	}
	res := map[string]lkCtx{}
	for pn, p := range lkPkgs {
		for k := range p.funcs {
			key := pn + ":" + k
			res[key] = get(key)
		}
	}
	return res, reachable
}

func lkBool(b bool) string {
	if b {
		return "true"
	}
	return "false"
}

func lkHeldLean(hs []lkHeld) string {
	var parts []string
	for _, h := range hs {
		parts = append(parts, fmt.Sprintf("⟨%q, %s, %s⟩", h.name, lkBool(h.excl), lkBool(h.same)))
	}
	return "[" + strings.Join(parts, ", ") + "]"
}

func factsLocks(repo string, o *out) {
	lkLoad(repo)
	lkInitTracked()
	st := lkAnalyse()
	ctx, reachable := lkContexts(st)

	// package-level variables: only those written or accessed atomically outside func init
	hot := map[string]bool{}
	for _, r := range st.rows {
		if r.obj == "" && !r.init && (r.write || r.atomic) {
			hot[r.pkg+"."+r.field] = true
		}
	}

	type rowOut struct{ key, text string }
	seen := map[string]bool{}
	var rows []rowOut
	for _, r := range st.rows {
		if r.obj == "" && !hot[r.pkg+"."+r.field] {
			continue
		}
		var inh []lkHeld
		dead := false
		if r.fnKey != "" {
			c := ctx[r.fnKey]
			if c == nil && !reachable[r.fnKey] {
				dead = true
			}
			var names []string
			for n := range c {
				names = append(names, n)
			}
			sort.Strings(names)
			for _, n := range names {
				inh = append(inh, lkHeld{name: n, excl: c[n].excl, same: c[n].recv && r.baseIsRecv})
			}
		}
		text := fmt.Sprintf("⟨%q, %q, %q, %q, %q, %s, %s, %s, %s, %s, %s⟩", r.pkg, r.fn, r.obj, r.field, r.via,
			lkBool(r.write), lkBool(r.atomic), lkBool(r.init), lkBool(dead), lkHeldLean(r.held), lkHeldLean(inh))
		if seen[text] {
			continue
		}
		seen[text] = true
		rows = append(rows, rowOut{fmt.Sprintf("%s\x00%s\x00%s\x00%s\x00%s", r.pkg, r.fn, r.obj, r.field, text), text})
	}
	sort.Slice(rows, func(i, j int) bool { return rows[i].key < rows[j].key })

	b := &o.b
	b.WriteString("/-! Core G (C18): access table of the lock-guarded state (extract/facts_locks.go). -/\n")
	b.WriteString("structure LockHeld where\n  name : String\n  excl : Bool\n  same : Bool\nderiving DecidableEq, Repr\n\n")
	b.WriteString("structure LockAccess where\n  pkg : String\n  fn : String\n  obj : String\n  field : String\n  via : String\n" +
		"  write : Bool\n  atomic : Bool\n  init : Bool\n  dead : Bool\n  held : List LockHeld\n  inherited : List LockHeld\nderiving DecidableEq, Repr\n\n")
	b.WriteString("def lockAccesses : List LockAccess := [\n")
	for i, r := range rows {
		sep := ","
		if i == len(rows)-1 {
			sep = ""
		}
		b.WriteString("  " + r.text + sep + "\n")
	}
	b.WriteString("]\n\n")

	// tracked structs: mutex fields and tracked fields
	b.WriteString("def lockStructs : List (String × String × List String × List String) := [\n")
	for i, ts := range lockTracked {
		s := lkPkgs[ts.pkg].structs[ts.name]
		var mus, fs []string
		for _, f := range s.order {
			if lkIsMutex(s.fields[f]) {
				mus = append(mus, fmt.Sprintf("%q", f))
			} else if lkTrackedFields[ts.pkg+"."+ts.name][f] {
				fs = append(fs, fmt.Sprintf("%q", f))
			}
		}
		sep := ","
		if i == len(lockTracked)-1 {
			sep = ""
		}
		fmt.Fprintf(b, "  (%q, %q, [%s], [%s])%s\n", ts.pkg, ts.name, strings.Join(mus, ", "), strings.Join(fs, ", "), sep)
	}
	b.WriteString("]\n\n")

	// escapes
	eseen := map[string]bool{}
	var es []string
	for _, e := range st.escapes {
		t := fmt.Sprintf("(%q, %q, %q, %q, %q)", e.pkg, e.fn, e.obj, e.field, e.how)
		if !eseen[t] {
			eseen[t] = true
			es = append(es, t)
		}
	}
	sort.Strings(es)
	b.WriteString("def lockEscapes : List (String × String × String × String × String) := [\n  " + strings.Join(es, ",\n  ") + "\n]\n")
}
