package main

// facts the broker model depends on: topics.MaxQosAllowed, message.SupportedVersions,
// service.minKeepAlive and the keep-alive deadline expression.

import (
	"go/ast"
	"go/token"
	"sort"
	"strconv"
	"strings"
)

func init() { extraSections = append(extraSections, section{"broker", factsBroker}) }

func factsBroker(repo string, o *out) {
	fm := parse(repo, "message/message.go")
	_, qos := iotaConsts(fm, "QosAtMostOnce")

	// var MaxQosAllowed = message.QosExactlyOnce
	ft := parse(repo, "topics/memtopics.go")
	found := false
	for _, d := range ft.Decls {
		gd, ok := d.(*ast.GenDecl)
		if !ok || gd.Tok != token.VAR {
			continue
		}
		for _, s := range gd.Specs {
			vs := s.(*ast.ValueSpec)
			for i, n := range vs.Names {
				if n.Name == "MaxQosAllowed" {
					sel, ok := vs.Values[i].(*ast.SelectorExpr)
					if !ok {
						die("MaxQosAllowed: not message.<const>")
					}
					v, ok := qos[sel.Sel.Name]
					if !ok {
						die("MaxQosAllowed: unknown constant %s", sel.Sel.Name)
					}
					o.def("maxQosAllowed", "Nat", strconv.Itoa(v))
					found = true
				}
			}
		}
	}
	if !found {
		die("MaxQosAllowed not found")
	}

	// var SupportedVersions = map[byte]string{0x3: "MQIsdp", 0x4: "MQTT"}
	found = false
	for _, d := range fm.Decls {
		gd, ok := d.(*ast.GenDecl)
		if !ok || gd.Tok != token.VAR {
			continue
		}
		for _, s := range gd.Specs {
			vs := s.(*ast.ValueSpec)
			for i, n := range vs.Names {
				if n.Name != "SupportedVersions" {
					continue
				}
				cl, ok := vs.Values[i].(*ast.CompositeLit)
				if !ok {
					die("SupportedVersions: not a composite literal")
				}
				type kv struct {
					k int64
					v string
				}
				var kvs []kv
				for _, e := range cl.Elts {
					p := e.(*ast.KeyValueExpr)
					k := evalInt(p.Key)
					lit, ok := p.Value.(*ast.BasicLit)
					if !ok || lit.Kind != token.STRING {
						die("SupportedVersions: value not a string literal")
					}
					str, _ := strconv.Unquote(lit.Value)
					kvs = append(kvs, kv{k, str})
				}
				sort.Slice(kvs, func(a, b int) bool { return kvs[a].k < kvs[b].k })
				var parts []string
				for _, e := range kvs {
					var bs []string
					for _, c := range []byte(e.v) {
						bs = append(bs, strconv.Itoa(int(c)))
					}
					parts = append(parts, "("+strconv.FormatInt(e.k, 10)+", ["+strings.Join(bs, ", ")+"])")
				}
				_ = parts // emitted by facts_codec.go (same table, same name)
				found = true
			}
		}
	}
	if !found {
		die("SupportedVersions not found")
	}

	fc := parse(repo, "service/client.go")
	o.def("minKeepAlive", "Nat", strconv.FormatInt(constInt(fc, "minKeepAlive"), 10))

}

// ---- section broker-keepalive: the read deadline (property C19) ----------------------------------
//
// A section of its own: a rewrite of receiver() / timeoutReader the extractor does not recognise is
// an obligation of the properties that cite these three names (C19, and C16 through the receiver
// model), not of every property built on the broker model.

func init() { extraSections = append(extraSections, section{"broker-keepalive", factsBrokerKeepalive}) }

func factsBrokerKeepalive(repo string, o *out) {
	// receiver(): keepAlive := time.Second * time.Duration(svc.keepAlive)
	//             r := timeoutReader{d: keepAlive + (keepAlive / N), ...}
	fr := parse(repo, "service/sendrecv.go")
	recv := findFunc(fr, "service", "receiver")
	unit, div := "", int64(0)
	ast.Inspect(recv.Body, func(n ast.Node) bool {
		switch x := n.(type) {
		case *ast.AssignStmt:
			if len(x.Lhs) == 1 && exprString(x.Lhs[0]) == "keepAlive" && len(x.Rhs) == 1 {
				if exprString(x.Rhs[0]) != "(time.Second*time.Duration(svc.keepAlive))" {
					die("receiver: keepAlive is not time.Second * time.Duration(svc.keepAlive): %s", exprString(x.Rhs[0]))
				}
				unit = "second"
			}
		case *ast.KeyValueExpr:
			if exprString(x.Key) == "d" {
				be, ok := x.Value.(*ast.BinaryExpr)
				if !ok || be.Op != token.ADD || exprString(be.X) != "keepAlive" {
					die("receiver: deadline is not keepAlive + …: %s", exprString(x.Value))
				}
				q, ok := be.Y.(*ast.ParenExpr)
				var qe *ast.BinaryExpr
				if ok {
					qe, ok = q.X.(*ast.BinaryExpr)
				} else {
					qe, ok = be.Y.(*ast.BinaryExpr)
				}
				if !ok || qe.Op != token.QUO || exprString(qe.X) != "keepAlive" {
					die("receiver: deadline is not keepAlive + keepAlive / N: %s", exprString(x.Value))
				}
				div = evalInt(qe.Y)
			}
		}
		return true
	})
	if unit == "" || div == 0 {
		die("receiver: keep-alive deadline expression not found")
	}
	// read deadline in nanoseconds for a keep-alive of k seconds: k·10⁹ + k·10⁹ / keepAliveDivisor
	o.def("keepAliveDivisor", "Nat", strconv.FormatInt(div, 10))

	// timeoutReader.Read re-arms the deadline before every conn.Read
	tr := findFunc(fr, "timeoutReader", "Read")
	rearm := false
	ast.Inspect(tr.Body, func(n ast.Node) bool {
		if c, ok := n.(*ast.CallExpr); ok && exprString(c.Fun) == "r.conn.SetReadDeadline" {
			if len(c.Args) == 1 && exprString(c.Args[0]) == "time.Now().Add(r.d)" {
				rearm = true
			}
		}
		return true
	})
	if !rearm {
		die("timeoutReader.Read no longer re-arms the read deadline with time.Now().Add(r.d)")
	}
	o.def("keepAliveRearmedPerRead", "Bool", "true")

	// handleConnection: a keep-alive of 0 is replaced by minKeepAlive
	fsrv := parse(repo, "service/server.go")
	hc := findFunc(fsrv, "Server", "handleConnection")
	zero := false
	ast.Inspect(hc.Body, func(n ast.Node) bool {
		if ifs, ok := n.(*ast.IfStmt); ok && exprString(ifs.Cond) == "(req.KeepAlive()==0)" {
			if len(ifs.Body.List) == 1 {
				if es, ok := ifs.Body.List[0].(*ast.ExprStmt); ok && exprString(es.X) == "req.SetKeepAlive(minKeepAlive)" {
					zero = true
				}
			}
		}
		return true
	})
	if !zero {
		die("handleConnection: `if req.KeepAlive() == 0 { req.SetKeepAlive(minKeepAlive) }` not found")
	}
	o.def("keepAliveZeroMeansMin", "Bool", "true")
}

// ---- section brokerack: the acknowledgement follows the effects (property C07) ----------------
//
// processSubscribe / processUnsubscribe change the subscription store and the session
// (topicsMgr.Subscribe + sess.AddTopic, topicsMgr.Unsubscribe + sess.RemoveTopic) and acknowledge
// with writeMessage(resp).  The broker model performs the effects and the acknowledgement in one
// atomic step; that is the code only as long as the acknowledgement is written AFTER the last
// effect - a SUBACK / UNSUBACK that leaves the broker first opens a window in which a PUBLISH of
// another connection still meets (or does not yet meet) the subscription.  The statement order is a
// value here (a Bool per function), so that a reordering breaks the bridge lemma
// Proofs/BrokerAckOrder.facts_ack_after_effects (cited as Properties/C07.C07_ack_follows_effects),
// not the extractor.

func init() { extraSections = append(extraSections, section{"brokerack", factsBrokerAck}) }

// ackAfterEffects: every top-level statement of fn that contains the call `ack` comes after the
// last top-level statement that contains one of the calls `effects` (top-level statements of a
// function body execute in source order; a loop is one statement).
func ackAfterEffects(fn *ast.FuncDecl, ack string, effects []string) bool {
	lastEffect, firstAck, seen := -1, -1, map[string]bool{}
	for i, st := range fn.Body.List {
		ast.Inspect(st, func(n ast.Node) bool {
			c, ok := n.(*ast.CallExpr)
			if !ok {
				return true
			}
			s := exprString(c)
			if s == ack && firstAck < 0 {
				firstAck = i
			}
			f := exprString(c.Fun)
			for _, e := range effects {
				if f == e {
					seen[e] = true
					lastEffect = i
				}
			}
			return true
		})
	}
	if firstAck < 0 {
		die("%s: the acknowledgement %s not found", fn.Name.Name, ack)
	}
	for _, e := range effects {
		if !seen[e] {
			die("%s: the call %s not found", fn.Name.Name, e)
		}
	}
	return firstAck > lastEffect
}

func factsBrokerAck(repo string, o *out) {
	fp := parse(repo, "service/process.go")
	b := func(v bool) string {
		if v {
			return "true"
		}
		return "false"
	}
	o.def("subscribeAckAfterEffects", "Bool", b(ackAfterEffects(findFunc(fp, "service", "processSubscribe"),
		"p.writeMessage(resp)", []string{"p.topicsMgr.Subscribe", "p.sess.AddTopic"})))
	o.def("unsubscribeAckAfterEffects", "Bool", b(ackAfterEffects(findFunc(fp, "service", "processUnsubscribe"),
		"p.writeMessage(resp)", []string{"p.topicsMgr.Unsubscribe", "p.sess.RemoveTopic"})))
}
