package main

// facts the broker model depends on: topics.MaxQosAllowed, message.SupportedVersions,
// service.minKeepAlive and the keep-alive deadline expression.

import (
	"go/ast"
	"go/token"
	"sort"
	"strconv"
	"strings"
)

func init() { extraSections = append(extraSections, factsBroker) }

func factsBroker(repo string, o *out) {
	fm := parse(repo, "message/message.go")
	_, qos := iotaConsts(fm, "QosAtMostOnce")

	// var MaxQosAllowed = message.QosExactlyOnce
	ft := parse(repo, "topics/memtopics.go")
	found := false
	for _, d := range ft.Decls {
		gd, ok := d.(*ast.GenDecl)
		if !ok || gd.Tok != token.VAR {
			continue
		}
		for _, s := range gd.Specs {
			vs := s.(*ast.ValueSpec)
			for i, n := range vs.Names {
				if n.Name == "MaxQosAllowed" {
					sel, ok := vs.Values[i].(*ast.SelectorExpr)
					if !ok {
						die("MaxQosAllowed: not message.<const>")
					}
					v, ok := qos[sel.Sel.Name]
					if !ok {
						die("MaxQosAllowed: unknown constant %s", sel.Sel.Name)
					}
					o.def("maxQosAllowed", "Nat", strconv.Itoa(v))
					found = true
				}
			}
		}
	}
	if !found {
		die("MaxQosAllowed not found")
	}

	// var SupportedVersions = map[byte]string{0x3: "MQIsdp", 0x4: "MQTT"}
	found = false
	for _, d := range fm.Decls {
		gd, ok := d.(*ast.GenDecl)
		if !ok || gd.Tok != token.VAR {
			continue
		}
		for _, s := range gd.Specs {
			vs := s.(*ast.ValueSpec)
			for i, n := range vs.Names {
				if n.Name != "SupportedVersions" {
					continue
				}
				cl, ok := vs.Values[i].(*ast.CompositeLit)
				if !ok {
					die("SupportedVersions: not a composite literal")
				}
				type kv struct {
					k int64
					v string
				}
				var kvs []kv
				for _, e := range cl.Elts {
					p := e.(*ast.KeyValueExpr)
					k := evalInt(p.Key)
					lit, ok := p.Value.(*ast.BasicLit)
					if !ok || lit.Kind != token.STRING {
						die("SupportedVersions: value not a string literal")
					}
					str, _ := strconv.Unquote(lit.Value)
					kvs = append(kvs, kv{k, str})
				}
				sort.Slice(kvs, func(a, b int) bool { return kvs[a].k < kvs[b].k })
				var parts []string
				for _, e := range kvs {
					var bs []string
					for _, c := range []byte(e.v) {
						bs = append(bs, strconv.Itoa(int(c)))
					}
					parts = append(parts, "("+strconv.FormatInt(e.k, 10)+", ["+strings.Join(bs, ", ")+"])")
				}
				o.def("supportedVersions", "List (Nat × List UInt8)", "["+strings.Join(parts, ", ")+"]")
				found = true
			}
		}
	}
	if !found {
		die("SupportedVersions not found")
	}

	fc := parse(repo, "service/client.go")
	o.def("minKeepAlive", "Nat", strconv.FormatInt(constInt(fc, "minKeepAlive"), 10))
}
