package main

// Lean-side vocabulary: type mapping, zero values, structures, names, prelude.

import (
	"fmt"
	"go/types"
	"strings"
)

// words that cannot be used as a Lean identifier (or are too confusing as one)
var leanReserved = map[string]bool{
	"end": true, "at": true, "from": true, "have": true, "show": true, "fun": true, "in": true,
	"then": true, "else": true, "do": true, "let": true, "match": true, "with": true, "open": true,
	"local": true, "instance": true, "Type": true, "Prop": true, "Sort": true, "if": true,
	"where": true, "by": true, "def": true, "theorem": true, "namespace": true, "section": true,
	"variable": true, "universe": true, "import": true, "set_option": true, "mutual": true,
	"structure": true, "inductive": true, "class": true, "deriving": true, "return": true,
	"for": true, "unless": true, "try": true, "catch": true, "finally": true, "mut": true,
	"private": true, "protected": true, "partial": true, "unsafe": true, "noncomputable": true,
	"macro": true, "syntax": true, "notation": true, "infix": true, "prefix": true, "postfix": true,
	"abbrev": true, "example": true, "axiom": true, "opaque": true, "using": true, "calc": true,
	"nomatch": true, "nofun": true, "this": true, "fuel": true, "rest": true,
}

func leanIdent(s string) string {
	if leanReserved[s] || s == "_" {
		return s + "_"
	}
	return s
}

func capital(s string) string {
	if s == "" {
		return s
	}
	return strings.ToUpper(s[:1]) + s[1:]
}

// basic classification of a Go type after stripping names and pointers
type tkind int

const (
	kBool tkind = iota
	kSigned
	kUnsigned
	kString
	kBytes // []byte
	kSlice
	kStruct
	kErr
	kMap
	kIface
	kOther
)

func deref(t types.Type) types.Type {
	if p, ok := t.Underlying().(*types.Pointer); ok {
		return p.Elem()
	}
	return t
}

func isErrorType(t types.Type) bool {
	n, ok := t.(*types.Named)
	return ok && n.Obj().Pkg() == nil && n.Obj().Name() == "error"
}

func kindOf(t types.Type) tkind {
	if isErrorType(t) {
		return kErr
	}
	switch u := deref(t).Underlying().(type) {
	case *types.Basic:
		switch {
		case u.Info()&types.IsBoolean != 0:
			return kBool
		case u.Info()&types.IsUnsigned != 0:
			return kUnsigned
		case u.Info()&types.IsInteger != 0:
			return kSigned
		case u.Info()&types.IsString != 0:
			return kString
		}
	case *types.Slice:
		if b, ok := u.Elem().Underlying().(*types.Basic); ok && b.Kind() == types.Uint8 {
			return kBytes
		}
		return kSlice
	case *types.Struct:
		return kStruct
	case *types.Map:
		return kMap
	case *types.Interface:
		return kIface
	}
	return kOther
}

// width in bits of an integer type (Go's int/uint are 64 bit on the platforms
// the library is verified for; stated in the generated header)
func intWidth(t types.Type) int {
	b, ok := deref(t).Underlying().(*types.Basic)
	if !ok {
		return 0
	}
	switch b.Kind() {
	case types.Int8, types.Uint8:
		return 8
	case types.Int16, types.Uint16:
		return 16
	case types.Int32, types.Uint32:
		return 32
	case types.Int, types.Int64, types.Uint, types.Uint64, types.Uintptr, types.UntypedInt, types.UntypedRune:
		return 64
	}
	return 0
}

func uintName(t types.Type) string {
	return fmt.Sprintf("UInt%d", intWidth(t))
}

type structInfo struct {
	named  *types.Named
	lean   string
	fields []*fieldInfo
	byName map[string]*fieldInfo
}

type fieldInfo struct {
	name     string // Go name
	lean     string
	typ      types.Type
	embedded bool
	skipped  string // non-empty: reason the field is not represented
	extern   bool   // external object (see externFields)
}

// leanType maps a Go type to the Lean type that represents it; nat selects Nat
// instead of Int for signed integers.
func (x *xlator) leanType(t types.Type, nat bool) string {
	switch kindOf(t) {
	case kBool:
		return "Bool"
	case kSigned:
		if nat {
			return "Nat"
		}
		return "Int"
	case kUnsigned:
		return uintName(t)
	case kString, kBytes:
		return "List UInt8"
	case kSlice:
		el := deref(t).Underlying().(*types.Slice).Elem()
		return "List " + paren(x.leanType(el, false))
	case kStruct:
		return x.structOf(t).lean
	case kErr:
		return "Err"
	case kMap:
		m := deref(t).Underlying().(*types.Map)
		return "List (" + x.leanType(m.Key(), false) + " × " + x.leanType(m.Elem(), false) + ")"
	case kIface:
		if a := x.ifaceAbs(t); a != "" {
			return a
		}
	}
	die("%s: Go type %s has no Lean representation in the supported subset", x.where, t)
	return ""
}

func paren(s string) string {
	if strings.ContainsAny(s, " ") && !(strings.HasPrefix(s, "(") && strings.HasSuffix(s, ")")) {
		return "(" + s + ")"
	}
	return s
}

// zero value of a Go type as a Lean term
func (x *xlator) zero(t types.Type, nat bool) string {
	switch kindOf(t) {
	case kBool:
		return "false"
	case kSigned:
		if nat {
			return "(0 : Nat)"
		}
		return "(0 : Int)"
	case kUnsigned:
		return "(0 : " + uintName(t) + ")"
	case kString, kBytes, kSlice, kMap:
		return "([] : " + x.leanType(t, nat) + ")"
	case kStruct:
		return x.structOf(t).lean + ".zero"
	case kErr:
		return "Err.nil"
	case kIface:
		if a := x.ifaceAbs(t); a == "Nat" {
			return "(0 : Nat)"
		} else if a != "" {
			return "(default : " + a + ")"
		}
	}
	die("%s: no zero value for Go type %s", x.where, t)
	return ""
}

// abstractIfaces: interface types represented by a record of observations: one
// field per method that a translated function calls on a value of the type
// (the value the call returns; a method taking a byte slice is a function from
// the slice before the call to the slice after it and the results), plus `dyn`,
// the dynamic type (for type switches and assertions).  Calling such a method
// is taken to have no other effect and to give the same answer every time.
var abstractIfaces = map[string]bool{
	"message.Message": true,
}

type ifaceInfo struct {
	named  *types.Named
	lean   string
	fields []*obsField
	byName map[string]*obsField
}

type obsField struct {
	name  string
	lean  string
	leanT string
}

// ifaceAbs: interfaces the translator represents.  An empty interface that is
// only stored and copied (a callback identity) is a natural number; the
// interfaces of abstractIfaces are records of observations.
func (x *xlator) ifaceAbs(t types.Type) string {
	if it, ok := t.Underlying().(*types.Interface); ok && it.NumMethods() == 0 {
		return "Nat"
	}
	if ii := x.ifaceOf(t); ii != nil {
		return ii.lean
	}
	return ""
}

func (x *xlator) ifaceOf(t types.Type) *ifaceInfo {
	n, ok := t.(*types.Named)
	if !ok || n.Obj().Pkg() == nil {
		return nil
	}
	if _, ok := n.Underlying().(*types.Interface); !ok {
		return nil
	}
	k := n.Obj().Pkg().Name() + "." + n.Obj().Name()
	if !abstractIfaces[k] {
		return nil
	}
	if ii, ok := x.ifaces[k]; ok {
		return ii
	}
	ii := &ifaceInfo{named: n, lean: x.pkgPrefix(n.Obj().Pkg()) + "." + leanIdent(n.Obj().Name()), byName: map[string]*obsField{}}
	x.ifaces[k] = ii
	x.ifaceOrder = append(x.ifaceOrder, ii)
	return ii
}

// observation registers (once) the field for method m of an abstracted interface
func (x *xlator) observation(ii *ifaceInfo, m *types.Func) *obsField {
	if of, ok := ii.byName[m.Name()]; ok {
		return of
	}
	sig := m.Type().(*types.Signature)
	var ps, rs []string
	for i := 0; i < sig.Params().Len(); i++ {
		pt := sig.Params().At(i).Type()
		ps = append(ps, x.leanType(pt, false))
		if k := kindOf(pt); k == kBytes || k == kSlice {
			rs = append(rs, x.leanType(pt, false)) // the slice after the call
		}
	}
	for i := 0; i < sig.Results().Len(); i++ {
		rs = append(rs, x.leanType(sig.Results().At(i).Type(), false))
	}
	if len(rs) == 0 {
		rs = []string{"Unit"}
	}
	of := &obsField{name: m.Name(), lean: leanIdent(m.Name()), leanT: strings.Join(append(ps, strings.Join(rs, " × ")), " → ")}
	ii.byName[m.Name()] = of
	ii.fields = append(ii.fields, of)
	return of
}

func (x *xlator) ifaceDecls() []*block {
	var res []*block
	for _, ii := range x.ifaceOrder {
		var b strings.Builder
		fmt.Fprintf(&b, "/-- Go: interface `%s.%s`, abstracted: what the translated functions observe of a value of\nthis type — `dyn` is its dynamic type, every other field is the result of the method of that\nname (a method taking a byte slice: the slice after the call, then the results) -/\n",
			ii.named.Obj().Pkg().Name(), ii.named.Obj().Name())
		fmt.Fprintf(&b, "structure %s where\n  dyn : String\n", ii.lean)
		for _, of := range ii.fields {
			fmt.Fprintf(&b, "  %s : %s\n", of.lean, of.leanT)
		}
		b.WriteString("deriving Inhabited\n\n")
		res = append(res, &block{kind: "iface", name: ii.named.Obj().Pkg().Name() + "." + ii.named.Obj().Name(), text: b.String()})
	}
	return res
}

func (x *xlator) pkgPrefix(p *types.Package) string {
	name := p.Name()
	return capital(name)
}

// structOf registers (once) and returns the Lean structure for a Go struct type.
func (x *xlator) structOf(t types.Type) *structInfo {
	n, ok := deref(t).(*types.Named)
	if !ok {
		die("%s: anonymous struct types are outside the supported subset", x.where)
	}
	if si, ok := x.structs[n]; ok {
		if si == nil {
			die("%s: recursive struct type %s is outside the supported subset", x.where, n)
		}
		return si
	}
	x.structs[n] = nil
	st := n.Underlying().(*types.Struct)
	si := &structInfo{named: n, lean: x.pkgPrefix(n.Obj().Pkg()) + "." + leanIdent(n.Obj().Name()), byName: map[string]*fieldInfo{}}
	for i := 0; i < st.NumFields(); i++ {
		fv := st.Field(i)
		fi := &fieldInfo{name: fv.Name(), lean: leanIdent(fv.Name()), typ: fv.Type(), embedded: fv.Embedded()}
		if externFields[n.Obj().Pkg().Name()+"."+n.Obj().Name()+"."+fv.Name()] {
			fi.skipped = "external object: the methods called on it are function arguments of the translated functions"
			fi.extern = true
		} else if why := x.unrepresentable(fv.Type()); why != "" {
			fi.skipped = why
		}
		si.fields = append(si.fields, fi)
		si.byName[fi.name] = fi
	}
	// field types first (nested structures are emitted before their users)
	var b strings.Builder
	fmt.Fprintf(&b, "/-- Go: `type %s struct` (%s)", n.Obj().Name(), n.Obj().Pkg().Path())
	for _, fi := range si.fields {
		if fi.skipped != "" {
			fmt.Fprintf(&b, "; field `%s` not represented: %s", fi.name, fi.skipped)
		}
	}
	b.WriteString(" -/\n")
	fmt.Fprintf(&b, "structure %s where\n", si.lean)
	var zs []string
	for _, fi := range si.fields {
		if fi.skipped != "" {
			continue
		}
		fmt.Fprintf(&b, "  %s : %s\n", fi.lean, x.leanType(fi.typ, false))
		zs = append(zs, x.zero(fi.typ, false))
	}
	b.WriteString("deriving DecidableEq, Repr\n\n")
	fmt.Fprintf(&b, "/-- the Go zero value `%s{}` -/\n", n.Obj().Name())
	fmt.Fprintf(&b, "def %s.zero : %s := ⟨%s⟩\n\n", si.lean, si.lean, strings.Join(zs, ", "))
	fmt.Fprintf(&b, "instance : Inhabited %s := ⟨%s.zero⟩\n\n", si.lean, si.lean)
	x.structs[n] = si
	x.emit("type", n.Obj().Pkg().Name()+"."+n.Obj().Name(), b.String(), "")
	return si
}

// unrepresentable: field types that are dropped from a structure (with the
// reason recorded in the generated comment).  Reading or writing such a field
// in a translated function is fatal.
func (x *xlator) unrepresentable(t types.Type) string {
	if n, ok := deref(t).(*types.Named); ok && n.Obj().Pkg() != nil {
		p := n.Obj().Pkg().Path()
		if p == "sync" || p == "sync/atomic" {
			return "synchronisation (" + p + "." + n.Obj().Name() + "); every translated method is one atomic step"
		}
	}
	switch u := t.Underlying().(type) {
	case *types.Signature:
		return "function value"
	case *types.Chan:
		return "channel"
	case *types.Interface:
		if x.ifaceAbs(t) == "" {
			return "interface value"
		}
	case *types.Pointer:
		if _, ok := u.Elem().Underlying().(*types.Struct); !ok {
			return "pointer"
		}
		return "pointer to struct"
	case *types.Slice:
		return x.unrepresentable(u.Elem())
	case *types.Map:
		if s := x.unrepresentable(u.Key()); s != "" {
			return s
		}
		return x.unrepresentable(u.Elem())
	case *types.Array:
		return "array"
	case *types.Basic:
		if u.Info()&(types.IsFloat|types.IsComplex) != 0 || u.Kind() == types.UnsafePointer {
			return "float/complex/unsafe"
		}
	}
	return ""
}

const prelude = `/-- Go ` + "`error`" + ` values: nil, a package-level error variable (compared by identity),
a constant of a named integer type that implements ` + "`error`" + ` (` + "`val`" + `: type name and value), or
an error made on the spot (` + "`fmt.Errorf`, `errors.New`" + `; its text is never looked at). -/
inductive Err where
  | nil
  | var (name : String)
  | val (typ : String) (v : Nat)
  | dyn
deriving DecidableEq, Repr, Inhabited

/-- Outcome of a translated function that can fail to return normally:
` + "`panic`" + ` = a Go run-time panic (index or slice bounds, division by zero, explicit
` + "`panic`" + `), ` + "`fuel`" + ` = the iteration budget given to an unbounded ` + "`for`" + ` loop ran out
(Go has no such outcome; the tie theorems show it does not occur for a stated budget),
` + "`blocked`" + ` = a call of an external operation (an argument of the translated function standing
for a method of an object that is not translated) did not return. -/
inductive Res (α : Type) where
  | ok (a : α)
  | panic
  | fuel
  | blocked
deriving DecidableEq, Repr

def Res.bind {α β : Type} : Res α → (α → Res β) → Res β
  | .ok a, f => f a
  | .panic, _ => .panic
  | .fuel, _ => .fuel
  | .blocked, _ => .blocked

namespace Go

/-- bitwise operators of Go's fixed-width signed integers on ` + "`Int`" + `: exact for
operands inside the width (two's complement via ` + "`BitVec`" + `) -/
def andInt (w : Nat) (a b : Int) : Int := (BitVec.ofInt w a &&& BitVec.ofInt w b).toInt
def orInt (w : Nat) (a b : Int) : Int := (BitVec.ofInt w a ||| BitVec.ofInt w b).toInt
def xorInt (w : Nat) (a b : Int) : Int := (BitVec.ofInt w a ^^^ BitVec.ofInt w b).toInt

/-- Go map as an association list: ` + "`mapSet`" + ` replaces, ` + "`mapDel`" + ` removes every binding -/
def mapGet {κ ν : Type} [BEq κ] (m : List (κ × ν)) (k : κ) : Option ν := m.lookup k
def mapDel {κ ν : Type} [BEq κ] (m : List (κ × ν)) (k : κ) : List (κ × ν) := m.filter (fun p => p.1 != k)
def mapSet {κ ν : Type} [BEq κ] (m : List (κ × ν)) (k : κ) (v : ν) : List (κ × ν) := (k, v) :: mapDel m k

/-- ` + "`bytes.IndexByte`" + ` (trusted: the standard-library function is assembly) -/
def indexByte : List UInt8 → UInt8 → Int
  | [], _ => -1
  | b :: rest, c => if b == c then 0 else (let r := indexByte rest c; if r < 0 then -1 else r + 1)

end Go
`
