package main

// Statements, in continuation-passing style: `stmt(s, k, fl)` is the Lean term
// for "execute s, then whatever k() stands for".  Mutable variables are
// re-bound with `let`; every Go variable object has its own Lean name, so an
// inlined continuation never captures a binding it should not see.
//
// Loops become auxiliary recursive definitions `<fn>.loopN` whose result is the
// result of the whole function from the loop onwards (the code after the loop
// is part of the definition: natural exit and `break` continue there).

import (
	"fmt"
	"go/ast"
	"go/token"
	"go/types"
	"regexp"
	"strings"
)

type kont func() string

type flow struct {
	brk    kont
	cont   kont
	labels map[string]*flow // labelled loops: their break/continue
}

func (fl *flow) with(brk, cont kont, label string) *flow {
	n := &flow{brk: brk, cont: cont, labels: map[string]*flow{}}
	if fl != nil {
		for k, v := range fl.labels {
			n.labels[k] = v
		}
		if cont == nil {
			n.cont = fl.cont
		}
	}
	if label != "" {
		n.labels[label] = &flow{brk: brk, cont: cont}
	}
	return n
}

func indent(s string) string {
	return "  " + strings.ReplaceAll(s, "\n", "\n  ")
}

// guarded wraps body in the run-time checks and hoisted calls g (in evaluation
// order; entries starting with bindMark stand for a call that had to be taken
// out of an expression because it is Res-valued)
func (f *fn) guarded(g []string, body string) string {
	res := body
	i := len(g)
	for i > 0 {
		j := i
		for j > 0 && !isBind(g[j-1]) {
			j--
		}
		if j < i {
			f.escape("run-time check")
			f.usedPanic = true
			res = "if " + strings.Join(g[j:i], " && ") + " then\n" + indent(res) + "\nelse Res.panic"
		}
		i = j
		if i > 0 {
			b := f.binds[g[i-1]]
			if b.pure {
				res = "let " + b.out + " := " + b.text + "\n" + b.after + res
			} else {
				f.escape("bind")
				f.usedBind = true
				res = "Res.bind (" + b.text + ") fun " + b.out + " =>\n" + b.after + res
			}
			i--
		}
	}
	return res
}

const bindMark = "\x00"

type bindInfo struct {
	out   string // name bound to the callee's result tuple
	text  string // the call
	pure  bool   // plain value (only hoisted because the receiver changes)
	after string // `let`s that follow the bind (receiver / in-out write-back, result names)
}

func isBind(g string) bool { return strings.HasPrefix(g, bindMark) }

func hasBind(g []string) bool {
	for _, x := range g {
		if isBind(x) {
			return true
		}
	}
	return false
}

func (f *fn) addBind(b *bindInfo) string {
	if f.binds == nil {
		f.binds = map[string]*bindInfo{}
	}
	k := fmt.Sprintf("%s%d", bindMark, len(f.binds))
	f.binds[k] = b
	return k
}

// escape records that the code being generated cannot be used as a plain
// value (needed by the simple-join attempt and by the mode decision)
func (f *fn) escape(why string) { f.escaped = true }

func (f *fn) stmts(list []ast.Stmt, k kont, fl *flow) string {
	if len(list) == 0 {
		return k()
	}
	return f.stmt(list[0], func() string { return f.stmts(list[1:], k, fl) }, fl)
}

func (f *fn) lt(lv *lvar) string {
	if lv.leanT != "" {
		return lv.leanT
	}
	return f.x.leanType(lv.typ, lv.nat)
}

func (f *fn) letVar(lv *lvar, rhs string) string {
	return "let " + lv.name + " : " + f.lt(lv) + " := " + rhs + "\n"
}

func (f *fn) lvarOf(id *ast.Ident) *lvar {
	obj := f.pkg.info.Defs[id]
	if obj == nil {
		obj = f.pkg.info.Uses[id]
	}
	if v, ok := obj.(*types.Var); ok {
		if lv, ok := f.vars[v]; ok {
			return lv
		}
	}
	f.unsupported(id, "variable %s", id.Name)
	return nil
}

// lvalue path: root variable and the steps below it
type step struct {
	field *fieldInfo
	st    *structInfo
	index string // Nat term (slice) or key term (map)
	isMap bool
	typ   types.Type // type of the component selected by this step
}

func (f *fn) lvaluePath(e ast.Expr) (*lvar, []step, []string) {
	switch e := e.(type) {
	case *ast.ParenExpr:
		return f.lvaluePath(e.X)
	case *ast.Ident:
		return f.lvarOf(e), nil, nil
	case *ast.SelectorExpr:
		sel, ok := f.pkg.info.Selections[e]
		if !ok || sel.Kind() != types.FieldVal {
			f.unsupported(e, "assignment target")
		}
		root, steps, g := f.lvaluePath(e.X)
		t := f.typeOf(e.X)
		for _, ix := range sel.Index() {
			si := f.x.structOf(t)
			fi := si.fields[ix]
			if fi.skipped != "" {
				f.unsupported(e, "field %s.%s is not represented (%s)", si.lean, fi.name, fi.skipped)
			}
			steps = append(steps, step{field: fi, st: si, typ: fi.typ})
			t = fi.typ
		}
		return root, steps, g
	case *ast.IndexExpr:
		root, steps, g := f.lvaluePath(e.X)
		bt := f.typeOf(e.X)
		idx := f.expr(e.Index)
		g = append(g, idx.g...)
		switch kindOf(bt) {
		case kBytes, kSlice:
			if len(steps) == 0 && root.isParam && !root.inout {
				f.unsupported(e, "element write through a slice parameter that was not recognised as in-out")
			}
			is, ig := f.toNatIdx(idx, e.Index)
			g = append(g, ig...)
			steps = append(steps, step{index: is, typ: f.typeOf(e)})
			return root, steps, g
		case kMap:
			mt := deref(bt).Underlying().(*types.Map)
			steps = append(steps, step{index: f.conv(idx, mt.Key(), e.Index), isMap: true, typ: mt.Elem()})
			return root, steps, g
		}
		f.unsupported(e, "indexed assignment into %s", bt)
	}
	f.unsupported(e, "assignment target")
	return nil, nil, nil
}

// update builds the new value of `cur` after writing v at the path, and the
// bounds guards of the index steps
func (f *fn) update(cur string, steps []step, v string) (string, []string) {
	if len(steps) == 0 {
		return v, nil
	}
	s := steps[0]
	switch {
	case s.field != nil:
		inner, g := f.update(cur+"."+s.field.lean, steps[1:], v)
		return "{ " + cur + " with " + s.field.lean + " := " + inner + " }", g
	case s.isMap:
		z := f.x.zero(s.typ, false)
		inner, g := f.update("((Go.mapGet "+cur+" "+s.index+").getD "+z+")", steps[1:], v)
		return "(Go.mapSet " + cur + " " + s.index + " " + inner + ")", g
	default:
		z := f.x.zero(s.typ, false)
		inner, g := f.update("("+cur+".getD "+s.index+" "+z+")", steps[1:], v)
		g = append([]string{"decide (" + s.index + " < " + cur + ".length)"}, g...)
		return "(" + cur + ".set " + s.index + " " + inner + ")", g
	}
}

// assignTo: text binding the new value v (already a Lean term of the target's
// representation) to the lvalue
func (f *fn) assignTo(lhs ast.Expr, v val, k kont) string {
	if id, ok := lhs.(*ast.Ident); ok && id.Name == "_" {
		return f.guarded(v.g, k())
	}
	root, steps, g := f.lvaluePath(lhs)
	tt := f.typeOf(lhs)
	cv := f.convVal(v, tt, lhs)
	var rhs string
	if len(steps) == 0 {
		rhs = f.as(cv, root.nat, lhs)
	} else {
		rhs = f.as(cv, false, lhs)
	}
	nv, ug := f.update(root.name, steps, rhs)
	allg := append(append(append([]string{}, g...), v.g...), ug...)
	return f.guarded(allg, f.letVar(root, nv)+k())
}

var assignOps = map[token.Token]token.Token{
	token.ADD_ASSIGN: token.ADD, token.SUB_ASSIGN: token.SUB, token.MUL_ASSIGN: token.MUL,
	token.QUO_ASSIGN: token.QUO, token.REM_ASSIGN: token.REM, token.AND_ASSIGN: token.AND,
	token.OR_ASSIGN: token.OR, token.XOR_ASSIGN: token.XOR, token.SHL_ASSIGN: token.SHL,
	token.SHR_ASSIGN: token.SHR, token.AND_NOT_ASSIGN: token.AND_NOT,
}

func (f *fn) stmt(s ast.Stmt, k kont, fl *flow) string {
	switch s := s.(type) {
	case *ast.EmptyStmt:
		return k()

	case *ast.BlockStmt:
		return f.stmts(s.List, k, fl)

	case *ast.LabeledStmt:
		switch s.Stmt.(type) {
		case *ast.ForStmt, *ast.RangeStmt:
			f.pendingLabel = s.Label.Name
			return f.stmt(s.Stmt, k, fl)
		}
		f.unsupported(s, "label on a non-loop statement")

	case *ast.DeclStmt:
		gd, ok := s.Decl.(*ast.GenDecl)
		if !ok || gd.Tok != token.VAR {
			f.unsupported(s, "declaration")
		}
		var b strings.Builder
		var g []string
		for _, sp := range gd.Specs {
			vs := sp.(*ast.ValueSpec)
			if len(vs.Values) != 0 && len(vs.Values) != len(vs.Names) {
				f.unsupported(s, "var with multi-value initialiser")
			}
			for i, n := range vs.Names {
				if n.Name == "_" {
					continue
				}
				lv := f.lvarOf(n)
				if len(vs.Values) == 0 {
					b.WriteString(f.letVar(lv, f.x.zero(lv.typ, lv.nat)))
				} else {
					v := f.expr(vs.Values[i])
					g = append(g, v.g...)
					b.WriteString(f.letVar(lv, f.as(f.convVal(v, lv.typ, n), lv.nat, n)))
				}
			}
		}
		return f.guarded(g, b.String()+k())

	case *ast.IncDecStmt:
		op := token.ADD
		if s.Tok == token.DEC {
			op = token.SUB
		}
		one := &ast.BasicLit{Kind: token.INT, Value: "1", ValuePos: s.Pos()}
		return f.opAssign(s, s.X, op, one, true, k)

	case *ast.AssignStmt:
		if op, ok := assignOps[s.Tok]; ok {
			return f.opAssign(s, s.Lhs[0], op, s.Rhs[0], false, k)
		}
		if len(s.Rhs) == 1 && len(s.Lhs) > 1 {
			return f.multiAssign(s, k)
		}
		if len(s.Rhs) != len(s.Lhs) {
			f.unsupported(s, "assignment shape")
		}
		if len(s.Lhs) == 1 {
			if c, ok := s.Rhs[0].(*ast.CallExpr); ok {
				if id, ok := c.Fun.(*ast.Ident); ok {
					if b, ok := f.pkg.info.Uses[id].(*types.Builtin); ok && b.Name() == "copy" {
						return f.copyStmtN(c, s.Lhs[0], k)
					}
				}
				if ci := f.effectful(c); ci != nil {
					return f.callStmt(c, ci, []ast.Expr{s.Lhs[0]}, k)
				}
			}
			return f.assignTo(s.Lhs[0], f.expr(s.Rhs[0]), k)
		}
		// parallel assignment: evaluate all right-hand sides first
		var b strings.Builder
		var g []string
		tmp := make([]val, len(s.Rhs))
		for i, r := range s.Rhs {
			v := f.expr(r)
			g = append(g, v.g...)
			name := fmt.Sprintf("tmp%d_%d", f.tmpN, i)
			b.WriteString("let " + name + " := " + v.s + "\n")
			tmp[i] = val{s: name, t: v.t, nat: v.nat}
		}
		f.tmpN++
		var chain func(i int) string
		chain = func(i int) string {
			if i == len(s.Lhs) {
				return k()
			}
			return f.assignTo(s.Lhs[i], tmp[i], func() string { return chain(i + 1) })
		}
		return f.guarded(g, b.String()+chain(0))

	case *ast.ExprStmt:
		c, ok := s.X.(*ast.CallExpr)
		if !ok {
			f.unsupported(s, "expression statement")
		}
		return f.callStatement(c, k)

	case *ast.DeferStmt:
		if f.isMutexCall(s.Call) {
			return k()
		}
		f.unsupported(s, "defer")

	case *ast.ReturnStmt:
		f.escape("return")
		if len(s.Results) == 1 && len(f.info.resTypes) > 1 {
			f.unsupported(s, "return of a multi-value call")
		}
		if len(s.Results) == 1 {
			if c, ok := s.Results[0].(*ast.CallExpr); ok {
				if ci := f.effectful(c); ci != nil {
					// return f(…): bind, then return
					name := fmt.Sprintf("ret%d", f.tmpN)
					f.tmpN++
					return f.callBind(c, ci, []string{name}, func() string {
						return f.retText([]val{{s: name, t: ci.resTypes[0], nat: ci.resNat[0]}}, s)
					})
				}
			}
		}
		if len(s.Results) != len(f.info.resTypes) {
			f.unsupported(s, "bare return with named results")
		}
		var vs []val
		var g []string
		for _, r := range s.Results {
			v := f.expr(r)
			g = append(g, v.g...)
			vs = append(vs, v)
		}
		return f.guarded(g, f.retText(vs, s))

	case *ast.BranchStmt:
		f.escape("branch")
		target := fl
		if s.Label != nil {
			if fl == nil || fl.labels[s.Label.Name] == nil {
				f.unsupported(s, "label %s", s.Label.Name)
			}
			target = fl.labels[s.Label.Name]
		}
		switch s.Tok {
		case token.BREAK:
			if target == nil || target.brk == nil {
				f.unsupported(s, "break outside loop/switch")
			}
			return target.brk()
		case token.CONTINUE:
			if target == nil || target.cont == nil {
				f.unsupported(s, "continue outside loop")
			}
			return target.cont()
		}
		f.unsupported(s, "%s", s.Tok)

	case *ast.IfStmt:
		if s.Init != nil {
			inner := *s
			inner.Init = nil
			return f.stmt(s.Init, func() string { return f.stmt(&inner, k, fl) }, fl)
		}
		if split := f.splitCond(s); split != nil {
			return f.stmt(split, k, fl)
		}
		var branches []branch
		var els []ast.Stmt
		cur := s
		for {
			c := f.expr(cur.Cond)
			branches = append(branches, branch{cond: c.s, g: c.g, body: cur.Body.List, node: cur})
			if cur.Else == nil {
				break
			}
			if ei, ok := cur.Else.(*ast.IfStmt); ok && ei.Init == nil {
				cur = ei
				continue
			}
			els = []ast.Stmt{cur.Else}
			break
		}
		return f.ifChain(s, branches, els, k, fl)

	case *ast.SwitchStmt:
		return f.switchStmt(s, k, fl)

	case *ast.TypeSwitchStmt:
		return f.typeSwitchStmt(s, k, fl)

	case *ast.ForStmt:
		return f.forStmt(s, k, fl)

	case *ast.RangeStmt:
		return f.rangeStmt(s, k, fl)
	}
	f.unsupported(s, "statement")
	return ""
}

func (f *fn) opAssign(n ast.Node, lhs ast.Expr, op token.Token, rhs ast.Expr, incdec bool, k kont) string {
	be := &ast.BinaryExpr{X: lhs, Op: op, Y: rhs, OpPos: n.Pos()}
	// type information for the synthetic node: result has the type of lhs
	lt := f.typeOf(lhs)
	f.pkg.info.Types[be] = types.TypeAndValue{Type: lt}
	if incdec {
		bl := rhs.(*ast.BasicLit)
		f.pkg.info.Types[bl] = types.TypeAndValue{Type: lt, Value: constantOne}
	}
	return f.assignTo(lhs, f.expr(be), k)
}

func (f *fn) retText(vs []val, n ast.Node) string {
	var parts []string
	if f.info.mutates {
		parts = append(parts, f.info.recv.name)
	}
	for _, pi := range f.info.inout {
		parts = append(parts, f.info.params[pi].name)
	}
	for i, v := range vs {
		cv := f.convVal(v, f.info.resTypes[i], n)
		parts = append(parts, f.as(cv, f.info.resNat[i], n))
	}
	var t string
	switch len(parts) {
	case 0:
		t = "()"
	case 1:
		t = parts[0]
	default:
		t = "(" + strings.Join(parts, ", ") + ")"
	}
	if f.pureMode {
		return t
	}
	return "Res.ok " + paren(t)
}

// splitCond: `if A && B {S} else {T}` where evaluating B involves a call that can
// panic or changes its receiver (so B cannot be evaluated unconditionally):
// rewritten as `if A { if B {S} else {T} } else {T}`; `A || B` likewise as
// `if A {S} else if B {S} else {T}`.
func (f *fn) splitCond(s *ast.IfStmt) *ast.IfStmt {
	cond := s.Cond
	for {
		if p, ok := cond.(*ast.ParenExpr); ok {
			cond = p.X
			continue
		}
		break
	}
	be, ok := cond.(*ast.BinaryExpr)
	if !ok || (be.Op != token.LAND && be.Op != token.LOR) {
		return nil
	}
	need := false
	ast.Inspect(be.Y, func(n ast.Node) bool {
		if c, ok := n.(*ast.CallExpr); ok && f.effectful(c) != nil {
			need = true
		}
		return !need
	})
	if !need {
		return nil
	}
	var elseBlock *ast.BlockStmt
	if s.Else != nil {
		if b, ok := s.Else.(*ast.BlockStmt); ok {
			elseBlock = b
		} else {
			elseBlock = &ast.BlockStmt{Lbrace: s.Else.Pos(), List: []ast.Stmt{s.Else}, Rbrace: s.Else.End()}
		}
	}
	inner := &ast.IfStmt{If: be.Y.Pos(), Cond: be.Y, Body: s.Body}
	if elseBlock != nil {
		inner.Else = elseBlock
	}
	if be.Op == token.LAND {
		outer := &ast.IfStmt{If: s.If, Cond: be.X, Body: &ast.BlockStmt{Lbrace: s.Body.Lbrace, List: []ast.Stmt{inner}, Rbrace: s.Body.Rbrace}}
		if elseBlock != nil {
			outer.Else = elseBlock
		}
		return outer
	}
	return &ast.IfStmt{If: s.If, Cond: be.X, Body: s.Body, Else: inner}
}

// ---- calls at statement level ------------------------------------------------

func (f *fn) isMutexCall(c *ast.CallExpr) bool {
	fo := f.calleeOf(c)
	if fo == nil || fo.Pkg() == nil || fo.Pkg().Path() != "sync" {
		return false
	}
	switch fo.Name() {
	case "Lock", "Unlock", "RLock", "RUnlock":
		return true
	}
	return false
}

// effectful: the call refers to a translated function that cannot stand inside
// an expression (Res-valued, fuel, or mutating its receiver)
func (f *fn) effectful(c *ast.CallExpr) *fnInfo {
	if tv, ok := f.pkg.info.Types[c.Fun]; ok && tv.IsType() {
		return nil
	}
	if lv, _ := f.absRecv(c); lv != nil {
		return nil
	}
	fo := f.calleeOf(c)
	if fo == nil || isErrorMaker(fo) || f.isMutexCall(c) {
		return nil
	}
	if f.x.isSpecial(fo) {
		return nil
	}
	ci := f.x.translate(fo, f, c)
	if ci.pure && !ci.mutates && len(ci.inout) == 0 {
		return nil
	}
	return ci
}

func (f *fn) callStatement(c *ast.CallExpr, k kont) string {
	if f.isMutexCall(c) {
		return k()
	}
	if id, ok := c.Fun.(*ast.Ident); ok {
		if b, ok := f.pkg.info.Uses[id].(*types.Builtin); ok {
			switch b.Name() {
			case "panic":
				f.escape("panic")
				f.usedPanic = true
				return "Res.panic"
			case "delete":
				root, steps, g := f.lvaluePath(c.Args[0])
				key := f.expr(c.Args[1])
				mt := deref(f.typeOf(c.Args[0])).Underlying().(*types.Map)
				cur := root.name
				for _, st := range steps {
					if st.field == nil {
						f.unsupported(c, "delete on an indexed map")
					}
					cur += "." + st.field.lean
				}
				nv, ug := f.update(root.name, steps, "(Go.mapDel "+cur+" "+f.conv(key, mt.Key(), c)+")")
				return f.guarded(append(append(g, key.g...), ug...), f.letVar(root, nv)+k())
			case "copy":
				return f.copyStmt(c, k)
			}
			f.unsupported(c, "builtin %s as a statement", b.Name())
		}
	}
	if lv, m := f.absRecv(c); lv != nil {
		if !hasSliceParam(m) {
			return k() // an observation whose result is dropped
		}
		return f.absCall(c, lv, m, nil, k)
	}
	fo := f.calleeOf(c)
	if fo == nil {
		f.unsupported(c, "call statement")
	}
	if f.x.isSpecial(fo) {
		if s, ok := f.x.specialStmt(f, c, fo, k); ok {
			return s
		}
	}
	ci := f.x.translate(fo, f, c)
	if ci.pure && !ci.mutates && len(ci.inout) == 0 {
		// a pure call whose results are discarded has no effect
		_, g := f.callText(c, ci)
		return f.guarded(g, k())
	}
	return f.callStmt(c, ci, nil, k)
}

// copy(dst, src) where dst is a local or a receiver field path (no aliasing is
// represented): dst[:n] is overwritten with src[:n], n = min(len dst, len src)
func (f *fn) copyStmt(c *ast.CallExpr, k kont) string { return f.copyStmtN(c, nil, k) }

// copyStmtN: `copy(dst[lo:], src)`, optionally `n = copy(…)`
func (f *fn) copyStmtN(c *ast.CallExpr, cnt ast.Expr, k kont) string {
	dstE := c.Args[0]
	lo := ""
	var g []string
	if se, ok := dstE.(*ast.SliceExpr); ok {
		if se.High != nil || se.Slice3 {
			f.unsupported(c, "copy into a slice expression with an upper bound")
		}
		dstE = se.X
		if se.Low != nil {
			v := f.expr(se.Low)
			s, ig := f.toNatIdx(v, se.Low)
			g = append(append(g, v.g...), ig...)
			lo = s
		}
	}
	root, steps, pg := f.lvaluePath(dstE)
	g = append(g, pg...)
	if len(steps) == 0 && root.isParam && !root.inout {
		f.unsupported(c, "copy into a slice parameter that was not recognised as in-out")
	}
	cur := f.expr(dstE)
	src := f.expr(c.Args[1])
	g = append(g, src.g...)
	var nv string
	if lo == "" {
		nv = "(" + src.s + ".take " + cur.s + ".length ++ " + cur.s + ".drop " + src.s + ".length)"
	} else {
		g = append(g, "decide ("+lo+" ≤ "+cur.s+".length)")
		nv = "(" + cur.s + ".take " + lo + " ++ (" + src.s + ".take (" + cur.s + ".length - " + lo + ") ++ " + cur.s + ".drop (" + lo + " + " + src.s + ".length)))"
	}
	up, ug := f.update(root.name, steps, nv)
	if cnt == nil {
		return f.guarded(append(g, ug...), f.letVar(root, up)+k())
	}
	// the count uses the destination as it was before the copy
	var n string
	if lo == "" {
		n = "(min " + cur.s + ".length " + src.s + ".length)"
	} else {
		n = "(min (" + cur.s + ".length - " + lo + ") " + src.s + ".length)"
	}
	name := fmt.Sprintf("cnt%d", f.tmpN)
	f.tmpN++
	return f.guarded(append(g, ug...), "let "+name+" : Nat := "+n+"\n"+f.letVar(root, up)+
		f.assignTo(cnt, val{s: name, t: types.Typ[types.Int], nat: true}, k))
}

// callStmt: call of an effectful function whose results go to lhs (nil: discarded)
func (f *fn) callStmt(c *ast.CallExpr, ci *fnInfo, lhs []ast.Expr, k kont) string {
	names := make([]string, len(ci.resTypes))
	for i := range names {
		names[i] = fmt.Sprintf("r%d_%d", f.tmpN, i)
	}
	f.tmpN++
	return f.callBind(c, ci, names, func() string {
		if lhs == nil {
			return k()
		}
		if len(lhs) != len(names) {
			f.unsupported(c, "assignment of %d results to %d targets", len(names), len(lhs))
		}
		var chain func(i int) string
		chain = func(i int) string {
			if i == len(lhs) {
				return k()
			}
			return f.assignTo(lhs[i], val{s: names[i], t: ci.resTypes[i], nat: ci.resNat[i]}, func() string { return chain(i + 1) })
		}
		return chain(0)
	})
}

// callBind: evaluate the call, write a changed receiver and changed in-out
// slice arguments back, bind the results to the given names, continue with k
func (f *fn) callBind(c *ast.CallExpr, ci *fnInfo, names []string, k kont) string {
	g := f.hoistCall(c, ci, names)
	return f.guarded(g, k())
}

// hoistCall produces the guard/bind list that evaluates the call and leaves its
// results in `names`
func (f *fn) hoistCall(c *ast.CallExpr, ci *fnInfo, names []string) []string {
	text, g := f.callText(c, ci)
	out := fmt.Sprintf("out%d", f.tmpN)
	f.tmpN++
	var b strings.Builder
	n := len(names) + len(ci.inout)
	if ci.mutates {
		n++
	}
	proj := func(i int) string { // i-th component of an n-tuple
		if n == 1 {
			return out
		}
		s := out
		for j := 0; j < i; j++ {
			s += ".2"
		}
		if i < n-1 {
			s += ".1"
		}
		return s
	}
	i0 := 0
	var wg []string
	if ci.mutates {
		sel := c.Fun.(*ast.SelectorExpr)
		root, steps, pg := f.recvPath(sel)
		if len(pg) != 0 {
			f.unsupported(c, "mutating method call on an indexed receiver")
		}
		nv, ug := f.update(root.name, steps, proj(0))
		if len(ug) != 0 {
			f.unsupported(c, "mutating method call on an indexed receiver")
		}
		b.WriteString(f.letVar(root, nv))
		i0 = 1
	}
	for j, pi := range ci.inout {
		// the callee wrote elements of its slice parameter: the argument sees them
		arg := c.Args[pi]
		lo := ""
		if se, ok := arg.(*ast.SliceExpr); ok && se.High == nil && !se.Slice3 {
			arg = se.X
			if se.Low != nil {
				v := f.expr(se.Low)
				if len(v.g) != 0 {
					f.unsupported(c, "in-out slice argument with a bound that can panic")
				}
				lo, _ = f.toNatIdx(v, se.Low)
			}
		}
		root, steps, pg := f.lvaluePath(arg)
		if len(pg) != 0 {
			f.unsupported(c, "in-out slice argument that is indexed")
		}
		if len(steps) == 0 && root.isParam && !root.inout {
			f.unsupported(c, "a slice parameter is passed to %s, which writes its elements (the parameter would have to be in-out here too)", ci.lean)
		}
		cur := f.expr(arg)
		nv := proj(i0 + j)
		if lo != "" {
			nv = "(" + cur.s + ".take " + lo + " ++ " + nv + ")"
		}
		up, ug := f.update(root.name, steps, nv)
		if len(ug) != 0 {
			f.unsupported(c, "in-out slice argument that is indexed")
		}
		b.WriteString(f.letVar(root, up))
	}
	i0 += len(ci.inout)
	for i, nm := range names {
		b.WriteString("let " + nm + " := " + proj(i0+i) + "\n")
	}
	g = append(g, f.addBind(&bindInfo{out: out, text: text, pure: ci.pure, after: b.String()}))
	return append(g, wg...)
}

// recvPath: lvalue path of the receiver of a method call (through embedded fields)
func (f *fn) recvPath(sel *ast.SelectorExpr) (*lvar, []step, []string) {
	s := f.pkg.info.Selections[sel]
	root, steps, g := f.lvaluePath(sel.X)
	t := f.typeOf(sel.X)
	ix := s.Index()
	for _, i := range ix[:len(ix)-1] {
		si := f.x.structOf(t)
		fi := si.fields[i]
		steps = append(steps, step{field: fi, st: si, typ: fi.typ})
		t = fi.typ
	}
	return root, steps, g
}

// x, y := f(…)  /  v, ok := m[k]
func (f *fn) multiAssign(s *ast.AssignStmt, k kont) string {
	switch r := s.Rhs[0].(type) {
	case *ast.TypeAssertExpr:
		id, ok := r.X.(*ast.Ident)
		if !ok || len(s.Lhs) != 2 || r.Type == nil {
			f.unsupported(s, "type assertion")
		}
		src := f.lvarOf(id)
		if src.abs == nil {
			f.unsupported(s, "type assertion on a value of a type that is not an abstracted interface")
		}
		okv := val{s: fmt.Sprintf("(%s.dyn == %q)", src.name, dynName(f.typeOf(r.Type))), t: types.Typ[types.Bool]}
		rest := func() string { return f.assignTo(s.Lhs[1], okv, k) }
		if lid, ok := s.Lhs[0].(*ast.Ident); ok && lid.Name == "_" {
			return rest()
		}
		// the narrowed value is the same observation record (only meaningful when ok)
		dst := f.lvarOf(s.Lhs[0].(*ast.Ident))
		return f.letVar(dst, src.name) + rest()
	case *ast.CallExpr:
		if lv, m := f.absRecv(r); lv != nil {
			return f.absCall(r, lv, m, s.Lhs, k)
		}
		if sel, ok := r.Fun.(*ast.SelectorExpr); ok {
			if fi := f.externField(sel.X); fi != nil {
				return f.externCall(s.Lhs, r, fi, k)
			}
		}
		fo := f.calleeOf(r)
		if fo == nil {
			f.unsupported(s, "multi-value call")
		}
		if f.x.isSpecial(fo) {
			if sv := f.x.specialMulti(f, r, fo); sv != nil {
				return f.bindTuple(s, sv, k)
			}
		}
		ci := f.x.translate(fo, f, r)
		return f.callStmt(r, ci, s.Lhs, k)
	case *ast.IndexExpr:
		base := f.expr(r.X)
		if kindOf(base.t) != kMap || len(s.Lhs) != 2 {
			f.unsupported(s, "comma-ok form")
		}
		mt := deref(base.t).Underlying().(*types.Map)
		key := f.expr(r.Index)
		name := fmt.Sprintf("look%d", f.tmpN)
		f.tmpN++
		g := append(append([]string{}, base.g...), key.g...)
		head := "let " + name + " := Go.mapGet " + base.s + " " + f.conv(key, mt.Key(), r.Index) + "\n"
		v := val{s: "(" + name + ".getD " + f.x.zero(mt.Elem(), false) + ")", t: mt.Elem()}
		ok := val{s: name + ".isSome", t: types.Typ[types.Bool]}
		return f.guarded(g, head+f.assignTo(s.Lhs[0], v, func() string { return f.assignTo(s.Lhs[1], ok, k) }))
	}
	f.unsupported(s, "multi-value assignment")
	return ""
}

// externCall: call of a method of an external object (an argument of the
// translated function); `none` = the call does not return
func (f *fn) externCall(lhs []ast.Expr, c *ast.CallExpr, fi *fieldInfo, k kont) string {
	fo := f.calleeOf(c)
	sig := fo.Type().(*types.Signature)
	lv := f.externByName[fi.name+"_"+fo.Name()]
	if lv == nil {
		f.unsupported(c, "internal: external operation not registered")
	}
	var g []string
	text := lv.name
	for i, a := range c.Args {
		v := f.expr(a)
		g = append(g, v.g...)
		cv := f.convVal(v, sig.Params().At(i).Type(), a)
		text += " " + f.as(cv, false, a)
	}
	n := sig.Results().Len()
	if len(lhs) != n {
		f.unsupported(c, "external call with %d results assigned to %d targets", n, len(lhs))
	}
	out := fmt.Sprintf("ext%d", f.tmpN)
	f.tmpN++
	proj := func(i int) string {
		if n == 1 {
			return out
		}
		s := out
		for j := 0; j < i; j++ {
			s += ".2"
		}
		if i < n-1 {
			s += ".1"
		}
		return s
	}
	var chain func(i int) string
	chain = func(i int) string {
		if i == n {
			return k()
		}
		return f.assignTo(lhs[i], val{s: proj(i), t: sig.Results().At(i).Type()}, func() string { return chain(i + 1) })
	}
	f.escape("external call")
	f.usedBind = true
	return f.guarded(g, "(match "+text+" with\n  | none => Res.blocked\n  | some "+out+" =>\n"+indent(indent(chain(0)))+")")
}

func (f *fn) bindTuple(s *ast.AssignStmt, vs []val, k kont) string {
	if len(vs) != len(s.Lhs) {
		f.unsupported(s, "assignment of %d results to %d targets", len(vs), len(s.Lhs))
	}
	var chain func(i int) string
	chain = func(i int) string {
		if i == len(vs) {
			return k()
		}
		return f.assignTo(s.Lhs[i], vs[i], func() string { return chain(i + 1) })
	}
	return chain(0)
}

// ---- conditionals --------------------------------------------------------------

type branch struct {
	cond string
	g    []string
	body []ast.Stmt
	node ast.Node
}

// assignedOuter: variables declared outside [lo,hi) that statements in the
// list assign (through any path)
func (f *fn) assignedOuter(lists [][]ast.Stmt) []*lvar {
	seen := map[*lvar]bool{}
	var out []*lvar
	note := func(e ast.Expr, lo, hi token.Pos) {
		for {
			switch x := e.(type) {
			case *ast.ParenExpr:
				e = x.X
				continue
			case *ast.SelectorExpr:
				e = x.X
				continue
			case *ast.IndexExpr:
				e = x.X
				continue
			case *ast.SliceExpr:
				e = x.X
				continue
			}
			break
		}
		id, ok := e.(*ast.Ident)
		if !ok || id.Name == "_" {
			return
		}
		obj := f.pkg.info.Uses[id]
		if obj == nil {
			obj = f.pkg.info.Defs[id]
		}
		v, ok := obj.(*types.Var)
		if !ok {
			return
		}
		lv, ok := f.vars[v]
		if !ok || (v.Pos() >= lo && v.Pos() < hi) {
			return
		}
		if !seen[lv] {
			seen[lv] = true
			out = append(out, lv)
		}
	}
	for _, l := range lists {
		if len(l) == 0 {
			continue
		}
		lo, hi := l[0].Pos(), l[len(l)-1].End()
		for _, s := range l {
			ast.Inspect(s, func(n ast.Node) bool {
				switch n := n.(type) {
				case *ast.AssignStmt:
					for _, e := range n.Lhs {
						note(e, lo, hi)
					}
				case *ast.IncDecStmt:
					note(n.X, lo, hi)
				case *ast.CallExpr:
					// mutating method calls and delete/copy change their receiver/target
					if lv, _ := f.absRecv(n); lv != nil {
						// observations change nothing but the byte slices passed to them
						if m := f.absMethod(n); m != nil && hasSliceParam(m) {
							for _, a := range n.Args {
								if kk := kindOf(f.typeOf(a)); kk == kBytes || kk == kSlice {
									note(a, lo, hi)
								}
							}
						}
						return true
					}
					if sel, ok := n.Fun.(*ast.SelectorExpr); ok && !f.isExternCall(n) {
						if _, ok := f.pkg.info.Selections[sel]; ok {
							if fo := f.calleeOf(n); fo != nil && !f.isMutexCall(n) && !f.x.isSpecial(fo) {
								if ci := f.x.translate(fo, f, n); ci.mutates {
									note(sel.X, lo, hi)
								}
							}
						}
					}
					if id, ok := n.Fun.(*ast.Ident); ok && (id.Name == "delete" || id.Name == "copy") && len(n.Args) > 0 {
						note(n.Args[0], lo, hi)
					}
				}
				return true
			})
		}
	}
	return out
}

func syntacticallySimple(list []ast.Stmt) bool {
	ok := true
	for _, s := range list {
		ast.Inspect(s, func(n ast.Node) bool {
			switch n.(type) {
			case *ast.ReturnStmt, *ast.BranchStmt, *ast.ForStmt, *ast.RangeStmt, *ast.LabeledStmt, *ast.DeferStmt, *ast.GoStmt:
				ok = false
			}
			return ok
		})
	}
	return ok
}

// ifChain: `if c1 {b1} else if c2 {b2} … else {els}` followed by k.  If no
// branch can escape (return, branch, panic check, Res-valued call) the changed
// variables are joined with one `let`; otherwise the continuation is inlined in
// every branch that falls through.
func (f *fn) ifChain(n ast.Node, brs []branch, els []ast.Stmt, k kont, fl *flow) string {
	// guards of condition i are only evaluated when conditions 0..i-1 were false
	var condG []string
	for i, b := range brs {
		if i > 0 && hasBind(b.g) {
			f.unsupported(b.node, "`else if` condition that calls a function which can panic")
		}
		for _, g := range b.g {
			if isBind(g) {
				condG = append(condG, g)
				continue
			}
			pre := ""
			for j := 0; j < i; j++ {
				pre += brs[j].cond + " || "
			}
			if pre != "" {
				g = "(" + pre + g + ")"
			}
			condG = append(condG, g)
		}
	}
	lists := [][]ast.Stmt{els}
	simple := syntacticallySimple(els)
	for _, b := range brs {
		lists = append(lists, b.body)
		simple = simple && syntacticallySimple(b.body)
	}
	if simple {
		outs := f.assignedOuter(lists)
		if len(outs) > 0 {
			save := *f
			saveEsc := f.escaped
			f.escaped = false
			tuple := func() string {
				if len(outs) == 1 {
					return outs[0].name
				}
				ns := make([]string, len(outs))
				for i, o := range outs {
					ns[i] = o.name
				}
				return "(" + strings.Join(ns, ", ") + ")"
			}
			var b strings.Builder
			for i, br := range brs {
				if i > 0 {
					b.WriteString("\nelse ")
				}
				b.WriteString("if " + br.cond + " then\n" + indent(f.stmts(br.body, tuple, nil)))
			}
			b.WriteString("\nelse\n" + indent(f.stmts(els, tuple, nil)))
			if !f.escaped {
				f.escaped = saveEsc
				var head string
				if len(outs) == 1 {
					o := outs[0]
					head = "let " + o.name + " : " + f.lt(o) + " :=\n" + indent(b.String()) + "\n"
				} else {
					name := fmt.Sprintf("join%d", f.tmpN)
					f.tmpN++
					head = "let " + name + " :=\n" + indent(b.String()) + "\n"
					for i, o := range outs {
						p := name
						for j := 0; j < i; j++ {
							p += ".2"
						}
						if i < len(outs)-1 {
							p += ".1"
						}
						head += "let " + o.name + " : " + f.lt(o) + " := " + p + "\n"
					}
				}
				return f.guarded(condG, head+k())
			}
			// a branch escaped after all: forget the attempt
			tn, up, ub, nf := f.tmpN, f.usedPanic, f.usedBind, f.needFuel
			*f = save
			f.tmpN, f.usedPanic, f.usedBind, f.needFuel = tn, up, ub, nf
			f.escaped = true
		}
	}
	falls := 0
	if fallsThrough(els) {
		falls++
	}
	for _, br := range brs {
		if fallsThrough(br.body) {
			falls++
		}
	}
	if falls >= 2 {
		k = f.joinPoint(n, k)
	}
	var b strings.Builder
	for i, br := range brs {
		if i > 0 {
			b.WriteString("\nelse ")
		}
		b.WriteString("if " + br.cond + " then\n" + indent(f.stmts(br.body, k, fl)))
	}
	b.WriteString("\nelse\n" + indent(f.stmts(els, k, fl)))
	return f.guarded(condG, b.String())
}

// dynName: the name of a dynamic type as it appears in the `dyn` field
func dynName(t types.Type) string {
	return types.TypeString(t, func(p *types.Package) string { return p.Name() })
}

// typeSwitchStmt: `switch x := v.(type)` over a value of an abstracted interface;
// the clauses test `v.dyn`, the symbol x is v itself
func (f *fn) typeSwitchStmt(s *ast.TypeSwitchStmt, k kont, fl *flow) string {
	if s.Init != nil {
		f.unsupported(s, "type switch with init statement")
	}
	var ta *ast.TypeAssertExpr
	switch a := s.Assign.(type) {
	case *ast.AssignStmt:
		ta, _ = a.Rhs[0].(*ast.TypeAssertExpr)
	case *ast.ExprStmt:
		ta, _ = a.X.(*ast.TypeAssertExpr)
	}
	src := f.lvarOf(ta.X.(*ast.Ident))
	var brs []branch
	var els []ast.Stmt
	for i, c := range s.Body.List {
		cc := c.(*ast.CaseClause)
		if cc.List == nil {
			if i != len(s.Body.List)-1 {
				f.unsupported(cc, "default clause that is not last")
			}
			els = cc.Body
			continue
		}
		var conds []string
		for _, e := range cc.List {
			if id, ok := e.(*ast.Ident); ok && id.Name == "nil" {
				f.unsupported(e, "case nil")
			}
			conds = append(conds, fmt.Sprintf("(%s.dyn == %q)", src.name, dynName(f.typeOf(e))))
		}
		cond := strings.Join(conds, " || ")
		if len(conds) > 1 {
			cond = "(" + cond + ")"
		}
		brs = append(brs, branch{cond: cond, body: cc.Body, node: cc})
	}
	inner := fl.with(k, nil, "")
	if len(brs) == 0 {
		return f.stmts(els, k, inner)
	}
	return f.ifChain(s, brs, els, k, inner)
}

// absRecv: the call is a method call on a value of an abstracted interface
// (returns the variable and the method)
func (f *fn) absRecv(c *ast.CallExpr) (*lvar, *types.Func) {
	sel, ok := c.Fun.(*ast.SelectorExpr)
	if !ok {
		return nil, nil
	}
	id, ok := sel.X.(*ast.Ident)
	if !ok {
		return nil, nil
	}
	o := f.pkg.info.Uses[id]
	v, ok := o.(*types.Var)
	if !ok {
		return nil, nil
	}
	lv, ok := f.vars[v]
	if !ok || lv.abs == nil {
		return nil, nil
	}
	// the method of the interface with that name (the static type may be a narrowed concrete type)
	it := lv.abs.named.Underlying().(*types.Interface)
	for i := 0; i < it.NumMethods(); i++ {
		if it.Method(i).Name() == sel.Sel.Name {
			return lv, it.Method(i)
		}
	}
	// a method of the concrete type the value was narrowed to (type switch / assertion):
	// also an observation, meaningful only when `dyn` is that type
	if fo := f.calleeOf(c); fo != nil {
		return lv, fo
	}
	f.unsupported(c, "method %s of the abstracted value %s", sel.Sel.Name, lv.name)
	return nil, nil
}

func (f *fn) absMethod(c *ast.CallExpr) *types.Func {
	_, m := f.absRecv(c)
	return m
}

func hasSliceParam(m *types.Func) bool {
	sig := m.Type().(*types.Signature)
	for i := 0; i < sig.Params().Len(); i++ {
		if k := kindOf(sig.Params().At(i).Type()); k == kBytes || k == kSlice {
			return true
		}
	}
	return false
}

// absCall: call of an observation with byte-slice arguments: the slices are
// written back to the argument expressions, the results bound to lhs (nil: dropped)
func (f *fn) absCall(c *ast.CallExpr, lv *lvar, m *types.Func, lhs []ast.Expr, k kont) string {
	of := f.x.observation(lv.abs, m)
	sig := m.Type().(*types.Signature)
	text := lv.name + "." + of.lean
	var g []string
	var sliceArgs []ast.Expr
	for i, a := range c.Args {
		v := f.expr(a)
		g = append(g, v.g...)
		pt := sig.Params().At(i).Type()
		text += " " + f.as(f.convVal(v, pt, a), false, a)
		if kk := kindOf(pt); kk == kBytes || kk == kSlice {
			sliceArgs = append(sliceArgs, a)
		}
	}
	n := len(sliceArgs) + sig.Results().Len()
	out := fmt.Sprintf("obs%d", f.tmpN)
	f.tmpN++
	proj := func(i int) string {
		if n == 1 {
			return out
		}
		s := out
		for j := 0; j < i; j++ {
			s += ".2"
		}
		if i < n-1 {
			s += ".1"
		}
		return s
	}
	if lhs != nil && len(lhs) != sig.Results().Len() {
		f.unsupported(c, "results of %s assigned to %d targets", m.Name(), len(lhs))
	}
	var chain func(i int) string
	chain = func(i int) string {
		if i < len(sliceArgs) {
			root, steps, pg := f.lvaluePath(sliceArgs[i])
			nv, ug := f.update(root.name, steps, proj(i))
			return f.guarded(append(pg, ug...), f.letVar(root, nv)+chain(i+1))
		}
		j := i - len(sliceArgs)
		if lhs == nil || j == len(lhs) {
			return k()
		}
		return f.assignTo(lhs[j], val{s: proj(i), t: sig.Results().At(j).Type()}, func() string { return chain(i + 1) })
	}
	return f.guarded(g, "let "+out+" := "+text+"\n"+chain(0))
}

func (f *fn) switchStmt(s *ast.SwitchStmt, k kont, fl *flow) string {
	if s.Init != nil {
		inner := *s
		inner.Init = nil
		return f.stmt(s.Init, func() string { return f.switchStmt(&inner, k, fl) }, fl)
	}
	head := ""
	var tag *val
	var hg []string
	if s.Tag != nil {
		v := f.expr(s.Tag)
		hg = v.g
		if _, isId := s.Tag.(*ast.Ident); !isId && v.cv == nil {
			name := fmt.Sprintf("tag%d", f.tmpN)
			f.tmpN++
			head = "let " + name + " : " + f.x.leanType(v.t, v.nat) + " := " + v.s + "\n"
			v.s = name
		}
		v.g = nil
		tag = &v
	}
	var brs []branch
	var els []ast.Stmt
	hasDefault := false
	for _, c := range s.Body.List {
		cc := c.(*ast.CaseClause)
		for _, st := range cc.Body {
			if b, ok := st.(*ast.BranchStmt); ok && b.Tok == token.FALLTHROUGH {
				f.unsupported(b, "fallthrough")
			}
		}
		if cc.List == nil {
			if hasDefault {
				f.unsupported(cc, "two default clauses")
			}
			hasDefault = true
			els = cc.Body
			if c != s.Body.List[len(s.Body.List)-1] {
				f.unsupported(cc, "default clause that is not last")
			}
			continue
		}
		var conds, g []string
		for _, e := range cc.List {
			ev := f.expr(e)
			if len(ev.g) != 0 {
				f.unsupported(e, "case expression that can panic")
			}
			if tag == nil {
				conds = append(conds, ev.s)
				continue
			}
			a, b := tag.s, ev.s
			if kindOf(tag.t) == kSigned && !(tag.nat && ev.nat) {
				a, b = f.toInt(*tag), f.toInt(ev)
			}
			conds = append(conds, "("+a+" == "+b+")")
		}
		cond := strings.Join(conds, " || ")
		if len(conds) > 1 {
			cond = "(" + cond + ")"
		}
		brs = append(brs, branch{cond: cond, g: g, body: cc.Body, node: cc})
	}
	// `break` inside a switch leaves the switch
	inner := fl.with(k, nil, "")
	if len(brs) == 0 {
		return f.guarded(hg, head+f.stmts(els, k, inner))
	}
	return f.guarded(hg, head+f.ifChain(s, brs, els, k, inner))
}

// ---- loops ------------------------------------------------------------------------

// loopParams: variables in scope at `entry` that are mentioned at or after
// `from` (the start of the outermost enclosing loop, or of this loop), plus the
// receiver of a mutating method
func (f *fn) loopParams(entry, from token.Pos) []*lvar {
	var out []*lvar
	out = append(out, f.info.externs...)
	for _, lv := range f.order {
		if lv.obj.Pos() >= entry {
			continue
		}
		sc := lv.obj.Parent()
		if sc == nil || !(sc.Contains(entry) || lv.isParam) {
			continue
		}
		used := false
		for _, p := range f.uses[lv] {
			if p >= from {
				used = true
				break
			}
		}
		if lv == f.info.recv && f.info.mutates {
			used = true
		}
		if used {
			out = append(out, lv)
		}
	}
	return out
}

func containsBreakTo(body *ast.BlockStmt, label string) bool {
	found := false
	var walk func(n ast.Node, depth int)
	walk = func(n ast.Node, depth int) {
		ast.Inspect(n, func(m ast.Node) bool {
			if m == nil || found {
				return false
			}
			switch m := m.(type) {
			case *ast.BranchStmt:
				if m.Tok == token.BREAK {
					if m.Label != nil && m.Label.Name == label && label != "" {
						found = true
					}
					if m.Label == nil && depth == 0 {
						found = true
					}
				}
			case *ast.ForStmt:
				if m != n {
					walk(m.Body, depth+1)
					return false
				}
			case *ast.RangeStmt:
				if m != n {
					walk(m.Body, depth+1)
					return false
				}
			case *ast.SwitchStmt:
				if m != n {
					walk(m.Body, depth+1)
					return false
				}
			case *ast.TypeSwitchStmt:
				if m != n {
					walk(m.Body, depth+1)
					return false
				}
			case *ast.SelectStmt:
				found = true
			}
			return true
		})
	}
	walk(body, 0)
	return found
}

func (f *fn) resultType() string {
	var parts []string
	if f.info.mutates {
		parts = append(parts, f.x.leanType(f.info.recv.typ, false))
	}
	for _, pi := range f.info.inout {
		parts = append(parts, f.x.leanType(f.info.params[pi].typ, false))
	}
	for i, t := range f.info.resTypes {
		parts = append(parts, f.x.leanType(t, f.info.resNat[i]))
	}
	var t string
	switch len(parts) {
	case 0:
		t = "Unit"
	default:
		t = strings.Join(parts, " × ")
	}
	if f.pureMode {
		return t
	}
	return "Res (" + t + ")"
}

func (f *fn) binders(ps []*lvar) string {
	var b strings.Builder
	for _, p := range ps {
		b.WriteString(" (" + p.name + " : " + f.lt(p) + ")")
	}
	return b.String()
}

func (f *fn) argNames(ps []*lvar) string {
	var b strings.Builder
	for _, p := range ps {
		b.WriteString(" " + p.name)
	}
	return b.String()
}

// scopeBinder: a name bound by an enclosing auxiliary definition that is not a
// Go variable (the iteration budget, the unvisited rest of a ranged slice)
type scopeBinder struct{ name, typ string }

var wordRe = map[string]*regexp.Regexp{}

func mentions(text, name string) bool {
	re, ok := wordRe[name]
	if !ok {
		re = regexp.MustCompile(`(^|[^A-Za-z0-9_.])` + regexp.QuoteMeta(name) + `($|[^A-Za-z0-9_])`)
		wordRe[name] = re
	}
	return re.MatchString(text)
}

// extraBinders: the function's `fuel` argument and the binders of enclosing
// loops, as far as the text of a new auxiliary definition mentions them
func (f *fn) extraBinders(text string) (string, string) {
	b, a := "", ""
	if mentions(text, "fuel") {
		b, a = " (fuel : Nat)", " fuel"
	}
	for _, sb := range f.loopBinders {
		if mentions(text, sb.name) {
			b += " (" + sb.name + " : " + sb.typ + ")"
			a += " " + sb.name
		}
	}
	return b, a
}

// loopExtra: binders a loop definition needs besides its own: the function's
// `fuel` (when another budgeted loop or a call that takes a budget is reachable
// from the loop) and the binders of the enclosing loops
func (f *fn) loopExtra(from token.Pos, self ast.Node) (string, string) {
	b, a := "", ""
	need := false
	ast.Inspect(f.decl.Body, func(n ast.Node) bool {
		if n == nil || need {
			return false
		}
		switch n := n.(type) {
		case *ast.ForStmt:
			if n != self && n.Pos() >= from {
				if n.Init == nil && f.countingBudget(n) == "" {
					need = true
				}
				if n.Init != nil {
					c := *n
					c.Init = nil
					if f.countingBudget(&c) == "" {
						need = true
					}
				}
			}
		case *ast.CallExpr:
			if n.Pos() >= from {
				if tv, ok := f.pkg.info.Types[n.Fun]; ok && tv.IsType() {
					return true
				}
				if lv, _ := f.absRecv(n); lv != nil || f.isExternCall(n) || f.isMutexCall(n) {
					return true
				}
				if fo := f.calleeOf(n); fo != nil && !isErrorMaker(fo) && !f.x.isSpecial(fo) {
					if ci := f.x.translate(fo, f, n); ci.fuel {
						need = true
					}
				}
			}
		}
		return true
	})
	if need {
		b, a = " (fuel : Nat)", " fuel"
	}
	for _, sb := range f.loopBinders {
		b += " (" + sb.name + " : " + sb.typ + ")"
		a += " " + sb.name
	}
	return b, a
}

// joinPoint: when the code after a conditional would be inlined into several
// branches and is not tiny, it becomes an auxiliary definition of its own
func (f *fn) joinPoint(n ast.Node, k kont) kont {
	text := k()
	if strings.Count(text, "\n") < 6 {
		return func() string { return text }
	}
	from := n.End()
	if f.outerLoop != token.NoPos {
		from = f.outerLoop
	}
	params := f.loopParams(n.End(), from)
	f.joinN++
	name := fmt.Sprintf("%s.join%d", f.info.lean, f.joinN)
	eb, ea := f.extraBinders(text)
	f.aux = append(f.aux, fmt.Sprintf("/-- `%s`: the code after the conditional that ends at %s -/\ndef %s%s%s : %s :=\n%s\n",
		f.goName, f.shortPosEnd(n), name, eb, f.binders(params), f.resultType(), indent(text)))
	call := name + ea + f.argNames(params)
	return func() string { return call }
}

func (f *fn) shortPosEnd(n ast.Node) string {
	p := fset.Position(n.End())
	return fmt.Sprintf("line %d of the function", p.Line-fset.Position(f.decl.Pos()).Line+1)
}

// fallsThrough: the statement list can reach its end (syntactic approximation)
func fallsThrough(list []ast.Stmt) bool {
	if len(list) == 0 {
		return true
	}
	switch s := list[len(list)-1].(type) {
	case *ast.ReturnStmt, *ast.BranchStmt:
		return false
	case *ast.ExprStmt:
		if c, ok := s.X.(*ast.CallExpr); ok {
			if id, ok := c.Fun.(*ast.Ident); ok && id.Name == "panic" {
				return false
			}
		}
	case *ast.BlockStmt:
		return fallsThrough(s.List)
	case *ast.IfStmt:
		if s.Else == nil {
			return true
		}
		var el []ast.Stmt
		switch e := s.Else.(type) {
		case *ast.BlockStmt:
			el = e.List
		default:
			el = []ast.Stmt{e}
		}
		return fallsThrough(s.Body.List) || fallsThrough(el)
	}
	return true
}

// afterLoop: the continuation after a loop, as its own definition when the
// loop body can `break` (so that the text is not duplicated)
func (f *fn) afterLoop(name string, hasBreak bool, params []*lvar, k kont) kont {
	if !hasBreak {
		return k
	}
	text := k()
	an := name + "_after"
	eb, ea := f.extraBinders(text)
	f.aux = append(f.aux, fmt.Sprintf("/-- `%s`: the code after loop `%s` -/\ndef %s%s%s : %s :=\n%s\n",
		f.goName, name, an, eb, f.binders(params), f.resultType(), indent(text)))
	call := an + ea + f.argNames(params)
	return func() string { return call }
}

func (f *fn) rangeStmt(s *ast.RangeStmt, k kont, fl *flow) string {
	label := f.pendingLabel
	f.pendingLabel = ""
	f.escape("loop")
	if s.Tok != token.DEFINE && (s.Key != nil || s.Value != nil) {
		f.unsupported(s, "range with assignment to existing variables")
	}
	rng := f.expr(s.X)
	switch kindOf(rng.t) {
	case kBytes, kSlice:
	default:
		f.unsupported(s, "range over %s", rng.t)
	}
	from := s.Pos()
	if f.outerLoop != token.NoPos {
		from = f.outerLoop
	}
	params := f.loopParams(s.Pos(), from)
	f.loopN++
	name := fmt.Sprintf("%s.loop%d", f.info.lean, f.loopN)
	var key, value *lvar
	if id, ok := s.Key.(*ast.Ident); ok && id.Name != "_" {
		key = f.lvarOf(id)
	}
	if s.Value != nil {
		if id, ok := s.Value.(*ast.Ident); ok && id.Name != "_" {
			value = f.lvarOf(id)
		}
	}
	el := deref(rng.t).Underlying().(*types.Slice).Elem()
	elT := f.x.leanType(el, false)
	restName := fmt.Sprintf("rest%d", f.loopN)
	hdName := fmt.Sprintf("hd%d", f.loopN)
	if value != nil {
		hdName = value.name
	}
	keyB, keyA, keyNext := "", "", ""
	if key != nil {
		keyB = " (" + key.name + " : Nat)"
		keyA = " " + key.name
		keyNext = " (" + key.name + " + 1)"
	}
	eb, ea := f.loopExtra(from, s)
	recCall := name + ea + f.argNames(params) + keyNext + " " + restName
	// the code after the loop is translated outside the loop's extent
	after := f.afterLoop(name, containsBreakTo(s.Body, label), params, k)
	exit := after()
	if !containsBreakTo(s.Body, label) {
		after = func() string { return exit }
	}
	saveOuter := f.outerLoop
	if f.outerLoop == token.NoPos {
		f.outerLoop = s.Pos()
	}
	contK := func() string { return recCall }
	inner := fl.with(after, contK, label)
	f.loopBinders = append(f.loopBinders, scopeBinder{restName, "List " + paren(elT)})
	body := f.stmts(s.Body.List, contK, inner)
	f.loopBinders = f.loopBinders[:len(f.loopBinders)-1]
	f.outerLoop = saveOuter
	def := fmt.Sprintf("/-- `%s`: `for %s := range %s` at %s; `%s` is the part of the slice not yet visited -/\n"+
		"def %s%s%s%s (%s : List %s) : %s :=\n  match %s with\n  | [] =>\n%s\n  | %s :: %s =>\n%s\n",
		f.goName, rangeVars(s), exprStr(s.X), f.shortPos(s), restName,
		name, eb, f.binders(params), keyB, restName, paren(elT), f.resultType(),
		restName, indent(indent(exit)), hdName, restName, indent(indent(body)))
	f.aux = append(f.aux, def)
	_ = keyA
	start := name + ea + f.argNames(params)
	if key != nil {
		start += " 0"
	}
	start += " " + rng.s
	return f.guarded(rng.g, start)
}

func rangeVars(s *ast.RangeStmt) string {
	k, v := "_", "_"
	if s.Key != nil {
		k = exprStr(s.Key)
	}
	if s.Value != nil {
		v = exprStr(s.Value)
	}
	return k + ", " + v
}

// shortPos: where a statement is, relative to its function (line numbers of the
// file would make the generated text change with every unrelated edit above)
func (f *fn) shortPos(n ast.Node) string {
	p := fset.Position(n.Pos())
	return fmt.Sprintf("line %d of the function", p.Line-fset.Position(f.decl.Pos()).Line+1)
}

// forStmt: `for init; cond; post { body }` with an explicit iteration budget.
// A counting loop `for i := a; i < n; i++` whose counter and bound are not
// assigned in the body gets the budget n - i + 1 computed on the spot;
// every other loop takes the budget from the function's `fuel` argument.
func (f *fn) forStmt(s *ast.ForStmt, k kont, fl *flow) string {
	if s.Init != nil {
		inner := *s
		inner.Init = nil
		lbl := f.pendingLabel
		f.pendingLabel = ""
		return f.stmt(s.Init, func() string { f.pendingLabel = lbl; return f.forStmt(&inner, k, fl) }, fl)
	}
	label := f.pendingLabel
	f.pendingLabel = ""
	f.escape("loop")
	f.usedFuel = true
	entry := s.Body.Pos()
	from := s.Pos()
	if f.outerLoop != token.NoPos {
		from = f.outerLoop
	}
	params := f.loopParams(entry, from)
	f.loopN++
	name := fmt.Sprintf("%s.loop%d", f.info.lean, f.loopN)
	fuelName := fmt.Sprintf("fuel%d", f.loopN)
	eb, ea := f.loopExtra(from, s)
	recCall := name + ea + " " + fuelName + f.argNames(params)
	// the code after the loop is translated outside the loop's extent
	after := f.afterLoop(name, containsBreakTo(s.Body, label), params, k)
	exitText := after()
	after = func() string { return exitText }
	saveOuter := f.outerLoop
	if f.outerLoop == token.NoPos {
		f.outerLoop = s.Pos()
	}
	contK := func() string {
		if s.Post != nil {
			return f.stmt(s.Post, func() string { return recCall }, nil)
		}
		return recCall
	}
	inner := fl.with(after, contK, label)
	var step string
	f.loopBinders = append(f.loopBinders, scopeBinder{fuelName, "Nat"})
	if s.Cond != nil {
		c := f.expr(s.Cond)
		bodyT := f.stmts(s.Body.List, contK, inner)
		f.loopBinders = f.loopBinders[:len(f.loopBinders)-1]
		step = f.guarded(c.g, "if "+c.s+" then\n"+indent(bodyT)+"\nelse\n"+indent(after()))
	} else {
		step = f.stmts(s.Body.List, contK, inner)
		f.loopBinders = f.loopBinders[:len(f.loopBinders)-1]
	}
	f.outerLoop = saveOuter
	def := fmt.Sprintf("/-- `%s`: `for %s` at %s; `%s` bounds the number of iterations -/\n"+
		"def %s%s (%s : Nat)%s : %s :=\n  match %s with\n  | 0 => Res.fuel\n  | %s + 1 =>\n%s\n",
		f.goName, forHead(s), f.shortPos(s), fuelName,
		name, eb, fuelName, f.binders(params), f.resultType(),
		fuelName, fuelName, indent(indent(step)))
	f.aux = append(f.aux, def)
	budget := f.countingBudget(s)
	if budget == "" {
		f.needFuel = true
		budget = "fuel"
	}
	return name + ea + " " + budget + f.argNames(params)
}

func forHead(s *ast.ForStmt) string {
	c, p := "", ""
	if s.Cond != nil {
		c = exprStr(s.Cond)
	}
	if s.Post != nil {
		p = "; …"
	}
	return c + p
}

// countingBudget recognises `i < n` / `i <= n` with post `i++` where neither i
// nor any variable of n is assigned in the body; the budget is then n - i + 2
// iterations of the auxiliary definition (one more than the loop needs, so that
// the exit test is reached)
func (f *fn) countingBudget(s *ast.ForStmt) string {
	be, ok := s.Cond.(*ast.BinaryExpr)
	if !ok || (be.Op != token.LSS && be.Op != token.LEQ) {
		return ""
	}
	id, ok := be.X.(*ast.Ident)
	if !ok {
		return ""
	}
	inc, ok := s.Post.(*ast.IncDecStmt)
	if !ok || inc.Tok != token.INC {
		return ""
	}
	if pid, ok := inc.X.(*ast.Ident); !ok || f.pkg.info.Uses[pid] != f.pkg.info.Uses[id] {
		return ""
	}
	iv := f.lvarOf(id)
	// what the body assigns: whole variables, or single fields of a struct variable
	whole := map[*lvar]bool{}
	fields := map[*lvar]map[string]bool{}
	// root variable and the field directly below it that an lvalue (or a read) refers to
	rootField := func(e ast.Expr) (ast.Expr, string) {
		field := ""
		for {
			switch x := e.(type) {
			case *ast.ParenExpr:
				e = x.X
				continue
			case *ast.SelectorExpr:
				field = x.Sel.Name
				e = x.X
				continue
			case *ast.IndexExpr:
				field = ""
				e = x.X
				continue
			case *ast.SliceExpr:
				field = ""
				e = x.X
				continue
			}
			break
		}
		return e, field
	}
	mark := func(e ast.Expr) {
		root, field := rootField(e)
		rid, ok := root.(*ast.Ident)
		if !ok {
			return
		}
		v, ok := f.pkg.info.Uses[rid].(*types.Var)
		if !ok {
			return
		}
		lv, ok := f.vars[v]
		if !ok {
			return
		}
		if field == "" {
			whole[lv] = true
			return
		}
		if fields[lv] == nil {
			fields[lv] = map[string]bool{}
		}
		fields[lv][field] = true
	}
	bad := false
	for _, st := range s.Body.List {
		ast.Inspect(st, func(n ast.Node) bool {
			switch n := n.(type) {
			case *ast.AssignStmt:
				for _, l := range n.Lhs {
					mark(l)
				}
			case *ast.IncDecStmt:
				mark(n.X)
			case *ast.CallExpr:
				if id, ok := n.Fun.(*ast.Ident); ok {
					if _, isB := f.pkg.info.Uses[id].(*types.Builtin); isB {
						if (id.Name == "delete" || id.Name == "copy") && len(n.Args) > 0 {
							mark(n.Args[0])
						}
						return true
					}
				}
				if tv, ok := f.pkg.info.Types[n.Fun]; ok && tv.IsType() {
					return true
				}
				bad = true // any other call in the body: give up (it might change the bound)
			}
			return true
		})
	}
	if whole[iv] || fields[iv] != nil {
		bad = true
	}
	ast.Inspect(be.Y, func(n ast.Node) bool {
		switch x := n.(type) {
		case *ast.SelectorExpr:
			root, field := rootField(x)
			if rid, ok := root.(*ast.Ident); ok {
				if v, ok := f.pkg.info.Uses[rid].(*types.Var); ok {
					if lv, ok := f.vars[v]; ok {
						if whole[lv] || fields[lv][field] {
							bad = true
						}
					}
				}
			}
			return false
		case *ast.Ident:
			if v, ok := f.pkg.info.Uses[x].(*types.Var); ok {
				if lv, ok := f.vars[v]; ok {
					if whole[lv] || fields[lv] != nil {
						bad = true
					}
				}
			}
		case *ast.CallExpr:
			bad = true
		}
		return true
	})
	if bad {
		return ""
	}
	bound := f.expr(be.Y)
	cur := f.expr(id)
	if len(bound.g) != 0 {
		return ""
	}
	return "((" + f.toInt(bound) + " - " + f.toInt(cur) + ").toNat + 2)"
}

func exprStr(e ast.Expr) string {
	switch e := e.(type) {
	case *ast.Ident:
		return e.Name
	case *ast.SelectorExpr:
		return exprStr(e.X) + "." + e.Sel.Name
	case *ast.CallExpr:
		var a []string
		for _, x := range e.Args {
			a = append(a, exprStr(x))
		}
		return exprStr(e.Fun) + "(" + strings.Join(a, ", ") + ")"
	case *ast.IndexExpr:
		return exprStr(e.X) + "[" + exprStr(e.Index) + "]"
	case *ast.BasicLit:
		return e.Value
	case *ast.UnaryExpr:
		return e.Op.String() + exprStr(e.X)
	case *ast.BinaryExpr:
		return exprStr(e.X) + " " + e.Op.String() + " " + exprStr(e.Y)
	case *ast.ParenExpr:
		return "(" + exprStr(e.X) + ")"
	case *ast.SliceExpr:
		lo, hi := "", ""
		if e.Low != nil {
			lo = exprStr(e.Low)
		}
		if e.High != nil {
			hi = exprStr(e.High)
		}
		return exprStr(e.X) + "[" + lo + ":" + hi + "]"
	}
	return "…"
}
