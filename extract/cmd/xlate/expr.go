package main

// Expressions.  Every Go expression of the subset becomes a Lean term plus a
// list of guards: Boolean Lean terms that must all hold for the Go expression
// to evaluate without a run-time panic (index and slice bounds, division by
// zero, negative shift count).  Statements test the guards before they use the
// term.

import (
	"fmt"
	"go/ast"
	"go/constant"
	"go/token"
	"go/types"
	"strings"
)

type val struct {
	s     string         // Lean term (atomic or parenthesised)
	g     []string       // guards, in evaluation order
	t     types.Type     // Go type
	nat   bool           // signed integer represented as Nat
	cv    constant.Value // non-nil: compile-time constant
	isNil bool           // the untyped nil; takes the zero value of whatever it is converted to
}

func (f *fn) pos(n ast.Node) string {
	p := fset.Position(n.Pos())
	return fmt.Sprintf("%s:%d:%d", p.Filename, p.Line, p.Column)
}

func (f *fn) unsupported(n ast.Node, what string, a ...interface{}) {
	die("%s: unsupported in %s: %s (%T at %s)", f.x.where, f.goName, fmt.Sprintf(what, a...), n, f.pos(n))
}

func (f *fn) typeOf(e ast.Expr) types.Type {
	t := f.pkg.info.TypeOf(e)
	if t == nil || t == types.Typ[types.Invalid] {
		f.unsupported(e, "expression has no type (type-check error in the package?)")
	}
	return t
}

// constant of a Go type as Lean term
func (f *fn) constVal(e ast.Expr, cv constant.Value, t types.Type) val {
	v := val{t: t, cv: cv}
	switch kindOf(t) {
	case kBool:
		if constant.BoolVal(cv) {
			v.s = "true"
		} else {
			v.s = "false"
		}
	case kSigned:
		iv, ok := constant.Int64Val(constant.ToInt(cv))
		if !ok {
			f.unsupported(e, "integer constant out of range")
		}
		if iv >= 0 {
			v.s, v.nat = fmt.Sprintf("(%d : Nat)", iv), true
		} else {
			v.s = fmt.Sprintf("(%d : Int)", iv)
		}
	case kUnsigned:
		uv, ok := constant.Uint64Val(constant.ToInt(cv))
		if !ok {
			f.unsupported(e, "unsigned constant out of range")
		}
		v.s = fmt.Sprintf("(%d : %s)", uv, uintName(t))
	case kString:
		v.s = bytesLit([]byte(constant.StringVal(cv)))
	default:
		f.unsupported(e, "constant of type %s", t)
	}
	return v
}

func bytesLit(b []byte) string {
	if len(b) == 0 {
		return "([] : List UInt8)"
	}
	p := make([]string, len(b))
	for i, c := range b {
		p[i] = fmt.Sprint(c)
	}
	return "([" + strings.Join(p, ", ") + "] : List UInt8)"
}

// toInt gives the term typed Int
func (f *fn) toInt(v val) string {
	if kindOf(v.t) != kSigned {
		die("%s: internal: toInt on %s", f.x.where, v.t)
	}
	if !v.nat {
		return v.s
	}
	if v.cv != nil {
		iv, _ := constant.Int64Val(constant.ToInt(v.cv))
		return fmt.Sprintf("(%d : Int)", iv)
	}
	return "((" + v.s + " : Nat) : Int)"
}

// as gives the term with the requested integer representation
func (f *fn) as(v val, nat bool, n ast.Node) string {
	if kindOf(v.t) != kSigned || v.nat == nat {
		return v.s
	}
	if nat {
		f.unsupported(n, "internal: an Int-valued expression flows into a Nat slot")
	}
	return f.toInt(v)
}

// toNatIdx: term typed Nat for an index / length / shift-count position, with
// the guard that a signed value is not negative
func (f *fn) toNatIdx(v val, n ast.Node) (string, []string) {
	switch kindOf(v.t) {
	case kSigned:
		if v.nat {
			return v.s, nil
		}
		return "(" + v.s + ").toNat", []string{"decide (0 ≤ " + v.s + ")"}
	case kUnsigned:
		return "(" + v.s + ").toNat", nil
	}
	f.unsupported(n, "index of type %s", v.t)
	return "", nil
}

func (f *fn) useVar(lv *lvar) string { return lv.name }

func (f *fn) expr(e ast.Expr) val {
	info := f.pkg.info
	if tv, ok := info.Types[e]; ok && tv.Value != nil {
		t := tv.Type
		if b, ok := t.(*types.Basic); ok && b.Info()&types.IsUntyped != 0 {
			t = types.Default(t)
		}
		return f.constVal(e, tv.Value, t)
	}
	switch e := e.(type) {
	case *ast.ParenExpr:
		return f.expr(e.X)

	case *ast.Ident:
		obj := info.Uses[e]
		if obj == nil {
			obj = info.Defs[e]
		}
		switch o := obj.(type) {
		case *types.Var:
			if lv, ok := f.vars[o]; ok {
				if lv.abs != nil {
					return val{s: f.useVar(lv), t: lv.abs.named}
				}
				return val{s: f.useVar(lv), t: o.Type(), nat: lv.nat}
			}
			if o.Pkg() != nil && o.Parent() == o.Pkg().Scope() {
				return f.pkgVar(e, o)
			}
		case *types.Nil:
			t := f.typeOf(e)
			if b, ok := t.(*types.Basic); ok && b.Kind() == types.UntypedNil {
				return val{s: "nil", t: t, isNil: true}
			}
			return val{s: f.x.zero(t, false), t: t}
		}
		f.unsupported(e, "identifier %s", e.Name)

	case *ast.SelectorExpr:
		if sel, ok := info.Selections[e]; ok {
			if sel.Kind() != types.FieldVal {
				f.unsupported(e, "method value")
			}
			base := f.expr(e.X)
			s, t := f.fieldPath(e, base.s, base.t, sel.Index())
			return val{s: s, g: base.g, t: t}
		}
		// package-qualified identifier
		if o, ok := info.Uses[e.Sel].(*types.Var); ok {
			return f.pkgVar(e, o)
		}
		f.unsupported(e, "selector")

	case *ast.UnaryExpr:
		a := f.expr(e.X)
		switch e.Op {
		case token.NOT:
			return val{s: "(!" + a.s + ")", g: a.g, t: a.t}
		case token.ADD:
			return a
		case token.SUB:
			if kindOf(a.t) == kSigned {
				return val{s: "(-" + f.toInt(a) + ")", g: a.g, t: a.t}
			}
			if kindOf(a.t) == kUnsigned {
				return val{s: "(0 - " + a.s + ")", g: a.g, t: a.t}
			}
		case token.XOR:
			if kindOf(a.t) == kUnsigned {
				return val{s: "(~~~" + a.s + ")", g: a.g, t: a.t}
			}
		case token.AND:
			// &T{…}: a pointer to a fresh struct is the struct (no aliasing is represented)
			if _, ok := e.X.(*ast.CompositeLit); ok && kindOf(a.t) == kStruct {
				return a
			}
		}
		f.unsupported(e, "unary %s on %s", e.Op, a.t)

	case *ast.BinaryExpr:
		return f.binary(e)

	case *ast.CallExpr:
		return f.callExpr(e)

	case *ast.IndexExpr:
		base := f.expr(e.X)
		switch kindOf(base.t) {
		case kBytes, kSlice, kString:
			idx := f.expr(e.Index)
			is, ig := f.toNatIdx(idx, e.Index)
			g := append(append(append([]string{}, base.g...), idx.g...), ig...)
			g = append(g, "decide ("+is+" < "+base.s+".length)")
			et := f.typeOf(e)
			return val{s: "(" + base.s + ".getD " + is + " " + f.x.zero(et, false) + ")", g: g, t: et}
		case kMap:
			k := f.expr(e.Index)
			mt := deref(base.t).Underlying().(*types.Map)
			ks := f.conv(k, mt.Key(), e.Index)
			return val{s: "((Go.mapGet " + base.s + " " + ks + ").getD " + f.x.zero(mt.Elem(), false) + ")",
				g: append(append([]string{}, base.g...), k.g...), t: mt.Elem()}
		}
		f.unsupported(e, "index into %s", base.t)

	case *ast.SliceExpr:
		if e.Slice3 {
			f.unsupported(e, "3-index slice")
		}
		base := f.expr(e.X)
		if k := kindOf(base.t); k != kBytes && k != kSlice && k != kString {
			f.unsupported(e, "slice of %s", base.t)
		}
		g := append([]string{}, base.g...)
		lo, hi := "", ""
		if e.Low != nil {
			v := f.expr(e.Low)
			s, ig := f.toNatIdx(v, e.Low)
			g = append(append(g, v.g...), ig...)
			lo = s
		}
		if e.High != nil {
			v := f.expr(e.High)
			s, ig := f.toNatIdx(v, e.High)
			g = append(append(g, v.g...), ig...)
			hi = s
		}
		t := f.typeOf(e)
		switch {
		case lo == "" && hi == "":
			return val{s: base.s, g: g, t: t}
		case hi == "":
			g = append(g, "decide ("+lo+" ≤ "+base.s+".length)")
			return val{s: "(" + base.s + ".drop " + lo + ")", g: g, t: t}
		case lo == "":
			g = append(g, "decide ("+hi+" ≤ "+base.s+".length)")
			return val{s: "(" + base.s + ".take " + hi + ")", g: g, t: t}
		default:
			g = append(g, "decide ("+lo+" ≤ "+hi+")", "decide ("+hi+" ≤ "+base.s+".length)")
			return val{s: "((" + base.s + ".drop " + lo + ").take (" + hi + " - " + lo + "))", g: g, t: t}
		}

	case *ast.CompositeLit:
		return f.compositeLit(e)

	case *ast.StarExpr:
		f.unsupported(e, "pointer dereference")
	}
	f.unsupported(e, "expression")
	return val{}
}

// fieldPath follows a (possibly promoted) field selection
func (f *fn) fieldPath(n ast.Node, s string, t types.Type, index []int) (string, types.Type) {
	for _, ix := range index {
		if kindOf(t) != kStruct {
			f.unsupported(n, "field of non-struct %s", t)
		}
		si := f.x.structOf(t)
		fi := si.fields[ix]
		if fi.skipped != "" {
			f.unsupported(n, "field %s.%s is not represented (%s)", si.lean, fi.name, fi.skipped)
		}
		s, t = s+"."+fi.lean, fi.typ
	}
	return s, t
}

// package-level variables: only error values (compared by identity)
func (f *fn) pkgVar(n ast.Node, o *types.Var) val {
	if isErrorType(o.Type()) {
		return val{s: fmt.Sprintf("(Err.var %q)", o.Name()), t: o.Type()}
	}
	if kindOf(o.Type()) == kMap {
		return val{s: f.x.pkgMap(f, n, o), t: o.Type()}
	}
	f.unsupported(n, "package-level variable %s.%s", o.Pkg().Name(), o.Name())
	return val{}
}

func (f *fn) binary(e *ast.BinaryExpr) val {
	for _, pr := range [][2]ast.Expr{{e.X, e.Y}, {e.Y, e.X}} {
		if fi := f.externField(pr[0]); fi != nil {
			id, ok := pr[1].(*ast.Ident)
			if !ok || id.Name != "nil" || (e.Op != token.EQL && e.Op != token.NEQ) {
				f.unsupported(e, "use of external object %s other than a method call or a comparison with nil", fi.name)
			}
			lv := f.externByName[fi.name+"_isNil"]
			s := lv.name
			if e.Op == token.NEQ {
				s = "(!" + s + ")"
			}
			return val{s: s, t: types.Typ[types.Bool]}
		}
	}
	a, b := f.expr(e.X), f.expr(e.Y)
	rt := f.typeOf(e)
	switch e.Op {
	case token.LAND, token.LOR:
		g := append([]string{}, a.g...)
		if hasBind(b.g) {
			f.unsupported(e, "right operand of %s calls a function that can panic (conditional evaluation of such a call is outside the subset)", e.Op)
		}
		for _, x := range b.g {
			if e.Op == token.LAND {
				g = append(g, "(!"+a.s+" || "+x+")")
			} else {
				g = append(g, "("+a.s+" || "+x+")")
			}
		}
		op := " && "
		if e.Op == token.LOR {
			op = " || "
		}
		return val{s: "(" + a.s + op + b.s + ")", g: g, t: rt}
	}
	g := append(append([]string{}, a.g...), b.g...)
	if a.isNil && !b.isNil {
		a = f.convVal(a, b.t, e.X)
	} else if b.isNil && !a.isNil {
		b = f.convVal(b, a.t, e.Y)
	}
	if kindOf(a.t) == kErr && kindOf(b.t) != kErr {
		b = f.convVal(b, a.t, e.Y)
	} else if kindOf(b.t) == kErr && kindOf(a.t) != kErr {
		a = f.convVal(a, b.t, e.X)
	}
	ka := kindOf(a.t)

	switch e.Op {
	case token.EQL, token.NEQ, token.LSS, token.LEQ, token.GTR, token.GEQ:
		as, bs := a.s, b.s
		switch ka {
		case kSigned:
			if kindOf(b.t) != kSigned {
				f.unsupported(e, "comparison %s with %s", a.t, b.t)
			}
			if !(a.nat && b.nat) {
				as, bs = f.toInt(a), f.toInt(b)
			}
		case kUnsigned, kBool:
		case kErr:
			if e.Op != token.EQL && e.Op != token.NEQ {
				f.unsupported(e, "ordering of errors")
			}
		case kString:
			if e.Op != token.EQL && e.Op != token.NEQ {
				f.unsupported(e, "ordering of strings")
			}
		default:
			f.unsupported(e, "comparison of %s", a.t)
		}
		var s string
		switch e.Op {
		case token.EQL:
			s = "(" + as + " == " + bs + ")"
		case token.NEQ:
			s = "(" + as + " != " + bs + ")"
		case token.LSS:
			s = "(decide (" + as + " < " + bs + "))"
		case token.LEQ:
			s = "(decide (" + as + " ≤ " + bs + "))"
		case token.GTR:
			s = "(decide (" + as + " > " + bs + "))"
		case token.GEQ:
			s = "(decide (" + as + " ≥ " + bs + "))"
		}
		return val{s: s, g: g, t: rt}
	}

	// arithmetic
	switch kindOf(rt) {
	case kUnsigned:
		u := uintName(rt)
		w := intWidth(rt)
		switch e.Op {
		case token.ADD, token.SUB, token.MUL:
			return val{s: "(" + a.s + " " + e.Op.String() + " " + b.s + ")", g: g, t: rt}
		case token.QUO, token.REM:
			g = append(g, "("+b.s+" != 0)")
			return val{s: "(" + a.s + " " + e.Op.String() + " " + b.s + ")", g: g, t: rt}
		case token.AND:
			return val{s: "(" + a.s + " &&& " + b.s + ")", g: g, t: rt}
		case token.OR:
			return val{s: "(" + a.s + " ||| " + b.s + ")", g: g, t: rt}
		case token.XOR:
			return val{s: "(" + a.s + " ^^^ " + b.s + ")", g: g, t: rt}
		case token.AND_NOT:
			return val{s: "(" + a.s + " &&& ~~~" + b.s + ")", g: g, t: rt}
		case token.SHL, token.SHR:
			op := " <<< "
			if e.Op == token.SHR {
				op = " >>> "
			}
			if b.cv != nil {
				c, ok := constant.Int64Val(constant.ToInt(b.cv))
				if !ok || c < 0 {
					f.unsupported(e, "shift count")
				}
				if int(c) >= w {
					return val{s: "(0 : " + u + ")", g: g, t: rt}
				}
				return val{s: fmt.Sprintf("(%s%s(%d : %s))", a.s, op, c, u), g: g, t: rt}
			}
			// Go: a count ≥ width gives 0; Lean's fixed-width shifts reduce the count modulo the width
			cnt, cg := f.toNatIdx(b, e.Y)
			g = append(g, cg...)
			return val{s: fmt.Sprintf("(if %s < %d then %s%s(%s.ofNat %s) else 0)", cnt, w, a.s, op, u, cnt), g: g, t: rt}
		}
	case kSigned:
		bothNat := a.nat && (b.nat || kindOf(b.t) != kSigned)
		w := intWidth(rt)
		switch e.Op {
		case token.ADD, token.MUL:
			if bothNat {
				return val{s: "(" + a.s + " " + e.Op.String() + " " + b.s + ")", g: g, t: rt, nat: true}
			}
			return val{s: "(" + f.toInt(a) + " " + e.Op.String() + " " + f.toInt(b) + ")", g: g, t: rt}
		case token.SUB:
			return val{s: "(" + f.toInt(a) + " - " + f.toInt(b) + ")", g: g, t: rt}
		case token.QUO, token.REM:
			if bothNat {
				g = append(g, "("+b.s+" != 0)")
				return val{s: "(" + a.s + " " + e.Op.String() + " " + b.s + ")", g: g, t: rt, nat: true}
			}
			fn := "Int.tdiv"
			if e.Op == token.REM {
				fn = "Int.tmod"
			}
			g = append(g, "("+f.toInt(b)+" != 0)")
			return val{s: "(" + fn + " " + f.toInt(a) + " " + f.toInt(b) + ")", g: g, t: rt}
		case token.AND, token.OR, token.XOR:
			if bothNat {
				op := map[token.Token]string{token.AND: " &&& ", token.OR: " ||| ", token.XOR: " ^^^ "}[e.Op]
				return val{s: "(" + a.s + op + b.s + ")", g: g, t: rt, nat: true}
			}
			fn := map[token.Token]string{token.AND: "Go.andInt", token.OR: "Go.orInt", token.XOR: "Go.xorInt"}[e.Op]
			return val{s: fmt.Sprintf("(%s %d %s %s)", fn, w, f.toInt(a), f.toInt(b)), g: g, t: rt}
		case token.SHL, token.SHR:
			cnt, cg := f.toNatIdx(b, e.Y)
			g = append(g, cg...)
			if e.Op == token.SHR {
				// arithmetic shift: exact on Int (floor division by a power of two)
				return val{s: "(" + a.s + " >>> " + cnt + ")", g: g, t: rt, nat: a.nat}
			}
			if a.nat {
				return val{s: "(" + a.s + " <<< " + cnt + ")", g: g, t: rt, nat: true}
			}
			return val{s: "(" + a.s + " * 2 ^ " + cnt + ")", g: g, t: rt}
		}
	}
	f.unsupported(e, "binary %s on %s", e.Op, a.t)
	return val{}
}

// conv converts v to Go type `to` (explicit conversion or assignment
// compatibility); the result is in the default representation of `to`
// (signed → as computed, i.e. possibly Nat).
func (f *fn) conv(v val, to types.Type, n ast.Node) string {
	return f.convVal(v, to, n).s
}

func (f *fn) convVal(v val, to types.Type, n ast.Node) val {
	if v.isNil {
		switch kindOf(to) {
		case kBytes, kSlice, kMap, kErr:
			return val{s: f.x.zero(to, false), t: to}
		}
		f.unsupported(n, "nil of type %s", to)
	}
	kf, kt := kindOf(v.t), kindOf(to)
	r := val{g: v.g, t: to}
	switch {
	case kt == kSigned && kf == kSigned:
		// widths are not represented: int64 → int32 etc. is the identity on Int
		r.s, r.nat, r.cv = v.s, v.nat, v.cv
	case kt == kSigned && kf == kUnsigned:
		if intWidth(to) < intWidth(v.t) {
			// narrowing: Go keeps the low bits and reads them as two's complement
			r.s = fmt.Sprintf("(BitVec.ofNat %d (%s).toNat).toInt", intWidth(to), v.s)
		} else {
			// same width (uint64 → int): values ≥ 2^63 would turn negative in Go; not represented
			r.s, r.nat = "("+v.s+").toNat", true
		}
	case kt == kUnsigned && kf == kSigned:
		u := uintName(to)
		if v.nat {
			r.s = "(" + u + ".ofNat " + v.s + ")"
		} else {
			r.s = "(" + u + ".ofInt " + v.s + ")"
		}
	case kt == kUnsigned && kf == kUnsigned:
		if intWidth(v.t) == intWidth(to) {
			r.s = v.s
		} else {
			r.s = "(" + v.s + ")." + "to" + uintName(to)
		}
	case (kt == kBytes || kt == kString) && (kf == kBytes || kf == kString):
		r.s = v.s
	case kt == kf && (kt == kBool || kt == kErr):
		r.s = v.s
	case kt == kErr && v.cv != nil && (kf == kUnsigned || kf == kSigned):
		// a constant of a named integer type that implements `error`, boxed into the interface
		nt, ok := v.t.(*types.Named)
		iv, ok2 := constant.Uint64Val(constant.ToInt(v.cv))
		if !ok || !ok2 {
			f.unsupported(n, "conversion from %s to error", v.t)
		}
		r.s = fmt.Sprintf("(Err.val %q %d)", nt.Obj().Pkg().Name()+"."+nt.Obj().Name(), iv)
	case kt == kStruct && kf == kStruct && types.Identical(deref(v.t), deref(to)):
		r.s = v.s
	case kt == kSlice && kf == kSlice, kt == kMap && kf == kMap:
		r.s = v.s
	case kt == kIface && f.x.ifaceAbs(to) != "" && kf == kIface:
		r.s = v.s
	default:
		f.unsupported(n, "conversion from %s to %s", v.t, to)
	}
	return r
}

func (f *fn) compositeLit(e *ast.CompositeLit) val {
	t := f.typeOf(e)
	switch kindOf(t) {
	case kStruct:
		si := f.x.structOf(t)
		set := map[string]val{}
		var g []string
		for i, el := range e.Elts {
			if kv, ok := el.(*ast.KeyValueExpr); ok {
				id, ok := kv.Key.(*ast.Ident)
				if !ok {
					f.unsupported(kv, "struct literal key")
				}
				v := f.expr(kv.Value)
				set[id.Name] = v
				g = append(g, v.g...)
			} else {
				v := f.expr(el)
				set[si.fields[i].name] = v
				g = append(g, v.g...)
			}
		}
		var parts []string
		for _, fi := range si.fields {
			v, ok := set[fi.name]
			if fi.skipped != "" {
				if ok {
					f.unsupported(e, "literal sets field %s, which is not represented (%s)", fi.name, fi.skipped)
				}
				continue
			}
			if ok {
				cv := f.convVal(v, fi.typ, e)
				parts = append(parts, f.as(cv, false, e))
			} else {
				parts = append(parts, f.x.zero(fi.typ, false))
			}
		}
		return val{s: "(⟨" + strings.Join(parts, ", ") + "⟩ : " + si.lean + ")", g: g, t: t}
	case kBytes, kSlice:
		el := deref(t).Underlying().(*types.Slice).Elem()
		var parts, g []string
		for _, x := range e.Elts {
			if _, ok := x.(*ast.KeyValueExpr); ok {
				f.unsupported(x, "keyed slice literal")
			}
			v := f.expr(x)
			g = append(g, v.g...)
			parts = append(parts, f.as(f.convVal(v, el, x), false, x))
		}
		return val{s: "([" + strings.Join(parts, ", ") + "] : " + f.x.leanType(t, false) + ")", g: g, t: t}
	}
	f.unsupported(e, "composite literal of %s", t)
	return val{}
}

// calleeOf resolves the function object a call refers to (nil for builtins,
// conversions and function values)
func (f *fn) calleeOf(c *ast.CallExpr) *types.Func {
	var id *ast.Ident
	switch fun := c.Fun.(type) {
	case *ast.Ident:
		id = fun
	case *ast.SelectorExpr:
		id = fun.Sel
	default:
		return nil
	}
	fo, _ := f.pkg.info.Uses[id].(*types.Func)
	return fo
}

// isErrorMaker: fmt.Errorf / errors.New
func isErrorMaker(fo *types.Func) bool {
	if fo == nil || fo.Pkg() == nil {
		return false
	}
	return (fo.Pkg().Path() == "fmt" && fo.Name() == "Errorf") || (fo.Pkg().Path() == "errors" && fo.Name() == "New")
}

func (f *fn) callExpr(c *ast.CallExpr) val {
	info := f.pkg.info
	// conversion T(x)
	if tv, ok := info.Types[c.Fun]; ok && tv.IsType() {
		if len(c.Args) != 1 {
			f.unsupported(c, "conversion with %d arguments", len(c.Args))
		}
		return f.convVal(f.expr(c.Args[0]), tv.Type, c)
	}
	// builtins
	if id, ok := c.Fun.(*ast.Ident); ok {
		if b, ok := info.Uses[id].(*types.Builtin); ok {
			switch b.Name() {
			case "len":
				a := f.expr(c.Args[0])
				switch kindOf(a.t) {
				case kBytes, kSlice, kString, kMap:
					return val{s: a.s + ".length", g: a.g, t: types.Typ[types.Int], nat: true}
				}
				f.unsupported(c, "len of %s", a.t)
			case "make":
				return f.makeExpr(c)
			case "append":
				a := f.expr(c.Args[0])
				if c.Ellipsis != token.NoPos {
					b := f.expr(c.Args[1])
					return val{s: "(" + a.s + " ++ " + b.s + ")", g: append(append([]string{}, a.g...), b.g...), t: a.t}
				}
				el := deref(a.t).Underlying().(*types.Slice).Elem()
				g := append([]string{}, a.g...)
				var parts []string
				for _, x := range c.Args[1:] {
					v := f.expr(x)
					g = append(g, v.g...)
					parts = append(parts, f.as(f.convVal(v, el, x), false, x))
				}
				return val{s: "(" + a.s + " ++ [" + strings.Join(parts, ", ") + "])", g: g, t: a.t}
			}
			f.unsupported(c, "builtin %s in expression position", b.Name())
		}
	}
	if lv, m := f.absRecv(c); lv != nil {
		if hasSliceParam(m) {
			f.unsupported(c, "observation %s with a byte-slice argument inside an expression (only as a statement or `…, err := x.%s(buf)`)", m.Name(), m.Name())
		}
		of := f.x.observation(lv.abs, m)
		sig := m.Type().(*types.Signature)
		if sig.Results().Len() != 1 {
			f.unsupported(c, "observation with %d results inside an expression", sig.Results().Len())
		}
		text := lv.name + "." + of.lean
		var g []string
		for i, a := range c.Args {
			v := f.expr(a)
			g = append(g, v.g...)
			text += " " + f.as(f.convVal(v, sig.Params().At(i).Type(), a), false, a)
		}
		if len(c.Args) > 0 {
			text = "(" + text + ")"
		}
		return val{s: text, g: g, t: sig.Results().At(0).Type()}
	}
	fo := f.calleeOf(c)
	if isErrorMaker(fo) {
		// the arguments are evaluated for what they can do (panic, change a receiver); the text is dropped
		var g []string
		for _, a := range c.Args[1:] {
			if ac, ok := a.(*ast.CallExpr); ok {
				if lv, m := f.absRecv(ac); lv != nil && !hasSliceParam(m) {
					continue // an observation: no effect
				}
			}
			g = append(g, f.expr(a).g...)
		}
		return val{s: "Err.dyn", g: g, t: f.typeOf(c)}
	}
	if fo != nil {
		if sv := f.x.special(f, c, fo); sv != nil {
			return *sv
		}
		ci := f.x.translate(fo, f, c)
		if len(ci.resTypes) != 1 {
			f.unsupported(c, "call of %s with %d results inside an expression", ci.lean, len(ci.resTypes))
		}
		if len(ci.inout) != 0 {
			f.unsupported(c, "call of %s, which writes a slice argument, inside an expression (only `x := f(…)`, `x = f(…)`, `f(…)`, `return f(…)` are supported for such functions)", ci.lean)
		}
		if ci.mutates {
			f.checkEvalOrder(c)
		}
		if !ci.pure || ci.mutates {
			// Res-valued: evaluate before the expression (Go evaluates calls left to right)
			name := fmt.Sprintf("c%d", f.tmpN)
			f.tmpN++
			g := f.hoistCall(c, ci, []string{name})
			return val{s: name, g: g, t: ci.resTypes[0], nat: ci.resNat[0]}
		}
		s, g := f.callText(c, ci)
		return val{s: "(" + s + ")", g: g, t: ci.resTypes[0], nat: ci.resNat[0]}
	}
	f.unsupported(c, "call")
	return val{}
}

// checkEvalOrder: a call that changes its receiver inside an expression.  Go
// orders calls left to right but leaves the order between a call and a plain
// read of a variable open; so the statement must not also read the receiver's
// variable outside method-call receivers.
func (f *fn) checkEvalOrder(c *ast.CallExpr) {
	sel, ok := c.Fun.(*ast.SelectorExpr)
	if !ok {
		return
	}
	root, _, _ := f.recvPath(sel)
	// innermost statement containing the call
	var stmt ast.Stmt
	ast.Inspect(f.decl.Body, func(n ast.Node) bool {
		if n == nil || n.Pos() > c.Pos() || n.End() < c.End() {
			return n != nil && n.Pos() <= c.Pos() && n.End() >= c.End()
		}
		if s, ok := n.(ast.Stmt); ok {
			if _, isBlock := s.(*ast.BlockStmt); !isBlock {
				stmt = s
			}
		}
		return true
	})
	if stmt == nil {
		return
	}
	// parents inside the statement header (not descending into nested blocks)
	parent := map[ast.Node]ast.Node{}
	var stack []ast.Node
	ast.Inspect(stmt, func(n ast.Node) bool {
		if n == nil {
			stack = stack[:len(stack)-1]
			return false
		}
		if _, isBlock := n.(*ast.BlockStmt); isBlock {
			return false
		}
		if len(stack) > 0 {
			parent[n] = stack[len(stack)-1]
		}
		stack = append(stack, n)
		return true
	})
	for n := range parent {
		id, ok := n.(*ast.Ident)
		if !ok {
			continue
		}
		v, ok := f.pkg.info.Uses[id].(*types.Var)
		if !ok || f.vars[v] != root {
			continue
		}
		// climb through field selectors; fine if we end as the receiver of a call
		cur := ast.Node(id)
		okRecv := false
		for {
			p := parent[cur]
			se, isSel := p.(*ast.SelectorExpr)
			if !isSel || se.X != cur {
				break
			}
			if call, isCall := parent[se].(*ast.CallExpr); isCall && call.Fun == se {
				okRecv = true
				break
			}
			cur = se
		}
		if !okRecv {
			f.unsupported(c, "%s changes its receiver and the same statement reads %s outside a method call: Go leaves the order of evaluation open", exprStr(c.Fun), root.name)
		}
	}
}

// (no longer used: arguments of error constructors are evaluated for their effects)
func (f *fn) checkPureArg(e ast.Expr) {
	ast.Inspect(e, func(n ast.Node) bool {
		switch n := n.(type) {
		case *ast.IndexExpr, *ast.SliceExpr, *ast.StarExpr, *ast.TypeAssertExpr:
			f.unsupported(n, "argument of an error constructor that could panic")
		case *ast.CallExpr:
			if tv, ok := f.pkg.info.Types[n.Fun]; ok && tv.IsType() {
				return true
			}
			if id, ok := n.Fun.(*ast.Ident); ok {
				if _, ok := f.pkg.info.Uses[id].(*types.Builtin); ok && id.Name == "len" {
					return true
				}
			}
			if lv, m := f.absRecv(n); lv != nil && !hasSliceParam(m) {
				return true
			}
			fo := f.calleeOf(n)
			if fo == nil {
				f.unsupported(n, "call inside an error constructor")
			}
			ci := f.x.translate(fo, f, n)
			if !ci.pure || ci.mutates {
				f.unsupported(n, "effectful call inside an error constructor")
			}
		}
		return true
	})
}

// callText renders a call of a translated function: receiver, fuel, arguments.
func (f *fn) callText(c *ast.CallExpr, ci *fnInfo) (string, []string) {
	var g []string
	parts := []string{ci.lean}
	if ci.fuel {
		f.needFuel = true
		parts = append(parts, "fuel")
	}
	if ci.recv != nil {
		sel, ok := c.Fun.(*ast.SelectorExpr)
		if !ok {
			f.unsupported(c, "method call without selector")
		}
		rv := f.recvExpr(sel)
		g = append(g, rv.g...)
		parts = append(parts, rv.s)
	}
	sig := ci.key.Type().(*types.Signature)
	if sig.Variadic() {
		f.unsupported(c, "variadic call")
	}
	if len(c.Args) != len(ci.params) {
		f.unsupported(c, "call passes a multi-value result as arguments")
	}
	for i, a := range c.Args {
		v := f.expr(a)
		g = append(g, v.g...)
		cv := f.convVal(v, ci.params[i].typ, a)
		parts = append(parts, f.as(cv, ci.params[i].nat, a))
	}
	return strings.Join(parts, " "), g
}

// recvExpr: the receiver value of a method call x.m(…), following promotion
// through embedded fields
func (f *fn) recvExpr(sel *ast.SelectorExpr) val {
	s, ok := f.pkg.info.Selections[sel]
	if !ok {
		f.unsupported(sel, "method selection")
	}
	base := f.expr(sel.X)
	ix := s.Index()
	str, t := f.fieldPath(sel, base.s, base.t, ix[:len(ix)-1])
	return val{s: str, g: base.g, t: t}
}

func (f *fn) makeExpr(c *ast.CallExpr) val {
	t := f.typeOf(c)
	switch kindOf(t) {
	case kBytes, kSlice:
		if len(c.Args) < 2 {
			f.unsupported(c, "make without length")
		}
		n := f.expr(c.Args[1])
		ns, ng := f.toNatIdx(n, c.Args[1])
		el := deref(t).Underlying().(*types.Slice).Elem()
		// a capacity argument is ignored (capacity is not represented)
		return val{s: "(List.replicate " + ns + " " + f.x.zero(el, false) + ")", g: append(append([]string{}, n.g...), ng...), t: t}
	case kMap:
		return val{s: f.x.zero(t, false), t: t}
	}
	f.unsupported(c, "make of %s", t)
	return val{}
}
