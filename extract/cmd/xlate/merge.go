package main

// Confinement of translation failures.
//
// The generated file is a sequence of blocks between marker comments
//
//	-- DEF func service.service.peekMessageSize
//	…auxiliary definitions, doc comment, definition…
//	-- END DEF func service.service.peekMessageSize
//
// of four kinds: `func` (a whitelisted function), `type` (a struct the functions
// use), `var` (a package-level map read as a constant), `iface` (an abstracted
// interface).  The baseline (extract/baseline/Xlate.lean) is exactly what the
// translator writes for the unchanged repository (bin/mkbaseline, -strict).
//
// main:
//  1. probe: every whitelisted function is translated on its own (with the
//     functions it calls).  A function fails if it, or a function it calls,
//     is outside the subset; the culprit is the function the error names.
//  2. generate: the functions that passed are translated together, as always.
//  3. merge (only if something failed): the failed functions keep their
//     baseline text.  A block a baseline text refers to must then have the text
//     it had in the baseline too, and a generated block that refers to such a
//     block cannot stay generated (it was produced against the other shape):
//     both are pinned to the baseline as well, to a fixpoint.  Every pinned
//     block is reported, under the culprit that caused it, in
//     xlate_report.json with the Lean names it defines; bin/check turns the
//     report into broken obligations of the properties that use those names.
//     The blocks are then ordered definition-before-use (stable with respect
//     to the baseline order).
//
// Exit status: 0 everything regenerated; 4 output complete but partly the
// baseline's (see the report); 3 fatal, no output (usage, I/O, -strict, or a
// failure for which the baseline has no text).

import (
	"bytes"
	"encoding/json"
	"flag"
	"fmt"
	"go/types"
	"os"
	"path"
	"path/filepath"
	"regexp"
	"runtime/debug"
	"sort"
	"strings"
)

const (
	exitFatal   = 3
	exitPartial = 4
)

type block struct {
	kind, name string
	text       string
	summary    string // func blocks: the line of the header's list
}

func (b *block) id() string { return b.kind + " " + b.name }

func norm(s string) string { return strings.TrimRight(s, "\n") }

func newXlator(ld *loader) *xlator {
	x := &xlator{ld: ld, allowed: map[string]bool{}, funcs: map[string]*fnInfo{},
		structs: map[*types.Named]*structInfo{}, pkgMaps: map[*types.Var]string{}, ifaces: map[string]*ifaceInfo{}}
	for _, t := range whitelist {
		x.allowed[key(x.pkgPath(t), t.recv, t.name)] = true
	}
	return x
}

// rootName: the Go name of a whitelisted function as it appears in messages and markers
func rootName(t target) string {
	s := path.Base(strings.TrimPrefix(t.pkg, "std:")) + "."
	if t.recv != "" {
		s += t.recv + "."
	}
	return s + t.name
}

func (x *xlator) translateRoot(t target) {
	x.where = rootName(t)
	pkg := x.ld.load(x.pkgPath(t))
	decl := pkg.findFunc(t.recv, t.name)
	if decl == nil {
		die("whitelisted function %s.%s.%s not found in %s (renamed or removed?)", t.pkg, t.recv, t.name, pkg.dir)
	}
	fo, ok := pkg.info.Defs[decl.Name].(*types.Func)
	if !ok {
		die("no type information for %s.%s.%s", t.pkg, t.recv, t.name)
	}
	x.translate(fo, nil, nil)
}

type failure struct {
	root    string // whitelisted function that could not be translated
	culprit string // function the error was raised in (the root itself or one it calls)
	msg     string
}

// tryRoot translates one whitelisted function; a die — or a run-time panic of the
// translator on a syntax tree it was not written for — is returned as a failure.
func tryRoot(x *xlator, t target) (f *failure) {
	defer func() {
		if r := recover(); r != nil {
			f = &failure{root: rootName(t), culprit: x.where}
			if xe, ok := r.(xlateError); ok {
				f.msg = xe.msg
				return
			}
			where := ""
			st := strings.Split(string(debug.Stack()), "\n")
			for i, l := range st {
				if strings.HasPrefix(l, "main.") && !strings.HasPrefix(l, "main.tryRoot") && i+1 < len(st) {
					where = " at " + strings.TrimSpace(st[i+1])
					break
				}
			}
			f.msg = fmt.Sprintf("%s: internal error of the translator: %v%s", x.where, r, where)
		}
	}()
	x.translateRoot(t)
	return nil
}

// ---- reading a generated file -----------------------------------------------------------

type genFile struct {
	prelude string
	blocks  []*block
	byID    map[string]*block
	summary map[string]string // Go name -> line of the header's list
}

var defLine = regexp.MustCompile(`^-- (END )?DEF (func|type|var|iface) (\S+)$`)
var summaryLine = regexp.MustCompile(`^  \S+  ⇐  (\S+) \(`)

const nsLine = "namespace Mqtt.Generated.Xlate\n\n"

func readGenerated(file string) (*genFile, error) {
	data, err := os.ReadFile(file)
	if err != nil {
		return nil, err
	}
	g := &genFile{byID: map[string]*block{}, summary: map[string]string{}}
	src := string(data)
	i := strings.Index(src, nsLine)
	if i < 0 {
		return nil, fmt.Errorf("%s: no namespace line", file)
	}
	for _, l := range strings.Split(src[:i], "\n") {
		if m := summaryLine.FindStringSubmatch(l); m != nil {
			g.summary[m[1]] = strings.TrimPrefix(l, "  ")
		}
	}
	var cur *block
	var b strings.Builder
	seenDef := false
	for _, l := range strings.SplitAfter(src[i+len(nsLine):], "\n") {
		m := defLine.FindStringSubmatch(strings.TrimRight(l, "\n"))
		switch {
		case m != nil && m[1] == "" && cur == nil:
			seenDef = true
			cur = &block{kind: m[2], name: m[3]}
			b.Reset()
		case m != nil && m[1] != "" && cur != nil && cur.kind == m[2] && cur.name == m[3]:
			cur.text = b.String() + "\n"
			cur.summary = g.summary[cur.name]
			if g.byID[cur.id()] != nil {
				return nil, fmt.Errorf("%s: block %s occurs twice", file, cur.id())
			}
			g.blocks = append(g.blocks, cur)
			g.byID[cur.id()] = cur
			cur = nil
		case m != nil:
			return nil, fmt.Errorf("%s: unbalanced marker %q", file, strings.TrimSpace(l))
		case cur != nil:
			b.WriteString(l)
		case !seenDef:
			g.prelude += l
		}
	}
	if cur != nil {
		return nil, fmt.Errorf("%s: block %s is not closed", file, cur.id())
	}
	return g, nil
}

// ---- which block refers to which ----------------------------------------------------------

var blockComment = regexp.MustCompile(`(?s)/-.*?-/`)
var lineComment = regexp.MustCompile(`--[^\n]*`)
var identRe = regexp.MustCompile(`[A-Za-z_][A-Za-z0-9_'!?]*(?:\.[A-Za-z_][A-Za-z0-9_'!?]*)*`)
var declRe = regexp.MustCompile(`(?m)^(?:def|abbrev|structure|inductive|theorem|class)\s+([^\s:({\[]+)`)

func code(text string) string {
	return lineComment.ReplaceAllString(blockComment.ReplaceAllString(text, " "), "")
}

// defsOf: the names (relative to Mqtt.Generated.Xlate) a block declares
func defsOf(text string) []string {
	var r []string
	for _, m := range declRe.FindAllStringSubmatch(code(text), -1) {
		r = append(r, m[1])
	}
	return r
}

func tokensOf(text string) []string {
	seen := map[string]bool{}
	var r []string
	for _, t := range identRe.FindAllString(code(text), -1) {
		if !seen[t] {
			seen[t] = true
			r = append(r, t)
		}
	}
	return r
}

// refers: some identifier in toks is one of defs or a name below one (a field, `.zero`, `.loop1`)
func refers(toks, defs []string) bool {
	for _, t := range toks {
		for _, d := range defs {
			if t == d || strings.HasPrefix(t, d+".") {
				return true
			}
		}
	}
	return false
}

// ---- report -----------------------------------------------------------------------------------

type failedFunc struct {
	Function string   `json:"function"`  // the function that is outside the subset (or missing)
	Message  string   `json:"message"`   // the translator's error
	Replaced []string `json:"replaced"`  // blocks that carry the baseline text because of it
	LeanDefs []string `json:"lean_defs"` // the Lean names those blocks define (fully qualified)
}

type report struct {
	Tool     string       `json:"tool"`
	Repo     string       `json:"repo"`
	Output   string       `json:"output"`
	Baseline string       `json:"baseline"`
	Failed   []failedFunc `json:"failed"`
}

func writeReport(file string, r report) {
	if r.Failed == nil {
		r.Failed = []failedFunc{}
	}
	var buf bytes.Buffer
	enc := json.NewEncoder(&buf)
	enc.SetEscapeHTML(false)
	enc.SetIndent("", " ")
	enc.Encode(r)
	if err := os.WriteFile(file, buf.Bytes(), 0o644); err != nil {
		fatal("%v", err)
	}
}

// ---- rendering --------------------------------------------------------------------------------

func render(blocks []*block, notes map[string]string) []byte {
	var o strings.Builder
	o.WriteString("/- GENERATED by /verif/extract/cmd/xlate from the Go sources of /repo — do not edit.\n\n")
	o.WriteString("Lean definitions translated function by function from the Go source (see NOTES-xlate.md\n")
	o.WriteString("for the supported subset and what the translator is trusted for).\n\n")
	o.WriteString("Integer semantics: Go `int`, `int64`, `int32` are unbounded `Int` here (`Nat` for locals that\n")
	o.WriteString("are only ever assigned sums/products/lengths of naturals; a difference `a - b` is always an\n")
	o.WriteString("`Int`). Overflow and wrap-around of signed integers, and truncation by conversions between\n")
	o.WriteString("signed widths, are NOT represented. `byte`, `uint16`, `uint32`, `uint64` are `UInt8` … `UInt64`\n")
	o.WriteString("with exactly Go's wrap-around; `uint` is taken to be 64 bits wide. Slices are lists: capacity,\n")
	o.WriteString("aliasing and the difference between a nil and an empty slice are not represented (slicing\n")
	o.WriteString("beyond the length is a `panic` here even where Go would allow it up to the capacity).\n\n")
	o.WriteString("Translated functions:\n")
	for _, b := range blocks {
		if b.kind != "func" {
			continue
		}
		s := b.summary
		if s == "" {
			s = b.name
		}
		if n := notes[b.id()]; n != "" {
			s += "  — " + n
		}
		o.WriteString("  " + s + "\n")
	}
	o.WriteString("-/\n")
	o.WriteString("set_option linter.unusedVariables false\n\n")
	o.WriteString(nsLine)
	o.WriteString(prelude)
	o.WriteString("\n")
	for _, b := range blocks {
		fmt.Fprintf(&o, "-- DEF %s\n%s\n-- END DEF %s\n\n", b.id(), norm(b.text), b.id())
	}
	o.WriteString("end Mqtt.Generated.Xlate\n")
	return []byte(o.String())
}

// ---- ordering -----------------------------------------------------------------------------------

// order sorts blocks definition-before-use; among the blocks that may come next the one that
// is first in the given sequence is taken (so a sequence that is already in order is kept).
func order(blocks []*block) ([]*block, error) {
	n := len(blocks)
	defs := make([][]string, n)
	toks := make([][]string, n)
	for i, b := range blocks {
		defs[i], toks[i] = defsOf(b.text), tokensOf(b.text)
	}
	deps := make([][]int, n)
	for i := range blocks {
		for j := range blocks {
			if i != j && refers(toks[i], defs[j]) {
				deps[i] = append(deps[i], j)
			}
		}
	}
	done := make([]bool, n)
	var res []*block
	for len(res) < n {
		pick := -1
		for i := 0; i < n && pick < 0; i++ {
			if done[i] {
				continue
			}
			ready := true
			for _, j := range deps[i] {
				if !done[j] {
					ready = false
				}
			}
			if ready {
				pick = i
			}
		}
		if pick < 0 {
			var left []string
			for i, b := range blocks {
				if !done[i] {
					left = append(left, b.id())
				}
			}
			return nil, fmt.Errorf("definitions refer to each other in a cycle: %s", strings.Join(left, ", "))
		}
		done[pick] = true
		res = append(res, blocks[pick])
	}
	return res, nil
}

// ---- main ---------------------------------------------------------------------------------------

func main() {
	fl := flag.NewFlagSet("xlate", flag.ContinueOnError)
	strict := fl.Bool("strict", false, "a function that cannot be translated is fatal (no baseline is consulted)")
	exe, _ := os.Executable()
	baselinePath := fl.String("baseline", filepath.Join(filepath.Dir(exe), "baseline", "Xlate.lean"), "translation of the unchanged repository")
	if err := fl.Parse(os.Args[1:]); err != nil || fl.NArg() != 2 {
		fatal("usage: xlate [-strict] [-baseline <file>] <repo> <out.lean>")
	}
	repo, outPath := strings.TrimRight(fl.Arg(0), "/"), fl.Arg(1)
	reportPath := filepath.Join(filepath.Dir(outPath), "xlate_report.json")
	rep := report{Tool: "xlate", Repo: repo, Output: outPath, Baseline: *baselinePath}
	os.Remove(reportPath) // the report always describes this run

	var ld *loader
	func() {
		defer func() {
			if r := recover(); r != nil {
				if xe, ok := r.(xlateError); ok {
					fatal("%s", xe.msg)
				}
				panic(r)
			}
		}()
		ld = newLoader(repo)
	}()

	// 1. probe every whitelisted function on its own
	failed := map[string]*failure{} // by root name
	var failedOrder []string
	for _, t := range whitelist {
		if f := tryRoot(newXlator(ld), t); f != nil {
			failed[f.root] = f
			failedOrder = append(failedOrder, f.root)
		}
	}
	// 2. translate the others together (a failure here that the probe did not see: exclude the
	// function and start again)
	var x *xlator
	for again := true; again; {
		again = false
		x = newXlator(ld)
		for _, t := range whitelist {
			if failed[rootName(t)] != nil {
				continue
			}
			if f := tryRoot(x, t); f != nil {
				failed[f.root] = f
				failedOrder = append(failedOrder, f.root)
				again = true
				break
			}
		}
	}
	gen := append(x.ifaceDecls(), x.blocks...)

	notes := map[string]string{}
	final := gen
	if len(failed) != 0 {
		said := map[string]bool{}
		for _, r := range failedOrder {
			if m := failed[r].msg; !said[m] {
				said[m] = true
				fmt.Fprintf(os.Stderr, "xlate: %s\n", m)
			}
		}
		if *strict {
			os.Exit(exitFatal)
		}
		base, err := readGenerated(*baselinePath)
		if err != nil {
			fmt.Fprintf(os.Stderr, "xlate: no baseline to fall back on: %v\n", err)
			os.Exit(exitFatal)
		}
		if norm(base.prelude) != norm(prelude) {
			fmt.Fprintf(os.Stderr, "xlate: baseline %s was written by another version of the translator (prelude differs): run bin/mkbaseline\n", *baselinePath)
			os.Exit(exitFatal)
		}
		final = merge(base, gen, failed, failedOrder, notes, &rep)
	}

	data := render(final, notes)
	old, err := os.ReadFile(outPath)
	if err != nil || !bytes.Equal(old, data) { // unchanged: keep lake's cache valid
		if err := os.WriteFile(outPath, data, 0o644); err != nil {
			fatal("%v", err)
		}
	}
	writeReport(reportPath, rep)
	if len(rep.Failed) != 0 {
		os.Exit(exitPartial)
	}
}

// merge: see the comment at the top of the file.  Exits (status 3) when the baseline cannot
// supply a consistent file.
func merge(base *genFile, gen []*block, failed map[string]*failure, failedOrder []string, notes map[string]string, rep *report) []*block {
	giveUp := func(format string, a ...interface{}) {
		fmt.Fprintf(os.Stderr, "xlate: cannot fall back on the baseline: "+format+"\n", a...)
		os.Exit(exitFatal)
	}
	genByID := map[string]*block{}
	for _, b := range gen {
		genByID[b.id()] = b
	}
	pinned := map[string]string{} // block id -> root of the failure that pins it
	var pinOrder []string
	pin := func(id, cause string) {
		if _, ok := pinned[id]; !ok {
			pinned[id] = cause
			pinOrder = append(pinOrder, id)
		}
	}
	for _, r := range failedOrder {
		id := "func " + r
		if base.byID[id] == nil {
			giveUp("the baseline has no translation of %s", r)
		}
		pin(id, r)
	}
	for changed := true; changed; {
		changed = false
		before := len(pinOrder)
		// a baseline text needs what it refers to in the baseline's shape
		for k := 0; k < len(pinOrder); k++ {
			id := pinOrder[k]
			toks := tokensOf(base.byID[id].text)
			for _, c := range base.blocks {
				if _, ok := pinned[c.id()]; ok || c.id() == id || !refers(toks, defsOf(c.text)) {
					continue
				}
				if g := genByID[c.id()]; g == nil || norm(g.text) != norm(c.text) {
					pin(c.id(), pinned[id])
				}
			}
		}
		// a generated text that refers to a pinned block was produced against another shape of it
		for _, g := range gen {
			if _, ok := pinned[g.id()]; ok {
				continue
			}
			toks := tokensOf(g.text)
			for _, id := range pinOrder {
				if refers(toks, defsOf(base.byID[id].text)) {
					if base.byID[g.id()] == nil {
						giveUp("%s is new (not in the baseline) and uses %s, which %s pins to its baseline shape", g.id(), id, pinned[id])
					}
					pin(g.id(), pinned[id])
					break
				}
			}
		}
		changed = len(pinOrder) != before
	}

	// sequence: baseline order; a block the baseline does not have goes in front of the next
	// generated block the baseline has
	var seq []*block
	placed := map[string]bool{}
	pendingNew := map[string][]*block{} // id of a baseline-known generated block -> new blocks generated just before it
	var carry []*block
	for _, g := range gen {
		if base.byID[g.id()] == nil {
			carry = append(carry, g)
			continue
		}
		if _, ok := pinned[g.id()]; !ok && len(carry) != 0 {
			pendingNew[g.id()] = carry
			carry = nil
		}
	}
	for _, b := range base.blocks {
		id := b.id()
		if _, ok := pinned[id]; ok {
			nb := *b
			seq = append(seq, &nb)
			placed[id] = true
		} else if g := genByID[id]; g != nil {
			seq = append(seq, pendingNew[id]...)
			seq = append(seq, g)
			placed[id] = true
		}
	}
	seq = append(seq, carry...)
	res, err := order(seq)
	if err != nil {
		giveUp("%v", err)
	}

	// report: one entry per culprit
	byCulprit := map[string]*failedFunc{}
	var culprits []string
	for _, id := range pinOrder {
		f := failed[pinned[id]]
		e := byCulprit[f.culprit]
		if e == nil {
			e = &failedFunc{Function: f.culprit, Message: f.msg}
			byCulprit[f.culprit] = e
			culprits = append(culprits, f.culprit)
		}
		e.Replaced = append(e.Replaced, id)
		for _, d := range defsOf(base.byID[id].text) {
			e.LeanDefs = append(e.LeanDefs, "Mqtt.Generated.Xlate."+d)
		}
		if strings.HasPrefix(id, "func ") {
			switch {
			case failed[strings.TrimPrefix(id, "func ")] == nil:
				notes[id] = "BASELINE translation kept: consistent only with the baseline translation of " + f.culprit + ", which can no longer be translated"
			case strings.TrimPrefix(id, "func ") == f.culprit:
				notes[id] = "BASELINE translation: the current source can no longer be translated"
			default:
				notes[id] = "BASELINE translation: calls " + f.culprit + ", which can no longer be translated"
			}
		}
		fmt.Fprintf(os.Stderr, "xlate: %s: text taken from the baseline (%s)\n", id, f.culprit)
	}
	sort.Strings(culprits)
	for _, c := range culprits {
		rep.Failed = append(rep.Failed, *byCulprit[c])
	}
	return res
}
