// xlate — translates a whitelisted set of functions of the Go library under
// verification (a small, explicitly listed subset of Go) into Lean 4
// definitions: lean/Mqtt/Generated/Xlate.lean, regenerated on every check.
// Theorems in lean/Mqtt/Properties/*.lean state that the regenerated
// definitions equal the hand-written model functions.
//
// Anything outside the subset is an error: the translator names the function
// and the syntax node (never a default, never a guess).  The error is confined
// to the function it occurs in and the functions that call it: their
// definitions are taken from the committed baseline translation
// (extract/baseline/Xlate.lean), the failure is recorded in xlate_report.json
// next to the output and the exit status is 4 (merge.go).  Without a baseline,
// or with -strict, the error is fatal as before (exit 3, no output).
//
//	xlate [-strict] [-baseline <file>] <repo> <out.lean>
package main

import (
	"fmt"
	"go/ast"
	"go/build"
	"go/constant"
	"go/token"
	"go/types"
	"os"
	"strings"
)

// xlateError is what die panics with; tryRoot (merge.go) recovers it.
type xlateError struct{ msg string }

// die: the function being translated (x.where) is outside the supported subset.
func die(format string, a ...interface{}) {
	panic(xlateError{fmt.Sprintf(format, a...)})
}

// fatal: usage and I/O errors.
func fatal(format string, a ...interface{}) {
	fmt.Fprintf(os.Stderr, "xlate: "+format+"\n", a...)
	os.Exit(exitFatal)
}

var constantOne = constant.MakeInt64(1)

// target names one whitelisted function: import path relative to the module
// ("" prefix) or a standard-library path, receiver base type, name.
type target struct {
	pkg  string // "topics", "sessions", …; "std:encoding/binary" for GOROOT
	recv string
	name string
}

type lvar struct {
	obj     *types.Var
	name    string
	typ     types.Type
	nat     bool
	isParam bool
	inout   bool       // slice parameter whose elements the function writes: returned to the caller
	leanT   string     // non-empty: Lean type given directly (external operations, abstracted interface values)
	abs     *ifaceInfo // the variable holds a value of an abstracted interface (possibly narrowed by a type switch / assertion)
}

// externFields: struct fields holding an object that is not translated.  A
// function that calls a method on such a field, or compares it with nil, takes
// the method (as a function that may not return: `Option`) / the nil-ness as an
// argument.  The same argument is used for every call in the function, i.e. the
// external object is taken not to change while the function runs.
var externFields = map[string]bool{
	"service.service.in": true,
}

type fnInfo struct {
	key      *types.Func
	lean     string
	goName   string
	pure     bool // plain value; otherwise Res
	mutates  bool // returns the new receiver first
	fuel     bool // takes a leading `fuel : Nat`
	recv     *lvar
	params   []*lvar
	resTypes []types.Type
	resNat   []bool
	inout    []int   // indices of in-out slice parameters (returned after the receiver, before the results)
	externs  []*lvar // external operations taken as arguments (after fuel, before the receiver)
	done     bool
}

type fn struct {
	x      *xlator
	pkg    *pkgInfo
	decl   *ast.FuncDecl
	info   *fnInfo
	goName string

	vars  map[*types.Var]*lvar
	order []*lvar
	uses  map[*lvar][]token.Pos
	names map[string]int

	pureMode     bool
	usedPanic    bool
	usedFuel     bool
	usedBind     bool
	needFuel     bool
	escaped      bool
	aux          []string
	loopN        int
	joinN        int
	loopBinders  []scopeBinder
	tmpN         int
	outerLoop    token.Pos
	pendingLabel string
	binds        map[string]*bindInfo
	externByName map[string]*lvar
	body         string
}

type xlator struct {
	ld         *loader
	where      string
	allowed    map[string]bool // "pkgpath recv name"
	funcs      map[string]*fnInfo
	structs    map[*types.Named]*structInfo
	pkgMaps    map[*types.Var]string
	ifaces     map[string]*ifaceInfo
	ifaceOrder []*ifaceInfo
	blocks     []*block // generated definitions in the order they were produced (merge.go)
}

// emit appends one block of generated text: kind "func" (a translated function with its
// auxiliary definitions), "type" (a structure), "var" (a package-level map read as a constant)
func (x *xlator) emit(kind, name, text, summary string) {
	x.blocks = append(x.blocks, &block{kind: kind, name: name, text: text, summary: summary})
}

func key(pkgPath, recv, name string) string { return pkgPath + " " + recv + " " + name }

func recvBase(fo *types.Func) string {
	sig := fo.Type().(*types.Signature)
	if sig.Recv() == nil {
		return ""
	}
	if n, ok := deref(sig.Recv().Type()).(*types.Named); ok {
		return n.Obj().Name()
	}
	return "?"
}

func (x *xlator) pkgPath(t target) string {
	if strings.HasPrefix(t.pkg, "std:") {
		return strings.TrimPrefix(t.pkg, "std:")
	}
	return x.ld.modPath + "/" + t.pkg
}

// translate returns the translation of fo, translating it first if necessary.
// from/at: the calling function and call site (nil for whitelist roots).
func (x *xlator) translate(fo *types.Func, from *fn, at ast.Node) *fnInfo {
	fo = fo.Origin()
	if fo.Pkg() == nil {
		die("%s: call of %s", x.where, fo.FullName())
	}
	k := key(fo.Pkg().Path(), recvBase(fo), fo.Name())
	if fi, ok := x.funcs[k]; ok {
		if !fi.done {
			die("%s: recursion through %s is outside the supported subset", x.where, fi.lean)
		}
		return fi
	}
	if !x.allowed[k] {
		if from != nil {
			from.unsupported(at, "call of %s, which is not on the translator's whitelist", fo.FullName())
		}
		die("%s not whitelisted", fo.FullName())
	}
	pkg := x.ld.load(fo.Pkg().Path())
	decl := pkg.findFunc(recvBase(fo), fo.Name())
	if decl == nil {
		die("%s: no declaration with a body for %s", x.where, fo.FullName())
	}
	// the object of the package as loaded here (a standard-library package reached through an
	// import of another package is a different type-checked instance)
	if own, ok := pkg.info.Defs[decl.Name].(*types.Func); ok {
		fo = own
	}
	saveWhere := x.where
	fi := x.translateDecl(pkg, decl, fo)
	x.where = saveWhere
	return fi
}

func (x *xlator) translateDecl(pkg *pkgInfo, decl *ast.FuncDecl, fo *types.Func) *fnInfo {
	goName := pkg.name + "."
	if r := recvBase(fo); r != "" {
		goName += r + "."
	}
	goName += fo.Name()
	x.where = goName
	lean := x.pkgPrefix(fo.Pkg()) + "."
	if r := recvBase(fo); r != "" {
		lean += leanIdent(r) + "."
	}
	lean += leanIdent(fo.Name())
	info := &fnInfo{key: fo, lean: lean, goName: goName}
	x.funcs[key(fo.Pkg().Path(), recvBase(fo), fo.Name())] = info

	sig := fo.Type().(*types.Signature)
	if sig.TypeParams() != nil || sig.Variadic() {
		die("%s: generic / variadic functions are outside the supported subset", goName)
	}

	var final *fn
	for _, pure := range []bool{false, true} {
		f := &fn{x: x, pkg: pkg, decl: decl, info: info, goName: goName,
			vars: map[*types.Var]*lvar{}, uses: map[*lvar][]token.Pos{}, names: map[string]int{}, pureMode: pure}
		f.declare()
		f.analyse()
		body := f.stmts(decl.Body.List, func() string {
			if len(info.resTypes) != 0 {
				f.unsupported(decl, "control reaches the end of a function with results")
			}
			return f.retText(nil, decl)
		}, nil)
		final = f
		f.body = body
		if pure {
			break
		}
		if f.usedPanic || f.usedFuel || f.usedBind {
			break
		}
		// nothing can go wrong: translate again as a plain function
	}
	f := final
	info.pure = f.pureMode
	info.fuel = f.needFuel
	var b strings.Builder
	for _, a := range f.aux {
		b.WriteString(a + "\n")
	}
	p := fset.Position(decl.Pos())
	rel := strings.TrimPrefix(p.Filename, x.ld.repo+"/")
	if gr := build.Default.GOROOT; strings.HasPrefix(rel, gr+"/") {
		rel = "$GOROOT/" + strings.TrimPrefix(rel, gr+"/")
	}
	fmt.Fprintf(&b, "/-- Go: `%s` (%s)", goName, rel)
	if info.mutates {
		b.WriteString("; returns the receiver after the call first")
	}
	if !info.pure {
		b.WriteString("; `Res`: can panic")
		if f.usedFuel {
			b.WriteString(" / contains a `for` loop with an iteration budget")
		}
	}
	b.WriteString(" -/\n")
	fmt.Fprintf(&b, "def %s", lean)
	if info.fuel {
		b.WriteString(" (fuel : Nat)")
	}
	b.WriteString(f.binders(info.externs))
	if info.recv != nil {
		b.WriteString(f.binders([]*lvar{info.recv}))
	}
	b.WriteString(f.binders(info.params))
	fmt.Fprintf(&b, " : %s :=\n%s\n\n", f.resultType(), indent(f.body))
	info.done = true
	mode := "total"
	if !info.pure {
		mode = "Res"
	}
	if info.fuel {
		mode += "+fuel"
	}
	if info.mutates {
		mode += ", threads receiver"
	}
	if len(info.inout) != 0 {
		mode += ", returns written slice argument"
	}
	x.emit("func", goName, b.String(), fmt.Sprintf("%s  ⇐  %s (%s)  [%s]", lean, goName, rel, mode))
	return info
}

// externField: e selects a struct field that holds an external object
func (f *fn) externField(e ast.Expr) *fieldInfo {
	sel, ok := e.(*ast.SelectorExpr)
	if !ok {
		return nil
	}
	s, ok := f.pkg.info.Selections[sel]
	if !ok || s.Kind() != types.FieldVal {
		return nil
	}
	t := f.typeOf(sel.X)
	ix := s.Index()
	for i, j := range ix {
		if kindOf(t) != kStruct {
			return nil
		}
		si := f.x.structOf(t)
		fi := si.fields[j]
		if i == len(ix)-1 {
			if fi.extern {
				return fi
			}
			return nil
		}
		t = fi.typ
	}
	return nil
}

func (f *fn) isExternCall(c *ast.CallExpr) bool {
	sel, ok := c.Fun.(*ast.SelectorExpr)
	return ok && f.externField(sel.X) != nil
}

func (f *fn) addExtern(name, leanT string) *lvar {
	if lv, ok := f.externByName[name]; ok {
		return lv
	}
	lv := &lvar{name: leanIdent(name), isParam: true, leanT: leanT}
	f.externByName[name] = lv
	f.info.externs = append(f.info.externs, lv)
	return lv
}

func (f *fn) newVar(o *types.Var, isParam bool) *lvar {
	if lv, ok := f.vars[o]; ok {
		return lv
	}
	base := leanIdent(o.Name())
	n := f.names[base]
	f.names[base] = n + 1
	name := base
	if n > 0 {
		name = fmt.Sprintf("%s_%d", base, n)
	}
	lv := &lvar{obj: o, name: name, typ: o.Type(), isParam: isParam}
	if kindOf(o.Type()) == kSigned {
		lv.nat = !isParam // parameters can be negative; locals start as Nat and are demoted by the analysis
	}
	f.vars[o] = lv
	f.order = append(f.order, lv)
	return lv
}

// declare creates the Lean variables: receiver, parameters, every variable
// defined in the body (one Lean name per Go variable object)
func (f *fn) declare() {
	sig := f.info.key.Type().(*types.Signature)
	f.info.params = nil
	f.info.recv = nil
	if r := sig.Recv(); r != nil {
		if r.Name() == "" || r.Name() == "_" {
			f.unsupported(f.decl, "unnamed receiver")
		}
		f.info.recv = f.newVar(r, true)
		f.info.recv.nat = false
	}
	for i := 0; i < sig.Params().Len(); i++ {
		p := sig.Params().At(i)
		if p.Name() == "" || p.Name() == "_" {
			// unused parameter: still part of the signature
			lv := &lvar{obj: p, name: fmt.Sprintf("arg%d", i), typ: p.Type(), isParam: true}
			f.info.params = append(f.info.params, lv)
			continue
		}
		f.info.params = append(f.info.params, f.newVar(p, true))
	}
	f.info.resTypes = nil
	for i := 0; i < sig.Results().Len(); i++ {
		r := sig.Results().At(i)
		if r.Name() != "" && r.Name() != "_" {
			f.unsupported(f.decl, "named result %s", r.Name())
		}
		f.info.resTypes = append(f.info.resTypes, r.Type())
	}
	// variables defined in the body, in source order
	var ids []*ast.Ident
	ast.Inspect(f.decl.Body, func(n ast.Node) bool {
		if id, ok := n.(*ast.Ident); ok {
			ids = append(ids, id)
		}
		return true
	})
	for _, id := range ids {
		if o, ok := f.pkg.info.Defs[id].(*types.Var); ok && id.Name != "_" {
			f.newVar(o, false)
		}
	}
	// values of abstracted interfaces: parameters/variables of the interface type, the symbol of
	// a type switch over such a value (an alias of it), the result of a type assertion on it
	for _, lv := range f.order {
		if ii := f.x.ifaceOf(lv.typ); ii != nil {
			lv.abs = ii
		}
	}
	ast.Inspect(f.decl.Body, func(n ast.Node) bool {
		switch n := n.(type) {
		case *ast.TypeSwitchStmt:
			var ta *ast.TypeAssertExpr
			switch a := n.Assign.(type) {
			case *ast.AssignStmt:
				ta, _ = a.Rhs[0].(*ast.TypeAssertExpr)
			case *ast.ExprStmt:
				ta, _ = a.X.(*ast.TypeAssertExpr)
			}
			if ta == nil {
				f.unsupported(n, "type switch")
			}
			id, ok := ta.X.(*ast.Ident)
			if !ok {
				f.unsupported(n, "type switch on an expression that is not a variable")
			}
			src := f.lvarOf(id)
			if src.abs == nil {
				f.unsupported(n, "type switch on a value of a type that is not an abstracted interface")
			}
			for _, c := range n.Body.List {
				if o, ok := f.pkg.info.Implicits[c].(*types.Var); ok {
					f.vars[o] = src
				}
			}
		case *ast.AssignStmt:
			if len(n.Rhs) == 1 {
				if ta, ok := n.Rhs[0].(*ast.TypeAssertExpr); ok && ta.Type != nil {
					if id, ok := ta.X.(*ast.Ident); ok {
						if src := f.lvarOf(id); src.abs != nil {
							if lid, ok := n.Lhs[0].(*ast.Ident); ok && lid.Name != "_" {
								lv := f.lvarOf(lid)
								lv.abs = src.abs
								lv.leanT = src.abs.lean
							}
						}
					}
				}
			}
		}
		return true
	})
	f.info.externs = nil
	f.externByName = map[string]*lvar{}
	ast.Inspect(f.decl.Body, func(n ast.Node) bool {
		switch n := n.(type) {
		case *ast.CallExpr:
			if sel, ok := n.Fun.(*ast.SelectorExpr); ok {
				if fi := f.externField(sel.X); fi != nil {
					fo := f.calleeOf(n)
					if fo == nil {
						f.unsupported(n, "call on external object %s", fi.name)
					}
					sig := fo.Type().(*types.Signature)
					var ps, rs []string
					for i := 0; i < sig.Params().Len(); i++ {
						ps = append(ps, f.x.leanType(sig.Params().At(i).Type(), false))
					}
					for i := 0; i < sig.Results().Len(); i++ {
						rs = append(rs, f.x.leanType(sig.Results().At(i).Type(), false))
					}
					if len(rs) == 0 {
						rs = []string{"Unit"}
					}
					f.addExtern(fi.name+"_"+fo.Name(), strings.Join(append(ps, "Option ("+strings.Join(rs, " × ")+")"), " → "))
				}
			}
		case *ast.BinaryExpr:
			if f.externField(n.X) != nil {
				f.addExtern(f.externField(n.X).name+"_isNil", "Bool")
			}
			if f.externField(n.Y) != nil {
				f.addExtern(f.externField(n.Y).name+"_isNil", "Bool")
			}
		}
		return true
	})
	for _, id := range ids {
		o := f.pkg.info.Uses[id]
		if o == nil {
			o = f.pkg.info.Defs[id]
		}
		if v, ok := o.(*types.Var); ok {
			if lv, ok := f.vars[v]; ok {
				f.uses[lv] = append(f.uses[lv], id.Pos())
			}
		}
	}
}

// analyse: (1) which signed locals can be natural numbers (never assigned a
// difference, a negation, a negative constant or another Int), (2) whether the
// method changes its receiver, (3) representation of signed results.
func (f *fn) analyse() {
	info := f.pkg.info
	// (2) first: callees are translated on demand, which needs no local facts
	f.info.mutates = false
	if f.info.recv != nil {
		_, isPtr := f.info.recv.obj.Type().Underlying().(*types.Pointer)
		if isPtr {
			for _, lv := range f.assignedOuter([][]ast.Stmt{f.decl.Body.List}) {
				if lv == f.info.recv {
					f.info.mutates = true
				}
			}
		} else {
			for _, lv := range f.assignedOuter([][]ast.Stmt{f.decl.Body.List}) {
				if lv == f.info.recv {
					f.unsupported(f.decl, "assignment to a value receiver")
				}
			}
		}
	}
	// slice parameters written element-wise are in-out; they must not be re-bound as a whole
	f.info.inout = nil
	for _, lv := range f.assignedOuter([][]ast.Stmt{f.decl.Body.List}) {
		if lv == f.info.recv || !lv.isParam {
			continue
		}
		whole, elem := false, false
		ast.Inspect(f.decl.Body, func(n ast.Node) bool {
			chk := func(e ast.Expr) {
				if id, ok := e.(*ast.Ident); ok && info.Uses[id] == types.Object(lv.obj) {
					whole = true
					return
				}
				for {
					switch x := e.(type) {
					case *ast.IndexExpr:
						e = x.X
						continue
					case *ast.SliceExpr:
						e = x.X
						continue
					case *ast.ParenExpr:
						e = x.X
						continue
					}
					break
				}
				if id, ok := e.(*ast.Ident); ok && info.Uses[id] == types.Object(lv.obj) {
					elem = true
				}
			}
			switch s := n.(type) {
			case *ast.AssignStmt:
				for _, l := range s.Lhs {
					chk(l)
				}
			case *ast.IncDecStmt:
				chk(s.X)
			case *ast.CallExpr:
				if id, ok := s.Fun.(*ast.Ident); ok && id.Name == "copy" && len(s.Args) > 0 {
					if _, isId := s.Args[0].(*ast.Ident); isId {
						elem = elem || info.Uses[s.Args[0].(*ast.Ident)] == types.Object(lv.obj)
					} else {
						chk(s.Args[0])
					}
				}
			}
			return true
		})
		k := kindOf(lv.typ)
		if elem && (k == kBytes || k == kSlice) {
			if whole {
				f.unsupported(f.decl, "slice parameter %s is written element-wise and also re-bound", lv.name)
			}
			lv.inout = true
			for i, p := range f.info.params {
				if p == lv {
					f.info.inout = append(f.info.inout, i)
				}
			}
		}
	}
	rhsNat := func(e ast.Expr, i int) bool {
		if c, ok := e.(*ast.CallExpr); ok && f.isExternCall(c) {
			return false
		}
		if c, ok := e.(*ast.CallExpr); ok {
			if lv, _ := f.absRecv(c); lv != nil {
				return false
			}
		}
		if c, ok := e.(*ast.CallExpr); ok {
			if id, ok := c.Fun.(*ast.Ident); ok {
				if b, ok := info.Uses[id].(*types.Builtin); ok && b.Name() == "copy" {
					return true
				}
			}
		}
		if c, ok := e.(*ast.CallExpr); ok {
			if tv, ok := info.Types[c.Fun]; !(ok && tv.IsType()) {
				if fo := f.calleeOf(c); fo != nil && !isErrorMaker(fo) && !f.x.isSpecial(fo) {
					if _, isB := info.Uses[identOf(c.Fun)].(*types.Builtin); !isB {
						ci := f.x.translate(fo, f, c)
						if i < len(ci.resNat) {
							return ci.resNat[i]
						}
						return false
					}
				}
				if fo := f.calleeOf(c); fo != nil && f.x.isSpecial(fo) {
					if vs := f.x.specialMulti(f, c, fo); vs != nil && i < len(vs) {
						return vs[i].nat
					}
				}
			}
		}
		return f.expr(e).nat
	}
	demote := func(e ast.Expr) bool {
		id, ok := e.(*ast.Ident)
		if !ok || id.Name == "_" {
			return false
		}
		o := info.Defs[id]
		if o == nil {
			o = info.Uses[id]
		}
		v, ok := o.(*types.Var)
		if !ok {
			return false
		}
		lv, ok := f.vars[v]
		if !ok || !lv.nat {
			return false
		}
		lv.nat = false
		return true
	}
	isSignedTarget := func(e ast.Expr) bool {
		id, ok := e.(*ast.Ident)
		if !ok || id.Name == "_" {
			return false
		}
		o := info.Defs[id]
		if o == nil {
			o = info.Uses[id]
		}
		v, ok := o.(*types.Var)
		return ok && kindOf(v.Type()) == kSigned && f.vars[v] != nil && f.vars[v].nat
	}
	for changed := true; changed; {
		changed = false
		ast.Inspect(f.decl.Body, func(n ast.Node) bool {
			switch s := n.(type) {
			case *ast.AssignStmt:
				if op, ok := assignOps[s.Tok]; ok {
					if isSignedTarget(s.Lhs[0]) {
						if op == token.SUB || !rhsNat(s.Rhs[0], 0) {
							changed = demote(s.Lhs[0]) || changed
						}
					}
					return true
				}
				if len(s.Rhs) == 1 && len(s.Lhs) > 1 {
					for i, l := range s.Lhs {
						if isSignedTarget(l) && !rhsNat(s.Rhs[0], i) {
							changed = demote(l) || changed
						}
					}
					return true
				}
				for i, l := range s.Lhs {
					if i < len(s.Rhs) && isSignedTarget(l) && !rhsNat(s.Rhs[i], 0) {
						changed = demote(l) || changed
					}
				}
			case *ast.IncDecStmt:
				if s.Tok == token.DEC && isSignedTarget(s.X) {
					changed = demote(s.X) || changed
				}
			case *ast.ValueSpec:
				for i, nm := range s.Names {
					if i < len(s.Values) && isSignedTarget(nm) && !rhsNat(s.Values[i], 0) {
						changed = demote(nm) || changed
					}
				}
			}
			return true
		})
	}
	// (3)
	f.info.resNat = make([]bool, len(f.info.resTypes))
	for i, t := range f.info.resTypes {
		f.info.resNat[i] = kindOf(t) == kSigned
	}
	ast.Inspect(f.decl.Body, func(n ast.Node) bool {
		if _, ok := n.(*ast.FuncLit); ok {
			f.unsupported(n, "function literal")
		}
		r, ok := n.(*ast.ReturnStmt)
		if !ok {
			return true
		}
		if len(r.Results) == len(f.info.resTypes) {
			for i, e := range r.Results {
				if f.info.resNat[i] && !rhsNat(e, 0) {
					f.info.resNat[i] = false
				}
			}
		} else if len(r.Results) == 1 {
			for i := range f.info.resNat {
				if f.info.resNat[i] && !rhsNat(r.Results[0], i) {
					f.info.resNat[i] = false
				}
			}
		}
		return true
	})
	// the analysis evaluated expressions: forget what that recorded
	f.usedPanic, f.usedFuel, f.usedBind, f.needFuel, f.escaped, f.tmpN = false, false, false, false, false, 0
	f.binds = nil
}

func identOf(e ast.Expr) *ast.Ident {
	switch e := e.(type) {
	case *ast.Ident:
		return e
	case *ast.SelectorExpr:
		return e.Sel
	}
	return nil
}

// pkgMap: a package-level map variable initialised by a literal with constant
// keys and never assigned in its package is read as that literal
func (x *xlator) pkgMap(f *fn, n ast.Node, o *types.Var) string {
	if name, ok := x.pkgMaps[o]; ok {
		return name
	}
	pkg := x.ld.load(o.Pkg().Path())
	var lit *ast.CompositeLit
	for _, file := range pkg.files {
		ast.Inspect(file, func(m ast.Node) bool {
			switch m := m.(type) {
			case *ast.ValueSpec:
				for i, nm := range m.Names {
					if pkg.info.Defs[nm] == types.Object(o) && i < len(m.Values) {
						lit, _ = m.Values[i].(*ast.CompositeLit)
					}
				}
			case *ast.AssignStmt:
				for _, l := range m.Lhs {
					e := l
					for {
						if ix, ok := e.(*ast.IndexExpr); ok {
							e = ix.X
							continue
						}
						break
					}
					if id := identOf(e); id != nil && pkg.info.Uses[id] == types.Object(o) {
						f.unsupported(n, "package-level map %s is assigned at %s", o.Name(), fset.Position(m.Pos()))
					}
				}
			case *ast.CallExpr:
				if id, ok := m.Fun.(*ast.Ident); ok && id.Name == "delete" && len(m.Args) > 0 {
					if a := identOf(m.Args[0]); a != nil && pkg.info.Uses[a] == types.Object(o) {
						f.unsupported(n, "package-level map %s is changed at %s", o.Name(), fset.Position(m.Pos()))
					}
				}
			}
			return true
		})
	}
	if lit == nil {
		f.unsupported(n, "package-level map %s has no literal initialiser", o.Name())
	}
	mt := o.Type().Underlying().(*types.Map)
	tmp := &fn{x: x, pkg: pkg, info: &fnInfo{}, goName: o.Pkg().Name() + "." + o.Name(), vars: map[*types.Var]*lvar{}}
	var parts []string
	for _, el := range lit.Elts {
		kv, ok := el.(*ast.KeyValueExpr)
		if !ok {
			f.unsupported(n, "map literal element")
		}
		kx, vx := tmp.expr(kv.Key), tmp.expr(kv.Value)
		if kx.cv == nil || len(vx.g) != 0 {
			f.unsupported(n, "map literal with a non-constant key")
		}
		parts = append(parts, "("+tmp.conv(kx, mt.Key(), kv)+", "+tmp.as(tmp.convVal(vx, mt.Elem(), kv), false, kv)+")")
	}
	name := x.pkgPrefix(o.Pkg()) + "." + leanIdent(o.Name())
	x.emit("var", o.Pkg().Name()+"."+o.Name(), fmt.Sprintf("/-- Go: package-level `var %s` (%s), read as its initialiser: nothing in its package assigns it -/\ndef %s : %s := [%s]\n\n",
		o.Name(), o.Pkg().Path(), name, x.leanType(o.Type(), false), strings.Join(parts, ", ")), "")
	x.pkgMaps[o] = name
	return name
}

// ---- functions with a built-in meaning ------------------------------------------

func (x *xlator) isSpecial(fo *types.Func) bool {
	return fo.Pkg() != nil && fo.Pkg().Path() == "bytes" && fo.Name() == "IndexByte"
}

func (x *xlator) special(f *fn, c *ast.CallExpr, fo *types.Func) *val {
	if fo.Pkg() != nil && fo.Pkg().Path() == "bytes" && fo.Name() == "IndexByte" {
		a, b := f.expr(c.Args[0]), f.expr(c.Args[1])
		return &val{s: "(Go.indexByte " + a.s + " " + b.s + ")", g: append(append([]string{}, a.g...), b.g...), t: types.Typ[types.Int]}
	}
	return nil
}

func (x *xlator) specialMulti(f *fn, c *ast.CallExpr, fo *types.Func) []val { return nil }

func (x *xlator) specialStmt(f *fn, c *ast.CallExpr, fo *types.Func, k kont) (string, bool) {
	return "", false
}

// ---- whitelist ---------------------------------------------------------------------

var whitelist = []target{
	// C06
	{"topics", "", "nextTopicLevel"},
	// C03/C04: length arithmetic of the codec
	{"message", "header", "msglen"},
	{"message", "header", "SetRemainingLength"},
	{"message", "header", "Flags"},
	{"message", "header", "Len"},
	{"message", "ConnackMessage", "msglen"},
	{"message", "ConnackMessage", "Len"},
	{"message", "PubackMessage", "msglen"},
	{"message", "PubackMessage", "Len"},
	{"message", "PublishMessage", "QoS"},
	{"message", "PublishMessage", "msglen"},
	{"message", "PublishMessage", "Len"},
	{"message", "SubackMessage", "msglen"},
	{"message", "SubackMessage", "Len"},
	{"message", "SubscribeMessage", "msglen"},
	{"message", "SubscribeMessage", "Len"},
	{"message", "UnsubscribeMessage", "msglen"},
	{"message", "UnsubscribeMessage", "Len"},
	{"message", "ConnectMessage", "WillFlag"},
	{"message", "ConnectMessage", "UsernameFlag"},
	{"message", "ConnectMessage", "PasswordFlag"},
	{"message", "ConnectMessage", "msglen"},
	{"message", "ConnectMessage", "Len"},
	{"message", "DisconnectMessage", "Len"},
	{"std:encoding/binary", "", "Uvarint"},
	{"std:encoding/binary", "", "PutUvarint"},
	{"message", "header", "Type"},
	{"message", "header", "encode"},
	{"message", "header", "decode"},
	// C05: framing
	{"service", "service", "peekMessageSize"},
	// C14 (and C13's queue): power-of-two sizing, ring copy
	{"service", "", "powerOfTwo64"},
	{"service", "", "roundUpPowerOfTwo64"},
	{"service", "", "ringCopy"},
	{"sessions", "", "powerOfTwo64"},
	{"sessions", "", "roundUpPowerOfTwo64"},
	// validators
	{"message", "", "ValidQos"},
	{"message", "", "ValidTopic"},
	{"message", "", "ValidVersion"},
	{"message", "", "ValidConnackError"},
	{"message", "Type", "Valid"},
	{"message", "Type", "DefaultFlags"},
	{"message", "ConnackCode", "Valid"},
	{"topics", "", "checkTopic"},
	// C13: the ack queue
	{"sessions", "Ackqueue", "len"},
	{"sessions", "Ackqueue", "cap"},
	{"sessions", "Ackqueue", "index"},
	{"sessions", "Ackqueue", "full"},
	{"sessions", "Ackqueue", "empty"},
	{"sessions", "Ackqueue", "increment"},
	{"sessions", "Ackqueue", "grow"},
	{"sessions", "Ackqueue", "removeHead"},
	{"sessions", "Ackqueue", "insert"},
	{"sessions", "Ackqueue", "Wait"},
	{"sessions", "Ackqueue", "Ack"},
	{"sessions", "Ackqueue", "Acked"},
	{"sessions", "", "newAckqueue"},
}
