// xlate — translates a whitelisted set of functions of the Go library under
// verification (a small, explicitly listed subset of Go) into Lean 4
// definitions: lean/Mqtt/Generated/Xlate.lean, regenerated on every check.
// Theorems in lean/Mqtt/Properties/*.lean state that the regenerated
// definitions equal the hand-written model functions.
//
// Anything outside the subset is fatal: the translator names the function and
// the syntax node and exits non-zero (never a default, never a guess).
//
//	xlate <repo> <out.lean>
package main

import (
	"bytes"
	"fmt"
	"go/ast"
	"go/constant"
	"go/token"
	"go/types"
	"os"
	"strings"
)

func die(format string, a ...interface{}) {
	fmt.Fprintf(os.Stderr, "xlate: "+format+"\n", a...)
	os.Exit(3)
}

var constantOne = constant.MakeInt64(1)

// target names one whitelisted function: import path relative to the module
// ("" prefix) or a standard-library path, receiver base type, name.
type target struct {
	pkg  string // "topics", "sessions", …; "std:encoding/binary" for GOROOT
	recv string
	name string
}

type lvar struct {
	obj     *types.Var
	name    string
	typ     types.Type
	nat     bool
	isParam bool
}

type fnInfo struct {
	key      *types.Func
	lean     string
	goName   string
	pure     bool // plain value; otherwise Res
	mutates  bool // returns the new receiver first
	fuel     bool // takes a leading `fuel : Nat`
	recv     *lvar
	params   []*lvar
	resTypes []types.Type
	resNat   []bool
	done     bool
}

type fn struct {
	x      *xlator
	pkg    *pkgInfo
	decl   *ast.FuncDecl
	info   *fnInfo
	goName string

	vars  map[*types.Var]*lvar
	order []*lvar
	uses  map[*lvar][]token.Pos
	names map[string]int

	pureMode     bool
	usedPanic    bool
	usedFuel     bool
	usedBind     bool
	needFuel     bool
	escaped      bool
	aux          []string
	loopN        int
	tmpN         int
	outerLoop    token.Pos
	pendingLabel string
	body         string
}

type xlator struct {
	ld      *loader
	where   string
	allowed map[string]bool // "pkgpath recv name"
	funcs   map[*types.Func]*fnInfo
	structs map[*types.Named]*structInfo
	out     strings.Builder
	summary []string
}

func (x *xlator) emit(s string) { x.out.WriteString(s) }

func key(pkgPath, recv, name string) string { return pkgPath + " " + recv + " " + name }

func recvBase(fo *types.Func) string {
	sig := fo.Type().(*types.Signature)
	if sig.Recv() == nil {
		return ""
	}
	if n, ok := deref(sig.Recv().Type()).(*types.Named); ok {
		return n.Obj().Name()
	}
	return "?"
}

func (x *xlator) pkgPath(t target) string {
	if strings.HasPrefix(t.pkg, "std:") {
		return strings.TrimPrefix(t.pkg, "std:")
	}
	return x.ld.modPath + "/" + t.pkg
}

// translate returns the translation of fo, translating it first if necessary.
// from/at: the calling function and call site (nil for whitelist roots).
func (x *xlator) translate(fo *types.Func, from *fn, at ast.Node) *fnInfo {
	fo = fo.Origin()
	if fi, ok := x.funcs[fo]; ok {
		if !fi.done {
			die("%s: recursion through %s is outside the supported subset", x.where, fi.lean)
		}
		return fi
	}
	if fo.Pkg() == nil {
		die("%s: call of %s", x.where, fo.FullName())
	}
	k := key(fo.Pkg().Path(), recvBase(fo), fo.Name())
	if !x.allowed[k] {
		if from != nil {
			from.unsupported(at, "call of %s, which is not on the translator's whitelist", fo.FullName())
		}
		die("%s not whitelisted", fo.FullName())
	}
	pkg := x.ld.load(fo.Pkg().Path())
	decl := pkg.findFunc(recvBase(fo), fo.Name())
	if decl == nil {
		die("%s: no declaration with a body for %s", x.where, fo.FullName())
	}
	saveWhere := x.where
	fi := x.translateDecl(pkg, decl, fo)
	x.where = saveWhere
	return fi
}

func (x *xlator) translateDecl(pkg *pkgInfo, decl *ast.FuncDecl, fo *types.Func) *fnInfo {
	goName := pkg.name + "."
	if r := recvBase(fo); r != "" {
		goName += r + "."
	}
	goName += fo.Name()
	x.where = goName
	lean := x.pkgPrefix(fo.Pkg()) + "."
	if r := recvBase(fo); r != "" {
		lean += leanIdent(r) + "."
	}
	lean += leanIdent(fo.Name())
	info := &fnInfo{key: fo, lean: lean, goName: goName}
	x.funcs[fo] = info

	sig := fo.Type().(*types.Signature)
	if sig.TypeParams() != nil || sig.Variadic() {
		die("%s: generic / variadic functions are outside the supported subset", goName)
	}

	var final *fn
	for _, pure := range []bool{false, true} {
		f := &fn{x: x, pkg: pkg, decl: decl, info: info, goName: goName,
			vars: map[*types.Var]*lvar{}, uses: map[*lvar][]token.Pos{}, names: map[string]int{}, pureMode: pure}
		f.declare()
		f.analyse()
		body := f.stmts(decl.Body.List, func() string {
			if len(info.resTypes) != 0 {
				f.unsupported(decl, "control reaches the end of a function with results")
			}
			return f.retText(nil, decl)
		}, nil)
		final = f
		f.body = body
		if pure {
			break
		}
		if f.usedPanic || f.usedFuel || f.usedBind {
			break
		}
		// nothing can go wrong: translate again as a plain function
	}
	f := final
	info.pure = f.pureMode
	info.fuel = f.needFuel
	var b strings.Builder
	for _, a := range f.aux {
		b.WriteString(a + "\n")
	}
	p := fset.Position(decl.Pos())
	rel := strings.TrimPrefix(p.Filename, x.ld.repo+"/")
	fmt.Fprintf(&b, "/-- Go: `%s` (%s:%d)", goName, rel, p.Line)
	if info.mutates {
		b.WriteString("; returns the receiver after the call first")
	}
	if !info.pure {
		b.WriteString("; `Res`: can panic")
		if f.usedFuel {
			b.WriteString(" / contains a `for` loop with an iteration budget")
		}
	}
	b.WriteString(" -/\n")
	fmt.Fprintf(&b, "def %s", lean)
	if info.fuel {
		b.WriteString(" (fuel : Nat)")
	}
	if info.recv != nil {
		b.WriteString(f.binders([]*lvar{info.recv}))
	}
	b.WriteString(f.binders(info.params))
	fmt.Fprintf(&b, " : %s :=\n%s\n\n", f.resultType(), indent(f.body))
	x.emit(b.String())
	info.done = true
	mode := "total"
	if !info.pure {
		mode = "Res"
	}
	if info.fuel {
		mode += "+fuel"
	}
	if info.mutates {
		mode += ", threads receiver"
	}
	x.summary = append(x.summary, fmt.Sprintf("%s  ⇐  %s (%s:%d)  [%s]", lean, goName, rel, p.Line, mode))
	return info
}

func (f *fn) newVar(o *types.Var, isParam bool) *lvar {
	if lv, ok := f.vars[o]; ok {
		return lv
	}
	base := leanIdent(o.Name())
	n := f.names[base]
	f.names[base] = n + 1
	name := base
	if n > 0 {
		name = fmt.Sprintf("%s_%d", base, n)
	}
	lv := &lvar{obj: o, name: name, typ: o.Type(), isParam: isParam}
	if kindOf(o.Type()) == kSigned {
		lv.nat = !isParam // parameters can be negative; locals start as Nat and are demoted by the analysis
	}
	f.vars[o] = lv
	f.order = append(f.order, lv)
	return lv
}

// declare creates the Lean variables: receiver, parameters, every variable
// defined in the body (one Lean name per Go variable object)
func (f *fn) declare() {
	sig := f.info.key.Type().(*types.Signature)
	f.info.params = nil
	f.info.recv = nil
	if r := sig.Recv(); r != nil {
		if r.Name() == "" || r.Name() == "_" {
			f.unsupported(f.decl, "unnamed receiver")
		}
		f.info.recv = f.newVar(r, true)
		f.info.recv.nat = false
	}
	for i := 0; i < sig.Params().Len(); i++ {
		p := sig.Params().At(i)
		if p.Name() == "" || p.Name() == "_" {
			// unused parameter: still part of the signature
			lv := &lvar{obj: p, name: fmt.Sprintf("arg%d", i), typ: p.Type(), isParam: true}
			f.info.params = append(f.info.params, lv)
			continue
		}
		f.info.params = append(f.info.params, f.newVar(p, true))
	}
	f.info.resTypes = nil
	for i := 0; i < sig.Results().Len(); i++ {
		r := sig.Results().At(i)
		if r.Name() != "" && r.Name() != "_" {
			f.unsupported(f.decl, "named result %s", r.Name())
		}
		f.info.resTypes = append(f.info.resTypes, r.Type())
	}
	// variables defined in the body, in source order
	var ids []*ast.Ident
	ast.Inspect(f.decl.Body, func(n ast.Node) bool {
		if id, ok := n.(*ast.Ident); ok {
			ids = append(ids, id)
		}
		return true
	})
	for _, id := range ids {
		if o, ok := f.pkg.info.Defs[id].(*types.Var); ok && id.Name != "_" {
			f.newVar(o, false)
		}
	}
	// type-switch symbols are Implicits; handled where they occur
	for _, id := range ids {
		o := f.pkg.info.Uses[id]
		if o == nil {
			o = f.pkg.info.Defs[id]
		}
		if v, ok := o.(*types.Var); ok {
			if lv, ok := f.vars[v]; ok {
				f.uses[lv] = append(f.uses[lv], id.Pos())
			}
		}
	}
}

// analyse: (1) which signed locals can be natural numbers (never assigned a
// difference, a negation, a negative constant or another Int), (2) whether the
// method changes its receiver, (3) representation of signed results.
func (f *fn) analyse() {
	info := f.pkg.info
	// (2) first: callees are translated on demand, which needs no local facts
	f.info.mutates = false
	if f.info.recv != nil {
		_, isPtr := f.info.recv.obj.Type().Underlying().(*types.Pointer)
		if isPtr {
			for _, lv := range f.assignedOuter([][]ast.Stmt{f.decl.Body.List}) {
				if lv == f.info.recv {
					f.info.mutates = true
				}
			}
		} else {
			for _, lv := range f.assignedOuter([][]ast.Stmt{f.decl.Body.List}) {
				if lv == f.info.recv {
					f.unsupported(f.decl, "assignment to a value receiver")
				}
			}
		}
	}
	rhsNat := func(e ast.Expr, i int) bool {
		if c, ok := e.(*ast.CallExpr); ok {
			if tv, ok := info.Types[c.Fun]; !(ok && tv.IsType()) {
				if fo := f.calleeOf(c); fo != nil && !isErrorMaker(fo) && !f.x.isSpecial(fo) {
					if _, isB := info.Uses[identOf(c.Fun)].(*types.Builtin); !isB {
						ci := f.x.translate(fo, f, c)
						if i < len(ci.resNat) {
							return ci.resNat[i]
						}
						return false
					}
				}
				if fo := f.calleeOf(c); fo != nil && f.x.isSpecial(fo) {
					if vs := f.x.specialMulti(f, c, fo); vs != nil && i < len(vs) {
						return vs[i].nat
					}
				}
			}
		}
		return f.expr(e).nat
	}
	demote := func(e ast.Expr) bool {
		id, ok := e.(*ast.Ident)
		if !ok || id.Name == "_" {
			return false
		}
		o := info.Defs[id]
		if o == nil {
			o = info.Uses[id]
		}
		v, ok := o.(*types.Var)
		if !ok {
			return false
		}
		lv, ok := f.vars[v]
		if !ok || !lv.nat {
			return false
		}
		lv.nat = false
		return true
	}
	isSignedTarget := func(e ast.Expr) bool {
		id, ok := e.(*ast.Ident)
		if !ok || id.Name == "_" {
			return false
		}
		o := info.Defs[id]
		if o == nil {
			o = info.Uses[id]
		}
		v, ok := o.(*types.Var)
		return ok && kindOf(v.Type()) == kSigned && f.vars[v] != nil && f.vars[v].nat
	}
	for changed := true; changed; {
		changed = false
		ast.Inspect(f.decl.Body, func(n ast.Node) bool {
			switch s := n.(type) {
			case *ast.AssignStmt:
				if op, ok := assignOps[s.Tok]; ok {
					if isSignedTarget(s.Lhs[0]) {
						if op == token.SUB || !rhsNat(s.Rhs[0], 0) {
							changed = demote(s.Lhs[0]) || changed
						}
					}
					return true
				}
				if len(s.Rhs) == 1 && len(s.Lhs) > 1 {
					for i, l := range s.Lhs {
						if isSignedTarget(l) && !rhsNat(s.Rhs[0], i) {
							changed = demote(l) || changed
						}
					}
					return true
				}
				for i, l := range s.Lhs {
					if i < len(s.Rhs) && isSignedTarget(l) && !rhsNat(s.Rhs[i], 0) {
						changed = demote(l) || changed
					}
				}
			case *ast.IncDecStmt:
				if s.Tok == token.DEC && isSignedTarget(s.X) {
					changed = demote(s.X) || changed
				}
			case *ast.ValueSpec:
				for i, nm := range s.Names {
					if i < len(s.Values) && isSignedTarget(nm) && !rhsNat(s.Values[i], 0) {
						changed = demote(nm) || changed
					}
				}
			}
			return true
		})
	}
	// (3)
	f.info.resNat = make([]bool, len(f.info.resTypes))
	for i, t := range f.info.resTypes {
		f.info.resNat[i] = kindOf(t) == kSigned
	}
	ast.Inspect(f.decl.Body, func(n ast.Node) bool {
		if _, ok := n.(*ast.FuncLit); ok {
			f.unsupported(n, "function literal")
		}
		r, ok := n.(*ast.ReturnStmt)
		if !ok {
			return true
		}
		if len(r.Results) == len(f.info.resTypes) {
			for i, e := range r.Results {
				if f.info.resNat[i] && !rhsNat(e, 0) {
					f.info.resNat[i] = false
				}
			}
		} else if len(r.Results) == 1 {
			for i := range f.info.resNat {
				if f.info.resNat[i] && !rhsNat(r.Results[0], i) {
					f.info.resNat[i] = false
				}
			}
		}
		return true
	})
	// the analysis evaluated expressions: forget what that recorded
	f.usedPanic, f.usedFuel, f.usedBind, f.needFuel, f.escaped, f.tmpN = false, false, false, false, false, 0
}

func identOf(e ast.Expr) *ast.Ident {
	switch e := e.(type) {
	case *ast.Ident:
		return e
	case *ast.SelectorExpr:
		return e.Sel
	}
	return nil
}

// ---- functions with a built-in meaning ------------------------------------------

func (x *xlator) isSpecial(fo *types.Func) bool { return false }

func (x *xlator) special(f *fn, c *ast.CallExpr, fo *types.Func) *val { return nil }

func (x *xlator) specialMulti(f *fn, c *ast.CallExpr, fo *types.Func) []val { return nil }

func (x *xlator) specialStmt(f *fn, c *ast.CallExpr, fo *types.Func, k kont) (string, bool) {
	return "", false
}

// ---- whitelist ---------------------------------------------------------------------

var whitelist = []target{
	{"topics", "", "nextTopicLevel"},
}

func main() {
	if len(os.Args) != 3 {
		die("usage: xlate <repo> <out.lean>")
	}
	repo, outPath := strings.TrimRight(os.Args[1], "/"), os.Args[2]
	x := &xlator{ld: newLoader(repo), allowed: map[string]bool{}, funcs: map[*types.Func]*fnInfo{},
		structs: map[*types.Named]*structInfo{}}
	for _, t := range whitelist {
		x.allowed[key(x.pkgPath(t), t.recv, t.name)] = true
	}
	for _, t := range whitelist {
		path := x.pkgPath(t)
		pkg := x.ld.load(path)
		decl := pkg.findFunc(t.recv, t.name)
		if decl == nil {
			die("whitelisted function %s.%s.%s not found in %s (renamed or removed?)", t.pkg, t.recv, t.name, pkg.dir)
		}
		fo, ok := pkg.info.Defs[decl.Name].(*types.Func)
		if !ok {
			die("no type information for %s.%s.%s", t.pkg, t.recv, t.name)
		}
		x.where = t.pkg + "." + t.name
		x.translate(fo, nil, nil)
	}

	var o strings.Builder
	o.WriteString("/- GENERATED by /verif/extract/cmd/xlate from the Go sources of /repo — do not edit.\n\n")
	o.WriteString("Lean definitions translated function by function from the Go source (see NOTES-xlate.md\n")
	o.WriteString("for the supported subset and what the translator is trusted for).\n\n")
	o.WriteString("Integer semantics: Go `int`, `int64`, `int32` are unbounded `Int` here (`Nat` for locals that\n")
	o.WriteString("are only ever assigned sums/products/lengths of naturals; a difference `a - b` is always an\n")
	o.WriteString("`Int`). Overflow and wrap-around of signed integers, and truncation by conversions between\n")
	o.WriteString("signed widths, are NOT represented. `byte`, `uint16`, `uint32`, `uint64` are `UInt8` … `UInt64`\n")
	o.WriteString("with exactly Go's wrap-around; `uint` is taken to be 64 bits wide. Slices are lists: capacity,\n")
	o.WriteString("aliasing and the difference between a nil and an empty slice are not represented (slicing\n")
	o.WriteString("beyond the length is a `panic` here even where Go would allow it up to the capacity).\n\n")
	o.WriteString("Translated functions:\n")
	for _, s := range x.summary {
		o.WriteString("  " + s + "\n")
	}
	o.WriteString("-/\n")
	o.WriteString("set_option linter.unusedVariables false\n\n")
	o.WriteString("namespace Mqtt.Generated.Xlate\n\n")
	o.WriteString(prelude)
	o.WriteString("\n")
	o.WriteString(x.out.String())
	o.WriteString("end Mqtt.Generated.Xlate\n")

	data := []byte(o.String())
	old, err := os.ReadFile(outPath)
	if err == nil && bytes.Equal(old, data) {
		return // unchanged: keep lake's cache valid
	}
	if err := os.WriteFile(outPath, data, 0o644); err != nil {
		die("%v", err)
	}
}
