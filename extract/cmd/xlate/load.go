package main

// Loading and type-checking the packages of the repository under verification
// (go/parser + go/types, standard library only).

import (
	"bufio"
	"go/ast"
	"go/build"
	"go/importer"
	"go/parser"
	"go/token"
	"go/types"
	"os"
	"path/filepath"
	"sort"
	"strings"
)

var fset = token.NewFileSet()

type pkgInfo struct {
	path  string // import path
	dir   string
	name  string
	files []*ast.File
	info  *types.Info
	types *types.Package
	errs  []string
}

// stdReal lists the standard-library packages that are really type-checked
// (from GOROOT source).  Every other import outside the repository is replaced
// by an empty package: uses of it become type errors, which are ignored unless
// they hit a whitelisted function (then the expression has no type and the
// translator dies there).
var stdReal = map[string]bool{
	"fmt": true, "errors": true, "encoding/binary": true, "bytes": true, "math": true,
	"sync": true, "sync/atomic": true, "io": true, "reflect": true, "time": true,
}

type loader struct {
	repo    string
	modPath string
	pkgs    map[string]*pkgInfo
	std     types.Importer
	fake    map[string]*types.Package
}

func newLoader(repo string) *loader {
	build.Default.CgoEnabled = false
	l := &loader{repo: repo, pkgs: map[string]*pkgInfo{}, fake: map[string]*types.Package{}}
	l.std = importer.ForCompiler(fset, "source", nil)
	f, err := os.Open(filepath.Join(repo, "go.mod"))
	if err != nil {
		die("%v", err)
	}
	defer f.Close()
	sc := bufio.NewScanner(f)
	for sc.Scan() {
		w := strings.Fields(sc.Text())
		if len(w) == 2 && w[0] == "module" {
			l.modPath = w[1]
		}
	}
	if l.modPath == "" {
		die("no module line in %s/go.mod", repo)
	}
	return l
}

func (l *loader) Import(path string) (*types.Package, error) {
	if path == l.modPath || strings.HasPrefix(path, l.modPath+"/") {
		return l.load(path).types, nil
	}
	if stdReal[path] {
		return l.std.Import(path)
	}
	if p, ok := l.fake[path]; ok {
		return p, nil
	}
	p := types.NewPackage(path, filepath.Base(path))
	p.MarkComplete()
	l.fake[path] = p
	return p, nil
}

// dirOf maps an import path to its source directory: repository packages live
// under the repository, standard-library packages under GOROOT/src.
func (l *loader) dirOf(path string) string {
	if path == l.modPath {
		return l.repo
	}
	if strings.HasPrefix(path, l.modPath+"/") {
		return filepath.Join(l.repo, strings.TrimPrefix(path, l.modPath+"/"))
	}
	return filepath.Join(build.Default.GOROOT, "src", path)
}

// load parses (non-test files selected by the default build constraints, i.e.
// without the `verif` tag) and type-checks one package.
func (l *loader) load(path string) *pkgInfo {
	if p, ok := l.pkgs[path]; ok {
		return p
	}
	dir := l.dirOf(path)
	ents, err := os.ReadDir(dir)
	if err != nil {
		die("package %s: %v", path, err)
	}
	var names []string
	for _, e := range ents {
		n := e.Name()
		if e.IsDir() || !strings.HasSuffix(n, ".go") || strings.HasSuffix(n, "_test.go") {
			continue
		}
		ok, err := build.Default.MatchFile(dir, n)
		if err != nil {
			die("%s/%s: %v", dir, n, err)
		}
		if ok {
			names = append(names, n)
		}
	}
	sort.Strings(names)
	p := &pkgInfo{path: path, dir: dir}
	for _, n := range names {
		f, err := parser.ParseFile(fset, filepath.Join(dir, n), nil, parser.ParseComments)
		if err != nil {
			die("%v", err)
		}
		p.files = append(p.files, f)
		p.name = f.Name.Name
	}
	if len(p.files) == 0 {
		die("package %s: no Go files in %s", path, dir)
	}
	p.info = &types.Info{
		Types:      map[ast.Expr]types.TypeAndValue{},
		Defs:       map[*ast.Ident]types.Object{},
		Uses:       map[*ast.Ident]types.Object{},
		Selections: map[*ast.SelectorExpr]*types.Selection{},
		Implicits:  map[ast.Node]types.Object{},
		Scopes:     map[ast.Node]*types.Scope{},
	}
	l.pkgs[path] = p // before Check: import cycles are impossible in Go
	conf := types.Config{
		Importer: l,
		Error:    func(err error) { p.errs = append(p.errs, err.Error()) },
	}
	p.types, _ = conf.Check(path, fset, p.files, p.info)
	return p
}

// findFunc returns the declaration of function or method `name` (receiver base
// type name `recv`, "" for plain functions) in package p.
func (p *pkgInfo) findFunc(recv, name string) *ast.FuncDecl {
	for _, f := range p.files {
		for _, d := range f.Decls {
			fd, ok := d.(*ast.FuncDecl)
			if !ok || fd.Name.Name != name || fd.Body == nil {
				continue
			}
			r := ""
			if fd.Recv != nil && len(fd.Recv.List) == 1 {
				t := fd.Recv.List[0].Type
				if s, ok := t.(*ast.StarExpr); ok {
					t = s.X
				}
				if id, ok := t.(*ast.Ident); ok {
					r = id.Name
				}
			}
			if r == recv {
				return fd
			}
		}
	}
	return nil
}
