package main

// Property C17, the wrap path: the statement-level shape of service.writeMessage that
// lean/Mqtt/Model/WriteWrap.lean is written against, as three small tables in source order
// (`Proofs/WriteWrapFacts.lean` equates them with the model's `headTable` / `wrapTable` /
// `plainTable` by `decide`).  Every statement of the function has to be one of the forms listed
// here; anything else is fatal.
//
// wmHead (top level):
//   1  `l int = msg.Len()` in the var block
//   2  svc.wmu.Lock()
//   3  defer svc.wmu.Unlock()
//   4  buf, wrap, err = svc.out.WriteWait(l)   followed by  if err != nil { return … }
//   5  if wrap { <wmWrapBranch> } else { <wmPlainBranch> }
//   (the `svc.out == nil` test, `svc.outStat.increment(int64(m))` and the final return are recognised
//   and carry no code: the nil test is life-cycle, lifeWriteMessage / C16)
// wmWrapBranch:
//   10 if len(svc.outtmp) < l { svc.outtmp = make([]byte, l) }
//   20 n, err = msg.Encode(svc.outtmp[0:])       (also svc.outtmp[:], svc.outtmp: the whole scratch buffer)
//   30 m, err = svc.out.Write(svc.outtmp[0:n])   (slice bounds 0 and n)
//   31 m, err = svc.out.Write(<the whole scratch buffer>)
// wmPlainBranch:
//   40 n, err = msg.Encode(buf[0:])              (also buf[:], buf)
//   50 m, err = svc.out.WriteCommit(n)
// an `if err != nil { return … }` after 20/30/40/50 is part of that statement.

import (
	"go/ast"
	"go/token"
)

func init() { extraSections = append(extraSections, section{"wrap", factsWrap}) }

// sliceOf: e is `base`, `base[:]`, `base[0:]` (whole = true) or `base[0:hi]` / `base[:hi]` (whole = false,
// hi returned as a string); ok = false when e is none of these
func sliceOf(e ast.Expr, base string) (whole bool, hi string, ok bool) {
	if exprString(e) == base {
		return true, "", true
	}
	se, isSlice := e.(*ast.SliceExpr)
	if !isSlice || se.Slice3 || exprString(se.X) != base {
		return false, "", false
	}
	if se.Low != nil && exprString(se.Low) != "0" {
		return false, "", false
	}
	if se.High == nil {
		return true, "", true
	}
	return false, exprString(se.High), true
}

// isErrReturn: `if err != nil { return … }`
func isErrReturn(st ast.Stmt) bool {
	ifs, ok := st.(*ast.IfStmt)
	if !ok || ifs.Init != nil || ifs.Else != nil || exprString(ifs.Cond) != "(err!=nil)" || len(ifs.Body.List) != 1 {
		return false
	}
	_, ok = ifs.Body.List[0].(*ast.ReturnStmt)
	return ok
}

// callAssign: st is `a, b[, c] = f(args…)` (plain assignment); returns the left-hand names, f and the arguments
func callAssign(st ast.Stmt) (lhs []string, fun string, args []ast.Expr, ok bool) {
	as, isAs := st.(*ast.AssignStmt)
	if !isAs || as.Tok != token.ASSIGN || len(as.Rhs) != 1 {
		return nil, "", nil, false
	}
	call, isCall := as.Rhs[0].(*ast.CallExpr)
	if !isCall {
		return nil, "", nil, false
	}
	for _, l := range as.Lhs {
		lhs = append(lhs, exprString(l))
	}
	return lhs, exprString(call.Fun), call.Args, true
}

func sameNames(a []string, b ...string) bool {
	if len(a) != len(b) {
		return false
	}
	for i := range a {
		if a[i] != b[i] {
			return false
		}
	}
	return true
}

// branchCodes: the statements of one branch of `if wrap`
func branchCodes(which string, list []ast.Stmt) []int {
	var seq []int
	last := 0 // code of the statement an `if err != nil` may follow
	for _, st := range list {
		pos := fset.Position(st.Pos())
		if isErrReturn(st) {
			if last == 0 {
				die("writeMessage (%s branch): `if err != nil` at %v follows nothing that sets err", which, pos)
			}
			last = 0
			continue
		}
		last = 0
		if ifs, ok := st.(*ast.IfStmt); ok {
			// the growth test
			if ifs.Init != nil || ifs.Else != nil || exprString(ifs.Cond) != "(len(svc.outtmp)<l)" || len(ifs.Body.List) != 1 {
				die("writeMessage (%s branch): unexpected if statement at %v", which, pos)
			}
			as, ok := ifs.Body.List[0].(*ast.AssignStmt)
			if !ok || as.Tok != token.ASSIGN || len(as.Lhs) != 1 || len(as.Rhs) != 1 || exprString(as.Lhs[0]) != "svc.outtmp" {
				die("writeMessage (%s branch): the growth test at %v does not assign svc.outtmp", which, pos)
			}
			mk, ok := as.Rhs[0].(*ast.CallExpr)
			if !ok || exprString(mk.Fun) != "make" || len(mk.Args) != 2 || exprString(mk.Args[1]) != "l" {
				die("writeMessage (%s branch): the growth at %v is not make([]byte, l)", which, pos)
			}
			if at, ok := mk.Args[0].(*ast.ArrayType); !ok || at.Len != nil || exprString(at.Elt) != "byte" {
				die("writeMessage (%s branch): the growth at %v is not make([]byte, l)", which, pos)
			}
			seq = append(seq, 10)
			continue
		}
		lhs, fun, args, ok := callAssign(st)
		if !ok {
			die("writeMessage (%s branch): unexpected statement at %v", which, pos)
		}
		switch fun {
		case "msg.Encode":
			if !sameNames(lhs, "n", "err") || len(args) != 1 {
				die("writeMessage (%s branch): unexpected form of the Encode call at %v", which, pos)
			}
			if whole, _, ok := sliceOf(args[0], "svc.outtmp"); ok && whole {
				seq = append(seq, 20)
			} else if whole, _, ok := sliceOf(args[0], "buf"); ok && whole {
				seq = append(seq, 40)
			} else {
				die("writeMessage (%s branch): Encode into something else than svc.outtmp[0:] or buf[0:] at %v", which, pos)
			}
		case "svc.out.Write":
			if !sameNames(lhs, "m", "err") || len(args) != 1 {
				die("writeMessage (%s branch): unexpected form of the Write call at %v", which, pos)
			}
			whole, hi, ok := sliceOf(args[0], "svc.outtmp")
			switch {
			case ok && !whole && hi == "n":
				seq = append(seq, 30)
			case ok && whole:
				seq = append(seq, 31)
			default:
				die("writeMessage (%s branch): Write of something else than svc.outtmp[0:n] at %v", which, pos)
			}
		case "svc.out.WriteCommit":
			if !sameNames(lhs, "m", "err") || len(args) != 1 || exprString(args[0]) != "n" {
				die("writeMessage (%s branch): unexpected form of the WriteCommit call at %v", which, pos)
			}
			seq = append(seq, 50)
		default:
			die("writeMessage (%s branch): unexpected call %s at %v", which, fun, pos)
		}
		last = seq[len(seq)-1]
	}
	return seq
}

func factsWrap(repo string, o *out) {
	fsr := parse(repo, "service/sendrecv.go")
	wm := findFunc(fsr, "service", "writeMessage")
	var head, wrapB, plainB []int
	sawBranch := false
	list := wm.Body.List
	for i := 0; i < len(list); i++ {
		st := list[i]
		pos := fset.Position(st.Pos())
		switch st := st.(type) {
		case *ast.DeclStmt:
			gd, ok := st.Decl.(*ast.GenDecl)
			if !ok || gd.Tok != token.VAR {
				die("writeMessage: unexpected declaration at %v", pos)
			}
			for _, sp := range gd.Specs {
				vs := sp.(*ast.ValueSpec)
				for j, v := range vs.Values {
					if len(vs.Names) == len(vs.Values) && vs.Names[j].Name == "l" && exprString(v) == "msg.Len()" {
						head = append(head, 1)
					} else {
						die("writeMessage: unexpected initialiser in the var block at %v", fset.Position(v.Pos()))
					}
				}
			}
		case *ast.ExprStmt:
			switch s := exprString(st.X); s {
			case "svc.wmu.Lock()":
				head = append(head, 2)
			case "svc.outStat.increment(int64(m))":
			default:
				die("writeMessage: unexpected statement %s at %v", s, pos)
			}
		case *ast.DeferStmt:
			if exprString(st.Call.Fun) != "svc.wmu.Unlock" {
				die("writeMessage: unexpected defer at %v", pos)
			}
			head = append(head, 3)
		case *ast.AssignStmt:
			lhs, fun, args, ok := callAssign(st)
			if !ok || fun != "svc.out.WriteWait" || !sameNames(lhs, "buf", "wrap", "err") || len(args) != 1 || exprString(args[0]) != "l" {
				die("writeMessage: unexpected assignment at %v (expected buf, wrap, err = svc.out.WriteWait(l))", pos)
			}
			if i+1 >= len(list) || !isErrReturn(list[i+1]) {
				die("writeMessage: WriteWait at %v is not followed by `if err != nil { return … }`", pos)
			}
			i++
			head = append(head, 4)
		case *ast.IfStmt:
			switch cond := exprString(st.Cond); {
			case cond == "(svc.out==nil)" && st.Init == nil && st.Else == nil:
				// life-cycle (lifeWriteMessage)
			case cond == "wrap" && st.Init == nil:
				if sawBranch {
					die("writeMessage: a second `if wrap` at %v", pos)
				}
				blk, ok := st.Else.(*ast.BlockStmt)
				if !ok {
					die("writeMessage: `if wrap` at %v has no plain else block", pos)
				}
				sawBranch = true
				head = append(head, 5)
				wrapB = branchCodes("wrap", st.Body.List)
				plainB = branchCodes("plain", blk.List)
			default:
				die("writeMessage: unexpected if statement at %v", pos)
			}
		case *ast.ReturnStmt:
			if i != len(list)-1 {
				die("writeMessage: return before the end at %v", pos)
			}
		default:
			die("writeMessage: unexpected statement at %v", pos)
		}
	}
	if !sawBranch {
		die("writeMessage: no `if wrap { … } else { … }`")
	}
	o.def("wmHead", "List Nat", natList(head))
	o.def("wmWrapBranch", "List Nat", natList(wrapB))
	o.def("wmPlainBranch", "List Nat", natList(plainB))
}
