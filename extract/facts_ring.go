package main

// Core D facts: block-size constants of service/buffer.go and, per method of
// *buffer, the sequence (in source order) of verifYield marks, Lock / Unlock /
// Wait / Broadcast on the two condition variables, calls of other ring
// methods, and return statements.  Encoded as naturals (see ringEventCode);
// the Lean model carries the same structure as a literal (Model.Ring.lockFacts)
// and `Proofs.Ring.ring_lock_facts` equates the two by `decide`.

import (
	"fmt"
	"go/ast"
	"strconv"
	"strings"
)

func init() { extraSections = append(extraSections, section{"ring", factsRing}) }

// event codes: mark N -> N;  1000+2*op+mx with op 0 lock 1 unlock 2 wait 3 bcast, mx 0 pcond 1 ccond;
// 1100 return; 1200 defer Close; 1300+k call of ring method k;
// 1400 pseq.get 1401 cseq.get 1402 pseq.set 1403 cseq.set 1404 isDone (cursor / done accesses, so that a load
// moved across a Lock changes the sequence)
var ringMethods = []string{"Close", "Len", "ReadFrom", "WriteTo", "Read", "Write", "ReadPeek", "ReadWait", "ReadCommit",
	"WriteWait", "WriteCommit", "waitForWriteSpace"}

func ringMethodIndex(name string) int {
	for i, m := range ringMethods {
		if m == name {
			return i
		}
	}
	return -1
}

func ringEvents(fd *ast.FuncDecl) []int {
	var ev []int
	var visit func(n ast.Node) bool
	visit = func(n ast.Node) bool {
		switch n := n.(type) {
		case *ast.FuncLit:
			die("buffer.go: closure inside %s — lock structure not extractable", fd.Name.Name)
		case *ast.GoStmt:
			die("buffer.go: go statement inside %s", fd.Name.Name)
		case *ast.DeferStmt:
			if s := exprString(n.Call.Fun); s == "bf.Close" {
				ev = append(ev, 1200)
				return false
			}
			die("buffer.go: unexpected defer %s in %s", exprString(n.Call.Fun), fd.Name.Name)
		case *ast.ReturnStmt:
			// evaluate the operands first (they may contain calls), then the return itself
			for _, r := range n.Results {
				ast.Inspect(r, visit)
			}
			ev = append(ev, 1100)
			return false
		case *ast.CallExpr:
			s := exprString(n.Fun)
			switch {
			case s == "verifYield":
				if len(n.Args) != 1 {
					die("verifYield with %d arguments", len(n.Args))
				}
				lit, ok := n.Args[0].(*ast.BasicLit)
				if !ok {
					die("verifYield argument is not a literal at %v", fset.Position(n.Pos()))
				}
				id, err := strconv.Atoi(lit.Value)
				if err != nil || id <= 0 || id >= 1000 {
					die("verifYield mark %s out of range", lit.Value)
				}
				ev = append(ev, id)
				return false
			case strings.HasPrefix(s, "bf.pcond.") || strings.HasPrefix(s, "bf.ccond."):
				mx := 0
				if strings.HasPrefix(s, "bf.ccond.") {
					mx = 1
				}
				op := -1
				switch s[len("bf.pcond."):] {
				case "L.Lock":
					op = 0
				case "L.Unlock":
					op = 1
				case "Wait":
					op = 2
				case "Broadcast":
					op = 3
				}
				if op < 0 {
					die("buffer.go: unrecognised condition-variable operation %s in %s", s, fd.Name.Name)
				}
				ev = append(ev, 1000+2*op+mx)
				return false
			case s == "bf.pseq.get" || s == "bf.cseq.get" || s == "bf.pseq.set" || s == "bf.cseq.set" || s == "bf.isDone":
				for _, a := range n.Args {
					ast.Inspect(a, visit)
				}
				ev = append(ev, map[string]int{"bf.pseq.get": 1400, "bf.cseq.get": 1401, "bf.pseq.set": 1402, "bf.cseq.set": 1403, "bf.isDone": 1404}[s])
				return false
			case strings.HasPrefix(s, "bf."):
				name := s[3:]
				if k := ringMethodIndex(name); k >= 0 {
					for _, a := range n.Args {
						ast.Inspect(a, visit)
					}
					ev = append(ev, 1300+k)
					return false
				}
			}
		case *ast.SelectorExpr:
			// any other use of the condition variables or their mutexes (stored, passed on, signalled) is not understood
			s := exprString(n)
			if s == "bf.pcond" || s == "bf.ccond" {
				die("buffer.go: condition variable used outside Lock/Unlock/Wait/Broadcast in %s at %v", fd.Name.Name, fset.Position(n.Pos()))
			}
		}
		return true
	}
	ast.Inspect(fd.Body, visit)
	return ev
}

func factsRing(repo string, o *out) {
	f := parse(repo, "service/buffer.go")
	for _, c := range []string{"defaultBufferSize", "defaultReadBlockSize", "defaultWriteBlockSize"} {
		o.def(c, "Nat", strconv.FormatInt(constInt(f, c), 10))
	}
	// every method of *buffer that is not in the list must not touch the condition variables
	var rows []string
	seen := map[string]bool{}
	for _, d := range f.Decls {
		fd, ok := d.(*ast.FuncDecl)
		if !ok || fd.Recv == nil || fd.Body == nil {
			continue
		}
		t := fd.Recv.List[0].Type
		if s, ok := t.(*ast.StarExpr); ok {
			t = s.X
		}
		if id, ok := t.(*ast.Ident); !ok || id.Name != "buffer" {
			continue
		}
		ev := ringEvents(fd)
		if ringMethodIndex(fd.Name.Name) < 0 {
			for _, e := range ev {
				if e != 1100 {
					die("buffer.go: method %s (not in the modelled list) has lock-relevant events", fd.Name.Name)
				}
			}
			continue
		}
		seen[fd.Name.Name] = true
		rows = append(rows, fmt.Sprintf("  (%d, %s)", ringMethodIndex(fd.Name.Name), natList(ev)))
	}
	for _, m := range ringMethods {
		if !seen[m] {
			die("buffer.go: method %s not found", m)
		}
	}
	o.b.WriteString("/-- per ring method (index into " + strings.Join(ringMethods, ", ") + "): marks, lock operations, calls and returns in source order -/\n")
	o.def("bufferLocks", "List (Nat × List Nat)", "[\n"+strings.Join(rows, ",\n")+"]")
}
