// extract — regenerates lean/Mqtt/Generated/Facts.lean from the Go sources of
// /repo (stdlib go/ast only).  Pure pattern matching: anything it does not
// recognise is an error, never a default.
//
//	extract [-strict] [-baseline <file>] <repo> <out.lean>
//
// The facts are produced section by section (one section per facts_*.go file,
// plus "message" and "sessions" below).  Every section runs on its own: when
// one meets a source shape it does not recognise, the text of that section is
// taken from the committed baseline (extract/baseline/Facts.lean: the facts of
// the unchanged repository, bin/mkbaseline), the failure is written to
// facts_report.json next to the output and the exit status is 4.  The output
// stays a complete Lean file; which properties the failed section concerns is
// decided by bin/check (lib/vcheck/scope.py).  Without a baseline text for a
// failed section (or with -strict) a failure is fatal as before: exit 3, no
// output.  See sections.go.
package main

import (
	"bytes"
	"fmt"
	"go/ast"
	"go/parser"
	"go/token"
	"os"
	"path/filepath"
	"strconv"
	"strings"
)

var fset = token.NewFileSet()

// sectionError is what die panics with; runSection (sections.go) recovers it.
type sectionError struct{ msg string }

// die: the source does not have the shape the running section recognises.
func die(format string, a ...interface{}) {
	panic(sectionError{fmt.Sprintf(format, a...)})
}

// fatal: usage and I/O errors (not attributable to a section).
func fatal(format string, a ...interface{}) {
	fmt.Fprintf(os.Stderr, "extract: "+format+"\n", a...)
	os.Exit(exitFatal)
}

func parse(repo, rel string) *ast.File {
	f, err := parser.ParseFile(fset, filepath.Join(repo, rel), nil, parser.ParseComments)
	if err != nil {
		die("%v", err)
	}
	return f
}

// findFunc returns the declaration of function or method `name` (method
// receiver type `recv`, "" for plain functions).
func findFunc(f *ast.File, recv, name string) *ast.FuncDecl {
	for _, d := range f.Decls {
		fd, ok := d.(*ast.FuncDecl)
		if !ok || fd.Name.Name != name {
			continue
		}
		r := ""
		if fd.Recv != nil && len(fd.Recv.List) == 1 {
			t := fd.Recv.List[0].Type
			if s, ok := t.(*ast.StarExpr); ok {
				t = s.X
			}
			if id, ok := t.(*ast.Ident); ok {
				r = id.Name
			}
		}
		if r == recv {
			return fd
		}
	}
	die("function %s.%s not found", recv, name)
	return nil
}

// iotaConsts returns name→value for the const block whose first name is `first`.
func iotaConsts(f *ast.File, first string) ([]string, map[string]int) {
	for _, d := range f.Decls {
		gd, ok := d.(*ast.GenDecl)
		if !ok || gd.Tok != token.CONST {
			continue
		}
		if len(gd.Specs) == 0 {
			continue
		}
		vs0 := gd.Specs[0].(*ast.ValueSpec)
		if vs0.Names[0].Name != first {
			continue
		}
		names := []string{}
		vals := map[string]int{}
		for i, s := range gd.Specs {
			vs := s.(*ast.ValueSpec)
			if len(vs.Names) != 1 {
				die("const block %s: multi-name spec", first)
			}
			if i == 0 {
				if len(vs.Values) != 1 {
					die("const block %s: first spec has no iota", first)
				}
				if id, ok := vs.Values[0].(*ast.Ident); !ok || id.Name != "iota" {
					die("const block %s: first value is not iota", first)
				}
			} else if len(vs.Values) != 0 {
				// an explicit value ends the iota run we rely on
				break
			}
			names = append(names, vs.Names[0].Name)
			vals[vs.Names[0].Name] = i
		}
		return names, vals
	}
	die("const block starting with %s not found", first)
	return nil, nil
}

// constInt returns the value of a package-level integer constant given as a
// literal or a product/shift of literals.
func constInt(f *ast.File, name string) int64 {
	for _, d := range f.Decls {
		gd, ok := d.(*ast.GenDecl)
		if !ok || gd.Tok != token.CONST {
			continue
		}
		for _, s := range gd.Specs {
			vs := s.(*ast.ValueSpec)
			for i, n := range vs.Names {
				if n.Name == name {
					if i >= len(vs.Values) {
						die("const %s has no value", name)
					}
					return evalInt(vs.Values[i])
				}
			}
		}
	}
	die("const %s not found", name)
	return 0
}

func evalInt(e ast.Expr) int64 {
	switch e := e.(type) {
	case *ast.BasicLit:
		v, err := strconv.ParseInt(e.Value, 0, 64)
		if err != nil {
			die("literal %s: %v", e.Value, err)
		}
		return v
	case *ast.BinaryExpr:
		a, b := evalInt(e.X), evalInt(e.Y)
		switch e.Op {
		case token.MUL:
			return a * b
		case token.ADD:
			return a + b
		case token.SUB:
			return a - b
		case token.SHL:
			return a << uint(b)
		}
	case *ast.ParenExpr:
		return evalInt(e.X)
	}
	die("cannot evaluate constant expression at %v", fset.Position(e.Pos()))
	return 0
}

// caseTypes lists, per case clause of the first switch statement satisfying
// pred inside fn, the `message.X` selector names.
func switchCases(fn *ast.FuncDecl, pred func(*ast.SwitchStmt) bool) [][]string {
	var res [][]string
	found := false
	ast.Inspect(fn.Body, func(n ast.Node) bool {
		if found {
			return false
		}
		sw, ok := n.(*ast.SwitchStmt)
		if !ok || !pred(sw) {
			return true
		}
		found = true
		for _, c := range sw.Body.List {
			cc := c.(*ast.CaseClause)
			var names []string
			for _, e := range cc.List {
				sel, ok := e.(*ast.SelectorExpr)
				if !ok {
					die("case expression is not message.X at %v", fset.Position(e.Pos()))
				}
				names = append(names, sel.Sel.Name)
			}
			res = append(res, names) // default clause: empty list
		}
		return false
	})
	if !found {
		die("switch not found in %s", fn.Name.Name)
	}
	return res
}

func exprString(e ast.Expr) string {
	var b bytes.Buffer
	switch e := e.(type) {
	case *ast.Ident:
		return e.Name
	case *ast.SelectorExpr:
		return exprString(e.X) + "." + e.Sel.Name
	case *ast.CallExpr:
		b.WriteString(exprString(e.Fun) + "(")
		for i, a := range e.Args {
			if i > 0 {
				b.WriteString(",")
			}
			b.WriteString(exprString(a))
		}
		b.WriteString(")")
		return b.String()
	case *ast.IndexExpr:
		return exprString(e.X) + "[" + exprString(e.Index) + "]"
	case *ast.BasicLit:
		return e.Value
	case *ast.StarExpr:
		return "*" + exprString(e.X)
	case *ast.UnaryExpr:
		return e.Op.String() + exprString(e.X)
	case *ast.BinaryExpr:
		return "(" + exprString(e.X) + e.Op.String() + exprString(e.Y) + ")"
	case *ast.ParenExpr:
		return exprString(e.X)
	}
	return fmt.Sprintf("<%T>", e)
}

type out struct{ b strings.Builder }

func (o *out) def(name, typ, val string) {
	fmt.Fprintf(&o.b, "def %s : %s := %s\n", name, typ, val)
}

func natList(xs []int) string {
	s := make([]string, len(xs))
	for i, x := range xs {
		s[i] = strconv.Itoa(x)
	}
	return "[" + strings.Join(s, ", ") + "]"
}

// extraSections: the sections registered by the facts_*.go files (in file name
// order); "message" and "sessions" below always come first (allSections).
var extraSections []section

var typeVals map[string]int

func factsMessage(repo string, o *out) {
	f := parse(repo, "message/message.go")
	names, vals := iotaConsts(f, "RESERVED")
	if len(names) != 16 {
		die("expected 16 packet type constants, got %d", len(names))
	}
	typeVals = vals
	for _, n := range names {
		o.def("t"+n, "Nat", strconv.Itoa(vals[n]))
	}
}

func typeList(names []string) []int {
	var r []int
	for _, n := range names {
		v, ok := typeVals[n]
		if !ok {
			die("unknown packet type %s", n)
		}
		r = append(r, v)
	}
	return r
}

// The facts about package sessions come in three sections, so that a rewrite of one function that the
// extractor no longer recognises concerns only the properties that use THAT function's table.
func factsSessions(repo string, o *out) {
	fs := parse(repo, "sessions/session.go")
	o.def("defaultQueueSize", "Nat", strconv.FormatInt(constInt(fs, "defaultQueueSize"), 10))
}

func factsSessionsAck(repo string, o *out) {
	fa := parse(repo, "sessions/ackqueue.go")
	// Ack: switch msg.Type() { case <id types>: …; case PINGRESP: …; default: error }
	ack := findFunc(fa, "Ackqueue", "Ack")
	cs := switchCases(ack, func(sw *ast.SwitchStmt) bool { return sw.Tag != nil && exprString(sw.Tag) == "msg.Type()" })
	if len(cs) != 3 || len(cs[1]) != 1 || len(cs[2]) != 0 {
		die("Ackqueue.Ack: unexpected switch shape %v", cs)
	}
	o.def("ackIdTypes", "List Nat", natList(typeList(cs[0])))
	o.def("ackPingType", "Nat", strconv.Itoa(typeList(cs[1])[0]))
}

func factsSessionsAcked(repo string, o *out) {
	fa := parse(repo, "sessions/ackqueue.go")
	// Acked: switch aq.ring[aq.head].State { case <release set>: …; default: break }
	// or, equivalently: for !aq.empty() && pred(aq.ring[aq.head].State) { … } with a package-level
	//   func pred(state message.Type) bool { switch state { case <release set>: return true }; return false }
	acked := findFunc(fa, "Ackqueue", "Acked")
	hasSwitch := false
	ast.Inspect(acked.Body, func(n ast.Node) bool {
		if sw, ok := n.(*ast.SwitchStmt); ok && sw.Tag != nil && exprString(sw.Tag) == "aq.ring[aq.head].State" {
			hasSwitch = true
		}
		return true
	})
	if hasSwitch {
		cs := switchCases(acked, func(sw *ast.SwitchStmt) bool {
			return sw.Tag != nil && exprString(sw.Tag) == "aq.ring[aq.head].State"
		})
		if len(cs) != 2 || len(cs[1]) != 0 {
			die("Ackqueue.Acked: unexpected switch shape %v", cs)
		}
		o.def("ackedReleaseStates", "List Nat", natList(typeList(cs[0])))
		return
	}
	// the predicate form
	var predName string
	ast.Inspect(acked.Body, func(n ast.Node) bool {
		f, ok := n.(*ast.ForStmt)
		if !ok || f.Cond == nil {
			return true
		}
		ast.Inspect(f.Cond, func(m ast.Node) bool {
			if call, ok := m.(*ast.CallExpr); ok && len(call.Args) == 1 && exprString(call.Args[0]) == "aq.ring[aq.head].State" {
				if id, ok := call.Fun.(*ast.Ident); ok {
					predName = id.Name
				}
			}
			return true
		})
		return true
	})
	if predName == "" {
		die("switch not found in Acked")
	}
	var pred *ast.FuncDecl
	for _, d := range fa.Decls {
		if fd, ok := d.(*ast.FuncDecl); ok && fd.Recv == nil && fd.Name.Name == predName {
			pred = fd
		}
	}
	if pred == nil || pred.Type.Params == nil || len(pred.Type.Params.List) != 1 || len(pred.Type.Params.List[0].Names) != 1 {
		die("Ackqueue.Acked: predicate %s not found or not unary", predName)
	}
	param := pred.Type.Params.List[0].Names[0].Name
	// body: one switch over the parameter whose value cases all `return true`, then (or in default) `return false`
	var states []string
	okShape := len(pred.Body.List) >= 1
	for i, st := range pred.Body.List {
		switch st := st.(type) {
		case *ast.SwitchStmt:
			if i != 0 || st.Tag == nil || exprString(st.Tag) != param {
				okShape = false
				break
			}
			for _, c := range st.Body.List {
				cc := c.(*ast.CaseClause)
				isTrue := len(cc.Body) == 1
				if isTrue {
					r, ok := cc.Body[0].(*ast.ReturnStmt)
					isTrue = ok && len(r.Results) == 1
					if isTrue {
						v := exprString(r.Results[0])
						if cc.List == nil {
							isTrue = v == "false"
						} else {
							isTrue = v == "true"
						}
					}
				}
				if !isTrue {
					okShape = false
				}
				for _, e := range cc.List {
					sel, ok := e.(*ast.SelectorExpr)
					if !ok {
						okShape = false
						continue
					}
					states = append(states, sel.Sel.Name)
				}
			}
		case *ast.ReturnStmt:
			if i != 1 || len(st.Results) != 1 || exprString(st.Results[0]) != "false" {
				okShape = false
			}
		default:
			okShape = false
		}
	}
	if !okShape || len(states) == 0 {
		die("Ackqueue.Acked: predicate %s is not `switch %s { case …: return true }; return false`", predName, param)
	}
	o.def("ackedReleaseStates", "List Nat", natList(typeList(states)))
}
