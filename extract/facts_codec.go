package main

// Facts of package message used by the codec model (Core A).

import (
	"fmt"
	"go/ast"
	"go/token"
	"regexp"
	"sort"
	"strconv"
	"strings"
)

func init() { extraSections = append(extraSections, section{"codec", factsCodec}) }

func intLit(e ast.Expr) (int64, bool) {
	if p, ok := e.(*ast.ParenExpr); ok {
		return intLit(p.X)
	}
	bl, ok := e.(*ast.BasicLit)
	if !ok || (bl.Kind != token.INT && bl.Kind != token.CHAR) {
		return 0, false
	}
	v, err := strconv.ParseInt(bl.Value, 0, 64)
	return v, err == nil
}

// comparisons collects, in source order, every binary comparison `lhs op <int literal>`
// inside fn whose left side prints as lhs.
func comparisons(fn *ast.FuncDecl, lhs string, op token.Token) []int64 {
	var res []int64
	ast.Inspect(fn.Body, func(n ast.Node) bool {
		be, ok := n.(*ast.BinaryExpr)
		if !ok || be.Op != op || exprString(be.X) != lhs {
			return true
		}
		if v, ok := intLit(be.Y); ok {
			res = append(res, v)
		}
		return true
	})
	return res
}

func factsCodec(repo string, o *out) {
	fm := parse(repo, "message/message.go")
	fh := parse(repo, "message/header.go")
	fc := parse(repo, "message/connack.go")
	fn := parse(repo, "message/connect.go")

	// constants
	o.def("maxRemainingLength", "Nat", strconv.FormatInt(constInt(fm, "maxRemainingLength"), 10))
	o.def("maxLPString", "Nat", strconv.FormatInt(constInt(fm, "maxLPString"), 10))
	o.def("maxFixedHeaderLength", "Nat", strconv.FormatInt(constInt(fm, "maxFixedHeaderLength"), 10))
	_, qv := iotaConsts(fm, "QosAtMostOnce")
	for _, n := range []string{"QosAtMostOnce", "QosAtLeastOnce", "QosExactlyOnce"} {
		v, ok := qv[n]
		if !ok {
			die("constant %s not found", n)
		}
		o.def("q"+n[1:], "Nat", strconv.Itoa(v))
	}

	// Type.Valid: t > RESERVED && t < RESERVED2
	valid := findFunc(fm, "Type", "Valid")
	if len(valid.Body.List) != 1 {
		die("Type.Valid: unexpected body")
	}
	ret, ok := valid.Body.List[0].(*ast.ReturnStmt)
	if !ok || len(ret.Results) != 1 {
		die("Type.Valid: unexpected body")
	}
	m := regexp.MustCompile(`^\(\(t>(\w+)\)&&\(t<(\w+)\)\)$`).FindStringSubmatch(exprString(ret.Results[0]))
	if m == nil {
		die("Type.Valid: unexpected expression %s", exprString(ret.Results[0]))
	}
	lo, ok1 := typeVals[m[1]]
	hi, ok2 := typeVals[m[2]]
	if !ok1 || !ok2 {
		die("Type.Valid: unknown bounds")
	}
	o.def("typeValidAbove", "Nat", strconv.Itoa(lo))
	o.def("typeValidBelow", "Nat", strconv.Itoa(hi))

	// Type.DefaultFlags: switch t { case X: return n … }
	df := findFunc(fm, "Type", "DefaultFlags")
	flags := make([]int, 16)
	seen := 0
	ast.Inspect(df.Body, func(n ast.Node) bool {
		cc, ok := n.(*ast.CaseClause)
		if !ok {
			return true
		}
		if len(cc.List) != 1 || len(cc.Body) != 1 {
			die("DefaultFlags: unexpected case shape at %v", fset.Position(cc.Pos()))
		}
		id, ok := cc.List[0].(*ast.Ident)
		rs, ok2 := cc.Body[0].(*ast.ReturnStmt)
		if !ok || !ok2 || len(rs.Results) != 1 {
			die("DefaultFlags: unexpected case shape at %v", fset.Position(cc.Pos()))
		}
		v, ok := intLit(rs.Results[0])
		tv, ok2 := typeVals[id.Name]
		if !ok || !ok2 {
			die("DefaultFlags: unexpected case at %v", fset.Position(cc.Pos()))
		}
		flags[tv] = int(v)
		seen++
		return false
	})
	if seen != 16 {
		die("DefaultFlags: expected 16 cases, got %d", seen)
	}
	o.def("defaultFlags", "List Nat", natList(flags))

	// SupportedVersions map literal
	var vers []string
	for _, d := range fm.Decls {
		gd, ok := d.(*ast.GenDecl)
		if !ok || gd.Tok != token.VAR {
			continue
		}
		for _, s := range gd.Specs {
			vs := s.(*ast.ValueSpec)
			if len(vs.Names) != 1 || vs.Names[0].Name != "SupportedVersions" || len(vs.Values) != 1 {
				continue
			}
			cl, ok := vs.Values[0].(*ast.CompositeLit)
			if !ok {
				die("SupportedVersions: not a composite literal")
			}
			for _, e := range cl.Elts {
				kv := e.(*ast.KeyValueExpr)
				k, ok := intLit(kv.Key)
				sv, ok2 := kv.Value.(*ast.BasicLit)
				if !ok || !ok2 || sv.Kind != token.STRING {
					die("SupportedVersions: unexpected element")
				}
				name, err := strconv.Unquote(sv.Value)
				if err != nil {
					die("SupportedVersions: %v", err)
				}
				bs := make([]string, len(name))
				for i := 0; i < len(name); i++ {
					bs[i] = fmt.Sprintf("0x%02x", name[i])
				}
				// the protocol name as bytes (%s)
				vers = append(vers, fmt.Sprintf("(%d, [%s])", k, strings.Join(bs, ", ")))
			}
		}
	}
	if len(vers) == 0 {
		die("SupportedVersions not found")
	}
	sort.Strings(vers)
	o.def("supportedVersions", "List (Nat × List UInt8)", "["+strings.Join(vers, ", ")+"]")

	// header.msglen thresholds
	ths := comparisons(findFunc(fh, "header", "msglen"), "h.remlen", token.LEQ)
	if len(ths) != 3 {
		die("header.msglen: expected three `h.remlen <= N` tests, got %v", ths)
	}
	for i, v := range ths {
		o.def(fmt.Sprintf("msglenT%d", i+1), "Nat", strconv.FormatInt(v, 10))
	}

	// header.decode: limit on the number of remaining-length bytes.  Either a guard
	// `m > <limit>` on the count returned by binary.Uvarint exists, or the count is
	// unrestricted (binary.MaxVarintLen64 = 10).
	dec := findFunc(fh, "header", "decode")
	limit := int64(10)
	found := 0
	ast.Inspect(dec.Body, func(n ast.Node) bool {
		be, ok := n.(*ast.BinaryExpr)
		if !ok || be.Op != token.GTR || exprString(be.X) != "m" {
			return true
		}
		switch y := exprString(be.Y); {
		case y == "(maxFixedHeaderLength-1)":
			limit = constInt(fm, "maxFixedHeaderLength") - 1
			found++
		default:
			if v, ok := intLit(be.Y); ok {
				limit = v
				found++
			} else {
				die("header.decode: unrecognised limit on the varint length: %s", y)
			}
		}
		return true
	})
	if found > 1 {
		die("header.decode: several limits on the varint length")
	}
	o.def("maxVarintBytes", "Int", strconv.FormatInt(limit, 10))

	// CONNACK return code range: `b > N` in Decode, `m.returnCode > N` in Encode
	cd := comparisons(findFunc(fc, "ConnackMessage", "Decode"), "b", token.GTR)
	ce := comparisons(findFunc(fc, "ConnackMessage", "Encode"), "m.returnCode", token.GTR)
	if len(cd) != 1 || len(ce) != 1 || cd[0] != ce[0] {
		die("connack: unexpected return code tests %v %v", cd, ce)
	}
	o.def("connackMaxCode", "Nat", strconv.FormatInt(cd[0], 10))

	// client identifier pattern
	pat := ""
	ast.Inspect(fn, func(n ast.Node) bool {
		ce, ok := n.(*ast.CallExpr)
		if !ok || exprString(ce.Fun) != "regexp.MustCompile" || len(ce.Args) != 1 {
			return true
		}
		bl, ok := ce.Args[0].(*ast.BasicLit)
		if !ok || bl.Kind != token.STRING {
			die("client id pattern is not a string literal")
		}
		s, err := strconv.Unquote(bl.Value)
		if err != nil {
			die("client id pattern: %v", err)
		}
		pat = s
		return true
	})
	pm := regexp.MustCompile(`^\^\[\[:print:\]\]\{0,(\d+)\}\$$`).FindStringSubmatch(pat)
	if pm == nil {
		die("client id pattern %q is not of the form ^[[:print:]]{0,N}$", pat)
	}
	o.def("clientIDPattern", "String", strconv.Quote(pat))
	o.def("clientIDMaxLen", "Nat", pm[1])
}
