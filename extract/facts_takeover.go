package main

// Session take-over (MQTT-3.1.4-2, repository commit 2856f90): the shape of the code that makes "a CONNECT
// with the client identifier of a live connection ends that connection COMPLETELY, then proceeds" true.
// The broker model (Model/Broker.lean: `connect = takeOver; first`, `takeOver = stopAll (sameClient ..)`)
// and the life-cycle model (Model/Lifecycle.lean: `stop()` reads the will flag after `wgStopped.Wait`)
// take these orders for granted; the runs reach them only when a teardown is in progress or a handshake
// fails at the right moment.  Five small sections, so that a rewrite the extractor does not recognise
// concerns only the properties that cite THAT section's names (lib/vcheck/scope.py):
//
//   takeover-disconnect  Server.disconnectClient               C10, C16   (Properties/C10Source, C16Source)
//   takeover-close       Server.Close and Server.mu            C16
//   takeover-stop        service.stop and the stored CONNECT   C09
//   takeover-connect     Server.handleConnection, connectMu    C09, C10
//   takeover-resumable   Session.Resumable, Server.getSession  C10
//
// The model side of every equation is lean/Mqtt/Model/Takeover.lean (codes: `DcOp.code`, `ConnOp.code`, …).

import (
	"go/ast"
	"go/token"
	"strings"
)

func init() {
	extraSections = append(extraSections,
		section{"takeover-disconnect", factsTakeoverDisconnect},
		section{"takeover-close", factsTakeoverClose},
		section{"takeover-stop", factsTakeoverStop},
		section{"takeover-connect", factsTakeoverConnect},
		section{"takeover-resumable", factsTakeoverResumable},
	)
}

func isCallStmt(st ast.Stmt, fun string) bool {
	es, ok := st.(*ast.ExprStmt)
	if !ok {
		return false
	}
	call, ok := es.X.(*ast.CallExpr)
	return ok && exprString(call.Fun) == fun
}

// isRecvStmt: the statement `<-ch`
func isRecvStmt(st ast.Stmt, ch string) bool {
	es, ok := st.(*ast.ExprStmt)
	if !ok {
		return false
	}
	u, ok := es.X.(*ast.UnaryExpr)
	return ok && u.Op == token.ARROW && exprString(u.X) == ch
}

func isContinueOnly(list []ast.Stmt) bool {
	if len(list) != 1 {
		return false
	}
	b, ok := list[0].(*ast.BranchStmt)
	return ok && b.Tok == token.CONTINUE && b.Label == nil
}

// ---- Server.disconnectClient ------------------------------------------------------------------
//
// takeoverDisconnectSeq, codes = Model.Takeover.DcOp.code, in source order:
//
//	1 svr.mu.Lock()            2 svr.mu.Unlock() (a statement)      3 defer svr.mu.Unlock()
//	inside `for _, s := range svr.svcs`:
//	4 select { case <-s.stopped: continue; default: }   (drop the entries whose teardown has FINISHED)
//	5 if <anything else> { continue }                   (drop by another test, e.g. the closed flag)
//	6 svr.svcs[n] = s (with n++)                        7 if s.sess != nil && s.sess.ID() == cid { same = append(same, s) }
//	8 svr.svcs = svr.svcs[:n]
//	inside `for _, s := range same`:   9 s.stop()   10 <-s.stopped
func factsTakeoverDisconnect(repo string, o *out) {
	fsv := parse(repo, "service/server.go")
	fn := findFunc(fsv, "Server", "disconnectClient")
	if fn == nil || fn.Body == nil {
		die("Server.disconnectClient not found")
	}
	var seq []int
	scan := func(rs *ast.RangeStmt) {
		if exprString(rs.Value) != "s" {
			die("disconnectClient: the loop over svr.svcs does not bind s")
		}
		for _, st := range rs.Body.List {
			switch st := st.(type) {
			case *ast.SelectStmt:
				stopped, deflt := false, false
				for _, cl := range st.Body.List {
					cc := cl.(*ast.CommClause)
					switch {
					case cc.Comm == nil && len(cc.Body) == 0:
						deflt = true
					case cc.Comm != nil && isRecvStmt(cc.Comm, "s.stopped") && isContinueOnly(cc.Body):
						stopped = true
					default:
						die("disconnectClient: unexpected select clause at %v", fset.Position(cc.Pos()))
					}
				}
				if !stopped || !deflt || len(st.Body.List) != 2 {
					die("disconnectClient: the select is not `case <-s.stopped: continue; default:`")
				}
				seq = append(seq, 4)
			case *ast.IfStmt:
				cond := exprString(st.Cond)
				switch {
				case st.Init == nil && st.Else == nil && isContinueOnly(st.Body.List):
					seq = append(seq, 5)
				case cond == "((s.sess!=nil)&&(s.sess.ID()==cid))" && st.Else == nil && len(st.Body.List) == 1:
					as, ok := st.Body.List[0].(*ast.AssignStmt)
					if !ok || len(as.Lhs) != 1 || exprString(as.Lhs[0]) != "same" || exprString(as.Rhs[0]) != "append(same,s)" {
						die("disconnectClient: the same-client branch is not `same = append(same, s)`")
					}
					seq = append(seq, 7)
				default:
					die("disconnectClient: unexpected if (%s) in the loop over svr.svcs", cond)
				}
			case *ast.AssignStmt:
				if len(st.Lhs) == 1 && exprString(st.Lhs[0]) == "svr.svcs[n]" && exprString(st.Rhs[0]) == "s" {
					seq = append(seq, 6)
				} else {
					die("disconnectClient: unexpected assignment at %v", fset.Position(st.Pos()))
				}
			case *ast.IncDecStmt:
				if exprString(st.X) != "n" || st.Tok != token.INC {
					die("disconnectClient: unexpected %s at %v", st.Tok, fset.Position(st.Pos()))
				}
			default:
				die("disconnectClient: unexpected statement in the loop over svr.svcs at %v", fset.Position(st.Pos()))
			}
		}
	}
	for _, st := range fn.Body.List {
		switch st := st.(type) {
		case *ast.DeclStmt: // var same []*service
		case *ast.ExprStmt:
			switch {
			case isCallStmt(st, "svr.mu.Lock"):
				seq = append(seq, 1)
			case isCallStmt(st, "svr.mu.Unlock"):
				seq = append(seq, 2)
			default:
				die("disconnectClient: unexpected statement %s", exprString(st.X))
			}
		case *ast.DeferStmt:
			if exprString(st.Call.Fun) != "svr.mu.Unlock" {
				die("disconnectClient: unexpected defer %s", exprString(st.Call.Fun))
			}
			seq = append(seq, 3)
		case *ast.AssignStmt:
			switch {
			case len(st.Lhs) == 1 && exprString(st.Lhs[0]) == "n" && exprString(st.Rhs[0]) == "0":
			case len(st.Lhs) == 1 && exprString(st.Lhs[0]) == "svr.svcs" && isSliceTo(st.Rhs[0], "svr.svcs", "n"):
				seq = append(seq, 8)
			default:
				die("disconnectClient: unexpected assignment at %v", fset.Position(st.Pos()))
			}
		case *ast.ForStmt:
			// for i := n; i < len(svr.svcs); i++ { svr.svcs[i] = nil }: the dropped tail is cleared
			if len(st.Body.List) != 1 {
				die("disconnectClient: unexpected for loop at %v", fset.Position(st.Pos()))
			}
			as, ok := st.Body.List[0].(*ast.AssignStmt)
			if !ok || exprString(as.Lhs[0]) != "svr.svcs[i]" || exprString(as.Rhs[0]) != "nil" {
				die("disconnectClient: unexpected for loop at %v", fset.Position(st.Pos()))
			}
		case *ast.RangeStmt:
			switch exprString(st.X) {
			case "svr.svcs":
				scan(st)
			case "same":
				if exprString(st.Value) != "s" {
					die("disconnectClient: the loop over same does not bind s")
				}
				for _, b := range st.Body.List {
					switch {
					case isCallStmt(b, "s.stop"):
						seq = append(seq, 9)
					case isRecvStmt(b, "s.stopped"):
						seq = append(seq, 10)
					default:
						die("disconnectClient: unexpected statement in the loop over same at %v", fset.Position(b.Pos()))
					}
				}
			default:
				die("disconnectClient: loop over %s", exprString(st.X))
			}
		default:
			die("disconnectClient: unexpected statement at %v", fset.Position(st.Pos()))
		}
	}
	o.def("takeoverDisconnectSeq", "List Nat", natList(seq))
}

func isSliceTo(e ast.Expr, x, hi string) bool {
	s, ok := e.(*ast.SliceExpr)
	return ok && exprString(s.X) == x && s.Low == nil && s.High != nil && exprString(s.High) == hi && s.Max == nil
}

// ---- Server.Close and Server.mu -----------------------------------------------------------------
//
// takeoverCloseSeq, codes = Model.Takeover.ClOp.code: 1 svr.mu.Lock()  2 svr.mu.Unlock() (a statement)
// 3 defer svr.mu.Unlock()  4 a loop with svc.out.Close()  5 a loop with svc.stop().  Close needs mu only for
// its copy of svcs; it is the one thing that ends a teardown held by a third party (4 before 5).
func factsTakeoverClose(repo string, o *out) {
	fsv := parse(repo, "service/server.go")
	fn := findFunc(fsv, "Server", "Close")
	if fn == nil || fn.Body == nil {
		die("Server.Close not found")
	}
	var seq []int
	for _, st := range fn.Body.List {
		switch st := st.(type) {
		case *ast.ExprStmt:
			switch {
			case isCallStmt(st, "svr.mu.Lock"):
				seq = append(seq, 1)
			case isCallStmt(st, "svr.mu.Unlock"):
				seq = append(seq, 2)
			}
		case *ast.DeferStmt:
			if exprString(st.Call.Fun) == "svr.mu.Unlock" {
				seq = append(seq, 3)
			}
		case *ast.RangeStmt:
			ast.Inspect(st.Body, func(n ast.Node) bool {
				if call, ok := n.(*ast.CallExpr); ok {
					switch exprString(call.Fun) {
					case "svc.out.Close":
						seq = append(seq, 4)
					case "svc.stop":
						seq = append(seq, 5)
					case "svr.mu.Lock", "svr.mu.Unlock":
						die("Server.Close: Server.mu is used inside a loop")
					}
				}
				return true
			})
		}
	}
	o.def("takeoverCloseSeq", "List Nat", natList(seq))
}

// ---- service.stop and the stored CONNECT ----------------------------------------------------------
//
// takeoverStopSessReads: in source order, 6 = svc.wgStopped.Wait() and every read of the session's stored
// CONNECT or will: 21 = ….Cmsg.WillFlag()  22 = ….Will  23 = ….Cmsg.CleanSession()  24 = any other use of ….Cmsg,
// where … is svc.sess or a local variable assigned from svc.sess.  The processor clears the will flag when it
// processes DISCONNECT and keeps working off the incoming ring after in.Close(); a stop() called from outside
// (take-over, Server.Close) therefore may look at the flag only when the processor has finished: after 6.
func factsTakeoverStop(repo string, o *out) {
	fsvc := parse(repo, "service/service.go")
	fn := findFunc(fsvc, "service", "stop")
	if fn == nil || fn.Body == nil {
		die("service.stop not found")
	}
	alias := map[string]bool{"svc.sess": true}
	var seq []int
	handled := map[ast.Node]bool{}
	ast.Inspect(fn.Body, func(n ast.Node) bool {
		switch n := n.(type) {
		case *ast.AssignStmt:
			for i, r := range n.Rhs {
				if i < len(n.Lhs) && alias[exprString(r)] {
					alias[exprString(n.Lhs[i])] = true
				}
			}
		case *ast.ValueSpec:
			for i, r := range n.Values {
				if i < len(n.Names) && alias[exprString(r)] {
					alias[n.Names[i].Name] = true
				}
			}
		case *ast.CallExpr:
			s := exprString(n.Fun)
			if s == "svc.wgStopped.Wait" {
				seq = append(seq, 6)
				return true
			}
			if sel, ok := n.Fun.(*ast.SelectorExpr); ok {
				if in, ok := sel.X.(*ast.SelectorExpr); ok && in.Sel.Name == "Cmsg" && alias[exprString(in.X)] {
					switch sel.Sel.Name {
					case "WillFlag":
						seq = append(seq, 21)
					case "CleanSession":
						seq = append(seq, 23)
					default:
						seq = append(seq, 24)
					}
					handled[in] = true
				}
			}
		case *ast.SelectorExpr:
			if handled[n] || !alias[exprString(n.X)] {
				return true
			}
			switch n.Sel.Name {
			case "Cmsg":
				seq = append(seq, 24)
			case "Will":
				seq = append(seq, 22)
			}
		}
		return true
	})
	o.def("takeoverStopSessReads", "List Nat", natList(seq))
}

// ---- Server.handleConnection and connectMu --------------------------------------------------------
//
// takeoverConnectSeq, codes = Model.Takeover.ConnOp.code, in source order (top-level statements and the
// bodies of their if statements): 1 svr.connectMu.Lock()  2 defer svr.connectMu.Unlock()
// 3 svr.connectMu.Unlock() as a statement  4 svr.disconnectClient(string(req.ClientID())) inside
// `if len(req.ClientID()) > 0`  5 svr.getSession(svc, req, resp)  6 writeMessage(c, resp)  7 svc.start()
// 8 svr.svcs = append(svr.svcs, svc).  takeoverStoppedMade: the service literal has `stopped: make(chan struct{})`.
func factsTakeoverConnect(repo string, o *out) {
	fsv := parse(repo, "service/server.go")
	fn := findFunc(fsv, "Server", "handleConnection")
	if fn == nil || fn.Body == nil {
		die("Server.handleConnection not found")
	}
	var seq []int
	made := false
	// the branch taken when the CONNACK of an accepted CONNECT cannot be written: `if err =
	// writeMessage(c, resp); err != nil { return nil, err }` - nothing but the return (Model/Broker.lean
	// `firstFail`: after getSession nothing happens to the stores; the deferred c.Close() closes the socket)
	failReturnsOnly, failSeen := false, false
	var walk func(list []ast.Stmt, guard string)
	calls := func(n ast.Node, guard string) {
		ast.Inspect(n, func(m ast.Node) bool {
			switch m := m.(type) {
			case *ast.FuncLit:
				return false
			case *ast.KeyValueExpr:
				if exprString(m.Key) == "stopped" && exprString(m.Value) == "make(<*ast.ChanType>)" {
					made = true
				}
			case *ast.CallExpr:
				switch s := exprString(m.Fun); s {
				case "svr.connectMu.Lock":
					seq = append(seq, 1)
				case "svr.connectMu.Unlock":
					seq = append(seq, 3)
				case "svr.disconnectClient":
					if guard != "(len(req.ClientID())>0)" || len(m.Args) != 1 || exprString(m.Args[0]) != "string(req.ClientID())" {
						die("handleConnection: disconnectClient is not called as `if len(req.ClientID()) > 0 { svr.disconnectClient(string(req.ClientID())) }`")
					}
					seq = append(seq, 4)
				case "svr.getSession":
					seq = append(seq, 5)
				case "writeMessage":
					if len(m.Args) == 2 && exprString(m.Args[0]) == "c" {
						seq = append(seq, 6)
					}
				case "svc.start":
					seq = append(seq, 7)
				case "append":
					if len(m.Args) == 2 && exprString(m.Args[0]) == "svr.svcs" && exprString(m.Args[1]) == "svc" {
						seq = append(seq, 8)
					}
				}
			}
			return true
		})
	}
	walk = func(list []ast.Stmt, guard string) {
		for _, st := range list {
			switch st := st.(type) {
			case *ast.DeferStmt:
				switch exprString(st.Call.Fun) {
				case "svr.connectMu.Unlock":
					if guard != "" {
						die("handleConnection: connectMu is released by a defer inside a branch")
					}
					seq = append(seq, 2)
				default:
					if _, isLit := st.Call.Fun.(*ast.FuncLit); !isLit {
						die("handleConnection: unexpected defer %s", exprString(st.Call.Fun))
					}
					// the deferred closures (close the socket on error, recover) may not touch connectMu
					ast.Inspect(st.Call.Fun, func(m ast.Node) bool {
						if call, ok := m.(*ast.CallExpr); ok {
							if s := exprString(call.Fun); s == "svr.connectMu.Unlock" || s == "svr.connectMu.Lock" {
								die("handleConnection: connectMu is used inside a deferred function literal")
							}
						}
						return true
					})
				}
			case *ast.IfStmt:
				if st.Init != nil {
					calls(st.Init, guard)
					if as, ok := st.Init.(*ast.AssignStmt); ok && len(as.Rhs) == 1 && exprString(as.Rhs[0]) == "writeMessage(c,resp)" {
						failSeen = true
						if n := len(st.Body.List); n >= 1 && st.Else == nil && exprString(st.Cond) == "(err!=nil)" {
							// logging in front of the return is nothing
							onlyLogs := true
							for _, b := range st.Body.List[:n-1] {
								es, ok := b.(*ast.ExprStmt)
								if !ok {
									onlyLogs = false
									break
								}
								call, ok := es.X.(*ast.CallExpr)
								if !ok || !strings.HasPrefix(exprString(call.Fun), "log.") {
									onlyLogs = false
								}
							}
							if r, ok := st.Body.List[n-1].(*ast.ReturnStmt); ok && onlyLogs && len(r.Results) == 2 &&
								exprString(r.Results[0]) == "nil" && exprString(r.Results[1]) == "err" {
								failReturnsOnly = true
							}
						}
					}
				}
				calls(st.Cond, guard)
				walk(st.Body.List, exprString(st.Cond))
				if st.Else != nil {
					if blk, ok := st.Else.(*ast.BlockStmt); ok {
						walk(blk.List, "else")
					} else {
						walk([]ast.Stmt{st.Else}, "else")
					}
				}
			case *ast.BlockStmt:
				walk(st.List, guard)
			case *ast.GoStmt:
				die("handleConnection: a go statement")
			default:
				calls(st, guard)
			}
		}
	}
	walk(fn.Body.List, "")
	o.def("takeoverConnectSeq", "List Nat", natList(seq))
	o.def("takeoverStoppedMade", "Bool", boolLit(made))
	if !failSeen {
		die("handleConnection: `if err = writeMessage(c, resp); err != nil {…}` not found")
	}
	o.def("takeoverWriteFailReturnsOnly", "Bool", boolLit(failReturnsOnly))
}

// ---- Session.Resumable and Server.getSession --------------------------------------------------------
//
// takeoverResumable: the conjuncts of Resumable's result, in order: 1 s.initted  2 s.Cmsg != nil
// 3 !s.Cmsg.CleanSession()  (codes = Model.Takeover.ResOp.code); takeoverResumableLocked: the body is
// `s.mu.Lock(); defer s.mu.Unlock(); return …`.
// takeoverGetSessionResume: the resuming branch of getSession, in source order: 1 `if !req.CleanSession()`
// 2 svr.sessMgr.Get(cid)  3 sess.Resumable() in the condition (conjoined with err == nil)
// 4 resp.SetSessionPresent(true)  5 svc.sess.Update(req)  — inside 1; 6 svr.sessMgr.New(cid)
// 7 resp.SetSessionPresent(false)  8 svc.sess.Init(req) — inside `if svc.sess == nil`.
func factsTakeoverResumable(repo string, o *out) {
	fs := parse(repo, "sessions/session.go")
	fn := findFunc(fs, "Session", "Resumable")
	if fn == nil || fn.Body == nil {
		die("Session.Resumable not found")
	}
	locked := len(fn.Body.List) == 3 && isCallStmt(fn.Body.List[0], "s.mu.Lock")
	if locked {
		d, ok := fn.Body.List[1].(*ast.DeferStmt)
		locked = ok && exprString(d.Call.Fun) == "s.mu.Unlock"
	}
	ret, ok := fn.Body.List[len(fn.Body.List)-1].(*ast.ReturnStmt)
	if !ok || len(ret.Results) != 1 {
		die("Session.Resumable: the last statement is not `return <expr>`")
	}
	for _, st := range fn.Body.List[:len(fn.Body.List)-1] {
		ast.Inspect(st, func(n ast.Node) bool {
			if _, ok := n.(*ast.ReturnStmt); ok {
				die("Session.Resumable: more than one return")
			}
			return true
		})
	}
	var conj []int
	var flat func(e ast.Expr)
	flat = func(e ast.Expr) {
		if p, ok := e.(*ast.ParenExpr); ok {
			flat(p.X)
			return
		}
		if b, ok := e.(*ast.BinaryExpr); ok && b.Op == token.LAND {
			flat(b.X)
			flat(b.Y)
			return
		}
		switch s := exprString(e); s {
		case "s.initted":
			conj = append(conj, 1)
		case "(s.Cmsg!=nil)":
			conj = append(conj, 2)
		case "!s.Cmsg.CleanSession()":
			conj = append(conj, 3)
		default:
			die("Session.Resumable: unexpected term %s", s)
		}
	}
	flat(ret.Results[0])
	o.def("takeoverResumable", "List Nat", natList(conj))
	o.def("takeoverResumableLocked", "Bool", boolLit(locked))

	fsv := parse(repo, "service/server.go")
	gs := findFunc(fsv, "Server", "getSession")
	if gs == nil || gs.Body == nil {
		die("Server.getSession not found")
	}
	var seq []int
	var walk func(list []ast.Stmt, guard string)
	calls := func(n ast.Node, guard string) {
		ast.Inspect(n, func(m ast.Node) bool {
			call, ok := m.(*ast.CallExpr)
			if !ok {
				return true
			}
			switch s := exprString(call.Fun); s {
			case "svr.sessMgr.Get":
				if guard != "!req.CleanSession()" {
					die("getSession: the session store is consulted outside `if !req.CleanSession()`")
				}
				seq = append(seq, 2)
			case "resp.SetSessionPresent":
				if len(call.Args) != 1 {
					die("getSession: SetSessionPresent")
				}
				switch exprString(call.Args[0]) {
				case "true":
					seq = append(seq, 4)
				case "false":
					seq = append(seq, 7)
				default:
					die("getSession: SetSessionPresent(%s)", exprString(call.Args[0]))
				}
			case "svc.sess.Update":
				seq = append(seq, 5)
			case "svr.sessMgr.New":
				seq = append(seq, 6)
			case "svc.sess.Init":
				seq = append(seq, 8)
			}
			return true
		})
	}
	walk = func(list []ast.Stmt, guard string) {
		for _, st := range list {
			ifs, ok := st.(*ast.IfStmt)
			if !ok {
				calls(st, guard)
				continue
			}
			cond := exprString(ifs.Cond)
			inner := guard
			switch {
			case cond == "!req.CleanSession()" && guard == "":
				seq = append(seq, 1)
				inner = cond
			case guard == "!req.CleanSession()" && ifs.Init != nil:
				// if sess, err := svr.sessMgr.Get(cid); err == nil && sess.Resumable() { … }
				calls(ifs.Init, guard)
				if cond != "((err==nil)&&sess.Resumable())" {
					die("getSession: a stored session is resumed under %s", cond)
				}
				seq = append(seq, 3)
				inner = "resume"
			case cond == "(svc.sess==nil)" && guard == "":
				inner = "new"
			default:
				if ifs.Init != nil {
					calls(ifs.Init, guard)
				}
			}
			walk(ifs.Body.List, inner)
			if ifs.Else != nil {
				die("getSession: an else branch at %v", fset.Position(ifs.Else.Pos()))
			}
		}
	}
	walk(gs.Body.List, "")
	o.def("takeoverGetSessionResume", "List Nat", natList(seq))
}
