package main

// Facts the framing model (lean/Mqtt/Model/Framing.lean, property C05) depends on:
//
//   service/misc.go      getMessageBuffer: the limit N of `if l > N` (header bytes read before CONNECT),
//                        and the shape of what follows the header loop (Uvarint of buf[1:], one make of
//                        remlen bytes appended, reads until len(buf))
//   service/sendrecv.go  peekMessageSize: `cnt int = S`, `if cnt > N`, total = int(remlen) + 1 + m
//                        peekMessage: mtype.New() failure returns before Decode; a decoded PUBLISH with
//                        QoS != 0 and PacketID() == 0 is an error return
//   service/server.go    handleConnection has a deferred recover()
//   service/process.go   processor has a deferred recover(); an error of processIncoming other than
//                        errDisconnect does not end the loop
//
// Pure pattern matching; a shape that is not recognised is fatal.

import (
	"go/ast"
	"go/token"
	"strconv"
)

func init() { extraSections = append(extraSections, section{"framing", factsFraming}) }

// limitOf returns N of the first `if <v> > N {... return ...}` statement inside fn.
func limitOf(fn *ast.FuncDecl, v string) int64 {
	res := int64(-1)
	ast.Inspect(fn.Body, func(n ast.Node) bool {
		if res >= 0 {
			return false
		}
		ifs, ok := n.(*ast.IfStmt)
		if !ok {
			return true
		}
		be, ok := ifs.Cond.(*ast.BinaryExpr)
		if !ok || be.Op != token.GTR || exprString(be.X) != v {
			return true
		}
		hasReturn := false
		for _, s := range ifs.Body.List {
			if _, ok := s.(*ast.ReturnStmt); ok {
				hasReturn = true
			}
		}
		if !hasReturn {
			die("%s: `if %s > …` does not return", fn.Name.Name, v)
		}
		res = evalInt(be.Y)
		return false
	})
	if res < 0 {
		die("%s: `if %s > N` not found", fn.Name.Name, v)
	}
	return res
}

// hasDeferredRecover: a `defer func() { … recover() … }()` directly in fn's body.
func hasDeferredRecover(fn *ast.FuncDecl) bool {
	found := false
	for _, s := range fn.Body.List {
		d, ok := s.(*ast.DeferStmt)
		if !ok {
			continue
		}
		fl, ok := d.Call.Fun.(*ast.FuncLit)
		if !ok {
			continue
		}
		ast.Inspect(fl.Body, func(n ast.Node) bool {
			if c, ok := n.(*ast.CallExpr); ok && exprString(c.Fun) == "recover" {
				found = true
			}
			return true
		})
	}
	return found
}

func containsReturn(b *ast.BlockStmt) bool {
	r := false
	ast.Inspect(b, func(n ast.Node) bool {
		if _, ok := n.(*ast.FuncLit); ok {
			return false
		}
		if _, ok := n.(*ast.ReturnStmt); ok {
			r = true
		}
		return true
	})
	return r
}

func factsFraming(repo string, o *out) {
	fm := parse(repo, "service/misc.go")
	gmb := findFunc(fm, "", "getMessageBuffer")
	o.def("framingPreMaxHeader", "Nat", strconv.FormatInt(limitOf(gmb, "l"), 10))
	// remlen, _ := binary.Uvarint(buf[1:]) ; buf = append(buf, make([]byte, remlen)...)
	uv, mk := false, false
	ast.Inspect(gmb.Body, func(n ast.Node) bool {
		as, ok := n.(*ast.AssignStmt)
		if !ok || len(as.Rhs) != 1 {
			return true
		}
		switch exprString(as.Rhs[0]) {
		case "binary.Uvarint(<*ast.SliceExpr>)":
			se := as.Rhs[0].(*ast.CallExpr).Args[0].(*ast.SliceExpr)
			if exprString(se.X) == "buf" && se.Low != nil && exprString(se.Low) == "1" && se.High == nil &&
				len(as.Lhs) == 2 && exprString(as.Lhs[0]) == "remlen" && exprString(as.Lhs[1]) == "_" {
				uv = true
			}
		case "append(buf,make(<*ast.ArrayType>,remlen))":
			if c := as.Rhs[0].(*ast.CallExpr); c.Ellipsis.IsValid() && exprString(as.Lhs[0]) == "buf" {
				mk = true
			}
		}
		return true
	})
	if !uv || !mk {
		die("getMessageBuffer: `remlen, _ := binary.Uvarint(buf[1:])` / `buf = append(buf, make([]byte, remlen)...)` not found")
	}

	fs := parse(repo, "service/sendrecv.go")
	pms := findFunc(fs, "service", "peekMessageSize")
	o.def("framingPostMaxCnt", "Nat", strconv.FormatInt(limitOf(pms, "cnt"), 10))
	start := int64(-1)
	total := false
	ast.Inspect(pms.Body, func(n ast.Node) bool {
		switch x := n.(type) {
		case *ast.ValueSpec:
			for i, nm := range x.Names {
				if nm.Name == "cnt" && i < len(x.Values) {
					start = evalInt(x.Values[i])
				}
			}
		case *ast.AssignStmt:
			if len(x.Lhs) == 1 && exprString(x.Lhs[0]) == "total" && len(x.Rhs) == 1 &&
				exprString(x.Rhs[0]) == "((int(remlen)+1)+m)" {
				total = true
			}
		}
		return true
	})
	if start < 0 {
		die("peekMessageSize: initial value of cnt not found")
	}
	if !total {
		die("peekMessageSize: `total := int(remlen) + 1 + m` not found")
	}
	o.def("framingPostCntStart", "Nat", strconv.FormatInt(start, 10))

	// peekMessage: msg, err = mtype.New(); if err != nil { return … } precedes msg.Decode(b)
	pm := findFunc(fs, "service", "peekMessage")
	newPos, decPos, retAfterNew := token.NoPos, token.NoPos, false
	for i, s := range pm.Body.List {
		if as, ok := s.(*ast.AssignStmt); ok && len(as.Rhs) == 1 {
			switch exprString(as.Rhs[0]) {
			case "mtype.New()":
				newPos = as.Pos()
				if i+1 < len(pm.Body.List) {
					if ifs, ok := pm.Body.List[i+1].(*ast.IfStmt); ok && exprString(ifs.Cond) == "(err!=nil)" && containsReturn(ifs.Body) {
						retAfterNew = true
					}
				}
			case "msg.Decode(b)":
				decPos = as.Pos()
			}
		}
	}
	if !newPos.IsValid() || !decPos.IsValid() || newPos > decPos || !retAfterNew {
		die("peekMessage: `msg, err = mtype.New(); if err != nil { return }; n, err = msg.Decode(b)` not found")
	}

	// if pm, ok := msg.(*message.PublishMessage); ok && pm.QoS() != message.QosAtMostOnce && pm.PacketID() == 0 { return … }
	idCheck := false
	ast.Inspect(pm.Body, func(n ast.Node) bool {
		ifs, ok := n.(*ast.IfStmt)
		if !ok || ifs.Init == nil || ifs.Pos() < decPos {
			return true
		}
		as, ok := ifs.Init.(*ast.AssignStmt)
		if !ok || len(as.Lhs) != 2 || len(as.Rhs) != 1 {
			return true
		}
		ta, ok := as.Rhs[0].(*ast.TypeAssertExpr)
		if !ok || exprString(ta.X) != "msg" || exprString(ta.Type) != "*message.PublishMessage" {
			return true
		}
		v := exprString(as.Lhs[0])
		want := "((" + exprString(as.Lhs[1]) + "&&(" + v + ".QoS()!=message.QosAtMostOnce))&&(" + v + ".PacketID()==0))"
		if exprString(ifs.Cond) == want && containsReturn(ifs.Body) {
			idCheck = true
		}
		return true
	})
	o.def("framingRejectsPublishIdZero", "Bool", strconv.FormatBool(idCheck))

	fsrv := parse(repo, "service/server.go")
	o.def("framingAcceptRecovers", "Bool", strconv.FormatBool(hasDeferredRecover(findFunc(fsrv, "Server", "handleConnection"))))

	fp := parse(repo, "service/process.go")
	proc := findFunc(fp, "service", "processor")
	o.def("framingProcessorRecovers", "Bool", strconv.FormatBool(hasDeferredRecover(proc)))
	// err = p.processIncoming(msg); if err != nil { if err != errDisconnect { <no return> } else { return } }
	cont := -1
	ast.Inspect(proc.Body, func(n ast.Node) bool {
		blk, ok := n.(*ast.BlockStmt)
		if !ok {
			return true
		}
		for i, s := range blk.List {
			as, ok := s.(*ast.AssignStmt)
			if !ok || len(as.Rhs) != 1 || exprString(as.Rhs[0]) != "p.processIncoming(msg)" {
				continue
			}
			if i+1 >= len(blk.List) {
				die("processor: nothing follows processIncoming")
			}
			outer, ok := blk.List[i+1].(*ast.IfStmt)
			if !ok || exprString(outer.Cond) != "(err!=nil)" || len(outer.Body.List) != 1 {
				die("processor: `if err != nil { … }` after processIncoming not recognised")
			}
			inner, ok := outer.Body.List[0].(*ast.IfStmt)
			if !ok || exprString(inner.Cond) != "(err!=errDisconnect)" || inner.Else == nil {
				die("processor: `if err != errDisconnect { … } else { return }` not recognised")
			}
			els, ok := inner.Else.(*ast.BlockStmt)
			if !ok || !containsReturn(els) {
				die("processor: the errDisconnect branch does not return")
			}
			if containsReturn(inner.Body) {
				cont = 0
			} else {
				cont = 1
			}
		}
		return true
	})
	if cont < 0 {
		die("processor: call of processIncoming not found")
	}
	o.def("framingNonFatalContinues", "Bool", strconv.FormatBool(cont == 1))
}
