package main

// Property C12 (finding E5): the LOCK STRUCTURE of service.ackmu.
//
// "Send a request and register it" (publish with QoS 1/2, subscribe,
// unsubscribe, ping) and "mark a request acknowledged" (processIncoming through
// the helper ack) are two critical sections of one mutex; the completion
// callbacks (processAcked) run outside it.  Lean's Model/AckLock.lean runs the
// two programs as lists of operations; Proofs/AckLock.lean proves that the
// lists below are the shapes of exactly those programs.
//
// Purely lexical (go/ast, source order).  Codes:
//
//	1  <recv>.ackmu.Lock()          (statement)
//	2  defer <recv>.ackmu.Unlock()
//	3  <recv>.writeMessage(…)
//	4  verifAckWindow(…)
//	5  <recv>.sess.<queue>.Wait(…)
//	6  <recv>.ackmu.Unlock()        (statement; the source has none)
//	7  <recv>.sendPublish(…)
//	8  onComplete(…)                (the completion callback called directly)
//	9  <x>.Ack(…)                   (Ackqueue.Ack)
//	10 <recv>.ack(…)
//	11 <recv>.processAcked(…)
//
// Function literals are not entered (they run later, from processAcked); the
// calls 1-7, 9-11 found inside function literals, deferred (other than 2) or
// started with `go` are counted in ackIrregular (expected 0).
//
// Nothing here is fatal: a function that is missing yields the empty list, so
// that a source of another shape breaks the obligations of C12
// (Proofs/AckLock.facts_*) and not the fact extraction of every property.

import (
	"fmt"
	"go/ast"
	"go/parser"
	"os"
	"path/filepath"
	"regexp"
	"sort"
	"strings"
)

func init() { extraSections = append(extraSections, section{"acklock", factsAckLock}) }

var ackWaitRe = regexp.MustCompile(`^\w+\.sess\.\w+\.Wait$`)

var ackIrregular int

// ackCode classifies a call (0 = not relevant).
func ackCode(call *ast.CallExpr) int {
	s := exprString(call.Fun)
	switch {
	case strings.HasSuffix(s, ".ackmu.Lock"):
		return 1
	case strings.HasSuffix(s, ".ackmu.Unlock"):
		return 6
	case strings.HasSuffix(s, ".writeMessage"):
		return 3
	case s == "verifAckWindow":
		return 4
	case ackWaitRe.MatchString(s):
		return 5
	case strings.HasSuffix(s, ".sendPublish"):
		return 7
	case s == "onComplete":
		return 8
	case strings.HasSuffix(s, ".Ack"):
		return 9
	case strings.HasSuffix(s, ".ack"):
		return 10
	case strings.HasSuffix(s, ".processAcked"):
		return 11
	}
	return 0
}

// ackSeq lists the codes of the relevant calls below node, in source order.
func ackSeq(who string, node ast.Node) []int {
	seq := []int{}
	ast.Inspect(node, func(n ast.Node) bool {
		switch n := n.(type) {
		case *ast.FuncLit:
			ast.Inspect(n.Body, func(m ast.Node) bool {
				if call, ok := m.(*ast.CallExpr); ok {
					if c := ackCode(call); c != 0 && c != 8 {
						ackIrregular++
					}
				}
				return true
			})
			return false
		case *ast.DeferStmt:
			if c := ackCode(n.Call); c == 6 {
				seq = append(seq, 2)
				return false
			} else if c != 0 {
				ackIrregular++
			}
		case *ast.GoStmt:
			if c := ackCode(n.Call); c != 0 {
				ackIrregular++
			}
		case *ast.CallExpr:
			if c := ackCode(n); c != 0 {
				seq = append(seq, c)
			}
		}
		return true
	})
	return seq
}

func leanStr(s string) string { return fmt.Sprintf("%q", s) }

func leanStrList(xs []string) string {
	q := make([]string, len(xs))
	for i, x := range xs {
		q[i] = leanStr(x)
	}
	return "[" + strings.Join(q, ", ") + "]"
}

func leanNamedSeqs(names []string, seqs [][]int) string {
	parts := make([]string, len(names))
	for i := range names {
		parts[i] = "(" + leanStr(names[i]) + ", " + natList(seqs[i]) + ")"
	}
	return "[" + strings.Join(parts, ", ") + "]"
}

func factsAckLock(repo string, o *out) {
	dir := filepath.Join(repo, "service")
	ents, err := os.ReadDir(dir)
	if err != nil {
		die("%v", err)
	}
	funcs := map[string]*ast.FuncDecl{}
	var order []string
	for _, e := range ents {
		n := e.Name()
		if !strings.HasSuffix(n, ".go") || strings.HasSuffix(n, "_test.go") {
			continue
		}
		f, err := parser.ParseFile(fset, filepath.Join(dir, n), nil, parser.SkipObjectResolution)
		if err != nil {
			die("%v", err)
		}
		for _, d := range f.Decls {
			fd, ok := d.(*ast.FuncDecl)
			if !ok || fd.Body == nil {
				continue
			}
			key := fd.Name.Name
			if fd.Recv != nil && len(fd.Recv.List) == 1 {
				t := fd.Recv.List[0].Type
				if s, ok := t.(*ast.StarExpr); ok {
					t = s.X
				}
				if id, ok := t.(*ast.Ident); ok && id.Name != "service" {
					key = id.Name + "." + key
				}
			}
			if _, dup := funcs[key]; dup {
				continue // build-tag twins (verif on/off): neither touches ackmu, checked through the site lists
			}
			funcs[key] = fd
			order = append(order, key)
		}
	}
	sort.Strings(order)
	// body of a function of the package; an empty block if there is no such function
	need := func(name string) *ast.BlockStmt {
		if fd, ok := funcs[name]; ok {
			return fd.Body
		}
		return &ast.BlockStmt{}
	}

	// ---- the sending calls
	senders := []string{"publish", "sendPublish", "subscribe", "unsubscribe", "ping"}
	var sseqs [][]int
	for _, s := range senders {
		sseqs = append(sseqs, ackSeq(s, need(s)))
	}
	o.def("ackSenders", "List (String × List Nat)", leanNamedSeqs(senders, sseqs))

	// publish begins with: if msg.QoS() == message.QosAtMostOnce { return svc.sendPublish(msg, onComplete) }
	guard := false
	if pb := need("publish").List; len(pb) > 0 {
		if is, ok := pb[0].(*ast.IfStmt); ok && is.Init == nil && is.Else == nil &&
			exprString(is.Cond) == "(msg.QoS()==message.QosAtMostOnce)" && len(is.Body.List) == 1 {
			if rs, ok := is.Body.List[0].(*ast.ReturnStmt); ok && len(rs.Results) == 1 &&
				exprString(rs.Results[0]) == "svc.sendPublish(msg,onComplete)" {
				guard = true
			}
		}
	}
	o.def("ackPublishQos0Guard", "Bool", boolLit(guard))

	// the `switch msg.QoS()` of sendPublish, per case
	var cnames []string
	var cseqs [][]int
	nsw := 0
	ast.Inspect(need("sendPublish"), func(n ast.Node) bool {
		sw, ok := n.(*ast.SwitchStmt)
		if !ok {
			return true
		}
		nsw++
		if sw.Tag == nil || exprString(sw.Tag) != "msg.QoS()" {
			return false
		}
		for _, st := range sw.Body.List {
			cc := st.(*ast.CaseClause)
			var labels []string
			for _, e := range cc.List {
				labels = append(labels, strings.TrimPrefix(exprString(e), "message."))
			}
			if cc.List == nil {
				labels = []string{"default"}
			}
			cnames = append(cnames, strings.Join(labels, ","))
			seq := []int{}
			for _, b := range cc.Body {
				seq = append(seq, ackSeq("sendPublish", b)...)
			}
			cseqs = append(cseqs, seq)
		}
		return false
	})
	o.def("ackSendPublishSwitches", "Nat", fmt.Sprint(nsw))
	o.def("ackSendPublishCases", "List (String × List Nat)", leanNamedSeqs(cnames, cseqs))

	// ---- the processor side
	o.def("ackHelper", "List Nat", natList(ackSeq("ack", need("ack"))))
	var tnames []string
	var tseqs [][]int
	nts := 0
	ast.Inspect(need("processIncoming"), func(n ast.Node) bool {
		ts, ok := n.(*ast.TypeSwitchStmt)
		if !ok {
			return true
		}
		nts++
		for _, st := range ts.Body.List {
			cc := st.(*ast.CaseClause)
			seq := []int{}
			for _, b := range cc.Body {
				seq = append(seq, ackSeq("processIncoming", b)...)
			}
			rel := false
			for _, c := range seq {
				if c != 3 {
					rel = true
				}
			}
			if !rel {
				continue
			}
			var labels []string
			for _, e := range cc.List {
				labels = append(labels, strings.TrimPrefix(strings.TrimPrefix(exprString(e), "*"), "message."))
			}
			if cc.List == nil {
				labels = []string{"default"}
			}
			tnames = append(tnames, strings.Join(labels, ","))
			tseqs = append(tseqs, seq)
		}
		return false
	})
	o.def("ackProcessIncomingSwitches", "Nat", fmt.Sprint(nts))
	o.def("ackProcessIncoming", "List (String × List Nat)", leanNamedSeqs(tnames, tseqs))
	// nothing relevant outside the type switch
	count := func(seq []int) int {
		n := 0
		for _, c := range seq {
			if c != 3 {
				n++
			}
		}
		return n
	}
	rest := count(ackSeq("processIncoming", need("processIncoming")))
	inCases := 0
	for _, s := range tseqs {
		inCases += count(s)
	}
	o.def("ackProcessIncomingOutside", "Nat", fmt.Sprint(rest-inCases))

	// ---- where the operations occur at all (package service, every non-test file), with multiplicity
	sites := map[int][]string{}
	for _, name := range order {
		for _, c := range ackSeq(name, funcs[name].Body) {
			sites[c] = append(sites[c], name)
		}
	}
	o.def("ackLockSites", "List String", leanStrList(sites[1]))
	o.def("ackDeferUnlockSites", "List String", leanStrList(sites[2]))
	o.def("ackUnlockSites", "List String", leanStrList(sites[6]))
	o.def("ackWaitSites", "List String", leanStrList(sites[5]))
	o.def("ackAckSites", "List String", leanStrList(sites[9]))
	o.def("ackHelperCallers", "List String", leanStrList(sites[10]))
	o.def("ackProcessAckedCallers", "List String", leanStrList(sites[11]))
	o.def("ackSendPublishCallers", "List String", leanStrList(sites[7]))
	o.def("ackWindowSites", "List String", leanStrList(sites[4]))
	// the site lists were computed last: every function of the package has been walked by now
	o.def("ackIrregular", "Nat", fmt.Sprint(ackIrregular))
}
