package main

// Core F facts (connection life-cycle, property C16): the shape of service.stop,
// of the three per-connection goroutines, of writeMessage and of Server.Close
// that lean/Mqtt/Model/Lifecycle.lean is written against.  Everything is a
// sequence of small naturals in source order; `Proofs/LifecycleFacts.lean`
// equates them with the model's literals by `decide`, so that reordering stop,
// dropping a Close or a recover, or stopping before the rings are closed makes
// a proof fail (the scenarios then supply the failing run).
//
// stop (lifeStopSeq), codes = Model.Lifecycle.StopOp.code:
//   1 CompareAndSwapInt64(&svc.closed,0,1)   2 close(svc.done)   3 svc.conn.Close()
//   4 svc.in.Close()   5 svc.out.Close()   6 svc.wgStopped.Wait()
//   7 svc.topicsMgr.Unsubscribe(..)   8 svc.onPublish(svc.sess.Will)   9 svc.sessMgr.Del(..)
//   10 an assignment to svc.conn / svc.in / svc.out (the repaired code has none)

import (
	"go/ast"
	"go/token"
	"strings"
)

func init() { extraSections = append(extraSections, section{"life", factsLife}) }

// calls inside stop that have no code of their own
var stopIgnored = map[string]bool{
	"recover": true, "svc.cid": true, "verifStopped": true, "svc.sess.Topics": true,
	"atomic.LoadInt64": true, "topics.Unregister": true, "svc.sess.ID": true,
	"svc.sess.Cmsg.WillFlag": true, "svc.sess.Cmsg.CleanSession": true,
}

func isLogCall(s string) bool { return strings.HasPrefix(s, "log.") }

// startsWithRecover: the first statement of fn is `defer func() { if r := recover(); r != nil {..} .. }()`;
// returns the deferred function literal.
func startsWithRecover(fn *ast.FuncDecl) (*ast.FuncLit, bool) {
	if fn.Body == nil || len(fn.Body.List) == 0 {
		return nil, false
	}
	d, ok := fn.Body.List[0].(*ast.DeferStmt)
	if !ok {
		return nil, false
	}
	lit, ok := d.Call.Fun.(*ast.FuncLit)
	if !ok || len(lit.Body.List) == 0 {
		return nil, false
	}
	ifs, ok := lit.Body.List[0].(*ast.IfStmt)
	if !ok || ifs.Init == nil {
		return lit, false
	}
	as, ok := ifs.Init.(*ast.AssignStmt)
	if !ok || len(as.Rhs) != 1 {
		return lit, false
	}
	call, ok := as.Rhs[0].(*ast.CallExpr)
	if !ok || exprString(call.Fun) != "recover" {
		return lit, false
	}
	return lit, true
}

// deferTail: the calls of the deferred function after the recover block: 1 wgStopped.Done, 2 stop
func deferTail(who string, lit *ast.FuncLit, recv string) []int {
	var seq []int
	for _, st := range lit.Body.List[1:] {
		es, ok := st.(*ast.ExprStmt)
		if !ok {
			die("%s: unexpected statement in the deferred function at %v", who, fset.Position(st.Pos()))
		}
		call, ok := es.X.(*ast.CallExpr)
		if !ok {
			die("%s: unexpected expression in the deferred function at %v", who, fset.Position(st.Pos()))
		}
		switch exprString(call.Fun) {
		case recv + ".wgStopped.Done":
			seq = append(seq, 1)
		case recv + ".stop":
			seq = append(seq, 2)
		default:
			die("%s: unexpected call %s in the deferred function", who, exprString(call.Fun))
		}
	}
	return seq
}

// callSeq lists, in source order, the codes of the calls inside node that table knows; calls the
// predicate `ignore` accepts are skipped; any other call is fatal.
func callSeq(who string, node ast.Node, table map[string]int, ignore func(string) bool) []int {
	var seq []int
	ast.Inspect(node, func(n ast.Node) bool {
		call, ok := n.(*ast.CallExpr)
		if !ok {
			return true
		}
		if _, isLit := call.Fun.(*ast.FuncLit); isLit {
			return true
		}
		s := exprString(call.Fun)
		if c, ok := table[s]; ok {
			seq = append(seq, c)
			return true
		}
		if !ignore(s) {
			die("%s: unexpected call %s at %v", who, s, fset.Position(call.Pos()))
		}
		return true
	})
	return seq
}

// recvOnError: the statements of the `if err != nil` block that follows `_, err := svc.in.ReadFrom(..)` in the
// receiver's loop: 3 conn.Close() (conn bound by `switch conn := svc.conn.(type)`), 4 return; logging is skipped,
// anything else is fatal.
func recvOnError(recv *ast.FuncDecl) []int {
	var sw *ast.TypeSwitchStmt
	for _, st := range recv.Body.List {
		if t, ok := st.(*ast.TypeSwitchStmt); ok {
			sw = t
		}
	}
	if sw == nil {
		die("receiver: no type switch on svc.conn")
	}
	bound := false
	if as, ok := sw.Assign.(*ast.AssignStmt); ok && len(as.Lhs) == 1 && exprString(as.Lhs[0]) == "conn" && len(as.Rhs) == 1 {
		if ta, ok := as.Rhs[0].(*ast.TypeAssertExpr); ok && ta.Type == nil && exprString(ta.X) == "svc.conn" {
			bound = true
		}
	}
	if !bound {
		die("receiver: the type switch does not bind conn := svc.conn.(type)")
	}
	var loop *ast.ForStmt
	for _, cc := range sw.Body.List {
		for _, st := range cc.(*ast.CaseClause).Body {
			if f, ok := st.(*ast.ForStmt); ok {
				if loop != nil {
					die("receiver: more than one loop")
				}
				loop = f
			}
		}
	}
	if loop == nil || loop.Cond != nil {
		die("receiver: no unconditional for loop inside the type switch")
	}
	if len(loop.Body.List) != 2 {
		die("receiver: the loop body is not `_, err := svc.in.ReadFrom(r); if err != nil {..}`")
	}
	as, ok := loop.Body.List[0].(*ast.AssignStmt)
	if !ok || len(as.Lhs) != 2 || exprString(as.Lhs[1]) != "err" || len(as.Rhs) != 1 {
		die("receiver: first loop statement is not `_, err := svc.in.ReadFrom(r)`")
	}
	if call, ok := as.Rhs[0].(*ast.CallExpr); !ok || exprString(call.Fun) != "svc.in.ReadFrom" {
		die("receiver: first loop statement does not call svc.in.ReadFrom")
	}
	ifs, ok := loop.Body.List[1].(*ast.IfStmt)
	if !ok || exprString(ifs.Cond) != "(err!=nil)" || ifs.Else != nil {
		die("receiver: second loop statement is not `if err != nil {..}`")
	}
	var seq []int
	for _, st := range ifs.Body.List {
		switch st := st.(type) {
		case *ast.IfStmt: // `if !isEOF(err) { log... }`
			callSeq("receiver (error branch)", st, map[string]int{}, func(s string) bool { return isLogCall(s) || s == "isEOF" || s == "svc.cid" })
			// the logging branch must not leave the error branch: a return (or break/continue/goto) in it
			// would skip the conn.Close() below for some errors
			ast.Inspect(st, func(n ast.Node) bool {
				switch n.(type) {
				case *ast.ReturnStmt:
					seq = append(seq, 4)
				case *ast.BranchStmt:
					seq = append(seq, 5)
				}
				return true
			})
		case *ast.ExprStmt:
			call, ok := st.X.(*ast.CallExpr)
			if !ok {
				die("receiver: unexpected expression in the error branch at %v", fset.Position(st.Pos()))
			}
			switch s := exprString(call.Fun); {
			case s == "conn.Close":
				seq = append(seq, 3)
			case isLogCall(s):
			default:
				die("receiver: unexpected call %s in the error branch", s)
			}
		case *ast.ReturnStmt:
			seq = append(seq, 4)
		default:
			die("receiver: unexpected statement in the error branch at %v", fset.Position(st.Pos()))
		}
	}
	return seq
}

func boolLit(b bool) string {
	if b {
		return "true"
	}
	return "false"
}

func factsLife(repo string, o *out) {
	fsvc := parse(repo, "service/service.go")
	fsr := parse(repo, "service/sendrecv.go")
	fpr := parse(repo, "service/process.go")
	fsv := parse(repo, "service/server.go")

	// ---- stop -------------------------------------------------------------
	stop := findFunc(fsvc, "service", "stop")
	_, stopRec := startsWithRecover(stop)
	var seq []int
	casReturns, willGuarded, cleanGuarded := false, false, false
	var walk func(list []ast.Stmt)
	walkExprCalls := func(n ast.Node) {
		ast.Inspect(n, func(m ast.Node) bool {
			call, ok := m.(*ast.CallExpr)
			if !ok {
				return true
			}
			if _, isLit := call.Fun.(*ast.FuncLit); isLit {
				return false
			}
			s := exprString(call.Fun)
			switch {
			case s == "atomic.CompareAndSwapInt64":
				if len(call.Args) != 3 || exprString(call.Args[0]) != "&svc.closed" || exprString(call.Args[1]) != "0" || exprString(call.Args[2]) != "1" {
					die("stop: unexpected CompareAndSwap arguments at %v", fset.Position(call.Pos()))
				}
				seq = append(seq, 1)
			case s == "close":
				if len(call.Args) != 1 || exprString(call.Args[0]) != "svc.done" {
					die("stop: close of something else than svc.done")
				}
				seq = append(seq, 2)
			case s == "svc.conn.Close":
				seq = append(seq, 3)
			case s == "svc.in.Close":
				seq = append(seq, 4)
			case s == "svc.out.Close":
				seq = append(seq, 5)
			case s == "svc.wgStopped.Wait":
				seq = append(seq, 6)
			case s == "svc.topicsMgr.Unsubscribe":
				seq = append(seq, 7)
			case s == "svc.onPublish":
				if len(call.Args) != 1 || exprString(call.Args[0]) != "svc.sess.Will" {
					die("stop: onPublish of something else than the will")
				}
				seq = append(seq, 8)
			case s == "svc.sessMgr.Del":
				seq = append(seq, 9)
			case stopIgnored[s] || isLogCall(s):
			case s == "<*ast.ArrayType>": // []byte(t) conversion
			default:
				die("stop: unexpected call %s at %v", s, fset.Position(call.Pos()))
			}
			return true
		})
	}
	walk = func(list []ast.Stmt) {
		for i, st := range list {
			switch st := st.(type) {
			case *ast.DeferStmt:
				// the recover function (first statement), `defer verifStopped(svc.conn)` and
				// `defer close(svc.stopped)`: the signal that the teardown has finished, for a CONNECT
				// that takes the connection over (MQTT-3.1.4-2) - it runs when everything else is done
				isStopped := exprString(st.Call.Fun) == "close" && len(st.Call.Args) == 1 && exprString(st.Call.Args[0]) == "svc.stopped"
				if _, isLit := st.Call.Fun.(*ast.FuncLit); !isLit && exprString(st.Call.Fun) != "verifStopped" && !isStopped {
					die("stop: unexpected defer %s", exprString(st.Call.Fun))
				}
			case *ast.AssignStmt:
				for _, l := range st.Lhs {
					switch exprString(l) {
					case "svc.conn", "svc.in", "svc.out":
						seq = append(seq, 10)
					}
				}
				for _, r := range st.Rhs {
					walkExprCalls(r)
				}
				// doit := CAS(..) must be followed by `if !doit { return }`
				if len(st.Lhs) == 1 && exprString(st.Lhs[0]) == "doit" && i+1 < len(list) {
					if ifs, ok := list[i+1].(*ast.IfStmt); ok && exprString(ifs.Cond) == "!doit" && len(ifs.Body.List) == 1 {
						if _, ok := ifs.Body.List[0].(*ast.ReturnStmt); ok {
							casReturns = true
						}
					}
				}
			case *ast.IfStmt:
				if st.Init != nil {
					walkExprCalls(st.Init)
				}
				cond := exprString(st.Cond)
				before := len(seq)
				walkExprCalls(st.Cond)
				walk(st.Body.List)
				for _, c := range seq[before:] {
					if c == 8 && strings.Contains(cond, "svc.sess.Cmsg.WillFlag()") {
						willGuarded = true
					}
					if c == 9 && strings.Contains(cond, "svc.sess.Cmsg.CleanSession()") {
						cleanGuarded = true
					}
				}
				if st.Else != nil {
					if blk, ok := st.Else.(*ast.BlockStmt); ok {
						walk(blk.List)
					} else {
						walk([]ast.Stmt{st.Else})
					}
				}
			case *ast.RangeStmt:
				walk(st.Body.List)
			case *ast.BlockStmt:
				walk(st.List)
			case *ast.ExprStmt:
				walkExprCalls(st.X)
			case *ast.ReturnStmt:
			default:
				die("stop: unexpected statement at %v", fset.Position(st.Pos()))
			}
		}
	}
	walk(stop.Body.List)
	o.def("lifeStopSeq", "List Nat", natList(seq))
	o.def("lifeStopCasReturns", "Bool", boolLit(casReturns))
	o.def("lifeStopWillGuarded", "Bool", boolLit(willGuarded))
	o.def("lifeStopCleanGuarded", "Bool", boolLit(cleanGuarded))

	// ---- deferred recover of processor / receiver / sender / stop ------------
	proc := findFunc(fpr, "service", "processor")
	recv := findFunc(fsr, "service", "receiver")
	send := findFunc(fsr, "service", "sender")
	plit, prec := startsWithRecover(proc)
	rlit, rrec := startsWithRecover(recv)
	slit, srec := startsWithRecover(send)
	o.def("lifeRecoverFirst", "List Bool", "["+boolLit(prec)+", "+boolLit(rrec)+", "+boolLit(srec)+", "+boolLit(stopRec)+"]")
	if plit == nil || rlit == nil || slit == nil {
		die("processor / receiver / sender: no deferred function literal as first statement")
	}
	// after the recover block: 1 = wgStopped.Done(), 2 = stop()
	o.def("lifeProcDefer", "List Nat", natList(deferTail("processor", plit, "p")))
	o.def("lifeRecvDefer", "List Nat", natList(deferTail("receiver", rlit, "svc")))
	o.def("lifeSendDefer", "List Nat", natList(deferTail("sender", slit, "svc")))

	// ---- processor loop: 1 peekMessageSize 2 peekMessage 3 processIncoming 4 in.ReadCommit 5 isDone 6 in.Len
	var loop *ast.ForStmt
	for _, st := range proc.Body.List {
		if f, ok := st.(*ast.ForStmt); ok {
			loop = f
		}
	}
	if loop == nil {
		die("processor: no for loop")
	}
	o.def("lifeProcLoop", "List Nat", natList(callSeq("processor", loop.Body, map[string]int{
		"p.peekMessageSize": 1, "p.peekMessage": 2, "p.processIncoming": 3, "p.in.ReadCommit": 4, "p.isDone": 5, "p.in.Len": 6,
	}, func(s string) bool {
		return isLogCall(s) || s == "isEOF" || s == "p.cid" || s == "msg.Name" || s == "p.inStat.increment" || s == "int64"
	})))

	// ---- receiver / sender loops: 1 svc.in.ReadFrom   2 svc.out.WriteTo   3 conn.Close (receiver: after a failed ReadFrom)
	loopCalls := func(who string, fn *ast.FuncDecl) []int {
		return callSeq(who, fn.Body, map[string]int{"svc.in.ReadFrom": 1, "svc.out.WriteTo": 2, "conn.Close": 3}, func(s string) bool {
			return isLogCall(s) || s == "isEOF" || s == "svc.cid" || s == "recover" || s == "svc.wgStopped.Done" ||
				s == "svc.wgStarted.Done" || s == "time.Duration"
		})
	}
	o.def("lifeRecvCalls", "List Nat", natList(loopCalls("receiver", recv)))
	o.def("lifeSendCalls", "List Nat", natList(loopCalls("sender", send)))

	// ---- receiver, what follows a failed ReadFrom (lifeRecvOnError): the loop is
	//   for { _, err := svc.in.ReadFrom(r); if err != nil { <logging>; conn.Close(); return } }
	// with `conn` the net.Conn of the enclosing type switch on svc.conn.  3 = conn.Close(), 4 = return.
	// (ReadFrom never returns a nil error, so this branch is the only way out of the loop; its
	// deferred Close of the incoming ring is part of bufferLocks.)
	o.def("lifeRecvOnError", "List Nat", natList(recvOnError(recv)))

	// ---- writeMessage: 1 `svc.out == nil` test  2 wmu.Lock  3 defer wmu.Unlock  4 out.WriteWait  5 out.Write  6 out.WriteCommit
	wm := findFunc(fsr, "service", "writeMessage")
	var wseq []int
	ast.Inspect(wm.Body, func(n ast.Node) bool {
		switch n := n.(type) {
		case *ast.IfStmt:
			if exprString(n.Cond) == "(svc.out==nil)" {
				wseq = append(wseq, 1)
			}
		case *ast.DeferStmt:
			if exprString(n.Call.Fun) == "svc.wmu.Unlock" {
				wseq = append(wseq, 3)
				return false
			}
			die("writeMessage: unexpected defer %s", exprString(n.Call.Fun))
		case *ast.CallExpr:
			switch exprString(n.Fun) {
			case "svc.wmu.Lock":
				wseq = append(wseq, 2)
			case "svc.wmu.Unlock":
				die("writeMessage: explicit Unlock (the model releases wmu at every return)")
			case "svc.out.WriteWait":
				wseq = append(wseq, 4)
			case "svc.out.Write":
				wseq = append(wseq, 5)
			case "svc.out.WriteCommit":
				wseq = append(wseq, 6)
			}
		}
		return true
	})
	o.def("lifeWriteMessage", "List Nat", natList(wseq))

	// ---- Server.Close: 1 = svc.out.Close() inside a range loop, 2 = svc.stop() inside a range loop
	cl := findFunc(fsv, "Server", "Close")
	var cseq []int
	for _, st := range cl.Body.List {
		rs, ok := st.(*ast.RangeStmt)
		if !ok {
			continue
		}
		ast.Inspect(rs.Body, func(n ast.Node) bool {
			if call, ok := n.(*ast.CallExpr); ok {
				switch exprString(call.Fun) {
				case "svc.out.Close":
					cseq = append(cseq, 1)
				case "svc.stop":
					cseq = append(cseq, 2)
				}
			}
			return true
		})
	}
	o.def("lifeServerClose", "List Nat", natList(cseq))
	_ = token.NoPos
}
