// racework — concurrent workload for property C18, meant to be built with
// `go build -race`.  It drives the REAL broker (service.Server.ListenAndServe on
// a loopback TCP port) with many raw clients that connect, subscribe, publish
// (retained updates included), get delivered to, unsubscribe and disconnect (or
// drop the connection) at the same time, alongside in-process Server.Publish /
// Subscribe / Unsubscribe calls, optionally library clients (service.Client) and
// a Server.Close issued while connections are still busy.
//
// The Go race detector prints its reports on stderr; bin/check parses them.  The
// detector is the *search* of C18, never the proof.
//
//	racework -mode broker|takeover|close|client|all -dur 20s -seed 1 -clients 12
package main

import (
	"flag"
	"fmt"
	"io"
	"math/rand"
	"net"
	"os"
	"runtime"
	"sync"
	"sync/atomic"
	"time"

	"github.com/mdzio/go-logging"
	"github.com/mdzio/go-mqtt/message"
	"github.com/mdzio/go-mqtt/service"
)

// ---- a minimal MQTT 3.1.1 wire codec for the raw clients (own code) ----------

func wVarint(n int) []byte {
	var b []byte
	for {
		d := byte(n % 128)
		n /= 128
		if n > 0 {
			d |= 0x80
		}
		b = append(b, d)
		if n == 0 {
			return b
		}
	}
}

func wStr(s string) []byte { return append([]byte{byte(len(s) >> 8), byte(len(s))}, s...) }

func wPacket(first byte, body []byte) []byte {
	out := append([]byte{first}, wVarint(len(body))...)
	return append(out, body...)
}

func wID(id int) []byte { return []byte{byte(id >> 8), byte(id)} }

func wConnect(cid string, clean bool, willTopic string) []byte {
	flags := byte(0)
	if clean {
		flags |= 2
	}
	body := append(wStr("MQTT"), 4)
	payload := wStr(cid)
	if willTopic != "" {
		flags |= 4 | (1 << 3)
		payload = append(payload, wStr(willTopic)...)
		payload = append(payload, wStr("gone")...)
	}
	body = append(body, flags, 0, 60)
	body = append(body, payload...)
	return wPacket(0x10, body)
}

func wPublish(topic string, qos int, retain bool, id int, payload []byte) []byte {
	f := byte(0x30) | byte(qos)<<1
	if retain {
		f |= 1
	}
	body := wStr(topic)
	if qos > 0 {
		body = append(body, wID(id)...)
	}
	return wPacket(f, append(body, payload...))
}

func wSubscribe(id int, filters []string, qos int) []byte {
	body := wID(id)
	for _, f := range filters {
		body = append(body, wStr(f)...)
		body = append(body, byte(qos))
	}
	return wPacket(0x82, body)
}

func wUnsubscribe(id int, filters []string) []byte {
	body := wID(id)
	for _, f := range filters {
		body = append(body, wStr(f)...)
	}
	return wPacket(0xa2, body)
}

// readPacket reads one control packet: first byte, body.
func readPacket(r io.Reader) (byte, []byte, error) {
	var h [1]byte
	if _, err := io.ReadFull(r, h[:]); err != nil {
		return 0, nil, err
	}
	n, mul := 0, 1
	for i := 0; ; i++ {
		var b [1]byte
		if _, err := io.ReadFull(r, b[:]); err != nil {
			return 0, nil, err
		}
		n += int(b[0]&0x7f) * mul
		mul *= 128
		if b[0]&0x80 == 0 {
			break
		}
		if i >= 3 {
			return 0, nil, fmt.Errorf("bad remaining length")
		}
	}
	body := make([]byte, n)
	if _, err := io.ReadFull(r, body); err != nil {
		return 0, nil, err
	}
	return h[0], body, nil
}

// ---- statistics ----------------------------------------------------------------

var (
	nConnects, nPublishes, nSubscribes, nUnsubscribes, nDeliveries, nDisconnects, nDrops int64
	nInprocPub, nInprocSub, nInprocDeliveries, nLibClient, nTakeovers                    int64
	nPanics                                                                              int64
	closing                                                                              int32 // set shortly before Server.Close: the in-process callers stop
)

var (
	topicsPool  = []string{"a", "a/b", "a/c", "b", "b/c/d", "x/y"}
	filtersPool = []string{"a", "a/b", "a/+", "a/#", "#", "+/c/#", "b", "x/+"}
)

// ---- raw client ------------------------------------------------------------------

type rawClient struct {
	conn net.Conn
	wmu  sync.Mutex
}

func (c *rawClient) write(b []byte) error {
	c.wmu.Lock()
	defer c.wmu.Unlock()
	c.conn.SetWriteDeadline(time.Now().Add(500 * time.Millisecond))
	_, err := c.conn.Write(b)
	return err
}

// reader answers the acknowledgement flows so that the broker's ack queues are exercised.
func (c *rawClient) reader(done chan struct{}) {
	defer close(done)
	for {
		h, body, err := readPacket(c.conn)
		if err != nil {
			return
		}
		switch h >> 4 {
		case 3: // PUBLISH
			atomic.AddInt64(&nDeliveries, 1)
			qos := int(h>>1) & 3
			if qos > 0 && len(body) >= 2 {
				tl := int(body[0])<<8 | int(body[1])
				if len(body) >= 2+tl+2 {
					id := body[2+tl : 2+tl+2]
					if qos == 1 {
						c.write(wPacket(0x40, id))
					} else {
						c.write(wPacket(0x50, id))
					}
				}
			}
		case 5: // PUBREC -> PUBREL
			c.write(wPacket(0x62, body))
		case 6: // PUBREL -> PUBCOMP
			c.write(wPacket(0x70, body))
		}
	}
}

func runRawClient(addr string, idx int, seed int64, deadline time.Time, shared bool) {
	r := rand.New(rand.NewSource(seed))
	pid := 1
	next := func() int {
		pid++
		if pid > 60000 {
			pid = 1
		}
		return pid
	}
	for time.Now().Before(deadline) {
		conn, err := net.DialTimeout("tcp", addr, 2*time.Second)
		if err != nil {
			time.Sleep(5 * time.Millisecond)
			continue
		}
		c := &rawClient{conn: conn}
		cid := fmt.Sprintf("raw%d", idx)
		clean := r.Intn(3) != 0
		if shared {
			// several connections use the same client identifier with CleanSession=0:
			// the stored session is resumed while an older connection may still be alive
			cid = fmt.Sprintf("shared%d", idx%2)
			clean = false
			atomic.AddInt64(&nTakeovers, 1)
		}
		will := ""
		if r.Intn(3) == 0 {
			will = "a/b"
		}
		if c.write(wConnect(cid, clean, will)) != nil {
			conn.Close()
			continue
		}
		conn.SetReadDeadline(time.Now().Add(3 * time.Second))
		h, body, err := readPacket(conn)
		if err != nil || h>>4 != 2 || len(body) != 2 || body[1] != 0 {
			conn.Close()
			continue
		}
		conn.SetReadDeadline(time.Time{})
		atomic.AddInt64(&nConnects, 1)
		done := make(chan struct{})
		go c.reader(done)

		nops := 5 + r.Intn(40)
		if shared {
			nops = 2 + r.Intn(8)
		}
		for i := 0; i < nops && time.Now().Before(deadline); i++ {
			var err error
			switch k := r.Intn(10); {
			case k < 3:
				n := 1 + r.Intn(2)
				var fs []string
				for j := 0; j < n; j++ {
					fs = append(fs, filtersPool[r.Intn(len(filtersPool))])
				}
				err = c.write(wSubscribe(next(), fs, r.Intn(3)))
				atomic.AddInt64(&nSubscribes, 1)
			case k < 4:
				err = c.write(wUnsubscribe(next(), []string{filtersPool[r.Intn(len(filtersPool))]}))
				atomic.AddInt64(&nUnsubscribes, 1)
			case k < 9:
				retain := r.Intn(3) == 0
				payload := []byte(fmt.Sprintf("p%d-%d-%d", idx, i, r.Intn(1000)))
				if retain && r.Intn(4) == 0 {
					payload = nil // clears the retained message
				}
				if r.Intn(6) == 0 {
					payload = make([]byte, 200+r.Intn(3000)) // different lengths: the retained buffer is re-allocated / reused
				}
				err = c.write(wPublish(topicsPool[r.Intn(len(topicsPool))], r.Intn(3), retain, next(), payload))
				atomic.AddInt64(&nPublishes, 1)
			default:
				err = c.write([]byte{0xc0, 0})
			}
			if err != nil {
				break
			}
			if r.Intn(4) == 0 {
				time.Sleep(time.Duration(r.Intn(2000)) * time.Microsecond)
			}
		}
		if r.Intn(2) == 0 {
			c.write([]byte{0xe0, 0})
			atomic.AddInt64(&nDisconnects, 1)
			// give the broker a moment to read the DISCONNECT, then close
			time.Sleep(time.Duration(r.Intn(3)) * time.Millisecond)
		} else {
			atomic.AddInt64(&nDrops, 1)
		}
		conn.Close()
		select {
		case <-done:
		case <-time.After(2 * time.Second):
		}
	}
}

// ---- in-process API ---------------------------------------------------------------

func runInproc(svr *service.Server, idx int, seed int64, deadline time.Time) {
	r := rand.New(rand.NewSource(seed))
	var cb service.OnPublishFunc = func(msg *message.PublishMessage) error {
		atomic.AddInt64(&nInprocDeliveries, 1)
		_ = msg.Topic()
		_ = msg.Payload()
		_ = msg.QoS()
		return nil
	}
	subscribed := map[string]bool{}
	for time.Now().Before(deadline) && atomic.LoadInt32(&closing) == 0 {
		switch k := r.Intn(10); {
		case k < 6:
			m := message.NewPublishMessage()
			m.SetTopic([]byte(topicsPool[r.Intn(len(topicsPool))]))
			m.SetQoS(byte(r.Intn(3)))
			m.SetPacketID(uint16(1 + r.Intn(60000)))
			retain := r.Intn(3) == 0
			m.SetRetain(retain)
			if retain && r.Intn(4) == 0 {
				m.SetPayload(nil)
			} else {
				m.SetPayload([]byte(fmt.Sprintf("inproc%d-%d", idx, r.Intn(100000))))
			}
			guarded(func() { svr.Publish(m) })
			atomic.AddInt64(&nInprocPub, 1)
		case k < 8:
			f := filtersPool[r.Intn(len(filtersPool))]
			guarded(func() {
				if svr.Subscribe(f, byte(r.Intn(3)), &cb) == nil {
					subscribed[f] = true
				}
			})
			atomic.AddInt64(&nInprocSub, 1)
		default:
			for f := range subscribed {
				guarded(func() { svr.Unsubscribe(f, &cb) })
				delete(subscribed, f)
				break
			}
		}
		if r.Intn(3) == 0 {
			time.Sleep(time.Duration(r.Intn(1500)) * time.Microsecond)
		}
	}
	if atomic.LoadInt32(&closing) != 0 {
		return // the server is being closed: using it further is outside the API's contract
	}
	for f := range subscribed {
		guarded(func() { svr.Unsubscribe(f, &cb) })
	}
}

// guarded runs one API call; a panic inside the library (reached through the caller's own
// goroutine) is counted and reported instead of ending the workload.
func guarded(f func()) {
	defer func() {
		if r := recover(); r != nil {
			if atomic.AddInt64(&nPanics, 1) <= 3 {
				buf := make([]byte, 4096)
				buf = buf[:runtime.Stack(buf, false)]
				fmt.Printf("RACEWORK-PANIC: %v\n%s\nRACEWORK-PANIC-END\n", r, buf)
			}
		}
	}()
	f()
}

// ---- library clients (client role) ---------------------------------------------------

func runLibClient(addr string, idx int, seed int64, deadline time.Time) {
	r := rand.New(rand.NewSource(seed))
	for n := 0; time.Now().Before(deadline); n++ {
		cl := &service.Client{}
		cm := message.NewConnectMessage()
		cm.SetVersion(4)
		cm.SetCleanSession(true)
		// a fresh identifier per connection: Client.Connect registers a topics provider under it and
		// panics by design when the previous one has not been unregistered yet
		cm.SetClientID([]byte(fmt.Sprintf("lib%dx%d", idx, n)))
		cm.SetKeepAlive(60)
		if err := cl.Connect("tcp://"+addr, cm); err != nil {
			time.Sleep(5 * time.Millisecond)
			continue
		}
		atomic.AddInt64(&nLibClient, 1)
		sm := message.NewSubscribeMessage()
		sm.SetPacketID(uint16(1 + r.Intn(60000)))
		sm.AddTopic([]byte(filtersPool[r.Intn(len(filtersPool))]), byte(r.Intn(3)))
		cl.Subscribe(sm, nil, func(msg *message.PublishMessage) error { return nil })
		n := 3 + r.Intn(10)
		for i := 0; i < n; i++ {
			pm := message.NewPublishMessage()
			pm.SetTopic([]byte(topicsPool[r.Intn(len(topicsPool))]))
			pm.SetQoS(byte(r.Intn(3)))
			pm.SetPacketID(uint16(1 + r.Intn(60000)))
			pm.SetPayload([]byte("lib"))
			cl.Publish(pm, nil)
		}
		cl.Ping(nil)
		time.Sleep(time.Duration(1+r.Intn(5)) * time.Millisecond)
		cl.Disconnect()
	}
}

func ld(p *int64) int64 { return atomic.LoadInt64(p) }

func freeAddr() string {
	ln, err := net.Listen("tcp", "127.0.0.1:0")
	if err != nil {
		panic(err)
	}
	a := ln.Addr().String()
	ln.Close()
	return a
}

func main() {
	mode := flag.String("mode", "broker", "broker|takeover|close|client|all")
	dur := flag.Duration("dur", 10*time.Second, "duration of the workload")
	seed := flag.Int64("seed", 1, "seed")
	nclients := flag.Int("clients", 12, "number of raw clients")
	flag.Parse()
	// the library logs through a global mutex: silence it, so that the logger neither floods
	// stderr nor adds synchronisation of its own between the goroutines under observation
	logging.SetLevel(logging.OffLevel)

	addr := freeAddr()
	svr := &service.Server{ConnectTimeout: 2}
	serveErr := make(chan error, 1)
	go func() { serveErr <- svr.ListenAndServe("tcp://" + addr) }()
	// wait until the listener accepts
	for i := 0; ; i++ {
		c, err := net.DialTimeout("tcp", addr, time.Second)
		if err == nil {
			c.Close()
			break
		}
		if i > 200 {
			fmt.Fprintln(os.Stderr, "racework: listener did not come up:", err)
			os.Exit(3)
		}
		time.Sleep(10 * time.Millisecond)
	}

	deadline := time.Now().Add(*dur)
	var wg sync.WaitGroup
	spawn := func(f func()) { wg.Add(1); go func() { defer wg.Done(); f() }() }
	all := *mode == "all"
	for i := 0; i < *nclients; i++ {
		i := i
		spawn(func() { runRawClient(addr, i, *seed*1000+int64(i), deadline, false) })
	}
	for i := 0; i < 3; i++ {
		i := i
		spawn(func() { runInproc(svr, i, *seed*2000+int64(i), deadline) })
	}
	if *mode == "takeover" || all {
		for i := 0; i < 4; i++ {
			i := i
			spawn(func() { runRawClient(addr, 100+i, *seed*3000+int64(i), deadline, true) })
		}
	}
	if *mode == "client" || all {
		for i := 0; i < 4; i++ {
			i := i
			spawn(func() { runLibClient(addr, i, *seed*4000+int64(i), deadline) })
		}
	}
	if *mode == "close" || all {
		// Close is issued while the clients are still busy
		time.Sleep(*dur * 3 / 4)
		// in-process callers stop first (calling into a closed server is a misuse, not a race);
		// the network clients stay busy while Close tears their connections down
		atomic.StoreInt32(&closing, 1)
		time.Sleep(100 * time.Millisecond)
		guarded(func() { svr.Close() })
		select {
		case <-serveErr:
		case <-time.After(2 * time.Second):
		}
	}
	done := make(chan struct{})
	go func() { wg.Wait(); close(done) }()
	select {
	case <-done:
	case <-time.After(time.Until(deadline) + 8*time.Second):
		// connections wedged by back-pressure (full rings) are not this workload's subject
		fmt.Println("racework: stragglers after the deadline, ending the run")
	}
	fmt.Printf("racework mode=%s seed=%d clients=%d connects=%d takeovers=%d publishes=%d subscribes=%d unsubscribes=%d deliveries=%d disconnects=%d drops=%d inproc_publish=%d inproc_subscribe=%d inproc_deliveries=%d libclient_sessions=%d api_panics=%d\n",
		*mode, *seed, *nclients, ld(&nConnects), ld(&nTakeovers), ld(&nPublishes), ld(&nSubscribes), ld(&nUnsubscribes), ld(&nDeliveries),
		ld(&nDisconnects), ld(&nDrops), ld(&nInprocPub), ld(&nInprocSub), ld(&nInprocDeliveries), ld(&nLibClient), ld(&nPanics))
}
