package main

// Core A — package message (codec) through its public API.
//
//	codec dec <type 1..14> <hexx>          Type.New() + Decode on a slice with cap == len
//	codec build <type> <setter tokens…>    message built through the API, then Len / Encode / Decode again
//	codec idseq <start> <count>            automatic packet identifiers across counter values
//
// Byte strings use the extended hex syntax `hexx`: parts joined by '.', a part is
// plain lowercase hex or `<n>*<bb>` (n copies of byte bb); `-` is the empty string.
// Long byte strings are printed as `#<len>:<fnv1a-32>`.

import (
	"fmt"
	"strconv"
	"strings"
	"unsafe"

	"github.com/mdzio/go-mqtt/message"
)

type codecCore struct{}

func init() {
	cores["codec"] = func() core { return &codecCore{} }
}

// ---- byte string syntax ------------------------------------------------------

func unhexx(s string) []byte {
	if s == "-" {
		return []byte{}
	}
	var out []byte
	for _, part := range strings.Split(s, ".") {
		if i := strings.IndexByte(part, '*'); i >= 0 {
			n := atoi(part[:i])
			b := unhex(part[i+1:])
			if len(b) != 1 {
				panic("bad hexx " + s)
			}
			for k := 0; k < n; k++ {
				out = append(out, b[0])
			}
		} else {
			out = append(out, unhex(part)...)
		}
	}
	// exact capacity: reading past len must fault, not read slack
	res := make([]byte, len(out))
	copy(res, out)
	return res[:len(res):len(res)]
}

// hexxOf prints b compactly (runs of 12 or more equal bytes are run-length encoded).
func hexxOf(b []byte) string {
	if len(b) == 0 {
		return "-"
	}
	var parts []string
	var lit []byte
	flush := func() {
		if len(lit) > 0 {
			parts = append(parts, hexOf(lit))
			lit = nil
		}
	}
	for i := 0; i < len(b); {
		j := i
		for j < len(b) && b[j] == b[i] {
			j++
		}
		if j-i >= 12 {
			flush()
			parts = append(parts, fmt.Sprintf("%d*%02x", j-i, b[i]))
		} else {
			lit = append(lit, b[i:j]...)
		}
		i = j
	}
	flush()
	return strings.Join(parts, ".")
}

const hxLimit = 48

// hx prints a byte string for comparison: hex, or length and FNV-1a hash when long.
func hx(b []byte) string {
	if len(b) <= hxLimit {
		return hexOf(b)
	}
	h := uint32(2166136261)
	for _, c := range b {
		h = (h ^ uint32(c)) * 16777619
	}
	return fmt.Sprintf("#%d:%08x", len(b), h)
}

func b01i(b bool) int {
	if b {
		return 1
	}
	return 0
}

// viewOf reports where field f lies relative to src: "off+len", "-" for an empty
// field, "!" when any byte of f is outside src[0:limit].
func viewOf(src []byte, limit int, f []byte) string {
	if len(f) == 0 {
		return "-"
	}
	ps := uintptr(unsafe.Pointer(unsafe.SliceData(src)))
	pf := uintptr(unsafe.Pointer(unsafe.SliceData(f)))
	if len(src) == 0 || pf < ps || pf+uintptr(len(f)) > ps+uintptr(limit) {
		return "!"
	}
	return fmt.Sprintf("%d+%d", pf-ps, len(f))
}

// ---- canonical field lines ----------------------------------------------------

// fieldsOf prints every field reachable through the public getters and the list
// of byte-slice fields (for the view report).
func fieldsOf(m message.Message) (string, [][]byte) {
	switch m := m.(type) {
	case *message.ConnectMessage:
		cf := b01i(m.CleanSession())<<1 | b01i(m.WillFlag())<<2 | int(m.WillQos())<<3 |
			b01i(m.WillRetain())<<5 | b01i(m.PasswordFlag())<<6 | b01i(m.UsernameFlag())<<7
		// fields that the flags exclude from the packet are not part of it
		wt, wm, un, pw := m.WillTopic(), m.WillMessage(), m.Username(), m.Password()
		if !m.WillFlag() {
			wt, wm = nil, nil
		}
		if !m.UsernameFlag() {
			un = nil
		}
		if !m.PasswordFlag() {
			pw = nil
		}
		return fmt.Sprintf("ver=%d cf=%d ka=%d cid=%s wt=%s wm=%s un=%s pw=%s", m.Version(), cf, m.KeepAlive(),
				hx(m.ClientID()), hx(wt), hx(wm), hx(un), hx(pw)),
			[][]byte{m.ClientID(), wt, wm, un, pw}
	case *message.ConnackMessage:
		return fmt.Sprintf("sp=%d rc=%d", b01i(m.SessionPresent()), m.ReturnCode()), nil
	case *message.PublishMessage:
		id := m.PacketID()
		if m.QoS() == 0 { // a QoS 0 PUBLISH has no identifier field
			id = 0
		}
		return fmt.Sprintf("dup=%d qos=%d ret=%d topic=%s id=%d payload=%s", b01i(m.Dup()), m.QoS(), b01i(m.Retain()),
			hx(m.Topic()), id, hx(m.Payload())), [][]byte{m.Topic(), m.Payload()}
	case *message.SubscribeMessage:
		var ps []string
		ts, qs := m.Topics(), m.Qos()
		for i, t := range ts {
			ps = append(ps, fmt.Sprintf("%s:%d", hx(t), qs[i]))
		}
		return fmt.Sprintf("id=%d topics=[%s]", m.PacketID(), strings.Join(ps, ",")), ts
	case *message.SubackMessage:
		return fmt.Sprintf("id=%d codes=%s", m.PacketID(), hx(m.ReturnCodes())), [][]byte{m.ReturnCodes()}
	case *message.UnsubscribeMessage:
		var ps []string
		for _, t := range m.Topics() {
			ps = append(ps, hx(t))
		}
		return fmt.Sprintf("id=%d topics=[%s]", m.PacketID(), strings.Join(ps, ",")), m.Topics()
	case *message.PubackMessage, *message.PubrecMessage, *message.PubrelMessage, *message.PubcompMessage, *message.UnsubackMessage:
		return fmt.Sprintf("id=%d", m.PacketID()), nil
	case *message.PingreqMessage, *message.PingrespMessage, *message.DisconnectMessage:
		return "-", nil
	}
	panic("harness: unknown message type")
}

func newMsg(t int) message.Message {
	m, err := message.Type(t).New()
	if err != nil {
		panic("harness: bad type")
	}
	return m
}

// encodeInto encodes m into a fresh buffer of exactly Len() bytes that is
// pre-filled with 0xAA (Encode must write every byte it claims).
func encodeInto(m message.Message) (l int, n int, out []byte, err error) {
	l = m.Len()
	if l < 0 || l > 1<<29 {
		panic("harness: absurd Len")
	}
	buf := make([]byte, l)
	for i := range buf {
		buf[i] = 0xAA
	}
	n, err = m.Encode(buf)
	if err != nil {
		return l, n, nil, err
	}
	if n < 0 || n > len(buf) {
		return l, n, nil, nil
	}
	return l, n, buf[:n], nil
}

// safeDecLine: decLine, with a panic reported in place
func safeDecLine(t int, src []byte, full bool) (res string) {
	defer func() {
		if r := recover(); r != nil {
			res = "panic"
		}
	}()
	return decLine(t, src, full)
}

// decLine decodes src as type t and prints the canonical line (full: the
// re-encoded bytes in full hex).
func decLine(t int, src []byte, full bool) string {
	m := newMsg(t)
	n, err := m.Decode(src)
	if err != nil {
		// the byte count that comes with the error (the oracle checks 0 <= n <= len(src))
		return fmt.Sprintf("err n=%d", n)
	}
	fs, views := fieldsOf(m)
	lim := n
	if lim > len(src) || lim < 0 {
		lim = 0
	}
	vs := make([]string, len(views))
	for i, f := range views {
		vs[i] = viewOf(src, lim, f)
	}
	l, k, out, eerr := encodeInto(m)
	re := "err"
	if eerr == nil {
		if out == nil {
			re = fmt.Sprintf("badcount:%d", k)
		} else if full {
			re = hexOf(out)
		} else {
			re = hx(out)
		}
	}
	return fmt.Sprintf("ok n=%d len=%d %s v=[%s] re=%s", n, l, fs, strings.Join(vs, ","), re)
}

func parseBool(s string) bool { return s == "1" }

// applySetter applies one setter token; reports whether the setter accepted the value.
func applySetter(m message.Message, key, val string) bool {
	type idSetter interface{ SetPacketID(uint16) }
	if key == "id" {
		if _, isConnect := m.(*message.ConnectMessage); isConnect {
			panic("harness: bad setter")
		}
		m.(idSetter).SetPacketID(uint16(atoi(val)))
		return true
	}
	switch m := m.(type) {
	case *message.PublishMessage:
		switch key {
		case "dup":
			m.SetDup(parseBool(val))
			return true
		case "ret":
			m.SetRetain(parseBool(val))
			return true
		case "qos":
			return m.SetQoS(byte(atoi(val))) == nil
		case "topic":
			return m.SetTopic(unhexx(val)) == nil
		case "payload":
			m.SetPayload(unhexx(val))
			return true
		}
	case *message.SubscribeMessage:
		switch key {
		case "add":
			i := strings.IndexByte(val, ':')
			return m.AddTopic(unhexx(val[:i]), byte(atoi(val[i+1:]))) == nil
		case "rm":
			m.RemoveTopic(unhexx(val))
			return true
		}
	case *message.UnsubscribeMessage:
		switch key {
		case "add":
			m.AddTopic(unhexx(val))
			return true
		case "rm":
			m.RemoveTopic(unhexx(val))
			return true
		}
	case *message.SubackMessage:
		if key == "code" {
			return m.AddReturnCode(byte(atoi(val))) == nil
		}
	case *message.ConnackMessage:
		switch key {
		case "sp":
			m.SetSessionPresent(parseBool(val))
			return true
		case "rc":
			m.SetReturnCode(message.ConnackCode(atoi(val)))
			return true
		}
	case *message.ConnectMessage:
		switch key {
		case "ver":
			return m.SetVersion(byte(atoi(val))) == nil
		case "clean":
			m.SetCleanSession(parseBool(val))
			return true
		case "will":
			m.SetWillFlag(parseBool(val))
			return true
		case "wq":
			return m.SetWillQos(byte(atoi(val))) == nil
		case "wr":
			m.SetWillRetain(parseBool(val))
			return true
		case "uf":
			m.SetUsernameFlag(parseBool(val))
			return true
		case "pf":
			m.SetPasswordFlag(parseBool(val))
			return true
		case "ka":
			m.SetKeepAlive(uint16(atoi(val)))
			return true
		case "cid":
			return m.SetClientID(unhexx(val)) == nil
		case "wt":
			m.SetWillTopic(unhexx(val))
			return true
		case "wm":
			m.SetWillMessage(unhexx(val))
			return true
		case "un":
			m.SetUsername(unhexx(val))
			return true
		case "pw":
			m.SetPassword(unhexx(val))
			return true
		}
	}
	panic("harness: bad setter")
}

func (c *codecCore) handle(ws []string) string {
	switch ws[0] {
	case "reset":
		message.VerifSetPacketCounter(0)
		return "reset"
	case "dec":
		return decLine(atoi(ws[1]), unhexx(ws[2]), false)
	case "biglen":
		// a QoS 0 PUBLISH (topic "a", payload of one repeated byte) whose REMAINING LENGTH is the given
		// number - for the varint boundaries that are too large to travel as hex on an op line (2 097 151 /
		// 2 097 152, ...): Len(), what Encode writes, the fixed header, and the round trip
		rl := atoi(ws[1])
		if rl < 3 || rl > 8<<20 {
			return "bad-op"
		}
		m := message.NewPublishMessage()
		m.SetTopic([]byte("a"))
		pl := make([]byte, rl-3)
		for i := range pl {
			pl[i] = 0x5a
		}
		m.SetPayload(pl)
		l := m.Len()
		buf := make([]byte, l+16)
		n, err := m.Encode(buf)
		if err != nil {
			return fmt.Sprintf("len=%d enc=err", l)
		}
		hl := n - rl
		if hl < 2 || hl > 5 {
			hl = 5
		}
		d := message.NewPublishMessage()
		dn, derr := d.Decode(buf[:n])
		same := derr == nil && dn == n && string(d.Topic()) == "a" && len(d.Payload()) == len(pl)
		if same {
			for _, x := range d.Payload() {
				if x != 0x5a {
					same = false
					break
				}
			}
		}
		// what a buffer of exactly Len() bytes gives (the way the broker's writeMessage reserves space)
		exact := "ok"
		func() {
			defer func() {
				if recover() != nil {
					exact = "panic"
				}
			}()
			b2 := make([]byte, l)
			if n2, err := m.Encode(b2); err != nil {
				exact = "err"
			} else if n2 != l || string(b2[:n2]) != string(buf[:n]) {
				exact = "differs"
			}
		}()
		return fmt.Sprintf("len=%d enc=ok n=%d head=%x rt=%s exact=%s", l, n, buf[:hl], b01(same), exact)
	case "build":
		t := atoi(ws[1])
		m := newMsg(t)
		var bits strings.Builder
		for i, tok := range ws[2:] {
			eq := strings.IndexByte(tok, '=')
			key, val := tok[:eq], tok[eq+1:]
			switch {
			case key == "from" && i == 0:
				if _, err := m.Decode(unhexx(val)); err != nil {
					return "from-err"
				}
			case key == "ctr":
				v, err := strconv.ParseUint(val, 10, 64)
				if err != nil {
					panic("harness: bad ctr")
				}
				message.VerifSetPacketCounter(v)
			default:
				if applySetter(m, key, val) {
					bits.WriteByte('1')
				} else {
					bits.WriteByte('0')
				}
			}
		}
		if bits.Len() == 0 {
			bits.WriteByte('-')
		}
		idBefore := m.PacketID()
		l, n, out, err := encodeInto(m)
		if err != nil {
			return fmt.Sprintf("s=%s len=%d enc=err", bits.String(), l)
		}
		// an identifier was assigned by Encode: print the bytes in full
		auto := idBefore == 0 && m.PacketID() != 0
		pr := hx
		if auto {
			pr = hexOf
		}
		if out == nil {
			return fmt.Sprintf("s=%s len=%d enc=badcount:%d", bits.String(), l, n)
		}
		fs, _ := fieldsOf(m)
		exact := make([]byte, len(out))
		copy(exact, out)
		return fmt.Sprintf("s=%s len=%d enc=ok n=%d bytes=%s f[%s] d[%s]", bits.String(), l, n, pr(out), fs, safeDecLine(t, exact, auto))
	case "idseq":
		start, err := strconv.ParseUint(ws[1], 10, 64)
		if err != nil {
			panic("harness: bad start")
		}
		return idseq(start, atoi(ws[2]))
	}
	return "bad-op"
}

// idseq encodes `count` fresh packets that need an automatic identifier,
// starting with the process-wide counter at `start`.
func idseq(start uint64, count int) string {
	message.VerifSetPacketCounter(start)
	zero, bad := 0, 0
	first, last := 0, 0
	sum := uint32(0)
	for i := 0; i < count; i++ {
		var m message.Message
		var t int
		switch i % 3 {
		case 0:
			s := message.NewSubscribeMessage()
			s.AddTopic([]byte("a"), 0)
			m, t = s, 8
		case 1:
			p := message.NewPublishMessage()
			p.SetTopic([]byte("a"))
			p.SetPayload([]byte("x"))
			p.SetQoS(1)
			m, t = p, 3
		default:
			u := message.NewUnsubscribeMessage()
			u.AddTopic([]byte("a"))
			m, t = u, 10
		}
		l, n, out, err := encodeInto(m)
		id := int(m.PacketID())
		if id == 0 {
			zero++
		}
		ok := err == nil && out != nil && n == l
		if ok {
			d := newMsg(t)
			k, derr := d.Decode(out[:n:n])
			ok = derr == nil && k == n && int(d.PacketID()) == id
		}
		if !ok {
			bad++
		}
		if i == 0 {
			first = id
		}
		last = id
		sum = sum*31 + uint32(id)
	}
	return fmt.Sprintf("ids n=%d zero=%d bad=%d first=%d last=%d sum=%d ctr=%d", count, zero, bad, first, last, sum, message.VerifPacketCounter())
}
