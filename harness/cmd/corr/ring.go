package main

// Core D — the byte ring of service/buffer.go under a model-guided scheduler
// (DESIGN Appendix C).  Controlled goroutines run thread programs against the
// REAL buffer (service.VerifNewBuffer, build tag verif); every goroutine parks
// at the verifYield marks of buffer.go and is released one mark at a time by
// `ring step <T>` lines.  After every step the observable state is printed in
// the same canonical form as lean/Mqtt/Driver/Ring.lean prints the model's.

import (
	"bufio"
	"fmt"
	"io"
	"math/rand"
	"os"
	"path/filepath"
	"regexp"
	"runtime"
	"strconv"
	"strings"
	"sync/atomic"
	"time"

	"github.com/mdzio/go-mqtt/service"
)

// ---- test stream and chunk hash (same in Driver/Ring.lean and props_ring.py) ----

func ringSrc(i int64) byte { return byte((i*i + i/3 + 7) % 256) }

func ringHash(b []byte) uint32 {
	var h uint32
	for j, x := range b {
		h += uint32(j+1) * uint32(x)
	}
	return h
}

// ---- classification of the verifYield marks, read from the source being tested ----

type ykind struct {
	op string // lock unlock wait bcast other
	mx int    // 0 = pcond / pcond.L, 1 = ccond / ccond.L
}

var ringKinds map[int]ykind

var reYield = regexp.MustCompile(`^\s*verifYield\((\d+)\)\s*$`)

func loadRingKinds() {
	if ringKinds != nil {
		return
	}
	repo := os.Getenv("VERIF_REPO")
	if repo == "" {
		repo = "/repo"
	}
	data, err := os.ReadFile(filepath.Join(repo, "service", "buffer.go"))
	if err != nil {
		panic("ring: cannot read buffer.go: " + err.Error())
	}
	lines := strings.Split(string(data), "\n")
	kinds := map[int]ykind{}
	for i, l := range lines {
		m := reYield.FindStringSubmatch(l)
		if m == nil {
			continue
		}
		id := atoi(m[1])
		k := ykind{op: "other"}
	scan:
		for j := i + 1; j < len(lines); j++ {
			s := strings.TrimSpace(lines[j])
			switch {
			case s == "" || strings.HasPrefix(s, "//"):
				continue
			case reYield.MatchString(lines[j]), strings.HasPrefix(s, "return"), strings.HasPrefix(s, "for "),
				strings.HasPrefix(s, "if "), strings.HasPrefix(s, "}"):
				break scan
			}
			mx := -1
			if strings.Contains(s, "bf.pcond.") {
				mx = 0
			} else if strings.Contains(s, "bf.ccond.") {
				mx = 1
			}
			if mx >= 0 {
				switch {
				case strings.Contains(s, ".L.Lock()"):
					k = ykind{"lock", mx}
				case strings.Contains(s, ".L.Unlock()"):
					k = ykind{"unlock", mx}
				case strings.Contains(s, ".Wait()"):
					k = ykind{"wait", mx}
				case strings.Contains(s, ".Broadcast()"):
					k = ykind{"bcast", mx}
				}
				if k.op != "other" {
					break scan
				}
			}
		}
		kinds[id] = k
	}
	if len(kinds) == 0 {
		panic("ring: no verifYield marks in " + filepath.Join(repo, "service", "buffer.go") + " (VERIF_REPO?)")
	}
	ringKinds = kinds
}

// ---- threads ----

type rcall struct {
	name string
	n    int
	ms   []int // rfrom: the script of the reader handed to ReadFrom
}

func parseRcall(w string) (rcall, bool) {
	parts := strings.Split(w, ":")
	switch parts[0] {
	case "write", "wwait", "wcommit", "read", "peek", "rwait", "commit":
		if len(parts) != 2 {
			return rcall{}, false
		}
		n, err := strconv.Atoi(parts[1])
		if err != nil || n < 0 {
			return rcall{}, false
		}
		return rcall{name: parts[0], n: n}, true
	case "wfill", "use", "close", "len":
		if len(parts) != 1 {
			return rcall{}, false
		}
		return rcall{name: parts[0]}, true
	case "rfrom":
		// rfrom:m1,m2,…  ReadFrom with a reader whose k-th Read returns min(mk, len(p)) bytes, after the
		// script (0, io.EOF); "rfrom:-" = empty script
		if len(parts) != 2 {
			return rcall{}, false
		}
		c := rcall{name: "rfrom"}
		if parts[1] == "-" {
			return c, true
		}
		for _, f := range strings.Split(parts[1], ",") {
			m, err := strconv.Atoi(f)
			if err != nil || m < 0 {
				return rcall{}, false
			}
			c.ms = append(c.ms, m)
		}
		return c, true
	}
	return rcall{}, false
}

// scriptReader is the io.Reader handed to ReadFrom: it delivers the test stream in the portions of the script.
type scriptReader struct {
	ep *ringEp
	ms []int
}

func (r *scriptReader) Read(p []byte) (int, error) {
	if len(r.ms) == 0 {
		return 0, io.EOF
	}
	n := r.ms[0]
	r.ms = r.ms[1:]
	if n > len(p) {
		n = len(p)
	}
	o := r.ep.base + r.ep.produced
	for j := 0; j < n; j++ {
		p[j] = ringSrc(o + int64(j))
	}
	r.ep.produced += int64(n)
	return n, nil
}

func (c rcall) producer() bool {
	return c.name == "write" || c.name == "wwait" || c.name == "wfill" || c.name == "wcommit" || c.name == "rfrom"
}
func (c rcall) consumer() bool {
	return c.name == "read" || c.name == "peek" || c.name == "rwait" || c.name == "use" || c.name == "commit"
}

type rres struct {
	name    string
	n       int
	err     string
	off     int64
	data    []byte
	wrapped bool
}

func (r *rres) String() string {
	w := 0
	if r.wrapped {
		w = 1
	}
	return fmt.Sprintf(" ret=%s:%d:%s:%d:%d:%d:%d", r.name, r.n, r.err, r.off, len(r.data), ringHash(r.data), w)
}

const (
	stIdle = iota
	stYield
	stParked
	stHung
)

type rev struct {
	yield int   // mark id, or -1 = call returned
	res   *rres // result of the returned call
}

type rthread struct {
	ep       *ringEp
	name     string
	declared bool
	hasProg  bool // a program was declared by a `thread` line (a thread that only served `call` lines may still get one)
	prog     []rcall
	next     int
	cur      *rcall
	state    int
	pos      int // mark id (stYield, stParked)
	waitMx   int
	notified bool
	release  chan struct{}
	events   chan rev
	started  bool
	// role accounting (what the caller of the ring keeps between calls)
	slice   []byte
	filled  int
	view    []byte
	hasView bool
	pending []byte
	lastRes *rres
}

// one episode = one ring
type ringEp struct {
	b        *service.VerifBuffer
	size     int64
	base     int64
	produced int64
	obtained int64
	dead     atomic.Bool
	P, C     *rthread
	K        []*rthread
	owner    [2]*rthread
	over     bool // after hang / finish: every further line prints "dead"
}

var ringGoids atomic.Value // map[int64]*rthread (copy on write; written only by the scheduler goroutine)
var ringHangs int

func goid() int64 {
	var buf [64]byte
	n := runtime.Stack(buf[:], false)
	// "goroutine 123 ["
	s := buf[10:n]
	var id int64
	for _, ch := range s {
		if ch < '0' || ch > '9' {
			break
		}
		id = id*10 + int64(ch-'0')
	}
	return id
}

func ringYield(id int) {
	m, _ := ringGoids.Load().(map[int64]*rthread)
	if m == nil {
		return
	}
	t := m[goid()]
	if t == nil || t.ep.dead.Load() {
		return
	}
	t.events <- rev{yield: id}
	<-t.release
}

func registerGoid(g int64, t *rthread) {
	old, _ := ringGoids.Load().(map[int64]*rthread)
	m := make(map[int64]*rthread, len(old)+1)
	for k, v := range old {
		if !v.ep.dead.Load() {
			m[k] = v
		}
	}
	m[g] = t
	ringGoids.Store(m)
}

type ringCore struct {
	ep *ringEp
}

func init() {
	cores["ring"] = func() core {
		loadRingKinds()
		service.VerifYieldHandler = ringYield
		return &ringCore{}
	}
	gens["ring"] = genRing
	gens["ring-sweep"] = genRingSweep
	gens["ring-soak"] = genRingSoak
}

func (ep *ringEp) newThread(name string) *rthread {
	return &rthread{ep: ep, name: name, release: make(chan struct{}), events: make(chan rev, 4)}
}

func (c *ringCore) reset(k int, adv, gate int64) {
	if c.ep != nil {
		c.ep.dead.Store(true)
		// let parked goroutines of the old episode run free
		for _, t := range c.ep.threads() {
			if t.started {
				select {
				case t.release <- struct{}{}:
				default:
				}
			}
		}
	}
	b, err := service.VerifNewBuffer(int64(1) << uint(k))
	if err != nil {
		panic(err)
	}
	b.VerifSetCursors(adv, gate)
	ep := &ringEp{b: b, size: b.VerifSize(), base: adv}
	ep.P = ep.newThread("P")
	ep.C = ep.newThread("C")
	c.ep = ep
}

func (ep *ringEp) threads() []*rthread {
	ts := []*rthread{ep.P, ep.C}
	return append(ts, ep.K...)
}

func (ep *ringEp) thread(name string) *rthread {
	switch {
	case name == "P":
		return ep.P
	case name == "C":
		return ep.C
	case strings.HasPrefix(name, "K"):
		i, err := strconv.Atoi(name[1:])
		if err == nil && i >= 0 && i < len(ep.K) {
			return ep.K[i]
		}
	}
	return nil
}

// start launches the goroutine of a thread; it waits at "idle" for its first release.
func (t *rthread) start() {
	t.started = true
	ready := make(chan int64)
	go func() {
		ready <- goid()
		for {
			<-t.release
			if t.ep.dead.Load() {
				return
			}
			call := t.prog[t.next]
			t.next++
			t.cur = &call
			res := t.ep.exec(t, call)
			t.cur = nil
			t.events <- rev{yield: -1, res: res}
		}
	}()
	registerGoid(<-ready, t)
}

func errClass(err error) string {
	switch {
	case err == nil:
		return "ok"
	case err == io.EOF:
		return "eof"
	case err == bufio.ErrBufferFull:
		return "full"
	case service.VerifIsInsufficient(err):
		return "insuf"
	}
	return "err"
}

// exec performs one API call of a thread program on the real ring.
func (ep *ringEp) exec(t *rthread, call rcall) *rres {
	r := &rres{name: call.name, err: "ok"}
	b := ep.b
	switch call.name {
	case "write":
		t.slice, t.filled = nil, 0
		p := make([]byte, call.n)
		o := ep.base + ep.produced
		for j := range p {
			p[j] = ringSrc(o + int64(j))
		}
		n, err := b.Write(p)
		r.n, r.err = n, errClass(err)
		if err == nil {
			ep.produced += int64(n)
		}
	case "wwait":
		t.slice, t.filled = nil, 0
		p, wrapped, err := b.WriteWait(call.n)
		r.err = errClass(err)
		if err == nil {
			t.slice = p
			r.n, r.off, r.wrapped = len(p), ep.base+ep.produced, wrapped
		}
	case "wfill":
		if t.slice == nil {
			r.err = "nouse"
			break
		}
		o := ep.base + ep.produced
		for j := range t.slice {
			t.slice[j] = ringSrc(o + int64(j))
		}
		r.n, r.off = len(t.slice), o
		t.filled = len(t.slice)
	case "wcommit":
		t.slice = nil
		k := call.n
		if k > t.filled { // a caller commits only what it has written
			k = t.filled
		}
		n, err := b.WriteCommit(k)
		r.n, r.err = n, errClass(err)
		if err == nil {
			ep.produced += int64(n)
			t.filled = 0
		}
	case "rfrom":
		t.slice, t.filled = nil, 0
		n, err := b.ReadFrom(&scriptReader{ep: ep, ms: call.ms})
		r.n, r.err = int(n), errClass(err)
	case "read":
		t.view, t.hasView, t.pending = nil, false, nil
		p := make([]byte, call.n)
		n, err := b.Read(p)
		r.n, r.err = n, errClass(err)
		if err == nil {
			r.off, r.data = ep.base+ep.obtained, p[:n]
			ep.obtained += int64(n)
		}
	case "peek", "rwait":
		t.view, t.hasView, t.pending = nil, false, nil
		if int64(call.n) > ep.size {
			// same pre-check order as the model (no shared access)
		}
		var p []byte
		var err error
		if call.name == "peek" {
			p, err = b.ReadPeek(call.n)
		} else {
			p, err = b.ReadWait(call.n)
		}
		r.err = errClass(err)
		if r.err == "ok" || r.err == "insuf" {
			t.view, t.hasView = p, true
			r.n, r.off = len(p), ep.base+ep.obtained
		}
	case "use":
		if !t.hasView {
			r.err = "nouse"
			break
		}
		t.pending = append([]byte(nil), t.view...)
		r.n, r.off, r.data = len(t.pending), ep.base+ep.obtained, t.pending
	case "commit":
		n := call.n
		if n > len(t.pending) {
			n = len(t.pending)
		}
		t.view, t.hasView = nil, false
		k, err := b.ReadCommit(n)
		r.err = errClass(err)
		if err == nil {
			r.n = k
			ep.obtained += int64(k)
			t.pending = nil
		}
	case "close":
		b.Close()
	case "len":
		r.n = b.Len()
	}
	return r
}

func (t *rthread) finished() bool { return t.state == stIdle && t.next >= len(t.prog) }

func (ep *ringEp) locked(mx int) bool {
	p, c := ep.b.VerifLocksFree()
	if mx == 0 {
		return !p
	}
	return !c
}

// status a `step` of t would have, without performing it
func (ep *ringEp) status(t *rthread) string {
	if t == nil || !t.declared {
		return "nothread"
	}
	switch t.state {
	case stIdle:
		if t.next >= len(t.prog) {
			return "nocall"
		}
	case stParked, stHung:
		return "blocked"
	case stYield:
		if k := ringKinds[t.pos]; k.op == "lock" && ep.locked(k.mx) {
			return "blocked"
		}
	}
	return "ok"
}

const ringDeadline = 2 * time.Second

// await waits for the next event of t (mark reached or call returned)
func (ep *ringEp) await(t *rthread) bool {
	select {
	case e := <-t.events:
		if e.yield < 0 {
			t.state, t.lastRes = stIdle, e.res
		} else {
			t.state, t.pos = stYield, e.yield
		}
		return true
	case <-time.After(ringDeadline):
		t.state = stHung
		ringHangs++
		return false
	}
}

// step releases t for one step; returns status and the result if the call returned
func (ep *ringEp) step(t *rthread) (string, *rres) {
	st := ep.status(t)
	if st != "ok" {
		return st, nil
	}
	if !t.started {
		t.start()
	}
	prev := ykind{op: "other"}
	if t.state == stYield {
		prev = ringKinds[t.pos]
	}
	waitPos := t.pos
	t.lastRes = nil
	t.release <- struct{}{}
	if prev.op == "wait" {
		// Cond.Wait parks for real: it has joined the wait list once the mutex is free again
		dl := time.Now().Add(ringDeadline)
		for ep.locked(prev.mx) {
			if time.Now().After(dl) {
				t.state = stHung
				ringHangs++
				return "hang", nil
			}
			runtime.Gosched()
		}
		t.state, t.pos, t.waitMx, t.notified = stParked, waitPos, prev.mx, false
		ep.owner[prev.mx] = nil
	} else {
		if !ep.await(t) {
			return "hang", nil
		}
		switch prev.op {
		case "lock":
			ep.owner[prev.mx] = t
		case "unlock":
			ep.owner[prev.mx] = nil
		case "bcast":
			for _, w := range ep.threads() {
				if w.state == stParked && w.waitMx == prev.mx {
					w.notified = true
				}
			}
		}
	}
	// woken waiters whose mutex is free re-acquire it on their own
	for _, w := range []*rthread{ep.P, ep.C} {
		if w.state == stParked && w.notified && ep.owner[w.waitMx] == nil {
			if !ep.await(w) {
				return "hang", nil
			}
			w.notified = false
			ep.owner[w.waitMx] = w
		}
	}
	return "ok", t.lastRes
}


func (t *rthread) posStr() string {
	if !t.declared {
		return "-"
	}
	switch t.state {
	case stIdle:
		if t.next >= len(t.prog) {
			return "f"
		}
		return "i"
	case stYield:
		return strconv.Itoa(t.pos)
	case stParked:
		return "w" + strconv.Itoa(t.pos)
	}
	return "h"
}

func (ep *ringEp) stateStr() string {
	p, c, g, d := ep.b.VerifCursors()
	pf, cf := ep.b.VerifLocksFree()
	var pos []string
	for _, t := range ep.threads() {
		pos = append(pos, t.posStr())
	}
	return fmt.Sprintf("p=%d c=%d g=%d d=%s L=%s%s pos=%s", p, c, g, b01(d), b01(!pf), b01(!cf), strings.Join(pos, ","))
}

func allowedCall(name string, c rcall) bool {
	switch {
	case name == "P":
		return c.producer() || c.name == "close" || c.name == "len"
	case name == "C":
		return c.consumer() || c.name == "close" || c.name == "len"
	}
	return c.name == "close" || c.name == "len"
}

// round-robin, one step per thread per pass, until a pass makes no progress
func (ep *ringEp) roundRobin() bool {
	for pass := 0; pass < 1000000; pass++ {
		progress := false
		for _, t := range ep.threads() {
			st, _ := ep.step(t)
			if st == "hang" {
				return false
			}
			if st == "ok" {
				progress = true
			}
		}
		if !progress {
			return true
		}
	}
	return true
}

func (ep *ringEp) needHave(t *rthread) (int64, int64) {
	p, c, _, _ := ep.b.VerifCursors()
	data := p - c
	space := ep.size - data
	if t.cur == nil {
		return 0, 0
	}
	switch t.cur.name {
	case "read", "peek":
		return 1, data
	case "rwait":
		return int64(t.cur.n), data
	case "write", "wwait":
		return int64(t.cur.n), space
	case "wcommit":
		return int64(min64(int64(t.cur.n), int64(t.filled))), space
	case "rfrom":
		// ReadFrom waits for one free byte (its WriteCommit never waits)
		return 1, space
	}
	return 0, 0
}

func (ep *ringEp) report(withNeed bool) string {
	var items []string
	for _, t := range ep.threads() {
		if !t.declared || t.finished() {
			continue
		}
		if withNeed {
			n, h := ep.needHave(t)
			items = append(items, fmt.Sprintf("%s:%s:%d:%d", t.name, t.posStr(), n, h))
		} else {
			items = append(items, fmt.Sprintf("%s:%s", t.name, t.posStr()))
		}
	}
	return "[" + strings.Join(items, ";") + "]"
}

func (ep *ringEp) addCloser() {
	t := ep.newThread("K" + strconv.Itoa(len(ep.K)))
	t.declared = true
	t.prog = []rcall{{name: "close"}}
	ep.K = append(ep.K, t)
}

func lastErr(t *rthread) string {
	if t.lastRes == nil {
		return "-"
	}
	return t.lastRes.err
}

func (ep *ringEp) finish() string {
	if !ep.roundRobin() {
		return "hang"
	}
	_, _, _, d := ep.b.VerifCursors()
	q := ep.report(true) + "@d" + b01(d)
	ep.addCloser()
	if !ep.roundRobin() {
		return "hang"
	}
	pIdle := !ep.P.declared || ep.P.finished()
	cIdle := !ep.C.declared || ep.C.finished()
	if pIdle {
		ep.P.declared = true
		ep.P.prog = append(ep.P.prog[:ep.P.next:ep.P.next], rcall{name: "write", n: 1})
		ep.P.lastRes = nil
	}
	if cIdle {
		ep.C.declared = true
		ep.C.prog = append(ep.C.prog[:ep.C.next:ep.C.next], rcall{name: "read", n: 1})
		ep.C.lastRes = nil
	}
	ep.addCloser()
	if !ep.roundRobin() {
		return "hang"
	}
	lw, lr := "-", "-"
	if pIdle {
		lw = lastErr(ep.P)
	}
	if cIdle {
		lr = lastErr(ep.C)
	}
	return fmt.Sprintf("fin q=%s end=%s lw=%s lr=%s %s", q, ep.report(false), lw, lr, ep.stateStr())
}

// un-hooked sequential call (the goroutine is not registered, every mark is a no-op)
func (ep *ringEp) call(t *rthread, c rcall) string {
	if t.state != stIdle {
		return "busy"
	}
	t.declared = true
	done := make(chan *rres, 1)
	go func() {
		t.cur = &c
		r := ep.exec(t, c)
		t.cur = nil
		done <- r
	}()
	select {
	case r := <-done:
		return "ok " + ep.stateStr() + r.String()
	case <-time.After(ringDeadline):
		ep.over = true
		ringHangs++
		// what the stuck call waits for and what the other side has committed (for the oracle:
		// a call that waits for bytes nobody committed is blocked legitimately)
		n, h := ep.needHave(t)
		_, _, _, d := ep.b.VerifCursors()
		return fmt.Sprintf("hang %s:%d:%d@d%s", t.name, n, h, b01(d))
	}
}

type pipeReader struct {
	pos, total int64
	chunk      int
}

func (r *pipeReader) Read(p []byte) (int, error) {
	if r.pos >= r.total {
		return 0, io.EOF
	}
	n := len(p)
	if n > r.chunk {
		n = r.chunk
	}
	if int64(n) > r.total-r.pos {
		n = int(r.total - r.pos)
	}
	for j := 0; j < n; j++ {
		p[j] = ringSrc(r.pos + int64(j))
	}
	r.pos += int64(n)
	return n, nil
}

type pipeWriter struct {
	got       []byte
	failAfter int // > 0: the writer fails at its failAfter+1st call (the peer went away)
	calls     int
	full      func() bool // the ring is full (ReadFrom is blocked for space)
	slow      bool
}

func (w *pipeWriter) Write(p []byte) (int, error) {
	w.calls++
	if w.failAfter > 0 && w.calls > w.failAfter {
		// fail only once the reader side is blocked for space, so that Close has somebody to wake
		for dl := time.Now().Add(300 * time.Millisecond); !w.full() && time.Now().Before(dl); {
			time.Sleep(50 * time.Microsecond)
		}
		time.Sleep(200 * time.Microsecond)
		return 0, io.ErrClosedPipe
	}
	if w.slow && w.calls%2 == 0 {
		time.Sleep(150 * time.Microsecond)
	}
	w.got = append(w.got, p...)
	return len(p), nil
}

// free-running ReadFrom / WriteTo on a fresh ring (no scheduler)
func ringPipe(total int64, chunk int, failAfter int) string {
	// chunk >= 100000 encodes "slow writer" plus the burst size chunk % 100000 (which may exceed
	// one read block): a lagging consumer and a reader that delivers as much as it is offered
	slow := false
	if chunk >= 100000 {
		slow = true
		chunk %= 100000
	}
	b, err := service.VerifNewBuffer(16384)
	if err != nil {
		panic(err)
	}
	type rr struct {
		n   int64
		err error
	}
	rf, wt := make(chan rr, 1), make(chan rr, 1)
	w := &pipeWriter{failAfter: failAfter, slow: slow}
	w.full = func() bool { return int64(b.Len()) >= b.VerifSize() }
	go func() { n, err := b.ReadFrom(&pipeReader{total: total, chunk: chunk}); rf <- rr{n, err} }()
	go func() { n, err := b.WriteTo(w); wt <- rr{n, err} }()
	var a, c rr
	for got := 0; got < 2; got++ {
		select {
		case a = <-rf:
		case c = <-wt:
		case <-time.After(2 * ringDeadline):
			ringHangs++
			return "pipe hang"
		}
	}
	pre := int64(len(w.got)) == c.n && c.n <= total
	for j := range w.got {
		if w.got[j] != ringSrc(int64(j)) {
			pre = false
		}
	}
	if failAfter > 0 {
		// the writer failed: WriteTo closes the ring, ReadFrom (possibly blocked for space) must return too;
		// which of its exits it takes depends on the interleaving
		return fmt.Sprintf("pipe done pre=%s", boolStr(pre))
	}
	return fmt.Sprintf("pipe rf=%d:%s wt=%s pre=%s", a.n, errClass(a.err), errClass(c.err), boolStr(pre))
}

func (c *ringCore) handle(ws []string) string {
	if len(ws) == 4 && ws[0] == "reset" {
		k, e1 := strconv.Atoi(ws[1])
		adv, e2 := strconv.ParseInt(ws[2], 10, 64)
		gate, e3 := strconv.ParseInt(ws[3], 10, 64)
		if e1 != nil || e2 != nil || e3 != nil || k < 14 || k > 24 || adv < 0 || gate < 0 {
			return "bad-op"
		}
		c.reset(k, adv, gate)
		return "reset"
	}
	if c.ep == nil {
		c.reset(14, 0, 0)
	}
	ep := c.ep
	if ep.over {
		return "dead"
	}
	if ringHangs > 40 {
		return "skipped-after-too-many-hangs"
	}
	switch {
	case len(ws) >= 2 && ws[0] == "thread":
		var prog []rcall
		for _, w := range ws[2:] {
			rc, ok := parseRcall(w)
			if !ok || !allowedCall(ws[1], rc) {
				return "bad-op"
			}
			prog = append(prog, rc)
		}
		switch {
		case ws[1] == "P" || ws[1] == "C":
			t := ep.thread(ws[1])
			if t.hasProg {
				return "dup"
			}
			t.declared, t.hasProg, t.prog = true, true, prog
		case strings.HasPrefix(ws[1], "K"):
			i, err := strconv.Atoi(ws[1][1:])
			if err != nil {
				return "bad-op"
			}
			if i != len(ep.K) {
				return "dup"
			}
			t := ep.newThread(ws[1])
			t.declared, t.prog = true, prog
			ep.K = append(ep.K, t)
		default:
			return "bad-op"
		}
		return "thread"
	case len(ws) == 2 && ws[0] == "step":
		if !(ws[1] == "P" || ws[1] == "C" || (strings.HasPrefix(ws[1], "K") && isNat(ws[1][1:]))) {
			return "bad-op"
		}
		t := ep.thread(ws[1])
		st, res := ep.step(t)
		if st == "hang" {
			ep.over = true
			return "hang"
		}
		s := st + " " + ep.stateStr()
		if st == "ok" && res != nil {
			s += res.String()
		}
		return s
	case len(ws) == 3 && ws[0] == "call":
		rc, ok := parseRcall(ws[2])
		if !ok || (ws[1] != "P" && ws[1] != "C") || !allowedCall(ws[1], rc) {
			return "bad-op"
		}
		return ep.call(ep.thread(ws[1]), rc)
	case len(ws) == 1 && ws[0] == "finish":
		s := ep.finish()
		ep.over = true
		return s
	case (len(ws) == 3 || len(ws) == 4) && ws[0] == "pipe":
		total, e1 := strconv.ParseInt(ws[1], 10, 64)
		chunk, e2 := strconv.Atoi(ws[2])
		fail := 0
		var e3 error
		if len(ws) == 4 {
			fail, e3 = strconv.Atoi(ws[3])
		}
		if e1 != nil || e2 != nil || e3 != nil || total < 0 || chunk <= 0 || fail < 0 {
			return "bad-op"
		}
		return ringPipe(total, chunk, fail)
	}
	return "bad-op"
}

func isNat(s string) bool {
	if s == "" {
		return false
	}
	for _, ch := range s {
		if ch < '0' || ch > '9' {
			return false
		}
	}
	return true
}

// ---- generators -----------------------------------------------------------
//
// The generators drive the real ring themselves (same scheduler) so that the
// random choice of the next thread can see where every thread is parked and
// switch at the interesting windows.  Only op lines are emitted; `corr run`
// and the Lean driver replay them independently.

type ringGen struct {
	r    *rand.Rand
	w    *bufio.Writer
	core *ringCore
}

func newRingGen(seed int64, w *bufio.Writer) *ringGen {
	loadRingKinds()
	service.VerifYieldHandler = ringYield
	return &ringGen{r: rand.New(rand.NewSource(seed)), w: w, core: &ringCore{}}
}

// emit prints the op line and executes it on the generator's own ring
func (g *ringGen) emit(format string, a ...interface{}) string {
	line := fmt.Sprintf(format, a...)
	fmt.Fprintln(g.w, "ring "+line)
	return g.core.handle(strings.Fields(line))
}

const ringSize = 16384

func (g *ringGen) size() int {
	r := g.r
	switch r.Intn(10) {
	case 0, 1, 2, 3:
		return 1 + r.Intn(16)
	case 4, 5:
		return 8192 - 3 + r.Intn(7)
	case 6:
		return r.Intn(3)
	case 7:
		return ringSize - r.Intn(4)
	case 8:
		return 1 + r.Intn(ringSize)
	}
	return 100 + r.Intn(4000)
}

// windows: marks at which a thread sits between a test and its consequence
var ringWindows = map[int]bool{
	81: true, 82: true, 83: true, 91: true, 92: true, 93: true, // cursor loaded, before / just after Lock
	34: true, 36: true, 75: true, 77: true, 84: true, 86: true, 94: true, 96: true, // isDone tested, before Wait
	35: true, 76: true, 85: true, 95: true, // about to return end-of-stream inside the lock region
	39: true, 131: true, 132: true, 133: true, // room found, before the last isDone test / done seen, before the second look at the producer cursor (F9)
	42: true, 43: true, 44: true, 50: true, 51: true, 52: true, // cursor store .. Broadcast
	64: true, 65: true, 66: true, 69: true, 70: true, 71: true, 102: true, 103: true, 104: true,
	11: true, 12: true, 13: true, 14: true, 15: true, 16: true, // inside Close
	32: true, 33: true, 73: true, 74: true,
	110: true, 112: true, 111: true, // ReadFrom: loop head, before the load of the consumer cursor, before the read
}

// rfromCall: a ReadFrom whose reader delivers bursts of many sizes: single bytes, around one read block,
// more than one read block, more than the ring, and now and then nothing
func (g *ringGen) rfromCall() string {
	r := g.r
	k := 1 + r.Intn(5)
	ms := make([]string, 0, k)
	for i := 0; i < k; i++ {
		var m int
		switch r.Intn(8) {
		case 0:
			m = pick(r, []int{8193, 9000, 12000, 16384, 20000})
		case 1:
			m = 8192 - 2 + r.Intn(5)
		case 2:
			m = 1 + r.Intn(3)
		case 3:
			if r.Intn(3) == 0 {
				m = 0
			} else {
				m = 1 + r.Intn(ringSize)
			}
		default:
			m = g.size()
		}
		ms = append(ms, strconv.Itoa(m))
	}
	if r.Intn(12) == 0 {
		return "rfrom:-"
	}
	return "rfrom:" + strings.Join(ms, ",")
}

func (g *ringGen) programs(adv int64) (p, c []string, closers int) {
	r := g.r
	ppos := adv
	full := r.Intn(5) == 0 // start from a (nearly) full ring so that the producer blocks
	if full {
		n := ringSize - r.Intn(3)
		p = append(p, fmt.Sprintf("write:%d", n))
		ppos += int64(n)
	}
	for i, k := 0, 1+r.Intn(3); i < k; i++ {
		n := g.size()
		if full || r.Intn(3) == 0 {
			n = 1 + r.Intn(12)
		}
		switch r.Intn(5) {
		case 0, 1, 2:
			p = append(p, fmt.Sprintf("write:%d", n))
		default:
			if n == 0 {
				n = 1
			}
			p = append(p, fmt.Sprintf("wwait:%d", n))
			if (ppos&(ringSize-1))+int64(n) > ringSize { // wrapped slice: the service falls back to Write
				p = append(p, fmt.Sprintf("write:%d", n))
			} else {
				p = append(p, "wfill", fmt.Sprintf("wcommit:%d", n))
			}
		}
		ppos += int64(n)
	}
	if r.Intn(4) == 0 {
		// ReadFrom (it closes the ring when it returns; calls after it see the closed ring)
		p = append(p, g.rfromCall())
		if r.Intn(4) == 0 {
			p = append(p, "write:3")
		}
	}
	if r.Intn(6) == 0 {
		p = append(p, "close")
	}
	for i, k := 0, 1+r.Intn(3); i < k; i++ {
		n := g.size()
		if r.Intn(2) == 0 {
			n = 1 + r.Intn(12)
		}
		switch r.Intn(6) {
		case 0, 1:
			c = append(c, fmt.Sprintf("read:%d", n))
		case 2, 3:
			c = append(c, fmt.Sprintf("peek:%d", n), "use", fmt.Sprintf("commit:%d", 1+r.Intn(n+1)))
		case 4:
			c = append(c, fmt.Sprintf("rwait:%d", n), "use", fmt.Sprintf("commit:%d", n))
		default:
			c = append(c, fmt.Sprintf("peek:%d", n), fmt.Sprintf("rwait:%d", 1+r.Intn(8)), "use", "commit:8")
		}
	}
	if r.Intn(8) == 0 {
		c = append(c, "close")
	}
	switch r.Intn(10) {
	case 0, 1, 2, 3:
		closers = 1
	case 4:
		closers = 2
	}
	return
}

func (g *ringGen) advance() (adv, gate int64) {
	r := g.r
	switch r.Intn(6) {
	case 0:
		adv = 0
	case 1, 2:
		adv = int64(ringSize*(1+r.Intn(3))) - int64(r.Intn(24))
	case 3:
		adv = int64(ringSize*(1+r.Intn(3))) - 8192 + int64(r.Intn(7)) - 3
	default:
		adv = int64(r.Intn(5 * ringSize))
	}
	gate = adv
	if r.Intn(3) == 0 && adv > 0 {
		gate = adv - int64(r.Intn(int(min64(adv, ringSize))+1))
	}
	return
}

func min64(a, b int64) int64 {
	if a < b {
		return a
	}
	return b
}

func (g *ringGen) episode(maxSteps int) {
	r := g.r
	adv, gate := g.advance()
	g.emit("reset 14 %d %d", adv, gate)
	p, c, nk := g.programs(adv)
	names := []string{}
	if len(p) > 0 && r.Intn(12) != 0 {
		g.emit("thread P %s", strings.Join(p, " "))
		names = append(names, "P")
	}
	if len(c) > 0 && r.Intn(12) != 0 {
		g.emit("thread C %s", strings.Join(c, " "))
		names = append(names, "C")
	}
	for i := 0; i < nk; i++ {
		g.emit("thread K%d close", i)
		names = append(names, fmt.Sprintf("K%d", i))
	}
	if len(names) == 0 {
		g.emit("thread K0 close")
		names = append(names, "K0")
	}
	ep := g.core.ep
	cur := pick(r, names)
	burst := 1 + r.Intn(6)
	for s := 0; s < maxSteps; s++ {
		var enabled []string
		for _, n := range names {
			if ep.status(ep.thread(n)) == "ok" {
				enabled = append(enabled, n)
			}
		}
		if len(enabled) == 0 {
			break
		}
		t := ep.thread(cur)
		atWindow := t.state == stYield && ringWindows[t.pos]
		burst--
		if ep.status(t) != "ok" || burst <= 0 || (atWindow && r.Intn(10) < 6) {
			// switch: prefer another thread
			others := []string{}
			for _, n := range enabled {
				if n != cur {
					others = append(others, n)
				}
			}
			if len(others) > 0 {
				cur = pick(r, others)
			} else {
				cur = enabled[0]
			}
			burst = 1 + r.Intn(14)
			if r.Intn(4) == 0 {
				burst = 1
			}
		}
		if r.Intn(40) == 0 { // now and then a step that is not enabled
			cur = pick(r, names)
		}
		out := g.emit("step %s", cur)
		if out == "hang" {
			return
		}
	}
	g.emit("finish")
}

// episodeLag: ReadFrom with LESS THAN ONE READ BLOCK FREE.  The producer first fills the ring up to `free`
// bytes (free = 1 … 8191, and the boundaries 0, 8192), then runs ReadFrom with bursts of many sizes while
// the consumer lags behind (short bursts of consumer steps, reads of many sizes).  Before repository commit
// 8f682d1 ReadFrom waited here for a whole read block (finding F3); now every read must take
// min(burst, free, bytes up to the ring end) bytes and must never touch an uncommitted byte.
func (g *ringGen) episodeLag(maxSteps int) {
	r := g.r
	adv, gate := g.advance()
	g.emit("reset 14 %d %d", adv, gate)
	var free int
	switch r.Intn(8) {
	case 0:
		free = 1 + r.Intn(3)
	case 1:
		free = 8191 - r.Intn(3)
	case 2:
		free = pick(r, []int{0, 8192, 8193})
	default:
		free = 1 + r.Intn(8191)
	}
	p := []string{fmt.Sprintf("write:%d", ringSize-free), g.rfromCall()}
	var c []string
	for i, k := 0, 2+r.Intn(4); i < k; i++ {
		n := g.size()
		switch r.Intn(5) {
		case 0, 1:
			c = append(c, fmt.Sprintf("read:%d", n))
		case 2:
			c = append(c, fmt.Sprintf("peek:%d", n), "use", fmt.Sprintf("commit:%d", 1+r.Intn(n+1)))
		case 3:
			c = append(c, fmt.Sprintf("read:%d", 1+r.Intn(free+2)))
		default:
			c = append(c, fmt.Sprintf("peek:%d", 1+r.Intn(8192)), "use", "commit:16384")
		}
	}
	g.emit("thread P %s", strings.Join(p, " "))
	g.emit("thread C %s", strings.Join(c, " "))
	names := []string{"P", "C"}
	if r.Intn(4) == 0 {
		g.emit("thread K0 close")
		names = append(names, "K0")
	}
	ep := g.core.ep
	cur := "P"
	burst := 8 + r.Intn(30)
	for s := 0; s < maxSteps; s++ {
		var enabled []string
		for _, n := range names {
			if ep.status(ep.thread(n)) == "ok" {
				enabled = append(enabled, n)
			}
		}
		if len(enabled) == 0 {
			break
		}
		t := ep.thread(cur)
		atWindow := t.state == stYield && ringWindows[t.pos]
		burst--
		if ep.status(t) != "ok" || burst <= 0 || (atWindow && r.Intn(10) < 3) {
			others := []string{}
			for _, n := range enabled {
				if n != cur {
					others = append(others, n)
				}
			}
			if len(others) > 0 {
				cur = pick(r, others)
			} else {
				cur = enabled[0]
			}
			switch cur {
			case "P":
				burst = 6 + r.Intn(40) // the producer runs ahead
			case "C":
				burst = 1 + r.Intn(9) // the consumer lags
			default:
				burst = 1 + r.Intn(4)
			}
		}
		if g.emit("step %s", cur) == "hang" {
			return
		}
	}
	g.emit("finish")
}

func genRing(seed int64, n int, tier string, w *bufio.Writer) {
	g := newRingGen(seed, w)
	for i := 0; i < n; i++ {
		if g.r.Intn(3) == 0 {
			g.episodeLag(60 + g.r.Intn(140))
		} else {
			g.episode(30 + g.r.Intn(60))
		}
		if ringHangs > 40 {
			break
		}
	}
}

// ---- exhaustive schedules of small programs (stateless search with re-execution) ----

type sweepCfg struct {
	pre     []string // sequential calls before the threads start (e.g. fill the ring)
	threads [][2]string
	adv     int64
}

var ringSweeps = []sweepCfg{
	{threads: [][2]string{{"C", "read:5"}, {"P", "write:5"}}},                                             // blocked reader x data
	{threads: [][2]string{{"C", "rwait:4 use commit:4"}, {"P", "write:4"}}, adv: 16382},                  // ReadWait x data, wrap
	{threads: [][2]string{{"C", "peek:4"}, {"P", "wwait:2 wfill wcommit:2"}}},                             // ReadPeek x reserve+commit
	{threads: [][2]string{{"C", "peek:4"}, {"K0", "close"}}},                                              // blocked reader x Close
	{threads: [][2]string{{"C", "read:4"}, {"K0", "close"}}},                                              //
	{threads: [][2]string{{"C", "rwait:4"}, {"K0", "close"}}},                                             //
	{pre: []string{"call P write:16384"}, threads: [][2]string{{"P", "write:3"}, {"C", "read:8"}}},        // blocked writer x space
	{pre: []string{"call P write:16384"}, threads: [][2]string{{"P", "write:3"}, {"C", "peek:8 use commit:8"}}},
	{pre: []string{"call P write:16384"}, threads: [][2]string{{"P", "write:3"}, {"K0", "close"}}},        // blocked writer x Close
	{pre: []string{"call P write:16384"}, threads: [][2]string{{"P", "wcommit:2"}, {"K0", "close"}}},      //
	{threads: [][2]string{{"C", "read:1"}, {"K0", "close"}, {"K1", "close"}}},                             // Close twice
	{threads: [][2]string{{"P", "write:2 close"}, {"C", "read:4 read:4"}}},                                // producer closes
	{pre: []string{"call P write:16383"}, threads: [][2]string{{"P", "rfrom:5,3"}, {"C", "read:8"}}},      // ReadFrom, 1 byte free x space
	{pre: []string{"call P write:16384"}, threads: [][2]string{{"P", "rfrom:3"}, {"C", "read:2"}}},        // blocked ReadFrom x space
	{pre: []string{"call P write:16384"}, threads: [][2]string{{"P", "rfrom:3"}, {"K0", "close"}}},        // blocked ReadFrom x Close
	{threads: [][2]string{{"P", "rfrom:2,2"}, {"C", "rwait:3 use commit:3"}}, adv: 16382},                 // ReadFrom x ReadWait, wrap
}

// runs one schedule: follows `prefix` (indices into the enabled list), then the
// default policy (stay on the current thread while it is enabled).  Returns for
// every step the number of enabled threads, the index chosen and whether the
// choice was a preemption.
type sweepStep struct {
	nEnabled, chosen int
	curIdx           int // index of the previously running thread in the enabled list, -1 if not enabled
}

func (g *ringGen) sweepRun(cfg sweepCfg, prefix []int, lines *[]string) []sweepStep {
	var trace []sweepStep
	emit := func(format string, a ...interface{}) string {
		line := fmt.Sprintf(format, a...)
		*lines = append(*lines, "ring "+line)
		return g.core.handle(strings.Fields(line))
	}
	emit("reset 14 %d %d", cfg.adv, cfg.adv)
	for _, p := range cfg.pre {
		emit("%s", p)
	}
	var names []string
	for _, t := range cfg.threads {
		emit("thread %s %s", t[0], t[1])
		names = append(names, t[0])
	}
	ep := g.core.ep
	last := ""
	for s := 0; s < 400; s++ {
		var enabled []string
		for _, n := range names {
			if ep.status(ep.thread(n)) == "ok" {
				enabled = append(enabled, n)
			}
		}
		if len(enabled) == 0 {
			break
		}
		curIdx := -1
		for i, n := range enabled {
			if n == last {
				curIdx = i
			}
		}
		choice := 0
		if s < len(prefix) {
			choice = prefix[s]
		} else if curIdx >= 0 {
			choice = curIdx
		}
		if choice >= len(enabled) {
			choice = 0
		}
		trace = append(trace, sweepStep{len(enabled), choice, curIdx})
		last = enabled[choice]
		if emit("step %s", last) == "hang" {
			return trace
		}
	}
	emit("finish")
	return trace
}

func genRingSweep(seed int64, n int, tier string, w *bufio.Writer) {
	// n = preemption bound; leaves per configuration are capped
	g := newRingGen(seed, w)
	bound := n
	maxLeaves := 400
	if tier == "thorough" {
		maxLeaves = 20000
	}
	for _, cfg := range ringSweeps {
		prefix := []int{}
		for leaves := 0; leaves < maxLeaves; leaves++ {
			var lines []string
			trace := g.sweepRun(cfg, prefix, &lines)
			for _, l := range lines {
				fmt.Fprintln(w, l)
			}
			if ringHangs > 40 {
				return
			}
			// next schedule: deepest step with an untried alternative within the preemption bound
			choices := make([]int, len(trace))
			for i, s := range trace {
				choices[i] = s.chosen
			}
			next := -1
			for i := len(trace) - 1; i >= 0 && next < 0; i-- {
				// preemptions used before step i
				used := 0
				for j := 0; j < i; j++ {
					if trace[j].curIdx >= 0 && trace[j].chosen != trace[j].curIdx {
						used++
					}
				}
				for alt := choices[i] + 1; alt < trace[i].nEnabled; alt++ {
					cost := 0
					if trace[i].curIdx >= 0 && alt != trace[i].curIdx {
						cost = 1
					}
					if used+cost <= bound {
						prefix = append(append([]int{}, choices[:i]...), alt)
						next = i
						break
					}
				}
			}
			if next < 0 {
				break
			}
		}
	}
}

// ---- sequential soak (no scheduler, no hooks): long streams through every call, sizes around the block size and the wrap ----

func genRingSoak(seed int64, n int, tier string, w *bufio.Writer) {
	g := newRingGen(seed, w)
	r := g.r
	for done := 0; done < n; {
		adv, gate := g.advance()
		g.emit("reset 14 %d %d", adv, gate)
		ppos, cpos := adv, adv
		eplen := 50 + r.Intn(300)
		for i := 0; i < eplen && done < n; i++ {
			done++
			avail := ppos - cpos
			space := int64(ringSize) - avail
			sz := int64(g.size())
			if r.Intn(2) == 0 { // producer side
				if sz > space {
					sz = space
				}
				if sz == 0 && r.Intn(4) != 0 {
					continue
				}
				if r.Intn(3) == 0 && sz > 0 {
					g.emit("call P wwait:%d", sz)
					if (ppos&(ringSize-1))+sz > ringSize {
						g.emit("call P write:%d", sz)
					} else {
						g.emit("call P wfill")
						g.emit("call P wcommit:%d", sz)
					}
				} else {
					g.emit("call P write:%d", sz)
				}
				ppos += sz
			} else { // consumer side (never a call that would block)
				if avail == 0 {
					if r.Intn(6) == 0 {
						g.emit("call C commit:0")
						g.emit("call C len")
					}
					continue
				}
				switch r.Intn(4) {
				case 0:
					g.emit("call C read:%d", sz)
					// Read copies at most up to the end of the ring
					k := sz
					if k > avail {
						k = avail
					}
					if e := int64(ringSize) - (cpos & (ringSize - 1)); k > e {
						k = e
					}
					cpos += k
				case 1:
					g.emit("call C peek:%d", sz)
					g.emit("call C use")
					k := sz
					if k > avail {
						k = avail
					}
					c := int64(r.Intn(int(k) + 1))
					if r.Intn(2) == 0 {
						c = k
					}
					g.emit("call C commit:%d", c)
					cpos += c
				default:
					k := sz
					if k > avail {
						k = avail
					}
					g.emit("call C rwait:%d", k)
					g.emit("call C use")
					g.emit("call C commit:%d", k)
					cpos += k
				}
			}
		}
		if r.Intn(3) == 0 {
			// a whole ReadFrom without scheduler: every read takes min(burst, read block, free space, bytes up to
			// the ring end); the script is cut so that ReadFrom never has to wait (one byte stays free for the
			// waitForWriteSpace(1) that precedes the read which finds the reader at its end)
			var ms []string
			for i, k := 0, 1+r.Intn(6); i < k; i++ {
				space := int64(ringSize) - (ppos - cpos)
				if space <= 1 {
					break
				}
				m := int64(g.size())
				if r.Intn(5) == 0 {
					m = int64(pick(r, []int{8193, 9000, 16384, 20000}))
				}
				if m > space-1 {
					m = space - 1 // offer no more than what keeps one byte free
				}
				take := m
				for _, lim := range []int64{8192, int64(ringSize) - (ppos & (ringSize - 1))} {
					if take > lim {
						take = lim // a burst longer than this read can take is cut; the rest is not offered again
					}
				}
				ms = append(ms, strconv.FormatInt(m, 10))
				ppos += take
			}
			if len(ms) == 0 {
				ms = []string{"0"}
			}
			if int64(ringSize)-(ppos-cpos) >= 1 {
				g.emit("call P rfrom:%s", strings.Join(ms, ","))
				g.emit("call C read:100")
				g.emit("call P write:1")
			}
		} else if r.Intn(3) == 0 {
			g.emit("call P close")
			g.emit("call C read:100")
			g.emit("call P write:1")
		}
		if r.Intn(4) == 0 {
			g.emit("pipe %d %d", 1+r.Intn(200000), 1+r.Intn(9000))
		}
		if r.Intn(5) == 0 { // lagging consumer, reader bursts larger than one read block
			g.emit("pipe %d %d", 60000+r.Intn(200000), 100000+pick(r, []int{8193, 9000, 12000, 16384, 20000}))
		}
		if r.Intn(6) == 0 { // the peer goes away while the reader side is blocked for space (DESIGN 9.F2)
			g.emit("pipe %d %d %d", 40000+r.Intn(100000), 1+r.Intn(9000), 1+r.Intn(3))
		}
	}
}
