package main

// Core B — topics.MemTopics through its exported API.

import (
	"bufio"
	"fmt"
	"math/rand"
	"sort"
	"strings"

	"github.com/mdzio/go-mqtt/message"
	"github.com/mdzio/go-mqtt/topics"
)

type topicsCore struct {
	mt   *topics.MemTopics
	subs map[int]*int
}

func init() {
	cores["topics"] = func() core { return &topicsCore{mt: topics.NewMemProvider(), subs: map[int]*int{}} }
	gens["topics"] = genTopics
	gens["topics-sweep"] = genTopicsSweep
}

func (c *topicsCore) sub(id int) *int {
	p, ok := c.subs[id]
	if !ok {
		v := id
		p = &v
		c.subs[id] = p
	}
	return p
}

func (c *topicsCore) handle(ws []string) string {
	switch ws[0] {
	case "reset":
		c.mt = topics.NewMemProvider()
		c.subs = map[int]*int{}
		return "reset"
	case "sub":
		q, err := c.mt.Subscribe(unhex(ws[1]), byte(atoi(ws[2])), c.sub(atoi(ws[3])))
		if err != nil {
			return "err"
		}
		return fmt.Sprintf("granted %d", q)
	case "unsub":
		if err := c.mt.Unsubscribe(unhex(ws[1]), c.sub(atoi(ws[2]))); err != nil {
			return "err"
		}
		return "ok"
	case "unsuball":
		if err := c.mt.Unsubscribe(unhex(ws[1]), nil); err != nil {
			return "err"
		}
		return "ok"
	case "subs":
		var ss []interface{}
		var qs []byte
		if err := c.mt.Subscribers(unhex(ws[1]), byte(atoi(ws[2])), &ss, &qs); err != nil {
			return "err"
		}
		var parts []string
		for i, s := range ss {
			parts = append(parts, fmt.Sprintf("%d:%d", *(s.(*int)), qs[i]))
		}
		sort.Strings(parts)
		return "subs [" + strings.Join(parts, ",") + "]"
	case "retain":
		m := message.NewPublishMessage()
		if err := m.SetTopic(unhex(ws[1])); err != nil {
			// not a topic name the message API accepts; go through the raw store anyway
			return "err"
		}
		q := atoi(ws[2])
		m.SetQoS(byte(q))
		if q > 0 {
			m.SetPacketID(7)
		}
		m.SetPayload(unhex(ws[3]))
		m.SetRetain(true)
		if err := c.mt.Retain(m); err != nil {
			return "err"
		}
		return "ok"
	case "retained":
		var ms []*message.PublishMessage
		if err := c.mt.Retained(unhex(ws[1]), &ms); err != nil {
			return "err"
		}
		var parts []string
		for _, m := range ms {
			parts = append(parts, fmt.Sprintf("%s:%d:%s", hexOf(m.Topic()), m.QoS(), hexOf(m.Payload())))
		}
		sort.Strings(parts)
		return "rets [" + strings.Join(parts, ",") + "]"
	}
	return "bad-op"
}

// ---- generation -----------------------------------------------------------

func hexStr(s string) string { return hexOf([]byte(s)) }

type topicsGen struct {
	r     *rand.Rand
	w     *bufio.Writer
	lits  []string
	held  [][2]string // (filter, sub) believed subscribed
	names []string    // names retained
	// known-finding classes are confined to dedicated episodes so that they
	// cannot mask a new deviation elsewhere
	allowEmpty, allowDollar bool
}

func (g *topicsGen) emit(format string, a ...interface{}) {
	fmt.Fprintf(g.w, "topics "+format+"\n", a...)
}

func (g *topicsGen) name() string {
	r := g.r
	if r.Intn(60) == 0 {
		// the empty topic: neither a name nor a filter (MQTT-4.7.3-1); every entry point of the
		// store must turn it away (finding B6, repaired) - it simply has to agree with the specification
		return ""
	}
	n := 1 + r.Intn(4)
	ls := make([]string, n)
	for i := range ls {
		ls[i] = pick(r, g.lits)
		if g.allowEmpty && r.Intn(8) == 0 {
			ls[i] = "" // empty level
		}
	}
	return strings.Join(ls, "/") // a single empty level is the empty topic
}

func (g *topicsGen) filter() string {
	r := g.r
	if r.Intn(60) == 0 {
		return "" // the empty filter (see name)
	}
	if len(g.names) > 0 && r.Intn(4) == 0 {
		// derive from a used name: replace levels by wildcards
		ls := strings.Split(pick(r, g.names), "/")
		for i := range ls {
			if r.Intn(3) == 0 {
				ls[i] = "+"
			}
		}
		if r.Intn(3) == 0 {
			k := r.Intn(len(ls) + 1)
			ls = append(ls[:k:k], "#")
		}
		return strings.Join(ls, "/")
	}
	n := 1 + r.Intn(4)
	ls := make([]string, n)
	for i := range ls {
		switch k := r.Intn(20); {
		case k < 11:
			ls[i] = pick(r, g.lits)
		case k < 16:
			ls[i] = "+"
		case k < 17 && g.allowEmpty:
			ls[i] = ""
		case k < 18 && i > 0 && g.allowDollar:
			ls[i] = "$" + pick(r, g.lits)
		case k < 19:
			ls[i] = pick(r, []string{"+x", "a#", "#", "a+", "+$", "#a"}) // mostly invalid
		default:
			ls[i] = pick(r, g.lits)
		}
	}
	if r.Intn(3) == 0 {
		ls[n-1] = "#"
	}
	return strings.Join(ls, "/") // a single empty level is the empty filter
}

func genTopics(seed int64, n int, tier string, w *bufio.Writer) {
	r := rand.New(rand.NewSource(seed))
	g := &topicsGen{r: r, w: w}
	for done := 0; done < n; {
		g.held, g.names = nil, nil
		g.emit("reset")
		g.allowEmpty = r.Intn(4) == 0
		g.allowDollar = r.Intn(6) == 0
		if r.Intn(2) == 0 {
			g.lits = []string{"a", "b"}
		} else {
			g.lits = []string{"a", "b", "c", "sport", "tennis", "player1", "x1"}[:3+r.Intn(5)]
		}
		if g.allowDollar {
			g.lits = append(g.lits, "$SYS")
		}
		eplen := 10 + r.Intn(120)
		for i := 0; i < eplen && done < n; i++ {
			done++
			switch k := r.Intn(100); {
			case k < 28:
				f, s := g.filter(), 1+r.Intn(6)
				q := r.Intn(3)
				if r.Intn(30) == 0 {
					q = 3 + r.Intn(3)
				}
				g.emit("sub %s %d %d", hexStr(f), q, s)
				g.held = append(g.held, [2]string{f, fmt.Sprint(s)})
			case k < 40:
				if len(g.held) > 0 && r.Intn(5) != 0 {
					i := r.Intn(len(g.held))
					h := g.held[i]
					g.emit("unsub %s %s", hexStr(h[0]), h[1])
					if r.Intn(4) != 0 {
						g.held = append(g.held[:i], g.held[i+1:]...)
					}
				} else {
					g.emit("unsub %s %d", hexStr(g.filter()), 1+r.Intn(6))
				}
			case k < 42:
				if len(g.held) > 0 {
					g.emit("unsuball %s", hexStr(pick(r, g.held)[0]))
				}
			case k < 70:
				nm := g.name()
				g.names = append(g.names, nm)
				g.emit("subs %s %d", hexStr(nm), r.Intn(3))
			case k < 86:
				nm := g.name()
				if len(g.names) > 0 && r.Intn(3) == 0 {
					nm = pick(r, g.names)
				}
				g.names = append(g.names, nm)
				pl := make([]byte, r.Intn(4))
				r.Read(pl)
				if r.Intn(4) == 0 {
					pl = nil
				}
				g.emit("retain %s %d %s", hexStr(nm), r.Intn(3), hexOf(pl))
			default:
				g.emit("retained %s", hexStr(g.filter()))
			}
		}
	}
}

// genTopicsSweep: every filter × every name of up to `depth` levels over the
// alphabet {a, b, "", +, #} / {a, b, ""} — the exhaustive small scope the
// property's quantifier names.
func genTopicsSweep(seed int64, depth int, tier string, w *bufio.Writer) {
	var filters, names []string
	var rec func(pre []string, alpha []string, out *[]string, d int)
	rec = func(pre []string, alpha []string, out *[]string, d int) {
		if len(pre) > 0 {
			s := strings.Join(pre, "/")
			if s != "" {
				*out = append(*out, s)
			}
		}
		if len(pre) == d {
			return
		}
		for _, a := range alpha {
			rec(append(pre[:len(pre):len(pre)], a), alpha, out, d)
		}
	}
	rec(nil, []string{"a", "b", "", "+", "#"}, &filters, depth)
	rec(nil, []string{"a", "b", ""}, &names, depth)
	// the empty topic (no level at all would be the root of the tries): neither a filter nor a name
	filters = append(filters, "")
	names = append(names, "")
	for _, f := range filters {
		fmt.Fprintln(w, "topics reset")
		fmt.Fprintf(w, "topics sub %s 1 1\n", hexStr(f))
		for _, n := range names {
			fmt.Fprintf(w, "topics subs %s 2\n", hexStr(n))
		}
		for _, n := range names {
			fmt.Fprintf(w, "topics retain %s 1 %s\n", hexStr(n), hexStr(n))
		}
		fmt.Fprintf(w, "topics retained %s\n", hexStr(f))
	}
}
