package main

// Connection life-cycle fault sequences on the real broker (C16, C05): a
// subject connection in a given buffer condition ends for a given cause; the
// harness observes the teardown-finished notification, the will (through a
// witness), the liveness of bystanders, Server.Close and the goroutines left.
//
//	life run <cond> <cause> [<order>]
//
// cond   idle      nothing buffered
//        outfull   the subject has stopped reading and a third client floods its subscription: own outgoing
//                  ring full, the THIRD party's processor is parked in it
//        infull    the subject floods a third client that has stopped reading: the subject's processor is parked
//                  in the third party's outgoing ring, the subject's incoming ring is full
//        selffull  the subject has stopped reading and floods its own subscription: its processor is parked in
//                  its OWN outgoing ring, its incoming ring is completely full (the receiver waits because the ring
//                  is full: no socket read is pending, so no read deadline is armed - keep-alive cannot fire
//                  here, finding F8)
//        selfout   the same with just enough packets to fill the outgoing ring: the processor is parked in its OWN
//                  outgoing ring, the incoming ring has room, the receiver is inside a socket read (finding F7:
//                  before b77088f a read error - keep-alive expiry - left this connection standing)
//        cross     subject and third have both stopped reading and flood each other: each processor is parked
//                  in the other's outgoing ring
//        chunked   the subject sends the first 15 000 bytes of a 16 000 byte PUBLISH in 1000-byte writes and then
//                  nothing: the packet is never completed (16 KiB ring: all 15 000 bytes are in the ring, the
//                  processor waits for the rest, the receiver is inside a socket read).  Regression case of
//                  finding F3: before 8f682d1 ReadFrom waited for 8 KiB of free space before every read, the
//                  writes blocked after ~9000 bytes and neither close nor keep-alive was ever noticed.
//                  (Causes that are bytes make no sense here: they would be swallowed as the packet's payload.)
//        chunkwhole the subject sends the whole 16 000 byte PUBLISH (nobody is subscribed) in pieces of varying
//                  sizes; it is processed, the connection is idle afterwards
// cause  disconnect | close | protoerr | oversize | keepalive | srvclose (Server.Close while everybody is connected)
// order  s (default)  the subject ends first; a third party that holds it up is closed afterwards
//        t            the third party is closed (and torn down) first, then the subject ends;
//                     for srvclose: the third party connected before the subject (Server.Close stops it first)
//
// Output: [held-up-by-third] [held-up-by-self] torn=<0|1> will=<0|1|-> witness-alive=<0|1|-> srvclose=<0|1|panic> goroutines-left=<n>
// (torn: the teardown-finished notification of the subject - and of a third party that ended on the way - arrived;
// "-": not observable because Server.Close is stopping the witness too)
// held-up-by-third: the property's exemption (a delivery from the subject is parked in ANOTHER connection's ring).
// held-up-by-self:  NOT an exemption (since b77088f): the subject's teardown did not start although its cause
//                   happened, because its processor is parked behind its own client; the harness then makes the
//                   client go away.  Expected only where the cause cannot be noticed at all (selffull keepalive, F8).

import (
	"bufio"
	"fmt"
	"math/rand"
	"os"
	"runtime"
	"runtime/debug"
	"strings"
	"time"
)

type lifeCore struct{}

func init() {
	cores["life"] = func() core { brokerInit(); return &lifeCore{} }
	gens["life"] = genLife
	gens["life-pairs"] = genLifePairs
	gens["life-srv"] = genLifeSrv
	gens["life-chunked"] = genLifeChunked
}

const (
	lifeWait = 5 * time.Second
	heldWait = 2500 * time.Millisecond
)

func libGoroutines() int {
	buf := make([]byte, 1<<20)
	n := runtime.Stack(buf, true)
	cnt := 0
	for _, g := range strings.Split(string(buf[:n]), "\n\n") {
		if strings.Contains(g, "go-mqtt/service.") {
			cnt++
		}
	}
	return cnt
}

// endConn ends connection c for the given cause.
func endConn(c *rawClient, cause string) {
	// the bytes that end the connection may have to wait behind a full incoming ring: no short deadline
	wr := func(b []byte) {
		go func() {
			c.conn.SetWriteDeadline(time.Now().Add(60 * time.Second))
			c.conn.Write(b)
		}()
	}
	switch cause {
	case "disconnect":
		wr([]byte{0xe0, 0x00})
	case "close":
		c.conn.Close()
	case "halfclose":
		// the peer shuts down its sending direction only and neither reads nor closes: the broker
		// reads end-of-stream on a socket it can still write to (and block on)
		if c.half != nil {
			c.half.shut()
		} else {
			c.conn.Close()
		}
	case "protoerr":
		wr([]byte{0xf0, 0x00}) // reserved packet type 15
	case "oversize":
		wr([]byte{0x30, 0xff, 0xff, 0xff, 0x7f}) // PUBLISH announcing 256 MB: larger than the ring
	case "badfull":
		// an illegal packet (PUBLISH, QoS 1, packet identifier 0) whose length is exactly the ring size:
		// the incoming ring is completely full - the receiver waits for room, not inside a read - when
		// the processor has the whole packet, refuses it and ends the connection itself
		var pkt []byte
		for n := 16384; n > 16000; n-- {
			pkt = wPub{qos: 1, id: 0, topic: []byte("big"), payload: make([]byte, n)}.encode()
			if len(pkt) == 16384 {
				break
			}
		}
		wr(pkt)
	case "keepalive":
		// stay silent: the broker's read deadline (K=1 ⇒ 1.2 s) ends the connection
	}
}

// lifeDump prints the library goroutines to stderr (LIFE_DUMP=1): where a wedged teardown is parked.
func lifeDump() {
	if os.Getenv("LIFE_DUMP") == "" {
		return
	}
	buf := make([]byte, 1<<20)
	n := runtime.Stack(buf, true)
	for _, g := range strings.Split(string(buf[:n]), "\n\n") {
		if strings.Contains(g, "go-mqtt/service.") {
			fmt.Fprintln(os.Stderr, g)
			fmt.Fprintln(os.Stderr)
		}
	}
}

func stoppedWithin(c *rawClient, d time.Duration) bool {
	select {
	case <-c.stopped:
		return true
	case <-time.After(d):
		return false
	}
}

// flood writes n PUBLISH packets of 1000 payload bytes on c (raw writes, long deadline); done is closed at the end.
func flood(c *rawClient, topic string, n int) chan struct{} {
	done := make(chan struct{})
	pl := make([]byte, 1000)
	pkt := wPub{topic: []byte(topic), payload: pl}.encode()
	go func() {
		defer close(done)
		for i := 0; i < n; i++ {
			c.conn.SetWriteDeadline(time.Now().Add(60 * time.Second))
			if _, err := c.conn.Write(pkt); err != nil {
				return
			}
		}
	}()
	return done
}

func subscribeAndWait(c *rawClient, topic string) {
	c.write(wSubscribe(1, [][]byte{[]byte(topic)}, []int{0}))
	c.waitUntil(func() bool { return len(c.items) > 0 }, brokerWait)
	c.take()
}

func lifeRun(cond, cause, order string) string {
	before := libGoroutines()
	svr := newServer(16384)
	b := &brokerCore{clients: map[int]*rawClient{}}
	wit, ok := rawConnect(svr, 1, simpleConnect("witness", 300, nil))
	if !ok {
		return "witness-refused"
	}
	subscribeAndWait(wit, "will/#")
	ka := 300
	if cause == "keepalive" {
		ka = 1
	}
	needThird := cond == "outfull" || cond == "infull" || cond == "cross"
	var subj, third *rawClient
	connectSubj := func() bool {
		halfCloseable = cause == "halfclose"
		defer func() { halfCloseable = false }()
		subj, ok = rawConnect(svr, 2, simpleConnect("subject", ka, &wWill{topic: []byte("will/subject"), payload: []byte("gone")}))
		return ok
	}
	connectThird := func() bool {
		if !needThird {
			return true
		}
		third, ok = rawConnect(svr, 3, simpleConnect("third", 300, nil))
		return ok
	}
	if cause == "srvclose" && order == "t" {
		if !connectThird() || !connectSubj() {
			return "refused"
		}
	} else {
		if !connectSubj() || !connectThird() {
			return "refused"
		}
	}
	res := []string{}
	var floodDone chan struct{}
	switch cond {
	case "idle":
	case "outfull":
		subscribeAndWait(subj, "toS")
		subj.setPaused(true)
		flood(third, "toS", 60)
	case "infull":
		subscribeAndWait(third, "toT")
		third.setPaused(true)
		floodDone = flood(subj, "toT", 80)
	case "selffull":
		subscribeAndWait(subj, "toS")
		subj.setPaused(true)
		floodDone = flood(subj, "toS", 80)
	case "selfout":
		// paused before the SUBSCRIBE: the reader goroutine's pending Read takes the SUBACK and nothing after it
		subj.setPaused(true)
		subscribeAndWait(subj, "toS")
		// 16 packets of 1008 bytes fill the 16 KiB outgoing ring, the echo of the 17th parks the processor
		floodDone = flood(subj, "toS", 16384/1008+1)
	case "cross":
		subscribeAndWait(subj, "toS")
		subscribeAndWait(third, "toT")
		subj.setPaused(true)
		third.setPaused(true)
		floodDone = flood(subj, "toT", 80)
		flood(third, "toS", 80)
	case "chunked", "chunkwhole", "chunknear":
		// a 16 000-byte PUBLISH: it needs the last read block of the 16 KiB incoming ring
		pkt := wPub{topic: []byte("big"), payload: make([]byte, 16000-8)}.encode()
		var pieces []int
		if cond == "chunknear" {
			// a PUBLISH of exactly the ring size of which everything but the last byte arrives: one byte of
			// the incoming ring stays free, the receiver must still be inside a socket read (a receiver that
			// waits for more than one free byte before it reads again is parked here for good)
			pkt = wPub{topic: []byte("big"), payload: make([]byte, 16384)}.encode()
			pkt = wPub{topic: []byte("big"), payload: make([]byte, 16384-(len(pkt)-16384))}.encode()
			for i := 0; i < 16; i++ {
				pieces = append(pieces, 1000)
			}
			pieces = append(pieces, len(pkt)-16000-1)
		} else if cond == "chunked" {
			// the first 15 000 bytes in 1000-byte writes, then nothing: the packet never completes
			for i := 0; i < 15; i++ {
				pieces = append(pieces, 1000)
			}
		} else {
			// the whole packet in pieces of varying sizes (the last piece is whatever is left)
			pieces = []int{1, 7, 100, 1000, 3000, 2, 4000, 1, 900, 3000, 500, 2489, len(pkt)}
		}
		floodDone = make(chan struct{})
		go func() {
			defer close(floodDone)
			off := 0
			for _, n := range pieces {
				end := off + n
				if end > len(pkt) {
					end = len(pkt)
				}
				if off >= end {
					break
				}
				subj.conn.SetWriteDeadline(time.Now().Add(60 * time.Second))
				if _, err := subj.conn.Write(pkt[off:end]); err != nil {
					return
				}
				off = end
			}
		}()
	default:
		return "bad-op"
	}
	// let the rings fill up; also: handleConnection registers a connection with the server only after
	// the CONNACK went out, and a Server.Close that copies the list before that never stops it
	if cond != "idle" {
		time.Sleep(300 * time.Millisecond)
	} else {
		time.Sleep(100 * time.Millisecond)
	}
	if cond == "chunked" || cond == "chunkwhole" || cond == "chunknear" {
		// the pieces have all been taken by the broker (a receiver that stops reading - F3 - leaves the
		// writer blocked: go on after a while, the scenario then shows the wedge)
		select {
		case <-floodDone:
		case <-time.After(2 * time.Second):
		}
	}
	if order == "t" && third != nil && cause != "srvclose" {
		// the third party ends first (abruptly); its own teardown may have to wait for the subject
		third.conn.Close()
		third.dead = true
		if cond == "infull" {
			// nothing holds the third party up here: it goes away completely before the subject ends
			stoppedWithin(third, lifeWait)
		}
	}
	srvClosed := make(chan struct{})
	srvPanic := false
	closeServer := func() {
		go func() {
			defer func() {
				if r := recover(); r != nil {
					fmt.Fprintf(os.Stderr, "harness: Server.Close panicked: %v\n%s\n", r, debug.Stack())
					srvPanic = true
				}
				close(srvClosed)
			}()
			svr.Close()
		}()
	}
	srvCloseStarted := false
	switch cause {
	case "srvclose":
		closeServer()
		srvCloseStarted = true
	case "close", "keepalive", "halfclose":
		endConn(subj, cause)
	default:
		if floodDone != nil {
			// the ending bytes follow the flood on the same stream
			queued := cause
			go func() { <-floodDone; endConn(subj, queued) }()
		} else {
			endConn(subj, cause)
		}
	}
	// a teardown that has not finished after heldWait is taken to be held up (or wedged)
	budget := heldWait
	if cause == "keepalive" {
		budget += 2 * time.Second
	}
	torn := stoppedWithin(subj, budget)
	if !torn && third != nil && !third.dead {
		// the property's exemption: a still-open connection that has stopped reading holds up a
		// delivery from the subject; once that one ends, the subject's teardown has to complete
		res = append(res, "held-up-by-third")
		third.conn.Close()
		third.dead = true
		torn = stoppedWithin(subj, lifeWait)
	}
	if !torn && (cond == "selffull" || cond == "selfout") {
		// the subject holds itself up: its processor is parked in its own outgoing ring, which its own
		// client (still connected, not reading) does not drain.  No exemption: the token fails the oracle
		// unless the cause could not be noticed at all (selffull keepalive: no read pending, F8)
		res = append(res, "held-up-by-self")
		subj.conn.Close()
		torn = stoppedWithin(subj, lifeWait)
	}
	if third != nil && third.dead {
		// a third party that ended on the way has to be torn down as well
		torn = stoppedWithin(third, lifeWait) && torn
	}
	res = append(res, "torn="+b01(torn))
	// the will reaches the witness iff the end was not a DISCONNECT (not observable during Server.Close:
	// the witness is being stopped too)
	if srvCloseStarted {
		res = append(res, "will=-")
	} else {
		will := wit.waitUntil(func() bool {
			for _, it := range wit.items {
				if strings.HasPrefix(it, "PUB ") {
					return true
				}
			}
			return false
		}, 1500*time.Millisecond)
		res = append(res, "will="+b01(will))
	}
	// bystander alive (not asked once the server is being closed)
	if srvCloseStarted {
		res = append(res, "witness-alive=-")
	} else {
		res = append(res, "witness-alive="+b01(b.barrier(wit)))
	}
	// everything ends; Server.Close returns; no library goroutine is left
	if !srvCloseStarted {
		if third != nil && !third.dead {
			third.setPaused(false)
			third.conn.Close()
			stoppedWithin(third, lifeWait)
		}
		wit.conn.Close()
		stoppedWithin(wit, lifeWait)
		closeServer()
	}
	select {
	case <-srvClosed:
		if srvPanic {
			res = append(res, "srvclose=panic")
		} else {
			res = append(res, "srvclose=1")
		}
	case <-time.After(lifeWait):
		res = append(res, "srvclose=0")
		lifeDump()
	}
	// clients go away (no effect on a broker that has torn everything down)
	subj.conn.Close()
	if third != nil {
		third.conn.Close()
	}
	wit.conn.Close()
	left := 0
	for i := 0; i < 40; i++ {
		left = libGoroutines() - before
		if left <= 0 {
			break
		}
		time.Sleep(50 * time.Millisecond)
	}
	if left < 0 {
		left = 0
	}
	res = append(res, fmt.Sprintf("goroutines-left=%d", left))
	return strings.Join(res, " ")
}

func (lifeCore) handle(ws []string) string {
	switch ws[0] {
	case "reset":
		return "reset"
	case "run":
		if len(ws) < 3 {
			return "bad-op"
		}
		order := "s"
		if len(ws) > 3 {
			order = ws[3]
		}
		return lifeRun(ws[1], ws[2], order)
	case "takeover":
		if len(ws) != 2 {
			return "bad-op"
		}
		return lifeTakeover(ws[1])
	}
	return "bad-op"
}

// chunkScns: a packet that needs the last read block of the incoming ring arrives in pieces - never completed
// (chunked; the causes that are bytes make no sense there) or completed and processed (chunkwhole).  Ordinary
// scenarios since 8f682d1 (before: finding F3, the connection wedged).
var chunkScns = []lifeScn{{"chunkwhole", "close", "s"}, {"chunknear", "close", "s"}, {"chunked", "close", "s"}, {"chunkwhole", "disconnect", "s"},
	{"chunknear", "keepalive", "s"},
	{"chunkwhole", "keepalive", "s"}, {"chunked", "keepalive", "s"}, {"chunkwhole", "protoerr", "s"}, {"chunkwhole", "oversize", "s"}}

// genLife: the cause x condition matrix of the property's quantifier (idle, own outgoing ring full, incoming ring
// full behind a third party's full outgoing ring) with the subject ending first; quick = the first n lines
// (keep-alive only on the idle connection), thorough = all 15 and the chunked-packet scenarios, then random picks
// from both.
func genLife(seed int64, n int, tier string, w *bufio.Writer) {
	r := rand.New(rand.NewSource(seed))
	fmt.Fprintln(w, "life reset")
	conds := []string{"idle", "outfull", "infull"}
	causes := []string{"disconnect", "close", "protoerr", "oversize", "keepalive", "halfclose", "badfull"}
	k := 0
	for _, cd := range conds {
		for _, cs := range causes {
			if k >= n {
				return
			}
			if tier != "thorough" && (cs == "keepalive" || cs == "halfclose" || cs == "badfull") && cd != "idle" {
				continue
			}
			if tier != "thorough" && cd == "infull" && cs != "close" && cs != "disconnect" {
				continue
			}
			fmt.Fprintf(w, "life run %s %s\n", cd, cs)
			k++
		}
	}
	if tier == "thorough" {
		for _, cs := range chunkScns {
			if k >= n {
				return
			}
			fmt.Fprintf(w, "life run %s %s %s\n", cs.cond, cs.cause, cs.order)
			k++
		}
	}
	for ; k < n; k++ {
		if r.Intn(5) == 0 {
			cs := pick(r, chunkScns)
			fmt.Fprintf(w, "life run %s %s %s\n", cs.cond, cs.cause, cs.order)
			continue
		}
		fmt.Fprintf(w, "life run %s %s\n", pick(r, conds), pick(r, causes))
	}
}

type lifeScn struct{ cond, cause, order string }

func emitScns(w *bufio.Writer, r *rand.Rand, n int, fixed []lifeScn, pool []lifeScn) {
	fmt.Fprintln(w, "life reset")
	for i := 0; i < n; i++ {
		var s lifeScn
		if i < len(fixed) {
			s = fixed[i]
		} else if len(pool) > 0 {
			s = pick(r, pool)
		} else {
			return
		}
		fmt.Fprintf(w, "life run %s %s %s\n", s.cond, s.cause, s.order)
	}
}

// genLifePairs: cross-blocked publisher/subscriber pairs, a connection whose processor is parked in its own
// outgoing ring (receiver inside a read: selfout; receiver waiting for ring space: selffull), and both orders
// in which the two involved connections end.
func genLifePairs(seed int64, n int, tier string, w *bufio.Writer) {
	all := []lifeScn{
		{"selfout", "keepalive", "s"}, {"selfout", "halfclose", "s"}, {"cross", "close", "s"}, {"cross", "close", "t"}, {"selffull", "close", "s"}, {"selfout", "close", "s"},
		{"infull", "close", "t"}, {"outfull", "halfclose", "s"},
		{"selffull", "keepalive", "s"}, {"outfull", "close", "t"}, {"infull", "disconnect", "t"}, {"cross", "keepalive", "s"},
		{"cross", "keepalive", "t"}, {"outfull", "disconnect", "t"}, {"outfull", "keepalive", "t"}, {"infull", "protoerr", "t"},
		{"infull", "oversize", "t"}, {"infull", "keepalive", "t"}, {"outfull", "protoerr", "t"}, {"outfull", "oversize", "t"},
		{"selffull", "halfclose", "s"}, {"cross", "halfclose", "s"}, {"infull", "halfclose", "t"}, {"outfull", "badfull", "s"},
	}
	emitScns(w, rand.New(rand.NewSource(seed)), n, all, all)
}

// genLifeSrv: Server.Close with the connections in each condition, the subject registered before / after the
// third party (Close stops the connections in registration order).
func genLifeSrv(seed int64, n int, tier string, w *bufio.Writer) {
	all := []lifeScn{
		{"infull", "srvclose", "s"}, {"cross", "srvclose", "s"}, {"idle", "srvclose", "s"}, {"outfull", "srvclose", "s"},
		{"infull", "srvclose", "t"}, {"selffull", "srvclose", "s"}, {"chunked", "srvclose", "s"}, {"cross", "srvclose", "t"},
		{"outfull", "srvclose", "t"}, {"selfout", "srvclose", "s"}, {"chunkwhole", "srvclose", "s"},
	}
	emitScns(w, rand.New(rand.NewSource(seed)), n, all, all)
}

// genLifeChunked: the chunked-packet scenarios on their own (quick: the completed packet; the never-completed one
// with close / keep-alive is the regression witness of F3 and runs on every check anyway).
func genLifeChunked(seed int64, n int, tier string, w *bufio.Writer) {
	all := append([]lifeScn{}, chunkScns...)
	all = append(all, lifeScn{"chunked", "srvclose", "s"}, lifeScn{"chunkwhole", "srvclose", "s"})
	emitScns(w, rand.New(rand.NewSource(seed)), n, all, all)
}
