package main

// Connection life-cycle fault sequences on the real broker (C16, C05): a
// subject connection in a given buffer condition ends for a given cause; the
// harness observes the teardown-finished notification, the will (through a
// witness), the liveness of bystanders, Server.Close and the goroutines left.

import (
	"bufio"
	"fmt"
	"math/rand"
	"runtime"
	"strings"
	"time"
)

type lifeCore struct{}

func init() {
	cores["life"] = func() core { brokerInit(); return &lifeCore{} }
	gens["life"] = genLife
}

const lifeWait = 6 * time.Second

func libGoroutines() int {
	buf := make([]byte, 1<<20)
	n := runtime.Stack(buf, true)
	cnt := 0
	for _, g := range strings.Split(string(buf[:n]), "\n\n") {
		if strings.Contains(g, "go-mqtt/service.") {
			cnt++
		}
	}
	return cnt
}

// endConn ends connection c for the given cause; returns false if the cause could not be applied.
func endConn(c *rawClient, cause string) {
	// the bytes that end the connection may have to wait behind a full incoming ring: no short deadline
	wr := func(b []byte) {
		go func() {
			c.conn.SetWriteDeadline(time.Now().Add(60 * time.Second))
			c.conn.Write(b)
		}()
	}
	switch cause {
	case "disconnect":
		wr([]byte{0xe0, 0x00})
	case "close":
		c.conn.Close()
	case "protoerr":
		wr([]byte{0xf0, 0x00}) // reserved packet type 15
	case "oversize":
		wr([]byte{0x30, 0xff, 0xff, 0xff, 0x7f}) // PUBLISH announcing 256 MB: larger than the ring
	case "keepalive":
		// stay silent: the broker's read deadline (K=1 ⇒ 1.2 s) ends the connection
	}
}

func stoppedWithin(c *rawClient, d time.Duration) bool {
	select {
	case <-c.stopped:
		return true
	case <-time.After(d):
		return false
	}
}

func (lifeCore) handle(ws []string) string {
	switch ws[0] {
	case "reset":
		return "reset"
	case "run":
		cond, cause := ws[1], ws[2]
		before := libGoroutines()
		svr := newServer(16384)
		b := &brokerCore{clients: map[int]*rawClient{}}
		wit, ok := rawConnect(svr, 1, simpleConnect("witness", 300, nil))
		if !ok {
			return "witness-refused"
		}
		wit.write(wSubscribe(1, [][]byte{[]byte("will/#")}, []int{0}))
		wit.waitUntil(func() bool { return len(wit.items) > 0 }, brokerWait)
		wit.take()
		ka := 300
		if cause == "keepalive" {
			ka = 1
		}
		subj, ok := rawConnect(svr, 2, simpleConnect("subject", ka, &wWill{topic: []byte("will/subject"), payload: []byte("gone")}))
		if !ok {
			return "subject-refused"
		}
		var third *rawClient
		res := []string{}
		switch cond {
		case "idle":
		case "outfull":
			// the subject subscribes, stops reading, and a third client floods it until its outgoing ring is full
			subj.write(wSubscribe(1, [][]byte{[]byte("flood")}, []int{0}))
			subj.waitUntil(func() bool { return len(subj.items) > 0 }, brokerWait)
			subj.take()
			subj.setPaused(true)
			third, _ = rawConnect(svr, 3, simpleConnect("third", 300, nil))
			pl := make([]byte, 1000)
			go func() {
				for i := 0; i < 60; i++ {
					if third.write(wPub{topic: []byte("flood"), payload: pl}.encode()) != nil {
						return
					}
				}
			}()
			time.Sleep(300 * time.Millisecond)
		case "infull":
			// the subject publishes to a third client that has stopped reading: the subject's processor
			// blocks on the third party's full outgoing ring and the subject's incoming ring fills up
			third, _ = rawConnect(svr, 3, simpleConnect("third", 300, nil))
			third.write(wSubscribe(1, [][]byte{[]byte("flood")}, []int{0}))
			third.waitUntil(func() bool { return len(third.items) > 0 }, brokerWait)
			third.take()
			third.setPaused(true)
			pl := make([]byte, 1000)
			floodDone := make(chan struct{})
			go func() {
				defer close(floodDone)
				for i := 0; i < 80; i++ {
					subj.conn.SetWriteDeadline(time.Now().Add(60 * time.Second))
					if _, err := subj.conn.Write(wPub{topic: []byte("flood"), payload: pl}.encode()); err != nil {
						return
					}
				}
			}()
			time.Sleep(300 * time.Millisecond)
			if cause != "close" && cause != "keepalive" {
				// the ending bytes follow the flood on the same stream
				queued := cause
				go func() { <-floodDone; endConn(subj, queued) }()
				cause = "(queued)"
			}
		}
		endConn(subj, cause)
		budget := lifeWait
		if cause == "keepalive" {
			budget += 2 * time.Second
		}
		torn := stoppedWithin(subj, budget)
		if !torn && cond == "infull" {
			// the property's exemption: a still-open connection that has stopped reading holds up a
			// delivery from the subject; once that one ends, the subject's teardown has to complete
			res = append(res, "held-up-by-third")
			third.conn.Close()
			torn = stoppedWithin(subj, lifeWait) && stoppedWithin(third, lifeWait)
		}
		res = append(res, "torn="+b01(torn))
		// the will reaches the witness iff the end was not a DISCONNECT
		will := wit.waitUntil(func() bool {
			for _, it := range wit.items {
				if strings.HasPrefix(it, "PUB ") {
					return true
				}
			}
			return false
		}, 1500*time.Millisecond)
		res = append(res, "will="+b01(will))
		// bystander alive
		res = append(res, "witness-alive="+b01(b.barrier(wit)))
		// everything ends; Server.Close returns; no library goroutine is left
		if third != nil && !third.dead {
			third.setPaused(false)
			third.conn.Close()
			stoppedWithin(third, lifeWait)
		}
		wit.conn.Close()
		stoppedWithin(wit, lifeWait)
		closed := make(chan struct{})
		go func() { defer func() { recover(); close(closed) }(); svr.Close() }()
		select {
		case <-closed:
			res = append(res, "srvclose=1")
		case <-time.After(lifeWait):
			res = append(res, "srvclose=0")
		}
		left := 0
		for i := 0; i < 40; i++ {
			left = libGoroutines() - before
			if left <= 0 {
				break
			}
			time.Sleep(50 * time.Millisecond)
		}
		if left < 0 {
			left = 0
		}
		res = append(res, fmt.Sprintf("goroutines-left=%d", left))
		return strings.Join(res, " ")
	}
	return "bad-op"
}

func genLife(seed int64, n int, tier string, w *bufio.Writer) {
	r := rand.New(rand.NewSource(seed))
	fmt.Fprintln(w, "life reset")
	conds := []string{"idle", "outfull", "infull"}
	causes := []string{"disconnect", "close", "protoerr", "oversize", "keepalive"}
	k := 0
	for _, cd := range conds {
		for _, cs := range causes {
			if k >= n {
				return
			}
			if tier != "thorough" && cs == "keepalive" && cd != "idle" {
				continue
			}
			fmt.Fprintf(w, "life run %s %s\n", cd, cs)
			k++
		}
	}
	for ; k < n; k++ {
		fmt.Fprintf(w, "life run %s %s\n", pick(r, conds), pick(r, causes))
	}
}
