package main

import (
	"bufio"
	"fmt"
	"math/rand"
	"strings"
)

// Seeded generator of broker histories.  Profiles shift the event mix towards
// the behaviour one property is about; all profiles produce all event kinds.

type brokerProfile struct {
	name                                                        string
	wConnect, wSub, wUnsub, wPub, wRel, wAck, wPing, wDisc      int
	wClose, wSrvPub, wSrvSub, wSrvUnsub, wBadFirst, wBadConnect int
	retainPct, willPct, cleanPct                                int
	// overlap scenarios (third round of seeded changes): one episode in unsubRacePer / hsRacePer has an
	// `unsubrace` / `hsrace` sequence (0: never); repubPct percent of the episodes have republishing
	// in-process callbacks (`srvsubrepub`)
	unsubRacePer, hsRacePer, repubPct int
}

var brokerProfiles = map[string]brokerProfile{
	"broker":       {"broker", 10, 14, 6, 34, 8, 5, 2, 4, 5, 4, 3, 1, 2, 2, 25, 40, 60, 40, 0, 30},
	"broker-sub":   {"broker-sub", 8, 30, 14, 26, 4, 3, 1, 3, 3, 3, 3, 2, 0, 0, 20, 20, 70, 30, 0, 0},
	"broker-ret":   {"broker-ret", 8, 22, 4, 36, 6, 3, 1, 3, 3, 6, 6, 1, 0, 1, 65, 30, 70, 0, 0, 0},
	"broker-will":  {"broker-will", 18, 12, 3, 16, 3, 2, 1, 14, 18, 2, 2, 1, 2, 4, 25, 85, 45, 0, 0, 0},
	"broker-sess":  {"broker-sess", 20, 18, 8, 18, 3, 2, 1, 12, 12, 2, 1, 1, 1, 1, 15, 25, 35, 0, 12, 0},
	"broker-first": {"broker-first", 22, 6, 2, 10, 2, 1, 1, 4, 4, 1, 1, 0, 22, 24, 20, 40, 50, 0, 8, 0},
	"broker-qos":   {"broker-qos", 8, 12, 3, 40, 18, 8, 2, 2, 3, 3, 1, 0, 0, 1, 15, 20, 70, 0, 0, 0},
}

func init() {
	for name := range brokerProfiles {
		n := name
		gens[n] = func(seed int64, cnt int, tier string, w *bufio.Writer) {
			genBroker(brokerProfiles[n], seed, cnt, tier, w)
		}
	}
}

type bConn struct {
	id    int
	cid   string
	subs  []string
	open2 []int // inbound QoS 2 ids not yet released
}

type brokerGen struct {
	r      *rand.Rand
	w      *bufio.Writer
	p      brokerProfile
	next   int
	live   []*bConn
	names  []string
	filts  []string
	cbsubs [][2]string
	pid    int
	// known-finding classes confined to dedicated episodes (allowDollar: no finding any more since
	// B4 was repaired; '$' levels and '$' topics stay in episodes of their own)
	allowEmpty, allowDollar, allowBadFilter bool
	thorough                                              bool
	lastConnect                                           map[string]string
	out2                                                  map[int][]int // subscriber conn -> QoS 2 ids the broker sent it (for PUBREC/PUBCOMP answers)
	// republishing callbacks of the episode: the topics they republish to, the filters they may
	// subscribe (none of which matches a target: no cycles), and the next callback identity
	repubTargets, repubFilters []string
	repubNext                  int
}

func (g *brokerGen) emit(format string, a ...interface{}) {
	fmt.Fprintf(g.w, "broker "+format+"\n", a...)
}

func (g *brokerGen) name() string {
	n := pick(g.r, g.names)
	if g.allowEmpty && g.r.Intn(5) == 0 {
		// empty-level inputs use a level "q" of their own: their code-level normal forms (leading
		// empty level -> "+", trailing one dropped) then never coincide with another filter of the
		// vocabulary, which would make the outcome depend on Go map order after a session resume
		n = pick(g.r, []string{"/q", "q/", "q//r", "x/q", "q"})
	}
	if g.allowDollar && g.r.Intn(5) == 0 {
		// "a/$b" is an ordinary name (B4, repaired); names beginning with '$' are outside the
		// properties' quantifier: the oracle leaves those events open, the tie still holds
		n = pick(g.r, []string{"a/$b", "a/$b", "a/$b", "$SYS/x"})
	}
	return n
}

func (g *brokerGen) filter() string {
	f := pick(g.r, g.filts)
	if g.allowEmpty && g.r.Intn(5) == 0 {
		f = pick(g.r, []string{"/q", "q/", "q//r", "//q", "q/+/"})
	}
	if g.allowDollar && g.r.Intn(5) == 0 {
		f = pick(g.r, []string{"a/$b", "+/$b", "a/$b", "+/$b", "$SYS/#", "$SYS/x"})
	}
	if g.allowBadFilter && g.r.Intn(4) == 0 {
		f = pick(g.r, []string{"a/#/b", "a+", "#/a", "a/b#"})
	}
	return f
}

func (g *brokerGen) payload() string {
	r := g.r
	switch k := r.Intn(20); {
	case k == 0:
		return "-"
	case k < 18:
		b := make([]byte, 1+r.Intn(5))
		r.Read(b)
		return hexOf(b)
	case k == 18 && r.Intn(6) == 0:
		// large payloads: several read blocks, wrapping both rings; now and then (thorough: often) a
		// packet that needs the last read block of the ring (ring size - 8 KiB < length <= ring size; it
		// reaches the broker in reads of at most 8 KiB - before repository commit 8f682d1 that wedged the
		// connection, finding F3)
		n := 9000 + r.Intn(60000)
		if g.thorough && r.Intn(4) == 0 {
			n = 200000 + r.Intn(40000)
		}
		if r.Intn(8) == 0 || (g.thorough && r.Intn(3) == 0) {
			n = isoRing - 8192 + r.Intn(8100)
		}
		b := make([]byte, n)
		r.Read(b)
		return hexOf(b)
	default:
		b := make([]byte, 100+r.Intn(3000))
		r.Read(b)
		return hexOf(b)
	}
}

func (g *brokerGen) connect() {
	r := g.r
	g.next++
	id := g.next
	cid := fmt.Sprintf("c%d", 1+r.Intn(4))
	// three CONNECTs in four look for an identifier no live connection uses; the fourth takes what
	// it drew: if a live connection has it, the broker must disconnect that one (MQTT-3.1.4-2)
	if r.Intn(4) != 0 {
		for k := 0; k < 8; k++ {
			clash := false
			for _, c := range g.live {
				if c.cid == cid {
					clash = true
				}
			}
			if !clash {
				break
			}
			cid = fmt.Sprintf("c%d", 1+r.Intn(6))
		}
		for _, c := range g.live {
			if c.cid == cid {
				cid = fmt.Sprintf("u%d", id)
			}
		}
	}
	clean := r.Intn(100) < g.p.cleanPct
	if r.Intn(15) == 0 {
		cid = ""
		clean = true
	}
	will := "~"
	if r.Intn(100) < g.p.willPct {
		wp := g.payload()
		if len(wp) > 2*60000 { // a will message is a length-prefixed field: at most 65535 bytes
			wp = wp[:2*60000]
		}
		will = fmt.Sprintf("%s:%s:%d:%d", hexStr(g.name()), wp, r.Intn(3), r.Intn(2))
	}
	rest := fmt.Sprintf("connect %s 4 0 %d %s 0 0 %s ~ ~ %d 1", hexStr("MQTT"), b2i(clean), will, hexStr(cid), 30)
	// reconnects often repeat the previous CONNECT of that client byte for byte
	if prev, ok := g.lastConnect[cid]; ok && cid != "" && r.Intn(5) < 2 {
		rest = prev
	}
	g.lastConnect[cid] = rest
	g.takenOver(cid)
	if r.Intn(9) == 0 {
		// the peer has gone when the broker wants to answer: the CONNACK cannot be written.  The
		// take-over has happened and the session was looked up (or created); there is no connection
		g.emit("failfirst %d %s", id, rest)
		return
	}
	if r.Intn(12) == 0 {
		// a packet pipelined behind the CONNECT, before the CONNACK has been read
		switch r.Intn(3) {
		case 0:
			g.emit("firstp %d %s ; disconnect", id, rest)
			return
		case 1:
			g.emit("firstp %d %s ; pingreq", id, rest)
		default:
			g.pid++
			f := g.filter()
			g.emit("firstp %d %s ; subscribe %d %s:%d", id, rest, 1+g.pid%65535, hexStr(f), r.Intn(3))
		}
	} else {
		g.emit("first %d %s", id, rest)
	}
	g.live = append(g.live, &bConn{id: id, cid: cid})
}

func b2i(b bool) int {
	if b {
		return 1
	}
	return 0
}

func (g *brokerGen) badConnect() {
	r := g.r
	g.next++
	id := g.next
	pn, ver, rsv, clean, will, wq, wr, cid, auth := "MQTT", 4, 0, 1, "~", 0, 0, fmt.Sprintf("x%d", id), 1
	if r.Intn(2) == 0 {
		// a refused CONNECT that presents the client identifier of somebody else's session (stored or
		// live), with either CleanSession value and possibly a will of its own: it must leave that
		// session, its subscriptions and its will alone
		cid = fmt.Sprintf("c%d", 1+r.Intn(4))
		clean = r.Intn(2)
		if r.Intn(2) == 0 {
			will = fmt.Sprintf("%s:%s:%d:0", hexStr(g.name()), hexStr("forged"), r.Intn(3))
		}
	}
	ndefects := 1
	if r.Intn(4) == 0 {
		ndefects = 2
	}
	for k := 0; k < ndefects; k++ {
		switch r.Intn(9) {
		case 0:
			pn = pick(r, []string{"MQTX", "MQIsdp", "", "mqtt"})
		case 1:
			ver = pick(r, []int{0, 2, 5, 3, 255})
		case 2:
			rsv = 1
		case 3:
			will = fmt.Sprintf("%s:%s:3:0", hexStr("w"), hexStr("p"))
		case 4:
			wq = 1 + r.Intn(2)
		case 5:
			wr = 1
		case 6:
			cid, clean = "", 0
		case 7:
			// the edges of "printable": 0x1f and 0x7f are control characters, 0x20 and 0x7e are not;
			// 32 bytes are the longest identifier a broker must accept
			cid = pick(r, []string{"id\x01x", strings.Repeat("a", 33), "caf\xc3\xa9", "id\x7fx", "\x7f", "id\x1fx", "i~ d", strings.Repeat("b", 32)})
		case 8:
			auth = 0
		}
	}
	if pn == "MQIsdp" && ver == 3 {
		// that is the valid 3.1 pair: accepted
		if rsv == 0 && will == "~" && wq == 0 && wr == 0 && auth == 1 && cid != "" && len(cid) < 33 && !strings.ContainsAny(cid, "\x01\xc3\x7f\x1f") {
			g.takenOver(cid)
		}
		g.live = append(g.live, &bConn{id: id, cid: cid})
	}
	verb := "first"
	if !(pn == "MQIsdp" && ver == 3) && r.Intn(8) == 0 {
		verb = "failfirst" // the refusal cannot be written either
	}
	g.emit("%s %d connect %s %d %d %d %s %d %d %s ~ ~ 30 %d", verb, id, hexStr(pn), ver, rsv, clean, will, wq, wr, hexStr(cid), auth)
	// whether it was accepted is not tracked precisely: only the valid 3.1 pair is
	if !(pn == "MQIsdp" && ver == 3 && rsv == 0 && will == "~" && wq == 0 && wr == 0 && auth == 1 && cid != "" && len(cid) < 33 && !strings.ContainsAny(cid, "\x01\xc3\x7f\x1f")) {
		if n := len(g.live); n > 0 && g.live[n-1].id == id {
			g.live = g.live[:n-1]
		}
	}
}

// takenOver: an accepted CONNECT under cid ends the live connections of that client
func (g *brokerGen) takenOver(cid string) {
	if cid == "" {
		return
	}
	var live []*bConn
	for _, c := range g.live {
		if c.cid != cid {
			live = append(live, c)
		}
	}
	g.live = live
}

func (g *brokerGen) remove(c *bConn) {
	for i, x := range g.live {
		if x == c {
			g.live = append(g.live[:i], g.live[i+1:]...)
			return
		}
	}
}

// filterMatches: the MQTT 3.1.1 matching rule on plain vocabulary entries (no '$' topics, no empty levels)
func filterMatches(filter, topic string) bool {
	fl, tl := strings.Split(filter, "/"), strings.Split(topic, "/")
	for i, f := range fl {
		if f == "#" {
			return true
		}
		if i >= len(tl) {
			return false
		}
		if f != "+" && f != tl[i] {
			return false
		}
	}
	return len(fl) == len(tl)
}

// unsubRaceSeq: connection a subscribes a long list of deep filters (600-1000 filters of 70-100
// levels, all below a first level "u" that nothing else in the vocabulary uses), then sends ONE
// UNSUBSCRIBE for all of them, and connection p publishes on the topic of the LAST filter the
// moment a has the UNSUBACK in hand (`unsubrace`).  Removing such a list takes the broker 5-10 ms
// (the cost is per level; what the Lean streams pay grows with the square of the NUMBER of filters
// only), which is what a broker that acknowledges first would leave as a window - wide against the
// harness's reaction time of 0.1-0.5 ms, also on a loaded machine.  The packets stay below 200 KB:
// well inside the 256 KiB ring and out of the range of finding F3.  Returns the number of op lines.
func (g *brokerGen) unsubRaceSeq(a, p *bConn) int {
	r := g.r
	n := 600 + r.Intn(400)
	depth := 70 + r.Intn(31)
	for n*(12+2*depth) > 200000 {
		n -= 50
	}
	var tails []string
	for k := 0; k < 3; k++ {
		var sb strings.Builder
		for d := 0; d < depth; d++ {
			sb.WriteString("/" + pick(r, []string{"a", "b", "c", "l", "x"}))
		}
		tails = append(tails, sb.String())
	}
	var subs, fs []string
	var names []string
	for i := 0; i < n; i++ {
		tail := tails[i%3]
		nm := fmt.Sprintf("u/k%04d%s", i, tail)
		f := nm
		if r.Intn(50) == 0 {
			f = fmt.Sprintf("u/k%04d/+%s", i, tail[2:]) // the first level of the tail as a wildcard
		}
		names = append(names, nm)
		fs = append(fs, hexStr(f))
		subs = append(subs, fmt.Sprintf("%s:%d", hexStr(f), r.Intn(3)))
	}
	lines := 2
	g.pid++
	g.emit("pkt %d subscribe %d %s", a.id, 1+g.pid%65535, strings.Join(subs, ","))
	if r.Intn(2) == 0 {
		// the subscriptions are there: a gets this one
		g.emit("pkt %d publish 0 0 0 %s 0 %s", p.id, hexStr(names[r.Intn(n)]), g.smallPayload())
		lines++
	}
	g.pid++
	g.emit("unsubrace %d %d %d %s %s %s", a.id, p.id, 1+g.pid%65535, strings.Join(fs, ","), hexStr(names[n-1]), g.smallPayload())
	if r.Intn(2) == 0 {
		g.emit("pkt %d publish 0 0 0 %s 0 %s", p.id, hexStr(names[r.Intn(n)]), g.smallPayload())
		lines++
	}
	return lines
}

// freeCid: a client identifier "c<k>" (two characters, like every identifier of the vocabulary)
// that no live connection uses and that is not in `not`
func (g *brokerGen) freeCid(not ...string) string {
	for {
		cid := fmt.Sprintf("c%d", 1+g.r.Intn(9))
		ok := true
		for _, c := range g.live {
			if c.cid == cid {
				ok = false
			}
		}
		for _, x := range not {
			if x == cid {
				ok = false
			}
		}
		if ok {
			return cid
		}
	}
}

// hsRaceSeq: two overlapping handshakes (`hsrace`) and what makes a mix-up between them visible.
// A persistent session is stored under identifier cV (CleanSession 0, one subscription), its
// connection ends.  Connection a (identifier cA, clean, user name "slow": held inside Authenticate)
// and connection b overlap; b's first packet is mostly a CONNECT that presents cV and is refused
// (user name "deny": CONNACK 4), sometimes a malformed one, sometimes an acceptable one under an
// identifier of its own.  Then a subscribes, publishes, disconnects, and the client of cV comes
// back with CleanSession 0: it must find its session (SessionPresent 1) and its subscription must
// still deliver - whatever b sent had no effect on what a was connected as.  All identifiers have
// the same length, so the CONNECT packets have the same layout.  Returns the number of op lines.
func (g *brokerGen) hsRaceSeq() int {
	r := g.r
	cV := g.freeCid()
	cA := g.freeCid(cV)
	f := pick(r, g.filts)
	var topic string
	for _, nm := range g.names {
		if filterMatches(f, nm) {
			topic = nm
		}
	}
	lines := 0
	connect := func(id int, clean int, cid string) {
		g.emit("first %d connect %s 4 0 %d ~ 0 0 %s ~ ~ 30 1", id, hexStr("MQTT"), clean, hexStr(cid))
		lines++
	}
	g.next++
	v := g.next
	connect(v, 0, cV)
	g.pid++
	g.emit("pkt %d subscribe %d %s:%d", v, 1+g.pid%65535, hexStr(f), 1+r.Intn(2))
	g.emit("pkt %d %s", v, pick(r, []string{"disconnect", "disconnect", "pingreq"}))
	g.emit("close %d", v)
	lines += 3
	g.next += 2
	a, b := g.next-1, g.next
	var first []byte
	bLive := ""
	deny, slow := []byte("deny"), hexStr("slow")
	if r.Intn(4) == 0 {
		slow = hexStr(fmt.Sprintf("slow%d", r.Intn(10)))
	}
	cb := wConnect{protoName: []byte("MQTT"), version: 4, clean: r.Intn(2) == 0, clientID: []byte(cV), user: &deny, keepAlive: 30}
	switch k := r.Intn(10); {
	case k < 6: // refused: bad user name
		if r.Intn(3) == 0 {
			cb.will = &wWill{topic: []byte(pick(r, g.names)), payload: []byte("forged"), qos: r.Intn(3)}
		}
	case k < 8: // refused or dropped by the decoder
		cb.user = nil
		switch r.Intn(3) {
		case 0:
			cb.version = 5
		case 1:
			cb.reserved = true
		default:
			cb.protoName = []byte("MQTX")
		}
	default: // accepted, under an identifier of its own
		bLive = g.freeCid(cV, cA)
		cb.user, cb.clientID, cb.clean = nil, []byte(bLive), true
	}
	first = cb.encode()
	g.emit("hsrace %d connect %s 4 0 1 ~ 0 0 %s %s ~ 30 1 ; %d %s", a, hexStr("MQTT"), hexStr(cA), slow, b, hexOf(first))
	lines++
	ca := &bConn{id: a, cid: cA}
	g.live = append(g.live, ca)
	if bLive != "" {
		g.live = append(g.live, &bConn{id: b, cid: bLive})
	}
	g.pid++
	g.emit("pkt %d subscribe %d %s:%d", a, 1+g.pid%65535, hexStr(pick(r, g.filts)), r.Intn(3))
	g.emit("pkt %d publish 0 0 0 %s 0 %s", a, hexStr(pick(r, g.names)), g.smallPayload())
	g.emit("pkt %d disconnect", a)
	g.remove(ca)
	lines += 3
	g.next++
	v2 := g.next
	connect(v2, 0, cV)
	cv := &bConn{id: v2, cid: cV, subs: []string{f}}
	g.live = append(g.live, cv)
	if topic != "" {
		g.emit("pkt %d publish 0 %d 0 %s %d %s", pick(r, g.live).id, 1, hexStr(topic), 1+r.Intn(12), g.smallPayload())
		lines++
	}
	return lines
}

func (g *brokerGen) smallPayload() string {
	b := make([]byte, 1+g.r.Intn(5))
	g.r.Read(b)
	return hexOf(b)
}

// repubSetup chooses the episode's republishing targets (ordinary topic names, so that the
// ordinary subscribers get the republished messages) and the filters a republishing callback may
// subscribe: those of the vocabulary that match none of the targets.
func (g *brokerGen) repubSetup() {
	g.repubTargets, g.repubFilters, g.repubNext = nil, nil, 1101
	for k := 1 + g.r.Intn(2); k > 0; k-- {
		g.repubTargets = append(g.repubTargets, pick(g.r, g.names))
	}
	for _, f := range g.filts {
		ok := true
		for _, t := range g.repubTargets {
			if filterMatches(f, t) {
				ok = false
			}
		}
		if ok {
			g.repubFilters = append(g.repubFilters, f)
		}
	}
}

// repubSub: a new republishing callback (each holds ONE filter: how often a callback with
// several matching subscriptions is called is not fixed by the properties)
func (g *brokerGen) repubSub() {
	cb := g.repubNext
	g.repubNext++
	f := pick(g.r, g.repubFilters)
	g.emit("srvsubrepub %d %s %d %s", cb, hexStr(f), g.r.Intn(3), hexStr(pick(g.r, g.repubTargets)))
	g.cbsubs = append(g.cbsubs, [2]string{fmt.Sprint(cb), f})
}

func genBroker(p brokerProfile, seed int64, n int, tier string, w *bufio.Writer) {
	r := rand.New(rand.NewSource(seed))
	g := &brokerGen{r: r, w: w, p: p, thorough: tier == "thorough"}
	total := p.wConnect + p.wSub + p.wUnsub + p.wPub + p.wRel + p.wAck + p.wPing + p.wDisc + p.wClose + p.wSrvPub + p.wSrvSub + p.wSrvUnsub + p.wBadFirst + p.wBadConnect
	for done := 0; done < n; {
		if done > 0 && r.Intn(3) == 0 {
			// the episode ends with Server.Close: every live connection ends without DISCONNECT (wills go
			// to the in-process subscribers), Close returns, every client sees its connection closed
			g.emit("srvclose")
			done++
		}
		g.emit("reset")
		g.live, g.cbsubs, g.next, g.pid = nil, nil, 0, 0
		g.out2 = map[int][]int{}
		g.lastConnect = map[string]string{}
		g.allowEmpty = r.Intn(8) == 0
		g.allowDollar = r.Intn(10) == 0
		g.allowBadFilter = r.Intn(6) == 0
		if r.Intn(2) == 0 {
			g.names = []string{"a", "a/b", "a/c", "b"}
			g.filts = []string{"a", "a/b", "a/+", "a/#", "#", "+", "b", "+/b"}
		} else {
			g.names = []string{"a", "a/b", "a/b/c", "b/c", "sport/tennis/player1", "sport", "x"}
			g.filts = []string{"a/b", "a/+", "a/#", "#", "+/+", "a/+/c", "sport/#", "sport/tennis/+", "b/c", "+/b/#", "x", "sport"}
		}
		eplen := 15 + r.Intn(60)
		g.repubTargets, g.repubFilters = nil, nil
		if p.repubPct > 0 && r.Intn(100) < p.repubPct {
			g.repubSetup()
		}
		unsubRaceAt := -1
		if p.unsubRacePer > 0 && r.Intn(p.unsubRacePer) == 0 {
			unsubRaceAt = r.Intn(eplen)
		}
		hsRaceAt := -1
		if p.hsRacePer > 0 && r.Intn(p.hsRacePer) == 0 {
			hsRaceAt = r.Intn(eplen)
		}
		g.connect()
		done++
		for i := 0; i < eplen && done < n; i++ {
			done++
			if hsRaceAt >= 0 && i >= hsRaceAt && len(g.live) <= 4 {
				hsRaceAt = -1
				done += g.hsRaceSeq() - 1
				continue
			}
			if unsubRaceAt >= 0 && i >= unsubRaceAt && len(g.live) >= 2 {
				unsubRaceAt = -1
				a := pick(r, g.live)
				pb := pick(r, g.live)
				for pb == a {
					pb = pick(r, g.live)
				}
				done += g.unsubRaceSeq(a, pb) - 1
				continue
			}
			if len(g.repubFilters) > 0 && r.Intn(16) == 0 {
				g.repubSub()
				continue
			}
			k := r.Intn(total)
			var c *bConn
			if len(g.live) > 0 {
				c = pick(r, g.live)
			}
			pickW := func(w int) bool {
				if k < w {
					k = 1 << 30
					return true
				}
				k -= w
				return false
			}
			switch {
			case pickW(p.wConnect) || c == nil:
				if len(g.live) < 5 {
					g.connect()
				} else {
					g.emit("pkt %d pingreq", c.id)
				}
			case pickW(p.wSub):
				cnt := 1
				if r.Intn(3) == 0 {
					cnt = 2 + r.Intn(5)
				}
				var parts []string
				for j := 0; j < cnt; j++ {
					f := g.filter()
					q := r.Intn(3)
					if g.allowBadFilter && r.Intn(12) == 0 {
						q = 3 + r.Intn(200)
					}
					parts = append(parts, fmt.Sprintf("%s:%d", hexStr(f), q))
					c.subs = append(c.subs, f)
				}
				g.pid++
				g.emit("pkt %d subscribe %d %s", c.id, 1+g.pid%65535, strings.Join(parts, ","))
			case pickW(p.wUnsub):
				cnt := 1 + r.Intn(2)
				if r.Intn(5) == 0 {
					cnt = 4 + r.Intn(3)
				}
				var parts []string
				for j := 0; j < cnt; j++ {
					f := g.filter()
					if len(c.subs) > 0 && r.Intn(4) != 0 {
						f = pick(r, c.subs)
					}
					parts = append(parts, hexStr(f))
				}
				g.pid++
				g.emit("pkt %d unsubscribe %d %s", c.id, 1+g.pid%65535, strings.Join(parts, ","))
			case pickW(p.wPub):
				q := r.Intn(3)
				id := 0
				if q > 0 {
					id = 1 + r.Intn(12)
					if r.Intn(3) == 0 {
						id = 1 + r.Intn(65535)
					}
				}
				dup := 0
				if q == 2 && len(c.open2) > 0 && r.Intn(4) == 0 { // duplicate of an open exchange
					id, dup = pick(r, c.open2), 1
				}
				if q == 2 {
					c.open2 = append(c.open2, id)
				}
				ret := b2i(r.Intn(100) < p.retainPct)
				g.emit("pkt %d publish %d %d %d %s %d %s", c.id, dup, q, ret, hexStr(g.name()), id, g.payload())
			case pickW(p.wRel):
				id := 1 + r.Intn(12)
				if len(c.open2) > 0 && r.Intn(6) != 0 {
					j := r.Intn(len(c.open2))
					if r.Intn(2) == 0 {
						j = 0
					}
					id = c.open2[j]
					if r.Intn(5) != 0 {
						c.open2 = append(c.open2[:j], c.open2[j+1:]...)
					}
				}
				g.emit("pkt %d pubrel %d", c.id, id)
			case pickW(p.wAck):
				g.emit("pkt %d %s %d", c.id, pick(r, []string{"puback", "pubrec", "pubcomp", "pubrec"}), 1+r.Intn(12))
			case pickW(p.wPing):
				g.emit("pkt %d %s", c.id, pick(r, []string{"pingreq", "pingreq", "pingresp", "connect", "unsuback 3", "suback 4"}))
			case pickW(p.wDisc):
				g.emit("pkt %d disconnect", c.id)
				g.remove(c)
			case pickW(p.wClose):
				if r.Intn(4) == 0 {
					// the client's last packets and its close arrive together: a burst of publishes, half
					// of the time with a DISCONNECT at the end (then no will), the socket closed behind them
					var data []byte
					// (QoS 0 only: a QoS 1 PUBLISH whose PUBACK can no longer be written - the sender
					// goroutine ends with the socket - is not forwarded; whether such a message, never
					// acknowledged and still owned by its sender, is handed on is a matter of timing that
					// no property fixes: DESIGN 14.3)
					for k := 3 + r.Intn(25); k > 0; k-- {
						data = append(data, wPub{qos: 0, topic: []byte(pick(r, g.names)), payload: []byte{byte(k)}}.encode()...)
					}
					if r.Intn(2) == 0 {
						data = append(data, 0xe0, 0x00)
					}
					if r.Intn(2) == 0 {
						// … and are handed to the broker together with the end of the stream, in one read
						g.emit("rawclose %d %s eof", c.id, hexOf(data))
					} else {
						g.emit("rawclose %d %s", c.id, hexOf(data))
					}
					g.remove(c)
					break
				}
				g.emit("close %d", c.id)
				g.remove(c)
			case pickW(p.wSrvPub):
				q := r.Intn(3)
				id := 0
				if q > 0 && r.Intn(2) == 0 {
					id = 1 + r.Intn(100)
				}
				nm := pick(r, g.names)
				g.emit("srvpub 0 %d %d %s %d %s", q, b2i(r.Intn(100) < p.retainPct), hexStr(nm), id, g.payload())
			case pickW(p.wSrvSub):
				cb := 1001 + r.Intn(3)
				f := g.filter()
				g.emit("srvsub %d %s %d", cb, hexStr(f), r.Intn(3))
				g.cbsubs = append(g.cbsubs, [2]string{fmt.Sprint(cb), f})
			case pickW(p.wSrvUnsub):
				if len(g.cbsubs) > 0 {
					s := pick(r, g.cbsubs)
					g.emit("srvunsub %s %s", s[0], hexStr(s[1]))
				} else {
					g.emit("srvunsub 1001 %s", hexStr("a"))
				}
			case pickW(p.wBadFirst):
				g.next++
				if r.Intn(3) == 0 {
					g.emit("first %d garbage 1", g.next)
				} else {
					g.emit("first %d other %d 1", g.next, pick(r, []int{3, 4, 8, 12, 14}))
				}
			default:
				g.badConnect()
			}
		}
	}
}

// ---- profile broker-iso (property C05): a hostile connection next to a witness pair ------------
//
// Every episode has a witness subscriber (connection 1, filter "w", sometimes "t1" too) and a
// witness publisher (connection 2); further connections are attackers.  Attack bytes are built
// from valid packets of all 14 types by truncation, corrupted length fields, 5-byte remaining
// lengths, reserved types, oversized announced lengths and random bytes, sent as the first thing
// on a connection (`rawfirst`) or on an accepted one (`raw`), whole or split across several
// events, with witness traffic (also addressed to the attacker's subscriptions) in between.
//
// Topic names are single-level and neither '/' nor '$' is ever put into a payload, an identifier
// or a corrupted byte: the recorded topic-store findings (empty levels, '$' below the first
// level) cannot be reached by accident.  One episode in ten lets the witness publish on "a/$b"
// with nobody subscribed to a matching filter (a publish the store rejects internally must not
// cost the publisher its connection).

const isoRing = 256 * 1024

type isoGen struct {
	r        *rand.Rand
	w        *bufio.Writer
	next     int
	atk      []int // attacker connections opened in this episode (dead or alive: unknown to the generator)
	thorough bool
	dollar   bool
	extra    int // CONNECT packets generated as attack material so far
}

func (g *isoGen) emit(format string, a ...interface{}) { fmt.Fprintf(g.w, "broker "+format+"\n", a...) }

func (g *isoGen) safeByte() byte {
	for {
		b := byte(g.r.Intn(256))
		// no level separator, no '$' (recorded topic-store findings), no wildcard: a corrupted will
		// topic with a wildcard is a CONNECT the specification has no opinion about
		if b != '/' && b != '$' && b != '#' && b != '+' {
			return b
		}
	}
}

func (g *isoGen) bytesN(n int) []byte {
	b := make([]byte, n)
	for i := range b {
		b[i] = g.safeByte()
	}
	return b
}

func (g *isoGen) pid() int { return 1 + g.r.Intn(30) }

func (g *isoGen) topic() []byte { return []byte(pick(g.r, []string{"w", "w", "t1", "t2"})) }

func (g *isoGen) filter() []byte {
	fs := []string{"w", "t1", "t2", "+", "#"}
	if g.dollar {
		fs = fs[:4]
	}
	return []byte(pick(g.r, fs))
}

func (g *isoGen) smallPayload() []byte { return g.bytesN(g.r.Intn(6)) }

// attacker CONNECT (always acceptable: unique identifier, keep-alive 60)
func (g *isoGen) connectBytes(id int) []byte {
	r := g.r
	c := wConnect{protoName: []byte("MQTT"), version: 4, clean: r.Intn(3) != 0, clientID: []byte(fmt.Sprintf("atk%d", id)), keepAlive: 60}
	if r.Intn(2) == 0 {
		c.will = &wWill{topic: []byte(pick(r, []string{"w", "t1"})), payload: g.smallPayload(), qos: r.Intn(3), retain: false}
	}
	if r.Intn(6) == 0 {
		u, p := []byte("user"), []byte("pw")
		c.user, c.pass = &u, &p
	}
	return c.encode()
}

// validPacket returns one well-formed packet of type t (1..14) as a client or a server would send it.
func (g *isoGen) validPacket(t int) []byte {
	r := g.r
	switch t {
	case 1:
		g.extra++ // a client identifier of its own: two live connections under one identifier are C10's subject
		return g.connectBytes(900 + g.extra)
	case 2:
		return []byte{0x20, 0x02, byte(r.Intn(2)), byte(r.Intn(6))}
	case 3:
		q := r.Intn(3)
		t := g.topic()
		if r.Intn(6) == 0 {
			// a topic the store turns away (first character '$'): the publisher keeps its connection,
			// nobody receives anything, and nothing may stay locked behind the refusal
			t = []byte(pick(r, []string{"$SYS/x", "$w", "$"}))
		}
		return wPub{qos: q, retain: false, topic: t, id: g.pid(), payload: g.smallPayload(), dup: q > 0 && r.Intn(5) == 0}.encode()
	case 4, 5, 6, 7, 11:
		return wAck(t, g.pid())
	case 8:
		n := 1 + r.Intn(3)
		var ts [][]byte
		var qs []int
		for i := 0; i < n; i++ {
			ts = append(ts, g.filter())
			qs = append(qs, r.Intn(3))
		}
		return wSubscribe(g.pid(), ts, qs)
	case 9:
		return wPacket(0x90, append(wID(g.pid()), byte(pick(r, []int{0, 1, 2, 0x80}))))
	case 10:
		return wUnsubscribe(g.pid(), [][]byte{g.filter()})
	case 12:
		return []byte{0xc0, 0x00}
	case 13:
		return []byte{0xd0, 0x00}
	default:
		return []byte{0xe0, 0x00}
	}
}

// a type for the next packet of an attacker: mostly what clients send
func (g *isoGen) anyType() int {
	if g.r.Intn(4) == 0 {
		return 1 + g.r.Intn(14)
	}
	return pick(g.r, []int{3, 3, 3, 8, 8, 10, 12, 4, 5, 6, 7, 14})
}

// hdrLen: length of the fixed header of a packet built by wire.go
func hdrLen(p []byte) int {
	i := 1
	for p[i]&0x80 != 0 {
		i++
	}
	return i + 1
}

func varint5(tail byte) []byte { return []byte{0x80 | byte(tail&0x7f), 0xff, 0xff, 0xff, tail & 0x7f} }

// attack builds hostile bytes out of a valid packet p; the result never contains '/' or '$'
// beyond what p had.
func (g *isoGen) attack(p []byte) []byte {
	r := g.r
	h := hdrLen(p)
	body := p[h:]
	switch r.Intn(15) {
	case 14: // a PUBLISH whose topic name contains a wildcard
		return wPub{qos: r.Intn(3), topic: []byte(pick(r, []string{"w#", "+", "#", "w+"})), id: g.pid(), payload: g.smallPayload()}.encode()
	case 13: // a QoS 1/2 PUBLISH without packet identifier (identifier 0), addressed to the witness
		return wPub{qos: 1 + r.Intn(2), topic: []byte("w"), id: 0, payload: g.smallPayload()}.encode()
	case 0, 1: // truncated at a random offset (also inside the header)
		return append([]byte{}, p[:r.Intn(len(p))]...)
	case 2: // remaining length says less
		if len(body) > 0 {
			return append(append([]byte{p[0]}, wVarint(r.Intn(len(body)))...), body...)
		}
		return []byte{p[0], 0x01, g.safeByte()}
	case 3: // remaining length says more (the next packets are swallowed, or the broker waits)
		return append(append([]byte{p[0]}, wVarint(len(body)+1+r.Intn(40))...), body...)
	case 4: // five remaining-length bytes
		v := pick(r, [][]byte{{0x80, 0x80, 0x80, 0x80, 0x01}, {0xff, 0xff, 0xff, 0xff, 0x7f}, {0x80, 0x80, 0x80, 0x80, 0x80, 0x80}, {0xff, 0xff, 0xff, 0xff, 0x01}})
		return append(append([]byte{p[0]}, v...), body...)
	case 5: // non-minimal remaining length
		v := wVarint(len(body))
		v[len(v)-1] |= 0x80
		v = append(v, 0x00)
		if len(v) > 4 {
			v = wVarint(len(body))
		}
		return append(append([]byte{p[0]}, v...), body...)
	case 6: // reserved packet types
		q := append([]byte{}, p...)
		q[0] = pick(r, []byte{0x00, 0xf0, 0x0f, 0xff}) | (q[0] & 0x0f & byte(r.Intn(16)))
		return q
	case 7: // flag nibble changed
		q := append([]byte{}, p...)
		q[0] = q[0]&0xf0 | byte(r.Intn(16))
		return q
	case 8: // announces more than the ring can hold, never sends it
		n := isoRing + 1 + r.Intn(1000)
		if r.Intn(3) == 0 {
			n = pick(r, []int{268435455, 268435455 - r.Intn(1000), 2097152, 1 << 24})
		}
		return append(append([]byte{p[0]}, wVarint(n)...), body...)
	case 9: // one byte of the body changed (inner length prefixes, identifiers, QoS bytes, flags)
		q := append([]byte{}, p...)
		if len(body) > 0 {
			q[h+r.Intn(len(body))] = g.safeByte()
		}
		return q
	case 10: // inner length prefix too long
		q := append([]byte{}, p...)
		if len(body) >= 2 {
			q[h], q[h+1] = byte(r.Intn(2)), g.safeByte()
		}
		return q
	case 11: // random bytes
		return g.bytesN(1 + r.Intn(24))
	default: // a valid packet followed by the start of another one
		q := g.validPacket(g.anyType())
		return append(append([]byte{}, p...), q[:r.Intn(len(q))]...)
	}
}

// patchKeepAlive: if bytes look like a CONNECT whose keep-alive field is 1..29 seconds, make it 60
// (a connection the broker would drop by itself within an episode is not what is examined here)
func patchKeepAlive(p []byte) {
	if len(p) < 2 || p[0]>>4 != 1 {
		return
	}
	h := 1
	for h < len(p) && h <= 4 && p[h]&0x80 != 0 {
		h++
	}
	h++
	if h+2 > len(p) {
		return
	}
	nl := int(p[h])<<8 | int(p[h+1])
	ka := h + 2 + nl + 2
	if ka+2 > len(p) {
		return
	}
	if v := int(p[ka])<<8 | int(p[ka+1]); v > 0 && v < 30 {
		p[ka], p[ka+1] = 0, 60
	}
}

func (g *isoGen) newAttacker() int {
	g.next++
	g.atk = append(g.atk, g.next)
	return g.next
}

// split emits data as 2..4 `raw` events on connection c with witness traffic in between
func (g *isoGen) split(c int, data []byte) int {
	n := 0
	parts := 2 + g.r.Intn(3)
	for len(data) > 0 {
		k := len(data)
		if parts > 1 && len(data) > 1 {
			k = 1 + g.r.Intn(len(data)-1)
		}
		g.emit("raw %d %s", c, hexOf(data[:k]))
		n++
		data = data[k:]
		parts--
		if len(data) > 0 && g.r.Intn(2) == 0 {
			n += g.witness()
		}
	}
	return n
}

// witness traffic: the publisher publishes to the subscriber's topic or to an attacker's one
func (g *isoGen) witness() int {
	r := g.r
	if r.Intn(14) == 0 {
		// the witness gives its subscription up and takes it again: it is then no longer the oldest
		// subscriber of "w", and an attacker's departure rearranges the entries in front of it
		g.emit("pkt 1 unsubscribe %d %s", g.pid(), hexStr("w"))
		g.emit("pkt 1 subscribe %d %s:%d", g.pid(), hexStr("w"), 1+r.Intn(2))
		return 2
	}
	switch r.Intn(8) {
	case 0:
		g.emit("pkt 1 pingreq")
	case 1:
		q := 1 + r.Intn(2)
		id := g.pid()
		g.emit("pkt 2 publish 0 %d 0 %s %d %s", q, hexStr("w"), id, hexOf(g.smallPayload()))
		if q == 2 {
			g.emit("pkt 2 pubrel %d", id)
			return 2
		}
	case 2:
		if g.dollar {
			q := r.Intn(2)
			g.emit("pkt 2 publish 0 %d 0 %s %d %s", q, hexStr("a/$b"), q*g.pid(), hexOf(g.smallPayload()))
			return 1
		}
		fallthrough
	default:
		t := pick(r, []string{"w", "w", "t1", "t2"})
		pl := g.smallPayload()
		if r.Intn(40) == 0 {
			pl = g.bytesN(9000 + r.Intn(30000))
		}
		q := r.Intn(2)
		g.emit("pkt 2 publish 0 %d 0 %s %d %s", q, hexStr(t), q*g.pid(), hexOf(pl))
	}
	return 1
}

func genBrokerIso(seed int64, n int, tier string, w *bufio.Writer) {
	r := rand.New(rand.NewSource(seed))
	g := &isoGen{r: r, w: w, thorough: tier == "thorough"}
	for done := 0; done < n; {
		g.emit("reset")
		g.next, g.atk = 2, nil
		g.dollar = r.Intn(10) == 0
		// the witnesses
		g.emit("first 1 connect %s 4 0 1 ~ 0 0 %s ~ ~ 60 1", hexStr("MQTT"), hexStr("wsub"))
		subs := fmt.Sprintf("%s:%d", hexStr("w"), 1+r.Intn(2))
		if r.Intn(3) == 0 {
			subs += fmt.Sprintf(",%s:%d", hexStr("t1"), r.Intn(3))
		}
		g.emit("pkt 1 subscribe 1 %s", subs)
		g.emit("first 2 connect %s 4 0 1 ~ 0 0 %s ~ ~ 60 1", hexStr("MQTT"), hexStr("wpub"))
		done += 3
		if g.dollar {
			// a subscriber whose filter makes the topic store look at the '$' level of "a/$b" (recorded finding B4:
			// the store rejects that publish internally; the publisher must keep its connection all the same)
			id := g.newAttacker()
			g.emit("rawfirst %d %s 0", id, hexOf(append(g.connectBytes(id), wSubscribe(1, [][]byte{[]byte("a/+")}, []int{1})...)))
			done++
		}
		eplen := 12 + r.Intn(40)
		for i := 0; i < eplen && done < n; i++ {
			var a int
			if len(g.atk) > 0 {
				a = pick(r, g.atk)
				if r.Intn(3) != 0 {
					a = g.atk[len(g.atk)-1] // mostly the most recent one (the others are often gone)
				}
			}
			switch k := r.Intn(100); {
			case k < 12 || a == 0:
				// a new attacker: a proper CONNECT, often with packets behind it in the same write
				id := g.newAttacker()
				data := g.connectBytes(id)
				for j := r.Intn(3); j > 0; j-- {
					data = append(data, g.validPacket(pick(r, []int{8, 8, 3, 12}))...)
				}
				if r.Intn(4) == 0 {
					data = append(data, g.attack(g.validPacket(g.anyType()))...)
				}
				g.emit("rawfirst %d %s %d", id, hexOf(data), b2i(r.Intn(8) == 0))
				done++
			case k < 24:
				// hostile bytes as the first thing on a connection
				id := g.newAttacker()
				var data []byte
				switch r.Intn(4) {
				case 0:
					data = g.attack(g.validPacket(g.anyType()))
				case 1:
					data = g.validPacket(pick(r, []int{2, 3, 4, 8, 12, 13, 14})) // a well-formed packet, but not CONNECT
				default:
					data = g.attack(g.connectBytes(id))
				}
				patchKeepAlive(data)
				closes := r.Intn(10) != 0 // keeping the connection open costs the broker's connect deadline (1 s)
				if sc, _, tl := scanFrames(data, 0); sc == 0 && tl == tailQuiet && len(data) > 6 && !closes && r.Intn(3) != 0 {
					closes = true
				}
				g.emit("rawfirst %d %s %d", id, hexOf(data), b2i(closes))
				done++
			case k < 50:
				// valid traffic of the attacker (subscriptions to the witness topics included)
				var data []byte
				for j := 1 + r.Intn(3); j > 0; j-- {
					data = append(data, g.validPacket(g.anyType())...)
				}
				if r.Intn(5) == 0 {
					done += g.split(a, data)
				} else {
					g.emit("raw %d %s", a, hexOf(data))
					done++
				}
			case k < 72:
				// the attack on an accepted connection
				data := g.attack(g.validPacket(g.anyType()))
				if r.Intn(3) == 0 {
					data = append(g.validPacket(g.anyType()), data...)
				}
				if r.Intn(4) == 0 && len(data) > 1 {
					done += g.split(a, data)
				} else {
					g.emit("raw %d %s", a, hexOf(data))
					done++
				}
			case k < 78:
				g.emit("close %d", a)
				done++
			case k < 86:
				// the witness publishes (to the attacker's topics too) while the attacker is torn down
				var pubs []byte
				for j := 1 + r.Intn(6); j > 0; j-- {
					q := r.Intn(2)
					pl := g.smallPayload()
					if r.Intn(6) == 0 {
						pl = g.bytesN(2000 + r.Intn(12000))
					}
					pubs = append(pubs, wPub{qos: q, topic: g.topic(), id: g.pid(), payload: pl}.encode()...)
				}
				how := "close"
				if r.Intn(2) == 0 {
					how = hexOf(pick(r, [][]byte{{0xf0, 0x00}, {0x00, 0x00}, {0x30, 0x80, 0x80, 0x80, 0x80, 0x01}, {0x30, 0xff, 0xff, 0x7f}, {0x30, 0x02, 0x00, 0x09}, {0x82, 0x00}, {0xe0, 0x00}}))
				}
				g.emit("race %d %s 2 %s", a, how, hexOf(pubs))
				done++
			default:
				done += g.witness()
			}
		}
		// the witnesses are still there and served
		g.emit("pkt 2 publish 0 1 0 %s %d %s", hexStr("w"), g.pid(), hexOf(g.smallPayload()))
		g.emit("pkt 1 pingreq")
		done += 2
	}
}

// genBrokerIsoSweep: every valid packet type, cut at every offset, as first packet and on an
// accepted connection (whole prefix in one event, and byte 0..k-1 then the rest after witness
// traffic), while the witness publishes to the attacker's subscription.
func genBrokerIsoSweep(seed int64, n int, tier string, w *bufio.Writer) {
	r := rand.New(rand.NewSource(seed))
	g := &isoGen{r: r, w: w, thorough: tier == "thorough"}
	done := 0
	for rounds := 0; done < n; rounds++ {
		for t := 1; t <= 14 && done < n; t++ {
			p := g.validPacket(t)
			g.emit("reset")
			g.next, g.atk = 2, nil
			g.emit("first 1 connect %s 4 0 1 ~ 0 0 %s ~ ~ 60 1", hexStr("MQTT"), hexStr("wsub"))
			g.emit("pkt 1 subscribe 1 %s:1", hexStr("w"))
			g.emit("first 2 connect %s 4 0 1 ~ 0 0 %s ~ ~ 60 1", hexStr("MQTT"), hexStr("wpub"))
			done += 3
			for cut := 0; cut <= len(p) && done < n; cut++ {
				// first packet cut at `cut` (the client closes: no connect deadline to wait for)
				id := g.newAttacker()
				g.emit("rawfirst %d %s 1", id, hexOf(p[:cut]))
				// accepted connection subscribed to t1 with a will on w, then the cut packet, then the close
				id = g.newAttacker()
				c := wConnect{protoName: []byte("MQTT"), version: 4, clean: true, clientID: []byte(fmt.Sprintf("atk%d", id)), keepAlive: 60,
					will: &wWill{topic: []byte("w"), payload: []byte{byte(cut)}, qos: 1}}
				g.emit("rawfirst %d %s 0", id, hexOf(append(c.encode(), wSubscribe(1, [][]byte{[]byte("t1")}, []int{1})...)))
				g.emit("raw %d %s", id, hexOf(p[:cut]))
				g.emit("pkt 2 publish 0 1 0 %s %d %s", hexStr("t1"), g.pid(), hexOf(g.smallPayload()))
				if cut < len(p) && r.Intn(2) == 0 {
					g.emit("raw %d %s", id, hexOf(p[cut:]))
					done++
				}
				g.emit("close %d", id)
				g.emit("pkt 2 publish 0 0 0 %s 0 %s", hexStr("w"), hexOf(g.smallPayload()))
				done += 6
			}
		}
	}
}

func init() {
	gens["broker-iso"] = genBrokerIso
	gens["broker-iso-sweep"] = genBrokerIsoSweep
}
