package main

import (
	"bufio"
	"fmt"
	"math/rand"
	"strings"
)

// Seeded generator of broker histories.  Profiles shift the event mix towards
// the behaviour one property is about; all profiles produce all event kinds.

type brokerProfile struct {
	name                                                        string
	wConnect, wSub, wUnsub, wPub, wRel, wAck, wPing, wDisc      int
	wClose, wSrvPub, wSrvSub, wSrvUnsub, wBadFirst, wBadConnect int
	retainPct, willPct, cleanPct                                int
}

var brokerProfiles = map[string]brokerProfile{
	"broker":       {"broker", 10, 14, 6, 34, 8, 5, 2, 4, 5, 4, 3, 1, 2, 2, 25, 40, 60},
	"broker-sub":   {"broker-sub", 8, 30, 14, 26, 4, 3, 1, 3, 3, 3, 3, 2, 0, 0, 20, 20, 70},
	"broker-ret":   {"broker-ret", 8, 22, 4, 36, 6, 3, 1, 3, 3, 6, 6, 1, 0, 1, 65, 30, 70},
	"broker-will":  {"broker-will", 18, 12, 3, 16, 3, 2, 1, 14, 18, 2, 2, 1, 2, 4, 25, 85, 45},
	"broker-sess":  {"broker-sess", 20, 18, 8, 18, 3, 2, 1, 12, 12, 2, 1, 1, 1, 1, 15, 25, 35},
	"broker-first": {"broker-first", 22, 6, 2, 10, 2, 1, 1, 4, 4, 1, 1, 0, 22, 24, 20, 40, 50},
	"broker-qos":   {"broker-qos", 8, 12, 3, 40, 18, 8, 2, 2, 3, 3, 1, 0, 0, 1, 15, 20, 70},
}

func init() {
	for name := range brokerProfiles {
		n := name
		gens[n] = func(seed int64, cnt int, tier string, w *bufio.Writer) { genBroker(brokerProfiles[n], seed, cnt, tier, w) }
	}
}

type bConn struct {
	id    int
	cid   string
	subs  []string
	open2 []int // inbound QoS 2 ids not yet released
}

type brokerGen struct {
	r      *rand.Rand
	w      *bufio.Writer
	p      brokerProfile
	next   int
	live   []*bConn
	names  []string
	filts  []string
	cbsubs [][2]string
	pid    int
	// known-finding classes confined to dedicated episodes (allowDollar: no finding any more since
	// B4 was repaired; '$' levels and '$' topics stay in episodes of their own)
	allowEmpty, allowDollar, allowOverlap, allowBadFilter bool
	thorough bool
	lastConnect map[string]string
	out2 map[int][]int // subscriber conn -> QoS 2 ids the broker sent it (for PUBREC/PUBCOMP answers)
}

func (g *brokerGen) emit(format string, a ...interface{}) {
	fmt.Fprintf(g.w, "broker "+format+"\n", a...)
}

func (g *brokerGen) name() string {
	n := pick(g.r, g.names)
	if g.allowEmpty && g.r.Intn(5) == 0 {
		// empty-level inputs use a level "q" of their own: their code-level normal forms (leading
		// empty level -> "+", trailing one dropped) then never coincide with another filter of the
		// vocabulary, which would make the outcome depend on Go map order after a session resume
		n = pick(g.r, []string{"/q", "q/", "q//r", "x/q", "q"})
	}
	if g.allowDollar && g.r.Intn(5) == 0 {
		// "a/$b" is an ordinary name (B4, repaired); names beginning with '$' are outside the
		// properties' quantifier: the oracle leaves those events open, the tie still holds
		n = pick(g.r, []string{"a/$b", "a/$b", "a/$b", "$SYS/x"})
	}
	return n
}

func (g *brokerGen) filter() string {
	f := pick(g.r, g.filts)
	if g.allowEmpty && g.r.Intn(5) == 0 {
		f = pick(g.r, []string{"/q", "q/", "q//r", "//q", "q/+/"})
	}
	if g.allowDollar && g.r.Intn(5) == 0 {
		f = pick(g.r, []string{"a/$b", "+/$b", "a/$b", "+/$b", "$SYS/#", "$SYS/x"})
	}
	if g.allowBadFilter && g.r.Intn(4) == 0 {
		f = pick(g.r, []string{"a/#/b", "a+", "#/a", "a/b#"})
	}
	return f
}

func (g *brokerGen) payload() string {
	r := g.r
	switch k := r.Intn(20); {
	case k == 0:
		return "-"
	case k < 18:
		b := make([]byte, 1+r.Intn(5))
		r.Read(b)
		return hexOf(b)
	case k == 18 && r.Intn(6) == 0:
		// large payloads: several read blocks, wrapping both rings; thorough runs go close to the
		// packet limit (buffer size minus one 8 KiB read block)
		n := 9000 + r.Intn(60000)
		if g.thorough && r.Intn(4) == 0 {
			n = 200000 + r.Intn(40000)
		}
		b := make([]byte, n)
		r.Read(b)
		return hexOf(b)
	default:
		b := make([]byte, 100+r.Intn(3000))
		r.Read(b)
		return hexOf(b)
	}
}

func (g *brokerGen) connect() {
	r := g.r
	g.next++
	id := g.next
	cid := fmt.Sprintf("c%d", 1+r.Intn(4))
	if !g.allowOverlap {
		for k := 0; k < 8; k++ {
			clash := false
			for _, c := range g.live {
				if c.cid == cid {
					clash = true
				}
			}
			if !clash {
				break
			}
			cid = fmt.Sprintf("c%d", 1+r.Intn(6))
		}
		for _, c := range g.live {
			if c.cid == cid {
				cid = fmt.Sprintf("u%d", id)
			}
		}
	}
	clean := r.Intn(100) < g.p.cleanPct
	if r.Intn(15) == 0 {
		cid = ""
		clean = true
	}
	will := "~"
	if r.Intn(100) < g.p.willPct {
		wp := g.payload()
		if len(wp) > 2*60000 { // a will message is a length-prefixed field: at most 65535 bytes
			wp = wp[:2*60000]
		}
		will = fmt.Sprintf("%s:%s:%d:%d", hexStr(g.name()), wp, r.Intn(3), r.Intn(2))
	}
	rest := fmt.Sprintf("connect %s 4 0 %d %s 0 0 %s ~ ~ %d 1", hexStr("MQTT"), b2i(clean), will, hexStr(cid), 30)
	// reconnects often repeat the previous CONNECT of that client byte for byte
	if prev, ok := g.lastConnect[cid]; ok && cid != "" && r.Intn(5) < 2 {
		rest = prev
	}
	g.lastConnect[cid] = rest
	if r.Intn(12) == 0 {
		// a packet pipelined behind the CONNECT, before the CONNACK has been read
		switch r.Intn(3) {
		case 0:
			g.emit("firstp %d %s ; disconnect", id, rest)
			return
		case 1:
			g.emit("firstp %d %s ; pingreq", id, rest)
		default:
			g.pid++
			f := g.filter()
			g.emit("firstp %d %s ; subscribe %d %s:%d", id, rest, 1+g.pid%65535, hexStr(f), r.Intn(3))
		}
	} else {
		g.emit("first %d %s", id, rest)
	}
	g.live = append(g.live, &bConn{id: id, cid: cid})
}

func b2i(b bool) int {
	if b {
		return 1
	}
	return 0
}

func (g *brokerGen) badConnect() {
	r := g.r
	g.next++
	id := g.next
	pn, ver, rsv, clean, will, wq, wr, cid, auth := "MQTT", 4, 0, 1, "~", 0, 0, fmt.Sprintf("x%d", id), 1
	if r.Intn(2) == 0 {
		// a refused CONNECT that presents the client identifier of somebody else's session (stored or
		// live), with either CleanSession value and possibly a will of its own: it must leave that
		// session, its subscriptions and its will alone
		cid = fmt.Sprintf("c%d", 1+r.Intn(4))
		clean = r.Intn(2)
		if r.Intn(2) == 0 {
			will = fmt.Sprintf("%s:%s:%d:0", hexStr(g.name()), hexStr("forged"), r.Intn(3))
		}
	}
	ndefects := 1
	if r.Intn(4) == 0 {
		ndefects = 2
	}
	for k := 0; k < ndefects; k++ {
		switch r.Intn(9) {
		case 0:
			pn = pick(r, []string{"MQTX", "MQIsdp", "", "mqtt"})
		case 1:
			ver = pick(r, []int{0, 2, 5, 3, 255})
		case 2:
			rsv = 1
		case 3:
			will = fmt.Sprintf("%s:%s:3:0", hexStr("w"), hexStr("p"))
		case 4:
			wq = 1 + r.Intn(2)
		case 5:
			wr = 1
		case 6:
			cid, clean = "", 0
		case 7:
			cid = pick(r, []string{"id\x01x", strings.Repeat("a", 33), "caf\xc3\xa9"})
		case 8:
			auth = 0
		}
	}
	if pn == "MQIsdp" && ver == 3 {
		// that is the valid 3.1 pair: accepted
		g.live = append(g.live, &bConn{id: id, cid: cid})
	}
	g.emit("first %d connect %s %d %d %d %s %d %d %s ~ ~ 30 %d", id, hexStr(pn), ver, rsv, clean, will, wq, wr, hexStr(cid), auth)
	// whether it was accepted is not tracked precisely: only the valid 3.1 pair is
	if !(pn == "MQIsdp" && ver == 3 && rsv == 0 && will == "~" && wq == 0 && wr == 0 && auth == 1 && cid != "" && len(cid) < 33 && !strings.ContainsAny(cid, "\x01\xc3")) {
		if n := len(g.live); n > 0 && g.live[n-1].id == id {
			g.live = g.live[:n-1]
		}
	}
}

func (g *brokerGen) remove(c *bConn) {
	for i, x := range g.live {
		if x == c {
			g.live = append(g.live[:i], g.live[i+1:]...)
			return
		}
	}
}

func genBroker(p brokerProfile, seed int64, n int, tier string, w *bufio.Writer) {
	r := rand.New(rand.NewSource(seed))
	g := &brokerGen{r: r, w: w, p: p, thorough: tier == "thorough"}
	total := p.wConnect + p.wSub + p.wUnsub + p.wPub + p.wRel + p.wAck + p.wPing + p.wDisc + p.wClose + p.wSrvPub + p.wSrvSub + p.wSrvUnsub + p.wBadFirst + p.wBadConnect
	for done := 0; done < n; {
		g.emit("reset")
		g.live, g.cbsubs, g.next, g.pid = nil, nil, 0, 0
		g.out2 = map[int][]int{}
		g.lastConnect = map[string]string{}
		g.allowEmpty = r.Intn(8) == 0
		g.allowDollar = r.Intn(10) == 0
		g.allowOverlap = r.Intn(10) == 0
		g.allowBadFilter = r.Intn(6) == 0
		if r.Intn(2) == 0 {
			g.names = []string{"a", "a/b", "a/c", "b"}
			g.filts = []string{"a", "a/b", "a/+", "a/#", "#", "+", "b", "+/b"}
		} else {
			g.names = []string{"a", "a/b", "a/b/c", "b/c", "sport/tennis/player1", "sport", "x"}
			g.filts = []string{"a/b", "a/+", "a/#", "#", "+/+", "a/+/c", "sport/#", "sport/tennis/+", "b/c", "+/b/#", "x", "sport"}
		}
		eplen := 15 + r.Intn(60)
		g.connect()
		done++
		for i := 0; i < eplen && done < n; i++ {
			done++
			k := r.Intn(total)
			var c *bConn
			if len(g.live) > 0 {
				c = pick(r, g.live)
			}
			pickW := func(w int) bool {
				if k < w {
					k = 1 << 30
					return true
				}
				k -= w
				return false
			}
			switch {
			case pickW(p.wConnect) || c == nil:
				if len(g.live) < 5 {
					g.connect()
				} else {
					g.emit("pkt %d pingreq", c.id)
				}
			case pickW(p.wSub):
				cnt := 1
				if r.Intn(3) == 0 {
					cnt = 2 + r.Intn(5)
				}
				var parts []string
				for j := 0; j < cnt; j++ {
					f := g.filter()
					q := r.Intn(3)
					if g.allowBadFilter && r.Intn(12) == 0 {
						q = 3 + r.Intn(200)
					}
					parts = append(parts, fmt.Sprintf("%s:%d", hexStr(f), q))
					c.subs = append(c.subs, f)
				}
				g.pid++
				g.emit("pkt %d subscribe %d %s", c.id, 1+g.pid%65535, strings.Join(parts, ","))
			case pickW(p.wUnsub):
				cnt := 1 + r.Intn(2)
				if r.Intn(5) == 0 {
					cnt = 4 + r.Intn(3)
				}
				var parts []string
				for j := 0; j < cnt; j++ {
					f := g.filter()
					if len(c.subs) > 0 && r.Intn(4) != 0 {
						f = pick(r, c.subs)
					}
					parts = append(parts, hexStr(f))
				}
				g.pid++
				g.emit("pkt %d unsubscribe %d %s", c.id, 1+g.pid%65535, strings.Join(parts, ","))
			case pickW(p.wPub):
				q := r.Intn(3)
				id := 0
				if q > 0 {
					id = 1 + r.Intn(12)
					if r.Intn(3) == 0 {
						id = 1 + r.Intn(65535)
					}
				}
				dup := 0
				if q == 2 && len(c.open2) > 0 && r.Intn(4) == 0 { // duplicate of an open exchange
					id, dup = pick(r, c.open2), 1
				}
				if q == 2 {
					c.open2 = append(c.open2, id)
				}
				ret := b2i(r.Intn(100) < p.retainPct)
				g.emit("pkt %d publish %d %d %d %s %d %s", c.id, dup, q, ret, hexStr(g.name()), id, g.payload())
			case pickW(p.wRel):
				id := 1 + r.Intn(12)
				if len(c.open2) > 0 && r.Intn(6) != 0 {
					j := r.Intn(len(c.open2))
					if r.Intn(2) == 0 {
						j = 0
					}
					id = c.open2[j]
					if r.Intn(5) != 0 {
						c.open2 = append(c.open2[:j], c.open2[j+1:]...)
					}
				}
				g.emit("pkt %d pubrel %d", c.id, id)
			case pickW(p.wAck):
				g.emit("pkt %d %s %d", c.id, pick(r, []string{"puback", "pubrec", "pubcomp", "pubrec"}), 1+r.Intn(12))
			case pickW(p.wPing):
				g.emit("pkt %d %s", c.id, pick(r, []string{"pingreq", "pingreq", "pingresp", "connect", "unsuback 3", "suback 4"}))
			case pickW(p.wDisc):
				g.emit("pkt %d disconnect", c.id)
				g.remove(c)
			case pickW(p.wClose):
				g.emit("close %d", c.id)
				g.remove(c)
			case pickW(p.wSrvPub):
				q := r.Intn(3)
				id := 0
				if q > 0 && r.Intn(2) == 0 {
					id = 1 + r.Intn(100)
				}
				nm := pick(r, g.names)
				g.emit("srvpub 0 %d %d %s %d %s", q, b2i(r.Intn(100) < p.retainPct), hexStr(nm), id, g.payload())
			case pickW(p.wSrvSub):
				cb := 1001 + r.Intn(3)
				f := g.filter()
				g.emit("srvsub %d %s %d", cb, hexStr(f), r.Intn(3))
				g.cbsubs = append(g.cbsubs, [2]string{fmt.Sprint(cb), f})
			case pickW(p.wSrvUnsub):
				if len(g.cbsubs) > 0 {
					s := pick(r, g.cbsubs)
					g.emit("srvunsub %s %s", s[0], hexStr(s[1]))
				} else {
					g.emit("srvunsub 1001 %s", hexStr("a"))
				}
			case pickW(p.wBadFirst):
				g.next++
				if r.Intn(3) == 0 {
					g.emit("first %d garbage 1", g.next)
				} else {
					g.emit("first %d other %d 1", g.next, pick(r, []int{3, 4, 8, 12, 14}))
				}
			default:
				g.badConnect()
			}
		}
	}
}
