package main

// Concurrent deliveries (C17): several raw publishers publish at the same time,
// unserialised, to one subscriber whose outgoing ring is small enough to wrap
// mid-packet.  The subscriber parses every byte it receives with the strict
// reference parser and checks per-publisher order through sequence numbers in
// the payloads.

import (
	"bufio"
	"bytes"
	"encoding/binary"
	"fmt"
	"math/rand"
	"net"
	"strings"
	"sync"
	"sync/atomic"
	"time"

	"github.com/mdzio/go-mqtt/message"
	"github.com/mdzio/go-mqtt/service"
	"github.com/mdzio/go-mqtt/sessions"
	"github.com/mdzio/go-mqtt/topics"
)

type concCore struct{}

func init() {
	cores["conc"] = func() core { brokerInit(); return &concCore{} }
	gens["conc"] = genConc
}

func newServer(bufsize int64) *service.Server {
	n := atomic.AddInt64(&providerSeq, 1)
	name := fmt.Sprintf("verifx%d", n)
	registerProviders(name)
	return &service.Server{ConnectTimeout: 1, SessionsProvider: name, TopicsProvider: name, Authenticator: "verifAuth", BufferSize: bufsize}
}

func rawConnect(svr *service.Server, id int, c wConnect) (*rawClient, bool) {
	return rawConnectWith(svr, id, c, true)
}

// rawConnectWith: wait = false returns when the CONNECT has been written (the answer stays in items)
func rawConnectWith(svr *service.Server, id int, c wConnect, wait bool) (*rawClient, bool) {
	cl, sv0 := net.Pipe()
	var sv net.Conn = sv0
	rc := newRawClient(id, cl)
	if halfCloseable {
		rc.half = newHalfConn(sv0)
		sv = rc.half
	}
	rc.stopped = make(chan struct{})
	stoppedMu.Lock()
	stoppedChans[sv] = rc.stopped
	stoppedMu.Unlock()
	go svr.VerifServe(sv)
	rc.write(c.encode())
	if !wait {
		return rc, false
	}
	rc.waitUntil(func() bool { return len(rc.items) > 0 || rc.eof }, brokerWait)
	it := rc.take()
	rc.accepted = len(it) > 0 && strings.HasPrefix(it[0], "CONNACK") && strings.HasSuffix(it[0], " 0")
	return rc, rc.accepted
}

func simpleConnect(cid string, keepAlive int, will *wWill) wConnect {
	return wConnect{protoName: []byte("MQTT"), version: 4, clean: true, clientID: []byte(cid), keepAlive: keepAlive, will: will}
}

// concSrv: `conc srv <npub> <nmsg> <bufsize>` - npub goroutines call Server.Publish at the same time,
// goroutine k on its own topic s/<k> (QoS 0 and 1 alternating, payload = k, running number, filler).
// Subscribers: one in-process callback per topic and one network subscriber on s/#.  Every
// subscriber must get exactly the messages of its topics, each publisher's in order, intact, and
// nothing else; no Publish may panic (the goroutines recover and report).  What one overlapping
// in-process publish does to another is invisible to the serialised broker runs.
func concSrv(npub, nmsg, bufsize int) string {
	svr := newServer(int64(bufsize))
	sub, ok := rawConnect(svr, 1, simpleConnect("sub", 300, nil))
	if !ok {
		return "sub-refused"
	}
	sub.write(wSubscribe(1, [][]byte{[]byte("s/#")}, []int{1}))
	sub.waitUntil(func() bool { return len(sub.items) > 0 }, brokerWait)
	sub.take()
	type rec struct {
		topic   string
		payload []byte
	}
	var mu sync.Mutex
	got := make([][]rec, npub) // what callback k was handed
	cbs := make([]service.OnPublishFunc, npub)
	apierr := false
	for k := 0; k < npub; k++ {
		k := k
		cbs[k] = func(m *message.PublishMessage) error {
			r := rec{string(m.Topic()), append([]byte{}, m.Payload()...)}
			mu.Lock()
			got[k] = append(got[k], r)
			mu.Unlock()
			return nil
		}
		if err := svr.Subscribe(fmt.Sprintf("s/%d", k), 1, &cbs[k]); err != nil {
			apierr = true
		}
	}
	payload := func(k, i int) []byte {
		pl := make([]byte, 8+(k*7+i*13)%40)
		binary.BigEndian.PutUint32(pl[0:], uint32(k))
		binary.BigEndian.PutUint32(pl[4:], uint32(i))
		for j := 8; j < len(pl); j++ {
			pl[j] = byte(k*31 + i + j)
		}
		return pl
	}
	var wg sync.WaitGroup
	var panics, errs int64
	start := make(chan struct{})
	for k := 0; k < npub; k++ {
		wg.Add(1)
		go func(k int) {
			defer wg.Done()
			defer func() {
				if r := recover(); r != nil {
					atomic.AddInt64(&panics, 1)
				}
			}()
			<-start
			for i := 0; i < nmsg; i++ {
				m := message.NewPublishMessage()
				m.SetTopic([]byte(fmt.Sprintf("s/%d", k)))
				m.SetQoS(byte((k + i) % 2))
				m.SetPayload(payload(k, i))
				if err := svr.Publish(m); err != nil {
					atomic.AddInt64(&errs, 1)
				}
			}
		}(k)
	}
	close(start)
	done := make(chan struct{})
	go func() { wg.Wait(); close(done) }()
	select {
	case <-done:
	case <-time.After(60 * time.Second):
		return "publishers-stuck"
	}
	b := &brokerCore{clients: map[int]*rawClient{}}
	okAll := b.barrier(sub)
	wellformed, ordered, count := 1, 1, 0
	intact := func(pl []byte, topic string) (k uint32, i int64, ok bool) {
		if len(pl) < 8 {
			return 0, 0, false
		}
		k, i = binary.BigEndian.Uint32(pl[0:]), int64(binary.BigEndian.Uint32(pl[4:]))
		if int(k) >= npub || i >= int64(nmsg) || !bytes.Equal(pl, payload(int(k), int(i))) || topic != fmt.Sprintf("s/%d", k) {
			return k, i, false
		}
		return k, i, true
	}
	// the network subscriber: everything, per-publisher order
	last := map[uint32]int64{}
	for _, it := range sub.take() {
		if it == "MALFORMED" || it == "TRUNCATED" {
			wellformed = 0
			continue
		}
		if !strings.HasPrefix(it, "PUB ") {
			continue
		}
		w := strings.Fields(it)
		k, i, ok := intact(unhex(w[6]), string(unhex(w[4])))
		if !ok {
			wellformed = 0
		}
		if prev, seen := last[k]; seen && i <= prev {
			ordered = 0
		}
		last[k] = i
		count++
	}
	// the callbacks: callback k got the messages of publisher k, all of them, in order, nothing else
	mu.Lock()
	for k := 0; k < npub; k++ {
		prev := int64(-1)
		for _, r := range got[k] {
			kk, i, ok := intact(r.payload, r.topic)
			if !ok || int(kk) != k {
				wellformed = 0
			}
			if i <= prev {
				ordered = 0
			}
			prev = i
			count++
		}
	}
	mu.Unlock()
	sub.conn.Close()
	res := fmt.Sprintf("wellformed=%d ordered=%d count=%d", wellformed, ordered, count)
	if apierr || errs > 0 {
		res += " apierr"
	}
	if panics > 0 {
		res += " PANIC"
	}
	if !okAll {
		res += " TIMEOUT"
	}
	return res
}

func (concCore) handle(ws []string) string {
	switch ws[0] {
	case "reset":
		return "reset"
	case "srv":
		if len(ws) != 4 {
			return "bad-op"
		}
		return concSrv(atoi(ws[1]), atoi(ws[2]), atoi(ws[3]))
	case "ret":
		return concRet(atoi(ws[1]), atoi(ws[2]), atoi(ws[3]), atoi(ws[4]))
	case "run", "lap":
		npub, nmsg, size, qos, bufsize := atoi(ws[1]), atoi(ws[2]), atoi(ws[3]), atoi(ws[4]), atoi(ws[5])
		// "lap": the subscriber stops reading until the publishers' writes stall - the subscriber's
		// outgoing ring is full, the publishers' processors are parked in it in the middle of a
		// fan-out, and the publishers' incoming rings fill up behind them - and only then resumes.
		// The message being forwarded is decoded in place in the incoming ring: what the subscriber
		// gets must still be what was sent, however much traffic arrived behind it.
		lap := ws[0] == "lap"
		var written int64
		svr := newServer(int64(bufsize))
		sub, ok := rawConnect(svr, 1, simpleConnect("sub", 300, nil))
		if !ok {
			return "sub-refused"
		}
		sub.write(wSubscribe(1, [][]byte{[]byte("t/#")}, []int{qos}))
		sub.waitUntil(func() bool { return len(sub.items) > 0 }, brokerWait)
		sub.take()
		if lap {
			sub.setPaused(true)
		}
		var wg sync.WaitGroup
		pubs := make([]*rawClient, npub)
		for k := 0; k < npub; k++ {
			c, ok := rawConnect(svr, 10+k, simpleConnect(fmt.Sprintf("pub%d", k), 300, nil))
			if !ok {
				return "pub-refused"
			}
			pubs[k] = c
		}
		for k := 0; k < npub; k++ {
			wg.Add(1)
			go func(k int) {
				defer wg.Done()
				for i := 0; i < nmsg; i++ {
					sz := size
					if size >= 100000 {
						// mixed sizes: large and small packets alternate irregularly, so that a small packet
						// can straddle the end of the ring after a larger one did
						sz = (i*i*37 + k*911 + i*131) % (size - 100000 + 1)
					}
					pl := make([]byte, 8+sz)
					binary.BigEndian.PutUint32(pl[0:], uint32(k))
					binary.BigEndian.PutUint32(pl[4:], uint32(i))
					for j := 8; j < len(pl); j++ {
						pl[j] = byte(k*31 + i + j)
					}
					p := wPub{qos: qos, topic: []byte(fmt.Sprintf("t/%d", k)), payload: pl}
					if qos > 0 {
						p.id = 1 + i%60000
					}
					if err := pubs[k].write(p.encode()); err != nil {
						return
					}
					atomic.AddInt64(&written, 1)
					if qos == 2 {
						pubs[k].write(wAck(6, p.id))
					}
				}
			}(k)
		}
		done := make(chan struct{})
		go func() { wg.Wait(); close(done) }()
		if lap {
			// wait until nothing has been written for a while (or everything has), then let the subscriber read
			prev, still := int64(-1), 0
			for still < 6 {
				time.Sleep(50 * time.Millisecond)
				cur := atomic.LoadInt64(&written)
				if cur == prev {
					still++
				} else {
					still = 0
				}
				prev = cur
				if cur == int64(npub*nmsg) {
					break
				}
			}
			sub.setPaused(false)
		}
		select {
		case <-done:
		case <-time.After(60 * time.Second):
			return "publishers-stuck"
		}
		// barriers: every publisher, then the subscriber
		b := &brokerCore{clients: map[int]*rawClient{}}
		okAll := true
		for _, p := range pubs {
			okAll = b.barrier(p) && okAll
		}
		okAll = b.barrier(sub) && okAll
		items := sub.take()
		wellformed, ordered, count := 1, 1, 0
		last := map[uint32]int64{}
		for _, it := range items {
			if it == "MALFORMED" || it == "TRUNCATED" {
				wellformed = 0
				continue
			}
			if !strings.HasPrefix(it, "PUB ") {
				continue
			}
			w := strings.Fields(it)
			pl := unhex(w[6])
			if len(pl) < 8 {
				wellformed = 0
				continue
			}
			k, i := binary.BigEndian.Uint32(pl[0:]), int64(binary.BigEndian.Uint32(pl[4:]))
			for j := 8; j < len(pl); j++ {
				if pl[j] != byte(int(k)*31+int(i)+j) {
					wellformed = 0
					break
				}
			}
			if prev, ok := last[k]; ok && i <= prev {
				ordered = 0
			}
			last[k] = i
			count++
		}
		for _, p := range pubs {
			p.conn.Close()
		}
		sub.conn.Close()
		res := fmt.Sprintf("wellformed=%d ordered=%d count=%d", wellformed, ordered, count)
		if !okAll {
			res += " TIMEOUT"
		}
		return res
	}
	return "bad-op"
}

// concRet: `conc ret <nsub> <rounds> <size> <bufsize>` - retained updates concurrent to new subscriptions.
// One client keeps re-publishing the retained message of topic r/v, alternating between two payloads that are
// each one repeated byte; <nsub> clients subscribe (literal and wildcard filters matching r/v), take what
// arrives, unsubscribe, <rounds> times.  Every PUBLISH a subscriber receives must carry one of the two
// payloads intact (a mixture is a copy torn by a concurrent update), and between each SUBACK and the
// UNSUBACK that follows there must be a copy with the RETAIN flag set.  The expected line is the same for every interleaving.
func concRet(nsub, rounds, size, bufsize int) string {
	svr := newServer(int64(bufsize))
	pub, ok := rawConnect(svr, 1, simpleConnect("retpub", 300, nil))
	if !ok {
		return "pub-refused"
	}
	mk := func(b byte) []byte {
		pl := make([]byte, size)
		for i := range pl {
			pl[i] = b
		}
		return wPub{qos: 0, retain: true, topic: []byte("r/v"), payload: pl}.encode()
	}
	pa, pb := mk('A'), mk('B')
	pub.write(pa)
	bar := &brokerCore{clients: map[int]*rawClient{}}
	if !bar.barrier(pub) {
		return "pub-stalled"
	}
	stop := make(chan struct{})
	pubDone := make(chan struct{})
	go func() {
		defer close(pubDone)
		for i := 0; ; i++ {
			select {
			case <-stop:
				return
			default:
			}
			pk := pa
			if i%2 == 0 {
				pk = pb
			}
			if pub.write(pk) != nil {
				return
			}
		}
	}()
	filters := []string{"r/v", "r/+", "r/#", "#", "+/v"}
	var mu sync.Mutex
	wellformed, flagged, count := 1, 1, 0
	var wg sync.WaitGroup
	for k := 0; k < nsub; k++ {
		c, ok := rawConnect(svr, 10+k, simpleConnect(fmt.Sprintf("retsub%d", k), 300, nil))
		if !ok {
			close(stop)
			return "sub-refused"
		}
		wg.Add(1)
		go func(k int, c *rawClient) {
			defer wg.Done()
			defer c.conn.Close()
			for i := 0; i < rounds; i++ {
				f := filters[(k+i)%len(filters)]
				c.take()
				c.write(wSubscribe(1+i%60000, [][]byte{[]byte(f)}, []int{0}))
				// SUBACK and the retained message behind it
				got := c.waitUntil(func() bool {
					seenAck := false
					for _, it := range c.items {
						if strings.HasPrefix(it, "SUBACK") {
							seenAck = true
						} else if seenAck && strings.HasPrefix(it, "PUB ") {
							return true
						}
					}
					return false
				}, brokerWait)
				c.write(wUnsubscribe(1+i%60000, [][]byte{[]byte(f)}))
				c.waitUntil(func() bool {
					for _, it := range c.items {
						if strings.HasPrefix(it, "UNSUBACK") {
							return true
						}
					}
					return false
				}, brokerWait)
				items := c.take()
				mu.Lock()
				if !got {
					wellformed = 0
				}
				// (a live forward of a concurrent update - RETAIN 0 - may overtake the retained copy: the
				// subscription is in the tree before the SUBACK is written; what must be there, between
				// SUBACK and UNSUBACK, is a copy with RETAIN 1)
				afterAck, sawRetained := false, false
				for _, it := range items {
					if it == "MALFORMED" || it == "TRUNCATED" {
						wellformed = 0
					}
					if strings.HasPrefix(it, "SUBACK") {
						afterAck = true
						continue
					}
					if !strings.HasPrefix(it, "PUB ") {
						continue
					}
					w := strings.Fields(it)
					pl := unhex(w[6])
					if len(pl) != size || (pl[0] != 'A' && pl[0] != 'B') {
						wellformed = 0
					}
					for _, x := range pl {
						if x != pl[0] {
							wellformed = 0
							break
						}
					}
					if afterAck && w[3] == "1" {
						sawRetained = true
					}
				}
				if !sawRetained {
					flagged = 0
				}
				count++
				mu.Unlock()
			}
		}(k, c)
	}
	done := make(chan struct{})
	go func() { wg.Wait(); close(done) }()
	res := ""
	select {
	case <-done:
	case <-time.After(90 * time.Second):
		res = " TIMEOUT"
	}
	close(stop)
	pub.conn.Close()
	<-pubDone
	return fmt.Sprintf("wellformed=%d ordered=%d count=%d%s", wellformed, flagged, count, res)
}

func genConc(seed int64, n int, tier string, w *bufio.Writer) {
	r := rand.New(rand.NewSource(seed))
	fmt.Fprintln(w, "conc reset")
	for i := 0; i < n; i++ {
		npub := 2 + r.Intn(7)
		nmsg := 20 + r.Intn(60)
		size := pick(r, []int{0, 10, 100, 900, 1500, 3000, 5000, 7000})
		if tier != "thorough" && size > 3000 && nmsg > 40 {
			nmsg = 40
		}
		if i%3 == 2 {
			size = 100000 + pick(r, []int{1200, 3007, 6000})
			nmsg = 120 + r.Intn(200)
			npub = 1 + r.Intn(3)
		}
		if i%8 == 6 {
			// retained updates concurrent to new subscriptions (the stored message is rewritten in place)
			fmt.Fprintf(w, "conc ret %d %d %d %d\n", 2+r.Intn(4), 40+r.Intn(80), pick(r, []int{2000, 20000, 60000}), 256*1024)
			continue
		}
		if i%4 == 3 {
			// overlapping in-process publishes (Server.Publish from several goroutines at once)
			fmt.Fprintf(w, "conc srv %d %d %d\n", 2+r.Intn(7), 100+r.Intn(300), 16384)
			continue
		}
		if i%4 == 1 {
			// packets of at least one read block (8 KiB), so that the receiver refills the very bytes a
			// stalled fan-out still needs as soon as they are released; 32 KiB rings keep these packets
			// out of the range (ring size - 8 KiB, ring size] of finding F3
			fmt.Fprintf(w, "conc lap %d %d %d %d %d\n", 1+r.Intn(2), 12+r.Intn(20), pick(r, []int{8200, 9000, 12000, 3000}), r.Intn(2), 32768)
			continue
		}
		fmt.Fprintf(w, "conc run %d %d %d %d %d\n", npub, nmsg, size, r.Intn(3), 16384)
	}
}

var registerMu sync.Mutex

// registerProviders registers fresh session and topics providers under name.  The library's
// registries were plain package-level maps without a lock (finding G4, repaired: each is guarded
// by its package's providersMu now); the serialisation here predates the repair and is harmless.
func registerProviders(name string) {
	registerMu.Lock()
	defer registerMu.Unlock()
	sessions.Register(name, sessions.NewMemProvider())
	topics.Register(name, topics.NewMemProvider())
}
