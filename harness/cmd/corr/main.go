// corr — correspondence harness: generates operation lines for the Lean driver
// and executes the same lines against the real go-mqtt code (built from /repo
// with -tags verif).
//
//	corr gen <core> [-seed N] [-n N] [-tier quick|thorough]   op lines on stdout
//	corr run                                                  op lines on stdin, impl outputs on stdout
package main

import (
	"bufio"
	"flag"
	"fmt"
	"os"
	"runtime/debug"
	"strings"
	"sync/atomic"
	"time"
)

type core interface {
	// handle executes one op (words after the core name) on the implementation
	// and returns the canonical output line.
	handle(ws []string) string
}

var cores = map[string]func() core{}

type generator func(seed int64, n int, tier string, out *bufio.Writer)

var gens = map[string]generator{}

func main() {
	if len(os.Args) < 2 {
		fmt.Fprintln(os.Stderr, "usage: corr gen <core> ... | corr run")
		os.Exit(2)
	}
	switch os.Args[1] {
	case "gen":
		if len(os.Args) < 3 {
			os.Exit(2)
		}
		fs := flag.NewFlagSet("gen", flag.ExitOnError)
		seed := fs.Int64("seed", 1, "PRNG seed")
		n := fs.Int("n", 1000, "number of operations / cases")
		tier := fs.String("tier", "quick", "quick|thorough")
		fs.Parse(os.Args[3:])
		g, ok := gens[os.Args[2]]
		if !ok {
			fmt.Fprintln(os.Stderr, "unknown generator", os.Args[2])
			os.Exit(2)
		}
		w := bufio.NewWriterSize(os.Stdout, 1<<20)
		g(*seed, *n, *tier, w)
		w.Flush()
	case "run":
		runAll()
	default:
		if !extraCommand(os.Args[1], os.Args[2:]) {
			fmt.Fprintln(os.Stderr, "unknown command", os.Args[1])
			os.Exit(2)
		}
	}
}

// extra commands registered by individual cores (schedulers etc.)
var extras = map[string]func(args []string){}

var timeoutsSeen int

func extraCommand(name string, args []string) bool {
	f, ok := extras[name]
	if ok {
		f(args)
	}
	return ok
}

// opStarted is the start time of the operation in progress (0: none).  An operation the
// implementation never finishes (a lost wake-up, a leaked lock) would otherwise hold the
// stream until the caller's process timeout: the watchdog ends the process instead, and the
// check reports the early end as a crash at this line with the ops so far as the replay.
var opStarted, opLimit int64

// cores whose single operations legitimately take long (whole scenarios, exhaustive sweeps,
// timed keep-alive windows); everything else answers within milliseconds
var slowCores = map[string]time.Duration{
	"ring": 240 * time.Second, "codec": 240 * time.Second, "conc": 240 * time.Second,
	"life": 240 * time.Second, "ka": 240 * time.Second, "broker": 240 * time.Second, "client": 120 * time.Second,
}

func opLimitOf(core string) time.Duration {
	if v, err := time.ParseDuration(os.Getenv("CORR_OP_TIMEOUT")); err == nil && v > 0 {
		return v
	}
	if d, ok := slowCores[core]; ok {
		return d
	}
	return 60 * time.Second
}

func opWatchdog() {
	for {
		time.Sleep(time.Second)
		t, lim := atomic.LoadInt64(&opStarted), time.Duration(atomic.LoadInt64(&opLimit))
		if t != 0 && lim > 0 && time.Since(time.Unix(0, t)) > lim {
			fmt.Fprintf(os.Stderr, "harness: operation did not finish within %v, giving up on this stream\n", lim)
			os.Exit(4)
		}
	}
}

func runAll() {
	defer func() {
		if n := atomic.LoadInt64(&barrierRepeats); n > 0 {
			fmt.Fprintf(os.Stderr, "harness: %d barrier PINGREQ(s) had to be repeated (no answer within 1.5 s)\n", n)
		}
	}()
	go opWatchdog()
	live := map[string]core{}
	in := bufio.NewReaderSize(os.Stdin, 1<<20)
	out := bufio.NewWriterSize(os.Stdout, 1<<20)
	defer out.Flush()
	for {
		line, err := in.ReadString('\n')
		if len(line) == 0 && err != nil {
			break
		}
		line = strings.TrimRight(line, "\r\n")
		ws := strings.Fields(line)
		if len(ws) == 0 {
			fmt.Fprintln(out, "")
			continue
		}
		c, ok := live[ws[0]]
		if !ok {
			mk, ok2 := cores[ws[0]]
			if !ok2 {
				fmt.Fprintln(out, "bad-core")
				continue
			}
			c = mk()
			live[ws[0]] = c
		}
		atomic.StoreInt64(&opLimit, int64(opLimitOf(ws[0])))
		atomic.StoreInt64(&opStarted, time.Now().UnixNano())
		res := safeHandle(c, ws[1:])
		atomic.StoreInt64(&opStarted, 0)
		fmt.Fprintln(out, res)
		out.Flush()
		// a stream on which the implementation keeps missing its deadlines is cut short: every
		// further event would cost another deadline (the check reports the early end as a crash
		// at this line, with the ops so far as the replay)
		if strings.Contains(res, "TIMEOUT") || strings.Contains(res, "hang") {
			timeoutsSeen++
			if timeoutsSeen > 12 {
				fmt.Fprintln(os.Stderr, "harness: too many timeouts, giving up on this stream")
				os.Exit(3)
			}
		}
		if err != nil {
			break
		}
	}
}

// safeHandle turns a panic of the implementation into an output line, so the
// stream stays aligned with the model's.
func safeHandle(c core, ws []string) (res string) {
	defer func() {
		if r := recover(); r != nil {
			fmt.Fprintf(os.Stderr, "harness: panic in %v: %v\n%s\n", ws, r, debug.Stack())
			res = "panic"
		}
	}()
	return c.handle(ws)
}
