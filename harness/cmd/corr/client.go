package main

// Client role — the real service.Client against a scripted TCP peer on
// 127.0.0.1.  After every event the peer sends a PINGREQ to the client and
// waits for the PINGRESP (the client answers PINGREQ like any endpoint); what
// the peer received before it and what the callbacks logged is the event's
// output.

import (
	"bufio"
	"fmt"
	"io"
	"math/rand"
	"net"
	"sort"
	"strconv"
	"strings"
	"sync"
	"sync/atomic"
	"time"

	"github.com/mdzio/go-mqtt/message"
	"github.com/mdzio/go-mqtt/service"
)

var clientSeq int

// earlyGrace: how long an `early` op keeps the call inside its ack window after the
// acknowledgement (and a PINGREQ behind it) went out, waiting for the PINGRESP.
const earlyGrace = 15 * time.Millisecond

type clientCore struct {
	ln    net.Listener
	cln   *service.Client
	peer  net.Conn
	rd    *peerReader
	mu    sync.Mutex
	log   []string
	armed bool
	pendingBarrierPongs int
	pingsSent int
	episode int // connects so far: every Connect uses its own client id (see connect)
	stopTarget int64 // value of clientStops once the current client has been torn down
	inWin chan struct{}
	relse chan struct{}
	// message callback ids used by the Subscribe calls of this episode.  A callback id stands for
	// the *request*: service.subscribe allocates one &onPublish pointer per call, and the client
	// invokes each pointer once per delivered message.  A second Subscribe under a used id would be
	// a different pointer with the same label, so such a line is refused (bad-op) on both sides.
	usedCb map[int]bool
	// completion tag -> packet identifier the request was written with (what the peer received).
	// An acknowledgement on an op line may name its request as #<tag>: the scripted peer then
	// acknowledges the identifier it received, whatever the library assigned.
	written map[int]int
}

// apiReq: wire name and completion tag of a request that carries a packet identifier.
func apiReq(api []string) (name string, tag int, ok bool) {
	switch api[0] {
	case "pub":
		if len(api) >= 8 && api[2] != "0" {
			return "PUB", atoi(api[7]), true
		}
	case "sub":
		if len(api) >= 5 {
			return "SUBSCRIBE", atoi(api[3]), true
		}
	case "unsub":
		if len(api) >= 4 {
			return "UNSUBSCRIBE", atoi(api[3]), true
		}
	}
	return "", 0, false
}

// noteWritten records the identifier of the request of `api` among the packets the peer received.
func (c *clientCore) noteWritten(api []string, items []string) {
	name, tag, ok := apiReq(api)
	if !ok {
		return
	}
	for _, it := range items {
		f := strings.Fields(strings.TrimPrefix(it, "W "))
		if len(f) == 0 || f[0] != name {
			continue
		}
		k := 1
		if name == "PUB" {
			k = 5
		}
		if len(f) > k {
			if c.written == nil {
				c.written = map[int]int{}
			}
			c.written[tag] = atoi(f[k])
			return
		}
	}
}

// resolveRefs replaces every word #<tag> by the identifier recorded for that tag (0 if none).
func (c *clientCore) resolveRefs(ws []string) []string {
	out := make([]string, len(ws))
	for i, w := range ws {
		if strings.HasPrefix(w, "#") {
			w = strconv.Itoa(c.written[atoi(w[1:])])
		}
		out[i] = w
	}
	return out
}

func hasRef(ws []string) bool {
	for _, w := range ws {
		if strings.HasPrefix(w, "#") {
			return true
		}
	}
	return false
}

// subCbReused reports whether the api words are a Subscribe whose callback id was used before in
// this episode; otherwise it records the id.
func (c *clientCore) subCbReused(api []string) bool {
	if len(api) < 5 || api[0] != "sub" {
		return false
	}
	cb := atoi(api[4])
	if c.usedCb[cb] {
		return true
	}
	if c.usedCb == nil {
		c.usedCb = map[int]bool{}
	}
	c.usedCb[cb] = true
	return false
}

func init() {
	cores["client"] = func() core { c := &clientCore{}; c.install(); return c }
	gens["client"] = genClient
}

// clientStops counts completed service.stop calls (verif hook at the end of stop).
var clientStops int64

func (c *clientCore) install() {
	// service.stop ends with topics.Unregister (a process-global, unsynchronised map) and may still be
	// running in the client's receiver goroutine when Client.Disconnect has already returned (the
	// second caller of stop returns at once): teardown waits for the hook before the next Connect
	// registers its provider.
	prev := service.VerifOnStopped
	service.VerifOnStopped = func(conn io.Closer) {
		atomic.AddInt64(&clientStops, 1)
		if prev != nil {
			prev(conn)
		}
	}
	service.VerifAckWindow = func(conn io.Closer, kind string) {
		c.mu.Lock()
		armed := c.armed
		c.armed = false
		c.mu.Unlock()
		if armed {
			c.inWin <- struct{}{}
			<-c.relse
		}
	}
}

// peerReader parses what the client writes.
type peerReader struct {
	mu    sync.Mutex
	cond  *sync.Cond
	items []string
	pongs int
	eof   bool
}

func wParseC2S(buf []byte) (string, int, error) {
	if len(buf) < 2 {
		return "", 0, errNeedMore
	}
	ptype := int(buf[0] >> 4)
	switch ptype {
	case 1, 8, 10, 12, 14:
		rem, mult, i := 0, 1, 1
		for {
			if i >= len(buf) {
				return "", 0, errNeedMore
			}
			d := buf[i]
			rem += int(d&0x7f) * mult
			mult *= 128
			i++
			if d&0x80 == 0 {
				break
			}
			if i > 4 {
				return "", 0, fmt.Errorf("bad remaining length")
			}
		}
		if len(buf) < i+rem {
			return "", 0, errNeedMore
		}
		body := buf[i : i+rem]
		total := i + rem
		switch ptype {
		case 1:
			return "CONNECT", total, nil
		case 12:
			if rem != 0 {
				return "", 0, fmt.Errorf("bad PINGREQ")
			}
			return "PINGREQ", total, nil
		case 14:
			return "DISCONNECT", total, nil
		case 8, 10:
			if buf[0]&0xf != 2 || len(body) < 2 {
				return "", 0, fmt.Errorf("bad (UN)SUBSCRIBE %x", buf[:total])
			}
			id := int(body[0])<<8 | int(body[1])
			rest := body[2:]
			var parts []string
			for len(rest) > 0 {
				if len(rest) < 2 {
					return "", 0, fmt.Errorf("bad topic list %x", buf[:total])
				}
				l := int(rest[0])<<8 | int(rest[1])
				if len(rest) < 2+l {
					return "", 0, fmt.Errorf("bad topic list %x", buf[:total])
				}
				t := rest[2 : 2+l]
				rest = rest[2+l:]
				if ptype == 8 {
					if len(rest) < 1 {
						return "", 0, fmt.Errorf("missing qos %x", buf[:total])
					}
					parts = append(parts, fmt.Sprintf("%s:%d", hexOf(t), rest[0]))
					rest = rest[1:]
				} else {
					parts = append(parts, hexOf(t))
				}
			}
			name := "SUBSCRIBE"
			if ptype == 10 {
				name = "UNSUBSCRIBE"
			}
			return fmt.Sprintf("%s %d %s", name, id, strings.Join(parts, ",")), total, nil
		}
	}
	return wParse(buf)
}

func (p *peerReader) run(conn net.Conn) {
	var buf []byte
	tmp := make([]byte, 65536)
	for {
		n, err := conn.Read(tmp)
		p.mu.Lock()
		if n > 0 {
			buf = append(buf, tmp[:n]...)
			for {
				text, k, perr := wParseC2S(buf)
				if perr == errNeedMore {
					break
				}
				if perr != nil {
					p.items = append(p.items, "MALFORMED")
					buf = nil
					break
				}
				if text == "PINGRESP" {
					p.pongs++
				}
				p.items = append(p.items, text)
				buf = buf[k:]
			}
		}
		if err != nil {
			p.eof = true
			p.cond.Broadcast()
			p.mu.Unlock()
			return
		}
		p.cond.Broadcast()
		p.mu.Unlock()
	}
}

func (p *peerReader) waitUntil(pred func() bool, d time.Duration) bool {
	deadline := time.Now().Add(d)
	t := time.AfterFunc(d, func() { p.mu.Lock(); p.cond.Broadcast(); p.mu.Unlock() })
	defer t.Stop()
	p.mu.Lock()
	defer p.mu.Unlock()
	for !pred() {
		if time.Now().After(deadline) {
			return false
		}
		p.cond.Wait()
	}
	return true
}

func (c *clientCore) teardown() {
	if c.peer != nil {
		c.peer.Close()
	}
	if c.cln != nil {
		done := make(chan struct{})
		go func() { defer func() { recover(); close(done) }(); c.cln.Disconnect() }()
		select {
		case <-done:
		case <-time.After(3 * time.Second):
		}
		// … and for the teardown itself (it may run in the client's own goroutine)
		for deadline := time.Now().Add(3 * time.Second); atomic.LoadInt64(&clientStops) < c.stopTarget && time.Now().Before(deadline); {
			time.Sleep(200 * time.Microsecond)
		}
	}
	if c.ln != nil {
		c.ln.Close()
	}
	c.cln, c.peer, c.ln, c.rd = nil, nil, nil, nil
}

func (c *clientCore) addLog(s string) {
	c.mu.Lock()
	c.log = append(c.log, s)
	c.mu.Unlock()
}

func (c *clientCore) onComplete(tag int) service.OnCompleteFunc {
	if tag == 0 {
		return nil
	}
	return func(msg, ack message.Message, err error) error {
		c.addLog(fmt.Sprintf("DONE %d %s", tag, b01(err != nil)))
		return nil
	}
}

func (c *clientCore) onPublish(cb int) service.OnPublishFunc {
	return func(m *message.PublishMessage) error {
		p := wPub{dup: m.Dup(), qos: int(m.QoS()), retain: m.Retain(), topic: append([]byte{}, m.Topic()...),
			id: int(m.PacketID()), payload: append([]byte{}, m.Payload()...)}
		if p.qos == 0 {
			p.id = 0
		}
		c.addLog(fmt.Sprintf("CB %d %s", cb, p.String()))
		return nil
	}
}

// barrier: PINGREQ from the peer, wait for the client's PINGRESP (repeated once, see broker.go).
func (c *clientCore) barrier() bool {
	for attempt := 0; attempt < 2; attempt++ {
		c.peer.SetWriteDeadline(time.Now().Add(brokerWait))
		if _, err := c.peer.Write([]byte{0xc0, 0x00}); err != nil {
			return false
		}
		c.pendingBarrierPongs++
		c.pingsSent++
		want := c.pingsSent
		d := 300 * time.Millisecond
		if attempt == 1 {
			d = brokerWait
		}
		if c.rd.waitUntil(func() bool { return c.rd.pongs >= want || c.rd.eof }, d) {
			return true
		}
	}
	return false
}

// collect: W items (arrival order), then DONE items (firing order), then CB items (sorted).
func (c *clientCore) collect(extra []string, ok bool) string {
	c.rd.mu.Lock()
	items := c.rd.items
	c.rd.items = nil
	c.rd.mu.Unlock()
	var w []string
	pongs := 0
	for _, it := range items {
		if it == "PINGRESP" {
			pongs++
		}
	}
	// the barrier's own PINGRESPs are the last ones
	drop := c.pendingBarrierPongs
	c.pendingBarrierPongs = 0
	for i := len(items) - 1; i >= 0 && drop > 0; i-- {
		if items[i] == "PINGRESP" {
			items = append(items[:i:i], items[i+1:]...)
			drop--
		}
	}
	for _, it := range items {
		w = append(w, "W "+it)
	}
	c.mu.Lock()
	log := c.log
	c.log = nil
	c.mu.Unlock()
	var done, cbs []string
	for _, l := range log {
		if strings.HasPrefix(l, "CB ") {
			cbs = append(cbs, l)
		} else {
			done = append(done, l)
		}
	}
	sort.Strings(cbs)
	all := append(append(append(extra, w...), done...), cbs...)
	if !ok {
		all = append(all, "TIMEOUT")
	}
	if len(all) == 0 {
		return "-"
	}
	return strings.Join(all, ";")
}

func (c *clientCore) sync() bool { return c.barrier() }

func peerPacketBytes(ws []string) []byte {
	switch ws[0] {
	case "publish":
		return parseWPub(ws[1:]).encode()
	case "puback":
		return wAck(4, atoi(ws[1]))
	case "pubrec":
		return wAck(5, atoi(ws[1]))
	case "pubrel":
		return wAck(6, atoi(ws[1]))
	case "pubcomp":
		return wAck(7, atoi(ws[1]))
	case "unsuback":
		return wAck(11, atoi(ws[1]))
	case "suback":
		body := wID(atoi(ws[1]))
		if ws[2] != "-" {
			for _, cs := range strings.Split(ws[2], ",") {
				body = append(body, byte(atoi(cs)))
			}
		}
		return wPacket(0x90, body)
	case "pingreq":
		return []byte{0xc0, 0x00}
	case "pingresp":
		return []byte{0xd0, 0x00}
	}
	return nil
}

func (c *clientCore) doAPI(ws []string) error {
	switch ws[0] {
	case "pub":
		p := parseWPub(ws[1:7])
		m := message.NewPublishMessage()
		m.SetTopic(p.topic)
		m.SetQoS(byte(p.qos))
		m.SetRetain(p.retain)
		m.SetDup(p.dup)
		if p.id > 0 {
			m.SetPacketID(uint16(p.id))
		}
		m.SetPayload(p.payload)
		return c.cln.Publish(m, c.onComplete(atoi(ws[7])))
	case "sub":
		m := message.NewSubscribeMessage()
		if id := atoi(ws[1]); id > 0 {
			m.SetPacketID(uint16(id))
		}
		for _, e := range strings.Split(ws[2], ",") {
			f := strings.Split(e, ":")
			m.AddTopic(unhex(f[0]), byte(atoi(f[1])))
		}
		return c.cln.Subscribe(m, c.onComplete(atoi(ws[3])), c.onPublish(atoi(ws[4])))
	case "unsub":
		m := message.NewUnsubscribeMessage()
		if id := atoi(ws[1]); id > 0 {
			m.SetPacketID(uint16(id))
		}
		for _, e := range strings.Split(ws[2], ",") {
			m.AddTopic(unhex(e))
		}
		return c.cln.Unsubscribe(m, c.onComplete(atoi(ws[3])))
	case "ping":
		return c.cln.Ping(c.onComplete(atoi(ws[1])))
	}
	return fmt.Errorf("bad api")
}

// handle: a `connect` whose CONNACK is sent in two segments has a timing element of the harness's own
// (a pause between the segments, inside the client's connect timeout): a CONNECTERR there is retried
// once with a fresh listener before it is reported.
func (c *clientCore) handle(ws []string) string {
	res := c.handle1(ws)
	if res == "CONNECTERR" && len(ws) > 1 && ws[0] == "connect" && ws[1] == "connacks" {
		res = c.handle1(ws)
	}
	return res
}

func (c *clientCore) handle1(ws []string) string {
	switch ws[0] {
	case "reset":
		c.teardown()
		// the counter behind automatic packet identifiers is process-wide: every episode starts
		// with it at 0, on both sides
		message.VerifSetPacketCounter(0)
		c.log = nil
		c.pendingBarrierPongs = 0
		c.pingsSent = 0
		c.usedCb = nil
		c.written = nil
		return "reset"
	case "setctr":
		// other users of the process-wide counter have advanced it to this value
		if len(ws) != 2 {
			return "bad-op"
		}
		v, err := strconv.ParseUint(ws[1], 10, 64)
		if err != nil {
			return "bad-op"
		}
		message.VerifSetPacketCounter(v)
		return "setctr"
	case "connect":
		ln, err := net.Listen("tcp", "127.0.0.1:0")
		if err != nil {
			return "listen-failed"
		}
		c.ln = ln
		answer := ws[1:]
		accepted := make(chan net.Conn, 1)
		go func() {
			conn, err := ln.Accept()
			if err != nil {
				accepted <- nil
				return
			}
			// read the CONNECT
			buf := make([]byte, 0, 256)
			tmp := make([]byte, 256)
			conn.SetReadDeadline(time.Now().Add(3 * time.Second))
			for {
				n, err := conn.Read(tmp)
				buf = append(buf, tmp[:n]...)
				if _, _, perr := wParseC2S(buf); perr == nil || err != nil {
					break
				}
			}
			conn.SetReadDeadline(time.Time{})
			switch answer[0] {
			case "connack":
				sp := byte(atoi(answer[1]))
				conn.Write([]byte{0x20, 0x02, sp, byte(atoi(answer[2]))})
			case "connacks":
				// the same CONNACK in two segments (fixed header and flags, then - a moment later - the
				// return code): a reader must not take a short read for the whole packet
				sp := byte(atoi(answer[1]))
				conn.Write([]byte{0x20, 0x02, sp})
				time.Sleep(30 * time.Millisecond)
				conn.Write([]byte{byte(atoi(answer[2]))})
			case "bad":
				conn.Write([]byte{0x20, 0x02, 0x00, 0x09}) // return code out of range
			case "other":
				conn.Write([]byte{0xd0, 0x00})
			case "close":
				conn.Close()
			}
			accepted <- conn
		}()
		cln := &service.Client{}
		msg := message.NewConnectMessage()
		msg.SetVersion(4)
		// service.Client.Connect registers a topics provider under the client id in a process-global
		// registry and panics on a duplicate; a previous episode's Disconnect that is still running
		// (teardown waits at most 3 s) must not make this Connect panic: one id per Connect.
		c.episode++
		msg.SetClientID([]byte(fmt.Sprintf("subject%d", c.episode)))
		msg.SetCleanSession(true)
		msg.SetKeepAlive(300)
		err = cln.Connect("tcp://"+ln.Addr().String(), msg)
		conn := <-accepted
		if err == nil {
			c.stopTarget = atomic.LoadInt64(&clientStops) + 1
			c.cln, c.peer = cln, conn
			c.rd = &peerReader{}
			c.rd.cond = sync.NewCond(&c.rd.mu)
			c.inWin, c.relse = make(chan struct{}), make(chan struct{})
			go c.rd.run(conn)
			ok := c.sync()
			return c.collect([]string{"CONNECTED"}, ok)
		}
		if conn != nil {
			conn.Close()
		}
		ln.Close()
		c.ln = nil
		if code, ok := err.(message.ConnackCode); ok {
			return fmt.Sprintf("REFUSED %d", code)
		}
		return "CONNECTERR"
	case "api":
		if c.subCbReused(ws[1:]) {
			return "bad-op"
		}
		if c.cln == nil {
			return "apierr"
		}
		err := c.doAPI(ws[1:])
		ok := c.sync()
		var extra []string
		if err != nil {
			extra = []string{"apierr"}
		}
		out := c.collect(extra, ok)
		c.noteWritten(ws[1:], strings.Split(out, ";"))
		return out
	case "peer":
		if c.cln == nil {
			return "-"
		}
		if ws[1] == "pingreq" {
			// a PINGREQ event: its PINGRESP is part of the output
			c.peer.Write([]byte{0xc0, 0x00})
			c.pingsSent++
			ok := c.sync()
			return c.collect(nil, ok)
		}
		c.peer.SetWriteDeadline(time.Now().Add(brokerWait))
		c.peer.Write(peerPacketBytes(c.resolveRefs(ws[1:])))
		ok := c.sync()
		return c.collect(nil, ok)
	case "early":
		var api, ack []string
		for i, w := range ws {
			if w == "|" {
				api, ack = ws[1:i], ws[i+1:]
			}
		}
		if c.subCbReused(api) {
			return "bad-op"
		}
		if c.cln == nil {
			return "apierr"
		}
		if len(api) >= 3 && api[0] == "pub" && api[2] == "0" {
			// a QoS 0 publish registers nothing (and takes no lock): there is no window; the call,
			// then the packet
			err := c.doAPI(api)
			c.peer.SetWriteDeadline(time.Now().Add(brokerWait))
			c.peer.Write(peerPacketBytes(c.resolveRefs(ack)))
			ok := c.sync()
			var extra []string
			if err != nil {
				extra = []string{"apierr"}
			}
			return c.collect(extra, ok)
		}
		c.mu.Lock()
		c.armed = true
		c.mu.Unlock()
		errc := make(chan error, 1)
		go func() { errc <- c.doAPI(api) }()
		select {
		case <-c.inWin:
		case <-time.After(brokerWait):
			return "NO-WINDOW"
		}
		// the call now sits between the write of its request and the registration
		ok0 := true
		if hasRef(ack) {
			// the acknowledgement may name the request being made: the peer has to have read it
			ok0 = c.sync()
			c.rd.mu.Lock()
			c.noteWritten(api, c.rd.items)
			c.rd.mu.Unlock()
		}
		c.peer.SetWriteDeadline(time.Now().Add(brokerWait))
		c.peer.Write(peerPacketBytes(c.resolveRefs(ack)))
		// The acknowledgement reaches the client inside the window, a PINGREQ right behind it.  A
		// library that processes the acknowledgement inside the window answers the PINGREQ at
		// once (and has then dropped the acknowledgement: E5).  The repaired library holds the
		// acknowledgement back until the request is registered (service.ackmu), so the PINGRESP
		// cannot come before the call is let go: wait a bounded time for it, then end the window.
		// Either way the acknowledgement has been processed when the PINGRESP of the final
		// barrier arrives, and the output of the op does not depend on the waiting time.
		c.peer.Write([]byte{0xc0, 0x00})
		c.pendingBarrierPongs++
		c.pingsSent++
		want := c.pingsSent
		c.rd.waitUntil(func() bool { return c.rd.pongs >= want || c.rd.eof }, earlyGrace)
		c.relse <- struct{}{}
		var err error
		ok1 := true
		select {
		case err = <-errc:
		case <-time.After(brokerWait):
			ok1 = false
		}
		ok2 := c.sync()
		var extra []string
		if err != nil {
			extra = []string{"apierr"}
		}
		out := c.collect(extra, ok0 && ok1 && ok2)
		c.noteWritten(api, strings.Split(out, ";"))
		return out
	}
	return "bad-op"
}

// ---- generation -----------------------------------------------------------

func genClient(seed int64, n int, tier string, w *bufio.Writer) {
	r := rand.New(rand.NewSource(seed))
	emit := func(format string, a ...interface{}) { fmt.Fprintf(w, "client "+format+"\n", a...) }
	names := []string{"a", "a/b", "a/c", "b", "x/y"}
	filts := []string{"a", "a/b", "a/+", "a/#", "#", "b", "+/b", "x/+"}
	for done := 0; done < n; {
		emit("reset")
		// An acknowledgement may reach the client while the sending call is between the write of its
		// request and the registration (`early <call> | <packet>`): in every episode now and then, in
		// one episode in eight for a third of the calls.  Mostly it is the call's own acknowledgement;
		// sometimes that of an older request in flight (the new request then stays in flight), and
		// for pings the PINGRESP answers the oldest ping outstanding, whichever call it interrupts.
		earlyHeavy := r.Intn(8) == 0
		early := func(n int) bool {
			if earlyHeavy {
				return r.Intn(3) == 0
			}
			return r.Intn(n) == 0
		}
		// pings carry no identifier: any number may be outstanding.  Some episodes are ping-heavy
		// (several outstanding pings, PINGRESPs interleaved with the other acknowledgements, more
		// PINGRESPs than pings).
		pingy := r.Intn(4) == 0
		if r.Intn(8) == 0 {
			switch r.Intn(4) {
			case 0:
				emit("connect %s 0 %d", pick(r, []string{"connack", "connack", "connacks"}), 1+r.Intn(5))
			case 1:
				emit("connect bad")
			case 2:
				emit("connect other")
			default:
				emit("connect close")
			}
			done++
			emit("api ping 1")
			done++
			continue
		}
		emit("connect %s %d 0", pick(r, []string{"connack", "connack", "connack", "connacks"}), r.Intn(2))
		done++
		// Automatic identifiers.  One episode in five starts with the process-wide counter a few
		// steps before its low 16 bits wrap (also far up in the 64-bit range), so that identifiers
		// are assigned across the wrap while requests are in flight; in these and in a quarter of
		// the other episodes most requests leave the identifier to the library.  Their
		// acknowledgements name the request (#<tag>): the peer acknowledges the identifier it
		// received.  Caller-supplied identifiers and the identifiers of stray acknowledgements are
		// then taken from ranges the counter does not reach within an episode (a caller-supplied
		// identifier equal to an automatic one in flight is a different matter: see NOTES-client-ids.md).
		wrap := r.Intn(5) == 0
		auto := wrap || r.Intn(4) == 0
		if wrap {
			var k uint64
			switch r.Intn(4) {
			case 0:
				k = 0
			case 1:
				k = uint64(1 + r.Intn(3))
			case 2:
				k = uint64(r.Int63n(1 << 47))
			default:
				k = 1<<48 - 1 // the 64-bit counter itself wraps
			}
			emit("setctr %d", k<<16+uint64(65530+r.Intn(6)))
			done++
		}
		nextID, tag, cb := 1, 0, 0
		stray := 0
		if auto {
			nextID, stray = 20000, 40000
		}
		ownID := func() (int, string) { // identifier field of the op line, name of the request in acknowledgements
			if auto && r.Intn(3) != 0 {
				return 0, fmt.Sprintf("#%d", tag)
			}
			id := nextID
			nextID++
			return id, fmt.Sprint(id)
		}
		var flight1, flight2, subsF, unsubsF []string
		var inbound2 []int
		recd := map[string]bool{}
		pingsOut := 0
		eplen := 10 + r.Intn(50)
		for i := 0; i < eplen && done < n; i++ {
			done++
			tag++
			pub := func() string {
				q := r.Intn(3)
				id, ref := 0, ""
				if q > 0 {
					id, ref = ownID()
				}
				pl := make([]byte, r.Intn(4))
				r.Read(pl)
				if q == 1 {
					flight1 = append(flight1, ref)
				}
				if q == 2 {
					flight2 = append(flight2, ref)
				}
				return fmt.Sprintf("pub 0 %d %d %s %d %s %d", q, r.Intn(2), hexStr(pick(r, names)), id, hexOf(pl), tag)
			}
			ackFor := func(api string) string {
				f := strings.Fields(api)
				name := func(id, tag string) string {
					if id == "0" {
						return "#" + tag
					}
					return id
				}
				switch f[0] {
				case "pub":
					if f[2] == "1" {
						return "puback " + name(f[5], f[7])
					}
					if f[2] == "2" {
						return "pubcomp " + name(f[5], f[7])
					}
				case "sub":
					return "suback " + name(f[1], f[3]) + " 1"
				case "unsub":
					return "unsuback " + name(f[1], f[3])
				case "ping":
					return "pingresp"
				}
				return ""
			}
			k := r.Intn(100)
			if pingy && r.Intn(4) == 0 {
				k = 95 + r.Intn(5)
			}
			switch {
			case k < 22:
				older1 := ""
				if len(flight1) > 0 {
					older1 = flight1[0]
				}
				a := pub()
				if ackFor(a) != "" && early(25) {
					if older1 != "" && r.Intn(4) == 0 {
						// the PUBACK of the oldest QoS 1 publish in flight arrives inside this call's window
						emit("early %s | puback %s", a, older1)
						flight1 = flight1[1:]
					} else {
						// acknowledged at once: no longer in flight for the generator (a PUBREC after
						// the PUBCOMP would be a peer protocol violation, see "PUBREC precedes PUBCOMP")
						emit("early %s | %s", a, ackFor(a))
						switch strings.Fields(a)[2] {
						case "1":
							flight1 = flight1[:len(flight1)-1]
						case "2":
							flight2 = flight2[:len(flight2)-1]
						}
					}
				} else {
					emit("api %s", a)
				}
			case k < 34:
				cb++
				cnt := 1 + r.Intn(3)
				nonOverlap := r.Intn(3) == 0 // one request in three: pairwise non-overlapping filters
				var parts []string
				used := map[string]bool{}
				for j := 0; j < cnt; j++ {
					// any filters: those of one request may overlap (a/+ with a/b, # with everything),
					// its callback then still gets a matching message once
					f := pick(r, filts)
					if nonOverlap {
						f = []string{"a", "b", "x/+"}[j%3]
						if r.Intn(2) == 0 {
							f = []string{"a/b", "b", "x/y"}[j%3]
						}
					}
					if used[f] {
						continue
					}
					used[f] = true
					parts = append(parts, fmt.Sprintf("%s:%d", hexStr(f), r.Intn(3)))
				}
				id, ref := ownID()
				if early(25) {
					var codes []string
					for range parts {
						codes = append(codes, pick(r, []string{"0", "1", "2", "2", "128"}))
					}
					emit("early sub %d %s %d %d | suback %s %s", id, strings.Join(parts, ","), tag, cb, ref, strings.Join(codes, ","))
				} else {
					subsF = append(subsF, ref)
					emit("api sub %d %s %d %d", id, strings.Join(parts, ","), tag, cb)
				}
			case k < 44:
				if len(subsF) > 0 {
					j := 0
					if r.Intn(3) == 0 {
						j = r.Intn(len(subsF))
					}
					id := subsF[j]
					subsF = append(subsF[:j], subsF[j+1:]...)
					codes := []string{fmt.Sprint(r.Intn(3))}
					for r.Intn(2) == 0 && len(codes) < 3 {
						codes = append(codes, pick(r, []string{"0", "1", "2", "128"}))
					}
					emit("peer suback %s %s", id, strings.Join(codes, ","))
				} else {
					emit("peer suback %d 0", stray+1+r.Intn(20))
				}
			case k < 62:
				q := r.Intn(3)
				id := 0
				if q > 0 {
					id = 100 + r.Intn(6)
				}
				if q == 2 {
					inbound2 = append(inbound2, id)
				}
				pl := make([]byte, 1+r.Intn(3))
				r.Read(pl)
				emit("peer publish %d %d %d %s %d %s", b2i(q == 2 && r.Intn(5) == 0), q, r.Intn(2), hexStr(pick(r, names)), id, hexOf(pl))
			case k < 68:
				id := 100 + r.Intn(6)
				if len(inbound2) > 0 && r.Intn(5) != 0 {
					j := r.Intn(len(inbound2))
					id = inbound2[j]
					inbound2 = append(inbound2[:j], inbound2[j+1:]...)
				}
				emit("peer pubrel %d", id)
			case k < 78:
				if len(flight1) > 0 {
					j := 0
					if r.Intn(3) == 0 {
						j = r.Intn(len(flight1))
					}
					emit("peer puback %s", flight1[j])
					flight1 = append(flight1[:j], flight1[j+1:]...)
				} else {
					emit("peer puback %d", stray+1+r.Intn(30))
				}
			case k < 88:
				if len(flight2) > 0 {
					j := 0
					if r.Intn(3) == 0 {
						j = r.Intn(len(flight2))
					}
					if !recd[flight2[j]] && r.Intn(4) != 0 {
						emit("peer pubrec %s", flight2[j]) // PUBREC precedes PUBCOMP, never follows it
						recd[flight2[j]] = true
					} else {
						emit("peer pubcomp %s", flight2[j])
						flight2 = append(flight2[:j], flight2[j+1:]...)
					}
				} else {
					emit("peer pubrec %d", stray+200+r.Intn(30))
				}
			case k < 92:
				id, ref := ownID()
				var parts []string
				for j := 0; j < 1+r.Intn(2); j++ {
					parts = append(parts, hexStr(pick(r, filts)))
				}
				if early(25) {
					emit("early unsub %d %s %d | unsuback %s", id, strings.Join(parts, ","), tag, ref)
				} else {
					unsubsF = append(unsubsF, ref)
					emit("api unsub %d %s %d", id, strings.Join(parts, ","), tag)
				}
			case k < 95:
				if len(unsubsF) > 0 {
					emit("peer unsuback %s", unsubsF[0])
					unsubsF = unsubsF[1:]
				} else {
					emit("peer unsuback %d", stray+1+r.Intn(30))
				}
			case k < 98:
				// another ping, whether or not earlier ones are outstanding (fewer the more there are)
				if r.Intn(2+pingsOut) <= 1 {
					t := tag
					if r.Intn(10) == 0 {
						t = 0 // no completion callback: still takes its PINGRESP
					}
					if early(8) {
						// with pings outstanding the PINGRESP answers the oldest of them and this ping
						// queues behind the rest: the number outstanding stays the same
						emit("early ping %d | pingresp", t)
					} else {
						emit("api ping %d", t)
						pingsOut++
					}
				} else {
					emit("peer pingresp")
					pingsOut--
				}
			default:
				if r.Intn(2) == 0 {
					emit("peer pingresp") // possibly with no ping outstanding
					if pingsOut > 0 {
						pingsOut--
					}
				} else {
					emit("peer pingreq")
				}
			}
		}
	}
}
